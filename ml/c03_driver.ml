(* Driver for the extracted C03 models.  No logic: parse case lines, call the model, print one canonical
   result line per case.
   W                                  -> one line per necessity witness:  W <name> <class> <site> <hex> R=<class>/<site>|OK
   H <id> <fixed|prefix> <ops>        ops = comma separated  a<dictID>:<handle> (addDDict) | g<dictID> (getDDict)
                                      -> H <id> OK size=<n> count=<n> tab=<idx>:<dictID>:<handle>;... gets=<dictID>:<handle>|-;...
                                       | H <id> OOB <idx> | H <id> FULL | H <id> NOTERM
   N <id> <check|nocheck> <obs>       obs = string over P (progress) F (stalled, output full) E (stalled, input empty)
                                      B (stalled, both) X (stalled, neither)
                                      -> N <id> <counter after each call, comma separated>[,ERRF|,ERRE]
   P <id> <raw|rle|huf1|huf4> <blockSizeMax> <dstCapacity> <srcSize> <lhSize> <litSize> <litCSize> <streaming 0|1>
                                      -> P <id> OK loc=<0|1|2> ptr=<dst|extra|src>+<off> end=<region>+<off> used=<n> n=<litSize>
                                       | P <id> ERR <LitGtBlock|FourStreams|CSizeGtSrc|DstTooSmall|RawGtSrc>
   G <id> <windowSize> <frameContentSize> <blockSizeMax> <r1,r2,...>   block sizes in order
                                      -> G <id> size=<ZSTD_decodingBufferSize_internal> starts=<outStart after each block, -1 = refused>
   C <id> <asis|fixed> <ops>          ops = ;-separated  i<addr>:<n> (ZSTD_insertBlock) | d<addr>:<cap>:<r> (ZSTD_decompressBlock ok) | e<addr>:<cap> (error)
                                      -> C <id> <previousDstEnd,prefixStart,virtualStart,dictEnd; after each call>
   T <id> <asis|fixed> <ctx> <ops>    ops = ;-separated  b<c> (ZSTD_decompressBegin[_usingDict]) | u<c>:<ddict> (Begin_usingDDict) | k<c>:<4 letters r|d|p> (block: repeat /
                                      described / predefined for LL, ML, OF, HUF) | c<dst>:<src> (ZSTD_copyDCtx)
                                      -> T <id> <4 letters for LLTptr, MLTptr, OFTptr, HUFptr of context ctx: o own struct, s another context's struct, x elsewhere> | T <id> none
   UH <id> <srchex>                   R's reader of a Huffman tree description (table log limit 12 = HUF_TABLELOG_MAX)
                                      -> UH <id> OK used=<n> log=<n> w=<weight,...>  |  UH <id> ERR <class>/<site>
   UN <id> <maxSymbolValue> <srchex>  R's reader of an FSE table description (accuracy log limit 15 = FSE_TABLELOG_ABSOLUTE_MAX)
                                      -> UN <id> OK used=<n> log=<n> c=<count,...>   |  UN <id> ERR <class>/<site> *)
open C03model

let rec pos_of_int i = if i = 1 then XH else if i land 1 = 0 then XO (pos_of_int (i lsr 1)) else XI (pos_of_int (i lsr 1))
let n_of_int i = if i = 0 then N0 else Npos (pos_of_int i)
let rec int_of_pos = function XH -> 1 | XO p -> 2 * int_of_pos p | XI p -> 2 * int_of_pos p + 1
let int_of_n = function N0 -> 0 | Npos p -> int_of_pos p

let z_of_int i = if i = 0 then Z0 else if i > 0 then Zpos (pos_of_int i) else Zneg (pos_of_int (- i))
let int_of_z = function Z0 -> 0 | Zpos p -> int_of_pos p | Zneg p -> - (int_of_pos p)

let hex_of_bytes l =
  match l with [] -> "-" | _ ->
  let b = Buffer.create 1024 in
  List.iter (fun x -> Buffer.add_string b (Printf.sprintf "%02x" (int_of_n x))) l; Buffer.contents b

let bytes_of_hex s =
  if s = "-" then [] else
  let n = String.length s / 2 in
  let rec go i acc = if i < 0 then acc else go (i - 1) (n_of_int (int_of_string ("0x" ^ String.sub s (2 * i) 2)) :: acc) in
  go (n - 1) []

let class_name = function
  | Etrunc -> "trunc" | Eformat -> "format" | Esafety -> "safety" | Eintegrity -> "integrity"
  | Elimit -> "limit" | Edict -> "dict" | Efuel -> "fuel"

let char_of_ascii (Ascii (b0, b1, b2, b3, b4, b5, b6, b7)) =
  let v b k = if b then 1 lsl k else 0 in
  Char.chr (v b0 0 + v b1 1 + v b2 2 + v b3 3 + v b4 4 + v b5 5 + v b6 6 + v b7 7)
let rec ocaml_string = function EmptyString -> "" | String (a, s) -> String.make 1 (char_of_ascii a) ^ ocaml_string s

let witnesses () =
  List.iter (fun (((name, b), c), s) ->
    let res cfg = match r cfg None b with
      | Ok _ -> "OK"
      | Err (c', s') -> Printf.sprintf "%s/%d" (class_name c') (int_of_n s') in
    Printf.printf "W %s %s %d %s R=%s Rnostrict=%s\n" (ocaml_string name) (class_name c) (int_of_n s) (hex_of_bytes b)
      (res default_config) (res nostrict_config)) witness_table

type 'a outcome = Good of 'a | Bad of Stdlib.String.t

let hashset id mode ops =
  let next = if mode = "prefix" then next_prefix else next_fixed in
  let ops = if ops = "-" then [] else String.split_on_char ',' ops in
  let gets = Buffer.create 64 in
  let rec go s = function
    | [] -> Good s
    | op :: t ->
      if op.[0] = 'a' then begin
        match String.split_on_char ':' (String.sub op 1 (String.length op - 1)) with
        | [d; h] -> (match add_ddict xxh_hash next s (n_of_int (int_of_string d), n_of_int (int_of_string h)) with
                     | HOk s' -> go s' t
                     | HFull -> Bad "FULL"
                     | HOobRead i -> Bad (Printf.sprintf "OOB %d" (int_of_n i))
                     | HNoTerm -> Bad "NOTERM")
        | _ -> Bad "BADOP"
      end else begin
        let d = int_of_string (String.sub op 1 (String.length op - 1)) in
        match get xxh_hash next s (n_of_int d) with
        | HOk None -> Buffer.add_string gets "-;"; go s t
        | HOk (Some (i, h)) -> Buffer.add_string gets (Printf.sprintf "%d:%d;" (int_of_n i) (int_of_n h)); go s t
        | HFull -> Bad "FULL"
        | HOobRead i -> Bad (Printf.sprintf "OOB %d" (int_of_n i))
        | HNoTerm -> Bad "NOTERM"
      end in
  match go create ops with
  | Bad e -> Printf.printf "H %s %s\n" id e
  | Good s ->
    let tab = Buffer.create 256 in
    List.iteri (fun i e -> match e with
      | None -> ()
      | Some (d, h) -> Buffer.add_string tab (Printf.sprintf "%d:%d:%d;" i (int_of_n d) (int_of_n h))) s.hs_tab;
    Printf.printf "H %s OK size=%d count=%d tab=%s gets=%s\n" id (int_of_n s.hs_size) (int_of_n s.hs_count)
      (if Buffer.length tab = 0 then "-" else Buffer.contents tab) (if Buffer.length gets = 0 then "-" else Buffer.contents gets)

let watchdog id mode obs =
  let step = if mode = "nocheck" then np_step_nocheck else np_step mAXNP in
  let out = Buffer.create 64 in
  let rec go np i =
    if i >= String.length obs then () else begin
      let o = match obs.[i] with
        | 'P' -> { ob_progress = true; ob_dest_full = false; ob_in_empty = false }
        | 'F' -> { ob_progress = false; ob_dest_full = true; ob_in_empty = false }
        | 'E' -> { ob_progress = false; ob_dest_full = false; ob_in_empty = true }
        | 'B' -> { ob_progress = false; ob_dest_full = true; ob_in_empty = true }
        | _ -> { ob_progress = false; ob_dest_full = false; ob_in_empty = false } in
      match step np o with
      | NpOk k | NpAssert k -> Buffer.add_string out (Printf.sprintf "%d," (int_of_n k)); go k (i + 1)
      | NpErrDestFull -> Buffer.add_string out "ERRF,"
      | NpErrInputEmpty -> Buffer.add_string out "ERRE,"
    end in
  go N0 0;
  Printf.printf "N %s %s\n" id (if Buffer.length out = 0 then "-" else Buffer.contents out)

let placement id kind a =
  let k = match kind with "raw" -> KRaw | "rle" -> KRle | "huf1" -> KHuf true | _ -> KHuf false in
  match a with
  | [b; cap; src; lh; n; cs; st] ->
    let zi s = z_of_int (int_of_string s) in
    (match place k (zi b) (zi cap) (zi src) (zi lh) (zi n) (zi cs) (st = "1") with
     | LErr e ->
       Printf.printf "P %s ERR %s\n" id
         (match e with ELitGtBlock -> "LitGtBlock" | EFourStreams -> "FourStreams" | ECSizeGtSrc -> "CSizeGtSrc"
                     | EDstTooSmall -> "DstTooSmall" | ERawGtSrc -> "RawGtSrc")
     | LOk (lb, used) ->
       let reg = match lb.lb_region with RDst -> "dst" | RExtra -> "extra" | RSrc -> "src" in
       let loc = match lb.lb_loc with NotInDst -> 0 | InDst -> 1 | Split -> 2 in
       Printf.printf "P %s OK loc=%d ptr=%s+%d end=%s+%d used=%d n=%s\n" id loc reg (int_of_z lb.lb_start) reg (int_of_z lb.lb_end)
         (int_of_z used) n)
  | _ -> Printf.printf "P %s BADARGS\n" id

let ringtrace id w fcs b rs =
  let zi s = z_of_int (int_of_string s) in
  let size = buf_size (zi w) (zi fcs) (zi b) in
  let rs = if rs = "-" then [] else List.map zi (String.split_on_char ',' rs) in
  let st = ring_trace size (zi fcs) (zi b) ring0 rs in
  Printf.printf "G %s size=%d starts=%s\n" id (int_of_z size) (String.concat "," (List.map (fun z -> string_of_int (int_of_z z)) st))

let continuity id mode ops =
  let st = if mode = "fixed" then step_fixed else step in
  let zi s = z_of_int (int_of_string s) in
  let ops = List.filter (fun o -> o <> "") (String.split_on_char ';' ops) in
  let parse o =
    let a = String.split_on_char ':' (String.sub o 1 (String.length o - 1)) in
    match o.[0], a with
    | 'i', [x; n] -> Insert (zi x, zi n)
    | 'd', [x; c; r] -> Decode (zi x, zi c, zi r)
    | 'e', [x; c] -> DecodeErr (zi x, zi c)
    | 'r', [x; n] -> RefDict (zi x, zi n)
    | _ -> failwith "badop" in
  let tr = trace st c_init (List.map parse ops) in
  Printf.printf "C %s %s\n" id
    (String.concat "" (List.map (fun s -> Printf.sprintf "%d,%d,%d,%d;" (int_of_z s.c_prev) (int_of_z s.c_prefix) (int_of_z s.c_virt) (int_of_z s.c_dictEnd)) tr))

let ctxptrs id mode ctx ops =
  let fixed = (mode = "fixed") in
  let ni s = n_of_int (int_of_string s) in
  let md = function 'r' -> Repeat | 'd' -> Described | _ -> Predefined in
  let parse o =
    let a = String.split_on_char ':' (String.sub o 1 (String.length o - 1)) in
    match o.[0], a with
    | 'b', [c] -> Begin (ni c)
    | 'u', [c; d] -> BeginDDict (ni c, ni d)
    | 'k', [c; m] -> Block (ni c, md m.[0], md m.[1], md m.[2], md m.[3])
    | 'c', [d; s] -> Copy (ni d, ni s)
    | _ -> failwith "badop" in
  let ops = List.map parse (List.filter (fun o -> o <> "") (String.split_on_char ';' ops)) in
  let q = ni ctx in
  match prun fixed ops q with
  | None -> Printf.printf "T %s none\n" id
  | Some (((a, b), e), h) ->
    let l = function Own c -> if c = q then "o" else "s" | Default -> "x" | InDDict _ -> "x" in
    Printf.printf "T %s %s%s%s%s\n" id (l a) (l b) (l e) (l h)

let dictowner id mode ops =
  let fixed = (mode = "fixed") in
  let dig c = n_of_int (Char.code c - 48) in
  let parse o =
    match o.[0] with
    | 'n' -> DCreate (dig o.[1]) | 'l' -> DLoad (dig o.[1]) | 'p' -> DPrefix (dig o.[1]) | 'r' -> DRef (dig o.[1], dig o.[2])
    | 'x' -> DClear (dig o.[1]) | 'u' -> DUse (dig o.[1]) | 'f' -> DFree (dig o.[1]) | 'c' -> DCopy (dig o.[1], dig o.[2])
    | _ -> failwith "badop" in
  let ops = List.map parse (List.filter (fun o -> o <> "") (String.split_on_char ',' ops)) in
  let tr = dtrace fixed d_init ops in
  let show_ctx s q =
    match s.d_ctx (n_of_int q) with
    | None -> "-|"
    | Some f ->
      (match f.d_local with None -> "." | Some h -> string_of_int (int_of_n h)) ^
      (match f.d_cur with DNull -> "/n" | DLocal h -> "/L" ^ string_of_int (int_of_n h) | DExt d -> "/E" ^ string_of_int (int_of_n d)) ^
      (match f.d_uses with DontUse -> "/0|" | UseOnce -> "/1|" | UseIndef -> "/-1|") in
  let show (((s, r), ok), o) =
    show_ctx s 1 ^ show_ctx s 2 ^ show_ctx s 3 ^
    (match o with DUse _ -> (match r with DNull -> "=none" | DLocal h -> (if ok then "=L" else "=FREED:L") ^ string_of_int (int_of_n h) | DExt d -> "=E" ^ string_of_int (int_of_n d)) | _ -> "") ^ ";" in
  Printf.printf "O %s %s\n" id (String.concat "" (List.map show (List.combine tr ops)))

let legacywalk id hx =
  let b = bytes_of_hex hx in
  let v = match b with x :: _ -> (match int_of_n x with 37 -> Some V5 | 38 -> Some V6 | 39 -> Some V7 | _ -> None) | [] -> None in
  match v with
  | None -> Printf.printf "LW %s NA\n" id
  | Some v ->
    (match walk v b with
     | WOk (cs, bd, bl) -> Printf.printf "LW %s OK cs=%d bound=%d blocks=%d\n" id (int_of_n cs) (int_of_n bd) (List.length bl)
     | WErr e -> Printf.printf "LW %s ERR %s\n" id (match e with WSrcSize -> "srcSize" | WPrefix -> "prefix" | WFuel -> "fuel"))

let skipsize id u n cap =
  let ni s = n_of_int (int_of_string s) in
  let sh = function SErr -> "E" | SOk x -> string_of_int (int_of_n x) in
  Printf.printf "SK %s size=%s read=%s\n" id (sh (skip_size (n_of_int 64) true (ni u) (ni n))) (sh (read_skip (n_of_int 64) true (ni u) (ni n) (ni cap)))

let unit_huf id hx =
  match read_huf_weights (n_of_int 12) (bytes_of_hex hx) with
  | Ok ((ws, log), used) ->
    Printf.printf "UH %s OK used=%d log=%d w=%s\n" id (int_of_n used) (int_of_n log)
      (String.concat "" (List.map (fun w -> string_of_int (int_of_n w) ^ ",") ws))
  | Err (c, s) -> Printf.printf "UH %s ERR %s/%d\n" id (class_name c) (int_of_n s)

let unit_ncount id msv hx =
  match read_ncount (n_of_int (int_of_string msv)) (n_of_int 15) (bytes_of_hex hx) with
  | Ok ((log, counts), used) ->
    Printf.printf "UN %s OK used=%d log=%d c=%s\n" id (int_of_n used) (int_of_n log)
      (String.concat "" (List.map (fun z -> string_of_int (int_of_z z) ^ ",") counts))
  | Err (c, s) -> Printf.printf "UN %s ERR %s/%d\n" id (class_name c) (int_of_n s)

let () =
  try
    while true do
      let line = String.trim (input_line stdin) in
      (match String.split_on_char ' ' line with
       | ["W"] -> witnesses ()
       | ["H"; id; mode; ops] -> hashset id mode ops
       | ["N"; id; mode; obs] -> watchdog id mode obs
       | "P" :: id :: kind :: rest -> placement id kind rest
       | ["G"; id; w; fcs; b; rs] -> ringtrace id w fcs b rs
       | ["C"; id; mode; ops] -> continuity id mode ops
       | ["T"; id; mode; ctx; ops] -> ctxptrs id mode ctx ops
       | ["O"; id; mode; ops] -> dictowner id mode ops
       | ["LW"; id; hx] -> legacywalk id hx
       | ["SK"; id; u; n; cap] -> skipsize id u n cap
       | ["UH"; id; hx] -> unit_huf id hx
       | ["UN"; id; msv; hx] -> unit_ncount id msv hx
       | _ -> if line <> "" then Printf.printf "? BADLINE\n");
      flush stdout
    done
  with End_of_file -> ()
