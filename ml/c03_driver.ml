(* Driver for the extracted C03 models.  No logic: parse case lines, call the model, print one canonical
   result line per case.
   W                                  -> one line per necessity witness:  W <name> <class> <site> <hex> R=<class>/<site>|OK
   H <id> <fixed|prefix> <ops>        ops = comma separated  a<dictID>:<handle> (addDDict) | g<dictID> (getDDict)
                                      -> H <id> OK size=<n> count=<n> tab=<idx>:<dictID>:<handle>;... gets=<dictID>:<handle>|-;...
                                       | H <id> OOB <idx> | H <id> FULL | H <id> NOTERM
   N <id> <check|nocheck> <obs>       obs = string over P (progress) F (stalled, output full) E (stalled, input empty)
                                      B (stalled, both) X (stalled, neither)
                                      -> N <id> <counter after each call, comma separated>[,ERRF|,ERRE] *)
open C03model

let rec pos_of_int i = if i = 1 then XH else if i land 1 = 0 then XO (pos_of_int (i lsr 1)) else XI (pos_of_int (i lsr 1))
let n_of_int i = if i = 0 then N0 else Npos (pos_of_int i)
let rec int_of_pos = function XH -> 1 | XO p -> 2 * int_of_pos p | XI p -> 2 * int_of_pos p + 1
let int_of_n = function N0 -> 0 | Npos p -> int_of_pos p

let hex_of_bytes l =
  match l with [] -> "-" | _ ->
  let b = Buffer.create 1024 in
  List.iter (fun x -> Buffer.add_string b (Printf.sprintf "%02x" (int_of_n x))) l; Buffer.contents b

let class_name = function
  | Etrunc -> "trunc" | Eformat -> "format" | Esafety -> "safety" | Eintegrity -> "integrity"
  | Elimit -> "limit" | Edict -> "dict" | Efuel -> "fuel"

let char_of_ascii (Ascii (b0, b1, b2, b3, b4, b5, b6, b7)) =
  let v b k = if b then 1 lsl k else 0 in
  Char.chr (v b0 0 + v b1 1 + v b2 2 + v b3 3 + v b4 4 + v b5 5 + v b6 6 + v b7 7)
let rec ocaml_string = function EmptyString -> "" | String (a, s) -> String.make 1 (char_of_ascii a) ^ ocaml_string s

let witnesses () =
  List.iter (fun (((name, b), c), s) ->
    let res cfg = match r cfg None b with
      | Ok _ -> "OK"
      | Err (c', s') -> Printf.sprintf "%s/%d" (class_name c') (int_of_n s') in
    Printf.printf "W %s %s %d %s R=%s Rnostrict=%s\n" (ocaml_string name) (class_name c) (int_of_n s) (hex_of_bytes b)
      (res default_config) (res nostrict_config)) witness_table

type 'a outcome = Good of 'a | Bad of Stdlib.String.t

let hashset id mode ops =
  let next = if mode = "prefix" then next_prefix else next_fixed in
  let ops = if ops = "-" then [] else String.split_on_char ',' ops in
  let gets = Buffer.create 64 in
  let rec go s = function
    | [] -> Good s
    | op :: t ->
      if op.[0] = 'a' then begin
        match String.split_on_char ':' (String.sub op 1 (String.length op - 1)) with
        | [d; h] -> (match add_ddict xxh_hash next s (n_of_int (int_of_string d), n_of_int (int_of_string h)) with
                     | HOk s' -> go s' t
                     | HFull -> Bad "FULL"
                     | HOobRead i -> Bad (Printf.sprintf "OOB %d" (int_of_n i))
                     | HNoTerm -> Bad "NOTERM")
        | _ -> Bad "BADOP"
      end else begin
        let d = int_of_string (String.sub op 1 (String.length op - 1)) in
        match get xxh_hash next s (n_of_int d) with
        | HOk None -> Buffer.add_string gets "-;"; go s t
        | HOk (Some (i, h)) -> Buffer.add_string gets (Printf.sprintf "%d:%d;" (int_of_n i) (int_of_n h)); go s t
        | HFull -> Bad "FULL"
        | HOobRead i -> Bad (Printf.sprintf "OOB %d" (int_of_n i))
        | HNoTerm -> Bad "NOTERM"
      end in
  match go create ops with
  | Bad e -> Printf.printf "H %s %s\n" id e
  | Good s ->
    let tab = Buffer.create 256 in
    List.iteri (fun i e -> match e with
      | None -> ()
      | Some (d, h) -> Buffer.add_string tab (Printf.sprintf "%d:%d:%d;" i (int_of_n d) (int_of_n h))) s.hs_tab;
    Printf.printf "H %s OK size=%d count=%d tab=%s gets=%s\n" id (int_of_n s.hs_size) (int_of_n s.hs_count)
      (if Buffer.length tab = 0 then "-" else Buffer.contents tab) (if Buffer.length gets = 0 then "-" else Buffer.contents gets)

let watchdog id mode obs =
  let step = if mode = "nocheck" then np_step_nocheck else np_step mAXNP in
  let out = Buffer.create 64 in
  let rec go np i =
    if i >= String.length obs then () else begin
      let o = match obs.[i] with
        | 'P' -> { ob_progress = true; ob_dest_full = false; ob_in_empty = false }
        | 'F' -> { ob_progress = false; ob_dest_full = true; ob_in_empty = false }
        | 'E' -> { ob_progress = false; ob_dest_full = false; ob_in_empty = true }
        | 'B' -> { ob_progress = false; ob_dest_full = true; ob_in_empty = true }
        | _ -> { ob_progress = false; ob_dest_full = false; ob_in_empty = false } in
      match step np o with
      | NpOk k | NpAssert k -> Buffer.add_string out (Printf.sprintf "%d," (int_of_n k)); go k (i + 1)
      | NpErrDestFull -> Buffer.add_string out "ERRF,"
      | NpErrInputEmpty -> Buffer.add_string out "ERRE,"
    end in
  go N0 0;
  Printf.printf "N %s %s\n" id (if Buffer.length out = 0 then "-" else Buffer.contents out)

let () =
  try
    while true do
      let line = String.trim (input_line stdin) in
      (match String.split_on_char ' ' line with
       | ["W"] -> witnesses ()
       | ["H"; id; mode; ops] -> hashset id mode ops
       | ["N"; id; mode; obs] -> watchdog id mode obs
       | _ -> if line <> "" then Printf.printf "? BADLINE\n");
      flush stdout
    done
  with End_of_file -> ()
