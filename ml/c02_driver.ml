(* Driver for the extracted streaming models (C02 / C10).  No logic beyond parsing case lines, slicing the
   input per call, calling the model and printing one canonical result line per case.
     X <id> <dflags> <framehex> <calls>        streaming decoder; calls = offered:cap;...
         dflags: "-" or comma list of ml | mw=<maxWindowSize> | bm=<maxBlockSize> | so=<stable out buffer size> | nock
         -> <id> OK <outhex> consumed:produced:ret:zstage:dstage:expected:lhSize:inPos:outStart:outEnd:hostage:inBuffSize:outBuffSize;...
     XD <id> <dflags> <dicthex> <framehex> <calls>   the same with a dictionary attached for indefinite use (StreamInstDict.v)
     SD <id> <dflags> <dicthex> <framehex>     specification decoder started from the dictionary
     DU <id> <ops>                             dictionary-selection state machine (see cmd_du)
     DI <id> <id1>:<id2> <ops>                 dictionary-ID / refMultipleDDicts state machine (see cmd_di)
     S <id> <dflags> <framehex>                specification decoder   -> <id> OK <hex> | <id> ERR <name>
     O <id> <dflags> <framehex> <cap>          one-shot model          -> idem
     B <id> <dflags> <framehex>                buffer-less protocol (begin + continue fed exactly the expected size)
         -> <id> OK <outhex> <sizes fed, comma separated> | <id> ERR <name> <sizes>
     Y <id> <kflags> <inputhex> <calls> <outhex> <frames>   streaming compressor against the tape of the real output
         kflags: "-" or comma list of si | so | ml ; calls = offered:cap:dir:wlog:maxblock:pledge(- = none);...
         frames = hs/ck/cs:rs,cs:rs,...;hs/ck/...
         -> <id> OK consumed:produced:ret:stage:inBuffPos:inToCompress:inBuffTarget:outContent:outFlushed:frameEnded:held:blockSize:inBuffSize:outBuffSize:hint;... bad=<0|1> chunks=<in:last:out,...>
     W <id> <window> <segs>                    ZSTD_window_update folded over segments (see cmd_w) *)
open C02model

let rec pos_of_int i = if i = 1 then XH else if i land 1 = 0 then XO (pos_of_int (i lsr 1)) else XI (pos_of_int (i lsr 1))
let n_of_int i = if i = 0 then N0 else Npos (pos_of_int i)
let rec int_of_pos = function XH -> 1 | XO p -> 2 * int_of_pos p | XI p -> 2 * int_of_pos p + 1
let int_of_n = function N0 -> 0 | Npos p -> int_of_pos p
let string_of_n n =
  match n with
  | N0 -> "0"
  | Npos p ->
    let rec bits p acc = match p with XH -> true :: acc | XO q -> bits q (false :: acc) | XI q -> bits q (true :: acc) in
    let bl = bits p [] in
    let digits = ref [0] in
    List.iter (fun b ->
      let carry = ref (if b then 1 else 0) in
      digits := List.map (fun d -> let v = 2 * d + !carry in carry := v / 10; v mod 10) !digits;
      if !carry > 0 then digits := !digits @ [!carry]) bl;
    String.concat "" (List.rev_map string_of_int !digits)
(* decimal string -> N (values up to 2^64) *)
let n_of_string s =
  let rec go i acc = if i >= String.length s then acc
    else go (i + 1) (N.add (N.mul acc (n_of_int 10)) (n_of_int (Char.code s.[i] - 48))) in
  go 0 N0
let string_of_z = function Z0 -> "0" | Zpos p -> string_of_n (Npos p) | Zneg p -> "-" ^ string_of_n (Npos p)
let int_of_z = function Z0 -> 0 | Zpos p -> int_of_pos p | Zneg p -> - (int_of_pos p)

let hexval c = match c with
  | '0'..'9' -> Char.code c - 48 | 'a'..'f' -> Char.code c - 87 | 'A'..'F' -> Char.code c - 55
  | _ -> failwith "bad hex"
let byte_tab = Array.init 256 n_of_int
let arr_of_hex s =
  if s = "-" then [||] else Array.init (String.length s / 2) (fun i -> byte_tab.(16 * hexval s.[2*i] + hexval s.[2*i+1]))
let slice (a : n array) pos len =
  let len = max 0 (min len (Array.length a - pos)) in
  let rec go i acc = if i < pos then acc else go (i - 1) (a.(i) :: acc) in
  go (pos + len - 1) []
let add_hex b l = List.iter (fun x -> Buffer.add_string b (Printf.sprintf "%02x" (int_of_n x))) l
let hex_of_buf b = if Buffer.length b = 0 then "-" else Buffer.contents b

let derr_name = function
  | Eprefix_unknown -> "prefix_unknown" | EframeParameter_unsupported -> "frameParameter_unsupported"
  | EwindowTooLarge -> "frameParameter_windowTooLarge" | Ecorruption -> "corruption_detected" | Echecksum_wrong -> "checksum_wrong"
  | EdstSize_tooSmall -> "dstSize_tooSmall" | EdstBuffer_wrong -> "dstBuffer_wrong" | EsrcSize_wrong -> "srcSize_wrong"
  | Edictionary_wrong -> "dictionary_wrong" | EnoProgress_destFull -> "noForwardProgress_destFull"
  | EnoProgress_inputEmpty -> "noForwardProgress_inputEmpty"
  | Eblock (_, s) -> "block_" ^ string_of_n s | Eimpossible s -> "IMPOSSIBLE_" ^ string_of_n s
let kerr_name = function
  | KdstSize_tooSmall -> "dstSize_tooSmall" | Kstability -> "stabilityCondition_notRespected" | Kinit_missing -> "init_missing"
  | Kimpossible s -> "IMPOSSIBLE_" ^ string_of_n s

let zstage_i = function ZInit -> 0 | ZLoadHeader -> 1 | ZRead -> 2 | ZLoad -> 3 | ZFlush -> 4
let dstage_i = function DGetFHSize -> 0 | DDecodeFH -> 1 | DDecodeBH -> 2 | DBlock -> 3 | DLastBlock -> 4 | DChecksum -> 5
  | DSkipHdr -> 6 | DSkipFrame -> 7
let kstage_i = function KInit -> 0 | KLoad -> 1 | KFlush -> 2

let split c s = if s = "" || s = "-" then [] else String.split_on_char c s

let parse_dflags s =
  let p = ref default_dparams and so = ref (-1) in
  List.iter (fun f ->
    let kv = String.split_on_char '=' f in
    match kv with
    | ["ml"] -> p := { !p with dp_magicless = true }
    | ["nock"] -> p := { !p with dp_ignoreChecksum = true }
    | ["mw"; v] -> p := { !p with dp_maxWindow = n_of_string v }
    | ["bm"; v] -> p := { !p with dp_maxBlock = n_of_string v }
    | ["so"; v] -> p := { !p with dp_stableOut = true }; so := int_of_string v
    | _ -> ()) (split ',' s);
  (!p, !so)

let b2i b = if b then 1 else 0

let cmd_x_gen znew zstep id dfl fhex calls =
  let (p, so) = parse_dflags dfl in
  let f = arr_of_hex fhex in
  let out = Buffer.create 4096 and rec_ = Buffer.create 4096 in
  let z = ref (znew p) and ipos = ref 0 and opos = ref 0 and stop = ref false in
  List.iter (fun c ->
    if not !stop then begin
      match String.split_on_char ':' c with
      | [a; b] ->
        let offered = int_of_string a and cap = int_of_string b in
        let inp = slice f !ipos offered in
        let (osize, op) = if so >= 0 then (so, !opos) else (cap, 0) in
        let o = zstep p !z inp (n_of_int osize) (n_of_int op) in
        let zz = o.o_z in
        let ret = match o.o_ret with MOk h -> string_of_n h | MErr e -> stop := true; "E" ^ derr_name e in
        add_hex out o.o_out;
        Buffer.add_string rec_ (Printf.sprintf "%s:%d:%s:%d:%d:%s:%d:%s:%s:%s:%d:%s:%s;"
          (string_of_n o.o_consumed) (List.length o.o_out) ret (zstage_i zz.z_stage) (dstage_i zz.z_c.c_stage)
          (string_of_n zz.z_c.c_expected) (List.length zz.z_lh) (string_of_n zz.z_inPos) (string_of_n zz.z_outStart)
          (string_of_n zz.z_outEnd) (b2i zz.z_hostage) (string_of_n zz.z_inBuffSize) (string_of_n zz.z_outBuffSize));
        z := zz; ipos := !ipos + int_of_n o.o_consumed; opos := !opos + List.length o.o_out
      | _ -> ()
    end) (split ';' calls);
  Printf.printf "%s OK %s %s\n" id (hex_of_buf out) (if Buffer.length rec_ = 0 then "-" else Buffer.contents rec_)

let cmd_x = cmd_x_gen rz_new rdstep
(* the same with a dictionary attached for indefinite use (every frame starts from it) *)
let with_dict id dhex k =
  match dict_of_bytes (slice (arr_of_hex dhex) 0 max_int) with
  | None -> Printf.printf "%s ERR dictionary_corrupted\n" id
  | Some d -> k d
let cmd_xd id dfl dhex fhex calls = with_dict id dhex (fun d -> cmd_x_gen (rz_new_d d) (rdstep_d d) id dfl fhex calls)

(* DU <id> <ops> : dictionary-selection state machine (DictUseModel.v), D = dictionary index ; ops comma separated:
   L<k> R<k> P<k> (k = 0 : none) | S (session reset) | A (parameter reset) | N (new context) | F | K | O<n> | q (print state)
   -> <id> OK <dict index>,<dictUses as in C: 0 dont_use, 1 use_once, -1 use_indefinitely>;...  one entry per q *)
let cmd_du id ops =
  let s = ref dd_new and b = Buffer.create 256 in
  let optd k = if k = 0 then None else Some k in
  let arg t = int_of_string (String.sub t 1 (String.length t - 1)) in
  let rec nat_of_int i = if i <= 0 then O else S (nat_of_int (i - 1)) in
  List.iter (fun t ->
    if t = "q" then
      Buffer.add_string b (Printf.sprintf "%d,%d;" (match (!s).dd_dict with None -> 0 | Some k -> k)
                             (match (!s).dd_uses with DontUse -> 0 | UseOnce -> 1 | UseIndef -> -1))
    else if t = "N" then s := dd_new
    else begin
      let op = (match t.[0] with
        | 'L' -> OpLoad (optd (arg t)) | 'R' -> OpRefDDict (optd (arg t)) | 'P' -> OpRefPrefix (optd (arg t))
        | 'S' -> OpResetSession | 'A' -> OpResetParams | 'F' -> OpFrame | 'K' -> OpSkippable
        | 'O' -> OpOneShot (nat_of_int (arg t)) | _ -> failwith "bad DU op") in
      s := fst (dd_step !s op)
    end) (split ',' ops);
  Printf.printf "%s OK %s\n" id (if Buffer.length b = 0 then "-" else Buffer.contents b)

(* DI <id> <id1>:<id2> <ops> : dictionary-ID state machine (DictIdModel.v, round 3), D = dictionary index (1, 2 = the two structured
   dictionaries, 3 = dictionary 2 used as raw prefix: ID 0) ; ops comma separated:
   L<k> R<k> P<k> (k = 0 : none) | M<0|1> (refMultipleDDicts) | S | A | N | K | F<fid> (streamed frame naming fid) |
   O<fid>/<fid>/... (one ZSTD_decompressDCtx call) | q (print state) ; fid : 0 none, 1 / 2 the ID of dictionary 1 / 2, 3 an ID nobody has
   -> <id> OK <item>;...  item = q=<dict index>,<dictUses> | f=<dict index>:<0|1>  (one f per frame start, in order) *)
let cmd_di id ids ops =
  let id1, id2 = (match split ':' ids with [a; b] -> n_of_string a, n_of_string b | _ -> failwith "bad ids") in
  let did k = if k = 1 then id1 else if k = 2 then id2 else N0 in
  let fid k = if k = 1 then id1 else if k = 2 then id2 else if k = 3 then n_of_int 999999 else N0 in
  let s = ref ds_new and b = Buffer.create 256 in
  let optd k = if k = 0 then None else Some k in
  let arg t = int_of_string (String.sub t 1 (String.length t - 1)) in
  List.iter (fun t ->
    if t = "q" then
      Buffer.add_string b (Printf.sprintf "q=%d,%d;" (match (!s).ds_dict with None -> 0 | Some k -> k)
                             (match (!s).ds_uses with DontUse -> 0 | UseOnce -> 1 | UseIndef -> -1))
    else if t = "N" then s := ds_new
    else begin
      let op = (match t.[0] with
        | 'L' -> ILoad (optd (arg t)) | 'R' -> IRefDDict (optd (arg t)) | 'P' -> IRefPrefix (optd (arg t))
        | 'M' -> ISetMulti (arg t <> 0)
        | 'S' -> IResetSession | 'A' -> IResetParams | 'K' -> ISkippable
        | 'F' -> IFrame (fid (arg t))
        | 'O' -> IOneShot (List.map (fun x -> fid (int_of_string x)) (split '/' (String.sub t 1 (String.length t - 1))))
        | _ -> failwith "bad DI op") in
      let (s', rs) = ds_step did !s op in
      s := s';
      List.iter (fun ((o, _), ok) ->
        Buffer.add_string b (Printf.sprintf "f=%d:%d;" (match o with None -> 0 | Some k -> k) (if ok then 1 else 0))) rs
    end) (split ',' ops);
  Printf.printf "%s OK %s\n" id (if Buffer.length b = 0 then "-" else Buffer.contents b)

let print_res id = function
  | MOk l -> let b = Buffer.create 4096 in add_hex b l; Printf.printf "%s OK %s\n" id (hex_of_buf b)
  | MErr e -> Printf.printf "%s ERR %s\n" id (derr_name e)

let cmd_b id dfl fhex =
  let (p, _) = parse_dflags dfl in
  let f = arr_of_hex fhex in
  let n = Array.length f in
  let out = Buffer.create 4096 and sizes = Buffer.create 256 in
  let ipos = ref 0 and err = ref None and c = ref (rc_begin p) and guard = ref 0 in
  let big = n_of_string "18446744073709551616" in
  let fin = ref false in
  while !err = None && not !fin && !guard < 10000000 do
    incr guard;
    let need = (!c).c_expected in
    if need = N0 then (if !ipos >= n then fin := true else c := rc_begin p)
    else begin
      let k = int_of_n need in
      Buffer.add_string sizes (string_of_int k ^ ",");
      if k > n - !ipos then err := Some EsrcSize_wrong
      else begin
        let skip = (match (!c).c_stage with DSkipFrame -> true | _ -> false) in
        match rdcontinue p !c big (if skip then [] else slice f !ipos k) need with
        | MOk (c', o) -> add_hex out o; c := c'; ipos := !ipos + k
        | MErr e -> err := Some e
      end
    end
  done;
  (match !err with
   | None -> Printf.printf "%s OK %s %s\n" id (hex_of_buf out) (Buffer.contents sizes)
   | Some e -> Printf.printf "%s ERR %s %s\n" id (derr_name e) (Buffer.contents sizes))

let parse_frames s =
  List.map (fun fr ->
    match String.split_on_char '/' fr with
    | [hs; ck; bl] ->
      { tf_hsize = n_of_string hs; tf_cksum = (ck = "1");
        tf_blocks = List.map (fun b -> match String.split_on_char ':' b with
                                       | [c; r] -> (n_of_string c, n_of_string r) | _ -> failwith "bad block") (split ',' bl) }
    | _ -> failwith "bad frame") (split ';' s)

let cmd_y id kfl ihex calls ohex frames =
  let fl = split ',' kfl in
  let p = { kp_stableIn = List.mem "si" fl; kp_stableOut = List.mem "so" fl; kp_magicless = List.mem "ml" fl } in
  let inp = arr_of_hex ihex in
  let tape0 = { t_bytes = slice (arr_of_hex ohex) 0 max_int; t_hsize = N0; t_cksum = false; t_blocks = []; t_frames = parse_frames frames;
                t_bad = false; t_chunks = [] } in
  let k = ref (tk_new tape0) and ipos = ref 0 and stop = ref false in
  let rec_ = Buffer.create 4096 in
  List.iter (fun c ->
    if not !stop then begin
      match String.split_on_char ':' c with
      | [a; b; d; wl; mb; pl] ->
        let offered = int_of_string a and cap = int_of_string b in
        let dir = (match d with "0" -> DirContinue | "1" -> DirFlush | _ -> DirEnd) in
        let fc = { fc_windowLog = n_of_string wl; fc_maxBlock = n_of_string mb;
                   fc_pledge = (if pl = "-" then n_of_string "18446744073709551615" else n_of_string pl) } in
        let o = tkstep p fc !k (slice inp !ipos offered) (n_of_int cap) dir in
        let kk = o.ko_k in
        let ret = (match o.ko_ret, o.ko_err with
                   | Some r, _ -> string_of_n r
                   | None, Some e -> stop := true; "E" ^ kerr_name e
                   | None, None -> stop := true; "E?") in
        Buffer.add_string rec_ (Printf.sprintf "%s:%d:%s:%d:%s:%s:%s:%s:%s:%d:%d:%s:%s:%s:%s;"
          (string_of_z o.ko_consumed) (List.length o.ko_out) ret (kstage_i kk.k_stage) (string_of_n kk.k_inBuffPos)
          (string_of_n kk.k_inToCompress) (string_of_n kk.k_inBuffTarget) (string_of_n kk.k_outContent) (string_of_n kk.k_outFlushed)
          (b2i kk.k_frameEnded) (List.length kk.k_held) (string_of_n kk.k_blockSize) (string_of_n kk.k_inBuffSize)
          (string_of_n kk.k_outBuffSize) (string_of_n (tk_hint kk)));
        k := kk; ipos := !ipos + int_of_z o.ko_consumed
      | _ -> ()
    end) (split ';' calls);
  let t = (!k).k_cs in
  Printf.printf "%s OK %s bad=%d chunks=%s\n" id (if Buffer.length rec_ = 0 then "-" else Buffer.contents rec_) (b2i t.t_bad)
    (String.concat "," (List.rev_map (fun ((n, l), o) -> Printf.sprintf "%s:%d:%s" (string_of_n n) (b2i l) (string_of_n o)) t.t_chunks))

(* YS <id> <kflags> <inputhex> <calls>   the same buffering model around the STORE compressor (Stream/StoreStream.v):
   prints every byte it emits; on incompressible input with a checksum and no content size this must be the real output *)
let cmd_ys id kfl ihex calls =
  let fl = split ',' kfl in
  let p = { kp_stableIn = List.mem "si" fl; kp_stableOut = List.mem "so" fl; kp_magicless = List.mem "ml" fl } in
  let inp = arr_of_hex ihex in
  let k = ref sk_new and ipos = ref 0 and stop = ref false in
  let out = Buffer.create 4096 in
  List.iter (fun c ->
    if not !stop then begin
      match String.split_on_char ':' c with
      | [a; b; d; wl; mb; pl] ->
        let offered = int_of_string a and cap = int_of_string b in
        let dir = (match d with "0" -> DirContinue | "1" -> DirFlush | _ -> DirEnd) in
        let fc = { fc_windowLog = n_of_string wl; fc_maxBlock = n_of_string mb;
                   fc_pledge = (if pl = "-" then n_of_string "18446744073709551615" else n_of_string pl) } in
        let o = skstep p fc !k (slice inp !ipos offered) (n_of_int cap) dir in
        (match o.ko_ret with Some _ -> () | None -> stop := true);
        add_hex out o.ko_out;
        k := o.ko_k; ipos := !ipos + int_of_z o.ko_consumed
      | _ -> ()
    end) (split ';' calls);
  Printf.printf "%s OK %s\n" id (hex_of_buf out)

(* decimal string (optional leading '-') -> Z *)
let z_of_string s =
  if s = "" then Z0
  else if s.[0] = '-' then (match n_of_string (String.sub s 1 (String.length s - 1)) with N0 -> Z0 | Npos p -> Zneg p)
  else (match n_of_string s with N0 -> Z0 | Npos p -> Zpos p)

(* W <id> <initial window base:dictBase:dictLimit:lowLimit:nextSrc> <segs off:len,...> <blockSizeMax>:<maxDist>
   ZSTD_window_update + the maximum-distance rule of the block loop (w_chunk) folded over the segments
   -> <id> OK base:dictBase:dictLimit:lowLimit:nextSrc;... (after every segment) *)
let cmd_w id init segs bsmd =
  let w0 = (match String.split_on_char ':' init with
            | [b; db; dl; ll; ns] -> { w_base = z_of_string b; w_dictBase = z_of_string db; w_dictLimit = n_of_string dl;
                                       w_lowLimit = n_of_string ll; w_nextSrc = z_of_string ns }
            | _ -> failwith "bad window") in
  let b = Buffer.create 1024 in
  let w = ref w0 in
  List.iter (fun sg ->
    match String.split_on_char ':' sg with
    | [off; len] ->
      let (bs, md) = (match String.split_on_char ':' bsmd with [a; b] -> (n_of_string a, n_of_string b) | _ -> failwith "bad bs:md") in
      let w' = w_chunk !w (z_of_string off) (n_of_string len) false bs md in
      w := w';
      Buffer.add_string b (Printf.sprintf "%s:%s:%s:%s:%s;" (string_of_z w'.w_base) (string_of_z w'.w_dictBase) (string_of_n w'.w_dictLimit)
                             (string_of_n w'.w_lowLimit) (string_of_z w'.w_nextSrc))
    | _ -> ()) (split ',' segs);
  Printf.printf "%s OK %s\n" id (if Buffer.length b = 0 then "-" else Buffer.contents b)

let () =
  try
    while true do
      let line = input_line stdin in
      let t = Array.of_list (List.filter (fun s -> s <> "") (String.split_on_char ' ' line)) in
      (try
        if Array.length t >= 1 then begin
          match t.(0) with
          | "X" -> cmd_x t.(1) t.(2) t.(3) t.(4)
          | "XD" -> cmd_xd t.(1) t.(2) t.(3) t.(4) t.(5)
          | "SD" -> let (p, _) = parse_dflags t.(2) in
                    with_dict t.(1) t.(3) (fun d -> print_res t.(1) (rspec_decode_d d p (slice (arr_of_hex t.(4)) 0 max_int)))
          | "DU" -> cmd_du t.(1) t.(2)
          | "DI" -> cmd_di t.(1) t.(2) t.(3)
          | "S" -> let (p, _) = parse_dflags t.(2) in print_res t.(1) (rspec_decode p (slice (arr_of_hex t.(3)) 0 max_int))
          | "O" -> let (p, _) = parse_dflags t.(2) in print_res t.(1) (roneshot p (slice (arr_of_hex t.(3)) 0 max_int) (n_of_string t.(4)))
          | "B" -> cmd_b t.(1) t.(2) t.(3)
          | "Y" -> cmd_y t.(1) t.(2) t.(3) t.(4) t.(5) (if Array.length t > 6 then t.(6) else "-")
          | "YS" -> cmd_ys t.(1) t.(2) t.(3) t.(4)
          | "W" -> cmd_w t.(1) t.(2) t.(3) t.(4)
          | _ -> Printf.printf "? BADCMD\n"
        end
      with e -> Printf.printf "%s CRASH %s\n" (if Array.length t > 1 then t.(1) else "?") (Printexc.to_string e));
      flush stdout
    done
  with End_of_file -> ()
