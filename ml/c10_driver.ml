(* Driver for the extracted C10 readers (coq/Stream/C10Hints.v over R).  No logic: parse a case line, call the model,
   print one canonical result line.
     E <id> <ml:0|1> <hex>                                  frame_extent      -> <id> OK <n> | <id> NONE
     R <id> <dflags> <hex> <s|c> <cap> <limit>              sread / hread     -> <id> DONE <pos> <a,b,...> | <id> BEYOND <pos> <n>
                                                                                | <id> SHORT <pos> | <id> FAIL <name> | <id> FUEL
         dflags: "-" or comma list of ml | nock | mw=<maxWindowSize> | bm=<maxBlockSize>
     W <id> <inputhex> <calls> <outhex> <frames>            the public entry points of streaming compression (C10Api.v) around
         the tape block compressor (the block sizes of the real output, as in the C02 driver):
         calls  = kind:offered:cap:dir:wlog:maxblock:flags:ck;...   kind c (compressStream2) | s (compressStream) | f (flushStream) |
                  e (endStream) | R (reset session); flags = "-" or '+'-joined si | so | ml (the REQUESTED parameters at that call)
         frames = hs/ck/cs:rs,cs:rs,...;hs/ck/...
         -> <id> OK view:consumed:produced:ret:stage:inBuffPos:inToCompress:inBuffTarget:outContent:outFlushed:frameEnded:held:blockSize:
                    inBuffSize:outBuffSize:hint:apos:asize:anull:epos;... bad=<0|1>
            (round 3: the calls go through the stability layer of C10Stab.v: epos = expectedInBuffer.pos as the model records it;
             a call refused by the model of ZSTD_checkBufferStability shows as ret = EstabilityCondition_notRespected) *)
open C10model

let rec pos_of_int i = if i = 1 then XH else if i land 1 = 0 then XO (pos_of_int (i lsr 1)) else XI (pos_of_int (i lsr 1))
let n_of_int i = if i = 0 then N0 else Npos (pos_of_int i)
let rec int_of_pos = function XH -> 1 | XO p -> 2 * int_of_pos p | XI p -> 2 * int_of_pos p + 1
let int_of_n = function N0 -> 0 | Npos p -> int_of_pos p
let n_of_string s =
  let rec go i acc = if i >= String.length s then acc
    else go (i + 1) (N.add (N.mul acc (n_of_int 10)) (n_of_int (Char.code s.[i] - 48))) in
  go 0 N0
let hexval c = match c with
  | '0'..'9' -> Char.code c - 48 | 'a'..'f' -> Char.code c - 87 | 'A'..'F' -> Char.code c - 55
  | _ -> failwith "bad hex"
let byte_tab = Array.init 256 n_of_int
let list_of_hex s =
  if s = "-" then [] else
  let n = String.length s / 2 in
  let rec go i acc = if i < 0 then acc else go (i - 1) (byte_tab.(16 * hexval s.[2*i] + hexval s.[2*i+1]) :: acc) in
  go (n - 1) []

let derr_name = function
  | Eprefix_unknown -> "prefix_unknown" | EframeParameter_unsupported -> "frameParameter_unsupported"
  | EwindowTooLarge -> "frameParameter_windowTooLarge" | Ecorruption -> "corruption_detected" | Echecksum_wrong -> "checksum_wrong"
  | EdstSize_tooSmall -> "dstSize_tooSmall" | EdstBuffer_wrong -> "dstBuffer_wrong" | EsrcSize_wrong -> "srcSize_wrong"
  | Edictionary_wrong -> "dictionary_wrong" | EnoProgress_destFull -> "noForwardProgress_destFull"
  | EnoProgress_inputEmpty -> "noForwardProgress_inputEmpty"
  | Eblock (_, s) -> "block_" ^ string_of_int (int_of_n s) | Eimpossible s -> "IMPOSSIBLE_" ^ string_of_int (int_of_n s)

let split c s = if s = "" || s = "-" then [] else String.split_on_char c s
let parse_dflags s =
  let p = ref default_dparams in
  List.iter (fun f ->
    match String.split_on_char '=' f with
    | ["ml"] -> p := { !p with dp_magicless = true }
    | ["nock"] -> p := { !p with dp_ignoreChecksum = true }
    | ["mw"; v] -> p := { !p with dp_maxWindow = n_of_string v }
    | ["bm"; v] -> p := { !p with dp_maxBlock = n_of_string v }
    | _ -> ()) (split ',' s);
  !p


let string_of_n n =
  match n with
  | N0 -> "0"
  | Npos p ->
    let rec bits p acc = match p with XH -> true :: acc | XO q -> bits q (false :: acc) | XI q -> bits q (true :: acc) in
    let bl = bits p [] in
    let digits = ref [0] in
    List.iter (fun b ->
      let carry = ref (if b then 1 else 0) in
      digits := List.map (fun d -> let v = 2 * d + !carry in carry := v / 10; v mod 10) !digits;
      if !carry > 0 then digits := !digits @ [!carry]) bl;
    String.concat "" (List.rev_map string_of_int !digits)
let string_of_z = function Z0 -> "0" | Zpos p -> string_of_n (Npos p) | Zneg p -> "-" ^ string_of_n (Npos p)
let int_of_z = function Z0 -> 0 | Zpos p -> int_of_pos p | Zneg p -> - (int_of_pos p)
let arr_of_hex s =
  if s = "-" then [||] else Array.init (String.length s / 2) (fun i -> byte_tab.(16 * hexval s.[2*i] + hexval s.[2*i+1]))
let slice (a : n array) pos len =
  let len = max 0 (min len (Array.length a - pos)) in
  let rec go i acc = if i < pos then acc else go (i - 1) (a.(i) :: acc) in
  go (pos + len - 1) []
let kerr_name = function
  | KdstSize_tooSmall -> "dstSize_tooSmall" | Kstability -> "stabilityCondition_notRespected" | Kinit_missing -> "init_missing"
  | Kimpossible s -> "IMPOSSIBLE_" ^ string_of_n s
let aerr_name = function AK e -> kerr_name e | AStability -> "stabilityCondition_notRespected"
let kstage_i = function KInit -> 0 | KLoad -> 1 | KFlush -> 2
let b2i b = if b then 1 else 0

let parse_frames s =
  List.map (fun fr ->
    match String.split_on_char '/' fr with
    | [hs; ck; bl] ->
      { tf_hsize = n_of_string hs; tf_cksum = (ck = "1");
        tf_blocks = List.map (fun b -> match String.split_on_char ':' b with
                                       | [c; r] -> (n_of_string c, n_of_string r) | _ -> failwith "bad block") (split ',' bl) }
    | _ -> failwith "bad frame") (split ';' s)

(* the input is one array X; the model reads X through tk/dr, so it gets the whole array as a list once *)
let cmd_w id ihex calls ohex frames =
  let xarr = arr_of_hex ihex in
  let x = slice xarr 0 (Array.length xarr) in
  let tape0 = { t_bytes = slice (arr_of_hex ohex) 0 max_int; t_hsize = N0; t_cksum = false; t_blocks = []; t_frames = parse_frames frames;
                t_bad = false; t_chunks = [] } in
  let st = ref (ts_new tape0) and stop = ref false in
  let rec_ = Buffer.create 4096 in
  List.iter (fun c ->
    if not !stop then begin
      match String.split_on_char ':' c with
      | [kind; off; cp; d; wl; mb; fl; ck] ->
        let fls = String.split_on_char '+' fl in
        let p = { kp_stableIn = List.mem "si" fls; kp_stableOut = List.mem "so" fls; kp_magicless = List.mem "ml" fls } in
        let fc = { fc_windowLog = n_of_string wl; fc_maxBlock = n_of_string mb; fc_pledge = n_of_string "18446744073709551615" } in
        let n = n_of_string off and cap = n_of_string cp in
        let dir = (match d with "0" -> DirContinue | "1" -> DirFlush | _ -> DirEnd) in
        let a = ref (!st).s_a in
        let view = ta_wview (!a).a_k in
        if kind = "R" then begin
          a := ta_reset !a;
          st := { s_a = !a; s_epos = (!st).s_epos };      (* ZSTD_CCtx_reset does not touch expectedInBuffer *)
          let kk = (!a).a_k in
          Buffer.add_string rec_ (Printf.sprintf "%d:0:0:0:%d:%s:%s:%s:%s:%s:%d:%d:%s:%s:%s:%s:%s:%s:%d:%s;" (b2i view)
            (kstage_i kk.k_stage) (string_of_n kk.k_inBuffPos) (string_of_n kk.k_inToCompress) (string_of_n kk.k_inBuffTarget)
            (string_of_n kk.k_outContent) (string_of_n kk.k_outFlushed) (b2i kk.k_frameEnded) (List.length kk.k_held)
            (string_of_n kk.k_blockSize) (string_of_n kk.k_inBuffSize) (string_of_n kk.k_outBuffSize) (string_of_n (ta_hint kk))
            (string_of_n (!a).a_pos) (string_of_n (!a).a_size) (b2i (!a).a_null) (string_of_n (!st).s_epos))
        end else begin
          let so = (match kind with
                   | "c" -> ts_call p fc x !st n cap dir
                   | "s" -> ts_stream p fc x !st n cap
                   | "f" -> ts_flushStream p fc x !st cap
                   | _ -> ts_endStream p fc x !st cap (n_of_string ck)) in
          let o = so.so_o in
          let kk = o.ao_a.a_k in
          let ret = (match o.ao_ret, o.ao_err with
                     | Some r, _ -> string_of_n r
                     | None, Some e -> stop := true; "E" ^ aerr_name e
                     | None, None -> stop := true; "E?") in
          Buffer.add_string rec_ (Printf.sprintf "%d:%s:%d:%s:%d:%s:%s:%s:%s:%s:%d:%d:%s:%s:%s:%s:%s:%s:%d:%s;" (b2i view)
            (string_of_z o.ao_consumed) (List.length o.ao_out) ret (kstage_i kk.k_stage) (string_of_n kk.k_inBuffPos)
            (string_of_n kk.k_inToCompress) (string_of_n kk.k_inBuffTarget) (string_of_n kk.k_outContent) (string_of_n kk.k_outFlushed)
            (b2i kk.k_frameEnded) (List.length kk.k_held) (string_of_n kk.k_blockSize) (string_of_n kk.k_inBuffSize)
            (string_of_n kk.k_outBuffSize) (string_of_n (ta_hint kk)) (string_of_n o.ao_a.a_pos) (string_of_n o.ao_a.a_size)
            (b2i o.ao_a.a_null) (string_of_n so.so_s.s_epos));
          st := so.so_s
        end
      | _ -> ()
    end) (split ';' calls);
  let t = (!st).s_a.a_k.k_cs in
  Printf.printf "%s OK %s bad=%d\n" id (if Buffer.length rec_ = 0 then "-" else Buffer.contents rec_) (b2i t.t_bad)

let print_rres id = function
  | RDone (p, a) -> Printf.printf "%s DONE %d %s\n" id (int_of_n p) (String.concat "," (List.map (fun x -> string_of_int (int_of_n x)) a))
  | RBeyond (p, n) -> Printf.printf "%s BEYOND %d %d\n" id (int_of_n p) (int_of_n n)
  | RShort p -> Printf.printf "%s SHORT %d\n" id (int_of_n p)
  | RFail e -> Printf.printf "%s FAIL %s\n" id (derr_name e)
  | RFuel -> Printf.printf "%s FUEL\n" id

let () =
  try
    while true do
      let line = input_line stdin in
      let t = Array.of_list (List.filter (fun s -> s <> "") (String.split_on_char ' ' line)) in
      (try
        if Array.length t >= 1 then begin
          match t.(0) with
          | "E" -> (match rextent (t.(2) = "1") (list_of_hex t.(3)) with
                    | Some n -> Printf.printf "%s OK %d\n" t.(1) (int_of_n n)
                    | None -> Printf.printf "%s NONE\n" t.(1))
          | "R" -> let p = parse_dflags t.(2) in
                   let src = list_of_hex t.(3) in
                   if t.(4) = "s" then print_rres t.(1) (rsread p src (n_of_string t.(5)) (n_of_string t.(6)))
                   else print_rres t.(1) (rhread p src (n_of_string t.(6)))
          | "W" -> cmd_w t.(1) t.(2) t.(3) t.(4) (if Array.length t > 5 then t.(5) else "-")
          | _ -> Printf.printf "? BADCMD\n"
        end
      with e -> Printf.printf "%s CRASH %s\n" (if Array.length t > 1 then t.(1) else "?") (Printexc.to_string e));
      flush stdout
    done
  with End_of_file -> ()
