(* Driver for the extracted C10 readers (coq/Stream/C10Hints.v over R).  No logic: parse a case line, call the model,
   print one canonical result line.
     E <id> <ml:0|1> <hex>                                  frame_extent      -> <id> OK <n> | <id> NONE
     R <id> <dflags> <hex> <s|c> <cap> <limit>              sread / hread     -> <id> DONE <pos> <a,b,...> | <id> BEYOND <pos> <n>
                                                                                | <id> SHORT <pos> | <id> FAIL <name> | <id> FUEL
         dflags: "-" or comma list of ml | nock | mw=<maxWindowSize> | bm=<maxBlockSize> *)
open C10model

let rec pos_of_int i = if i = 1 then XH else if i land 1 = 0 then XO (pos_of_int (i lsr 1)) else XI (pos_of_int (i lsr 1))
let n_of_int i = if i = 0 then N0 else Npos (pos_of_int i)
let rec int_of_pos = function XH -> 1 | XO p -> 2 * int_of_pos p | XI p -> 2 * int_of_pos p + 1
let int_of_n = function N0 -> 0 | Npos p -> int_of_pos p
let n_of_string s =
  let rec go i acc = if i >= String.length s then acc
    else go (i + 1) (N.add (N.mul acc (n_of_int 10)) (n_of_int (Char.code s.[i] - 48))) in
  go 0 N0
let hexval c = match c with
  | '0'..'9' -> Char.code c - 48 | 'a'..'f' -> Char.code c - 87 | 'A'..'F' -> Char.code c - 55
  | _ -> failwith "bad hex"
let byte_tab = Array.init 256 n_of_int
let list_of_hex s =
  if s = "-" then [] else
  let n = String.length s / 2 in
  let rec go i acc = if i < 0 then acc else go (i - 1) (byte_tab.(16 * hexval s.[2*i] + hexval s.[2*i+1]) :: acc) in
  go (n - 1) []

let derr_name = function
  | Eprefix_unknown -> "prefix_unknown" | EframeParameter_unsupported -> "frameParameter_unsupported"
  | EwindowTooLarge -> "frameParameter_windowTooLarge" | Ecorruption -> "corruption_detected" | Echecksum_wrong -> "checksum_wrong"
  | EdstSize_tooSmall -> "dstSize_tooSmall" | EdstBuffer_wrong -> "dstBuffer_wrong" | EsrcSize_wrong -> "srcSize_wrong"
  | Edictionary_wrong -> "dictionary_wrong" | EnoProgress_destFull -> "noForwardProgress_destFull"
  | EnoProgress_inputEmpty -> "noForwardProgress_inputEmpty"
  | Eblock (_, s) -> "block_" ^ string_of_int (int_of_n s) | Eimpossible s -> "IMPOSSIBLE_" ^ string_of_int (int_of_n s)

let split c s = if s = "" || s = "-" then [] else String.split_on_char c s
let parse_dflags s =
  let p = ref default_dparams in
  List.iter (fun f ->
    match String.split_on_char '=' f with
    | ["ml"] -> p := { !p with dp_magicless = true }
    | ["nock"] -> p := { !p with dp_ignoreChecksum = true }
    | ["mw"; v] -> p := { !p with dp_maxWindow = n_of_string v }
    | ["bm"; v] -> p := { !p with dp_maxBlock = n_of_string v }
    | _ -> ()) (split ',' s);
  !p

let print_rres id = function
  | RDone (p, a) -> Printf.printf "%s DONE %d %s\n" id (int_of_n p) (String.concat "," (List.map (fun x -> string_of_int (int_of_n x)) a))
  | RBeyond (p, n) -> Printf.printf "%s BEYOND %d %d\n" id (int_of_n p) (int_of_n n)
  | RShort p -> Printf.printf "%s SHORT %d\n" id (int_of_n p)
  | RFail e -> Printf.printf "%s FAIL %s\n" id (derr_name e)
  | RFuel -> Printf.printf "%s FUEL\n" id

let () =
  try
    while true do
      let line = input_line stdin in
      let t = Array.of_list (List.filter (fun s -> s <> "") (String.split_on_char ' ' line)) in
      (try
        if Array.length t >= 1 then begin
          match t.(0) with
          | "E" -> (match rextent (t.(2) = "1") (list_of_hex t.(3)) with
                    | Some n -> Printf.printf "%s OK %d\n" t.(1) (int_of_n n)
                    | None -> Printf.printf "%s NONE\n" t.(1))
          | "R" -> let p = parse_dflags t.(2) in
                   let src = list_of_hex t.(3) in
                   if t.(4) = "s" then print_rres t.(1) (rsread p src (n_of_string t.(5)) (n_of_string t.(6)))
                   else print_rres t.(1) (rhread p src (n_of_string t.(6)))
          | _ -> Printf.printf "? BADCMD\n"
        end
      with e -> Printf.printf "%s CRASH %s\n" (if Array.length t > 1 then t.(1) else "?") (Printexc.to_string e));
      flush stdout
    done
  with End_of_file -> ()
