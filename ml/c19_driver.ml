(* C19 driver: no logic, only parsing of case lines and printing of the model's results.

   FIO;<mode C|D|T>;<srcs a,b ("-" = stdin)>;<out -|c|o:name|O:dir>;<flags: force rec excl as 0/1, then ":" and the first byte of the answer typed at a prompt ("-" none possible, 256 end of input)>;<rmk: letters r / k in command-line order>;
       <dict name or empty>;<patch name or empty>;<fs name=R<tok>|name=D|name=L<target>,...>;<ls dir>child|child,...>;<verdicts>;<probes a,b>
     verdict of one file:  name=<faults>:<cout 0|1|T<n>>:<cchunks t+t>:<items K+t+t/B+t/J+t>
       faults = 7 characters 0/1 (1 = the call succeeds): fopen(src) remove(dst before re-creation) open(dst) fclose(dst) remove(artefact) fclose(src) remove(src),
                then '-' or the number of write jobs after which fwrite fails
   SM;<compress 0|1>;<d|f|n = default / --sparse / --no-sparse>;<destinations opened, in order: two characters each, to-stdout 0|1 and
       was-a-regular-file-before 0|1, joined by ','>   ->  "SET v ..." = prefs->sparseFileSupport after each FIO_openDstFile
   SP;<skips0>;<frames>   skips0 = initial storedSkips of the first frame; frames separated by '|', chunks by ',', a chunk is a list of runs
       z<n> (n zero bytes) / x<n> (n non-zero bytes) joined by '+'; a chunk may be followed by *<k> (repeated k times)
*)
open C19model

let rec pos_of_int i = if i = 1 then XH else if i land 1 = 0 then XO (pos_of_int (i lsr 1)) else XI (pos_of_int (i lsr 1))
let n_of_int i = if i = 0 then N0 else Npos (pos_of_int i)
let rec int_of_pos = function XH -> 1 | XO p -> 2 * int_of_pos p | XI p -> 2 * int_of_pos p + 1
let int_of_n = function N0 -> 0 | Npos p -> int_of_pos p
let rec nat_of_int i = if i = 0 then O else S (nat_of_int (i - 1))
let rec int_of_nat = function O -> 0 | S n -> 1 + int_of_nat n

let raw_path s = List.init (String.length s) (fun i -> n_of_int (Char.code s.[i]))
let raw_string p = String.concat "" (List.map (fun c -> String.make 1 (Char.chr (int_of_n c))) p)
let path_of_string s = if s = "-" then stdinmark else raw_path s
let string_of_path p = if p = stdinmark then "-" else if p = stdoutmark then "<stdout>" else raw_string p

let split c s = if s = "" then [] else String.split_on_char c s
let toks s = List.map (fun t -> n_of_int (int_of_string t)) (split '+' s)
let show_toks d = String.concat "+" (List.map (fun t -> string_of_int (int_of_n t)) d)

let parse_outcome s =
  if s = "0" then Ret0 else if s = "1" then Ret1
  else Throw (n_of_int (int_of_string (String.sub s 1 (String.length s - 1))))

let parse_item s =
  let k = s.[0] in
  let rest = if String.length s > 2 then String.sub s 2 (String.length s - 2) else "" in
  let d = toks rest in
  match k with
  | 'K' -> FrOk (List.map (fun t -> [t]) d)
  | 'B' -> FrBad (List.map (fun t -> [t]) d)
  | _ -> Junk d

let parse_verdict s =
  match String.split_on_char ':' s with
  | [fl; co; cc; items] ->
      let b k = fl.[k] = '1' in
      let w = String.sub fl 7 (String.length fl - 7) in
      { v_chunks = List.map (fun t -> [t]) (toks cc); v_out = parse_outcome co;
        v_items = List.map parse_item (split '/' items);
        v_wfail = (if w = "-" then None else Some (nat_of_int (int_of_string w)));
        v_open_ok = b 0; v_ovw_unlink_ok = b 1; v_creat_ok = b 2; v_close_ok = b 3;
        v_art_unlink_ok = b 4; v_close_src_ok = b 5; v_rm_ok = b 6 }
  | _ -> failwith ("bad verdict " ^ s)

let default_verdict = { v_chunks = []; v_out = Ret0; v_items = []; v_wfail = None; v_open_ok = true; v_ovw_unlink_ok = true;
                        v_creat_ok = true; v_close_ok = true; v_art_unlink_ok = true; v_close_src_ok = true; v_rm_ok = true }

let show_op = function
  | OOpenRead p -> "r:" ^ string_of_path p
  | OCreat (p, m) -> "c:" ^ string_of_path p ^ ":" ^ (if m then "600" else "666")
  | OWrite (p, d) -> "w:" ^ string_of_path p ^ ":" ^ show_toks d
  | OSetStat p -> "s:" ^ string_of_path p
  | OClose p -> "x:" ^ string_of_path p
  | OUtime p -> "t:" ^ string_of_path p
  | OUnlinkDst p -> "ud:" ^ string_of_path p
  | OCloseSrc p -> "xs:" ^ string_of_path p
  | OUnlinkSrc p -> "us:" ^ string_of_path p
  | OStdout d -> "o:" ^ show_toks d
  | OReg p -> "reg:" ^ string_of_path p
  | OClr -> "clr"
  | OExit n -> "exit:" ^ string_of_int (int_of_n n)

let show_node = function
  | Absent -> "A"
  | Dir -> "D"
  | Lnk t -> "L" ^ string_of_path t
  | Reg f -> (if f.f_closed then "C" else "O") ^ show_toks f.f_bytes

let rec firstn_l k l = if k = 0 then [] else match l with [] -> [] | x :: t -> x :: firstn_l (k - 1) t

let do_fio fields =
  match fields with
  | [mode; srcs; out; flags; rmk; dict; patch; fs0; lsd; verds; probes] ->
      let srcs = List.map path_of_string (split ',' srcs) in
      let out = if out = "-" then OutDefault else if out = "c" then OutStdout
        else if out.[0] = 'O' then OutDir (raw_path (String.sub out 2 (String.length out - 2)))
        else OutFile (raw_path (String.sub out 2 (String.length out - 2))) in
      let opt s = if s = "" then None else Some (raw_path s) in
      let i = { i_mode = (match mode with "C" -> Compress | "D" -> Decompress | _ -> Test);
                i_srcs = srcs; i_out = out; i_force = (flags.[0] = '1');
                i_rmk = List.init (String.length rmk) (fun k -> rmk.[k] = 'r');
                (* flags = force, rec, excl, then ':' and the first byte of the answer typed at a prompt
                   ("-" = no interaction possible, 256 = end of input) *)
                i_answer = (let a = String.sub flags 4 (String.length flags - 4) in
                            if a = "-" then None else Some (n_of_int (int_of_string a)));
                i_rec = (flags.[1] = '1'); i_excl = (flags.[2] = '1');
                i_dict = opt dict; i_patch = opt patch } in
      let fsl = List.map (fun e ->
          let k = String.index e '=' in
          let n = String.sub e 0 k and v = String.sub e (k + 1) (String.length e - k - 1) in
          (n, if v = "D" then Dir
              else if v.[0] = 'L' then Lnk (raw_path (String.sub v 1 (String.length v - 1)))
              else Reg { f_bytes = toks (String.sub v 1 (String.length v - 1)); f_closed = true })) (split ',' fs0) in
      let fs0 = fun p -> (try List.assoc (string_of_path p) fsl with Not_found -> Absent) in
      let lsl0 = List.map (fun e ->
          let k = String.index e '>' in
          (String.sub e 0 k, List.map raw_path (split '|' (String.sub e (k + 1) (String.length e - k - 1))))) (split ',' lsd) in
      let ls = fun p -> (try List.assoc (string_of_path p) lsl0 with Not_found -> []) in
      let vl = List.map (fun e ->
          let k = String.index e '=' in
          (String.sub e 0 k, parse_verdict (String.sub e (k + 1) (String.length e - k - 1)))) (split ',' verds) in
      let vs = fun p -> (try List.assoc (string_of_path p) vl with Not_found -> default_verdict) in
      let probes = split ',' probes in
      let ops = fio_ops i ls fs0 vs in
      let names = eff_srcs i ls fs0 in
      print_string ("OPS " ^ String.concat " " (List.map show_op ops) ^ "\n");
      print_string ("NAMES " ^ String.concat " " (List.map string_of_path names) ^ "\n");
      print_string ("DST " ^ String.concat " " (List.map (fun s ->
          string_of_path s ^ "=" ^ (match dst_of i names s with Some d -> string_of_path d | None -> "-")) names) ^ "\n");
      let n = List.length ops in
      let show_state tag k ol =
        let st = run ol fs0 in
        let h = run_h ol None in
        print_string (Printf.sprintf "%s %d h=%s %s\n" tag k
                        (match h with Some p -> string_of_path p | None -> "-")
                        (String.concat " " (List.map (fun p -> p ^ "=" ^ show_node (st (path_of_string p))) probes))) in
      for k = 0 to n do
        show_state "ST" k (firstn_l k ops);
        show_state "SI" k (sigint_ops (nat_of_int k) ops)
      done;
      print_string "END\n"
  | _ -> failwith "bad FIO line"

let parse_runs s =
  List.concat (List.map (fun r ->
      let n = int_of_string (String.sub r 1 (String.length r - 1)) in
      if r.[0] = 'z' then List.init n (fun _ -> N0)
      else List.init n (fun j -> n_of_int (1 + (j mod 255)))) (split '+' s))

(* a chunk, possibly repeated: "z131072*40000" *)
let parse_chunk s =
  match String.split_on_char '*' s with
  | [r; k] -> let c = parse_runs r in List.init (int_of_string k) (fun _ -> c)
  | _ -> [parse_runs s]

let show_sop = function
  | SSeek n -> "S" ^ string_of_int (int_of_n n)
  | SWrite bs -> "W" ^ string_of_int (List.length bs)

let do_sp skips0 frames =
  let frames = List.map (fun f -> List.concat (List.map parse_chunk (split ',' f))) (split '|' frames) in
  let ops = match frames with
    | [] -> []
    | f0 :: tl -> app (sparse_ops f0 (n_of_int (int_of_string skips0))) (sparse_frames_ops tl) in
  print_string ("SOPS " ^ String.concat " " (List.map show_sop ops) ^ "\n");
  let total = List.fold_left (fun a f -> List.fold_left (fun a c -> a + List.length c) a f) 0 frames in
  if skips0 = "0" && total <= 4000000 then begin
    (* interpret the operations on the model file (not done for huge files: the holes would be materialised) *)
    let r = s_run ops empty_file in
    let plain = s_run (List.concat (List.map plain_ops frames)) empty_file in
    print_string (Printf.sprintf "SRES len=%d pos=%d equal_plain=%b\n" (List.length r.s_data) (int_of_n r.s_pos)
                    (r.s_data = plain.s_data))
  end;
  print_string "END\n"

let do_sm compress arg dsts =
  let a = match arg with "f" -> SpForce | "n" -> SpNever | _ -> SpDefault in
  let v0 = sparse_init (compress = "1") a in
  let _, out = List.fold_left (fun (v, acc) d ->
      let v' = sparse_open v (d.[0] = '1') (d.[1] = '1') in (v', acc @ [string_of_int (int_of_n v')])) (v0, []) (split ',' dsts) in
  print_string ("SET " ^ String.concat " " out ^ "\n");
  print_string "END\n"

let () =
  try
    while true do
      let line = input_line stdin in
      if line <> "" then begin
        match String.split_on_char ';' line with
        | "FIO" :: rest -> do_fio rest
        | ["SP"; sk; fr] -> do_sp sk fr
        | ["SM"; c; a; d] -> do_sm c a d
        | _ -> print_string "ERR bad line\nEND\n"
      end;
      flush stdout
    done
  with End_of_file -> ()
