(* C07 driver: no logic.  Reads case lines "opcode int int ...", calls the extracted model (C07model.dispatch),
   prints the resulting integers on one line.  Integers may exceed 63 bits (hash salts), so the conversion between
   decimal strings and Coq's binary positives is done on digit arrays here. *)
open C07model

(* decimal string (no sign) -> positive, by repeated halving of the digit array *)
let pos_of_decimal (s : string) : positive option =
  let d = Array.init (String.length s) (fun i -> Char.code s.[i] - 48) in
  let is_zero () = Array.for_all (fun x -> x = 0) d in
  let halve () = (* d := d / 2, returns remainder *)
    let r = ref 0 in
    Array.iteri (fun i x -> let v = !r * 10 + x in d.(i) <- v / 2; r := v mod 2) d; !r in
  if is_zero () then None else begin
    let bits = ref [] in
    while not (is_zero ()) do bits := halve () :: !bits done;
    (* !bits is MSB first; the leading bit is 1 *)
    let rec build acc = function
      | [] -> acc
      | b :: t -> build (if b = 1 then XI acc else XO acc) t in
    match !bits with
    | _ :: t -> Some (build XH t)
    | [] -> None
  end

let z_of_string s =
  let neg = String.length s > 0 && s.[0] = '-' in
  let body = if neg then String.sub s 1 (String.length s - 1) else s in
  match pos_of_decimal body with
  | None -> Z0
  | Some p -> if neg then Zneg p else Zpos p

let decimal_of_pos (p : positive) : string =
  let rec bits acc = function XH -> 1 :: acc | XO q -> bits (0 :: acc) q | XI q -> bits (1 :: acc) q in
  let bl = bits [] p in                      (* MSB first *)
  let d = ref [0] in                         (* little-endian decimal digits *)
  List.iter (fun b ->
    let carry = ref b in
    d := List.map (fun x -> let v = 2 * x + !carry in carry := v / 10; v mod 10) !d;
    if !carry > 0 then d := !d @ [!carry]) bl;
  String.concat "" (List.rev_map string_of_int !d)

let string_of_z = function
  | Z0 -> "0"
  | Zpos p -> decimal_of_pos p
  | Zneg p -> "-" ^ decimal_of_pos p

let () =
  let buf = Buffer.create 65536 in
  (try
    while true do
      let line = input_line stdin in
      let toks = List.filter (fun s -> s <> "") (String.split_on_char ' ' line) in
      match toks with
      | [] -> ()
      | opc :: rest ->
        let args = List.map z_of_string rest in
        let res = dispatch (z_of_string opc) args in
        Buffer.clear buf;
        List.iteri (fun i z -> if i > 0 then Buffer.add_char buf ' '; Buffer.add_string buf (string_of_z z)) res;
        print_endline (Buffer.contents buf)
    done
  with End_of_file -> ())
