(* C15 driver: no logic. Reads case lines "opcode int int ...", calls the extracted model,
   prints the resulting integers. Opcodes < 100 are stateless calls (C15model.dispatch);
   opcodes 100 (reset history) and >= 101 are history steps (C15model.hist_step). *)
open C15model

let rec pos_of_int n = if n = 1 then XH else if n land 1 = 1 then XI (pos_of_int (n lsr 1)) else XO (pos_of_int (n lsr 1))
let z_of_int n = if n = 0 then Z0 else if n > 0 then Zpos (pos_of_int n) else Zneg (pos_of_int (-n))
let rec int_of_pos = function XH -> 1 | XO p -> 2 * int_of_pos p | XI p -> 2 * int_of_pos p + 1
let int_of_z = function Z0 -> 0 | Zpos p -> int_of_pos p | Zneg p -> - (int_of_pos p)

let () =
  let freq = Array.length Sys.argv > 1 && Sys.argv.(1) = "1" in
  let h = ref hist_init in
  let buf = Buffer.create 65536 in
  (try
    while true do
      let line = input_line stdin in
      let toks = List.filter (fun s -> s <> "") (String.split_on_char ' ' line) in
      match toks with
      | [] -> ()
      | opc :: rest ->
        let opcode = int_of_string opc in
        let args = List.map (fun s -> z_of_int (int_of_string s)) rest in
        let res =
          if opcode = 100 then (h := hist_init; [Z0])
          else if opcode > 100 then (let (h', r) = hist_step freq !h (z_of_int opcode) args in h := h'; r)
          else dispatch freq (z_of_int opcode) args in
        Buffer.clear buf;
        List.iteri (fun i z -> if i > 0 then Buffer.add_char buf ' '; Buffer.add_string buf (string_of_int (int_of_z z))) res;
        print_endline (Buffer.contents buf)
    done
  with End_of_file -> ())
