(* C11 driver: NO logic.  Reads a model case file written by zv/props/c11.py (configuration, payload oracle,
   calls, schedule of critical sections), runs the extracted Coq model (coq/Conc/MtModel.v) and prints the
   canonical state after every step; the comparison with the implementation is done by c11.py.
   Lines:  CFG nbw rlog chunk minblk | PAY frame id err chunks last win | OPI target prefix cksum ldm rsync wsize hits
           OPC e in out | RUN | STEP tid w | ENDCASE *)
open C11model

let rec nat_of_int n = if n <= 0 then O else S (nat_of_int (n - 1))
let rec int_of_nat = function O -> 0 | S n -> 1 + int_of_nat n
let rec pos_of_int n = if n <= 1 then XH else if n land 1 = 1 then XI (pos_of_int (n lsr 1)) else XO (pos_of_int (n lsr 1))
let n_of_int n = if n <= 0 then N0 else Npos (pos_of_int n)
let rec int_of_pos = function XH -> 1 | XO p -> 2 * int_of_pos p | XI p -> 2 * int_of_pos p + 1
let int_of_n = function N0 -> 0 | Npos p -> int_of_pos p
let ni s = n_of_int (int_of_string s)
let b s = s = "1"
let csv s = if s = "-" || s = "" then [] else List.map ni (String.split_on_char '.' s)
let b2i x = if x then 1 else 0

let parse_err s =
  if s = "-" then None else
  match s with
  | "cctx" -> Some ErrCCtx | "seq" -> Some ErrSeq | "buf" -> Some ErrBuf | "init" -> Some ErrInit | "hdr" -> Some ErrHdr | "last" -> Some ErrLast
  | _ -> if String.length s > 5 && String.sub s 0 5 = "chunk" then Some (ErrChunk (ni (String.sub s 5 (String.length s - 5)))) else failwith ("bad err " ^ s)

let parse_win s = match List.map ni (String.split_on_char ':' s) with
  | [a; b; c; d] -> (((a, b), c), d) | _ -> failwith "bad win"

let show_win w = let (((a, b), c), d) = w in
  (* printed as start:size pairs like the harness *)
  let ia = int_of_n a and ib = int_of_n b and ic = int_of_n c and id = int_of_n d in
  let es = ib - ia and ps = id - ic in
  Printf.sprintf "%d:%d:%d:%d" (if es > 0 then ia else 0) (if es > 0 then es else 0) (if ps > 0 then ic else 0) (if ps > 0 then ps else 0)

let show cfg (s : state) =
  let m = s.mt in
  let sl id = int_of_nat (slot cfg id) in
  let buf = Buffer.create 512 in
  let p fmt = Printf.bprintf buf fmt in
  p "mt %d %d %d %d %d %d %d %d %d %d %d %d %d %d %d %d" (int_of_n m.done0) (int_of_n m.next) (b2i m.ready) (b2i m.ended) (b2i m.alldone)
    (int_of_n m.rpos) (int_of_n m.rcap) (if m.ihas then int_of_n m.istart else -1) (int_of_n m.ifill)
    (if int_of_n m.psize > 0 then int_of_n m.pstart else -1) (int_of_n m.psize) (int_of_n m.target) (int_of_n m.ptarget)
    (b2i m.cksum) (b2i m.ldm) (b2i m.rsync);
  p " | ser %d %s %s" (int_of_n s.sr.s_next) (show_win s.sr.s_lw) (show_win s.sr.s_w);
  p " | pool %d %d %d %d %d %d" (match s.pl.q with None -> -1 | Some k -> int_of_nat k) (int_of_nat s.pl.busy)
    (int_of_n s.pl.bp_nb) (int_of_n s.pl.cp_av) (int_of_n s.pl.sp_nb) (b2i s.pl.sp_on);
  p " | jobs";
  List.iter (fun j ->
    p " %d:%d:%d:%d:%d:%d:%s:%d:%d:%d:%d:%d:%d" (int_of_n j.j_id) (if int_of_n j.j_size > 0 then int_of_n j.j_src else -1) (int_of_n j.j_size)
      (if int_of_n j.j_psize > 0 then int_of_n j.j_pstart else -1) (int_of_n j.j_psize) (int_of_n j.j_consumed)
      (if j.j_err then "E" else string_of_int (int_of_n j.j_csize)) (b2i j.j_dst) (b2i j.j_first) (b2i j.j_last) (b2i j.j_ckneed) (int_of_n j.j_flushed) (b2i j.j_done)) s.jobs;
  p " | th";
  let cpc = match s.cl.c_pc with
    | CInUse j -> Printf.sprintf "MJ%d" (sl j)
    | CLdm1 | CLdm2 -> "ML" | CLdm1Z | CLdm2Z -> "Zl"
    | CGetBuf | CRelBuf | CRelAll (_, _) | CInitBuf -> "MB"
    | CTryAdd -> "MP"
    | CFlush | CWait _ -> Printf.sprintf "MJ%d" (sl m.done0)
    | CFlushZ | CWaitZ _ -> Printf.sprintf "Zj%d" (sl m.done0)
    | CInitSeq -> "MQ"
    | CDone -> "X" in
  p " %s" cpc;
  List.iter (fun w ->
    let k = int_of_nat w.w_slot in
    p " %s" (match w.w_pc with
      | WIdle | WFinish -> "MP" | WAsleep -> "Zp" | WGetCCtx | WRelCCtx -> "MC" | WGetSeq | WRelSeq -> "MQ" | WGetBuf -> "MB"
      | WSetDst | WJobErr | WChunk _ | WReport -> Printf.sprintf "MJ%d" k
      | WSerial | WEnsure -> "MS" | WSerialZ -> "Zs")) s.ws;
  (* the flush log as the harness observes it: number of copies, bytes, last copy (job id : offset : length) *)
  let tot = List.fold_left (fun a (((_, _), _), n) -> a + int_of_n n) 0 s.gh.g_out in
  let last = match List.rev s.gh.g_out with [] -> "-1:0:0" | (((_, i), o), n) :: _ -> Printf.sprintf "%d:%d:%d" (int_of_n i) (int_of_n o) (int_of_n n) in
  p " | fl %d %d %s" (List.length s.gh.g_out) tot last;
  p " | g fin=%d ck=%d log=%d res=%d" (List.length s.gh.g_fin) (List.length s.gh.g_ck) (List.length s.sr.s_log) (List.length s.cl.c_res);
  Buffer.contents buf

let () =
  let nbw = ref 1 and rlog = ref 0 and chunk = ref 524288 and minblk = ref 131072 in
  let pays = ref [] and ops = ref [] in
  let cfg = ref None and st = ref None in
  let alive = ref true in
  (try while true do
    let line = input_line stdin in
    let tk = Array.of_list (List.filter (fun x -> x <> "") (String.split_on_char ' ' line)) in
    if Array.length tk > 0 then begin
      match tk.(0) with
      | "CASE" -> print_endline line; pays := []; ops := []; cfg := None; st := None; alive := true
      | "CFG" -> nbw := int_of_string tk.(1); rlog := int_of_string tk.(2); chunk := int_of_string tk.(3); minblk := int_of_string tk.(4)
      | "PAY" -> pays := ((ni tk.(1), ni tk.(2)), { p_err = parse_err tk.(3); p_chunks = csv tk.(4); p_last = ni tk.(5); p_win = parse_win tk.(6) }) :: !pays
      | "OPI" -> ops := OpInit { fp_target = ni tk.(1); fp_prefix = ni tk.(2); fp_cksum = b tk.(3); fp_ldm = b tk.(4); fp_rsync = b tk.(5);
                                 fp_wsize = ni tk.(6); fp_hits = csv tk.(7) } :: !ops
      | "OPC" -> ops := OpCS ((match tk.(1) with "0" -> EContinue | "1" -> EFlush | _ -> EEnd), ni tk.(2), ni tk.(3)) :: !ops
      | "RUN" ->
          let c = { c_nbw = nat_of_int !nbw; c_rlog = n_of_int !rlog; c_chunk = n_of_int !chunk; c_minblk = n_of_int !minblk; c_pays = List.rev !pays } in
          let s = init c (List.rev !ops) in
          cfg := Some c; st := Some s;
          Printf.printf "M %s\n" (show c s)
      | "STEP" ->
          (match !cfg, !st with
           | Some c, Some s when !alive ->
               (match step c (nat_of_int (int_of_string tk.(1))) (nat_of_int (int_of_string tk.(2))) s with
                | Some s' -> st := Some s'; Printf.printf "M %s\n" (show c s')
                | None -> alive := false; Printf.printf "M DISABLED tid=%s\n" tk.(1))
           | _ -> Printf.printf "M DEAD\n")
      | "ENDCASE" ->
          (match !cfg, !st with
           | Some c, Some s -> Printf.printf "F stuck=%d done=%d enabled=%s res=%s\n" (b2i (stuck c s)) (b2i (caller_done s))
                                 (String.concat "," (List.map (fun t -> string_of_int (int_of_nat t)) (enabled_list c s)))
                                 (String.concat "," (List.map (function RErr -> "E" | ROk v -> string_of_int (int_of_n v)) s.cl.c_res))
           | _ -> Printf.printf "F none\n")
      | _ -> ()
    end
  done with End_of_file -> ());
  print_endline "TOTAL"
