(* C13 driver: NO logic.  Reads case lines
     CASE <id>|<k1,k2,..|->|<code>:<p0>,<p1>,..;<code>:...;...
   (the API-call sequence a harness/c13_fault.c run actually made, as model op codes, and the failing allocation
   indexes of that run), runs the extracted model (AllocInstances.run_ops with the regenerated sizes) and prints
     RES <id>|<event tokens>|<live ids>|<errors>
   Event tokens:  (<name>  call begin   )<0|1>  return (1 = success)   A<lbl>:<size>  allocation that succeeded
   N<lbl>:<size>  allocation that failed   F<lbl>:<id>  customFree of block <id>   M<fam>:<id>,<id>..  every entry of
   a family freed.  Block ids are allocation indexes (1-based over the run), as in the harness.
   First line printed: FORMULAS <0|1> (model size formulas vs the macro samples dumped from the headers).
   BCASE lines: the same for the borrowed-DDict model (AllocBorrow.run_bops, round 3).
   LCASE lines: the same for the legacy stream decoders' model (AllocLegacy.run_lops), with the outcomes of the
   data-dependent tests given explicitly. *)
open C13model

let rec nat_of_int n = if n <= 0 then O else S (nat_of_int (n - 1))
let int_of_nat n = let rec go acc = function O -> acc | S m -> go (acc + 1) m in go 0 n

let pos_of_int (v : int) : positive =
  (* v >= 1 *)
  let rec go v = if v = 1 then XH else if v land 1 = 1 then XI (go (v lsr 1)) else XO (go (v lsr 1)) in go v
let n_of_int (v : int) : n = if v <= 0 then N0 else Npos (pos_of_int v)
let int_of_n (v : n) : int =
  let rec go = function XH -> 1 | XO p -> 2 * go p | XI p -> 2 * go p + 1 in
  match v with N0 -> 0 | Npos p -> go p

let split c s = if s = "" then [] else String.split_on_char c s

let parse_op (s : string) : n * n list =
  match split ':' s with
  | [code] -> (n_of_int (int_of_string code), [])
  | [code; ps] -> (n_of_int (int_of_string code), List.map (fun x -> n_of_int (int_of_string x)) (split ',' ps))
  | _ -> failwith ("bad op " ^ s)

let tok = function
  | EvAlloc (l, sz, _, ok) -> Printf.sprintf "%s%d:%d" (if ok then "A" else "N") (int_of_n l) (int_of_n sz)
  | EvFree (l, i) -> Printf.sprintf "F%d:%d" (int_of_n l) (int_of_nat i)
  | EvFreeFam (f, ids) -> Printf.sprintf "M%d:%s" (int_of_n f) (String.concat "," (List.map (fun i -> string_of_int (int_of_nat i)) ids))
  | EvCall name -> Printf.sprintf "(%d" (int_of_n name)
  | EvRet ok -> if ok then ")1" else ")0"

let err_tok = function
  | EDoubleFree l -> Printf.sprintf "doublefree:%d" (int_of_n l)
  | EUseDead l -> Printf.sprintf "usedead:%d" (int_of_n l)
  | EForeignFree l -> Printf.sprintf "foreignfree:%d" (int_of_n l)

let () =
  Printf.printf "FORMULAS %d\n" (if formulas_agree then 1 else 0);
  (try
     while true do
       let line = input_line stdin in
       if String.length line > 5 && String.sub line 0 5 = "CASE " then begin
         match String.split_on_char '|' (String.sub line 5 (String.length line - 5)) with
         | [id; ks; ops] ->
           let faults = if ks = "-" then [] else List.map (fun x -> nat_of_int (int_of_string x)) (split ',' ks) in
           let ops = List.map parse_op (split ';' ops) in
           let ((trace, live), errs) = run_ops_gen ops faults in
           Printf.printf "RES %s|%s|%s|%s\n" id
             (String.concat " " (List.map tok trace))
             (String.concat "," (List.map (fun i -> string_of_int (int_of_nat i)) live))
             (String.concat "," (List.map err_tok errs))
         | _ -> Printf.printf "BADLINE %s\n" line
       end
       else if String.length line > 6 && String.sub line 0 6 = "BCASE " then begin
         (* DCtx + multi-DDict set + borrowed DDicts (AllocBorrow.run_bops): BCASE <id>|<k1,k2,..|->|<ops> *)
         match String.split_on_char '|' (String.sub line 6 (String.length line - 6)) with
         | [id; ks; ops] ->
           let faults = if ks = "-" then [] else List.map (fun x -> nat_of_int (int_of_string x)) (split ',' ks) in
           let ops = List.map parse_op (split ';' ops) in
           let ((trace, live), errs) = run_bops ops faults in
           Printf.printf "RES %s|%s|%s|%s\n" id
             (String.concat " " (List.map tok trace))
             (String.concat "," (List.map (fun i -> string_of_int (int_of_nat i)) live))
             (String.concat "," (List.map err_tok errs))
         | _ -> Printf.printf "BADLINE %s\n" line
       end
       else if String.length line > 6 && String.sub line 0 6 = "LCASE " then begin
         (* legacy stream decoders (AllocLegacy.run_lops): LCASE <id>|<k1,k2,..|->|<0/1 decisions of the data-dependent tests|->|<ops> *)
         match String.split_on_char '|' (String.sub line 6 (String.length line - 6)) with
         | [id; ks; ch; ops] ->
           let faults = if ks = "-" then [] else List.map (fun x -> nat_of_int (int_of_string x)) (split ',' ks) in
           let choices = if ch = "-" then [] else List.init (String.length ch) (fun i -> ch.[i] = '1') in
           let ops = List.map parse_op (split ';' ops) in
           let ((trace, live), errs) = run_lops ops faults choices in
           Printf.printf "RES %s|%s|%s|%s\n" id
             (String.concat " " (List.map tok trace))
             (String.concat "," (List.map (fun i -> string_of_int (int_of_nat i)) live))
             (String.concat "," (List.map err_tok errs))
         | _ -> Printf.printf "BADLINE %s\n" line
       end
     done
   with End_of_file -> ());
  print_string "TOTAL\n"
