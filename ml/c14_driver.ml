(* C14 driver: no logic. Reads case lines on stdin, calls the extracted model, prints one canonical line per case.
   Numbers travel as hexadecimal (conversion to/from Coq's binary N / Z is bit shuffling only). *)
open C14model

let pos_of_hex (s : string) : positive option =
  let acc = ref None in
  String.iter (fun c ->
    let d = match c with
      | '0'..'9' -> Char.code c - 48
      | 'a'..'f' -> Char.code c - 87
      | 'A'..'F' -> Char.code c - 55
      | _ -> failwith ("bad hex digit in " ^ s) in
    for k = 3 downto 0 do
      let b = (d lsr k) land 1 = 1 in
      acc := (match !acc with
              | None -> if b then Some XH else None
              | Some p -> Some (if b then XI p else XO p))
    done) s;
  !acc

let n_of_hex (s : string) : n = match pos_of_hex s with None -> N0 | Some p -> Npos p
let z_of_hex (s : string) : z =
  let neg = String.length s > 0 && s.[0] = '-' in
  let s = if neg then String.sub s 1 (String.length s - 1) else s in
  match pos_of_hex s with None -> Z0 | Some p -> if neg then Zneg p else Zpos p

let hex_of_pos (p : positive) : string =
  let rec bits p acc = match p with XH -> true :: acc | XO q -> bits q (false :: acc) | XI q -> bits q (true :: acc) in
  let bl = bits p [] in
  let n = List.length bl in
  let pad = (4 - n mod 4) mod 4 in
  let bl = (List.init pad (fun _ -> false)) @ bl in
  let buf = Buffer.create 16 in
  let rec go l = match l with
    | a :: b :: c :: d :: t ->
        let v = (if a then 8 else 0) + (if b then 4 else 0) + (if c then 2 else 0) + (if d then 1 else 0) in
        Buffer.add_char buf "0123456789abcdef".[v]; go t
    | _ -> () in
  go bl; Buffer.contents buf

let hex_of_n (v : n) : string = match v with N0 -> "0" | Npos p -> hex_of_pos p
let optn = function None -> "ERR" | Some v -> hex_of_n v
let b_of s = s <> "0"
let bstr b = if b then "1" else "0"
let ps_of s = match s with "0" -> PsAuto | "1" -> PsEnable | _ -> PsDisable
let mode_of s = match s with "0" -> CpmNoAttachDict | "1" -> CpmAttachDict | "2" -> CpmCreateCDict | _ -> CpmUnknown

let cp_of (a : string array) (i : int) : cparams =
  { wlog = n_of_hex a.(i); clog = n_of_hex a.(i+1); hlog = n_of_hex a.(i+2); slog = n_of_hex a.(i+3);
    mml = n_of_hex a.(i+4); tlen = n_of_hex a.(i+5); strat = n_of_hex a.(i+6) }
let cp_str (c : cparams) : string =
  String.concat " " (List.map hex_of_n [c.wlog; c.clog; c.hlog; c.slog; c.mml; c.tlen; c.strat])
let ldm_of (a : string array) (i : int) : ldmparams =
  { ldm_enable = ps_of a.(i); ldm_hashLog = n_of_hex a.(i+1); ldm_bucketSizeLog = n_of_hex a.(i+2);
    ldm_minMatch = n_of_hex a.(i+3); ldm_hashRateLog = n_of_hex a.(i+4); ldm_windowLog = N0 }

let log_str (l : entry list) : string =
  String.concat "," (List.map (fun (p, n) -> (match p with None -> "-" | Some q -> hex_of_n q) ^ ":" ^ hex_of_n n) l)

let rz = ref N0

(* CCtx_params tokens at a.(i)..a.(i+18): lvl cp(7) row ldm(5) mbs ext inb outb nbw *)
let pp_at (a : string array) (i : int) : cctxparams =
  { p_level = z_of_hex a.(i); p_cp = cp_of a (i+1); p_row = ps_of a.(i+8); p_ldm = ldm_of a (i+9);
    p_maxBlockSize = n_of_hex a.(i+14); p_extSeq = b_of a.(i+15); p_inBuffered = b_of a.(i+16);
    p_outBuffered = b_of a.(i+17); p_srcSizeHint = N0; p_nbWorkers = n_of_hex a.(i+18) }

(* history operation token: L:<lvl>:<srcLen> | 2:<srcLen> | S:<srcLen>, optional *<reps> *)
let hops_of_token (t : string) : hop list =
  let t, reps = match String.index_opt t '*' with
    | Some k -> String.sub t 0 k, int_of_string ("0x" ^ String.sub t (k+1) (String.length t - k - 1))
    | None -> t, 1 in
  let h = match String.split_on_char ':' t with
    | ["L"; l; s] -> HopSimple (z_of_hex l, n_of_hex s)
    | ["2"; s] -> HopCompress2 (n_of_hex s)
    | ["S"; _] -> HopStream
    | _ -> failwith ("bad history token " ^ t) in
  List.init reps (fun _ -> h)

let handle (a : string array) : string =
  match a.(0) with
  | "RZ" -> rz := n_of_hex a.(1); "ok"
  | "ECCTX" -> hex_of_n (estimateCCtxSize !rz (z_of_hex a.(1)))
  | "ECSTREAM" -> hex_of_n (estimateCStreamSize !rz (z_of_hex a.(1)))
  | "ECCTXCP" -> hex_of_n (estimateCCtxSize_usingCParams !rz (cp_of a 1))
  | "ECSTREAMCP" -> hex_of_n (estimateCStreamSize_usingCParams !rz (cp_of a 1))
  | "EPP" ->
      (* EPP kind lvl cp(7) row ldm(5) mbs ext inb outb nbw *)
      let p = { p_level = z_of_hex a.(2); p_cp = cp_of a 3; p_row = ps_of a.(10); p_ldm = ldm_of a 11;
                p_maxBlockSize = n_of_hex a.(16); p_extSeq = b_of a.(17); p_inBuffered = b_of a.(18);
                p_outBuffered = b_of a.(19); p_srcSizeHint = N0; p_nbWorkers = n_of_hex a.(20) } in
      optn (if a.(1) = "C" then estimateCCtxSize_usingCCtxParams !rz p else estimateCStreamSize_usingCCtxParams !rz p)
  | "ECDICT" -> hex_of_n (estimateCDictSize !rz (n_of_hex a.(1)) (z_of_hex a.(2)))
  | "ECDICTADV" -> hex_of_n (estimateCDictSize_advanced !rz (n_of_hex a.(1)) (cp_of a 2) (b_of a.(9)))
  | "GETCP" -> cp_str (getCParams_internal (z_of_hex a.(1)) (n_of_hex a.(2)) (n_of_hex a.(3)) (mode_of a.(4)))
  | "SESS" ->
      (* SESS kind start size pledged  then  kind 2/S: lvl cp(7) row ldm(5) mbs ext inb outb nbw ; kind L: lvl
         (pledged = source size known to the first reset, ffffffffffffffff when unknown) *)
      let start = n_of_hex a.(2) and size = n_of_hex a.(3) and srcLen = n_of_hex a.(4) in
      let r =
        if a.(1) = "L" then static_simple_session !rz start size (z_of_hex a.(5)) srcLen
        else begin
          let p = { p_level = z_of_hex a.(5); p_cp = cp_of a 6; p_row = ps_of a.(13); p_ldm = ldm_of a 14;
                    p_maxBlockSize = n_of_hex a.(19); p_extSeq = b_of a.(20); p_inBuffered = b_of a.(21);
                    p_outBuffered = b_of a.(22); p_srcSizeHint = N0; p_nbWorkers = n_of_hex a.(23) } in
          if a.(1) = "2" then static_stream2_session !rz start size p srcLen true
          else static_stream2_session !rz start size p srcLen false
        end in
      (match r with
       | SessNull -> "NULL"
       | SessMemError -> "MEMERR"
       | SessDone (w', l) ->
         "OK failed=" ^ bstr (allocFailed w') ^ " used=" ^ hex_of_n (cwksp_used w') ^ " log=" ^ log_str l)
  | "CDICT" ->
      (* CDICT start size cp(7) dictSize byRef *)
      (match initStaticCDict !rz (n_of_hex a.(1)) (n_of_hex a.(2)) (cp_of a 3) (n_of_hex a.(10)) (b_of a.(11)) with
       | InitNull -> "NULL"
       | InitOk (w, l) -> "OK used=" ^ hex_of_n (cwksp_used w) ^ " log=" ^ log_str l)
  | "NEED" ->
      (* NEED kind lvl srcLen : neededSpace of the first reset of ZSTD_compressCCtx (L) / ZSTD_compress2 (2) /
         buffered ZSTD_compressStream2 (S) at a level, source size as known to the reset *)
      let l = z_of_hex a.(2) and s = n_of_hex a.(3) in
      hex_of_n (match a.(1) with "L" -> need_simple !rz l s | "2" -> need_compress2 !rz l s | _ -> need_stream !rz l s)
  | "HIST" ->
      (* HIST start size pp(19 tokens) op op ... *)
      let start = n_of_hex a.(1) and size = n_of_hex a.(2) in
      let p = pp_at a 3 in
      let hops = List.concat (List.map hops_of_token (Array.to_list (Array.sub a 22 (Array.length a - 22)))) in
      (match static_history_hops !rz start size p hops with
       | None -> "NULL"
       | Some ((_, outs), cxf) ->
         let tok = function
           | ResetDone (w, _) -> "K/" ^ hex_of_n (cwksp_used w)
           | ResetMemError -> "M"
           | ResetResize _ -> "R" in
         let lastlog = match List.rev outs with ResetDone (_, l) :: _ -> log_str l | _ -> "" in
         let w = cxf.cx_ws in
         "OK ops=" ^ String.concat " " (List.map tok outs) ^
         " end=" ^ hex_of_n (N.sub w.objectEnd start) ^ ":" ^ hex_of_n (N.sub w.tableEnd start) ^ ":" ^ hex_of_n (N.sub w.allocStart start) ^
         " dur=" ^ hex_of_n cxf.cx_dur ^ " failed=" ^ bstr w.allocFailed ^ " log=" ^ lastlog)
  | "EDSTREAM" -> hex_of_n (estimateDStreamSize (n_of_hex a.(1)))
  | "EDDICT" -> hex_of_n (estimateDDictSize (n_of_hex a.(1)) (b_of a.(2)))
  | "DBUF" -> hex_of_n (decodingBufferSize_internal (n_of_hex a.(1)) (n_of_hex a.(2)) (n_of_hex a.(3)))
  | "FWIN" -> optn (frame_windowSize (b_of a.(1)) (n_of_hex a.(2)) (n_of_hex a.(3)))
  | "DSTREAM" ->
      (* DSTREAM staticSize maxW maxB buffered w:fcs w:fcs ... : one result token per frame *)
      let st = ref (dstate0 (n_of_hex a.(1)) (n_of_hex a.(2)) (n_of_hex a.(3)) (b_of a.(4))) in
      let out = ref [] in
      for i = 5 to Array.length a - 1 do
        (match String.split_on_char ':' a.(i) with
         | [w; f] ->
           (match dstream_load_header !st (n_of_hex w) (n_of_hex f) with
            | DsErrWindow -> out := "W" :: !out
            | DsErrMem -> out := "M" :: !out
            | DsOk (s, al) ->
              st := s;
              out := ("K/" ^ hex_of_n s.inBuffSize ^ "/" ^ hex_of_n s.outBuffSize ^ "/" ^
                      (match al with None -> "-" | Some x -> hex_of_n x)) :: !out)
         | [_; _; _] ->   (* single-pass shortcut taken by the caller-visible conditions: no header stage, state unchanged *)
           out := ("K/" ^ hex_of_n !st.inBuffSize ^ "/" ^ hex_of_n !st.outBuffSize ^ "/-") :: !out
         | _ -> failwith "bad frame token")
      done;
      String.concat " " (List.rev !out)
  | "NEEDRAW" ->
      (* NEEDRAW cp(7) srcLen : neededSpace of ZSTD_compress_advanced with exactly these cParams *)
      hex_of_n (need_advanced_raw !rz (cp_of a 1) (n_of_hex a.(8)))
  | "EDFF" -> optn (estimateDStreamSize_fromFrame (b_of a.(1)) (n_of_hex a.(2)) (n_of_hex a.(3)))
  | "CDLVL" ->
      (* CDLVL start dictSize level srcHint : the level-based static CDict recipe of zstd.h *)
      let start = n_of_hex a.(1) and d = n_of_hex a.(2) and l = z_of_hex a.(3) and hint = n_of_hex a.(4) in
      let cp = getCParams_public l hint d in
      let est = estimateCDictSize !rz d l and adv = estimateCDictSize_advanced !rz d cp false in
      (match cdict_level_recipe !rz start d l hint with InitNull -> "NULL" | InitOk _ -> "OK") ^
      " est=" ^ hex_of_n est ^ " adv=" ^ hex_of_n adv ^ " cp=" ^
      String.concat "," (List.map hex_of_n [cp.wlog; cp.clog; cp.hlog; cp.slog; cp.mml; cp.tlen; cp.strat])
  | "DOWN" ->
      (* DOWN staticSize op op ... : ownership history of one DCtx; per op rc/live/sizeof/tableSize/count
         (live counts the context itself for a heap context) *)
      let ssz = n_of_hex a.(1) in
      let d = ref (down0 ssz) in
      let live = ref (if ssz = N0 then sizeof_ZSTD_DCtx else N0) in
      let out = ref [] in
      for i = 2 to Array.length a - 1 do
        let t = a.(i) in
        let rest = String.sub t 1 (String.length t - 1) in
        let two () = match String.split_on_char '/' rest with [x; y] -> (x, y) | [x] -> (x, "0") | _ -> failwith "bad op" in
        let op = match t.[0] with
          | 'M' -> OpMulti (b_of rest)
          | 'R' -> OpRef (n_of_hex rest)
          | 'N' -> OpRefNull
          | 'L' -> let (x, y) = two () in OpLoad (n_of_hex x, b_of y)
          | 'F' -> let (x, y) = two () in
                   (match frame_windowSize false (n_of_hex x) N0 with
                    | Some w -> ignore y; OpFrame (w, uNKNOWN)
                    | None -> failwith "bad window descriptor")
          | 'Z' -> OpReset
          | 'C' -> OpCopyFrom (b_of rest, UseNone)
          | 'P' -> OpPrefix (n_of_hex rest)
          | _ -> failwith ("bad op " ^ t) in
        let ((d1, rc), es) = down_step !d op in
        d := d1; live := live_after !live es;
        let rcs = match rc with RcOk -> "OK" | RcMem -> "M" | RcWindow -> "W" | RcUnsupported -> "E40" | RcGeneric -> "E1" in
        let (ts, cn) = match d1.do_set with Some h -> (h.hs_size, hs_count h) | None -> (N0, N0) in
        out := (rcs ^ "/" ^ hex_of_n !live ^ "/" ^ hex_of_n (sizeof_DCtx_full d1) ^ "/" ^ hex_of_n ts ^ "/" ^ hex_of_n cn) :: !out
      done;
      let fin = live_after !live (free_events !d) in
      String.concat " " (List.rev !out) ^ " free=OK live=" ^ hex_of_n fin
  | "MTU" ->
      (* MTU <12 structure sizes> n sched op op ... : ownership history of one ZSTDMT_CCtx with allocation failures (round 3);
         per op rc/nbWorkers/jobs/bufTotal/cctxTotal/seqTotal/live/sizeof ('!' after sizeof: the expression used before fix
         eb053f6 dereferences NULL in this state) *)
      let zn i = n_of_hex a.(i) in
      let z = { z_mtctx = zn 1; z_job = zn 2; z_bufpool = zn 3; z_buffer = zn 4; z_cctxpool = zn 5; z_ptr = zn 6; z_cctx = zn 7;
                z_pool = zn 8; z_pooljob = zn 9; z_thread = zn 10; z_ldmEntry = zn 11; z_maxWorkers = zn 12 } in
      let sched s = if s = "-" then [] else List.init (String.length s) (fun i -> s.[i] <> '0') in
      let ((r, e0), _) = mt_create z (n_of_hex a.(13)) (sched a.(14)) in
      let live = ref (live_after N0 e0) in
      (match r with
       | None -> "NULL live=" ^ hex_of_n !live
       | Some s0 ->
         let st = ref s0 in
         let tot p = match p with Some q -> hex_of_n q.p_total | None -> "N" in
         let show rc =
           let s = !st in
           rc ^ "/" ^ hex_of_n s.mt_nbw ^ "/" ^ (match s.mt_jobs with Some j -> hex_of_n j | None -> "N") ^ "/" ^ tot s.mt_buf ^ "/" ^ tot s.mt_cctx
           ^ "/" ^ tot s.mt_seq ^ "/" ^ hex_of_n !live ^ "/" ^ hex_of_n (mt_sizeof z s) ^ (match mt_sizeof_old z s with None -> "!" | Some _ -> "") in
         let out = ref [show "K"] in
         for i = 15 to Array.length a - 1 do
           let t = a.(i) in
           let rest = String.sub t 1 (String.length t - 1) in
           let (x, y) = match String.split_on_char '/' rest with [x; y] -> (x, y) | [x] -> (x, "-") | x :: y :: _ -> (x, y) | [] -> failwith "bad op" in
           let okc k = not (String.length y > k && y.[k] = '0') in
           let op = match t.[0] with
             | 'S' -> MStart (n_of_hex x, sched y)
             | 'G' -> MGetBuf (n_of_hex x, okc 0)
             | 'F' -> let rec nat_of k = if k <= 0 then O else S (nat_of (k - 1)) in MFlush (nat_of (int_of_string ("0x" ^ x)))
             | 'Q' -> MSeqUse (n_of_hex x, okc 0)
             | 'C' -> MCtxUse ((if x = "-" then None else Some (n_of_hex x)), okc 0, okc 1)
             | 'I' -> (match String.split_on_char '/' rest with
                       | [n; sc; d; rb; hl; bl] ->
                         MInit (n_of_hex n, sched sc, (if d = "-" then None else Some (n_of_hex d)), n_of_hex rb,
                                (if hl = "0" then None else Some (n_of_hex hl, n_of_hex bl)))
                       | _ -> failwith "bad I op")
             | _ -> failwith ("bad op " ^ t) in
           let ((s1, rc), es) = mt_step z !st op in
           st := s1; live := live_after !live es;
           out := show (match rc with MOk -> "K" | MMem -> "M" | MSkip -> "S") :: !out
         done;
         String.concat " " (List.rev !out) ^ " end=" ^ hex_of_n (live_after !live (mt_free_events z !st)))
  | s -> failwith ("unknown case kind " ^ s)

let () =
  try
    while true do
      let line = input_line stdin in
      let line = String.trim line in
      if line <> "" then begin
        let a = Array.of_list (List.filter (fun x -> x <> "") (String.split_on_char ' ' line)) in
        (try print_endline (handle a) with
         | Failure m -> print_endline ("DRIVER-ERROR " ^ m)
         | Invalid_argument m -> print_endline ("DRIVER-ERROR " ^ m))
      end
    done
  with End_of_file -> ()
