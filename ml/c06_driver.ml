(* C06 driver: no logic. Reads case lines on stdin, calls the extracted model, prints one canonical line per case.
   Numbers travel as hexadecimal (conversion to/from Coq's binary Z is bit shuffling only). *)
open C06model

let z_of_hex (s : string) : z =
  let neg = String.length s > 0 && s.[0] = '-' in
  let s = if neg then String.sub s 1 (String.length s - 1) else s in
  let acc = ref None in
  String.iter (fun c ->
    let d = match c with
      | '0'..'9' -> Char.code c - 48
      | 'a'..'f' -> Char.code c - 87
      | 'A'..'F' -> Char.code c - 55
      | _ -> failwith ("bad hex digit in " ^ s) in
    for k = 3 downto 0 do
      let b = (d lsr k) land 1 = 1 in
      acc := (match !acc with
              | None -> if b then Some XH else None
              | Some p -> Some (if b then XI p else XO p))
    done) s;
  match !acc with None -> Z0 | Some p -> if neg then Zneg p else Zpos p

let hex_of_pos (p : positive) : string =
  let rec bits p acc = match p with XH -> true :: acc | XO q -> bits q (false :: acc) | XI q -> bits q (true :: acc) in
  let bl = bits p [] in (* msb first *)
  let n = List.length bl in
  let pad = (4 - n mod 4) mod 4 in
  let bl = (List.init pad (fun _ -> false)) @ bl in
  let buf = Buffer.create 16 in
  let rec go l = match l with
    | a :: b :: c :: d :: t ->
        let v = (if a then 8 else 0) + (if b then 4 else 0) + (if c then 2 else 0) + (if d then 1 else 0) in
        Buffer.add_char buf "0123456789abcdef".[v]; go t
    | _ -> () in
  go bl; Buffer.contents buf

let hex_of_z (v : z) : string = match v with Z0 -> "0" | Zpos p -> hex_of_pos p | Zneg p -> "-" ^ hex_of_pos p

let byte_tab : z array = Array.init 256 (fun i -> z_of_hex (Printf.sprintf "%x" i))

let bytes_of_hex (s : string) : z list =
  let n = String.length s / 2 in
  let r = ref [] in
  for i = n - 1 downto 0 do
    r := byte_tab.(int_of_string ("0x" ^ String.sub s (2 * i) 2)) :: !r
  done; !r

let res_str (r : res) : string = match r with
  | Done (w, c) -> "OK " ^ hex_of_z w ^ " " ^ hex_of_z c
  | TooSmall -> "SMALL"
  | OutOfFuel -> "FUEL"

let optz = function None -> "ERR" | Some v -> hex_of_z v
let bstr b = if b then "1" else "0"
let zlist (s : string) : z list =
  if s = "" || s = "-" then [] else List.map z_of_hex (String.split_on_char ',' s)

let () =
  try
    while true do
      let line = input_line stdin in
      let f = Array.of_list (String.split_on_char ' ' (String.trim line)) in
      let a i = z_of_hex f.(i) in
      (match f.(0) with
       | "B" -> (* B n *)
           Printf.printf "B %s %s %s\n" f.(1) (hex_of_z (bound (a 1))) (optz (compressBound_fn (a 1)))
       | "R" -> (* R n bsMax hs chk cap *)
           Printf.printf "R %s\n" (res_str (raw_frame (a 1) (a 2) (a 3) (f.(4) = "1") (a 5)))
       | "W" -> (* W n bs hs chk *)
           Printf.printf "W %s\n" (hex_of_z (worst_frame (a 1) (a 2) (a 3) (f.(4) = "1")))
       | "O" -> (* O srcSize bsMax savings split *)
           Printf.printf "O %s\n" (hex_of_z (optimal_block_size (a 1) (a 2) (a 3) (a 4)))
       | "P" -> (* P n bsMax hs chk s0 cap sizes splits *)
           Printf.printf "P %s\n" (res_str (replay_frame (zlist f.(7)) (zlist f.(8)) (a 1) (a 2) (a 3) (f.(4) = "1") (a 5) (a 6)))
       | "S" -> (* S n bs hs chk *)
           Printf.printf "S %s\n" (hex_of_z (suff_capacity (a 1) (a 2) (a 3) (f.(4) = "1")))
       | "K" -> (* K maxBlockSize windowLog pledgedSrcSize *)
           Printf.printf "K %s\n" (hex_of_z (cctx_block_size (a 1) (a 2) (a 3)))
       | "M" -> (* M originalSize blockSize *)
           Printf.printf "M %s\n" (hex_of_z (dECOMPRESSION_MARGIN (a 1) (a 2)))
       | "I" -> (* I hexbytes *)
           let src = bytes_of_hex (if Array.length f > 1 then f.(1) else "") in
           let gfh = match get_frame_header src with
             | HOk h -> Printf.sprintf "OK:%s:%s:%s:%s:%s:%s:%s" (hex_of_z h.fh_fcs) (hex_of_z h.fh_window)
                          (hex_of_z h.fh_bsmax) (bstr h.fh_skippable) (hex_of_z h.fh_hsize) (hex_of_z h.fh_dictid) (bstr h.fh_chk)
             | HNeed n -> "NEED:" ^ hex_of_z n
             | HErr -> "ERR" in
           Printf.printf "I fhs=%s gfh=%s ffcs=%s dbound=%s margin=%s fds=%s gfcs=%s\n"
             (optz (frame_header_size src)) gfh (optz (find_frame_compressed_size src))
             (optz (decompress_bound src)) (optz (decompression_margin src))
             (hex_of_z (find_decompressed_size src)) (hex_of_z (get_frame_content_size src))
       | "UN" -> (* UN len cap *)
           Printf.printf "U %s\n" (match no_compress_block (a 2) (a 1) with Some v -> "OK " ^ hex_of_z v | None -> "ERR")
       | "UR" -> (* UR cap *)
           Printf.printf "U %s\n" (match rle_compress_block (a 1) with Some v -> "OK " ^ hex_of_z v | None -> "ERR")
       | "UL" -> (* UL cap *)
           Printf.printf "U %s\n" (match write_last_empty_block (a 1) with Some v -> "OK " ^ hex_of_z v | None -> "ERR")
       | "UF" -> (* UF cap hs *)
           Printf.printf "U %s\n" (match write_frame_header (a 1) (a 2) with Some v -> "OK " ^ hex_of_z v | None -> "ERR")
       | "US" -> (* US len cap variant *)
           Printf.printf "U %s\n" (match write_skippable_frame (a 2) (a 1) (a 3) with Some v -> "OK " ^ hex_of_z v | None -> "ERR")
       | "UD" -> (* UD cap hexbytes *)
           let src = bytes_of_hex (if Array.length f > 2 then f.(2) else "") in
           Printf.printf "U %s\n" (match read_skippable_frame (a 1) src with Some (n, _) -> "OK " ^ hex_of_z n | None -> "ERR")
       | "UE" -> (* UE bs hs chk n1 n2 cap *)
           let (w1, r) = raw_two_calls (a 1) (a 2) (f.(3) = "1") (a 4) (a 5) (a 6) in
           Printf.printf "U %s %s\n" (optz w1)
             (match r with CDone (w, _, _) -> "OK " ^ hex_of_z w | CTooSmall -> "ERR" | COverrun -> "OVERRUN" | CFuel -> "FUEL")
       | "J" -> (* J n jobSize bsFirst bsNext hs chk *)
           Printf.printf "J %s\n" (optz (mt_raw_frame (a 1) (a 2) (a 3) (a 4) (a 5) (f.(6) = "1")))
       | "D" -> (* D nbSeq s:e:d,s:e:d,...   -> split locations the model derives from the recorded decisions *)
           let dl = if Array.length f < 3 || f.(2) = "-" then [] else
             List.map (fun t -> match String.split_on_char ':' t with
                                | [s; e; d] -> ((z_of_hex s, z_of_hex e), d = "1")
                                | _ -> failwith "bad decision") (String.split_on_char ',' f.(2)) in
           Printf.printf "D %s\n" (String.concat "," (List.map hex_of_z (derive_table dl (a 1))))
       | "Q" -> (* Q numSplits len *)
           Printf.printf "Q %s %s %s %s %s\n" (hex_of_z (emitted_partitions (a 1) (a 2))) (hex_of_z (weak_block_cost (a 2))) (hex_of_z (kb_blocks (a 2)))
             (hex_of_z mAX_NB_BLOCK_SPLITS) (hex_of_z mIN_SEQUENCES_BLOCK_SPLITTING)
       | "L" -> (* L version hexbytes   -> legacy frame walk: compressed size, bound *)
           let src = bytes_of_hex (if Array.length f > 2 then f.(2) else "") in
           Printf.printf "L %s\n" (match legacy_find (a 1) src with Some (cs, b) -> "OK " ^ hex_of_z cs ^ " " ^ hex_of_z b | None -> "ERR")
       | "" -> ()
       | _ -> Printf.printf "?\n");
    done
  with End_of_file -> ()
