(* C09 driver: no logic.  One history per line:  <id> <fixed 0|1> <stable 0|1> <pledge|-> <n:d,n:d,...|->
   -> <id> <one letter per call: D deferred, k ok, K ok+over, e end-refused, E end-ok> <final: none|ok|refused> *)
open C09model

let rec pos_of_int n = if n = 1 then XH else if n land 1 = 0 then XO (pos_of_int (n lsr 1)) else XI (pos_of_int (n lsr 1))
let n_of_int n = if n = 0 then N0 else Npos (pos_of_int n)

let () =
  try
    while true do
      let line = input_line stdin in
      match String.split_on_char ' ' (String.trim line) with
      | [id; fx; st; pl; h] ->
        let pledge = if pl = "-" then None else Some (n_of_int (int_of_string pl)) in
        let hist = if h = "-" then [] else
            List.map (fun c -> match String.split_on_char ':' c with
                | [a; b] -> (n_of_int (int_of_string a), n_of_int (int_of_string b))
                | _ -> failwith "bad call") (String.split_on_char ',' h) in
        let (calls, fin) = run (fx = "1") (st = "1") (fresh pledge) hist [] in
        let b = Buffer.create 16 in
        List.iter (fun c -> Buffer.add_char b (match c with
            | Cdeferred -> 'D' | Cok false -> 'k' | Cok true -> 'K' | Cend false -> 'e' | Cend true -> 'E')) calls;
        Printf.printf "%s %s %s\n" id (if Buffer.length b = 0 then "-" else Buffer.contents b)
          (match fin with None -> "none" | Some true -> "ok" | Some false -> "refused")
      | _ -> print_endline "? BAD"
    done
  with End_of_file -> ()
