(* C16 driver: no logic.  Reads one op per line, calls the extracted model, prints one canonical result line per op.
   Line formats are those of harness/c16_params.c and harness/c16_adjust.c. *)
open C16model

let rec pos_of_int n = if n = 1 then XH else if n land 1 = 0 then XO (pos_of_int (n lsr 1)) else XI (pos_of_int (n lsr 1))
let z_of_int n = if n = 0 then Z0 else if n > 0 then Zpos (pos_of_int n) else Zneg (pos_of_int (-n))
let rec int_of_pos = function XH -> 1 | XO p -> 2 * int_of_pos p | XI p -> 2 * int_of_pos p + 1
let int_of_z = function Z0 -> 0 | Zpos p -> int_of_pos p | Zneg p -> - (int_of_pos p)
(* values beyond 60 bits (pledged sizes) are printed in binary, most significant bit first: "b1011" *)
let rec pos_bits = function XH -> 1 | XO p -> 1 + pos_bits p | XI p -> 1 + pos_bits p
let rec pos_bin p acc = match p with XH -> "1" ^ acc | XO q -> pos_bin q ("0" ^ acc) | XI q -> pos_bin q ("1" ^ acc)
let string_of_z z = match z with
  | Zpos p when pos_bits p > 60 -> "b" ^ pos_bin p ""
  | _ -> string_of_int (int_of_z z)

(* numbers that may exceed 62 bits are sent in binary, most significant bit first: "b1011" *)
let z_of_bin s =
  let n = String.length s in
  let rec first i = if i >= n then None else if s.[i] = '1' then Some i else first (i + 1) in
  let rec go i acc = if i >= n then acc else go (i + 1) (if s.[i] = '1' then XI acc else XO acc) in
  match first 1 with None -> Z0 | Some i -> Zpos (go (i + 1) XH)

let cls = function
  | Ok -> "ok"
  | Err E_outOfBound -> "oob"
  | Err E_unsupported -> "unsup"
  | Err E_stage_wrong -> "stage"
  | Err E_other -> "err"

let b s = (s = "1")
let zi s = if String.length s > 0 && s.[0] = 'b' then z_of_bin s else z_of_int (int_of_string s)

let mk w c h s m t st = { wlog = zi w; clog = zi c; hlog = zi h; slog = zi s; mmatch = zi m; tlen = zi t; strat = zi st }

let parse toks =
  match toks with
  | ["cset"; o; id; v] -> OCSet (b o, zi id, zi v)
  | ["cget"; o; id] -> OCGet (b o, zi id)
  | ["creset"; o; d] -> OCReset (b o, zi d)
  | ["cbegin"; o] -> OCBegin (b o)
  | ["cend"; o] -> OCEnd (b o)
  | ["cframe"; o] -> OCFrame (b o)
  | ["cfail"; o] -> OCFail (b o)
  | ["cbad"; o] -> OCBad (b o)
  | ["csimple"; o] -> OCSimple (b o)
  | ["cload"; o; k] -> OCLoad (b o, zi k)
  | ["crefcdict"; o; k] -> OCRefCDict (b o, zi k)
  | ["crefprefix"; o; k] -> OCRefPrefix (b o, zi k)
  | ["capply"; o] -> OCApply (b o)
  | ["cvec"; o] -> OCVec (b o)
  | ["pset"; id; v] -> OPSet (zi id, zi v)
  | ["pget"; id] -> OPGet (zi id)
  | ["preset"] -> OPReset
  | ["pinit"; l] -> OPInit (zi l)
  | ["pvec"] -> OPVec
  | ["dset"; o; id; v] -> ODSet (b o, zi id, zi v)
  | ["dget"; o; id] -> ODGet (b o, zi id)
  | ["dreset"; o; d] -> ODReset (b o, zi d)
  | ["dmaxwin"; o; s] -> ODMaxWin (b o, zi s)
  | ["dbegin"; o] -> ODBegin (b o)
  | ["dend"; o] -> ODEnd (b o)
  | ["dbad"; o] -> ODBad (b o)
  | ["dbadcall"; o] -> ODBadCall (b o)
  | ["dframe"; o] -> ODFrame (b o)
  | ["drefddict"; o; k] -> ODRefDDict (b o, zi k)
  | ["dvec"; o] -> ODVec (b o)
  | ["nop"] -> ONop
  | ["new"] -> ONew
  | ["csetcp"; o; wl; cl; hl; sl; mm; tl; st] -> OCSetCP (b o, mk wl cl hl sl mm tl st)
  | ["csetfp"; o; cs; ck; nd] -> OCSetFP (b o, { f_cs = zi cs; f_ck = zi ck; f_nd = zi nd })
  | ["csetp"; o; wl; cl; hl; sl; mm; tl; st; cs; ck; nd] -> OCSetP (b o, mk wl cl hl sl mm tl st, { f_cs = zi cs; f_ck = zi ck; f_nd = zi nd })
  | ["pinitadv"; wl; cl; hl; sl; mm; tl; st; cs; ck; nd] -> OPInitAdv (mk wl cl hl sl mm tl st, { f_cs = zi cs; f_ck = zi ck; f_nd = zi nd })
  | ["dload"; o; k] -> ODLoad (b o, zi k)
  | ["drefprefix"; o; k] -> ODRefPrefix (b o, zi k)
  | ["dfx"; o; k] -> ODFx (b o, zi k)
  | ["ddec"; o; f] -> ODDec (b o, zi f)
  | ["ddec1"; o; f] -> ODDec1 (b o, [zi f])
  | ["ddecm"; o; f1; f2; f3] -> ODDec1 (b o, [zi f1; zi f2; zi f3])
  | ["ddecu"; o; k; f] -> ODDecU (b o, zi k, zi f)
  | ["dxvec"; o] -> ODXVec (b o)
  | ["ddecr"; o; k; f] -> ODDecR (b o, zi k, zi f)
  | _ -> failwith ("bad op: " ^ String.concat " " toks)

let xparse toks =
  match toks with
  | ["cpl"; o; v] -> XPledge (b o, zi v)
  | ["cfxwin"; o] -> XFxWin (b o)
  | ["cxvec"; o] -> XXVec (b o)
  | ["cavec"; o] -> XAVec (b o)
  | ["cmvec"; o] -> XMVec (b o)
  | ["cuse"; o] -> XUse (b o)
  | _ -> XB (parse toks)

let fp cs ck nd = { f_cs = zi cs; f_ck = zi ck; f_nd = zi nd }
let yparse toks =
  match toks with
  | ["cinit"; o; l] -> YInit (b o, zi l)
  | ["cinitsrc"; o; l; p] -> YInitSrc (b o, zi l, zi p)
  | ["cinitdict"; o; k; l] -> YInitDict (b o, zi k, zi l)
  | ["cinitcdict"; o; k] -> YInitCDict (b o, zi k)
  | ["cinitcdictadv"; o; k; cs; ck; nd; p] -> YInitCDictAdv (b o, zi k, fp cs ck nd, zi p)
  | ["cinitadv"; o; k; wl; cl; hl; sl; mm; tl; st; cs; ck; nd; p] -> YInitAdv (b o, zi k, mk wl cl hl sl mm tl st, fp cs ck nd, zi p)
  | ["cresetcs"; o; p] -> YResetCS (b o, zi p)
  | _ -> YX (xparse toks)

let () =
  let w = ref xworld_new in
  let buf = Buffer.create (1 lsl 20) in
  let print_cpar c =
    List.iter (fun v -> Buffer.add_string buf (string_of_int (int_of_z v)); Buffer.add_char buf ' ') (cpar_list c);
    Buffer.add_string buf (if check_cparams c then "1\n" else "0\n") in
  (try
     while true do
       let line = input_line stdin in
       let toks = List.filter (fun s -> s <> "") (String.split_on_char ' ' (String.trim line)) in
       match toks with
       | [] -> ()
       | ["ids"] ->
           Buffer.add_string buf "cids";
           List.iter (fun p -> Buffer.add_string buf (" " ^ string_of_int (int_of_z (cparam_id p)))) all_cparams;
           Buffer.add_string buf "\ndids";
           List.iter (fun p -> Buffer.add_string buf (" " ^ string_of_int (int_of_z (dparam_id p)))) all_dparams;
           Buffer.add_string buf "\n"
       | ["cbounds"; id] ->
           (match cbounds_id (zi id) with
            | Some (lo, hi) -> Buffer.add_string buf (Printf.sprintf "ok %d %d\n" (int_of_z lo) (int_of_z hi))
            | None -> Buffer.add_string buf "unsup\n")
       | ["dbounds"; id] ->
           (match dbounds_id (zi id) with
            | Some (lo, hi) -> Buffer.add_string buf (Printf.sprintf "ok %d %d\n" (int_of_z lo) (int_of_z hi))
            | None -> Buffer.add_string buf "unsup\n")
       | ["skip"] -> Buffer.add_string buf "skip\n"
       | ["adj"; wl; cl; hl; sl; mm; tl; st; src; dict; mode; row] ->
           print_cpar (adjust_cparams (mk wl cl hl sl mm tl st) (zi src) (zi dict) (zi mode) (zi row))
       | ["adjp"; wl; cl; hl; sl; mm; tl; st; src; dict] ->
           print_cpar (adjust_cparams_public (mk wl cl hl sl mm tl st) (zi src) (zi dict))
       | ["get"; level; src; dict; mode] -> print_cpar (get_cparams (zi level) (zi src) (zi dict) (zi mode))
       | ["getp"; level; src; dict] -> print_cpar (get_cparams_public (zi level) (zi src) (zi dict))
       | _ ->
           let (w', (r, vals)) = ystep !w (yparse toks) in
           w := w';
           Buffer.add_string buf (cls r);
           List.iter (fun v -> Buffer.add_char buf ' '; Buffer.add_string buf (if v = unknown_cell then "?" else string_of_z v)) vals;
           Buffer.add_char buf '\n'
     done
   with End_of_file -> ());
  print_string (Buffer.contents buf)
