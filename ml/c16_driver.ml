(* C16 driver: no logic.  Reads one op per line, calls the extracted model, prints one canonical result line per op.
   Line formats are those of harness/c16_params.c. *)
open C16model

let rec pos_of_int n = if n = 1 then XH else if n land 1 = 0 then XO (pos_of_int (n lsr 1)) else XI (pos_of_int (n lsr 1))
let z_of_int n = if n = 0 then Z0 else if n > 0 then Zpos (pos_of_int n) else Zneg (pos_of_int (-n))
let rec int_of_pos = function XH -> 1 | XO p -> 2 * int_of_pos p | XI p -> 2 * int_of_pos p + 1
let int_of_z = function Z0 -> 0 | Zpos p -> int_of_pos p | Zneg p -> - (int_of_pos p)

let cls = function
  | Ok -> "ok"
  | Err E_outOfBound -> "oob"
  | Err E_unsupported -> "unsup"
  | Err E_stage_wrong -> "stage"
  | Err E_other -> "err"

let b s = (s = "1")
let zi s = z_of_int (int_of_string s)

let parse toks =
  match toks with
  | ["cset"; o; id; v] -> OCSet (b o, zi id, zi v)
  | ["cget"; o; id] -> OCGet (b o, zi id)
  | ["creset"; o; d] -> OCReset (b o, zi d)
  | ["cbegin"; o] -> OCBegin (b o)
  | ["cend"; o] -> OCEnd (b o)
  | ["cframe"; o] -> OCFrame (b o)
  | ["cfail"; o] -> OCFail (b o)
  | ["cbad"; o] -> OCBad (b o)
  | ["csimple"; o] -> OCSimple (b o)
  | ["cload"; o; k] -> OCLoad (b o, zi k)
  | ["crefcdict"; o; k] -> OCRefCDict (b o, zi k)
  | ["crefprefix"; o; k] -> OCRefPrefix (b o, zi k)
  | ["capply"; o] -> OCApply (b o)
  | ["cvec"; o] -> OCVec (b o)
  | ["pset"; id; v] -> OPSet (zi id, zi v)
  | ["pget"; id] -> OPGet (zi id)
  | ["preset"] -> OPReset
  | ["pinit"; l] -> OPInit (zi l)
  | ["pvec"] -> OPVec
  | ["dset"; o; id; v] -> ODSet (b o, zi id, zi v)
  | ["dget"; o; id] -> ODGet (b o, zi id)
  | ["dreset"; o; d] -> ODReset (b o, zi d)
  | ["dmaxwin"; o; s] -> ODMaxWin (b o, zi s)
  | ["dbegin"; o] -> ODBegin (b o)
  | ["dend"; o] -> ODEnd (b o)
  | ["dbad"; o] -> ODBad (b o)
  | ["dbadcall"; o] -> ODBadCall (b o)
  | ["dframe"; o] -> ODFrame (b o)
  | ["drefddict"; o; k] -> ODRefDDict (b o, zi k)
  | ["dvec"; o] -> ODVec (b o)
  | ["nop"] -> ONop
  | ["new"] -> ONew
  | _ -> failwith ("bad op: " ^ String.concat " " toks)

let () =
  let w = ref world_new in
  let buf = Buffer.create (1 lsl 20) in
  (try
     while true do
       let line = input_line stdin in
       let toks = List.filter (fun s -> s <> "") (String.split_on_char ' ' (String.trim line)) in
       match toks with
       | [] -> ()
       | ["cbounds"; id] ->
           (match cbounds_id (zi id) with
            | Some (lo, hi) -> Buffer.add_string buf (Printf.sprintf "ok %d %d\n" (int_of_z lo) (int_of_z hi))
            | None -> Buffer.add_string buf "unsup\n")
       | ["dbounds"; id] ->
           (match dbounds_id (zi id) with
            | Some (lo, hi) -> Buffer.add_string buf (Printf.sprintf "ok %d %d\n" (int_of_z lo) (int_of_z hi))
            | None -> Buffer.add_string buf "unsup\n")
       | ["ids"] ->
           Buffer.add_string buf "cids";
           List.iter (fun p -> Buffer.add_string buf (" " ^ string_of_int (int_of_z (cparam_id p)))) all_cparams;
           Buffer.add_string buf "\ndids";
           List.iter (fun p -> Buffer.add_string buf (" " ^ string_of_int (int_of_z (dparam_id p)))) all_dparams;
           Buffer.add_string buf "\n"
       | ["skip"] -> Buffer.add_string buf "skip\n"
       | _ ->
           let (w', (r, vals)) = step !w (parse toks) in
           w := w';
           Buffer.add_string buf (cls r);
           List.iter (fun v -> Buffer.add_char buf ' '; Buffer.add_string buf (string_of_int (int_of_z v))) vals;
           Buffer.add_char buf '\n'
     done
   with End_of_file -> ());
  print_string (Buffer.contents buf)
