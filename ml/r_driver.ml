(* Driver for the extracted reference decoder R.  No logic: parse case lines, call the model, print one
   canonical result line per case.
   input line :  <id> <flags> <dicthex|-> <framehex|->
   flags      :  comma separated: w=<max window> nostrict magicless nocheck bm=<block max> seqs rawdict hdr  (or "-")
   output line:  <id> OK <contenthex|-> <trace>      |   <id> ERR <class> <site> *)
open Rdecoder

let rec pos_of_int i = if i = 1 then XH else if i land 1 = 0 then XO (pos_of_int (i lsr 1)) else XI (pos_of_int (i lsr 1))
let n_of_int i = if i = 0 then N0 else Npos (pos_of_int i)
let rec int_of_pos = function XH -> 1 | XO p -> 2 * int_of_pos p | XI p -> 2 * int_of_pos p + 1
let int_of_n = function N0 -> 0 | Npos p -> int_of_pos p
(* decimal string of a possibly > 2^62 N *)
let string_of_n n =
  match n with
  | N0 -> "0"
  | Npos p ->
    (* little-endian bit list -> decimal via repeated doubling on a digit buffer *)
    let rec bits p acc = match p with XH -> true :: acc | XO q -> bits q (false :: acc) | XI q -> bits q (true :: acc) in
    let bl = bits p [] in   (* MSB first *)
    let digits = ref [0] in (* little-endian decimal digits *)
    List.iter (fun b ->
      let carry = ref (if b then 1 else 0) in
      digits := List.map (fun d -> let v = 2 * d + !carry in carry := v / 10; v mod 10) !digits;
      if !carry > 0 then digits := !digits @ [!carry]) bl;
    String.concat "" (List.rev_map string_of_int !digits)

(* decimal string (possibly > 2^62) -> N, via the model's own N arithmetic *)
let n_of_dec (str : string) =
  let ten = n_of_int 10 in
  let acc = ref N0 in
  String.iter (fun c -> acc := N.add (N.mul !acc ten) (n_of_int (Char.code c - 48))) str; !acc

let hexval c = match c with
  | '0'..'9' -> Char.code c - 48 | 'a'..'f' -> Char.code c - 87 | 'A'..'F' -> Char.code c - 55
  | _ -> failwith "bad hex"
let bytes_of_hex s =
  if s = "-" then [] else begin
    let n = String.length s / 2 in
    let rec go i acc = if i < 0 then acc else go (i - 1) (n_of_int (16 * hexval s.[2*i] + hexval s.[2*i+1]) :: acc) in
    go (n - 1) [] end
let hex_of_bytes l =
  match l with [] -> "-" | _ ->
  let b = Buffer.create 1024 in
  List.iter (fun x -> Buffer.add_string b (Printf.sprintf "%02x" (int_of_n x))) l; Buffer.contents b

let class_name = function
  | Etrunc -> "trunc" | Eformat -> "format" | Esafety -> "safety" | Eintegrity -> "integrity"
  | Elimit -> "limit" | Edict -> "dict" | Efuel -> "fuel"

let b2i b = if b then 1 else 0

let print_block buf seqs (b : btrace) =
  Buffer.add_string buf (Printf.sprintf "%d/%d/%d/%d/%d/%d/%d/%d/%d/%d" (int_of_n b.bt_type) (b2i b.bt_last)
    (int_of_n b.bt_csize) (int_of_n b.bt_rsize) (int_of_n b.bt_litmode) (int_of_n b.bt_litsize)
    (int_of_n b.bt_seqmodes) (List.length b.bt_seqs) (int_of_n b.bt_nbseq_bytes) (int_of_n b.bt_lasttable));
  if seqs then begin
    Buffer.add_char buf '(';
    List.iter (fun s -> Buffer.add_string buf (Printf.sprintf "%d:%d:%d:%d," (int_of_n s.s_ll) (int_of_n s.s_ml) (int_of_n s.s_off) (int_of_n s.s_ofcode))) b.bt_seqs;
    Buffer.add_char buf ')' end

let print_header buf (h : fheader) =
  Buffer.add_string buf (Printf.sprintf "w=%s,ss=%d,ck=%d,did=%s,fcs=%s,hs=%d,desc=%d"
    (string_of_n h.fh_window) (b2i h.fh_single) (b2i h.fh_checksum) (string_of_n h.fh_dictid)
    (match h.fh_fcs with Some v -> string_of_n v | None -> "-") (int_of_n h.fh_size) (int_of_n h.fh_desc))

let print_item buf seqs = function
  | FSkip sz -> Buffer.add_string buf (Printf.sprintf "S{%s}" (string_of_n sz))
  | FZstd (t, n) ->
    Buffer.add_string buf "F{";
    print_header buf t.ft_header;
    Buffer.add_string buf (Printf.sprintf ",cs=%d,n=%d,sum=%s,B[" (int_of_n t.ft_csize) (int_of_n n)
      (match t.ft_checksum with Some v -> string_of_n v | None -> "-"));
    List.iteri (fun i b -> if i > 0 then Buffer.add_char buf ';'; print_block buf seqs b) t.ft_blocks;
    Buffer.add_string buf "]}"

let () =
  try
    while true do
      let line = input_line stdin in
      match String.split_on_char ' ' (String.trim line) with
      | [id; flags; dhex; fhex] ->
        let fl = if flags = "-" then [] else String.split_on_char ',' flags in
        let has f = List.mem f fl in
        let getv k d = List.fold_left (fun acc f ->
            let kl = String.length k in
            if String.length f > kl && String.sub f 0 kl = k then n_of_int (int_of_string (String.sub f kl (String.length f - kl))) else acc) d fl in
        let cfg = { c_window_max = getv "w=" default_config.c_window_max;
                    c_strict_window = not (has "nostrict");
                    c_magicless = has "magicless";
                    c_check = not (has "nocheck");
                    c_block_max = getv "bm=" default_config.c_block_max } in
        let frame = bytes_of_hex fhex in
        let getstr k = List.fold_left (fun acc f ->
            let kl = String.length k in
            if String.length f > kl && String.sub f 0 kl = k then Some (String.sub f kl (String.length f - kl)) else acc) None fl in
        if getstr "fhdr=" <> None then begin
          (* unit-level header writer: fhdr=<wlog>:<cs>:<ck>:<nodid>:<ml>:<pledged>:<dictID> *)
          (match String.split_on_char ':' (match getstr "fhdr=" with Some x -> x | None -> "") with
           | [wl; cs; ck; nd; ml; pl; di] ->
             let b x = x = "1" in
             Printf.printf "%s OK %s\n" id (hex_of_bytes (enc_fheader_of (n_of_dec wl) (b cs) (b ck) (b nd) (b ml) (n_of_dec pl) (n_of_dec di)))
           | _ -> Printf.printf "%s ERR badfhdr 0\n" id)
        end else if getstr "xxh=" <> None then begin
          (* streaming checksum: xxh=<seed> ; dict field = chunks (hex) separated by '_' *)
          (match getstr "xxh=" with
           | Some sd ->
             let chunks = List.map (fun c -> bytes_of_hex (if c = "" then "-" else c)) (String.split_on_char '_' dhex) in
             let st = List.fold_left xupdate (xreset (n_of_dec sd)) chunks in
             Printf.printf "%s OK %s\n" id (string_of_n (xdigest st))
           | None -> ())
        end else if getstr "skip=" <> None then begin
          (* skippable frame writer: skip=<variant> ; dict field = payload hex *)
          (match getstr "skip=" with
           | Some v -> Printf.printf "%s OK %s\n" id (hex_of_bytes (enc_skippable (n_of_dec v) (bytes_of_hex dhex)))
           | None -> ())
        end else if getstr "lzblocks=" <> None then begin
          (* multi-block model frame: lzblocks=<wlog>:<ck>  ; dict field = blocks separated by '_':
             R<hex> | E<v>.<n> | L<litshex|->.<ll.ml.ofv;...>  (hex digits only, so '_' '.' ';' are free separators) *)
          (match String.split_on_char ':' (match getstr "lzblocks=" with Some x -> x | None -> "") with
           | [wl; ck] ->
             let parse_seqs sq = List.filter_map (fun t -> match String.split_on_char '/' t with
                 | [a; b'; c] -> Some { q_ll = n_of_dec a; q_ml = n_of_dec b'; q_ofv = n_of_dec c } | _ -> None) (String.split_on_char ';' sq) in
             let blocks = List.filter_map (fun t ->
                 if String.length t = 0 then None else
                 let body = String.sub t 1 (String.length t - 1) in
                 match t.[0] with
                 | 'R' -> Some (PRaw (bytes_of_hex (if body = "" then "-" else body)))
                 | 'E' -> (match String.split_on_char '.' body with [v; n] -> Some (PRle (n_of_dec v, n_of_dec n)) | _ -> None)
                 | 'L' -> (match String.split_on_char '.' body with [l; sq] -> Some (PLz (bytes_of_hex (if l = "" then "-" else l), parse_seqs sq)) | _ -> None)
                 | _ -> None) (String.split_on_char '_' dhex) in
             (match lz_frame_blocks (n_of_dec wl) (ck = "1") blocks with
              | Some (fr, content) -> Printf.printf "%s OK %s %s\n" id (hex_of_bytes content) (hex_of_bytes fr)
              | None -> Printf.printf "%s ERR invalidparse 0\n" id)
           | _ -> Printf.printf "%s ERR badlzblocks 0\n" id)
        end else if getstr "lzenc=" <> None then begin
          (* model-built frame from a parse: lzenc=<wlog>:<cs>:<ck>:<ll.ml.ofv;ll.ml.ofv;...>   dict field = literals hex *)
          (match String.split_on_char ':' (match getstr "lzenc=" with Some x -> x | None -> "") with
           | [wl; cs; ck; sq] ->
             let b x = x = "1" in
             let qs = List.filter_map (fun t -> match String.split_on_char '.' t with
                 | [a; b'; c] -> Some { q_ll = n_of_dec a; q_ml = n_of_dec b'; q_ofv = n_of_dec c } | _ -> None)
                 (String.split_on_char ';' sq) in
             (match lz_frame (n_of_dec wl) (b cs) (b ck) (bytes_of_hex dhex) qs with
              | Some ((fr, regen), true) -> Printf.printf "%s OK %s %s\n" id (hex_of_bytes regen) (hex_of_bytes fr)
              | Some ((_, _), false) -> Printf.printf "%s ERR toolarge 0\n" id
              | None -> Printf.printf "%s ERR noparse 0\n" id)
           | _ -> Printf.printf "%s ERR badlzenc 0\n" id)
        end else if has "asm" then begin
          let dres = if dhex = "-" then Ok None
            else if has "rawdict" then Ok (Some (raw_dict (bytes_of_hex dhex)))
            else (match parse_dict (bytes_of_hex dhex) with Ok d -> Ok (Some d) | Err (c, s) -> Err (c, s)) in
          (match dres with
           | Err (c, s) -> Printf.printf "%s ERR %s %d\n" id (class_name c) (int_of_n s)
           | Ok d ->
             (match reassemble_check cfg d frame with
              | Ok None ->
                (match reencode_check cfg d frame with
                 | Ok None -> Printf.printf "%s OK - ASM=same\n" id
                 | Ok (Some (b, i)) -> Printf.printf "%s OK - ASM=seqdiff@block%d:%d\n" id (int_of_n b) (int_of_n i)
                 | Err (c, s) -> Printf.printf "%s OK - ASM=seqerr:%s:%d\n" id (class_name c) (int_of_n s))
              | Ok (Some i) -> Printf.printf "%s OK - ASM=diff@%d\n" id (int_of_n i)
              | Err (c, s) -> Printf.printf "%s ERR %s %d\n" id (class_name c) (int_of_n s)))
        end else if has "hdr" then begin
          (match parse_fheader cfg.c_magicless frame with
           | Ok (h, _) -> let buf = Buffer.create 64 in print_header buf h; Printf.printf "%s OK %s\n" id (Buffer.contents buf)
           | Err (c, s) -> Printf.printf "%s ERR %s %d\n" id (class_name c) (int_of_n s))
        end else begin
          let dres = if dhex = "-" then Ok None
            else if has "rawdict" then Ok (Some (raw_dict (bytes_of_hex dhex)))
            else (match parse_dict (bytes_of_hex dhex) with Ok d -> Ok (Some d) | Err (c, s) -> Err (c, s)) in
          match dres with
          | Err (c, s) -> Printf.printf "%s ERR %s %d\n" id (class_name c) (int_of_n s)
          | Ok d ->
            (match r cfg d frame with
             | Ok (out, items) ->
               let buf = Buffer.create 256 in
               List.iter (print_item buf (has "seqs")) items;
               Printf.printf "%s OK %s %s\n" id (hex_of_bytes out) (Buffer.contents buf)
             | Err (c, s) -> Printf.printf "%s ERR %s %d\n" id (class_name c) (int_of_n s))
        end;
        flush stdout
      | _ -> if String.trim line <> "" then Printf.printf "? BADLINE\n"
    done
  with End_of_file -> ()
