(* C20: driver of the extracted seekable models.  No logic: parse one command per line, call the model,
   print one canonical result line. *)
open C20model

(* ---- numbers ---- *)
let rec pos_of_int (i : int) : positive =
  if i = 1 then XH else if i land 1 = 1 then XI (pos_of_int (i lsr 1)) else XO (pos_of_int (i lsr 1))
let n_of_int (i : int) : n = if i = 0 then N0 else Npos (pos_of_int i)
let byte_tab : n array = Array.init 256 n_of_int
let ten = n_of_int 10
let n_of_string (s : string) : n =
  let r = ref N0 in
  String.iter (fun c -> r := N.add (N.mul !r ten) byte_tab.(Char.code c - 48)) s; !r
let rec int_of_pos (p : positive) : int =
  match p with XH -> 1 | XO q -> 2 * int_of_pos q | XI q -> 2 * int_of_pos q + 1
let int_of_n (x : n) : int = match x with N0 -> 0 | Npos p -> int_of_pos p
let string_of_n (x : n) : string =
  if x = N0 then "0" else begin
    let b = Buffer.create 24 in
    let rec go x acc = if x = N0 then acc else let (q, r) = N.div_eucl x ten in go q (int_of_n r :: acc) in
    List.iter (fun d -> Buffer.add_char b (Char.chr (48 + d))) (go x []); Buffer.contents b end

let hexdig = "0123456789abcdef"
let hex_of_bytes (l : n list) : string =
  match l with [] -> "-" | _ ->
  let b = Buffer.create 64 in
  List.iter (fun x -> let v = int_of_n x in Buffer.add_char b hexdig.[(v lsr 4) land 15]; Buffer.add_char b hexdig.[v land 15]) l;
  Buffer.contents b
let hv c = if c >= '0' && c <= '9' then Char.code c - 48 else if c >= 'a' && c <= 'f' then Char.code c - 87 else Char.code c - 55
let bytes_of_hex (s : string) : n list =
  if s = "-" || s = "" then [] else begin
    let r = ref [] in
    let i = ref (String.length s - 2) in
    while !i >= 0 do r := byte_tab.(hv s.[!i] * 16 + hv s.[!i + 1]) :: !r; i := !i - 2 done; !r end
let bytes_of_file (path : string) : n list =
  let ic = open_in_bin path in
  let len = in_channel_length ic in
  let s = really_input_string ic len in
  close_in ic;
  let r = ref [] in
  for i = len - 1 downto 0 do r := byte_tab.(Char.code s.[i]) :: !r done; !r

let split_on c s = List.filter (fun x -> x <> "") (String.split_on_char c s)

let show_res (f : 'a -> string) (r : 'a res) : string =
  match r with Ok a -> f a | Err c -> "E" ^ string_of_n c | Trap s -> "T" ^ string_of_n s

let show_table (t : seek_table) : string =
  let b = Buffer.create 256 in
  Buffer.add_string b ("n=" ^ string_of_n t.t_len ^ " cf=" ^ (if t.t_flag then "1" else "0") ^ " ents=");
  List.iteri (fun i e -> if i > 0 then Buffer.add_char b ','; Buffer.add_string b (string_of_n e.e_c ^ ":" ^ string_of_n e.e_d ^ ":" ^ string_of_n e.e_k)) t.t_entries;
  Buffer.contents b

let parse_log (toks : string list) : logent list =
  List.map (fun s -> match String.split_on_char ':' s with
    | [c; d; k] -> ((n_of_string c, n_of_string d), n_of_string k)
    | _ -> failwith "bad log entry") toks

let show_log (l : logent list) : string =
  String.concat " " (List.map (fun ((c, d), k) -> string_of_n c ^ ":" ^ string_of_n d ^ ":" ^ string_of_n k) l)

let parse_rorc (s : string) : (n * bool) list =
  if s = "-" then [] else
  List.map (fun e -> match String.split_on_char ':' e with
    | [k; f] -> (n_of_string k, f = "1") | _ -> failwith "bad oracle") (split_on ';' s)

let parse_corc (s : string) : inner list =
  if s = "-" then [] else
  List.map (fun e -> match String.split_on_char ':' e with
    | ["c"; _off; k; p; r] -> ICompress (n_of_string k, n_of_string p, n_of_string r)
    | ["e"; p; r] -> IEnd (n_of_string p, n_of_string r)
    | _ -> failwith "bad inner oracle") (split_on ';' s)

let show_trace (tr : revent list) : string =
  match tr with [] -> "-" | _ ->
  String.concat ";" (List.rev_map (fun e -> match e with
    | EvRestart t -> "R:" ^ string_of_n t
    | EvCall (sk, size, pos) -> (if sk then "k:" else "d:") ^ string_of_n size ^ ":" ^ string_of_n pos) tr)

(* ---- state ---- *)
let x : n list ref = ref []
let cf : n ref = ref N0
let log : logent list ref = ref []
let table : seek_table ref = ref (x_table_of false [])
let frames : n list list ref = ref []
let rst : rstate ref = ref x_rinit
let cst : cstate option ref = ref None
let xrest : n list ref = ref []      (* input not yet consumed by the compressor model *)
(* round 3: input side *)
let ifile : n list ref = ref []
let ist : istate ref = ref x_iinit
(* segment syntax: <w|n>:<c0>:<seekok 0|1>:<consumed>,<hint>,<-|moved>/<consumed>,<hint>,<-|moved>/...   ("-" = no iteration) *)
let parse_iseg (s : string) : iseg =
  match String.split_on_char ':' s with
  | [w; c0; ok; its] ->
      let iters = if its = "-" then [] else
        List.map (fun it -> match String.split_on_char ',' it with
          | [c; h; f] -> IIter (n_of_string c, n_of_string h, (if f = "-" then None else Some (n_of_string f)))
          | _ -> failwith "bad iter") (split_on '/' its) in
      ISeg (w = "w", n_of_string c0, ok = "1", iters)
  | _ -> failwith "bad segment"
let show_ievent (e : ievent) : string =
  match e with
  | IoSeek (c0, ok) -> "S:" ^ string_of_n c0 ^ ":" ^ (if ok then "1" else "0")
  | IoRead (h, k, ok) -> "I:" ^ string_of_n h ^ ":" ^ string_of_n k ^ ":" ^ (if ok then "1" else "0")
  | Feed (b, o, bytes) -> "F:" ^ string_of_n b ^ ":" ^ string_of_n o ^ ":" ^ string_of_n (lenN bytes)

let show_rres name (r : rres) : string =
  let st_s st = " cur=" ^ string_of_n st.r_cur ^ " doff=" ^ string_of_n st.r_doff ^ " tr=" ^ show_trace st.r_trace in
  match r with
  | ROk (ret, dst, st) -> rst := x_clear_trace st; name ^ " ok ret=" ^ string_of_n ret ^ st_s st ^ " dst=" ^ hex_of_bytes dst
  | RErr (c, dst, st) -> rst := x_clear_trace st; name ^ " err ret=E" ^ string_of_n c ^ st_s st ^ " dst=" ^ hex_of_bytes dst
  | RFuel (dst, st) -> rst := x_clear_trace st; name ^ " fuel" ^ st_s st
  | RSpin st -> name ^ " spin" ^ st_s st
  | RTrap s -> name ^ " trap site=" ^ string_of_n s

let show_cret name (r : cret option) : string =
  match r with
  | None -> name ^ " mismatch"
  | Some r ->
      let s = r.cr_st in
      cst := Some s;
      xrest := skipN !xrest r.cr_consumed;
      name ^ " ret=" ^ string_of_n r.cr_ret ^ " consumed=" ^ string_of_n r.cr_consumed
      ^ " fc=" ^ string_of_n s.c_fc ^ " fd=" ^ string_of_n s.c_fd ^ " nlog=" ^ string_of_n (lenN s.c_log)
      ^ " wst=" ^ (if s.c_wst then "1" else "0") ^ " pend=" ^ (if s.c_pend then "1" else "0") ^ " stpos=" ^ string_of_n s.c_stpos ^ " stidx=" ^ string_of_n s.c_stidx
      ^ " left=" ^ string_of_int (List.length r.cr_orc) ^ " out=" ^ hex_of_bytes r.cr_out

let set_log c l =
  cf := c; log := l;
  table := x_table_of (flag_set c) l;
  frames := x_frames !x l

let () =
  let ic = if Array.length Sys.argv > 1 then open_in Sys.argv.(1) else stdin in
  (try
    while true do
      let line = input_line ic in
      let toks = split_on ' ' line in
      let out =
        match toks with
        | [] -> ""
        | c :: _ when String.length c > 0 && c.[0] = '#' -> line
        | ["x"; h] -> x := bytes_of_hex h; "x " ^ string_of_int (List.length !x)
        | ["xfile"; p] -> x := bytes_of_file p; "x " ^ string_of_int (List.length !x)
        | "log" :: c :: rest -> set_log (n_of_string c) (parse_log rest); "log " ^ string_of_int (List.length !log)
        | ["ser"] -> "ser " ^ hex_of_bytes (x_ser !cf !log)
        | "whist" :: avs ->
            "whist " ^ String.concat " " (List.map (fun r -> show_res (fun (v, o) -> string_of_n v ^ ":" ^ hex_of_bytes o) r)
                                            (x_whist !cf !log (List.map n_of_string avs)))
        | ["loadhex"; h] ->
            (match x_load (bytes_of_hex h) with
             | Ok t -> table := t; "load ok " ^ show_table t
             | Err c -> "load E" ^ string_of_n c
             | Trap s -> "load T" ^ string_of_n s)
        | ["loadfile"; p] ->
            (match x_load (bytes_of_file p) with
             | Ok t -> table := t; "load ok " ^ show_table t
             | Err c -> "load E" ^ string_of_n c
             | Trap s -> "load T" ^ string_of_n s)
        | ["tableof"] -> "tableof " ^ show_table !table
        | "o2f" :: ps -> "o2f " ^ String.concat " " (List.map (fun p -> p ^ ":" ^ show_res string_of_n (x_o2f !table (n_of_string p))) ps)
        | "acc" :: is ->
            "acc n=" ^ string_of_n (x_num !table) ^ " " ^
            String.concat " " (List.map (fun i ->
              let (((a, b), c), d) = x_acc !table (n_of_string i) in
              i ^ ":" ^ show_res string_of_n a ^ ":" ^ show_res string_of_n b ^ ":" ^ show_res string_of_n c ^ ":" ^ show_res string_of_n d) is)
        | ["rinit"] -> rst := x_rinit; "rinit"
        | ["ifile"; p] -> ifile := bytes_of_file p; ist := x_iinit; "ifile " ^ string_of_n (lenN !ifile)
        | "icall" :: segs ->
            let ((st, evs), ok) = x_icall !ifile (List.map parse_iseg segs) !ist in
            ist := st;
            "icall ok=" ^ (if ok then "1" else "0") ^ " claim=" ^ (if st.i_claim then "1" else "0") ^ " ev=" ^
            (match evs with [] -> "-" | _ -> String.concat ";" (List.map show_ievent evs))
        | ["r"; off; len; orc] ->
            let len = n_of_string len in
            show_rres ("r " ^ off ^ " " ^ string_of_n len) (x_read !frames !table !rst (x_dst0 len) len (n_of_string off) (parse_rorc orc))
        | ["rf"; idx; dsz; orc] ->
            let dsz = n_of_string dsz in
            show_rres ("rf " ^ idx ^ " " ^ string_of_n dsz) (x_read_frame !frames !table !rst (x_dst0 dsz) dsz (n_of_string idx) (parse_rorc orc))
        | ["cinit"; c; mfs] ->
            xrest := !x;
            (match x_cinit (n_of_string c) (n_of_string mfs) with
             | Ok s -> cst := Some s; "cinit ret=0 mfs=" ^ string_of_n s.c_mfs
             | Err c -> cst := None; "cinit ret=E" ^ string_of_n c
             | Trap s -> "cinit T" ^ string_of_n s)
        | ["c"; n; orc] ->
            (match !cst with None -> "c nostate" | Some s ->
              (* performance clamp justified by theorem compressStream_reads_at_most_maxFrameSize: the model looks at the
                 first maxFrameSize bytes of the offered input only *)
              let k = min (int_of_string n) (int_of_n s.c_mfs) in
              show_cret "c" (x_compress s (firstN !xrest (n_of_int k)) (parse_corc orc)))
        | ["e"; orc] -> (match !cst with None -> "e nostate" | Some s -> show_cret "e" (x_end_frame s (parse_corc orc)))
        | ["s"; avail; orc] -> (match !cst with None -> "s nostate" | Some s -> show_cret "s" (x_end_stream s (n_of_string avail) (parse_corc orc)))
        | ["clog"] -> (match !cst with None -> "clog nostate" | Some s ->
              "clog n=" ^ string_of_n (lenN s.c_log) ^ " cf=" ^ string_of_n s.c_cf ^ " : " ^ show_log s.c_log
              ^ " | frames=" ^ String.concat "," (List.rev_map (fun (e, c) -> string_of_n e ^ ":" ^ string_of_n (lenN c)) s.g_frames)
              ^ " | table=" ^ hex_of_bytes s.g_table)
        | ["uselog"] -> (match !cst with None -> "uselog nostate" | Some s -> set_log s.c_cf s.c_log; "uselog " ^ string_of_int (List.length !log))
        | "xxh" :: [h] -> "xxh " ^ string_of_n (x_xxh64 (bytes_of_hex h))
        | _ -> "?? " ^ line
      in
      if out <> "" then print_endline out
    done
  with End_of_file -> ());
  flush stdout
