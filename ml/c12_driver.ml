(* C12 driver: NO logic.  Reads the log written by harness/c12_pool.c (CASE / I / S / O / E lines),
   replays every step (tid, wake choice) through the extracted Coq model and prints, per run,
   OK or the first difference between the model state and the implementation state. *)
open C12model

let rec nat_of_int n = if n <= 0 then O else S (nat_of_int (n - 1))
let rec int_of_nat = function O -> 0 | S n -> 1 + int_of_nat n

let split_on c s = String.split_on_char c s

let parse_op s =
  let arg () = nat_of_int (int_of_string (String.sub s 1 (String.length s - 1))) in
  match s.[0] with
  | 'a' -> OAdd (arg ()) | 't' -> OTry (arg ()) | 'j' -> OJoinJobs | 'r' -> OResize (arg ())
  | _ -> failwith ("bad op " ^ s)
let parse_post s =
  let arg = nat_of_int (int_of_string (String.sub s 1 (String.length s - 1))) in
  match s.[0] with 'a' -> (KAdd, arg) | 't' -> (KTry, arg) | _ -> failwith ("bad post " ^ s)
let parse_list f s = if s = "-" || s = "" then [] else List.map f (split_on '.' s)

let field kvs k = try List.assoc k kvs with Not_found -> ""
let kvs_of line =
  List.filter_map (fun tok -> match String.index_opt tok '=' with
    | Some i -> Some (String.sub tok 0 i, String.sub tok (i + 1) (String.length tok - i - 1)) | None -> None)
    (split_on ' ' line)

let pc_char fix = function
  | PLock _ | JLock | RLock _ | FLock | WLock | WLock2 -> 'M'
  | PWait _ | JWait | WWait -> 'W'
  | PAsleep _ | JAsleep -> 'P'
  | WAsleep -> 'Q'
  | PSignal -> 's'
  | PUnlock | JUnlock | RUnlock | FUnlock | WUnlockExit | WUnlock1 | WUnlock2 -> 'U'
  | RBcast | FBcastPop -> 'b'
  | FBcastPush | RBcastPush -> 'B'
  | WBcast1 | WBcast2 -> if fix then 'B' else 'S'
  | MJoin _ | FJoin _ -> 'J'
  | Done -> 'D'

let pc_name = function
  | PLock (KAdd, _) -> "PLockA" | PLock (KTry, _) -> "PLockT" | PWait _ -> "PWait" | PAsleep _ -> "PAsleep" | PSignal -> "PSignal"
  | PUnlock -> "PUnlock" | JLock -> "JLock" | JWait -> "JWait" | JAsleep -> "JAsleep" | JUnlock -> "JUnlock"
  | RLock _ -> "RLock" | RBcast -> "RBcast" | RBcastPush -> "RBcastPush" | RUnlock -> "RUnlock" | MJoin _ -> "MJoin" | FLock -> "FLock" | FUnlock -> "FUnlock"
  | FBcastPush -> "FBcastPush" | FBcastPop -> "FBcastPop" | FJoin _ -> "FJoin" | WLock -> "WLock" | WWait -> "WWait"
  | WAsleep -> "WAsleep" | WUnlockExit -> "WUnlockExit" | WBcast1 -> "WBcast1" | WUnlock1 -> "WUnlock1" | WLock2 -> "WLock2"
  | WBcast2 -> "WBcast2" | WUnlock2 -> "WUnlock2" | Done -> "Done"

let ints l = if l = [] then "-" else String.concat "," (List.map string_of_int l)
let b2i b = if b then 1 else 0

let show fix (s : state) =
  let p = s.sp and g = s.sg in
  let main_done = match s.st with th :: _ -> th.t_pc = Done | [] -> true in
  let pool =
    if main_done then "freed"
    else Printf.sprintf "%d %d %d %d %d %d %d %d %d" (int_of_nat p.head) (int_of_nat p.tail) (int_of_nat p.qsize) (b2i p.qempty)
        (int_of_nat p.busy) (int_of_nat p.limit) (int_of_nat p.cap) (b2i p.shutdown)
        (match p.owner with None -> -1 | Some t -> int_of_nat t) in
  let sts = String.concat "" (List.map (fun th -> String.make 1 (pc_char fix th.t_pc)) s.st) in
  let jobs l = ints (List.map (fun (_, j) -> int_of_nat j) l) in
  Printf.sprintf "%s|%s|%s|%s|%s" pool sts (if main_done then "-" else jobs g.pending) (jobs g.started) (jobs g.done0)

let sorted_ints l = ints (List.sort compare (List.map int_of_nat l))
let sort_field s = if s = "-" then "-" else ints (List.sort compare (List.map int_of_string (split_on ',' s)))

type run = { mutable id : string; mutable cfg : config option; mutable st : state option; mutable steps : int;
             mutable bad : string option; mutable sched : string list; mutable shape : (string * string) list;
             mutable oracle : string list; mutable caseline : string; mutable cut : int }

let () =
  let fix = not (Array.length Sys.argv > 1 && Sys.argv.(1) = "nofix") in
  let r = { id = ""; cfg = None; st = None; steps = 0; bad = None; sched = []; shape = []; oracle = []; caseline = ""; cut = -1 } in
  let nruns = ref 0 and nbad = ref 0 in
  let finish how rest =
    (match r.cfg, r.st with
     | Some cfg, Some s when r.bad = None ->
       let kv = kvs_of rest in
       let m_end = if all_done s then "END" else if stuck cfg s then "STUCK" else "RUNNING" in
       if how = "CRASH" then r.bad <- Some (Printf.sprintf "kind=crash model=%s impl=CRASH" m_end)
       else if m_end <> how then r.bad <- Some (Printf.sprintf "kind=end model=%s impl=%s" m_end how)
       else if how = "END" && (sorted_ints s.sg.refused <> sort_field (field kv "refused") || sorted_ints s.sg.dropped <> sort_field (field kv "dropped")) then
         r.bad <- Some (Printf.sprintf "kind=results model=refused:%s/dropped:%s impl=refused:%s/dropped:%s"
                          (sorted_ints s.sg.refused) (sorted_ints s.sg.dropped) (sort_field (field kv "refused")) (sort_field (field kv "dropped")))
       else if how = "STUCK" && (not (self_blocked s) || s.sp.shutdown) then r.bad <- Some "kind=deadlock model=STUCK-not-self-blocked-or-during-free impl=STUCK"
     | _ -> ());
    incr nruns;
    let all = List.rev r.sched in
    let all = if r.cut >= 0 then List.filteri (fun i _ -> i < r.cut) all else all in
    let sched = String.concat "," all in
    (match r.bad, r.oracle with
     | None, [] ->
       let shape = Digest.to_hex (Digest.string (String.concat ";" (List.map (fun (a, b) -> a ^ ">" ^ b) (List.sort_uniq compare r.shape)))) in
       Printf.printf "OK id=%s steps=%d end=%s shape=%s\n" r.id r.steps how (String.sub shape 0 12)
     | b, o ->
       incr nbad;
       Printf.printf "BAD id=%s steps=%d end=%s %s oracle=%s sched=%s case=%s\n" r.id r.steps how
         (match b with Some x -> "diff=[" ^ x ^ "]" | None -> "diff=[]")
         (if o = [] then "-" else String.concat ";" (List.map (String.map (fun c -> if c = ' ' then '_' else c)) (List.rev o)))
         (if sched = "" then "-" else sched) r.caseline);
    r.cfg <- None; r.st <- None in
  (try
     while true do
       let line = input_line stdin in
       let n = String.length line in
       if n >= 5 && String.sub line 0 5 = "CASE " then begin
         let kv = kvs_of line in
         let progs = List.map (parse_list parse_op) (split_on '|' (field kv "progs")) in
         let bodies = List.map (parse_list parse_post) (split_on '|' (field kv "bodies")) in
         let threads = int_of_string (field kv "threads") and queue = int_of_string (field kv "queue") in
         r.id <- field kv "id"; r.cfg <- Some (mkcfg fix progs bodies);
         r.st <- Some (init progs (nat_of_int threads) (nat_of_int queue));
         r.steps <- 0; r.bad <- None; r.sched <- []; r.shape <- []; r.oracle <- []; r.cut <- -1;
         r.caseline <- String.map (fun c -> if c = ' ' then ';' else c) (String.sub line 5 (n - 5))
       end else if n >= 2 && line.[0] = 'I' then begin
         match r.st with
         | Some s when r.bad = None -> let m = show fix s and i = String.sub line 2 (n - 2) in
           if m <> i then r.bad <- Some (Printf.sprintf "kind=init model=%s impl=%s" m i)
         | _ -> ()
       end else if n >= 2 && line.[0] = 'S' && r.bad <> None then begin
         (* after the first difference: keep recording the schedule so that the replay is complete *)
         (match split_on ' ' line with _ :: t :: w :: _ -> r.sched <- (t ^ ":" ^ w) :: r.sched | _ -> ())
       end else if n >= 2 && line.[0] = 'S' then begin
         match r.cfg, r.st with
         | Some cfg, Some s when r.bad = None ->
           (match split_on ' ' line with
            | _ :: t :: w :: rest ->
              let impl = String.concat " " rest in
              let ti = int_of_string t and wi = int_of_string w in
              r.sched <- (t ^ ":" ^ w) :: r.sched;
              (match step cfg (nat_of_int ti) (nat_of_int wi) s with
               | None -> r.bad <- Some (Printf.sprintf "kind=disabled step=%d tid=%d model-state=%s impl=%s" r.steps ti (show fix s) impl)
               | Some s' ->
                 let before = (List.nth s.st ti).t_pc and after = (List.nth s'.st ti).t_pc in
                 r.shape <- (pc_name before, pc_name after) :: r.shape;
                 r.steps <- r.steps + 1; r.st <- Some s';
                 let m = show fix s' in
                 if m <> impl then r.bad <- Some (Printf.sprintf "kind=state step=%d tid=%d pc=%s model=%s impl=%s" (r.steps - 1) ti (pc_name before) m impl))
            | _ -> r.bad <- Some "kind=parse")
         | _ -> ()
       end else if n >= 2 && line.[0] = 'O' then begin
         if r.cut < 0 then r.cut <- List.length r.sched + 1;
         r.oracle <- String.sub line 2 (n - 2) :: r.oracle end
       else if n >= 2 && line.[0] = 'E' then begin
         match split_on ' ' line with
         | _ :: how :: rest -> finish how (String.concat " " rest)
         | _ -> ()
       end else if n >= 2 && line.[0] = 'X' then print_endline line
     done
   with End_of_file -> ());
  Printf.printf "TOTAL runs=%d bad=%d\n" !nruns !nbad
