(* C18 driver: no logic.  Reads one case per line on stdin, calls the extracted model, prints one canonical
   result line per case.  Numbers are decimal (arbitrary size: converted with the model's own N arithmetic). *)
open C18model

let n_of_int (i : int) : n =
  let rec pos i = if i = 1 then XH else if i land 1 = 1 then XI (pos (i lsr 1)) else XO (pos (i lsr 1)) in
  if i = 0 then N0 else Npos (pos i)

let ten = n_of_int 10

let n_of_string (s : string) : n =
  let r = ref N0 in
  String.iter (fun c ->
      if c < '0' || c > '9' then failwith ("bad number " ^ s);
      r := N.add (N.mul !r ten) (n_of_int (Char.code c - 48))) s;
  !r

let rec int_of_pos = function XH -> 1 | XO p -> 2 * int_of_pos p | XI p -> 2 * int_of_pos p + 1
let int_of_n = function N0 -> 0 | Npos p -> int_of_pos p

let string_of_n (v : n) : string =
  if v = N0 then "0" else begin
    let b = Buffer.create 24 in
    let rec go v acc = if v = N0 then acc else
        let (q, r) = N.div_eucl v ten in go q (Char.chr (48 + int_of_n r) :: acc) in
    List.iter (Buffer.add_char b) (go v []);
    Buffer.contents b
  end

let z_of_string (s : string) : z =
  if String.length s > 0 && s.[0] = '-' then Z.opp (Z.of_N (n_of_string (String.sub s 1 (String.length s - 1))))
  else Z.of_N (n_of_string s)

let string_of_z (v : z) : string =
  match v with Z0 -> "0" | Zpos p -> string_of_n (Npos p) | Zneg p -> "-" ^ string_of_n (Npos p)

let rec nat_of_int i = if i <= 0 then O else S (nat_of_int (i - 1))
let rec int_of_nat = function O -> 0 | S k -> 1 + int_of_nat k

let bytes_of_hex (h : string) : n list =
  if h = "-" then [] else begin
    let len = String.length h / 2 in
    let rec go i acc = if i < 0 then acc else go (i - 1) (n_of_int (int_of_string ("0x" ^ String.sub h (2 * i) 2)) :: acc) in
    go (len - 1) []
  end

let hex_of_bytes (l : n list) : string =
  if l = [] then "-" else begin
    let b = Buffer.create 64 in
    List.iter (fun v -> Buffer.add_string b (Printf.sprintf "%02x" (int_of_n v))) l;
    Buffer.contents b
  end

let sp num sh = { sp_num = z_of_string num; sp_sh = n_of_string sh }
let b01 b = if b then "1" else "0"
let opt_n s = if s = "E" then None else Some (n_of_string s)

let show_best (b : best) : string =
  Printf.sprintf "%s %s %s %s" (string_of_n b.b_live) (string_of_n b.b_csize)
    (match b.b_who with None -> "-" | Some i -> string_of_int (int_of_nat i)) (string_of_n b.b_dsize)

let cand_of_string (s : string) : cand =
  match String.split_on_char ':' s with
  | [c; h; d] -> { c_csize = n_of_string c; c_hasdict = (h = "1"); c_dsize = n_of_string d }
  | _ -> failwith ("bad cand " ^ s)

let fuel = nat_of_int 2100

(* ---- round 2: segment selection / buildDictionary ---- *)
let fnv_tab (f : n -> n) (size : int) : string =
  (* FNV-1a 64 over the table entries 0..size-1 written as 4 little-endian bytes each (presentation of a result only) *)
  let h = ref 0xcbf29ce484222325L in
  for i = 0 to size - 1 do
    let v = int_of_n (f (n_of_int i)) in
    for b = 0 to 3 do
      h := Int64.logxor !h (Int64.of_int ((v lsr (8 * b)) land 0xff));
      h := Int64.mul !h 0x100000001b3L
    done
  done;
  Printf.sprintf "%Lu" !h

let rec split_at n l = if n = 0 then ([], l) else match l with [] -> failwith "short list" | x :: t -> let (a, b) = split_at (n - 1) t in (x :: a, b)

let show_copies cs = if cs = [] then "-" else String.concat "," (List.map (fun ((d, s), l) -> string_of_n d ^ ":" ^ string_of_n s ^ ":" ^ string_of_n l) cs)

let show_bres (bytes : n list) (r : bres) : string =
  match r with
  | BuildTrap -> "SELTRAP"
  | BuildFuel -> "FUEL"
  | BuildDone (tail, copies) -> Printf.sprintf "DONE %s %s %s" (string_of_n tail) (show_copies copies) (hex_of_bytes (content_of bytes copies))

let handle (ws : string list) : string =
  match ws with
  | ["chk"; k; d; m; a; b] -> b01 (cover_check (n_of_string k) (n_of_string d) (n_of_string m) (sp a b))
  | ["fchk"; k; d; m; f; acc; a; b] ->
      b01 (fastcover_check (n_of_string k) (n_of_string d) (n_of_string m) (n_of_string f) (n_of_string acc) (sp a b))
  | ["ep"; m; nd; k; p] ->
      (match compute_epochs (n_of_string m) (n_of_string nd) (n_of_string k) (n_of_string p) with
       | None -> "TRAP" | Some (num, size) -> string_of_n num ^ " " ^ string_of_n size)
  | ["bep"; m; nd; k; p] ->
      (match build_epochs (n_of_string m) (n_of_string nd) (n_of_string k) (n_of_string p) with
       | None -> "TRAP" | Some (num, size) -> string_of_n num ^ " " ^ string_of_n size)
  | "ctx" :: which :: rep :: d :: a :: b :: sizes ->
      let f = if which = "c" then cover_ctx_init else fastcover_ctx_init in
      (match f (rep = "1") (List.map n_of_string sizes) (n_of_string d) (sp a b) with
       | None -> "ERR"
       | Some c -> Printf.sprintf "OK %s %s %s %s %s" (string_of_n c.ci_nbTrain) (string_of_n c.ci_nbTest)
                     (string_of_n c.ci_trainSize) (string_of_n c.ci_testSize) (string_of_n c.ci_nbDmers))
  | ["nfin"; nt; acc] -> string_of_n (nb_finalize (n_of_string nt) (n_of_string acc))
  | "grid" :: which :: rep :: d :: k :: steps :: m :: rest ->
      (match opt_grid (rep = "1") fuel (n_of_string d) (n_of_string k) (n_of_string steps) with
       | None -> "HANG"
       | Some None -> "ERR"
       | Some (Some g) ->
           let jobs = (match which, rest with
               | "c", [a; b] -> grid_cover_jobs g (n_of_string m) (sp a b)
               | "f", [f; acc; a; b] -> grid_fastcover_jobs g (n_of_string m) (n_of_string f) (n_of_string acc) (sp a b)
               | _ -> failwith "bad grid") in
           "OK" ^ String.concat "" (List.map (fun (d, k) -> " " ^ string_of_n d ^ ":" ^ string_of_n k) jobs))
  | "entry" :: which :: d :: k :: steps :: a :: b :: rest ->
      let e = (match which, rest with
          | "c", [nb; cap] -> opt_entry_cover fuel (n_of_string d) (n_of_string k) (n_of_string steps) (sp a b)
                                (n_of_string nb) (n_of_string cap)
          | "f", [f; acc; nb; cap] -> opt_entry_fast fuel (n_of_string d) (n_of_string k) (n_of_string steps) (sp a b)
                                        (n_of_string f) (n_of_string acc) (n_of_string nb) (n_of_string cap)
          | _ -> failwith "bad entry") in
      (match e with
       | EntryErr -> "ERR"
       | EntryHang -> "HANG"
       | EntryJobs (st, spr, f, acc, jobs) ->
           Printf.sprintf "OK %s %s %s %s %s" (string_of_n st) (string_of_z spr.sp_num) (string_of_n spr.sp_sh)
             (string_of_n f) (string_of_n acc)
           ^ String.concat "" (List.map (fun (d, k) -> " " ^ string_of_n d ^ ":" ^ string_of_n k) jobs))
  | ["id"; p; h] -> string_of_n (dict_id (n_of_string p) (n_of_string h))
  | ["gid"; hex] -> string_of_n (get_dict_id (bytes_of_hex hex))
  | ["fins"; cap; content; e] ->
      (match finalize_sizes (n_of_string cap) (n_of_string content) (opt_n e) with
       | FinErr -> "ERR"
       | FinOk (h, p, c) -> Printf.sprintf "OK %s %s %s" (string_of_n h) (string_of_n p) (string_of_n c))
  | ["fin"; cap; idp; hash; ent; content] ->
      let e = if ent = "E" then None else Some (bytes_of_hex ent) in
      (match finalize_bytes (n_of_string cap) (bytes_of_hex content) e (n_of_string idp) (n_of_string hash) with
       | None -> "ERR" | Some bs -> "OK " ^ hex_of_bytes bs)
  | ["addpre"; cap; content] -> b01 (add_entropy_precheck (n_of_string cap) (n_of_string content))
  | ["addmax"; cap] -> string_of_n (add_entropy_maxdst (n_of_string cap))
  | ["adde"; cap; content; e] ->
      (match add_entropy_sizes (n_of_string cap) (n_of_string content) (opt_n e) with
       | AddErr -> "ERR"
       | AddOk (s, h, m) -> Printf.sprintf "OK %s %s %s" (string_of_n s) (string_of_n h) (b01 m))
  | ["gate"; total; cap] ->
      (match legacy_gate (n_of_string total) (n_of_string cap) with
       | GateNoDict -> "NODICT" | GateErr -> "ERR" | GateProceed -> "PROCEED")
  | "best" :: ops ->
      (* ops:  S  |  F:id:csize:hasdict:dsize ; prints the state after every op *)
      let b = ref best_init in
      String.concat ";" (List.map (fun o ->
          (if o = "S" then b := apply_op !b OStart
           else match String.split_on_char ':' o with
             | ["F"; id; c; h; d] ->
                 b := apply_op !b (OFinish (nat_of_int (int_of_string id),
                                            { c_csize = n_of_string c; c_hasdict = (h = "1"); c_dsize = n_of_string d }))
             | _ -> failwith ("bad op " ^ o));
          show_best !b) ops)
  | "seq" :: cands -> show_best (run_sequential (List.map cand_of_string cands))
  | "perm" :: rest ->
      (* perm i1,i2,... cand0 cand1 ... : finishes in the given completion order, from best_init *)
      (match rest with
       | order :: cands ->
           let cs = Array.of_list (List.map cand_of_string cands) in
           let l = List.map (fun s -> let i = int_of_string s in (nat_of_int i, cs.(i))) (String.split_on_char ',' order) in
           show_best (run_finishes l best_init)
       | [] -> failwith "bad perm")
  | "fbuild" :: d :: f :: acc :: k :: cap :: nb :: rest ->
      let (sizes, tl) = split_at (int_of_string nb) rest in
      let bytes = bytes_of_hex (match tl with [h] -> h | _ -> failwith "bad fbuild") in
      (match fc_train bytes (List.map n_of_string sizes) (n_of_string d) (n_of_string f) (n_of_string acc) (n_of_string k) (n_of_string cap) with
       | TErr -> "ERR"
       | TTrap -> "TRAP"
       | TOk (nd, fr, r) -> Printf.sprintf "OK %s %s %s" (string_of_n nd) (fnv_tab fr (1 lsl int_of_string f)) (show_bres bytes r))
  | "fsel" :: d :: f :: acc :: k :: b :: e :: nb :: rest ->
      let (sizes, tl) = split_at (int_of_string nb) rest in
      let bytes = bytes_of_hex (match tl with [h] -> h | _ -> failwith "bad fsel") in
      (match fc_select bytes (List.map n_of_string sizes) (n_of_string d) (n_of_string f) (n_of_string acc) (n_of_string k) (n_of_string b) (n_of_string e) with
       | None -> "NONE"
       | Some ((sg, fr'), c') ->
           let size = 1 lsl int_of_string f in
           let dirty = ref false in
           for i = 0 to size - 1 do if c' (n_of_int i) <> N0 then dirty := true done;
           Printf.sprintf "SEG %s %s %s %s %s" (string_of_n sg.sb) (string_of_n sg.se) (string_of_n sg.ss) (fnv_tab fr' size) (if !dirty then "dirty" else "clean"))
  | "cbuild" :: d :: k :: cap :: n :: rest ->
      let (keys, r1) = split_at (int_of_string n) rest in
      let (fv, tl) = split_at (int_of_string n) r1 in
      let bytes = bytes_of_hex (match tl with [h] -> h | _ -> failwith "bad cbuild") in
      (match cv_build (List.map n_of_string keys) (List.map n_of_string fv) (n_of_string d) (n_of_string k) (n_of_string cap) with
       | None -> "TRAP"
       | Some r -> "OK " ^ show_bres bytes r)
  | "csel" :: d :: k :: b :: e :: n :: rest ->
      let (keys, r1) = split_at (int_of_string n) rest in
      let (fv, _) = split_at (int_of_string n) r1 in
      let keys = List.map n_of_string keys in
      (match cv_select keys (List.map n_of_string fv) (n_of_string d) (n_of_string k) (n_of_string b) (n_of_string e) with
       | None -> "NONE"
       | Some ((sg, fr'), _) ->
           Printf.sprintf "SEG %s %s %s %s" (string_of_n sg.sb) (string_of_n sg.se) (string_of_n sg.ss)
             (if keys = [] then "-" else String.concat "," (List.map (fun kx -> string_of_n (fr' kx)) keys)))
  | "cctx" :: d :: nb :: rest ->
      (* COVER_ctx_init from the bytes: per-position frequency and the partition of the positions into d-mer groups
         (each position labelled with the first position that carries the same d-mer: presentation only) *)
      let (sizes, tl) = split_at (int_of_string nb) rest in
      let bytes = bytes_of_hex (match tl with [h] -> h | _ -> failwith "bad cctx") in
      (match cv_ctx bytes (List.map n_of_string sizes) (n_of_string d) with
       | None -> "ERR"
       | Some (keys, fvals) ->
           let tbl = Hashtbl.create 64 in
           let canon = List.mapi (fun i k -> match Hashtbl.find_opt tbl k with Some j -> j | None -> Hashtbl.add tbl k i; i) keys in
           Printf.sprintf "OK %s %s"
             (if fvals = [] then "-" else String.concat "," (List.map (function None -> "TRAP" | Some f -> string_of_n f) fvals))
             (if canon = [] then "-" else String.concat "," (List.map string_of_int canon)))
  | ["lb"; first; count; value; offs] ->
      let o = List.map n_of_string (String.split_on_char ',' offs) in
      string_of_n (lower_bound (nat_of_int (List.length o + 1)) o (n_of_string first) (n_of_string count) (n_of_string value))
  | ["mapinit"; rep; size] ->
      (match map_init (rep = "1") (n_of_string size) with None -> "ERR" | Some sl -> string_of_n sl)
  | ["maphash"; sl; key] -> string_of_n (map_hash (n_of_string sl) (n_of_string key))
  | ["hint"; rep; sel; nb] ->
      (match hint_loop (nat_of_int 40) (n_of_string nb) (hint_start (rep = "1") (n_of_string sel)) with
       | None -> "FUEL" | Some l -> String.concat "," (List.map string_of_n l))
  (* round 3: Train/LimitsModel.v *)
  | "lplan" :: maxs :: fixed :: sizes ->
      (* maxs = 0: the regenerated ZDICT_MAX_SAMPLES_SIZE; else the scaled limit of harness/c18_legsmall.c *)
      (match (if maxs = "0" then legacy_plan (fixed = "1") (List.map n_of_string sizes)
              else legacy_plan_at (n_of_string maxs) (fixed = "1") (List.map n_of_string sizes)) with
       | LgNoDict -> "NODICT" | LgTrap -> "TRAP"
       | LgPlan (c, a, nb) -> Printf.sprintf "PLAN %s %s %s" (string_of_n c) (string_of_n a) (string_of_n nb))
  | ["oc"; fixed; sz] ->
      (match offcode_max (fixed = "1") (n_of_string sz) with
       | OcTrap -> "TRAP" | OcTooLarge -> "TOOLARGE" | OcOk m -> "OK " ^ string_of_n m)
  | ["offs"; fixed; nb] ->
      Printf.sprintf "%s %s" (string_of_n (offsets_alloc (fixed = "1") (n_of_string nb))) (string_of_n (offsets_written (n_of_string nb)))
  | "mapops" :: size :: ops ->
      (* Train/MapModel.v: the COVER_map table itself; op = a<key> | d<key> *)
      (match map_init true (n_of_string size) with
       | None -> "ERR"
       | Some lg ->
           let op s = let k = n_of_string (String.sub s 1 (String.length s - 1)) in if s.[0] = 'a' then OpAdd k else OpDel k in
           (match cmap_run (cmap_clear lg) (List.map op ops) with
            | None -> "HANG"
            | Some (m, vs) ->
                "OK " ^ String.concat "," (List.map string_of_n vs) ^ " |" ^
                String.concat "" (List.map (fun (k, v) -> " " ^ string_of_n k ^ ":" ^ string_of_n v) m.cm_slots)))
  | _ -> failwith ("unknown case: " ^ String.concat " " ws)

let () =
  try
    while true do
      let line = input_line stdin in
      let ws = List.filter (fun s -> s <> "") (String.split_on_char ' ' (String.trim line)) in
      if ws <> [] then print_endline (try handle ws with Failure m -> "DRIVER-ERROR " ^ m | Invalid_argument m -> "DRIVER-ERROR " ^ m)
    done
  with End_of_file -> ()
