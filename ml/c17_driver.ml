(* Driver for the extracted C17 model (coq/Seq/SeqApi.v).  No logic: parse case lines, call the model, print one
   canonical result line per case.  See zv/props/c17.py for the line formats. *)
open C17model

let rec pos_of_int i = if i = 1 then XH else if i land 1 = 0 then XO (pos_of_int (i lsr 1)) else XI (pos_of_int (i lsr 1))
let n_of_int i = if i = 0 then N0 else Npos (pos_of_int i)
let rec int_of_pos = function XH -> 1 | XO p -> 2 * int_of_pos p | XI p -> 2 * int_of_pos p + 1
let int_of_n = function N0 -> 0 | Npos p -> int_of_pos p
let n s = n_of_int (int_of_string s)
let b s = s = "1"
let i = int_of_n

let parse_seqs s =
  if s = "-" then [] else
  List.map (fun q -> match String.split_on_char ':' q with
      | o :: l :: m :: _ -> { q_off = n o; q_ll = n l; q_ml = n m }
      | _ -> failwith "bad seq") (String.split_on_char ',' s)
let parse_rep s = match String.split_on_char '.' s with
  | [a; b; c] -> ((n a, n b), n c) | _ -> failwith "bad rep"
let rep_str r = let ((a, b), c) = r in Printf.sprintf "%d.%d.%d" (i a) (i b) (i c)
let sseqs_str l = if l = [] then "-" else String.concat ";" (List.map (fun t -> Printf.sprintf "%d.%d.%d" (i t.t_ll) (i t.t_ml) (i t.t_ob)) l)
let zseqs_str l = if l = [] then "-" else String.concat "," (List.map (fun q -> Printf.sprintf "%d:%d:%d" (i q.q_off) (i q.q_ll) (i q.q_ml)) l)
let parse_sseqs s =
  if s = "-" then [] else
  List.map (fun q -> match String.split_on_char '.' q with
      | [l; m; o] -> { t_ll = n l; t_ml = n m; t_ob = n o; t_raw = N0 } | _ -> failwith "bad sseq") (String.split_on_char ';' s)
let parse_dec s = if s = "-" then [] else List.init (String.length s) (fun k -> s.[k] = '1')

let () =
  try
    while true do
      let line = input_line stdin in
      (match String.split_on_char ' ' (String.trim line) with
       | ["Q"; id; wlog; mm; vl; pr; dict; maxnb; fixed; delims; ers; bsmax; srcsize; rep; dec; seqs] ->
         let cfg = { g_wlog = n wlog; g_minMatch = n mm; g_validate = b vl; g_producer = b pr; g_dict = n dict;
                     g_maxNbSeq = n maxnb; g_fixed = b fixed } in
         (match compress_sequences cfg (b delims) (b ers) (n bsmax) (n srcsize) (parse_seqs seqs) (parse_rep rep) (parse_dec dec) with
          | Done blks ->
            Printf.printf "%s OK %s\n" id
              (if blks = [] then "-" else String.concat "|" (List.map (fun k ->
                   Printf.sprintf "%d/%d/%d/%d/%s/%s" (i k.b_size) (i k.b_lastLL) (if k.b_tiny then 1 else 0)
                     (if k.b_last then 1 else 0) (rep_str k.b_rep_in) (sseqs_str k.b_seqs)) blks))
          | Invalid s -> Printf.printf "%s INVALID %d\n" id (i s)
          | Oob s -> Printf.printf "%s OOB %d\n" id (i s))
       | ["P"; id; wlog; mm; vl; dict; maxnb; fixed; ers; fb; nb; cap; srcsize; rep; seqs] ->
         let cfg = { g_wlog = n wlog; g_minMatch = n mm; g_validate = b vl; g_producer = true; g_dict = n dict;
                     g_maxNbSeq = n maxnb; g_fixed = b fixed } in
         (match producer_block cfg (b ers) (b fb) (parse_seqs seqs) (n nb) (n cap) (n srcsize) (parse_rep rep) with
          | PRstore br -> Printf.printf "%s STORE %d/%s/%s\n" id (i br.r_lastLL) (rep_str br.r_rep) (sseqs_str br.r_seqs)
          | PRfallback -> Printf.printf "%s FALLBACK\n" id
          | PRfail_producer -> Printf.printf "%s FAILPRODUCER\n" id
          | PRfail_invalid s -> Printf.printf "%s FAILINVALID %d\n" id (i s)
          | PRoob s -> Printf.printf "%s OOB %d\n" id (i s))
       | ["PA"; id; wlog; mm; vl; dict; maxnb; fixed; ers; fb; nb; cap; srcsize; rep; pos; seqs] ->
         (* round 2: the producer block at position [pos] of the frame *)
         let cfg = { g_wlog = n wlog; g_minMatch = n mm; g_validate = b vl; g_producer = true; g_dict = n dict;
                     g_maxNbSeq = n maxnb; g_fixed = b fixed } in
         (match producer_block_at cfg (b ers) (b fb) (parse_seqs seqs) (n nb) (n cap) (n srcsize) (parse_rep rep) (n pos) with
          | PRstore br -> Printf.printf "%s STORE %d/%s/%s\n" id (i br.r_lastLL) (rep_str br.r_rep) (sseqs_str br.r_seqs)
          | PRfallback -> Printf.printf "%s FALLBACK\n" id
          | PRfail_producer -> Printf.printf "%s FAILPRODUCER\n" id
          | PRfail_invalid s -> Printf.printf "%s FAILINVALID %d\n" id (i s)
          | PRoob s -> Printf.printf "%s OOB %d\n" id (i s))
       | ["FH"; id; rep; stored] ->
         (* round 3: history kept after a block that fell back to the internal parser (ZSTD_buildSeqStore since a9c9307) *)
         Printf.printf "%s %s\n" id (rep_str (fallback_history (parse_rep rep) (parse_sseqs stored)))
       | ["PF"; id; wlog; mm; vl; dict; maxnb; fixed; ers; fb; fbfix; atpos; rep; dec; calls] ->
         (* round 3: whole producer frame with fallback blocks; calls = nb/cap/srcsize/seqs/fbstored/fblastll joined by '|' *)
         let cfg = { g_wlog = n wlog; g_minMatch = n mm; g_validate = b vl; g_producer = true; g_dict = n dict;
                     g_maxNbSeq = n maxnb; g_fixed = b fixed } in
         let cl = if calls = "-" then [] else List.map (fun c -> match String.split_on_char '/' c with
             | [nb; cap; sz; seqs; fbs; fbl] ->
               let fp = { fp_seqs = parse_sseqs fbs; fp_lastLL = n fbl; fp_rep01 = (N0, N0) } in
               { px_call = { pc_buf = parse_seqs seqs; pc_nb = n nb; pc_cap = n cap; pc_size = n sz }; px_parser = (fun _ -> fp) }
             | _ -> failwith "bad call") (String.split_on_char '|' calls) in
         (match producer_frame_fb (b fbfix) (b atpos) cfg (b ers) (b fb) cl (parse_rep rep) N0 (parse_dec dec) with
          | Done blks ->
            Printf.printf "%s OK %s\n" id
              (if blks = [] then "-" else String.concat "|" (List.map (fun k ->
                   Printf.sprintf "%d/%d/%d/%d/%s/%s" (i k.b_size) (i k.b_lastLL) (if k.b_tiny then 1 else 0)
                     (if k.b_last then 1 else 0) (rep_str k.b_rep_in) (sseqs_str k.b_seqs)) blks))
          | Invalid s -> Printf.printf "%s INVALID %d\n" id (i s)
          | Oob s -> Printf.printf "%s OOB %d\n" id (i s))
       | ["PP"; id; nb; cap; srcsize; seqs] ->
         (match post_process (parse_seqs seqs) (n nb) (n cap) (n srcsize) with
          | PPok l -> Printf.printf "%s OK %s\n" id (zseqs_str l)
          | PPfail -> Printf.printf "%s FAIL\n" id)
       | ["M"; id; seqs] -> Printf.printf "%s OK %s\n" id (zseqs_str (merge_delims (parse_seqs seqs) N0))
       | ["G"; id; fixll; rep; lastll; stored] ->
         let l = generate_block (b fixll) (parse_sseqs stored) (n lastll) (parse_rep rep) in
         Printf.printf "%s OK %s\n" id (String.concat "," (List.map (fun g ->
             Printf.sprintf "%d:%d:%d:%d" (i g.o_seq.q_off) (i g.o_seq.q_ll) (i g.o_seq.q_ml) (i g.o_rep)) l))
       | ["U"; id; "v"; fixed; wlog; mm; pr; dict; ob; ml; pos] ->
         let cfg = { g_wlog = n wlog; g_minMatch = n mm; g_validate = true; g_producer = b pr; g_dict = n dict;
                     g_maxNbSeq = N0; g_fixed = b fixed } in
         Printf.printf "%s %d\n" id (if (if b fixed then validate_fixed cfg (n ob) (n ml) (n pos) else validate_sequence cfg (n ob) (n ml) (n pos)) then 1 else 0)
       | ["U"; id; "f"; raw; rep; ll0] ->
         let r = parse_rep rep in
         let ob = finalize_offbase (n raw) r (b ll0) in
         Printf.printf "%s %d %s\n" id (i ob) (rep_str (update_rep r ob (b ll0)))
       | ["U"; id; "b"; sz] -> Printf.printf "%s %d\n" id (i (sequence_bound (n sz)))
       | [""] -> ()
       | t -> Printf.printf "%s BADLINE\n" (match t with _ :: id :: _ -> id | _ -> "?"));
      flush stdout
    done
  with End_of_file -> ()
