/* c04_tables: unit-level view of the decoder's table builders (C04 round 2).  The static base / extra-bits arrays and
 * ZSTD_buildFSETable are reached by including the translation unit itself; the Huffman table readers are the library's.
 *   F <id> <ll|of|ml> <log> <c0,c1,...>     -> <id> OK <fastMode> <tableLog> nextState:nbAdditionalBits:nbBits:baseValue ...   (every cell)
 *   N <id> <maxSymbol> <hex>                -> <id> OK <used> <log> <c0,c1,...> | ERR <name>                      (FSE_readNCount)
 *   H <id> <1|2> <hex of a Huffman tree description>
 *                                           -> <id> OK <used> <tableLog> X1: byte:nbBits ... | X2: b0:b1:nbBits:length ...   (every cell)
 */
#define ZSTD_STATIC_LINKING_ONLY
#include "decompress/zstd_decompress_block.c"
#include <stdio.h>
#include <stdlib.h>
#include <string.h>

typedef struct { BYTE nbBits; BYTE byte; } c04_DEltX1;                     /* layout of HUF_DEltX1 (huf_decompress.c) */
typedef struct { U16 sequence; BYTE nbBits; BYTE length; } c04_DEltX2;    /* layout of HUF_DEltX2 */
typedef struct { BYTE maxTableLog; BYTE tableType; BYTE tableLog; BYTE reserved; } c04_DTableDesc;

static unsigned char* unhex(const char* s, size_t* n) {
    size_t l = strlen(s) / 2, i; unsigned char* b = (unsigned char*)malloc(l + 16);
    memset(b, 0, l + 16);
    for (i = 0; i < l; i++) { unsigned v; sscanf(s + 2 * i, "%2x", &v); b[i] = (unsigned char)v; }
    *n = l; return b;
}
static void perr(const char* id, size_t code) {
    const char* e = ZSTD_getErrorName(code); printf("%s ERR ", id);
    for (; *e; e++) putchar(*e == ' ' ? '_' : *e);
    putchar('\n');
}

int main(void) {
    char* line = NULL; size_t lcap = 0; ssize_t len;
    static U32 wksp[2048];
    while ((len = getline(&line, &lcap, stdin)) > 0) {
        char* t[8]; int nt = 0; char* sv = NULL; char* tok = strtok_r(line, " \n", &sv);
        while (tok && nt < 8) { t[nt++] = tok; tok = strtok_r(NULL, " \n", &sv); }
        if (nt < 4) continue;
        if (t[0][0] == 'F' && nt >= 5) {
            short norm[64]; unsigned n = 0; char* p = t[4]; unsigned const log = (unsigned)atoi(t[3]);
            static ZSTD_seqSymbol dt[1 + (1 << 9)]; unsigned i;
            const U32* base; const U8* bits;
            while (*p && n < 64) { norm[n++] = (short)strtol(p, &p, 10); if (*p == ',') p++; }
            if (!strcmp(t[2], "ll")) { base = LL_base; bits = LL_bits; } else if (!strcmp(t[2], "of")) { base = OF_base; bits = OF_bits; } else { base = ML_base; bits = ML_bits; }
            memset(dt, 0, sizeof(dt));
            ZSTD_buildFSETable(dt, norm, n - 1, base, bits, log, wksp, sizeof(wksp), 0);
            {   ZSTD_seqSymbol_header h; memcpy(&h, dt, sizeof(h)); printf("%s OK %u %u", t[1], h.fastMode, h.tableLog); }
            for (i = 0; i < (1u << log); i++) printf(" %u:%u:%u:%u", dt[1 + i].nextState, dt[1 + i].nbAdditionalBits, dt[1 + i].nbBits, dt[1 + i].baseValue);
            putchar('\n');
        } else if (t[0][0] == 'N') {
            size_t n; unsigned char* b = unhex(t[3], &n); short norm[256]; unsigned maxSV = (unsigned)atoi(t[2]); unsigned log = 0; unsigned i;
            size_t const r = FSE_readNCount(norm, &maxSV, &log, b, n);
            if (FSE_isError(r)) perr(t[1], r);
            else { printf("%s OK %u %u ", t[1], (unsigned)r, log); for (i = 0; i <= maxSV; i++) printf("%s%d", i ? "," : "", norm[i]); putchar('\n'); }
            free(b);
        } else if (t[0][0] == 'H') {
            size_t n; unsigned char* b = unhex(t[3], &n); int const x2 = t[2][0] == '2';
            static HUF_DTable dtab[HUF_DTABLE_SIZE(12)]; c04_DTableDesc d; unsigned i; size_t r;
            memset(dtab, 0, sizeof(dtab)); dtab[0] = (U32)12 * 0x01000001;
            r = x2 ? HUF_readDTableX2_wksp(dtab, b, n, wksp, sizeof(wksp), 0) : HUF_readDTableX1_wksp(dtab, b, n, wksp, sizeof(wksp), 0);
            if (HUF_isError(r)) { perr(t[1], r); free(b); continue; }
            memcpy(&d, dtab, sizeof(d));
            printf("%s OK %u %u", t[1], (unsigned)r, d.tableLog);
            if (!x2) { const c04_DEltX1* e = (const c04_DEltX1*)(dtab + 1);
                for (i = 0; i < (1u << d.tableLog); i++) printf(" %u:%u", e[i].byte, e[i].nbBits); }
            else { const c04_DEltX2* e = (const c04_DEltX2*)(dtab + 1);
                for (i = 0; i < (1u << d.tableLog); i++) printf(" %u:%u:%u:%u", e[i].sequence & 255, e[i].sequence >> 8, e[i].nbBits, e[i].length); }
            putchar('\n'); free(b);
        } else printf("? BADCMD\n");
        fflush(stdout);
    }
    free(line);
    return 0;
}
