/* C06 round-2 scenarios (compiled against the CURRENT /repo sources on every run).
 *
 *   c06_r2 collector <seed> <tier>
 *   c06_r2 collector1 <kind> <iseed> <n> <level> <genMode> <entry>
 *        ZSTD_generateSequences (success / failing on a short outSeqs / failing on incompressible input), then the
 *        caller takes outSeqs back (the pages become PROT_NONE) and compresses with the SAME context through
 *        <entry>: a store into the old outSeqs faults; the frame must decode and must have the size a fresh
 *        context produces.
 *   c06_r2 producer <seed> <tier>
 *   c06_r2 producer1 <B> <nblocks> <iseed> <depth> <codeLo> <codeHi> <mlmix> <llmax> <density> <split> <tcbs> <chk> <lits>
 *        adversarial block-level sequence producer (valid sequences, matches reach into a big raw-content
 *        dictionary, so far offsets cost more than the match saves): the post-splitter / super-block writer must not
 *        expand a block beyond what ZSTD_compressBound() pays for.  Required: capacity == ZSTD_compressBound(n)
 *        succeeds, result <= capacity, frame decodes to the source, fenced dst untouched outside [dst, dst+cap),
 *        short capacities give an error or a valid frame; one source block never becomes more than
 *        ZSTD_MAX_NB_BLOCK_SPLITS partitions.
 *   c06_r2 legacy <seed> [tier]
 *   c06_r2 legacy1 <version 5|6|7> <block type 1=raw 2=rle> <size>
 *        hand-built legacy frames with one raw / RLE block of up to 524287 bytes: ZSTD_decompressBound >= decoded size,
 *        ZSTD_findFrameCompressedSize exact, exactly sized fenced destination.
 *   c06_r2 legacy2 <version 5|6|7> <nbSeq 1..3> <matchLength 4..131074>     (round 3; also run by "legacy")
 *        hand-built legacy frames with one COMPRESSED block of nbSeq sequences (litLength 1, offset 1, matchLength):
 *        a block above 128 KiB must be refused (39f3df0), one of at most 128 KiB must decode, and whatever decodes stays
 *        within ZSTD_decompressBound; exactly sized / short fenced destinations.
 *
 *   c06_r2 known <seed> | seqblocks1 <n> <blockSize> <kind> | macro1 <n> <windowLog> <maxBlockSize>      (round 3)
 *        the two KNOWN interface limits reported narrowly: ZSTD_compressSequences with explicit blocks below 1 KiB vs
 *        ZSTD_compressBound; ZSTD_DECOMPRESSION_MARGIN with the documented blockSize on a ZSTD_c_maxBlockSize-limited frame.
 *        Everything next to them (blocks >= 1 KiB, the macro with the real block size, the function) must hold.
 *
 * Output: "CASE ..." facts, "BAD <what> :: <case>" violations, "FAULT ... :: <case>" from the signal handler. */
#define ZSTD_STATIC_LINKING_ONLY
#define ZSTD_DISABLE_DEPRECATE_WARNINGS
#include "compress/zstd_compress.c"
#include <stdio.h>
#include <stdlib.h>
#include <string.h>
#include <signal.h>
#include <unistd.h>
#include <sys/mman.h>
#include <execinfo.h>

static unsigned long long g_rng;
static void rseed(unsigned long long s) { g_rng = s * 0x9E3779B97F4A7C15ULL + 0x1234567ULL; }
static unsigned rnd(void) { g_rng = g_rng * 6364136223846793005ULL + 1442695040888963407ULL; return (unsigned)(g_rng >> 33); }

typedef struct { unsigned char* map; size_t maplen; unsigned char* lo; unsigned char* hi; } region;
#define PG 4096u
static region region_new(size_t maxBytes)
{
    region r; size_t data = ((maxBytes + PG - 1) / PG) * PG + PG;
    r.maplen = data + 2 * PG;
    r.map = (unsigned char*)mmap(NULL, r.maplen, PROT_READ | PROT_WRITE, MAP_PRIVATE | MAP_ANONYMOUS, -1, 0);
    if (r.map == MAP_FAILED) { perror("mmap"); exit(2); }
    if (mprotect(r.map, PG, PROT_NONE) || mprotect(r.map + PG + data, PG, PROT_NONE)) { perror("mprotect"); exit(2); }
    r.lo = r.map + PG; r.hi = r.map + PG + data;
    return r;
}
#define CANARY 0xA5
static unsigned char* region_place(region* r, size_t c, int placement)
{
    memset(r->lo, CANARY, (size_t)(r->hi - r->lo));
    return placement ? r->lo : r->hi - c;
}
static int region_check(region* r, unsigned char* p, size_t c, int placement)
{
    unsigned char* a = placement ? p + c : r->lo;
    unsigned char* b = placement ? r->hi : p;
    for (; a < b; a++) if (*a != CANARY) return 1;
    return 0;
}

static char g_desc[700];
static void* g_mainAddr;
static void on_fault(int sig, siginfo_t* si, void* ctx)
{
    char buf[1400]; int n, k, nb; void* bt[16];
    (void)ctx;
    nb = backtrace(bt, 16);
    n = snprintf(buf, sizeof buf, "FAULT sig=%d addr=%p bt=", sig, si ? si->si_addr : NULL);
    for (k = 0; k < nb && n < 900; k++) n += snprintf(buf + n, sizeof buf - (size_t)n, "%s%lld", k ? "," : "", (long long)((char*)bt[k] - (char*)g_mainAddr));
    n += snprintf(buf + n, sizeof buf - (size_t)n, " :: %s\n", g_desc);
    if (n > 0) { ssize_t w = write(1, buf, (size_t)n); (void)w; }
    _exit(3);
}
static void install_handlers(void)
{
    struct sigaction sa; memset(&sa, 0, sizeof sa);
    sa.sa_sigaction = on_fault; sa.sa_flags = SA_SIGINFO;
    sigaction(SIGSEGV, &sa, NULL); sigaction(SIGBUS, &sa, NULL);
}
static unsigned g_nbBad;
static void bad(const char* what, size_t a, size_t ret)
{
    g_nbBad++;
    printf("BAD %s val=%zu ret=%zu(%s) :: %s\n", what, a, ret, ZSTD_isError(ret) ? ZSTD_getErrorName(ret) : "ok", g_desc);
}

/* ------------------------------------------------------------------ inputs */
enum { K_NOISE = 0, K_TEXT, K_SPARSE, K_ALTSTAT, K_RLE, K_NB };
static void gen_input(unsigned char* p, size_t n, int kind, unsigned long long iseed)
{
    static const char* words[] = { "the ", "quick ", "brown ", "fox ", "jumps ", "over ", "lazy ", "dog ", "zstd ", "frame ", "block ", "\n" };
    size_t i = 0;
    rseed(iseed * 31 + (unsigned)kind);
    switch (kind) {
    case K_NOISE: for (i = 0; i < n; i++) p[i] = (unsigned char)rnd(); break;
    case K_RLE: { unsigned char b = (unsigned char)rnd(); memset(p, b, n); } break;
    case K_TEXT: while (i < n) { const char* w = words[rnd() % 12]; size_t l = strlen(w); if (l > n - i) l = n - i; memcpy(p + i, w, l); i += l; } break;
    case K_SPARSE: for (i = 0; i < n; i++) { unsigned r = rnd(); p[i] = (r % 97) ? 0 : (unsigned char)(r >> 8); } break;
    default:
        for (i = 0; i < n; i++) { unsigned r = rnd(); size_t seg = i >> 13;
            p[i] = (seg % 3 == 0) ? (unsigned char)("0123"[r & 3]) : (seg % 3 == 1) ? (unsigned char)(i & 0x3F) : (unsigned char)((r & 7) ? 'z' : (r >> 8)); }
        break;
    }
}

/* =================================================================== collector */
#define COL_MAXN 300000
static region R_src, R_dst, R_seq, R_out;
enum { CE_COMPRESS2 = 0, CE_COMPRESSCCTX, CE_STREAM, CE_USINGDICT, CE_SEQUENCES, CE_NB };
static const char* const ceName[] = { "compress2", "compressCCtx", "stream", "usingDict", "compressSequences" };

static size_t col_entry(ZSTD_CCtx* c, int entry, int level, void* dst, size_t cap, const void* src, size_t n)
{
    switch (entry) {
    case CE_COMPRESS2: return ZSTD_compress2(c, dst, cap, src, n);
    case CE_COMPRESSCCTX: return ZSTD_compressCCtx(c, dst, cap, src, n, level);
    case CE_USINGDICT: return ZSTD_compress_usingDict(c, dst, cap, src, n, "0123456789abcdefghij", 20, level);
    case CE_SEQUENCES: {
        ZSTD_Sequence s[4]; size_t k = 0, rem = n, r;
        /* explicit delimiters, literal-only blocks of <= 64 KiB */
        ZSTD_Sequence* big = (ZSTD_Sequence*)malloc((n / 65536 + 2) * sizeof *big);
        while (rem) { size_t l = rem < 65536 ? rem : 65536; big[k].offset = 0; big[k].matchLength = 0; big[k].litLength = (unsigned)l; big[k].rep = 0; k++; rem -= l; }
        if (!n) { big[0].offset = 0; big[0].matchLength = 0; big[0].litLength = 0; big[0].rep = 0; k = 1; }
        r = ZSTD_CCtx_setParameter(c, ZSTD_c_blockDelimiters, ZSTD_sf_explicitBlockDelimiters);
        if (!ZSTD_isError(r)) r = ZSTD_compressSequences(c, dst, cap, big, k, src, n);
        free(big); (void)s;
        return r; }
    default: {
        ZSTD_inBuffer in; ZSTD_outBuffer o; size_t r = 1; int it = 0;
        in.src = src; in.size = n; in.pos = 0; o.dst = dst; o.size = cap; o.pos = 0;
        while (in.pos < in.size) {
            ZSTD_inBuffer piece; size_t l = in.size - in.pos; if (l > 30000) l = 30000;
            piece.src = (const char*)src + in.pos; piece.size = l; piece.pos = 0;
            r = ZSTD_compressStream2(c, &o, &piece, ZSTD_e_continue);
            if (ZSTD_isError(r)) return r;
            in.pos += piece.pos;
            if (piece.pos == 0 && ++it > 1000) return ERROR(GENERIC);
        }
        {   ZSTD_inBuffer e; e.src = src; e.size = 0; e.pos = 0;
            for (it = 0; it < 1000; it++) { r = ZSTD_compressStream2(c, &o, &e, ZSTD_e_end); if (ZSTD_isError(r)) return r; if (r == 0) break; } }
        return r ? ERROR(dstSize_tooSmall) : o.pos; }
    }
}

/* genMode 0: success; 1: outSeqs one entry short (dstSize_tooSmall in the middle); 2: capacity 0 */
static void collector_case(int kind, unsigned long long iseed, size_t n, int level, int genMode, int entry)
{
    ZSTD_CCtx* const c = ZSTD_createCCtx(); ZSTD_CCtx* const fresh = ZSTD_createCCtx(); ZSTD_DCtx* const d = ZSTD_createDCtx();
    unsigned char* const src = R_src.hi - n;
    size_t const bound = ZSTD_sequenceBound(n);
    size_t seqBytes, nseq, cap, r, rf; ZSTD_Sequence* sq; unsigned char* dst; unsigned char* out;
    size_t const dcap = ZSTD_compressBound(n) + 64;
    gen_input(src, n, kind, iseed);
    snprintf(g_desc, sizeof g_desc, "collector1 %d %llu %zu %d %d %d (%s)", kind, iseed, n, level, genMode, entry, ceName[entry]);
    ZSTD_CCtx_setParameter(c, ZSTD_c_compressionLevel, level);
    ZSTD_CCtx_setParameter(c, ZSTD_c_checksumFlag, 1);
    ZSTD_CCtx_setParameter(fresh, ZSTD_c_compressionLevel, level);
    ZSTD_CCtx_setParameter(fresh, ZSTD_c_checksumFlag, 1);
    /* size the buffer: first a run with the documented bound */
    mprotect(R_seq.lo, (size_t)(R_seq.hi - R_seq.lo), PROT_READ | PROT_WRITE);
    sq = (ZSTD_Sequence*)(R_seq.hi - bound * sizeof(ZSTD_Sequence));
    nseq = ZSTD_generateSequences(c, sq, bound, src, n);
    if (!ZSTD_isError(nseq) && nseq > bound) bad("generateSequences-more-than-sequenceBound", bound, nseq);
    cap = bound;
    if (genMode == 1) cap = ZSTD_isError(nseq) ? 1 : (nseq ? nseq - 1 : 0);
    if (genMode == 2) cap = 0;
    seqBytes = cap * sizeof(ZSTD_Sequence);
    sq = (ZSTD_Sequence*)region_place(&R_seq, seqBytes, 0);
    r = ZSTD_generateSequences(c, sq, cap, src, n);
    if (region_check(&R_seq, (unsigned char*)sq, seqBytes, 0)) bad("generateSequences-write-outside-outSeqs", cap, r);
    if (!ZSTD_isError(r) && r > cap) bad("generateSequences-returned-more-than-capacity", cap, r);
    if (genMode == 1 && !ZSTD_isError(nseq) && nseq > 0 && !ZSTD_isError(r)) bad("generateSequences-accepted-short-outSeqs", cap, r);
    /* zstd.h: after an error the context must be reset before it is used again (the failed frame is still open) */
    if (ZSTD_isError(r)) ZSTD_CCtx_reset(c, ZSTD_reset_session_only);
    /* the caller takes outSeqs back: any later store into it faults */
    mprotect(R_seq.lo, (size_t)(R_seq.hi - R_seq.lo), PROT_NONE);
    dst = region_place(&R_dst, dcap, 0);
    r = col_entry(c, entry, level, dst, dcap, src, n);
    mprotect(R_seq.lo, (size_t)(R_seq.hi - R_seq.lo), PROT_READ | PROT_WRITE);
    if (region_check(&R_dst, dst, dcap, 0)) bad("write-outside-dst", dcap, r);
    if (ZSTD_isError(r)) bad("compression-after-generateSequences-failed", n, r);
    else {
        size_t dr;
        out = region_place(&R_out, n, 0);
        dr = (entry == CE_USINGDICT) ? ZSTD_decompress_usingDict(d, out, n, dst, r, "0123456789abcdefghij", 20) : ZSTD_decompressDCtx(d, out, n, dst, r);
        if (dr != n || memcmp(out, src, n)) bad("roundtrip-after-generateSequences", n, dr);
        {   unsigned char* const ref = (unsigned char*)malloc(dcap);
            rf = col_entry(fresh, entry, level, ref, dcap, src, n);
            if (rf != r || memcmp(ref, dst, r)) bad("frame-differs-from-a-fresh-context", rf, r);
            free(ref); }
    }
    printf("CASE fam=collector kind=%d n=%zu level=%d genMode=%d entry=%s nseq=%lld gen=%s csize=%lld\n", kind, n, level, genMode, ceName[entry],
           ZSTD_isError(nseq) ? -1LL : (long long)nseq, ZSTD_isError(nseq) ? ZSTD_getErrorName(nseq) : "ok", ZSTD_isError(r) ? -1LL : (long long)r);
    ZSTD_freeCCtx(c); ZSTD_freeCCtx(fresh); ZSTD_freeDCtx(d);
}

static void collector_init(void)
{
    R_src = region_new(COL_MAXN); R_dst = region_new(ZSTD_compressBound(COL_MAXN) + 64); R_out = region_new(COL_MAXN);
    R_seq = region_new((ZSTD_sequenceBound(COL_MAXN) + 8) * sizeof(ZSTD_Sequence));
}

static void collector_all(unsigned seed, int tier)
{
    static const size_t sizes[] = { 0, 1, 5, 100, 1023, 4096, 20000, 131072, 131073, 200000 };
    static const int levels[] = { 1, 3, 7, 19 };
    size_t si; int k = 0;
    rseed(seed);
    for (si = 0; si < sizeof sizes / sizeof *sizes; si++) {
        int kind;
        for (kind = 0; kind < K_NB; kind++) {
            int const level = levels[(si + (size_t)kind + seed) % 4];
            int const genMode = (int)((si + (size_t)kind * 2 + seed) % 3);
            int const entry = (int)((si * 3 + (size_t)kind + seed) % CE_NB);
            if (level == 19 && sizes[si] > 30000 && !tier) continue;
            if (!tier && ((k++ + seed) % 2) && sizes[si] > 5000) continue;
            collector_case(kind, seed * 100 + si, sizes[si], level, genMode, entry);
            if (tier) collector_case(kind, seed * 100 + si + 50, sizes[si], level, (genMode + 1) % 3, (entry + 1) % CE_NB);
        }
    }
}

/* =================================================================== adversarial sequence producer */
#define DICT_LOG 26
static unsigned char* g_all;          /* dictionary (1<<DICT_LOG bytes of noise) followed by the source */
static size_t g_dictSize;
typedef struct { unsigned pos, ml, off; } mrec;       /* match at source position pos */
static mrec* g_recs; static size_t g_nbRecs; static size_t g_srcSize;
static size_t g_prodCalls, g_prodSeqs;
#define MAXCHUNKS 8192
static size_t g_chunkSize[MAXCHUNKS]; static size_t g_nbChunks;   /* the blocks the frame loop handed to the block compressor */

static size_t producer(void* st, ZSTD_Sequence* out, size_t outCap, const void* src, size_t srcSize,
                       const void* dict, size_t dictSize, int level, size_t windowSize)
{
    size_t const pos = (size_t)((const unsigned char*)src - (g_all + g_dictSize));
    size_t lo = 0, hi = g_nbRecs, k = 0, cur = pos;
    (void)st; (void)dict; (void)dictSize; (void)level; (void)windowSize;
    g_prodCalls++;
    if (g_nbChunks < MAXCHUNKS) g_chunkSize[g_nbChunks++] = srcSize;
    while (lo < hi) { size_t mid = (lo + hi) / 2; if (g_recs[mid].pos < pos) lo = mid + 1; else hi = mid; }
    for (; lo < g_nbRecs && g_recs[lo].pos + g_recs[lo].ml <= pos + srcSize; lo++) {
        if (k + 1 >= outCap) return ZSTD_SEQUENCE_PRODUCER_ERROR;
        out[k].offset = g_recs[lo].off; out[k].matchLength = g_recs[lo].ml; out[k].litLength = (unsigned)(g_recs[lo].pos - cur); out[k].rep = 0;
        cur = g_recs[lo].pos + g_recs[lo].ml; k++;
    }
    if (k >= outCap) return ZSTD_SEQUENCE_PRODUCER_ERROR;
    out[k].offset = 0; out[k].matchLength = 0; out[k].litLength = (unsigned)(pos + srcSize - cur); out[k].rep = 0; k++;
    g_prodSeqs += k - 1;
    return k;
}

typedef struct { size_t B, nblocks; unsigned long long iseed; int depth, codeLo, codeHi, mlmix, llmax, density, split, tcbs, chk, lits; } PP;

static void producer_dict(void)
{
    size_t i;
    if (g_all) return;
    g_dictSize = (size_t)1 << DICT_LOG;
    g_all = (unsigned char*)mmap(NULL, g_dictSize + (4u << 20), PROT_READ | PROT_WRITE, MAP_PRIVATE | MAP_ANONYMOUS, -1, 0);
    if (g_all == MAP_FAILED) { perror("mmap dict"); exit(2); }
    rseed(424242);
    for (i = 0; i < g_dictSize; i += 4) { unsigned const v = rnd(); memcpy(g_all + i, &v, 4); }
    g_recs = (mrec*)malloc(((4u << 20) / 3 + 16) * sizeof(mrec));
}

/* builds source + match records.  Every block of B bytes holds up to B/3 sequences; sequence j of a block belongs to
   leaf (j * 2^depth / nseq) of a binary tree over the sequence index (the splitter halves index ranges); the leaf
   chooses the offset code (codeLo..codeHi, spread so that the two halves of every node differ) and, with mlmix, the
   match length 3/4; literals: llmax = 0 none, else 0..llmax by leaf parity. */
static void producer_build(const PP* p)
{
    unsigned char* const src = g_all + g_dictSize;
    size_t b, n = p->B * p->nblocks; unsigned ncodes = (unsigned)(p->codeHi - p->codeLo + 1);
    g_nbRecs = 0; g_srcSize = n;
    rseed(p->iseed * 7919 + 13);
    for (b = 0; b < p->nblocks; b++) {
        size_t const base = b * p->B; size_t pos = base; size_t const end = base + p->B;
        /* depth 9 = aimed at ZSTD_MAX_NB_BLOCK_SPLITS: 39000 sequences in a 128 KiB block, 256 leaves, `density` leaf pairs
           that differ by the match length (3 / 4) on top of the offset codes: more than 196 accepted splits */
        int const aimed = (p->depth == 9);
        size_t const nseq = aimed ? 39000 : (p->B / 3) * (size_t)p->density / 100; size_t j;
        unsigned const leaves = aimed ? 256u : 1u << p->depth;
        for (j = 0; j < nseq; j++) {
            unsigned const leaf = (unsigned)(j * leaves / (nseq ? nseq : 1));
            unsigned code, ml, ll, off, lo, hi; size_t G, k;
            /* even sequences follow the high bits of the leaf, odd ones the low bits: every node's halves differ */
            if (aimed) {
                code = (j & 1) ? 18 + ((leaf >> 1) & 7) : 2 + (leaf >> 4);
            } else if (ncodes >= 4 && p->depth > 1) {
                unsigned const half = ncodes / 2;
                code = (j & 1) ? (unsigned)p->codeLo + half + ((leaf >> 1) % (ncodes - half)) : (unsigned)p->codeLo + ((leaf >> (p->depth > 4 ? 4 : 1)) % half);
            } else code = (unsigned)p->codeLo + (leaf % ncodes);
            ml = 3 + ((p->mlmix && (leaf & 1)) ? (unsigned)p->mlmix : 0);
            ll = p->llmax ? ((leaf & 2) ? (unsigned)p->llmax : 0) : 0;
            if (aimed) { ml = (((leaf >> 1) < (unsigned)p->density) && (leaf & 1)) ? 4 : 3; ll = 0; }
            if (pos + ll + ml > end) break;
            for (k = 0; k < ll; k++) src[pos + k] = p->lits ? (unsigned char)("ab"[rnd() & 1]) : (unsigned char)rnd();
            pos += ll;
            G = g_dictSize + pos;
            lo = (code <= 2) ? 1 : (1u << code) - 3; hi = (2u << code) - 4;
            if (code <= 2) hi = 4;
            off = lo + rnd() % (hi - lo + 1);
            if (off > G) off = (unsigned)G;
            for (k = 0; k < ml; k++) g_all[G + k] = g_all[G + k - off];
            g_recs[g_nbRecs].pos = (unsigned)pos; g_recs[g_nbRecs].ml = ml; g_recs[g_nbRecs].off = off; g_nbRecs++;
            pos += ml;
        }
        for (; pos < end; pos++) src[pos] = p->lits ? (unsigned char)("ab"[rnd() & 1]) : (unsigned char)rnd();
    }
}

static region P_dst, P_out;
static void producer_params(ZSTD_CCtx* c, const PP* p)
{
    ZSTD_CCtx_reset(c, ZSTD_reset_session_and_parameters);
    ZSTD_CCtx_setParameter(c, ZSTD_c_compressionLevel, 1);
    ZSTD_CCtx_setParameter(c, ZSTD_c_windowLog, DICT_LOG + 1);
    ZSTD_CCtx_setParameter(c, ZSTD_c_minMatch, 3);
    if (p->B < (128u << 10)) ZSTD_CCtx_setParameter(c, ZSTD_c_maxBlockSize, (int)p->B);
    if (p->split) ZSTD_CCtx_setParameter(c, ZSTD_c_useBlockSplitter, p->split == 1 ? ZSTD_ps_enable : ZSTD_ps_disable);
    if (p->tcbs) ZSTD_CCtx_setParameter(c, ZSTD_c_targetCBlockSize, p->tcbs);
    ZSTD_CCtx_setParameter(c, ZSTD_c_checksumFlag, p->chk);
    ZSTD_CCtx_setParameter(c, ZSTD_c_validateSequences, 1);
    ZSTD_registerSequenceProducer(c, NULL, producer);
    {   size_t const r = ZSTD_CCtx_loadDictionary_advanced(c, g_all, g_dictSize, ZSTD_dlm_byRef, ZSTD_dct_rawContent);
        if (ZSTD_isError(r)) { fprintf(stderr, "dictionary: %s\n", ZSTD_getErrorName(r)); exit(2); } }
}

/* per frame-loop block: wire bytes (block headers included) and number of wire blocks; buffer-less decoding gives the
   regenerated size of every wire block.  Checks the weak block contract: cost <= len + 3 * max(1, len >> 10). */
static size_t g_maxOver, g_maxParts, g_chunksChecked;
static void check_chunks(ZSTD_DCtx* d2, const unsigned char* f, size_t fsize, unsigned char* out, size_t n, int countRule)
{
    size_t pos = 0, dpos = 0, k = 0, inChunk = 0, cost = 0, parts = 0, curCs = 0;
    g_maxOver = 0; g_maxParts = 0; g_chunksChecked = 0;
    if (ZSTD_isError(ZSTD_decompressBegin_usingDict(d2, g_all, g_dictSize))) { bad("analysis-begin-failed", 0, 0); return; }
    for (;;) {
        size_t const need = ZSTD_nextSrcSizeToDecompress(d2);
        ZSTD_nextInputType_e const t = ZSTD_nextInputType(d2);
        size_t r; int blockDone = 0;
        if (need == 0) break;
        if (pos + need > fsize) { bad("analysis-wants-more-than-the-frame", pos, need); return; }
        r = ZSTD_decompressContinue(d2, out + dpos, n - dpos, f + pos, need);
        if (ZSTD_isError(r)) { bad("analysis-decode-failed", pos, r); return; }
        if (t == ZSTDnit_blockHeader) {
            ZSTD_nextInputType_e const t2 = ZSTD_nextInputType(d2);
            curCs = 3;
            if (t2 != ZSTDnit_block && t2 != ZSTDnit_lastBlock) blockDone = 1;   /* empty raw / rle block completed by its header */
        } else if (t == ZSTDnit_block || t == ZSTDnit_lastBlock) { curCs += need; blockDone = 1; }
        pos += need;
        if (blockDone) {
            dpos += r; inChunk += r; cost += curCs; parts++;
            if (k < g_nbChunks && inChunk >= g_chunkSize[k]) {
                size_t const len = g_chunkSize[k]; size_t const allowed = len + 3 * ((len >> 10) ? (len >> 10) : 1);
                if (inChunk != len) { bad("wire-blocks-straddle-a-frame-loop-block", k, inChunk); return; }
                if (cost > allowed) bad("block-costs-more-than-len+3*max(1,len>>10)", len, cost);
                if (countRule && parts > ((len >> 10) ? (len >> 10) : 1)) bad("more-partitions-than-full-KiB", len, parts);
                if (cost > len && cost - len > g_maxOver) g_maxOver = cost - len;
                if (parts > g_maxParts) g_maxParts = parts;
                g_chunksChecked++; k++; inChunk = 0; cost = 0; parts = 0;
            }
        }
    }
    if (k != g_nbChunks || dpos != n) bad("analysis-chunk-count-mismatch", k, g_nbChunks);
}

/* decisions of the real estimates for every range the recursion can visit (no table limit here): "s:e:d," in hex */
static void dump_decisions(ZSTD_CCtx* zc, size_t s, size_t e)
{
    seqStore_t* const full = &zc->blockSplitCtx.fullSeqStoreChunk;
    seqStore_t* const first = &zc->blockSplitCtx.firstHalfSeqStore;
    seqStore_t* const second = &zc->blockSplitCtx.secondHalfSeqStore;
    size_t const mid = (s + e) / 2; size_t eo, ef, es; int dcs;
    if (e - s < MIN_SEQUENCES_BLOCK_SPLITTING) return;
    ZSTD_deriveSeqStoreChunk(full, &zc->seqStore, s, e);
    ZSTD_deriveSeqStoreChunk(first, &zc->seqStore, s, mid);
    ZSTD_deriveSeqStoreChunk(second, &zc->seqStore, mid, e);
    eo = ZSTD_buildEntropyStatisticsAndEstimateSubBlockSize(full, zc);
    ef = ZSTD_buildEntropyStatisticsAndEstimateSubBlockSize(first, zc);
    es = ZSTD_buildEntropyStatisticsAndEstimateSubBlockSize(second, zc);
    dcs = !(ZSTD_isError(eo) || ZSTD_isError(ef) || ZSTD_isError(es)) && (ef + es < eo);
    printf("%zx:%zx:%d,", s, e, dcs);
    if (dcs) { dump_decisions(zc, s, mid); dump_decisions(zc, mid, e); }
}

static void producer_case(const PP* p)
{
    ZSTD_CCtx* const c = ZSTD_createCCtx(); ZSTD_DCtx* const d = ZSTD_createDCtx();
    size_t const n = p->B * p->nblocks; size_t const bound = ZSTD_compressBound(n);
    unsigned char* const src = g_all + g_dictSize; unsigned char* dst; size_t r, full = 0, maxParts = 0, nbBlocks = 0, nbRaw = 0; int k;
    size_t caps[12]; int ncaps = 0;
    snprintf(g_desc, sizeof g_desc, "producer1 %zu %zu %llu %d %d %d %d %d %d %d %d %d %d", p->B, p->nblocks, p->iseed, p->depth, p->codeLo, p->codeHi,
             p->mlmix, p->llmax, p->density, p->split, p->tcbs, p->chk, p->lits);
    producer_build(p);
    /* 1. the documented sufficient capacity, dst ending at the fence */
    producer_params(c, p);
    dst = region_place(&P_dst, bound, 0);
    g_prodCalls = g_prodSeqs = 0; g_nbChunks = 0;
    r = ZSTD_compress2(c, dst, bound, src, n);
    if (region_check(&P_dst, dst, bound, 0)) bad("write-outside-dst", bound, r);
    if (ZSTD_isError(r)) bad("failed-with-ZSTD_compressBound-capacity", bound, r);
    else if (r > bound) bad("returned-size-exceeds-capacity", bound, r);
    else full = r;
    /* unit level: the split table of the block just compressed (its sequences are still in c->seqStore), derived again into
       a table of our own whose entries from ZSTD_MAX_NB_BLOCK_SPLITS on are canaries */
    if (p->nblocks == 1 && p->split == 1 && !p->tcbs && !ZSTD_isError(r)) {
        enum { EXTRA = 64 };
        static U32 table[ZSTD_MAX_NB_BLOCK_SPLITS + EXTRA];
        U32 const nbSeq = (U32)(c->seqStore.sequences - c->seqStore.sequencesStart);
        size_t ns, i2, over = 0;
        for (i2 = 0; i2 < ZSTD_MAX_NB_BLOCK_SPLITS + EXTRA; i2++) table[i2] = 0xC0FFEE00u + (U32)i2;
        ZSTD_reset_compressedBlockState(c->blockState.prevCBlock);   /* the state in which the block was compressed: first block of the frame */
        ns = ZSTD_deriveBlockSplits(c, table, nbSeq);
        for (i2 = ZSTD_MAX_NB_BLOCK_SPLITS; i2 < ZSTD_MAX_NB_BLOCK_SPLITS + EXTRA; i2++) if (table[i2] != 0xC0FFEE00u + (U32)i2) over++;
        if (over || ns + 1 > ZSTD_MAX_NB_BLOCK_SPLITS) bad("splitter-partition-table-overrun", over, ns);
        for (i2 = 0; i2 + 1 <= ns && i2 + 1 < ZSTD_MAX_NB_BLOCK_SPLITS; i2++) if (table[i2] >= table[i2 + 1]) { bad("splitter-partitions-not-increasing", i2, table[i2]); break; }
        if (ns < ZSTD_MAX_NB_BLOCK_SPLITS && table[ns] != nbSeq) bad("splitter-table-not-terminated-by-nbSeq", ns, table[ns]);
        {   size_t wire = 0, pos = ZSTD_frameHeaderSize(dst, r);
            while (pos + 3 <= r) { unsigned const h = dst[pos] | (dst[pos + 1] << 8) | ((unsigned)dst[pos + 2] << 16); wire++; pos += 3 + (((h >> 1) & 3) == 1 ? 1 : (h >> 3)); if (h & 1) break; }
            printf("CASE fam=splits nbSeq=%u splits=%zu overrun=%zu len=%zu wire=%zu limit=%d minseq=%d table=", nbSeq, ns, over, n, wire, (int)ZSTD_MAX_NB_BLOCK_SPLITS, (int)MIN_SEQUENCES_BLOCK_SPLITTING);
            for (i2 = 0; i2 < ns && i2 < ZSTD_MAX_NB_BLOCK_SPLITS + EXTRA; i2++) printf("%s%x", i2 ? "," : "", table[i2]);
            if (!ns) printf("-");
            printf(" decisions=");
            if (nbSeq > 4) dump_decisions(c, 0, nbSeq); 
            printf("-\n"); }
    }
    if (!full) {   /* how large is the frame really? */
        size_t const big = bound + n / 2 + 4096;
        dst = region_place(&P_dst, big, 0);
        producer_params(c, p);
        g_nbChunks = 0;
        r = ZSTD_compress2(c, dst, big, src, n);
        if (!ZSTD_isError(r)) { full = r; if (r > bound) bad("frame-larger-than-ZSTD_compressBound", bound, r); }
    }
    if (full) {
        size_t dr; unsigned char* out = region_place(&P_out, n, 0);
        ZSTD_DCtx_setParameter(d, ZSTD_d_windowLogMax, 31);
        ZSTD_DCtx_loadDictionary_advanced(d, g_all, g_dictSize, ZSTD_dlm_byRef, ZSTD_dct_rawContent);
        dr = ZSTD_decompressDCtx(d, out, n, dst, full);
        if (dr != n || memcmp(out, src, n)) bad("roundtrip-mismatch", n, dr);
        if (region_check(&P_out, out, n, 0)) bad("decoder-write-outside-dst", n, dr);
        {   ZSTD_DCtx* const d2 = ZSTD_createDCtx(); size_t const savedChunks = g_nbChunks;
            check_chunks(d2, dst, full, out, n, p->split == 1 && !p->tcbs);
            g_nbChunks = savedChunks; ZSTD_freeDCtx(d2); }
        /* wire blocks per source block: partitions of the post-splitter */
        {   size_t pos = ZSTD_frameHeaderSize(dst, full), regenInBlock = 0, parts = 0; ZSTD_frameHeader zfh;
            ZSTD_getFrameHeader(&zfh, dst, full);
            while (pos + 3 <= full) {
                unsigned const h = dst[pos] | (dst[pos + 1] << 8) | ((unsigned)dst[pos + 2] << 16);
                unsigned const t = (h >> 1) & 3, sz = h >> 3;
                nbBlocks++; if (t == 0) nbRaw++;
                parts++; (void)regenInBlock;
                pos += 3 + (t == 1 ? 1 : sz);
                if (h & 1) break;
            }
            maxParts = (nbBlocks + p->nblocks - 1) / p->nblocks; }
        /* 2. short capacities: error or a valid frame, nothing outside */
        caps[ncaps++] = 0; caps[ncaps++] = 5; caps[ncaps++] = 17; caps[ncaps++] = 18; caps[ncaps++] = full / 2; caps[ncaps++] = full - 1;
        caps[ncaps++] = full; caps[ncaps++] = full + 1; caps[ncaps++] = full > 600 ? full - 515 : 1; caps[ncaps++] = bound - 1; caps[ncaps++] = bound + 1;
        for (k = 0; k < ncaps; k++) {
            size_t const cap = caps[k]; int const pl = k & 1; size_t dr2;
            dst = region_place(&P_dst, cap, pl);
            producer_params(c, p);
            r = ZSTD_compress2(c, dst, cap, src, n);
            if (region_check(&P_dst, dst, cap, pl)) bad("write-outside-dst", cap, r);
            if (!ZSTD_isError(r) && r > cap) bad("returned-size-exceeds-capacity", cap, r);
            if (ZSTD_isError(r) && cap >= bound) bad("failed-with-ample-capacity", cap, r);
            if (!ZSTD_isError(r) && r <= cap) {
                out = region_place(&P_out, n, 0);
                dr2 = ZSTD_decompressDCtx(d, out, n, dst, r);
                if (dr2 != n || memcmp(out, src, n)) bad("roundtrip-mismatch", cap, dr2);
            }
        }
    }
    printf("CASE fam=producer B=%zu nblocks=%zu depth=%d codes=%d-%d mlmix=%d llmax=%d density=%d split=%d tcbs=%d chk=%d lits=%d n=%zu bound=%zu csize=%zu seqs=%zu blocks=%zu raw=%zu partsPerBlock=%zu chunks=%zu maxOver=%zu maxParts=%zu\n",
           p->B, p->nblocks, p->depth, p->codeLo, p->codeHi, p->mlmix, p->llmax, p->density, p->split, p->tcbs, p->chk, p->lits, n, bound, full, g_prodSeqs, nbBlocks, nbRaw, maxParts, g_chunksChecked, g_maxOver, g_maxParts);
    ZSTD_freeCCtx(c); ZSTD_freeDCtx(d);
}

static void producer_init(void)
{
    producer_dict();
    P_dst = region_new(ZSTD_compressBound(4u << 20) + (2u << 20) + 8192); P_out = region_new(4u << 20);
}

static void producer_all(unsigned seed, int tier)
{
    /* B, nblocks, depth, codeLo, codeHi, mlmix, llmax, density, split, tcbs, lits */
    static const int T[][11] = {
        { 1024, 128, 1, 24, 25, 0, 0, 100, 1, 0, 0 },      /* the finding: two raw halves per 1 KiB block */
        { 1024, 64, 1, 24, 25, 0, 0, 100, 1, 0, 0 },
        { 1100, 200, 1, 24, 25, 0, 0, 100, 1, 0, 0 },
        { 1535, 100, 1, 24, 25, 0, 0, 100, 1, 0, 0 },
        { 2048, 64, 2, 24, 25, 0, 0, 100, 1, 0, 0 },
        { 4096, 48, 3, 23, 25, 0, 0, 100, 1, 0, 0 },
        { 131072, 1, 9, 2, 25, 0, 0, 92, 1, 0, 0 },        /* > 196 splits asked for (197 accepted before the table limit was repaired) */
        { 131072, 1, 9, 2, 25, 0, 0, 100, 1, 0, 0 },
        { 131072, 1, 8, 2, 25, 1, 0, 89, 1, 0, 0 },
        { 131072, 2, 8, 22, 25, 0, 0, 100, 1, 0, 0 },      /* many raw partitions in a full block */
        { 131072, 1, 7, 23, 25, 0, 0, 100, 1, 0, 0 },
        { 1024, 128, 1, 24, 25, 0, 0, 100, 1, 1340, 0 },   /* super-blocks on top */
        { 4096, 32, 3, 20, 25, 0, 0, 100, 0, 1340, 0 },
        { 131072, 1, 6, 18, 25, 0, 1, 80, 0, 2000, 1 },
        { 1024, 128, 1, 24, 25, 0, 0, 100, 2, 0, 0 },      /* splitter off: control */
        { 16384, 8, 5, 21, 25, 0, 2, 70, 1, 0, 1 },
        { 1024, 300, 1, 25, 25, 1, 0, 100, 1, 0, 0 },      /* halves differ by match length only */
        { 1200, 100, 1, 24, 25, 0, 1, 100, 1, 0, 0 },
    };
    size_t i; size_t const nT = sizeof T / sizeof *T;
    for (i = 0; i < nT; i++) {
        PP p; p.B = (size_t)T[i][0]; p.nblocks = (size_t)T[i][1]; p.iseed = seed; p.depth = T[i][2]; p.codeLo = T[i][3]; p.codeHi = T[i][4];
        p.mlmix = T[i][5]; p.llmax = T[i][6]; p.density = T[i][7]; p.split = T[i][8]; p.tcbs = T[i][9]; p.chk = (int)((i + seed) & 1); p.lits = T[i][10];
        producer_case(&p);
    }
    /* random members of the family */
    rseed(seed * 977 + 5);
    {   int const nr = tier ? 120 : 24; int t;
        for (t = 0; t < nr; t++) {
            static const size_t Bs[] = { 1024, 1024, 1025, 1279, 1535, 1536, 2047, 3000, 4096, 8192, 32768, 131072 };
            PP p; size_t total;
            p.B = Bs[rnd() % 12]; total = (p.B >= 32768) ? p.B * (1 + rnd() % 3) : (size_t)(20000 + rnd() % 250000);
            p.nblocks = total / p.B; if (!p.nblocks) p.nblocks = 1;
            p.iseed = seed * 1000 + (unsigned)t;
            p.depth = 1 + (int)(rnd() % 8); if (p.B < 4096 && p.depth > 2) p.depth = 1 + (int)(rnd() % 2);
            p.codeHi = 25 - (int)(rnd() % 3 == 0 ? rnd() % 4 : 0); p.codeLo = p.codeHi - (int)(rnd() % 4) - (p.depth > 3 ? 4 + (int)(rnd() % 12) : 0); if (p.codeLo < 2) p.codeLo = 2;
            p.mlmix = (rnd() % 3 == 0) ? 1 + (int)(rnd() % 2) : 0; p.llmax = (rnd() % 3 == 0) ? 1 + (int)(rnd() % 3) : 0;
            p.density = (rnd() % 2) ? 100 : 60 + (int)(rnd() % 41);
            p.split = (rnd() % 5 == 0) ? 0 : 1; p.tcbs = (rnd() % 4 == 0) ? 1340 + (int)(rnd() % 3000) : 0; p.chk = (int)(rnd() & 1); p.lits = (int)(rnd() % 3 == 0);
            producer_case(&p);
        }
    }
}

/* =================================================================== legacy frames with oversized raw / RLE blocks */
/* hand-built v0.5 / v0.6 / v0.7 frames: one raw (type 1) or RLE (type 2) block of `size` bytes (3-byte header, 19-bit
   size) and the end block c0 00 00.  The one-shot legacy decoders accept raw blocks (v0.7: RLE blocks too) of up to
   524287 bytes; ZSTD_decompressBound must not be below what ZSTD_decompress produces. */
static void print_hex_field(const unsigned char* f, size_t fs)
{
    size_t i; printf(" hex=");
    if (fs > 140000) { printf("-"); return; }
    for (i = 0; i < fs; i++) printf("%02x", f[i]);
}
static region L_src, L_dst;
static void legacy_case(int ver, int type, size_t size)
{
    unsigned char hdr[16]; size_t hl = 0, fs, payload = (type == 1) ? size : 1, i; unsigned char* f; unsigned char* dst;
    size_t dec, dec2; unsigned long long bnd; size_t fcs;
    snprintf(g_desc, sizeof g_desc, "legacy1 %d %d %zu", ver, type, size);
    hdr[hl++] = (unsigned char)(0x20 + ver); hdr[hl++] = 0xB5; hdr[hl++] = 0x2F; hdr[hl++] = 0xFD;
    hdr[hl++] = 0x00;
    if (ver == 7) hdr[hl++] = 0x50;
    hdr[hl++] = (unsigned char)((type << 6) | ((size >> 16) & 7)); hdr[hl++] = (unsigned char)(size >> 8); hdr[hl++] = (unsigned char)size;
    fs = hl + payload + 3;
    f = L_src.hi - fs;
    memcpy(f, hdr, hl);
    for (i = 0; i < payload; i++) f[hl + i] = (unsigned char)('A' + (i * 7 + (i >> 9)) % 23);
    f[hl + payload] = 0xC0; f[hl + payload + 1] = 0; f[hl + payload + 2] = 0;
    dst = region_place(&L_dst, 600000, 0);
    dec = ZSTD_decompress(dst, 600000, f, fs);
    bnd = ZSTD_decompressBound(f, fs);
    fcs = ZSTD_findFrameCompressedSize(f, fs);
    if (!ZSTD_isError(dec)) {
        if (bnd == ZSTD_CONTENTSIZE_ERROR) bad("legacy-decompressBound-error-on-a-frame-that-decodes", dec, 0);
        else if (bnd < dec) bad("legacy-decompressBound-below-decoded-size", (size_t)bnd, dec);
        if (ZSTD_isError(fcs) || fcs != fs) bad("legacy-findFrameCompressedSize-differs", fs, fcs);
        if (dec != size) bad("legacy-decoded-size-unexpected", size, dec);
        for (i = 0; i < dec; i++) if (dst[i] != (type == 1 ? f[hl + i] : f[hl])) { bad("legacy-content", i, dec); break; }
        /* exactly sized destination ending at the fence; one byte less must fail */
        dst = region_place(&L_dst, dec, 0);
        dec2 = ZSTD_decompress(dst, dec, f, fs);
        if (region_check(&L_dst, dst, dec, 0)) bad("write-outside-dst", dec, dec2);
        if (dec2 != dec) bad("legacy-exact-capacity-failed", dec, dec2);
        if (dec) { dst = region_place(&L_dst, dec - 1, 0); dec2 = ZSTD_decompress(dst, dec - 1, f, fs);
            if (region_check(&L_dst, dst, dec - 1, 0)) bad("write-outside-dst", dec - 1, dec2);
            if (!ZSTD_isError(dec2)) bad("legacy-accepted-short-capacity", dec - 1, dec2); }
        if (bnd != ZSTD_CONTENTSIZE_ERROR && bnd <= 600000) { dst = region_place(&L_dst, (size_t)bnd, 0); dec2 = ZSTD_decompress(dst, (size_t)bnd, f, fs);
            if (dec2 != dec) bad("legacy-decode-into-decompressBound-failed", (size_t)bnd, dec2); }
    }
    printf("CASE fam=legacy ver=%d type=%d size=%zu dec=%lld bound=%lld fcs=%lld", ver, type, size, ZSTD_isError(dec) ? -1LL : (long long)dec,
           bnd == ZSTD_CONTENTSIZE_ERROR ? -1LL : (long long)bnd, ZSTD_isError(fcs) ? -1LL : (long long)fcs);
    print_hex_field(f, fs); printf("\n");
}
static void legacy_init(void) { L_src = region_new(530000); L_dst = region_new(600000); }
static void legacy_all(unsigned seed)
{
    static const size_t sizes[] = { 0, 1, 1000, 131071, 131072, 131073, 200000, 262144, 524287 };
    int ver, type; size_t k;
    rseed(seed);
    for (ver = 5; ver <= 7; ver++) for (type = 1; type <= 2; type++) {
        for (k = 0; k < sizeof sizes / sizeof *sizes; k++) legacy_case(ver, type, sizes[k]);
        legacy_case(ver, type, 131072 + rnd() % 393215);
    }
}


/* =================================================================== legacy frames whose COMPRESSED block regenerates too much (round 3) */
/* hand-built v0.5 / v0.6 / v0.7 frames with one compressed block: raw literals (nbSeq bytes 'A'..), nbSeq sequences
   (litLength 1, offset 1, matchLength ml), all three symbol tables in RLE mode.  v0.6 / v0.7: ML code + extra bits in the
   backward bitstream; v0.5: matchLength through the "dumps".  Before 39f3df0 the one-shot legacy decoders regenerated
   whatever the sequences asked for (only the whole remaining dst limited a block) while ZSTD_decompressBound counted
   128 KiB per compressed block; now a compressed block above 128 KiB is corruption_detected (2e38602: a block of any type).  Required: a frame that
   decodes stays within ZSTD_decompressBound; a block of at most 128 KiB still decodes. */
static const unsigned L2_mlBase[53] = { 3,4,5,6,7,8,9,10,11,12,13,14,15,16,17,18,19,20,21,22,23,24,25,26,27,28,29,30,31,32,33,34,
    35,37,39,41,43,47,51,59,67,83,99,0x83,0x103,0x203,0x403,0x803,0x1003,0x2003,0x4003,0x8003,0x10003 };
static const unsigned L2_mlBits[53] = { 0,0,0,0,0,0,0,0,0,0,0,0,0,0,0,0,0,0,0,0,0,0,0,0,0,0,0,0,0,0,0,0,
    1,1,1,1,2,2,3,3,4,4,5,7,8,9,10,11,12,13,14,15,16 };
static size_t legacy2_block(unsigned char* b, int ver, unsigned nbSeq, size_t ml)
{
    size_t n = 0; unsigned i;
    b[n++] = (unsigned char)(0x80 | nbSeq);                       /* raw literals, 1-byte header, nbSeq literals */
    for (i = 0; i < nbSeq; i++) b[n++] = (unsigned char)('A' + i);
    b[n++] = (unsigned char)nbSeq;
    if (ver == 5) {
        size_t const v = ml - 4; unsigned const dl = 4 * nbSeq + 1;
        b[n++] = 0x54; b[n++] = (unsigned char)dl;                /* LL / Off / ML tables RLE; dumps length (short form) */
        for (i = 0; i < nbSeq; i++) { size_t const x = 2 * v + 1; b[n++] = 255; b[n++] = (unsigned char)x; b[n++] = (unsigned char)(x >> 8); b[n++] = (unsigned char)(x >> 16); }
        b[n++] = 0;
        b[n++] = 1; b[n++] = 1; b[n++] = 127;                     /* litLength 1, offset code 1 (offset 1, no extra bit), ML = MaxML -> dumps */
        b[n++] = 1;                                               /* empty bitstream: the end mark alone */
    } else {
        int code = 52; unsigned long long V = 1; unsigned bits;
        while (L2_mlBase[code] > ml) code--;
        bits = L2_mlBits[code];
        b[n++] = 0x54; b[n++] = 1; b[n++] = 2; b[n++] = (unsigned char)code;   /* LL code 1, Off code 2 (offset 1 + 2 extra bits), ML code */
        /* per sequence the decoder reads: 2 offset bits (0), then the ML extra bits; the stream is read from its end */
        {   unsigned char tmp[64]; size_t nb = 0, k; unsigned acc = 0; /* build the bit string MSB first: mark, then fields */
            /* total bits = 1 + nbSeq * (2 + bits) <= 1 + 3 * 18 = 55: fits one 64-bit word */
            for (i = 0; i < nbSeq; i++) { V = (V << 2) | 0; V = (V << bits) | (unsigned long long)(ml - L2_mlBase[code]); }
            while (V) { tmp[nb++] = (unsigned char)V; V >>= 8; }
            for (k = 0; k < nb; k++) b[n++] = tmp[k];
            (void)acc;
        }
    }
    return n;
}
static void legacy2_case(int ver, unsigned nbSeq, size_t ml)
{
    unsigned char blk[96]; size_t bl, hl = 0, fs, total = (size_t)nbSeq * (1 + ml); unsigned char* f; unsigned char* dst;
    size_t dec, dec2, fcs, cap = 600000; unsigned long long bnd;
    snprintf(g_desc, sizeof g_desc, "legacy2 %d %u %zu", ver, nbSeq, ml);
    if (nbSeq < 1 || nbSeq > 3 || ml < 4 || ml > 131074 || (ver != 5 && ver != 6 && ver != 7)) { fprintf(stderr, "bad legacy2 case\n"); exit(2); }
    bl = legacy2_block(blk, ver, nbSeq, ml);
    fs = 4 + 1 + (ver == 7) + 3 + bl + 3;
    f = L_src.hi - fs;
    f[hl++] = (unsigned char)(0x20 + ver); f[hl++] = 0xB5; f[hl++] = 0x2F; f[hl++] = 0xFD;
    f[hl++] = (ver == 6) ? 0x08 : 0x00;                           /* v0.6: windowLog 12 + 8 */
    if (ver == 7) f[hl++] = 0x50;
    f[hl++] = 0; f[hl++] = (unsigned char)(bl >> 8); f[hl++] = (unsigned char)bl;
    memcpy(f + hl, blk, bl); hl += bl;
    f[hl++] = 0xC0; f[hl++] = 0; f[hl++] = 0;
    dst = region_place(&L_dst, cap, 0);
    dec = ZSTD_decompress(dst, cap, f, fs);
    bnd = ZSTD_decompressBound(f, fs);
    fcs = ZSTD_findFrameCompressedSize(f, fs);
    if (ZSTD_isError(fcs) || fcs != fs) bad("legacy-findFrameCompressedSize-differs", fs, fcs);
    if (ZSTD_isError(dec)) {
        if (total <= 131072) bad("legacy-block-within-128K-refused", total, dec);
    } else {
        size_t i;
        if (bnd == ZSTD_CONTENTSIZE_ERROR) bad("legacy-decompressBound-error-on-a-frame-that-decodes", dec, 0);
        else if (bnd < dec) bad("legacy-decompressBound-below-decoded-size", (size_t)bnd, dec);
        if (dec != total) bad("legacy-decoded-size-unexpected", total, dec);
        for (i = 0; i < dec; i++) if (dst[i] != (unsigned char)('A' + i / (1 + ml))) { bad("legacy-content", i, dec); break; }
        dst = region_place(&L_dst, dec, 0);
        dec2 = ZSTD_decompress(dst, dec, f, fs);
        if (region_check(&L_dst, dst, dec, 0)) bad("write-outside-dst", dec, dec2);
        /* the legacy decoders want WILDCOPY_OVERLENGTH (8) bytes behind the literals of every sequence ("last match must start at a
           minimum distance of 8 from oend", a rule their encoders obeyed): a final match below 8 bytes may need a larger dst */
        if (dec2 != dec && !(ml < 8 && ZSTD_isError(dec2))) bad("legacy-exact-capacity-failed", dec, dec2);
        {   size_t const shorts[] = { 1, 2, 7, 8, 9, 16, 17, 33 }; size_t k;
            for (k = 0; k < sizeof shorts / sizeof *shorts; k++) if (dec >= shorts[k]) {
                size_t const c = dec - shorts[k];
                dst = region_place(&L_dst, c, (int)(k & 1)); dec2 = ZSTD_decompress(dst, c, f, fs);
                if (region_check(&L_dst, dst, c, (int)(k & 1))) bad("write-outside-dst", c, dec2);
                if (!ZSTD_isError(dec2)) bad("legacy-accepted-short-capacity", c, dec2);
        }   }
        if (bnd != ZSTD_CONTENTSIZE_ERROR && bnd <= cap) { dst = region_place(&L_dst, (size_t)bnd, 0); dec2 = ZSTD_decompress(dst, (size_t)bnd, f, fs);
            if (dec2 != dec) bad("legacy-decode-into-decompressBound-failed", (size_t)bnd, dec2); }
    }
    printf("CASE fam=legacy2 ver=%d nbSeq=%u ml=%zu total=%zu dec=%lld bound=%lld fcs=%lld", ver, nbSeq, ml, total, ZSTD_isError(dec) ? -1LL : (long long)dec,
           bnd == ZSTD_CONTENTSIZE_ERROR ? -1LL : (long long)bnd, ZSTD_isError(fcs) ? -1LL : (long long)fcs);
    print_hex_field(f, fs); printf("\n");
}
static void legacy2_all(unsigned seed)
{
    static const size_t mls[] = { 4, 35, 1000, 65536, 131070, 131071, 131072, 131074 };
    int ver; size_t k; unsigned nb;
    rseed(seed + 77);
    for (ver = 5; ver <= 7; ver++) {
        for (k = 0; k < sizeof mls / sizeof *mls; k++) legacy2_case(ver, 1, mls[k]);
        legacy2_case(ver, 2, 65535); legacy2_case(ver, 2, 65536); legacy2_case(ver, 2, 131074);
        legacy2_case(ver, 3, 43689); legacy2_case(ver, 3, 43690); legacy2_case(ver, 3, 43691); legacy2_case(ver, 3, 131074);
        for (nb = 1; nb <= 3; nb++) legacy2_case(ver, nb, 4 + rnd() % 131071);
    }
}


/* round 3: random small legacy frames for the tie of the frame walk (coq/Codec/LegacyInspect.v): every header shape
   (v0.6 fcs field 0/1/2/8 bytes, v0.7 direct mode / dictID / fcs fields), blocks of every type incl. empty ones (v0.5 / v0.6
   end the frame at ANY block whose cBlockSize is 0) and RLE, truncations.  Facts: ZSTD_findFrameCompressedSize, and
   ZSTD_decompressBound of exactly that many bytes; when ZSTD_decompress accepts the frame the bound must cover it. */
static unsigned g_caseSeed3;
static void legacy3_case(unsigned k)
{
    unsigned char f[400]; size_t n = 0, hs, i, nb; int ver = 5 + (int)(rnd() % 3); unsigned fhd; size_t fcs, dec; unsigned long long bnd = ZSTD_CONTENTSIZE_ERROR;
    static const unsigned fhds[] = { 0x00, 0x00, 0x20, 0x40, 0x80, 0xC0, 0x01, 0x02, 0x03, 0x23, 0x60, 0xE3, 0x04, 0x24 };
    unsigned char* src; unsigned char* dst;
    f[n++] = (unsigned char)(0x20 + ver); f[n++] = 0xB5; f[n++] = 0x2F; f[n++] = 0xFD;
    fhd = (ver == 5) ? 0 : fhds[rnd() % (sizeof fhds / sizeof *fhds)];
    if (ver == 6) fhd = (fhd & 0xC0) | 0x08;
    f[n++] = (unsigned char)fhd;
    if (ver == 6) { static const size_t w[4] = { 0, 1, 2, 8 }; hs = 5 + w[fhd >> 6]; }
    else if (ver == 7) { static const size_t fw[4] = { 0, 2, 4, 8 }, dw[4] = { 0, 1, 2, 4 }; int const direct = (fhd >> 5) & 1;
        hs = 5 + (size_t)!direct + dw[fhd & 3] + fw[fhd >> 6] + (size_t)(direct && !fw[fhd >> 6]); }
    else hs = 5;
    while (n < hs) f[n++] = (ver == 7 && n == 5 && !((fhd >> 5) & 1)) ? 0x50 : (unsigned char)(rnd() % 3 ? 0 : rnd());
    nb = rnd() % 5;
    for (i = 0; i < nb; i++) {
        unsigned const type = rnd() % 3; size_t sz = (rnd() % 4 == 0) ? 0 : rnd() % 40; size_t payload; size_t j;
        if (type == 0 && rnd() % 2 == 0 && n + 70 < sizeof f) {      /* a VALID compressed block (builder of legacy2): 1..3 sequences, any match length */
            static const size_t mls[] = { 4, 9, 300, 43689, 43690, 65535, 65536, 131070, 131071, 131072, 131074 };
            unsigned char blk[96]; size_t const ml = (rnd() % 2) ? mls[rnd() % 11] : 4 + rnd() % 131071;
            size_t const bl = legacy2_block(blk, ver, 1 + rnd() % 3, ml);
            f[n++] = 0; f[n++] = (unsigned char)(bl >> 8); f[n++] = (unsigned char)bl; memcpy(f + n, blk, bl); n += bl;
            continue;
        }
        payload = (type == 2) ? 1 : sz;
        if (type == 2 && rnd() % 3 == 0) sz = 131072 + rnd() % 393216;
        f[n++] = (unsigned char)((type << 6) | ((sz >> 16) & 7)); f[n++] = (unsigned char)(sz >> 8); f[n++] = (unsigned char)sz;
        for (j = 0; j < payload; j++) f[n++] = (unsigned char)rnd();
    }
    f[n++] = 0xC0; f[n++] = (unsigned char)(rnd() % 4 ? 0 : rnd()); f[n++] = (unsigned char)(rnd() % 4 ? 0 : rnd());
    if (rnd() % 4 == 0) { size_t const cut = 1 + rnd() % 6; n = (n > cut + 4) ? n - cut : n; }      /* truncation */
    snprintf(g_desc, sizeof g_desc, "legacy3 %u %u", g_caseSeed3, k);
    src = L_src.hi - n; memcpy(src, f, n);                      /* the source ends at the fence: an over-read faults */
    fcs = ZSTD_findFrameCompressedSize(src, n);
    if (!ZSTD_isError(fcs)) { if (fcs > n) bad("legacy-findFrameCompressedSize-beyond-source", n, fcs); else { unsigned char* s2 = L_src.hi - fcs; memmove(s2, src, fcs); bnd = ZSTD_decompressBound(s2, fcs); memcpy(src, f, n); } }
    dst = region_place(&L_dst, 600000, 0);
    dec = ZSTD_isError(fcs) ? fcs : ZSTD_decompress(dst, 600000, src, fcs);
    if (!ZSTD_isError(dec)) {
        if (bnd == ZSTD_CONTENTSIZE_ERROR) bad("legacy-decompressBound-error-on-a-frame-that-decodes", dec, 0);
        else if (bnd < dec) bad("legacy-decompressBound-below-decoded-size", (size_t)bnd, dec);
    }
    printf("CASE fam=legacy3 ver=%d k=%u n=%zu dec=%lld bound=%lld fcs=%lld", ver, k, n, ZSTD_isError(dec) ? -1LL : (long long)dec,
           bnd == ZSTD_CONTENTSIZE_ERROR ? -1LL : (long long)bnd, ZSTD_isError(fcs) ? -1LL : (long long)fcs);
    print_hex_field(src, n); printf("\n");
}
static void legacy3_one(unsigned seed, unsigned k) { g_caseSeed3 = seed; rseed(seed * 7919ULL + 5 + k * 104729ULL); legacy3_case(k); }
static void legacy3_all(unsigned seed, unsigned count) { unsigned k; for (k = 0; k < count; k++) legacy3_one(seed, k); }


/* =================================================================== round 3: the two KNOWN interface limits, reported narrowly */
/* (a) ZSTD_compressSequences with explicit block delimiters emits one wire block per delimiter: blocks below 1 KiB (other than
   the last) cost more than ZSTD_compressBound() pays for (known: C06-compressSequences-explicit-blocks-exceed-compressBound).
   Blocks of 1 KiB or more must fit the bound; whatever is produced must decode; dst fenced. */
static region K_src, K_dst, K_buf;
static void seqblocks_case(size_t n, size_t bs, int kind)
{
    size_t const nb = (n + bs - 1) / bs, bound = ZSTD_compressBound(n); size_t i, r, r2; unsigned char* src; unsigned char* dst;
    ZSTD_Sequence* const seqs = (ZSTD_Sequence*)calloc(nb + 1, sizeof(ZSTD_Sequence)); ZSTD_CCtx* const c = ZSTD_createCCtx();
    snprintf(g_desc, sizeof g_desc, "seqblocks1 %zu %zu %d", n, bs, kind);
    if (!seqs || !c || n > 300000 || bs == 0) exit(2);
    src = K_src.hi - n; gen_input(src, n, kind, 99 + n + bs);
    for (i = 0; i < nb; i++) { seqs[i].litLength = (unsigned)(((i + 1) * bs <= n) ? bs : n - i * bs); seqs[i].matchLength = 0; seqs[i].offset = 0; }
    ZSTD_CCtx_setParameter(c, ZSTD_c_blockDelimiters, ZSTD_sf_explicitBlockDelimiters);
    ZSTD_CCtx_setParameter(c, ZSTD_c_validateSequences, 1);
    dst = region_place(&K_dst, bound, 0);
    r = ZSTD_compressSequences(c, dst, bound, seqs, nb, src, n);
    if (region_check(&K_dst, dst, bound, 0)) bad("write-outside-dst", bound, r);
    if (!ZSTD_isError(r)) {
        size_t const d = ZSTD_decompress(K_buf.lo, n + 64, dst, r);
        if (r > bound) bad("returned-size-exceeds-capacity", bound, r);
        if (d != n || memcmp(K_buf.lo, src, n)) bad("roundtrip-mismatch", n, d);
    } else {
        size_t const big = n + 4 * nb + 64;
        ZSTD_CCtx_reset(c, ZSTD_reset_session_only);
        dst = region_place(&K_dst, big, 1);
        r2 = ZSTD_compressSequences(c, dst, big, seqs, nb, src, n);
        if (region_check(&K_dst, dst, big, 1)) bad("write-outside-dst", big, r2);
        if (ZSTD_isError(r2)) bad("explicit-blocks-fail-with-ample-capacity", big, r2);
        else { size_t const d = ZSTD_decompress(K_buf.lo, n + 64, dst, r2);
            if (d != n || memcmp(K_buf.lo, src, n)) bad("roundtrip-mismatch", n, d);
            if (r2 <= bound) bad("bound-capacity-rejected-although-the-frame-fits", r2, r); }
        if (bs >= 1024 || nb <= 1) bad("failed-with-ZSTD_compressBound-capacity", bound, r);          /* NOT the known limit */
        else if (ZSTD_getErrorCode(r) != ZSTD_error_dstSize_tooSmall) bad("explicit-blocks-unexpected-error", bound, r);
        else bad("explicit-small-blocks-exceed-compressBound", bound, r);                              /* the known limit */
    }
    printf("CASE fam=seqblocks n=%zu bs=%zu kind=%d nb=%zu bound=%zu ret=%lld\n", n, bs, kind, nb, bound, ZSTD_isError(r) ? -1LL : (long long)r);
    ZSTD_freeCCtx(c); free(seqs);
}
/* (b) ZSTD_DECOMPRESSION_MARGIN(originalSize, blockSize) with the DOCUMENTED blockSize = MIN(windowSize, ZSTD_BLOCKSIZE_MAX) is
   too small for frames written with ZSTD_c_maxBlockSize (known: C06-margin-macro-ignores-maxBlockSize); with blockSize read as
   MIN(window, 128 KiB, maxBlockSize) it must work (theorem inplace_macro_margin), and so must ZSTD_decompressionMargin(). */
static size_t inplace_try(const unsigned char* frame, size_t csize, size_t n, size_t margin, const unsigned char* ref)
{
    size_t const B = n + margin; unsigned char* buf; size_t r;
    if (csize > B) return (size_t)-1;                                      /* the frame does not even fit the buffer */
    buf = region_place(&K_buf, B, 0); memcpy(buf + B - csize, frame, csize);
    r = ZSTD_decompress(buf, B, buf + B - csize, csize);
    if (region_check(&K_buf, buf, B, 0)) bad("inplace-write-outside-buffer", B, r);
    if (!ZSTD_isError(r) && (r != n || memcmp(buf, ref, n))) bad("inplace-wrong-content", B, r);
    return r;
}
static void macro_case(size_t n, int wlog, int mbs)
{
    size_t const bound = ZSTD_compressBound(n); size_t csize, r; unsigned char* src; unsigned char* dst; ZSTD_CCtx* const c = ZSTD_createCCtx();
    size_t const docB = ((size_t)1 << wlog) < ZSTD_BLOCKSIZE_MAX ? ((size_t)1 << wlog) : ZSTD_BLOCKSIZE_MAX;
    size_t const realB = (mbs && (size_t)mbs < docB) ? (size_t)mbs : docB; size_t fm;
    snprintf(g_desc, sizeof g_desc, "macro1 %zu %d %d", n, wlog, mbs);
    if (!c || n > 1600000) exit(2);
    src = K_src.hi - n; gen_input(src, n, K_NOISE, 7 + n);
    ZSTD_CCtx_setParameter(c, ZSTD_c_windowLog, wlog);
    if (mbs) ZSTD_CCtx_setParameter(c, ZSTD_c_maxBlockSize, mbs);
    dst = region_place(&K_dst, bound, 0);
    csize = ZSTD_compress2(c, dst, bound, src, n);
    if (ZSTD_isError(csize)) { bad("failed-with-ZSTD_compressBound-capacity", bound, csize); ZSTD_freeCCtx(c); return; }
    fm = ZSTD_decompressionMargin(dst, csize);
    if (ZSTD_isError(fm)) bad("decompressionMargin-error-on-valid-frame", csize, fm);
    else { r = inplace_try(dst, csize, n, fm, src); if (r != n) bad("inplace-with-function-margin-failed", fm, r); }
    r = inplace_try(dst, csize, n, ZSTD_DECOMPRESSION_MARGIN(n, realB), src);
    if (r != n) bad("inplace-with-macro-margin-failed", ZSTD_DECOMPRESSION_MARGIN(n, realB), r);            /* NOT the known limit */
    r = inplace_try(dst, csize, n, ZSTD_DECOMPRESSION_MARGIN(n, docB), src);
    if (r != n) { if (realB < docB) bad("macro-margin-documented-blockSize-too-small-with-maxBlockSize", ZSTD_DECOMPRESSION_MARGIN(n, docB), r == (size_t)-1 ? 0 : r);
                  else bad("inplace-with-macro-margin-failed", ZSTD_DECOMPRESSION_MARGIN(n, docB), r); }
    printf("CASE fam=macro n=%zu wlog=%d mbs=%d csize=%zu fmargin=%zu docMargin=%zu realMargin=%zu docOk=%d\n", n, wlog, mbs, csize, fm,
           (size_t)ZSTD_DECOMPRESSION_MARGIN(n, docB), (size_t)ZSTD_DECOMPRESSION_MARGIN(n, realB), r == n);
    ZSTD_freeCCtx(c);
}
static void known_init(void) { K_src = region_new(1600000 + 64); K_dst = region_new(ZSTD_compressBound(1600000) + 1200000); K_buf = region_new(1600000 + 140000 + 8192); }
static void known_all(unsigned seed)
{
    rseed(seed + 4242);
    seqblocks_case(65536, 100, K_NOISE); seqblocks_case(65536, 700, K_NOISE); seqblocks_case(1000, 3, K_NOISE); seqblocks_case(20000, 1, K_TEXT);
    seqblocks_case(65536, 1023, K_NOISE); seqblocks_case(200000, 1024, K_NOISE); seqblocks_case(200000, 1025, K_NOISE); seqblocks_case(262144, 2048, K_NOISE);
    seqblocks_case(100000, 100000, K_NOISE); seqblocks_case(150000, 131072, K_TEXT); seqblocks_case(50000 + rnd() % 100000, 1024 + rnd() % 3000, K_NOISE);
    seqblocks_case(3000 + rnd() % 50000, 1 + rnd() % 900, K_NOISE);
    macro_case(1500000, 11, 1024); macro_case(1500000, 11, 0); macro_case(1500000, 12, 1024); macro_case(1200000, 17, 0); macro_case(1000000 + rnd() % 500000, 11, 1024);
    macro_case(300000, 11, 1024); macro_case(1500000, 13, 4096);
}


/* round 3: concatenations of legacy (v0.5-v0.7), zstd1 and skippable frames: ZSTD_decompressBound of the whole = sum of the
   frames' own bounds >= what ZSTD_decompress regenerates; ZSTD_findFrameCompressedSize at every frame start = that frame's
   length; ZSTD_findDecompressedSize = sum of the declared sizes or "unknown" (legacy v0.5 frames declare none); the whole
   decodes into exactly the regenerated size (fenced), one byte less fails. */
static unsigned g_caseSeed;
static void concat_case(unsigned k)
{
    static unsigned char buf[700000]; static unsigned char content[1400000]; static unsigned char tmp[400000];
    size_t n = 0, total = 0, starts[8], lens[8], nf = 1 + rnd() % 5, i; unsigned long long sumBound = 0, wb; int anyLegacy5 = 0; size_t dec; unsigned char* src; unsigned char* dst;
    snprintf(g_desc, sizeof g_desc, "concat1 %u %u", g_caseSeed, k);
    for (i = 0; i < nf; i++) {
        unsigned const kind = rnd() % 4; size_t fl = 0, cl = 0;
        starts[i] = n;
        if (kind == 0) {                 /* skippable */
            size_t const pl = rnd() % 50; size_t j; for (j = 0; j < pl; j++) tmp[j] = (unsigned char)rnd();
            fl = ZSTD_writeSkippableFrame(buf + n, sizeof buf - n, tmp, pl, rnd() % 16); if (ZSTD_isError(fl)) exit(2);
        } else if (kind == 1) {          /* zstd1, content size known or not (streaming without pledge) */
            size_t const sl = (rnd() % 3 == 0) ? 0 : rnd() % 200000; int const knownSize = (int)(rnd() & 1);
            gen_input(tmp, sl, (int)(rnd() % K_NB), k * 31 + i);
            {   ZSTD_CCtx* const c = ZSTD_createCCtx(); ZSTD_inBuffer in; ZSTD_outBuffer out; size_t r;
                ZSTD_CCtx_setParameter(c, ZSTD_c_checksumFlag, (int)(rnd() & 1));
                if (rnd() % 3 == 0) ZSTD_CCtx_setParameter(c, ZSTD_c_windowLog, 10 + (int)(rnd() % 8));
                if (knownSize) fl = ZSTD_compress2(c, buf + n, sizeof buf - n, tmp, sl);
                else { in.src = tmp; in.size = sl; in.pos = 0; out.dst = buf + n; out.size = sizeof buf - n; out.pos = 0;
                       r = ZSTD_compressStream2(c, &out, &in, ZSTD_e_end); fl = (r == 0) ? out.pos : (size_t)-1; }
                ZSTD_freeCCtx(c); if (ZSTD_isError(fl) || fl == (size_t)-1) exit(2);
            }
            memcpy(content + total, tmp, sl); cl = sl;
        } else {                          /* legacy: one raw block, or one valid compressed block */
            int const ver = 5 + (int)(rnd() % 3); size_t hl = 0; unsigned char* f = buf + n;
            f[hl++] = (unsigned char)(0x20 + ver); f[hl++] = 0xB5; f[hl++] = 0x2F; f[hl++] = 0xFD; f[hl++] = (ver == 6) ? 0x08 : 0x00; if (ver == 7) f[hl++] = 0x50;
            if (ver == 5) anyLegacy5 = 1;
            if (kind == 2) { size_t const sz = 1 + rnd() % 131072;   /* since 2e38602 no legacy block may regenerate more than 128 KiB */ size_t j; f[hl++] = (unsigned char)(0x40 | (sz >> 16)); f[hl++] = (unsigned char)(sz >> 8); f[hl++] = (unsigned char)sz;
                for (j = 0; j < sz; j++) f[hl + j] = (unsigned char)('a' + (j * 13 + i) % 26); memcpy(content + total, f + hl, sz); hl += sz; cl = sz; }
            else { unsigned const nbSeq = 1 + rnd() % 3; size_t const ml = 8 + rnd() % (131072 / nbSeq - 9); unsigned char blk[96]; size_t const bl = legacy2_block(blk, ver, nbSeq, ml); size_t j;
                f[hl++] = 0; f[hl++] = (unsigned char)(bl >> 8); f[hl++] = (unsigned char)bl; memcpy(f + hl, blk, bl); hl += bl;
                cl = (size_t)nbSeq * (1 + ml); for (j = 0; j < cl; j++) content[total + j] = (unsigned char)('A' + j / (1 + ml)); }
            f[hl++] = 0xC0; f[hl++] = 0; f[hl++] = 0; fl = hl;
        }
        lens[i] = fl; n += fl; total += cl;
        {   static unsigned char one[400000]; size_t const d1 = ZSTD_decompress(one, sizeof one, buf + starts[i], fl);
            if (d1 != cl || memcmp(one, content + total - cl, cl)) bad("concat-single-frame-decode-failed", kind * 100 + buf[starts[i]], d1); }
        {   unsigned long long const b1 = ZSTD_decompressBound(buf + starts[i], fl);
            if (b1 == ZSTD_CONTENTSIZE_ERROR) bad("concat-frame-bound-error", fl, 0); else { sumBound += b1; if (b1 < cl) bad("decompressBound-below-decoded-size", (size_t)b1, cl); } }
        if (n + 400000 > sizeof buf || total + 400000 > sizeof content) { nf = i + 1; break; }
    }
    src = L_src.hi - n;  /* L_src holds 530000 bytes */
    if (n > 520000) { printf("CASE fam=concat k=%u skipped=1\n", k); return; }
    memcpy(src, buf, n);
    wb = ZSTD_decompressBound(src, n);
    if (wb != sumBound) bad("concat-decompressBound-is-not-the-sum", (size_t)wb, (size_t)sumBound);
    for (i = 0; i < nf; i++) { size_t const fc = ZSTD_findFrameCompressedSize(src + starts[i], n - starts[i]); if (fc != lens[i]) bad("concat-findFrameCompressedSize-differs", lens[i], fc); }
    {   unsigned long long const fds = ZSTD_findDecompressedSize(src, n);
        if (fds == ZSTD_CONTENTSIZE_ERROR) bad("concat-findDecompressedSize-error", n, 0);
        else if (fds != ZSTD_CONTENTSIZE_UNKNOWN && fds != total) bad("concat-findDecompressedSize-wrong", (size_t)fds, total); }
    if (total > 1300000) { printf("CASE fam=concat k=%u skipped=2\n", k); return; }
    {   static region R; static int init; if (!init) { R = region_new(1400000); init = 1; }
        dst = region_place(&R, total, 0); dec = ZSTD_decompress(dst, total, src, n);
        if (region_check(&R, dst, total, 0)) bad("write-outside-dst", total, dec);
        if (dec != total || memcmp(dst, content, total)) bad("concat-decode-mismatch", total, dec);
        if (total) { dst = region_place(&R, total - 1, 0); dec = ZSTD_decompress(dst, total - 1, src, n);
            if (region_check(&R, dst, total - 1, 0)) bad("write-outside-dst", total - 1, dec);
            if (!ZSTD_isError(dec)) bad("concat-accepted-short-capacity", total - 1, dec); }
    }
    printf("CASE fam=concat k=%u nf=%zu n=%zu total=%zu bound=%llu legacy5=%d\n", k, nf, n, total, wb, anyLegacy5);
}
static void concat_one(unsigned seed, unsigned k) { g_caseSeed = seed; rseed(seed * 104729ULL + 9 + k * 7919ULL); concat_case(k); }
static void concat_all(unsigned seed, unsigned count) { unsigned k; for (k = 0; k < count; k++) concat_one(seed, k); }

int main(int argc, char** argv)
{
    g_mainAddr = (void*)main;
    install_handlers();
    setvbuf(stdout, NULL, _IOLBF, 0);
    if (argc >= 4 && !strcmp(argv[1], "collector")) { collector_init(); collector_all((unsigned)atoi(argv[2]), atoi(argv[3])); }
    else if (argc >= 8 && !strcmp(argv[1], "collector1")) {
        collector_init();
        collector_case(atoi(argv[2]), strtoull(argv[3], NULL, 10), (size_t)strtoull(argv[4], NULL, 10), atoi(argv[5]), atoi(argv[6]), atoi(argv[7]));
    }
    else if (argc >= 4 && !strcmp(argv[1], "producer")) { producer_init(); producer_all((unsigned)atoi(argv[2]), atoi(argv[3])); }
    else if (argc >= 15 && !strcmp(argv[1], "producer1")) {
        PP p; producer_init();
        p.B = (size_t)strtoull(argv[2], NULL, 10); p.nblocks = (size_t)strtoull(argv[3], NULL, 10); p.iseed = strtoull(argv[4], NULL, 10);
        p.depth = atoi(argv[5]); p.codeLo = atoi(argv[6]); p.codeHi = atoi(argv[7]); p.mlmix = atoi(argv[8]); p.llmax = atoi(argv[9]); p.density = atoi(argv[10]);
        p.split = atoi(argv[11]); p.tcbs = atoi(argv[12]); p.chk = atoi(argv[13]); p.lits = atoi(argv[14]);
        if (p.B * p.nblocks > (4u << 20) || p.B < 1024) { fprintf(stderr, "bad size\n"); return 2; }
        producer_case(&p);
    }
    else if (argc >= 3 && !strcmp(argv[1], "legacy")) { legacy_init(); legacy_all((unsigned)atoi(argv[2])); legacy2_all((unsigned)atoi(argv[2])); legacy3_all((unsigned)atoi(argv[2]), (argc > 3 && atoi(argv[3])) ? 2000 : 300); concat_all((unsigned)atoi(argv[2]), (argc > 3 && atoi(argv[3])) ? 300 : 40); }
    else if (argc >= 5 && !strcmp(argv[1], "legacy2")) { legacy_init(); legacy2_case(atoi(argv[2]), (unsigned)atoi(argv[3]), (size_t)strtoull(argv[4], NULL, 10)); }
    else if (argc >= 5 && !strcmp(argv[1], "legacy1")) { legacy_init(); legacy_case(atoi(argv[2]), atoi(argv[3]), (size_t)strtoull(argv[4], NULL, 10)); }
    else if (argc >= 4 && !strcmp(argv[1], "legacy3")) { legacy_init(); legacy3_one((unsigned)atoi(argv[2]), (unsigned)atoi(argv[3])); }
    else if (argc >= 4 && !strcmp(argv[1], "concat1")) { legacy_init(); concat_one((unsigned)atoi(argv[2]), (unsigned)atoi(argv[3])); }
    else if (argc >= 3 && !strcmp(argv[1], "known")) { known_init(); known_all((unsigned)atoi(argv[2])); }
    else if (argc >= 5 && !strcmp(argv[1], "seqblocks1")) { known_init(); seqblocks_case((size_t)strtoull(argv[2], NULL, 10), (size_t)strtoull(argv[3], NULL, 10), atoi(argv[4])); }
    else if (argc >= 5 && !strcmp(argv[1], "macro1")) { known_init(); macro_case((size_t)strtoull(argv[2], NULL, 10), atoi(argv[3]), atoi(argv[4])); }
    else { fprintf(stderr, "usage: see the header comment\n"); return 2; }
    printf("DONE bad=%u\n", g_nbBad);
    return g_nbBad ? 1 : 0;
}
