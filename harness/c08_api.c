/* c08_api: dictionary round trips through the API surface the line-oriented zv_codec does not reach.
 * One command per line:
 *   R <id> <seed> <first> <count> <flags> <dicthex|-> <inputhex|->
 *       runs scenarios k = first .. first+count-1 ; scenario k is a pure function of (seed, k, dictionary, input):
 *       a compression recipe (API family x parameters x way of supplying the dictionary x number of frames) followed, for every
 *       frame produced, by every applicable decoding recipe, the dictionary-ID queries and the wrong-ID refusal on every path.
 *       flags: bit0 = allow multithreaded recipes (large inputs), bit1 = hostile dictionary (loader refusals are expected, no
 *              verdict beyond memory safety and "what one side accepts the other accepts"), bit2 = print the last frame
 *       -> <id> OK ran=<n> frames=<n> refused=<n> skipped=<n> [frame=<kind>:<hex>]
 *       -> <id> FAIL k=<k> what=<text> recipe=<text>
 *   T <id> <spec> <framehex> <dicthex> ...   multi-DDict table:  spec = <mode>:<active>:<e0>,<e1>,...  entries: index of a dictionary of
 *       the line (0-based), 'r<i>' = that dictionary's bytes as RAW content DDict (dictID 0); mode = dctx|stream|usingddict
 *       the DDicts are referenced in the order given, then entry <active> is referenced again (becomes the active one);
 *       mode ldctx|lstream: entry <active>'s bytes are instead LOADED into the context (ZSTD_DCtx_loadDictionary_advanced, by copy)
 *       -> <id> OK <hex>  |  <id> ERR <name>
 */
#define ZSTD_STATIC_LINKING_ONLY
#define ZSTD_DISABLE_DEPRECATE_WARNINGS
#define ZDICT_STATIC_LINKING_ONLY
#include "zstd.h"
#include "zstd_errors.h"
#include "zdict.h"
#define ZBUFF_DISABLE_DEPRECATE_WARNINGS
#define ZBUFF_STATIC_LINKING_ONLY
#include "deprecated/zbuff.h"
#include <stdio.h>
#include <stdlib.h>
#include <string.h>
#include <stdint.h>
#include <stdarg.h>

static unsigned char* unhex(const char* s, size_t* n) {
    static const signed char V[256] = { ['0'] = 0, ['1'] = 1, ['2'] = 2, ['3'] = 3, ['4'] = 4, ['5'] = 5, ['6'] = 6, ['7'] = 7, ['8'] = 8, ['9'] = 9,
        ['a'] = 10, ['b'] = 11, ['c'] = 12, ['d'] = 13, ['e'] = 14, ['f'] = 15 };
    size_t l, i; unsigned char* b;
    if (!strcmp(s, "-")) { *n = 0; return (unsigned char*)malloc(1); }
    l = strlen(s) / 2; b = (unsigned char*)malloc(l + 1);
    for (i = 0; i < l; i++) b[i] = (unsigned char)((V[(unsigned char)s[2 * i]] << 4) | V[(unsigned char)s[2 * i + 1]]);
    *n = l; return b;
}
static void puthex(const unsigned char* b, size_t n) {
    static const char* H = "0123456789abcdef"; size_t i;
    if (n == 0) { putchar('-'); return; }
    for (i = 0; i < n; i++) { putchar(H[b[i] >> 4]); putchar(H[b[i] & 15]); }
}
static const char* ename(size_t code) { return ZSTD_getErrorString(ZSTD_getErrorCode(code)); }

typedef struct { uint64_t s; } rng_t;
static unsigned rnd(rng_t* r) { r->s ^= r->s << 13; r->s ^= r->s >> 7; r->s ^= r->s << 17; return (unsigned)(r->s >> 20); }
static unsigned pick(rng_t* r, unsigned n) { return rnd(r) % n; }
static int chance(rng_t* r, unsigned pct) { return rnd(r) % 100 < pct; }

/* ---- scenario state ---- */
static char g_recipe[8192]; static size_t g_rl;
static char g_what[1024];
static void rec(const char* fmt, ...) { va_list ap; va_start(ap, fmt); if (g_rl < sizeof(g_recipe) - 300) g_rl += (size_t)vsnprintf(g_recipe + g_rl, 290, fmt, ap); va_end(ap); }
static int fail(const char* fmt, ...) { va_list ap; va_start(ap, fmt); vsnprintf(g_what, sizeof g_what, fmt, ap); va_end(ap); return -1; }

enum { K_NONE = 0, K_RAW = 1, K_FMT = 2 };
#define MAXFR 4
typedef struct { size_t off, size, xoff, xsize; int kind; unsigned wantID; int noHeader; int noid; } frame_t;
static frame_t g_fr[MAXFR]; static int g_nfr;

static const unsigned char* D; static size_t DN;      /* dictionary under test */
static int g_isfmt;                                   /* D starts with the dictionary magic and has >= 8 bytes */
static unsigned g_id;
static int g_hostile;
static int is_fmt(const unsigned char* d, size_t n) { return n >= 8 && d[0] == 0x37 && d[1] == 0xA4 && d[2] == 0x30 && d[3] == 0xEC; }
static unsigned rdid(const unsigned char* d) { return (unsigned)d[4] | ((unsigned)d[5] << 8) | ((unsigned)d[6] << 16) | ((unsigned)d[7] << 24); }

#define SKIP ((size_t)-9999)   /* recipe not applicable (parameter refused) */
static int g_refused;          /* the dictionary was refused by a loader */
static int g_usedFull;         /* the recipe asked for ZSTD_dct_fullDict */

/* random advanced parameters on a cctx or a CCtx_params ; returns 0 or SKIP */
typedef size_t (*setter_f)(void* o, ZSTD_cParameter p, int v);
static size_t set_cctx(void* o, ZSTD_cParameter p, int v) { return ZSTD_CCtx_setParameter((ZSTD_CCtx*)o, p, v); }
static size_t set_params(void* o, ZSTD_cParameter p, int v) { return ZSTD_CCtxParams_setParameter((ZSTD_CCtx_params*)o, p, v); }
static int g_level, g_noDictID, g_mt;
static size_t rand_params(rng_t* r, setter_f set, void* o, int forCDict, int allowMT) {
    static const int levels[] = { -5, -1, 1, 1, 2, 3, 3, 4, 5, 6, 7, 8, 9, 10, 12, 13, 15, 16, 17, 18, 19, 22 };
    int level = levels[pick(r, sizeof levels / sizeof levels[0])];
#define SET(p, v) do { size_t e_ = set(o, p, v); rec(" %s=%d", #p + 7, (int)(v)); if (ZSTD_isError(e_)) { rec("(refused)"); return SKIP; } } while (0)
    SET(ZSTD_c_compressionLevel, level); g_level = level;
    if (chance(r, 35)) SET(ZSTD_c_strategy, 1 + pick(r, 9));
    if (chance(r, 35)) { static const int w[] = { 10, 11, 12, 14, 17, 18, 20, 23 }; SET(ZSTD_c_windowLog, w[pick(r, 8)]); }
    if (chance(r, 15)) { static const int w[] = { 6, 8, 12, 17, 20 }; SET(ZSTD_c_hashLog, w[pick(r, 5)]); }
    if (chance(r, 15)) { static const int w[] = { 6, 8, 12, 17, 20 }; SET(ZSTD_c_chainLog, w[pick(r, 5)]); }
    if (chance(r, 15)) SET(ZSTD_c_searchLog, 1 + pick(r, 8));
    if (chance(r, 20)) SET(ZSTD_c_minMatch, 3 + pick(r, 5));
    if (chance(r, 10)) { static const int w[] = { 0, 1, 8, 64, 999 }; SET(ZSTD_c_targetLength, w[pick(r, 5)]); }
    if (chance(r, 15)) { SET(ZSTD_c_enableLongDistanceMatching, 1); if (chance(r, 40)) SET(ZSTD_c_ldmMinMatch, 4 + pick(r, 60)); if (chance(r, 30)) SET(ZSTD_c_ldmHashLog, 6 + pick(r, 10));
                         if (chance(r, 30)) SET(ZSTD_c_ldmHashRateLog, pick(r, 6)); }
    if (chance(r, 40)) SET(ZSTD_c_useRowMatchFinder, pick(r, 3));
    if (chance(r, 40)) SET(ZSTD_c_forceAttachDict, pick(r, 4));
    if (chance(r, 30)) SET(ZSTD_c_enableDedicatedDictSearch, 1);
    if (!forCDict) {
        if (chance(r, 20)) { SET(ZSTD_c_dictIDFlag, 0); g_noDictID = 1; }
        if (chance(r, 30)) SET(ZSTD_c_checksumFlag, 1);
        if (chance(r, 15)) SET(ZSTD_c_contentSizeFlag, 0);
        if (chance(r, 15)) { static const int w[] = { 64, 300, 1340, 5000 }; SET(ZSTD_c_targetCBlockSize, w[pick(r, 4)]); }
        if (chance(r, 20)) SET(ZSTD_c_useBlockSplitter, pick(r, 3));
        if (chance(r, 15)) SET(ZSTD_c_literalCompressionMode, pick(r, 3));
        if (chance(r, 10)) SET(ZSTD_c_forceMaxWindow, 1);
        if (chance(r, 10)) SET(ZSTD_c_deterministicRefPrefix, 1);
        if (chance(r, 10)) SET(ZSTD_c_prefetchCDictTables, pick(r, 3));
        if (chance(r, 10)) { static const int w[] = { 1, 100, 5000, 200000 }; SET(ZSTD_c_srcSizeHint, w[pick(r, 4)]); }
        if (chance(r, 15)) { static const int w[] = { 1024, 1500, 4096, 65536 }; SET(ZSTD_c_maxBlockSize, w[pick(r, 4)]); }
        g_mt = 0;
        if (allowMT && chance(r, 60)) { SET(ZSTD_c_nbWorkers, 1 + pick(r, 3)); g_mt = 1; if (chance(r, 70)) SET(ZSTD_c_jobSize, 512 * 1024 + (int)pick(r, 3) * 100000); if (chance(r, 60)) SET(ZSTD_c_overlapLog, pick(r, 10));
                                         if (chance(r, 20)) SET(ZSTD_c_rsyncable, 1); }
    }
#undef SET
    return 0;
}

static const char* dctname(int t) { return t == 0 ? "auto" : t == 1 ? "raw" : "full"; }
/* how the decoder has to treat bytes given with content type t */
static int kind_of(int t) { if (t == ZSTD_dct_rawContent) return K_RAW; return g_isfmt ? K_FMT : K_RAW; }

/* stream-compress `n` bytes into out+*op with random chunking; end the frame */
static size_t stream_frame(rng_t* r, ZSTD_CCtx* c, unsigned char* out, size_t cap, size_t* op, const unsigned char* in, size_t n) {
    ZSTD_inBuffer ib; ZSTD_outBuffer ob; size_t ipos = 0; int guard = 0;
    for (;;) {
        size_t chunk = chance(r, 30) ? n - ipos : 1 + pick(r, 70000); int last; size_t ret; size_t oc = chance(r, 50) ? cap - *op : 1 + pick(r, 5000);
        if (chunk > n - ipos) chunk = n - ipos; if (oc > cap - *op) oc = cap - *op;
        last = (ipos + chunk == n);
        ib.src = in + ipos; ib.size = chunk; ib.pos = 0; ob.dst = out + *op; ob.size = oc; ob.pos = 0;
        ret = ZSTD_compressStream2(c, &ob, &ib, last ? ZSTD_e_end : (chance(r, 10) ? ZSTD_e_flush : ZSTD_e_continue));
        if (ZSTD_isError(ret)) return ret;
        ipos += ib.pos; *op += ob.pos;
        if (last && ret == 0 && ib.pos == chunk) return 0;
        if (++guard > 100000 || *op == cap) return (size_t)-ZSTD_error_dstSize_tooSmall;
    }
}

static ZSTD_CDict* g_cd; static void* g_cdws; static void* g_ccws; static int g_cdictIdBad; static unsigned g_cdictIdGot;
/* creates a CDict in one of the available ways, level / parameters chosen at random (usually NOT the cctx's) */
static const ZSTD_CDict* make_cdict(rng_t* r, int* kind) {
    int how = pick(r, 5); int dlm = pick(r, 2); int dct = chance(r, 70) ? 0 : (int)pick(r, 3);
    static const int levels[] = { -3, 1, 2, 3, 4, 5, 6, 8, 12, 13, 16, 19, 22 }; int lvl = levels[pick(r, 13)];
    const ZSTD_CDict* cd = NULL;
    *kind = kind_of(dct);
    if (dct == 2 && how >= 2) g_usedFull = 1;
    if (how == 0) { rec(" cdict=create(L%d)", lvl); cd = g_cd = ZSTD_createCDict(D, DN, lvl); *kind = kind_of(0); }
    else if (how == 1) { rec(" cdict=byRef(L%d)", lvl); cd = g_cd = ZSTD_createCDict_byReference(D, DN, lvl); *kind = kind_of(0); }
    else if (how == 2) { ZSTD_compressionParameters cp = ZSTD_getCParams(lvl, chance(r, 50) ? 0 : 1 + pick(r, 300000), DN);
        rec(" cdict=advanced(L%d,%s,%s)", lvl, dlm ? "ref" : "copy", dctname(dct)); cd = g_cd = ZSTD_createCDict_advanced(D, DN, (ZSTD_dictLoadMethod_e)dlm, (ZSTD_dictContentType_e)dct, cp, ZSTD_defaultCMem); }
    else if (how == 3) { ZSTD_CCtx_params* p = ZSTD_createCCtxParams(); size_t e; rec(" cdict=advanced2(%s,%s;", dlm ? "ref" : "copy", dctname(dct));
        e = rand_params(r, set_params, p, 1, 0); rec(")");
        if (e == SKIP) { ZSTD_freeCCtxParams(p); return NULL; }
        cd = g_cd = ZSTD_createCDict_advanced2(D, DN, (ZSTD_dictLoadMethod_e)dlm, (ZSTD_dictContentType_e)dct, p, ZSTD_defaultCMem); ZSTD_freeCCtxParams(p); }
    else { ZSTD_compressionParameters cp = ZSTD_getCParams(lvl, 0, DN); size_t ws = ZSTD_estimateCDictSize_advanced(DN, cp, (ZSTD_dictLoadMethod_e)dlm);
        rec(" cdict=static(L%d,%s,%s,ws=%lu)", lvl, dlm ? "ref" : "copy", dctname(dct), (unsigned long)ws);
        g_cdws = malloc(ws); cd = ZSTD_initStaticCDict(g_cdws, ws, D, DN, (ZSTD_dictLoadMethod_e)dlm, (ZSTD_dictContentType_e)dct, cp); }
    if (!cd) { g_refused = 1; rec(" ->NULL"); }
    else { unsigned const q = ZSTD_getDictID_fromCDict(cd), w = (*kind == K_FMT) ? g_id : 0; if (q != w) { g_cdictIdBad = 1; g_cdictIdGot = q; } }
    return cd;
}

/* ---- compression recipes: fill out[], g_fr[] ; return total size, an error code, or SKIP ---- */
static size_t do_compress(rng_t* r, unsigned char* out, size_t cap, const unsigned char* X, size_t XN, int allowMT) {
    ZSTD_CCtx* c; size_t ret = 0, op = 0; int api = pick(r, allowMT ? 13 : 12); int kind = K_NONE; const ZSTD_CDict* cd;
    int const useStatic = 0;
    g_nfr = 1; g_fr[0].off = 0; g_fr[0].xoff = 0; g_fr[0].xsize = XN; g_fr[0].noHeader = 0; g_noDictID = 0; g_mt = 0;
    c = ZSTD_createCCtx();
#define DONE(v) do { ret = (v); goto done; } while (0)
#define TRY(e) do { size_t e_ = (e); if (ZSTD_isError(e_)) DONE(e_); } while (0)
    switch (api) {
    case 0: case 12: { int dlm = pick(r, 2), dct = chance(r, 60) ? 0 : (int)pick(r, 3);
        rec("compress2%s;", api == 12 ? "-MT" : ""); if (rand_params(r, set_cctx, c, 0, api == 12) == SKIP) DONE(SKIP);
        rec(" loadDictionary_advanced(%s,%s)", dlm ? "ref" : "copy", dctname(dct)); if (dct == 2) g_usedFull = 1;
        TRY(ZSTD_CCtx_loadDictionary_advanced(c, D, DN, (ZSTD_dictLoadMethod_e)dlm, (ZSTD_dictContentType_e)dct)); kind = kind_of(dct);
        if (api == 12 && chance(r, 30)) { rec(" then refPrefix(raw)"); TRY(ZSTD_CCtx_refPrefix(c, D, DN)); kind = K_RAW; g_usedFull = 0; }
        ret = ZSTD_compress2(c, out, cap, X, XN); op = ret; break; }
    case 1: { rec("compress2;"); if (rand_params(r, set_cctx, c, 0, 0) == SKIP) DONE(SKIP);
        cd = make_cdict(r, &kind); if (!cd) DONE(g_refused ? (size_t)-ZSTD_error_dictionary_corrupted : SKIP);
        rec(" refCDict"); TRY(ZSTD_CCtx_refCDict(c, cd));
        if (chance(r, 30)) { int l2 = 1 + (int)pick(r, 19); rec(" then level=%d", l2); TRY(ZSTD_CCtx_setParameter(c, ZSTD_c_compressionLevel, l2)); }
        ret = ZSTD_compress2(c, out, cap, X, XN); op = ret; break; }
    case 2: { int dct = chance(r, 50) ? 0 : (int)pick(r, 3); rec("compress2;"); if (rand_params(r, set_cctx, c, 0, 0) == SKIP) DONE(SKIP);
        if (chance(r, 30)) { rec(" loadDictionary(first half) then"); TRY(ZSTD_CCtx_loadDictionary(c, D, DN / 2)); }
        rec(" refPrefix_advanced(%s)", dctname(dct)); if (dct == 2) g_usedFull = 1; TRY(ZSTD_CCtx_refPrefix_advanced(c, D, DN, (ZSTD_dictContentType_e)dct)); kind = kind_of(dct);
        ret = ZSTD_compress2(c, out, cap, X, XN); op = ret; break; }
    case 3: { ZSTD_frameParameters fp; fp.contentSizeFlag = chance(r, 70); fp.checksumFlag = chance(r, 40); fp.noDictIDFlag = chance(r, 25);
        cd = make_cdict(r, &kind); if (!cd) DONE(g_refused ? (size_t)-ZSTD_error_dictionary_corrupted : SKIP);
        if (chance(r, 50)) { rec(" usingCDict_advanced(cs=%d,ck=%d,noid=%d)", fp.contentSizeFlag, fp.checksumFlag, fp.noDictIDFlag); g_noDictID = fp.noDictIDFlag;
            ret = ZSTD_compress_usingCDict_advanced(c, out, cap, X, XN, cd, fp); }
        else { rec(" usingCDict"); ret = ZSTD_compress_usingCDict(c, out, cap, X, XN, cd); }
        op = ret; break; }
    case 4: { static const int levels[] = { -2, 1, 2, 3, 4, 5, 6, 7, 9, 12, 13, 16, 18, 19, 22 }; int lvl = levels[pick(r, 15)];
        if (chance(r, 40)) { ZSTD_parameters p = ZSTD_getParams(lvl, chance(r, 50) ? XN : 0, DN); p.fParams.contentSizeFlag = chance(r, 70); p.fParams.checksumFlag = chance(r, 40); p.fParams.noDictIDFlag = chance(r, 25);
            if (chance(r, 30)) p.cParams.windowLog = 10 + pick(r, 8);
            if (chance(r, 30)) p.cParams.strategy = (ZSTD_strategy)(1 + pick(r, 9));
            if (chance(r, 20)) p.cParams.minMatch = 3 + pick(r, 5);
            p.cParams = ZSTD_adjustCParams(p.cParams, XN, DN);
            rec("compress_advanced(L%d,wlog=%u,strat=%d,mm=%u,noid=%d)", lvl, p.cParams.windowLog, (int)p.cParams.strategy, p.cParams.minMatch, p.fParams.noDictIDFlag); g_noDictID = p.fParams.noDictIDFlag;
            ret = ZSTD_compress_advanced(c, out, cap, X, XN, D, DN, p); }
        else { rec("compress_usingDict(L%d)", lvl); ret = ZSTD_compress_usingDict(c, out, cap, X, XN, D, DN, lvl); }
        kind = kind_of(0); op = ret; break; }
    case 5: case 6: { size_t ipos = 0; int nseg = 1 + (int)pick(r, 4), k;
        if (api == 5) { if (chance(r, 50)) { int lvl = 1 + (int)pick(r, 19); rec("compressBegin_usingDict(L%d)", lvl); TRY(ZSTD_compressBegin_usingDict(c, D, DN, lvl)); }
            else { ZSTD_parameters p = ZSTD_getParams(1 + (int)pick(r, 19), 0, DN); p.fParams.noDictIDFlag = chance(r, 25); p.fParams.checksumFlag = chance(r, 40); g_noDictID = p.fParams.noDictIDFlag;
                   rec("compressBegin_advanced(strat=%d,noid=%d)", (int)p.cParams.strategy, g_noDictID); TRY(ZSTD_compressBegin_advanced(c, D, DN, p, chance(r, 50) ? XN : ZSTD_CONTENTSIZE_UNKNOWN)); }
            kind = kind_of(0); }
        else { ZSTD_frameParameters fp; fp.contentSizeFlag = chance(r, 70); fp.checksumFlag = chance(r, 40); fp.noDictIDFlag = chance(r, 25);
            cd = make_cdict(r, &kind); if (!cd) DONE(g_refused ? (size_t)-ZSTD_error_dictionary_corrupted : SKIP);
            if (chance(r, 60)) { unsigned long long pl = chance(r, 50) ? XN : ZSTD_CONTENTSIZE_UNKNOWN; rec(" compressBegin_usingCDict_advanced(noid=%d,pledged=%s)", fp.noDictIDFlag, pl == XN ? "n" : "unknown"); g_noDictID = fp.noDictIDFlag;
                TRY(ZSTD_compressBegin_usingCDict_advanced(c, cd, fp, pl)); }
            else { rec(" compressBegin_usingCDict"); TRY(ZSTD_compressBegin_usingCDict(c, cd)); } }
        if (chance(r, 30)) {   /* continue in a COPY of the context (ZSTD_copyCCtx), the destination fresh or used before */
            ZSTD_CCtx* c2 = ZSTD_createCCtx(); int dirty = chance(r, 50);
            if (dirty) { size_t w = ZSTD_compressCCtx(c2, out, cap, X, XN > 20000 ? 20000 : XN, 1 + (int)pick(r, 12)); (void)w; }
            rec(" copyCCtx(%s)", dirty ? "used" : "fresh");
            {   size_t e = ZSTD_copyCCtx(c2, c, chance(r, 50) ? XN : ZSTD_CONTENTSIZE_UNKNOWN);
                ZSTD_freeCCtx(c); c = c2; TRY(e); }
            /* the frame parameters of the copy are those of ZSTD_copyCCtx: contentSize flag set, no checksum, dictID kept */
            g_noDictID = 0; }
        rec(" segs=%d", nseg);
        for (k = 0; k < nseg; k++) { size_t len = (k == nseg - 1) ? XN - ipos : (XN - ipos) / (1 + pick(r, 4)); size_t w;
            w = (k == nseg - 1) ? ZSTD_compressEnd(c, out + op, cap - op, X + ipos, len) : ZSTD_compressContinue(c, out + op, cap - op, X + ipos, len);
            TRY(w); op += w; ipos += len; }
        ret = op; break; }
    case 7: { /* several frames from one context, streaming ; the dictionary given once */
        int how = pick(r, 4), nf = 2 + (int)pick(r, 2), k; size_t xo = 0; int dct = chance(r, 60) ? 0 : (int)pick(r, 3);
        rec("stream x%d;", nf); if (rand_params(r, set_cctx, c, 0, 0) == SKIP) DONE(SKIP);
        if (how <= 1 && dct == 2) g_usedFull = 1;
        if (how == 0) { rec(" loadDictionary_advanced(copy,%s)", dctname(dct)); TRY(ZSTD_CCtx_loadDictionary_advanced(c, D, DN, ZSTD_dlm_byCopy, (ZSTD_dictContentType_e)dct)); kind = kind_of(dct); }
        else if (how == 1) { rec(" refPrefix_advanced(%s)", dctname(dct)); TRY(ZSTD_CCtx_refPrefix_advanced(c, D, DN, (ZSTD_dictContentType_e)dct)); kind = kind_of(dct); }
        else if (how == 2) { cd = make_cdict(r, &kind); if (!cd) DONE(g_refused ? (size_t)-ZSTD_error_dictionary_corrupted : SKIP); rec(" refCDict"); TRY(ZSTD_CCtx_refCDict(c, cd)); }
        else { rec(" loadDictionary then refPrefix(raw)"); TRY(ZSTD_CCtx_loadDictionary(c, D, DN)); TRY(ZSTD_CCtx_refPrefix(c, D, DN)); kind = K_RAW; how = 1; }
        g_nfr = nf;
        for (k = 0; k < nf; k++) { size_t len = (k == nf - 1) ? XN - xo : (XN - xo) / 2; size_t before = op;
            if (k > 0 && chance(r, 50)) { int l2 = 1 + (int)pick(r, 19); rec(" [frame%d level=%d]", k, l2); TRY(ZSTD_CCtx_setParameter(c, ZSTD_c_compressionLevel, l2)); }
            if (k > 0 && chance(r, 20)) { rec(" [reset session]"); TRY(ZSTD_CCtx_reset(c, ZSTD_reset_session_only)); }
            if (k > 0 && chance(r, 40)) { g_noDictID = !g_noDictID; rec(" [frame%d dictIDFlag=%d]", k, !g_noDictID); TRY(ZSTD_CCtx_setParameter(c, ZSTD_c_dictIDFlag, !g_noDictID)); }
            if (chance(r, 40)) { rec(" [pledge]"); TRY(ZSTD_CCtx_setPledgedSrcSize(c, len)); }
            TRY(stream_frame(r, c, out, cap, &op, X + xo, len));
            g_fr[k].off = before; g_fr[k].size = op - before; g_fr[k].xoff = xo; g_fr[k].xsize = len; g_fr[k].noHeader = 0; g_fr[k].noid = g_noDictID;
            g_fr[k].kind = (how == 1 && k > 0) ? K_NONE : kind;      /* a prefix serves one frame */
            xo += len; }
        ret = op; goto done_multi; }
    case 8: { int how = pick(r, 6); int lvl = 1 + (int)pick(r, 19); ZSTD_inBuffer ib; ZSTD_outBuffer ob; size_t e;
        if (how >= 4) {   /* the deprecated buffered API (lib/deprecated/zbuff_compress.c) */
            size_t ipos = 0;
            if (how == 4) { rec("ZBUFF_compressInitDictionary(L%d)", lvl); TRY(ZBUFF_compressInitDictionary(c, D, DN, lvl)); }
            else { ZSTD_parameters p = ZSTD_getParams(lvl, 0, DN); p.fParams.noDictIDFlag = chance(r, 40); g_noDictID = p.fParams.noDictIDFlag; p.fParams.checksumFlag = chance(r, 40); p.fParams.contentSizeFlag = chance(r, 50);
                rec("ZBUFF_compressInit_advanced(L%d,noid=%d)", lvl, g_noDictID); TRY(ZBUFF_compressInit_advanced(c, D, DN, p, chance(r, 50) ? XN : 0)); }
            kind = kind_of(0);
            while (ipos < XN) { size_t dl = cap - op, sl = XN - ipos; if (sl > 30000) sl = 1 + pick(r, 30000); TRY(ZBUFF_compressContinue(c, out + op, &dl, X + ipos, &sl)); op += dl; ipos += sl; }
            {   size_t dl = cap - op; e = ZBUFF_compressEnd(c, out + op, &dl); TRY(e); op += dl; if (e != 0) DONE((size_t)-ZSTD_error_dstSize_tooSmall); }
            ret = op; break; }
        if (how == 0) { rec("initCStream_usingDict(L%d)", lvl); TRY(ZSTD_initCStream_usingDict(c, D, DN, lvl)); kind = kind_of(0); }
        else if (how == 1) { cd = make_cdict(r, &kind); if (!cd) DONE(g_refused ? (size_t)-ZSTD_error_dictionary_corrupted : SKIP); rec(" initCStream_usingCDict"); TRY(ZSTD_initCStream_usingCDict(c, cd)); }
        else if (how == 2) { ZSTD_frameParameters fp; fp.contentSizeFlag = chance(r, 70); fp.checksumFlag = chance(r, 40); fp.noDictIDFlag = chance(r, 25); g_noDictID = fp.noDictIDFlag;
            cd = make_cdict(r, &kind); if (!cd) DONE(g_refused ? (size_t)-ZSTD_error_dictionary_corrupted : SKIP);
            rec(" initCStream_usingCDict_advanced(noid=%d)", g_noDictID); TRY(ZSTD_initCStream_usingCDict_advanced(c, cd, fp, chance(r, 50) ? XN : ZSTD_CONTENTSIZE_UNKNOWN)); }
        else { ZSTD_parameters p = ZSTD_getParams(lvl, 0, DN); p.fParams.noDictIDFlag = chance(r, 25); g_noDictID = p.fParams.noDictIDFlag; p.fParams.contentSizeFlag = chance(r, 50);
            rec("initCStream_advanced(L%d,noid=%d)", lvl, g_noDictID); TRY(ZSTD_initCStream_advanced(c, D, DN, p, chance(r, 50) ? XN : ZSTD_CONTENTSIZE_UNKNOWN)); kind = kind_of(0); }
        ib.src = X; ib.size = XN; ib.pos = 0; ob.dst = out; ob.size = cap; ob.pos = 0;
        while (ib.pos < ib.size) { e = ZSTD_compressStream(c, &ob, &ib); TRY(e); }
        e = ZSTD_endStream(c, &ob); TRY(e); if (e != 0) DONE((size_t)-ZSTD_error_dstSize_tooSmall);
        ret = op = ob.pos; break; }
    case 9: { /* a CDict made for one context's parameters, then used by a second frame at other parameters, one-shot */
        rec("compress2 x2;"); if (rand_params(r, set_cctx, c, 0, 0) == SKIP) DONE(SKIP);
        rec(" loadDictionary"); TRY(ZSTD_CCtx_loadDictionary(c, D, DN)); kind = kind_of(0);
        {   size_t h = XN / 2; size_t a = ZSTD_compress2(c, out, cap, X, h), b; int const noid0 = g_noDictID; TRY(a);
            rec(" | second frame:"); if (chance(r, 70)) { if (rand_params(r, set_cctx, c, 0, 0) == SKIP) DONE(SKIP); }
            if (chance(r, 50)) { g_noDictID = !noid0; rec(" dictIDFlag=%d", !g_noDictID); TRY(ZSTD_CCtx_setParameter(c, ZSTD_c_dictIDFlag, !g_noDictID)); }
            g_fr[0].noid = noid0; g_fr[1].noid = g_noDictID;
            b = ZSTD_compress2(c, out + a, cap - a, X + h, XN - h); TRY(b);
            g_nfr = 2; g_fr[0].off = 0; g_fr[0].size = a; g_fr[0].xoff = 0; g_fr[0].xsize = h; g_fr[0].kind = kind; g_fr[0].noHeader = 0;
            g_fr[1].off = a; g_fr[1].size = b; g_fr[1].xoff = h; g_fr[1].xsize = XN - h; g_fr[1].kind = kind; g_fr[1].noHeader = 0;
            ret = a + b; goto done_multi; } }
    case 10: { /* block API : no frame header, the caller carries sizes */
        int lvl = 1 + (int)pick(r, 19); size_t bs, ipos = 0; int nb = 0;
        if (chance(r, 50)) { rec("block-API compressBegin_usingDict(L%d)", lvl); TRY(ZSTD_compressBegin_usingDict(c, D, DN, lvl)); kind = kind_of(0); }
        else { cd = make_cdict(r, &kind); if (!cd) DONE(g_refused ? (size_t)-ZSTD_error_dictionary_corrupted : SKIP); rec(" block-API compressBegin_usingCDict"); TRY(ZSTD_compressBegin_usingCDict(c, cd)); }
        bs = ZSTD_getBlockSize(c); if (chance(r, 50)) bs = 1 + pick(r, (unsigned)bs);
        /* layout: [u32 srcLen][u32 cLen (0 = stored raw)] payload ... */
        while (ipos < XN) { size_t len = XN - ipos < bs ? XN - ipos : bs; size_t w;
            if (cap - op < len + 8) DONE((size_t)-ZSTD_error_dstSize_tooSmall);
            w = ZSTD_compressBlock(c, out + op + 8, cap - op - 8, X + ipos, len); TRY(w);
            if (w == 0) { memcpy(out + op + 8, X + ipos, len); }
            { unsigned a = (unsigned)len, b = (unsigned)w; memcpy(out + op, &a, 4); memcpy(out + op + 4, &b, 4); }
            op += 8 + (w ? w : len); ipos += len; nb++; }
        rec(" blocks=%d bs=%lu", nb, (unsigned long)bs);
        g_fr[0].noHeader = 1; ret = op; break; }
    default: { /* 11: parameters through ZSTD_CCtx_params */
        ZSTD_CCtx_params* p = ZSTD_createCCtxParams(); size_t e; rec("setParametersUsingCCtxParams("); e = rand_params(r, set_params, p, 0, 0); rec(")");
        if (e == SKIP) { ZSTD_freeCCtxParams(p); DONE(SKIP); }
        e = ZSTD_CCtx_setParametersUsingCCtxParams(c, p); ZSTD_freeCCtxParams(p); TRY(e);
        if (chance(r, 50)) { rec(" loadDictionary"); TRY(ZSTD_CCtx_loadDictionary(c, D, DN)); kind = kind_of(0); }
        else { cd = make_cdict(r, &kind); if (!cd) DONE(g_refused ? (size_t)-ZSTD_error_dictionary_corrupted : SKIP); rec(" refCDict"); TRY(ZSTD_CCtx_refCDict(c, cd)); }
        ret = ZSTD_compress2(c, out, cap, X, XN); op = ret; break; }
    }
    g_fr[0].size = op; g_fr[0].kind = kind; g_fr[0].noid = g_noDictID;
done_multi:
done:
    if (!useStatic) ZSTD_freeCCtx(c);
    return ret;
#undef DONE
#undef TRY
}

/* ---- decoding recipes ---- */
#define NDMODES 13
static const char* const DM[NDMODES] = { "usingDict", "usingDDict", "loadDictionary", "refDDict", "refPrefix", "multiDDict", "stream-initDStream_usingDict",
                                         "stream-DDict", "bufferless-usingDict", "bufferless-usingDDict", "stream-loadDictionary-smallchunks", "staticDDict", "ZBUFF_decompressInitDictionary" };
/* decode frame f (fn bytes) into out with dictionary bytes d/dn treated as `kind` ; returns size or error ; SKIP when the mode cannot express the kind */
static size_t do_decode(rng_t* r, int mode, int kind, const unsigned char* d, size_t dn, const unsigned char* f, size_t fn, unsigned char* out, size_t cap) {
    ZSTD_DCtx* dc = ZSTD_createDCtx(); ZSTD_DDict* dd = NULL; ZSTD_DDict* decoys[80]; int nd = 0; size_t ret = SKIP; void* sws = NULL;
    int rawNeedsType = (kind == K_RAW) && is_fmt(d, dn);   /* formatted-looking bytes that must be taken as content */
    ZSTD_dictContentType_e t = (kind == K_RAW && (rawNeedsType || chance(r, 50))) ? ZSTD_dct_rawContent : (kind == K_FMT && chance(r, 40)) ? ZSTD_dct_fullDict : ZSTD_dct_auto;
    int dlm = pick(r, 2);
    if (kind == K_NONE) { d = NULL; dn = 0; t = ZSTD_dct_auto; }
#define MKDD() do { dd = (t == ZSTD_dct_auto && chance(r, 50)) ? (dlm ? ZSTD_createDDict_byReference(d, dn) : ZSTD_createDDict(d, dn)) : ZSTD_createDDict_advanced(d, dn, (ZSTD_dictLoadMethod_e)dlm, t, ZSTD_defaultCMem); \
                    if (!dd) { ret = (size_t)-ZSTD_error_dictionary_corrupted; goto out; } } while (0)
#define TRY(e) do { size_t e_ = (e); if (ZSTD_isError(e_)) { ret = e_; goto out; } } while (0)
    switch (mode) {
    case 0: if (rawNeedsType) break; ret = ZSTD_decompress_usingDict(dc, out, cap, f, fn, d, dn); break;
    case 1: MKDD(); ret = ZSTD_decompress_usingDDict(dc, out, cap, f, fn, dd); break;
    case 2: if (t == ZSTD_dct_auto && chance(r, 50)) TRY(dlm ? ZSTD_DCtx_loadDictionary_byReference(dc, d, dn) : ZSTD_DCtx_loadDictionary(dc, d, dn));
            else TRY(ZSTD_DCtx_loadDictionary_advanced(dc, d, dn, (ZSTD_dictLoadMethod_e)dlm, t));
            ret = ZSTD_decompressDCtx(dc, out, cap, f, fn); break;
    case 3: MKDD(); TRY(ZSTD_DCtx_refDDict(dc, dd)); ret = ZSTD_decompressDCtx(dc, out, cap, f, fn); break;
    case 4: if (kind == K_RAW && !rawNeedsType && chance(r, 50)) TRY(ZSTD_DCtx_refPrefix(dc, d, dn));
            else if (kind == K_RAW) TRY(ZSTD_DCtx_refPrefix_advanced(dc, d, dn, ZSTD_dct_rawContent));
            else TRY(ZSTD_DCtx_refPrefix_advanced(dc, d, dn, t));
            ret = ZSTD_decompressDCtx(dc, out, cap, f, fn); break;
    case 5: { /* table of DDicts: decoys with other IDs (same tables, other content), the right one somewhere, a decoy or the right one active */
        unsigned fid = ZSTD_getDictID_fromFrame(f, fn); int n = 1 + (int)pick(r, chance(r, 20) ? 78 : 6), pos, k, how = pick(r, 3);
        if (kind != K_FMT) break;
        MKDD(); TRY(ZSTD_DCtx_setParameter(dc, ZSTD_d_refMultipleDDicts, ZSTD_rmd_refMultipleDDicts));
        pos = pick(r, (unsigned)n + 1);
        for (k = 0; k <= n; k++) {
            if (k == pos) { TRY(ZSTD_DCtx_refDDict(dc, dd)); continue; }
            {   unsigned char* d2 = (unsigned char*)malloc(dn); unsigned id2 = g_id + 1 + (unsigned)k * (1 + pick(r, 3)) + (chance(r, 30) ? rnd(r) : 0); size_t i;
                if (id2 == g_id || id2 == 0) id2 = g_id ^ 0x40000000u; if (id2 == 0) id2 = 5;
                memcpy(d2, d, dn); d2[4] = (unsigned char)id2; d2[5] = (unsigned char)(id2 >> 8); d2[6] = (unsigned char)(id2 >> 16); d2[7] = (unsigned char)(id2 >> 24);
                for (i = dn - (dn > 64 ? 32 : 0); i < dn; i++) d2[i] ^= 0xA5;
                decoys[nd] = ZSTD_createDDict(d2, dn); free(d2);
                if (decoys[nd]) { TRY(ZSTD_DCtx_refDDict(dc, decoys[nd])); nd++; } } }
        if (fid == 0 || chance(r, 30)) TRY(ZSTD_DCtx_refDDict(dc, dd));     /* a frame that names no dictionary is served by the active one */
        if (how == 0) ret = ZSTD_decompressDCtx(dc, out, cap, f, fn);
        else if (how == 1) ret = ZSTD_decompress_usingDDict(dc, out, cap, f, fn, (nd && fid) ? decoys[pick(r, (unsigned)nd)] : dd);
        else { ZSTD_inBuffer ib; ZSTD_outBuffer ob; size_t e = 1; ib.src = f; ib.size = fn; ib.pos = 0; ob.dst = out; ob.size = cap; ob.pos = 0;
            while (ib.pos < ib.size) { size_t b = ib.pos + ob.pos; e = ZSTD_decompressStream(dc, &ob, &ib); TRY(e); if (ib.pos + ob.pos == b) break; }
            ret = e ? (size_t)-ZSTD_error_srcSize_wrong : ob.pos; }
        break; }
    case 6: case 7: case 10: { ZSTD_inBuffer ib; ZSTD_outBuffer ob; size_t e = 1, ipos = 0, opos = 0; int guard = 0;
        if (mode == 6) { if (rawNeedsType) break; TRY(ZSTD_initDStream_usingDict(dc, d, dn)); }
        else if (mode == 7) { MKDD(); TRY(ZSTD_initDStream_usingDDict(dc, dd)); }
        else { TRY(ZSTD_DCtx_loadDictionary_advanced(dc, d, dn, (ZSTD_dictLoadMethod_e)dlm, t)); }
        while (ipos < fn && ++guard < 3000000) { size_t il = mode == 10 ? (1 + pick(r, 7)) * (1 + fn / 20000) : 1 + pick(r, 3000), ol = mode == 10 ? 1 + pick(r, 300) : 1 + pick(r, 100000);
            if (il > fn - ipos) il = fn - ipos; if (ol > cap - opos) ol = cap - opos;
            ib.src = f + ipos; ib.size = il; ib.pos = 0; ob.dst = out + opos; ob.size = ol; ob.pos = 0;
            e = ZSTD_decompressStream(dc, &ob, &ib); TRY(e); ipos += ib.pos; opos += ob.pos;
            if (ib.pos == 0 && ob.pos == 0 && ol == 0) { ret = (size_t)-ZSTD_error_dstSize_tooSmall; goto out; } }
        while (e != 0 && ++guard < 3000000) { size_t ol = cap - opos; ib.src = f + fn; ib.size = 0; ib.pos = 0; ob.dst = out + opos; ob.size = ol; ob.pos = 0;
            e = ZSTD_decompressStream(dc, &ob, &ib); TRY(e); opos += ob.pos; if (ob.pos == 0) break; }
        ret = e ? (size_t)-ZSTD_error_srcSize_wrong : opos; break; }
    case 8: case 9: { size_t ipos = 0, opos = 0;
        if (mode == 8) { if (rawNeedsType) break; TRY(ZSTD_decompressBegin_usingDict(dc, d, dn)); } else { MKDD(); TRY(ZSTD_decompressBegin_usingDDict(dc, dd)); }
        for (;;) { size_t need = ZSTD_nextSrcSizeToDecompress(dc), w; if (need == 0) break;
            if (need > fn - ipos) { ret = (size_t)-ZSTD_error_srcSize_wrong; goto out; }
            w = ZSTD_decompressContinue(dc, out + opos, cap - opos, f + ipos, need); TRY(w); ipos += need; opos += w; }
        ret = (ipos == fn) ? opos : (size_t)-ZSTD_error_srcSize_wrong; break; }
    case 12: { size_t ipos = 0, opos = 0, e = 1; int guard = 0;
        if (rawNeedsType) break;
        TRY(ZBUFF_decompressInitDictionary(dc, d, dn));
        while (++guard < 1000000) { size_t dl = cap - opos, sl = fn - ipos; if (sl > 5000) sl = 1 + pick(r, 5000);
            e = ZBUFF_decompressContinue(dc, out + opos, &dl, f + ipos, &sl); TRY(e); opos += dl; ipos += sl;
            if (e == 0 || (sl == 0 && dl == 0)) break; }
        ret = (e == 0 && ipos == fn) ? opos : (size_t)-ZSTD_error_srcSize_wrong; break; }
    default: { size_t ws = ZSTD_estimateDDictSize(dn, (ZSTD_dictLoadMethod_e)dlm); const ZSTD_DDict* sd; sws = malloc(ws + 8);
        if (d == NULL) d = (const unsigned char*)"";     /* ZSTD_initStaticDDict asserts dict != NULL */
        sd = ZSTD_initStaticDDict(sws, ws, d, dn, (ZSTD_dictLoadMethod_e)dlm, t);
        if (!sd) { ret = (size_t)-ZSTD_error_dictionary_corrupted; break; }
        ret = ZSTD_decompress_usingDDict(dc, out, cap, f, fn, sd); break; }
    }
out:
    ZSTD_freeDCtx(dc); ZSTD_freeDDict(dd); while (nd > 0) ZSTD_freeDDict(decoys[--nd]); free(sws);
    return ret;
#undef TRY
#undef MKDD
}

/* block-API decode */
static size_t decode_blocks(rng_t* r, int kind, const unsigned char* f, size_t fn, unsigned char* out, size_t cap) {
    ZSTD_DCtx* dc = ZSTD_createDCtx(); size_t ip = 0, op = 0, ret; ZSTD_DDict* dd = NULL;
    if (kind == K_RAW && is_fmt(D, DN)) { ZSTD_freeDCtx(dc); return SKIP; }
    if (chance(r, 50)) ret = ZSTD_decompressBegin_usingDict(dc, D, DN); else { dd = ZSTD_createDDict(D, DN); ret = dd ? ZSTD_decompressBegin_usingDDict(dc, dd) : (size_t)-ZSTD_error_dictionary_corrupted; }
    while (!ZSTD_isError(ret) && ip < fn) { unsigned a, b; memcpy(&a, f + ip, 4); memcpy(&b, f + ip + 4, 4); ip += 8;
        if (a > cap - op) { ret = (size_t)-ZSTD_error_dstSize_tooSmall; break; }
        if (b == 0) { memcpy(out + op, f + ip, a); ret = ZSTD_insertBlock(dc, out + op, a); ip += a; if (!ZSTD_isError(ret)) ret = a; }
        else { ret = ZSTD_decompressBlock(dc, out + op, cap - op, f + ip, b); ip += b; if (!ZSTD_isError(ret) && ret != a) ret = (size_t)-ZSTD_error_corruption_detected; }
        if (!ZSTD_isError(ret)) op += a; }
    ZSTD_freeDCtx(dc); ZSTD_freeDDict(dd);
    return ZSTD_isError(ret) ? ret : op;
}

static unsigned char *g_out, *g_dec, *g_big; static size_t g_cap, g_bigN; static int g_lastok;

static int run_one(uint64_t seed, unsigned k, const unsigned char* X, size_t XN, int flags, int* frames, int* refused, int* skipped) {
    rng_t r; size_t cs; int fi, m; const unsigned char* in = X; size_t n = XN; int allowMT = flags & 1;
    r.s = seed * 0x9E3779B97F4A7C15ull + (uint64_t)k * 0xD1B54A32D192ED03ull + 88172645463325252ull; rnd(&r); rnd(&r);
    g_rl = 0; g_recipe[0] = 0; g_what[0] = 0; g_refused = 0; g_usedFull = 0; g_cd = NULL; g_cdws = NULL; g_ccws = NULL;
    if (allowMT && g_bigN) { in = g_big; n = g_bigN; }
    g_lastok = 0;
    g_cdictIdBad = 0;
    cs = do_compress(&r, g_out, g_cap, in, n, allowMT);
    if (g_cdictIdBad) return fail("ZSTD_getDictID_fromCDict reports %u for a dictionary of ID %u", g_cdictIdGot, g_id);
    if (cs == SKIP) { (*skipped)++; goto ok; }
    if (ZSTD_isError(cs)) {
        int c = (int)ZSTD_getErrorCode(cs);
        /* a dictionary refused: legitimate for hostile bytes, and for ZSTD_dct_fullDict on bytes that are not a formatted dictionary */
        if ((c == ZSTD_error_dictionary_corrupted || c == ZSTD_error_dictionary_wrong) && (g_hostile || (g_usedFull && !g_isfmt))) { (*refused)++; goto ok; }
        if (c == ZSTD_error_memory_allocation && (g_hostile || (g_usedFull && !g_isfmt))) { (*refused)++; goto ok; }     /* ZSTD_initLocalDict reports a refused dictionary this way */
        return fail("compression failed: %s", ename(cs));
    }
    if (!g_isfmt && g_usedFull && DN > 0) {
        /* dct_fullDict on bytes that are not a formatted dictionary must be refused, not silently used as content */
        return fail("ZSTD_dct_fullDict accepted bytes that are not a formatted dictionary");
    }
    for (fi = 0; fi < g_nfr; fi++) {
        frame_t* fr = &g_fr[fi]; const unsigned char* f = g_out + fr->off; const unsigned char* want = in + fr->xoff;
        (*frames)++;
        if (fr->noHeader) {
            size_t ds = decode_blocks(&r, fr->kind, f, fr->size, g_dec, n + 64);
            if (ds == SKIP) continue;
            if (ZSTD_isError(ds)) return fail("block-API decode failed: %s", ename(ds));
            if (ds != fr->xsize || memcmp(g_dec, want, ds)) return fail("block-API decode gives different bytes");
            continue;
        }
        {   unsigned fid = ZSTD_getDictID_fromFrame(f, fr->size); unsigned wantid = (fr->kind == K_FMT && !fr->noid) ? g_id : 0;
            if (fr->wantID != 0xFFFFFFFFu && fid != wantid && !g_mt) return fail("frame %d records dictID %u, expected %u", fi, fid, wantid);
            if (g_mt && fid != wantid) return fail("multithreaded frame %d records dictID %u, expected %u", fi, fid, wantid);
            for (m = 0; m < NDMODES; m++) {
                size_t ds = do_decode(&r, m, fr->kind, D, DN, f, fr->size, g_dec, fr->xsize + 64);
                if (ds == SKIP) continue;
                if (ZSTD_isError(ds)) {
                    if (g_hostile && ZSTD_getErrorCode(ds) == ZSTD_error_dictionary_corrupted) return fail("loader disagreement: the compressor accepted this dictionary, decoding path %s refuses it", DM[m]);
                    return fail("frame %d (kind %d) decode via %s failed: %s", fi, fr->kind, DM[m], ename(ds)); }
                if (ds != fr->xsize || memcmp(g_dec, want, ds)) return fail("frame %d (kind %d) decode via %s gives different bytes", fi, fr->kind, DM[m]);
            }
            if (fr->kind == K_NONE) {   /* served by no dictionary: plain decode */
                size_t ds = ZSTD_decompress(g_dec, fr->xsize + 64, f, fr->size);
                if (ZSTD_isError(ds) || ds != fr->xsize || memcmp(g_dec, want, ds)) return fail("frame %d after a single-use prefix does not decode without dictionary", fi);
            }
            if (fid != 0 && DN > 8) {   /* another dictionary (other ID, other content) on every path */
                unsigned char* d2 = (unsigned char*)malloc(DN); size_t i; unsigned id2 = fid ^ (1u << pick(&r, 32)); if (id2 == 0) id2 = fid + 1;
                memcpy(d2, D, DN); d2[4] = (unsigned char)id2; d2[5] = (unsigned char)(id2 >> 8); d2[6] = (unsigned char)(id2 >> 16); d2[7] = (unsigned char)(id2 >> 24);
                for (i = DN - (DN > 64 ? 32 : 0); i < DN; i++) d2[i] ^= 0x5A;
                for (m = 0; m < NDMODES; m++) { size_t ds;
                    if (m == 5) continue;
                    ds = do_decode(&r, m, K_FMT, d2, DN, f, fr->size, g_dec, fr->xsize + 64);
                    if (ds == SKIP) continue;
                    if (!ZSTD_isError(ds)) { free(d2); return fail("frame naming dictID %u accepted with a dictionary of ID %u via %s", fid, id2, DM[m]); }
                }
                {   size_t ds = ZSTD_decompress(g_dec, fr->xsize + 64, f, fr->size);
                    if (!ZSTD_isError(ds)) { free(d2); return fail("frame naming dictID %u accepted without any dictionary", fid); } }
                free(d2);
            }
        }
    }
    g_lastok = 1;
ok:
    if (g_cd) ZSTD_freeCDict(g_cd); free(g_cdws); free(g_ccws); g_cd = NULL; g_cdws = g_ccws = NULL;
    return 0;
}

static void cmd_R(char** t) {
    uint64_t seed = strtoull(t[2], NULL, 10); unsigned first = (unsigned)strtoul(t[3], NULL, 10), count = (unsigned)strtoul(t[4], NULL, 10), k; int flags = atoi(t[5]);
    size_t dn, xn; unsigned char* d = unhex(t[6], &dn); unsigned char* x = unhex(t[7], &xn);
    int frames = 0, refused = 0, skipped = 0, ran = 0, lastkind = -1; size_t lastxoff = 0, lastxsize = 0, lastsize = 0; unsigned char* lastbuf = NULL;
    D = d; DN = dn; g_isfmt = is_fmt(d, dn); g_id = g_isfmt ? rdid(d) : 0; g_hostile = (flags >> 1) & 1;
    {   /* loader verdicts: both sides must agree ; a refused dictionary is exercised as hostile bytes */
        ZSTD_CDict* cd = ZSTD_createCDict(d, dn, 3); ZSTD_DDict* dd = ZSTD_createDDict(d, dn); int cok = cd != NULL, dok = dd != NULL;
        ZSTD_freeCDict(cd); ZSTD_freeDDict(dd);
        if (cok != dok) { printf("%s FAIL k=0 what=loader_disagreement:_ZSTD_createCDict_%s,_ZSTD_createDDict_%s recipe=-\n", t[1], cok ? "accepts" : "refuses", dok ? "accepts" : "refuses"); free(d); free(x); return; }
        if (!cok) g_hostile = 1;
        if (g_isfmt && dn > 8) {   /* ZDICT_getDictHeaderSize parses the same header: same verdict, and a size inside the buffer that leaves the content */
            size_t const hs = ZDICT_getDictHeaderSize(d, dn);
            if ((ZDICT_isError(hs) != 0) != (cok == 0) || (!ZDICT_isError(hs) && (hs > dn || hs < 8 + 12))) {
                printf("%s FAIL k=0 what=ZDICT_getDictHeaderSize_%s_(%lu_of_%lu_bytes)_while_ZSTD_createCDict_%s recipe=-\n", t[1], ZDICT_isError(hs) ? "refuses" : "accepts",
                       (unsigned long)hs, (unsigned long)dn, cok ? "accepts" : "refuses"); free(d); free(x); return; } }
        for (k = 0; k < dn; k++) seed = (seed ^ d[k]) * 0x100000001B3ull;     /* recipes differ from one dictionary to the next */
    }
    g_bigN = 0;
    if (flags & 1) { size_t i; uint64_t s = seed | 1; g_bigN = 1400000; g_big = (unsigned char*)malloc(g_bigN);
        for (i = 0; i < g_bigN; ) { size_t len; s = s * 6364136223846793005ull + 1442695040888963407ull;
            if (((s >> 40) & 3) == 0 && dn > 16) { size_t a = (size_t)((s >> 20) % (dn - 8)); len = 8 + (size_t)((s >> 45) % 300); if (len > dn - a) len = dn - a; if (len > g_bigN - i) len = g_bigN - i; memcpy(g_big + i, d + a, len); }
            else if (xn > 8) { size_t a = (size_t)((s >> 20) % (xn - 4)); len = 4 + (size_t)((s >> 45) % 200); if (len > xn - a) len = xn - a; if (len > g_bigN - i) len = g_bigN - i; memcpy(g_big + i, x + a, len); }
            else { len = 1; g_big[i] = (unsigned char)(s >> 33); }
            i += len; } }
    g_cap = ZSTD_compressBound((g_bigN ? g_bigN : xn)) * 2 + 65536 + 8 * ((g_bigN ? g_bigN : xn) + 1);
    g_out = (unsigned char*)malloc(g_cap); g_dec = (unsigned char*)malloc((g_bigN ? g_bigN : xn) + 128);
    for (k = first; k < first + count; k++) {
        int i; for (i = 0; i < MAXFR; i++) g_fr[i].wantID = 0;
        if (run_one(seed, k, x, xn, flags, &frames, &refused, &skipped) != 0) {
            printf("%s FAIL k=%u what=", t[1], k); { const char* p; for (p = g_what; *p; p++) putchar(*p == ' ' ? '_' : *p); }
            printf(" recipe="); { const char* p; for (p = g_recipe; *p; p++) putchar(*p == ' ' ? '_' : *p); } putchar('\n');
            goto end; }
        ran++;
        if (getenv("C08_DEBUG")) fprintf(stderr, "k=%u %s\n", k, g_recipe);
        if ((flags & 4) && !(flags & 1) && g_lastok && g_nfr > 0 && !g_fr[g_nfr - 1].noHeader) { frame_t* fr = &g_fr[g_nfr - 1];
            free(lastbuf); lastbuf = (unsigned char*)malloc(fr->size + 1); memcpy(lastbuf, g_out + fr->off, fr->size); lastkind = fr->kind; lastsize = fr->size; lastxoff = fr->xoff; lastxsize = fr->xsize; }
    }
    printf("%s OK ran=%d frames=%d refused=%d skipped=%d", t[1], ran, frames, refused, skipped);
    if (lastkind >= 0) { printf(" frame=%d:%lu:%lu:", lastkind, (unsigned long)lastxoff, (unsigned long)lastxsize); puthex(lastbuf, lastsize); }
    putchar('\n');
end:
    free(lastbuf); free(d); free(x); free(g_out); free(g_dec); if (g_bigN) free(g_big);
}

static void cmd_T(char** t, int nt) {
    const char* id = t[1]; char mode[32]; int active = 0; const char* p; size_t fn; unsigned char* f = unhex(t[3], &fn);
    unsigned char* ds[8]; size_t dn[8]; int ndict = 0, i; ZSTD_DDict* dd[64]; int eidx[64], eraw[64]; int ne = 0; int local = 0; ZSTD_DCtx* dc = ZSTD_createDCtx(); size_t r = 0; size_t cap = 1 << 22; unsigned char* out = (unsigned char*)malloc(cap);
    for (i = 4; i < nt && ndict < 8; i++) { ds[ndict] = unhex(t[i], &dn[ndict]); ndict++; }
    sscanf(t[2], "%31[^:]:%d", mode, &active); p = strchr(t[2], ':'); p = p ? strchr(p + 1, ':') : NULL; p = p ? p + 1 : "";
    r = ZSTD_DCtx_setParameter(dc, ZSTD_d_refMultipleDDicts, ZSTD_rmd_refMultipleDDicts);
    while (*p && ne < 64 && !ZSTD_isError(r)) { int raw = 0, idx; if (*p == 'r') { raw = 1; p++; } idx = atoi(p); while (*p && *p != ',') p++; if (*p == ',') p++;
        if (idx < 0 || idx >= ndict) continue;
        dd[ne] = raw ? ZSTD_createDDict_advanced(ds[idx], dn[idx], ZSTD_dlm_byCopy, ZSTD_dct_rawContent, ZSTD_defaultCMem) : ZSTD_createDDict(ds[idx], dn[idx]);
        if (!dd[ne]) { r = (size_t)-ZSTD_error_dictionary_corrupted; break; }
        eidx[ne] = idx; eraw[ne] = raw;
        r = ZSTD_DCtx_refDDict(dc, dd[ne]); ne++; }
    /* modes "ldctx" / "lstream" (round 3, fix d0ddbff): the current dictionary is the COPY made by ZSTD_DCtx_loadDictionary of entry <active>'s bytes,
     * not a referenced DDict: the selection among the referenced DDicts must leave it alone */
    if (mode[0] == 'l') { local = 1; memmove(mode, mode + 1, strlen(mode)); }
    if (!ZSTD_isError(r) && active >= 0 && active < ne)
        r = local ? ZSTD_DCtx_loadDictionary_advanced(dc, ds[eidx[active]], dn[eidx[active]], ZSTD_dlm_byCopy, eraw[active] ? ZSTD_dct_rawContent : ZSTD_dct_auto)
                  : ZSTD_DCtx_refDDict(dc, dd[active]);
    if (!ZSTD_isError(r)) {
        if (!strcmp(mode, "dctx")) r = ZSTD_decompressDCtx(dc, out, cap, f, fn);
        else if (!strcmp(mode, "usingddict")) r = ZSTD_decompress_usingDDict(dc, out, cap, f, fn, dd[active >= 0 && active < ne ? active : 0]);
        else { ZSTD_inBuffer ib; ZSTD_outBuffer ob; size_t e = 1; ib.src = f; ib.size = fn; ib.pos = 0; ob.dst = out; ob.size = cap; ob.pos = 0;
            while (ib.pos < ib.size) { size_t b = ib.pos + ob.pos; e = ZSTD_decompressStream(dc, &ob, &ib); if (ZSTD_isError(e) || ib.pos + ob.pos == b) break; }
            r = ZSTD_isError(e) ? e : e ? (size_t)-ZSTD_error_srcSize_wrong : ob.pos; } }
    if (ZSTD_isError(r)) { const char* e = ename(r); printf("%s ERR ", id); for (; *e; e++) putchar(*e == ' ' ? '_' : *e); putchar('\n'); }
    else { printf("%s OK ", id); puthex(out, r); putchar('\n'); }
    ZSTD_freeDCtx(dc); for (i = 0; i < ne; i++) ZSTD_freeDDict(dd[i]); for (i = 0; i < ndict; i++) free(ds[i]); free(f); free(out);
}

/* B <id> <headerhex> <contentSize> <level> <rep1|0=contentSize> : formatted dictionary = header (its first repeat offset replaced) + contentSize generated
 * bytes ; CDict at <level> used by attachment on a small source (ZSTD_compress_usingCDict), decoded with a DDict -> <id> OK | <id> ERR <what> */
static void cmd_B(char** t) {
    size_t hn; unsigned char* hdr = unhex(t[2], &hn); size_t cn = (size_t)strtoull(t[3], NULL, 10); int lvl = atoi(t[4]); unsigned rep = (unsigned)strtoul(t[5], NULL, 10);
    size_t dn = hn + cn, i; unsigned char* d = (unsigned char*)malloc(dn); unsigned s = 1; static unsigned char src[6000], out[20000], dec[6000]; size_t r, fs;
    ZSTD_CDict* cd; ZSTD_DDict* dd; ZSTD_CCtx* c = ZSTD_createCCtx(); ZSTD_DCtx* dc = ZSTD_createDCtx();
    memcpy(d, hdr, hn);
    for (i = hn; i < dn; i++) { s = s * 1103515245 + 12345; d[i] = (unsigned char)("abcdefgh ijklmnop"[(s >> 16) % 17]); }
    { unsigned v = rep ? rep : (unsigned)cn; memcpy(d + hn - 12, &v, 4); }
    memcpy(src, d + hn, 3000); for (i = 3000; i < sizeof src; i++) { s = s * 1103515245 + 12345; src[i] = (unsigned char)("abcdefgh ijklmnop"[(s >> 16) % 17]); }
    memcpy(src + 4000, d + dn - 5000, 1000);
    cd = ZSTD_createCDict(d, dn, lvl); dd = ZSTD_createDDict(d, dn);
    if ((cd != NULL) != (dd != NULL)) printf("%s ERR loader_disagreement_cdict=%d_ddict=%d\n", t[1], cd != NULL, dd != NULL);
    else if (!cd) printf("%s OK refused\n", t[1]);
    else { fflush(stdout); fs = ZSTD_compress_usingCDict(c, out, sizeof out, src, sizeof src, cd);
        if (ZSTD_isError(fs)) printf("%s ERR compress_%s\n", t[1], ZSTD_getErrorName(fs));
        else { r = ZSTD_decompress_usingDDict(dc, dec, sizeof dec, out, fs, dd);
            if (ZSTD_isError(r)) printf("%s ERR decode_failed\n", t[1]); else if (r != sizeof src || memcmp(dec, src, r)) printf("%s ERR decoded_bytes_differ\n", t[1]); else printf("%s OK %lu\n", t[1], (unsigned long)fs); } }
    ZSTD_freeCDict(cd); ZSTD_freeDDict(dd); ZSTD_freeCCtx(c); ZSTD_freeDCtx(dc); free(d); free(hdr);
}

/* H <id> <dicthex> <ops> <inputhex> : a history of dictionary-related calls on ONE compression context (the op alphabet of
 * coq/Codec/C08DictId.v): f0 f1 = ZSTD_c_dictIDFlag ; L = ZSTD_CCtx_loadDictionary ; Lr = _advanced(rawContent) ; C0 C1 = ZSTD_CCtx_refCDict of a
 * CDict made by ZSTD_createCDict_advanced2 with dictIDFlag 0 / 1 in its parameters ; P = ZSTD_CCtx_refPrefix_advanced(fullDict) ; Pr = refPrefix
 * (raw) ; U = loadDictionary(NULL) ; X = one frame (ZSTD_compress2), decoded back with the dictionary in force.
 * -> <id> OK <dictID of frame 1>,<dictID of frame 2>,...   |  <id> ERR <what> */
static void cmd_H(char** t) {
    size_t dn, xn; unsigned char* d = unhex(t[2], &dn); unsigned char* x = unhex(t[4], &xn); const char* p = t[3];
    ZSTD_CCtx* c = ZSTD_createCCtx(); ZSTD_DCtx* dc = ZSTD_createDCtx(); ZSTD_CDict* cds[64]; int ncd = 0, i; size_t r = 0;
    size_t cap = ZSTD_compressBound(xn) + 64; unsigned char* out = (unsigned char*)malloc(cap); unsigned char* dec = (unsigned char*)malloc(xn + 64);
    char ids[2048]; size_t il = 0; int cur = K_NONE, pfx = -1; const char* err = NULL;
    ids[0] = 0;
    while (*p && !err) { char tok[8]; int k = 0; while (*p && *p != ',' && k < 7) tok[k++] = *p++; tok[k] = 0; if (*p == ',') p++;
        if (!strcmp(tok, "f0") || !strcmp(tok, "f1")) r = ZSTD_CCtx_setParameter(c, ZSTD_c_dictIDFlag, tok[1] == '1');
        else if (!strcmp(tok, "L")) { r = ZSTD_CCtx_loadDictionary(c, d, dn); cur = is_fmt(d, dn) ? K_FMT : K_RAW; pfx = -1; }
        else if (!strcmp(tok, "Lr")) { r = ZSTD_CCtx_loadDictionary_advanced(c, d, dn, ZSTD_dlm_byCopy, ZSTD_dct_rawContent); cur = K_RAW; pfx = -1; }
        else if (!strcmp(tok, "C0") || !strcmp(tok, "C1")) { ZSTD_CCtx_params* pr = ZSTD_createCCtxParams(); ZSTD_CCtxParams_setParameter(pr, ZSTD_c_dictIDFlag, tok[1] == '1');
            if (ncd < 64) { cds[ncd] = ZSTD_createCDict_advanced2(d, dn, ZSTD_dlm_byCopy, ZSTD_dct_auto, pr, ZSTD_defaultCMem);
                if (!cds[ncd]) err = "createCDict_advanced2"; else { r = ZSTD_CCtx_refCDict(c, cds[ncd]); ncd++; cur = is_fmt(d, dn) ? K_FMT : K_RAW; pfx = -1; } }
            ZSTD_freeCCtxParams(pr); }
        else if (!strcmp(tok, "P")) { r = ZSTD_CCtx_refPrefix_advanced(c, d, dn, ZSTD_dct_fullDict); pfx = K_FMT; cur = K_NONE; }
        else if (!strcmp(tok, "Pr")) { r = ZSTD_CCtx_refPrefix(c, d, dn); pfx = K_RAW; cur = K_NONE; }
        else if (!strcmp(tok, "U")) { r = ZSTD_CCtx_loadDictionary(c, NULL, 0); cur = K_NONE; pfx = -1; }
        else if (!strcmp(tok, "X")) { int kind = pfx >= 0 ? pfx : cur; size_t fs = ZSTD_compress2(c, out, cap, x, xn), ds; pfx = -1;
            if (ZSTD_isError(fs)) { err = ename(fs); break; }
            if (kind == K_FMT) ds = ZSTD_decompress_usingDict(dc, dec, xn + 64, out, fs, d, dn);
            else if (kind == K_RAW) { ds = ZSTD_DCtx_refPrefix(dc, d, dn); if (!ZSTD_isError(ds)) ds = ZSTD_decompressDCtx(dc, dec, xn + 64, out, fs); }
            else ds = ZSTD_decompressDCtx(dc, dec, xn + 64, out, fs);
            if (ZSTD_isError(ds)) err = "frame_does_not_decode_with_the_dictionary_in_force"; else if (ds != xn || memcmp(dec, x, xn)) err = "decoded_bytes_differ";
            if (il < sizeof ids - 16) il += (size_t)sprintf(ids + il, "%s%u", il ? "," : "", ZSTD_getDictID_fromFrame(out, fs)); }
        else err = "bad_op";
        if (!err && ZSTD_isError(r)) err = ename(r); }
    if (err) { printf("%s ERR ", t[1]); for (; *err; err++) putchar(*err == ' ' ? '_' : *err); putchar('\n'); }
    else printf("%s OK %s\n", t[1], il ? ids : "-");
    ZSTD_freeCCtx(c); ZSTD_freeDCtx(dc); for (i = 0; i < ncd; i++) ZSTD_freeCDict(cds[i]); free(d); free(x); free(out); free(dec);
}

int main(void) {
    char* line = NULL; size_t lcap = 0; ssize_t len;
    while ((len = getline(&line, &lcap, stdin)) > 0) {
        char* t[16]; int nt = 0; char* sv = NULL; char* tok = strtok_r(line, " \n", &sv);
        while (tok && nt < 16) { t[nt++] = tok; tok = strtok_r(NULL, " \n", &sv); }
        if (nt == 0) continue;
        if (t[0][0] == 'R' && nt >= 8) cmd_R(t);
        else if (t[0][0] == 'T' && nt >= 5) cmd_T(t, nt);
        else if (t[0][0] == 'B' && nt >= 6) cmd_B(t);
        else if (t[0][0] == 'H' && nt >= 5) cmd_H(t);
        else printf("? BADCMD\n");
        fflush(stdout);
    }
    free(line);
    return 0;
}
