/* C18 direct oracle: the property statement executed on the real library through its public (and
 * ZDICT_STATIC_LINKING_ONLY) API.  One case per stdin line, each in a forked child:
 *
 *   run <algo> <cap> <k> <d> <steps> <spnum> <spsh> <f> <accel> <nbThreads> <shrink> <level> <dictID> <selectivity>
 *       <ckind> <cseed> <csize> <nb> <kind> <seed> <size>...
 *
 * algo: default | cover | fastcover | optcover | optfast | legacy | finalize | addentropy
 *       | many-cover | many-fastcover | many-optcover | many-default (2^32-1 samples) | lazy-finalize | lazy-addentropy
 *       (content of csize bytes in a lazy mapping) | xl-legacy (trailing sample of csize bytes), optionally followed by
 *       "@<n>" = ZDICT_params_t.notificationLevel n (the library then writes progress text to stderr)
 * capacities above C18_LAZY_CAP are served by an untouched MAP_NORESERVE mapping (no fill, no guard band, no second run)
 * result: ERR:<name> | NODICT | DICT size= id= ids= cdict= ddict= rt= det= guard= hash= k= d=  | CRASH ...      */
#define ZDICT_STATIC_LINKING_ONLY
#define ZDICT_DISABLE_DEPRECATE_WARNINGS
#define ZSTD_STATIC_LINKING_ONLY
#include "zdict.h"
#include "zstd.h"
#include "zstd_errors.h"
#include "c18_gen.h"
#include <math.h>
#include <signal.h>
#include <sys/wait.h>
#include <unistd.h>
#include <fcntl.h>
#include <sys/mman.h>
#include <sys/resource.h>

#define MAXTOK 70000
#define GUARD 64
#define C18_LAZY_CAP ((size_t)64 << 20)

typedef struct {
    const char* algo; size_t cap; unsigned k, d, steps; double sp; unsigned f, accel, nbThreads, shrink; int level;
    unsigned dictID, selectivity; int ckind; uint64_t cseed; size_t csize; unsigned notif;
} ocase;

static size_t train(const ocase* c, unsigned char* dict, const c18_samples* s, unsigned* outK, unsigned* outD) {
    *outK = c->k; *outD = c->d;
    if (!strcmp(c->algo, "default")) return ZDICT_trainFromBuffer(dict, c->cap, s->buf, s->sizes, s->nb);
    if (!strcmp(c->algo, "cover") || !strcmp(c->algo, "optcover")) {
        ZDICT_cover_params_t p; size_t r; memset(&p, 0, sizeof p);
        p.k = c->k; p.d = c->d; p.steps = c->steps; p.nbThreads = c->nbThreads; p.splitPoint = c->sp;
        p.shrinkDict = c->shrink; p.shrinkDictMaxRegression = 1;
        p.zParams.compressionLevel = c->level; p.zParams.dictID = c->dictID; p.zParams.notificationLevel = c->notif;
        if (!strcmp(c->algo, "cover")) return ZDICT_trainFromBuffer_cover(dict, c->cap, s->buf, s->sizes, s->nb, p);
        r = ZDICT_optimizeTrainFromBuffer_cover(dict, c->cap, s->buf, s->sizes, s->nb, &p);
        *outK = p.k; *outD = p.d; return r;
    }
    if (!strcmp(c->algo, "fastcover") || !strcmp(c->algo, "optfast")) {
        ZDICT_fastCover_params_t p; size_t r; memset(&p, 0, sizeof p);
        p.k = c->k; p.d = c->d; p.steps = c->steps; p.nbThreads = c->nbThreads; p.splitPoint = c->sp; p.f = c->f;
        p.accel = c->accel; p.shrinkDict = c->shrink; p.shrinkDictMaxRegression = 1;
        p.zParams.compressionLevel = c->level; p.zParams.dictID = c->dictID; p.zParams.notificationLevel = c->notif;
        if (!strcmp(c->algo, "fastcover")) return ZDICT_trainFromBuffer_fastCover(dict, c->cap, s->buf, s->sizes, s->nb, p);
        r = ZDICT_optimizeTrainFromBuffer_fastCover(dict, c->cap, s->buf, s->sizes, s->nb, &p);
        *outK = p.k; *outD = p.d; return r;
    }
    if (!strcmp(c->algo, "legacy")) {
        ZDICT_legacy_params_t p; memset(&p, 0, sizeof p);
        p.selectivityLevel = c->selectivity; p.zParams.compressionLevel = c->level; p.zParams.dictID = c->dictID;
        p.zParams.notificationLevel = c->notif;
        return ZDICT_trainFromBuffer_legacy(dict, c->cap, s->buf, s->sizes, s->nb, p);
    }
    if (!strcmp(c->algo, "finalize")) {
        ZDICT_params_t p; size_t r; unsigned char* content = (unsigned char*)malloc(c->csize ? c->csize : 1);
        memset(&p, 0, sizeof p); p.compressionLevel = c->level; p.dictID = c->dictID; p.notificationLevel = c->notif;
        c18_fill(content, c->csize, c->ckind, c->cseed, 0);
        r = ZDICT_finalizeDictionary(dict, c->cap, content, c->csize, s->buf, s->sizes, s->nb, p);
        free(content); return r;
    }
    if (!strcmp(c->algo, "addentropy")) {
        if (c->csize <= c->cap) c18_fill(dict + c->cap - c->csize, c->csize, c->ckind, c->cseed, 0);
        return ZDICT_addEntropyTablesFromBuffer(dict, c->csize, c->cap, s->buf, s->sizes, s->nb);
    }
    /* ---- round 3: inputs at the top of the integer types (the sample set of the line is only the non-empty head) ---- */
    if (!strncmp(c->algo, "many-", 5)) {
        /* nbSamples = 2^32-1: the samples of the line, followed by EMPTY samples (sizes[] is an untouched lazy mapping).
         * The offsets table of the cover trainers then has 2^32 entries = 32 GiB: the address space of this child is capped,
         * so the repaired code ends in memory_allocation (ASan builds: max_allocation_size_mb in ASAN_OPTIONS) */
        unsigned const nb = 0xFFFFFFFFu; size_t const bytes = ((size_t)nb + 2) * sizeof(size_t); size_t r;
        size_t* sizes = (size_t*)mmap(NULL, bytes, PROT_READ | PROT_WRITE, MAP_PRIVATE | MAP_ANONYMOUS | MAP_NORESERVE, -1, 0);
        const char* inner = c->algo + 5;
        if (sizes == (size_t*)MAP_FAILED) return (size_t)-ZSTD_error_memory_allocation;
#ifdef MADV_HUGEPAGE
        madvise(sizes, bytes, MADV_HUGEPAGE);      /* read faults map the huge zero page: 16 K faults instead of 8 M */
#endif
        memcpy(sizes, s->sizes, s->nb * sizeof(size_t));
#if !defined(__SANITIZE_ADDRESS__) && !defined(__SANITIZE_THREAD__)
        {   struct rlimit rl; rl.rlim_cur = rl.rlim_max = (rlim_t)44 << 30; setrlimit(RLIMIT_AS, &rl); }
#endif
        if (!strcmp(inner, "cover")) { ZDICT_cover_params_t p; memset(&p, 0, sizeof p); p.k = c->k; p.d = c->d;
            r = ZDICT_trainFromBuffer_cover(dict, c->cap, s->buf, sizes, nb, p); }
        else if (!strcmp(inner, "fastcover")) { ZDICT_fastCover_params_t p; memset(&p, 0, sizeof p); p.k = c->k; p.d = c->d; p.f = c->f; p.accel = c->accel;
            r = ZDICT_trainFromBuffer_fastCover(dict, c->cap, s->buf, sizes, nb, p); }
        else if (!strcmp(inner, "optcover")) { ZDICT_cover_params_t p; memset(&p, 0, sizeof p); p.k = c->k; p.d = c->d; p.steps = c->steps; p.splitPoint = c->sp;
            r = ZDICT_optimizeTrainFromBuffer_cover(dict, c->cap, s->buf, sizes, nb, &p); }
        else r = ZDICT_trainFromBuffer(dict, c->cap, s->buf, sizes, nb);
        munmap(sizes, bytes);
        return r;
    }
    if (!strcmp(c->algo, "lazy-finalize") || !strcmp(c->algo, "lazy-addentropy")) {
        /* custom content of c->csize bytes served by an untouched lazy mapping (zeros, last 4000 bytes text):
         * sizes around 2^31 - 128 KB and 2^32 - 128 KB (ZDICT_analyzeEntropy narrows dictSize + 128 KB to U32) */
        ZDICT_params_t p; size_t r; size_t const tail = c->csize < 4000 ? c->csize : 4000;
        memset(&p, 0, sizeof p); p.compressionLevel = c->level; p.dictID = c->dictID; p.notificationLevel = c->notif;
        if (!strcmp(c->algo, "lazy-finalize")) {
            unsigned char* content = (unsigned char*)mmap(NULL, c->csize + 4096, PROT_READ | PROT_WRITE, MAP_PRIVATE | MAP_ANONYMOUS | MAP_NORESERVE, -1, 0);
            if (content == (unsigned char*)MAP_FAILED) return (size_t)-ZSTD_error_memory_allocation;
            c18_fill(content + c->csize - tail, tail, 3, c->cseed, 0);
            r = ZDICT_finalizeDictionary(dict, c->cap, content, c->csize, s->buf, s->sizes, s->nb, p);
            munmap(content, c->csize + 4096);
        } else {
            if (c->csize > c->cap) return (size_t)-ZSTD_error_dstSize_tooSmall;
            c18_fill(dict + c->cap - tail, tail, 3, c->cseed, 0);
            r = ZDICT_addEntropyTablesFromBuffer(dict, c->csize, c->cap, s->buf, s->sizes, s->nb);
        }
        return r;
    }
    if (!strcmp(c->algo, "xl-legacy")) {
        /* legacy trainer above ZDICT_MAX_SAMPLES_SIZE (thorough tier: the trainer itself touches 2 x 2 GB): the samples of the
         * line, each starting with the lexicographically greatest 10 bytes, then ONE sample of c->csize bytes whose head is a
         * copy of sample 0 (rest zeros).  The trailing sample is dropped by the trainer; in the pinned code the sentinels of the
         * suffix analysis then point at its first bytes instead of the guard band (finding c18-legacy-reduced-set-no-guard) */
        static const unsigned char marker[10] = { 0xFF, 0xFE, 0xFD, 0xFC, 0xFB, 0xFA, 0xF9, 0xF8, 0xF7, 0xF6 };
        size_t const total = s->total + c->csize; size_t pos = 0; unsigned u; size_t r; ZDICT_legacy_params_t p;
        unsigned char* buf = (unsigned char*)mmap(NULL, total + 4096, PROT_READ | PROT_WRITE, MAP_PRIVATE | MAP_ANONYMOUS | MAP_NORESERVE, -1, 0);
        size_t* sizes = (size_t*)malloc((s->nb + 1) * sizeof(size_t));
        if (buf == (unsigned char*)MAP_FAILED) return (size_t)-ZSTD_error_memory_allocation;
        memcpy(buf, s->buf, s->total);
        for (u = 0; u < s->nb; u++) { if (s->sizes[u] >= 10) memcpy(buf + pos, marker, 10); sizes[u] = s->sizes[u]; pos += s->sizes[u]; }
        memcpy(buf + s->total, buf, s->sizes[0] < c->csize ? s->sizes[0] : c->csize);
        sizes[s->nb] = c->csize;
        memset(&p, 0, sizeof p); p.selectivityLevel = c->selectivity; p.zParams.compressionLevel = c->level; p.zParams.notificationLevel = c->notif;
        r = ZDICT_trainFromBuffer_legacy(dict, c->cap, buf, sizes, s->nb + 1, p);
        munmap(buf, total + 4096); free(sizes);
        return r;
    }
    return (size_t)-1;
}

static void run_case(char** t, int n) {
    ocase c; c18_samples s; unsigned char* dict; unsigned char* dict2; size_t r; unsigned rk, rd;
    int guardok = 1; size_t i; size_t alloc;
    int const sanitized =
#if defined(__SANITIZE_ADDRESS__) || defined(__SANITIZE_THREAD__)
        1;
#else
        0;
#endif
    int lazy;
    if (n < 21) { printf("BADCASE\n"); return; }
    c.notif = 0;
    {   char* at = strchr(t[1], '@'); if (at) { *at = 0; c.notif = (unsigned)strtoul(at + 1, 0, 10); } }
    c.algo = t[1]; c.cap = (size_t)strtoull(t[2], 0, 10); c.k = (unsigned)strtoul(t[3], 0, 10); c.d = (unsigned)strtoul(t[4], 0, 10);
    c.steps = (unsigned)strtoul(t[5], 0, 10);
    c.sp = (!strcmp(t[6], "nan")) ? NAN : ldexp(strtod(t[6], NULL), -atoi(t[7]));
    c.f = (unsigned)strtoul(t[8], 0, 10); c.accel = (unsigned)strtoul(t[9], 0, 10); c.nbThreads = (unsigned)strtoul(t[10], 0, 10);
    c.shrink = (unsigned)strtoul(t[11], 0, 10); c.level = atoi(t[12]); c.dictID = (unsigned)strtoul(t[13], 0, 10);
    c.selectivity = (unsigned)strtoul(t[14], 0, 10); c.ckind = atoi(t[15]); c.cseed = strtoull(t[16], 0, 10);
    c.csize = (size_t)strtoull(t[17], 0, 10);
    if (c18_parse_samples(t + 18, n - 18, &s) < 0) { printf("BADCASE\n"); return; }
    /* exact allocation under a sanitizer (it sees the true end); guard band otherwise */
    lazy = c.cap > C18_LAZY_CAP;
    alloc = c.cap + ((sanitized || lazy) ? 0 : GUARD);
    if (lazy) {
        dict = (unsigned char*)mmap(NULL, alloc, PROT_READ | PROT_WRITE, MAP_PRIVATE | MAP_ANONYMOUS | MAP_NORESERVE, -1, 0);
        if (dict == (unsigned char*)MAP_FAILED) { printf("ERR:harness-could-not-map-capacity guard=1\n"); c18_free_samples(&s); return; }
    } else {
        dict = (unsigned char*)malloc(alloc ? alloc : 1);
        memset(dict, 0xEE, alloc);
    }
    r = train(&c, dict, &s, &rk, &rd);
    for (i = c.cap; i < alloc; i++) if (dict[i] != 0xEE) guardok = 0;
    if (ZDICT_isError(r)) { printf("ERR:%s guard=%d\n", ZDICT_getErrorName(r), guardok); goto done; }
    if (r == 0) { printf("NODICT guard=%d\n", guardok); goto done; }
    if (r > c.cap) { printf("DICT size=%zu OVERRUN cap=%zu guard=%d\n", r, c.cap, guardok); goto done; }
    {   unsigned const id0 = ZDICT_getDictID(dict, r);
        unsigned const id1 = ZSTD_getDictID_fromDict(dict, r);
        int const huge = r > C18_LAZY_CAP;      /* round 3: dictionaries of GiB size are loaded by reference */
        ZSTD_CDict* cd = huge ? ZSTD_createCDict_byReference(dict, r, 3) : ZSTD_createCDict(dict, r, 3);
        ZSTD_DDict* dd = huge ? ZSTD_createDDict_byReference(dict, r) : ZSTD_createDDict(dict, r);
        unsigned const id2 = cd ? ZSTD_getDictID_fromCDict(cd) : 0;
        unsigned const id3 = dd ? ZSTD_getDictID_fromDDict(dd) : 0;
        int rt = -1;   /* -1 ok, else index of the failing sample */
        int det = -1;
        if (cd && dd) {
            ZSTD_CCtx* cc = ZSTD_createCCtx(); ZSTD_DCtx* dc = ZSTD_createDCtx();
            size_t pos = 0; unsigned u;
            for (u = 0; u < s.nb && rt < 0; u++) {
                size_t const sz = s.sizes[u]; size_t const bound = ZSTD_compressBound(sz);
                unsigned char* cb = (unsigned char*)malloc(bound ? bound : 1);
                unsigned char* ob = (unsigned char*)malloc(sz ? sz : 1);
                size_t const cs = ZSTD_compress_usingCDict(cc, cb, bound, s.buf + pos, sz, cd);
                if (ZSTD_isError(cs)) rt = (int)u;
                else {
                    size_t const ds = ZSTD_decompress_usingDDict(dc, ob, sz, cb, cs, dd);
                    if (ZSTD_isError(ds) || ds != sz || (sz && memcmp(ob, s.buf + pos, sz))) rt = (int)u;
                }
                if (rt < 0 && !huge) {   /* second round trip: raw dictionary (both sides reload it), level varies with the sample */
                    static const int lv[10] = { -7, 1, 2, 4, 6, 9, 13, 16, 19, 22 };
                    size_t const cs2 = ZSTD_compress_usingDict(cc, cb, bound, s.buf + pos, sz, dict, r, lv[u % 10]);
                    if (ZSTD_isError(cs2)) rt = (int)u;
                    else {
                        size_t const ds2 = ZSTD_decompress_usingDict(dc, ob, sz, cb, cs2, dict, r);
                        if (ZSTD_isError(ds2) || ds2 != sz || (sz && memcmp(ob, s.buf + pos, sz))) rt = (int)u;
                    }
                }
                free(cb); free(ob); pos += sz;
            }
            ZSTD_freeCCtx(cc); ZSTD_freeDCtx(dc);
        }
        if (c.nbThreads <= 1 && !lazy) {
            unsigned k2, d2; size_t r2;
            dict2 = (unsigned char*)malloc(alloc ? alloc : 1);
            memset(dict2, 0x11, alloc);      /* different fill: output must not depend on the buffer's old bytes */
            r2 = train(&c, dict2, &s, &k2, &d2);
            det = (r2 == r && !memcmp(dict, dict2, r) && k2 == rk && d2 == rd) ? 1 : 0;
            free(dict2);
        }
        printf("DICT size=%zu id=%u ids=%s cdict=%d ddict=%d rt=", r, id0,
               (id0 == id1 && (!cd || id0 == id2) && (!dd || id0 == id3)) ? "ok" : "mismatch", cd != NULL, dd != NULL);
        if (rt < 0) printf("ok"); else printf("fail:%d", rt);
        printf(" det=");
        if (det < 0) printf("-"); else printf("%d", det);
        printf(" guard=%d hash=%llu k=%u d=%u\n", guardok, (unsigned long long)c18_fnv(dict, r), rk, rd);
        ZSTD_freeCDict(cd); ZSTD_freeDDict(dd);
    }
done:
    if (lazy) munmap(dict, alloc); else free(dict);
    c18_free_samples(&s);
}

int main(int argc, char** argv) {
    static char line[1 << 20];
    static char* tok[MAXTOK];
    unsigned timeout = argc > 1 ? (unsigned)atoi(argv[1]) : 60;
    const char* errfile = argc > 2 ? argv[2] : "/dev/null";
    setvbuf(stdout, NULL, _IOLBF, 0);
    while (fgets(line, sizeof line, stdin)) {
        pid_t pid; int st;
        fflush(stdout);
        pid = fork();
        if (pid == 0) {
            int n; int fd = open(errfile, O_WRONLY | O_CREAT | O_TRUNC, 0644);
            if (fd >= 0) { dup2(fd, 2); close(fd); }
            alarm(timeout);
            n = c18_split(line, tok, MAXTOK);
            if (n == 0 || strcmp(tok[0], "run")) printf("BADCASE\n"); else run_case(tok, n);
            fflush(stdout);
            _exit(0);
        }
        if (pid < 0) { printf("CRASH fork-failed\n.END\n"); continue; }
        waitpid(pid, &st, 0);
        if (WIFSIGNALED(st)) printf("\nCRASH signal=%d%s\n", WTERMSIG(st), WTERMSIG(st) == SIGALRM ? " (timeout)" : "");
        else if (WEXITSTATUS(st) != 0) {
            char msg[400] = ""; FILE* ef = fopen(errfile, "r");
            if (ef) { char l[400]; while (fgets(l, sizeof l, ef)) if (strstr(l, "ERROR") || strstr(l, "runtime error") || strstr(l, "WARNING: ThreadSanitizer")) { size_t m = strlen(l); if (m && l[m-1] == '\n') l[m-1] = 0; snprintf(msg, sizeof msg, "%s", l); break; } fclose(ef); }
            printf("\nCRASH exit=%d %s\n", WEXITSTATUS(st), msg);
        }
        printf(".END\n");
    }
    return 0;
}
