/* C12 round 3: the thread pool under REAL pthreads and ThreadSanitizer (no deterministic scheduler).
 *
 * The deterministic scheduler of harness/sched runs one thread at a time, so an access that is not ordered by a
 * synchronisation operation is invisible to it.  This program runs the same kind of histories on real threads in a
 * -fsanitize=thread build of the library; the python driver turns every ThreadSanitizer report whose stacks touch
 * pool.c into a violation.  It also re-evaluates the exactly-once property with real threads (atomic counters).
 *
 *   c12_tsan pool   <seed> <clients> <threads> <queue> <ops>     clients post / try / join / resize / sizeof on one POOL_ctx
 *   c12_tsan sizeof <seed>                                       context A: ZSTD_sizeof_CCtx, context B: new nbWorkers, one ZSTD_threadPool
 *   c12_tsan shared <seed> <contexts> <poolThreads> <frames>     contexts on one ZSTD_threadPool, own application thread each
 *
 * Output: "O <message>" per failed oracle, then "E ok".  ThreadSanitizer writes its reports to stderr.
 */
#define ZSTD_STATIC_LINKING_ONLY
#include <zstd.h>
#include "common/pool.h"
#include <pthread.h>
#include <stdio.h>
#include <stdlib.h>
#include <string.h>

static unsigned rnd(unsigned* s) { *s = *s * 1103515245u + 12345u; return (*s >> 16) & 0x7fff; }

/* ------------------------------------------------------------------ pool level */
#define MAXJOBS 4096
static POOL_ctx* g_pool;
static int g_executed[MAXJOBS];     /* atomic builtins */
static int g_accepted[MAXJOBS];
static int g_next;
static int g_ops, g_queue, g_threads;

typedef struct { int id; } jobArg;
static jobArg g_args[MAXJOBS];

static void job_fn(void* opaque)
{   jobArg* const a = (jobArg*)opaque;
    volatile unsigned spin = 0; unsigned k;
    for (k = 0; k < 200u + (unsigned)(a->id * 37 % 400); k++) spin += k;
    __atomic_fetch_add(&g_executed[a->id], 1, __ATOMIC_SEQ_CST);
}

static void* pool_client(void* arg)
{   unsigned s = (unsigned)(size_t)arg * 2654435761u + 17u;
    int i;
    for (i = 0; i < g_ops; i++) {
        unsigned const r = rnd(&s) % 100;
        if (r < 40) {
            int const id = __atomic_fetch_add(&g_next, 1, __ATOMIC_SEQ_CST);
            if (id >= MAXJOBS) break;
            g_args[id].id = id;
            __atomic_store_n(&g_accepted[id], 1, __ATOMIC_SEQ_CST);
            POOL_add(g_pool, job_fn, &g_args[id]);
        } else if (r < 75) {
            int const id = __atomic_fetch_add(&g_next, 1, __ATOMIC_SEQ_CST);
            if (id >= MAXJOBS) break;
            g_args[id].id = id;
            __atomic_store_n(&g_accepted[id], 1, __ATOMIC_SEQ_CST);
            if (!POOL_tryAdd(g_pool, job_fn, &g_args[id])) __atomic_store_n(&g_accepted[id], 0, __ATOMIC_SEQ_CST);
        } else if (r < 85) {
            POOL_joinJobs(g_pool);
        } else if (r < 93) {
            if (POOL_resize(g_pool, 1 + rnd(&s) % (unsigned)(g_threads + 2))) printf("O POOL_resize failed without an injected failure\n");
        } else {
            /* POOL_sizeof is NOT called here: it reads threadCapacity without the mutex by design (since d9c5417 the library only
             * calls it on a private pool, from the one thread that can resize it); pool_main calls it once the clients are done */
            POOL_joinJobs(g_pool);
        }
    }
    return NULL;
}

static int pool_main(unsigned seed, int clients, int threads, int queue, int ops)
{   pthread_t t[8]; int i, n, bad = 0;
    g_ops = ops; g_queue = queue; g_threads = threads;
    g_pool = POOL_create((size_t)threads, (size_t)queue);
    if (!g_pool) { printf("O POOL_create failed\n"); return 1; }
    if (clients > 8) clients = 8;
    for (i = 0; i < clients; i++) pthread_create(&t[i], NULL, pool_client, (void*)(size_t)(seed * 16u + (unsigned)i + 1u));
    for (i = 0; i < clients; i++) pthread_join(t[i], NULL);
    POOL_joinJobs(g_pool);
    if (POOL_sizeof(g_pool) < sizeof(void*) * (size_t)(queue + 1)) printf("O POOL_sizeof returned %zu\n", POOL_sizeof(g_pool));
    n = g_next < MAXJOBS ? g_next : MAXJOBS;
    for (i = 0; i < n; i++)
        if (__atomic_load_n(&g_executed[i], __ATOMIC_SEQ_CST) != __atomic_load_n(&g_accepted[i], __ATOMIC_SEQ_CST)) {
            if (bad++ < 3) printf("O after POOL_joinJobs job %d (accepted=%d) was executed %d times\n", i, g_accepted[i], g_executed[i]);
        }
    POOL_free(g_pool);
    for (i = 0; i < n; i++)
        if (g_executed[i] != g_accepted[i]) { if (bad++ < 3) printf("O after POOL_free job %d (accepted=%d) was executed %d times\n", i, g_accepted[i], g_executed[i]); }
    printf("N jobs=%d\n", n);
    return 0;
}

/* ------------------------------------------------------------------ library level */
static ZSTD_threadPool* g_tp;
static int g_frames;
static unsigned g_seed;

static void fill(char* p, size_t n, unsigned s)
{   size_t i;
    for (i = 0; i < n; i++) p[i] = (char)(((i * 2654435761u + s) >> 13) & 0x3f);
}

static void* sizer(void* arg)
{   ZSTD_CCtx* const c = ZSTD_createCCtx();
    size_t const n = 1u << 20;
    char* src = malloc(n); char* dst = malloc(ZSTD_compressBound(n));
    size_t total = 0; int it;
    (void)arg;
    fill(src, n, 1);
    ZSTD_CCtx_refThreadPool(c, g_tp);
    ZSTD_CCtx_setParameter(c, ZSTD_c_nbWorkers, 1);
    ZSTD_compress2(c, dst, ZSTD_compressBound(n), src, n);          /* creates the multithreaded context on the shared pool */
    for (it = 0; it < 3000; it++) total += ZSTD_sizeof_CCtx(c);     /* between frames: only the shared pool is not this thread's own */
    ZSTD_freeCCtx(c); free(src); free(dst);
    return (void*)total;
}

static void* resizer(void* arg)
{   ZSTD_CCtx* const c = ZSTD_createCCtx();
    size_t const n = 600u << 10;
    char* src = malloc(n); char* dst = malloc(ZSTD_compressBound(n));
    int it;
    (void)arg;
    fill(src, n, 2);
    ZSTD_CCtx_refThreadPool(c, g_tp);
    for (it = 0; it < 10; it++) {
        ZSTD_CCtx_setParameter(c, ZSTD_c_nbWorkers, 1 + it);        /* a new worker count: ZSTDMT_resize -> POOL_resize(shared pool) */
        if (ZSTD_isError(ZSTD_compress2(c, dst, ZSTD_compressBound(n), src, n))) { printf("O ZSTD_compress2 failed\n"); break; }
    }
    ZSTD_freeCCtx(c); free(src); free(dst);
    return NULL;
}

static void* shared_client(void* arg)
{   unsigned s = g_seed * 977u + (unsigned)(size_t)arg * 131u + 7u;
    ZSTD_CCtx* c = ZSTD_createCCtx();
    size_t const n = 2u << 20;
    size_t const cap = ZSTD_compressBound(n);
    char* src = malloc(n); char* dst = malloc(cap); char* back = malloc(n);
    int it;
    fill(src, n, s);
    ZSTD_CCtx_refThreadPool(c, g_tp);
    for (it = 0; it < g_frames; it++) {
        unsigned const nbw = 1 + rnd(&s) % 4;
        size_t const len = (300u << 10) + (rnd(&s) % 1500) * 1024u;
        size_t pos = 0;
        ZSTD_outBuffer out = { dst, cap, 0 };
        int const abandon = (rnd(&s) % 6) == 0;
        ZSTD_CCtx_setParameter(c, ZSTD_c_nbWorkers, (int)nbw);
        ZSTD_CCtx_setParameter(c, ZSTD_c_jobSize, 512 << 10);
        ZSTD_CCtx_setParameter(c, ZSTD_c_compressionLevel, 1 + (int)(rnd(&s) % 3));
        (void)ZSTD_sizeof_CCtx(c);                                   /* between frames */
        while (pos < len) {
            size_t const chunk = 1 + rnd(&s) % (400u << 10);
            ZSTD_inBuffer part = { src, pos + chunk > len ? len : pos + chunk, pos };
            size_t const r = ZSTD_compressStream2(c, &out, &part, (rnd(&s) % 9 == 0) ? ZSTD_e_flush : ZSTD_e_continue);
            if (ZSTD_isError(r)) { printf("O ZSTD_compressStream2: %s\n", ZSTD_getErrorName(r)); goto _end; }
            pos = part.pos;
            if (rnd(&s) % 4 == 0) { ZSTD_frameProgression const fp = ZSTD_getFrameProgression(c); (void)fp; }
            if (rnd(&s) % 4 == 0) (void)ZSTD_toFlushNow(c);
            if (abandon && pos > len / 2) break;
        }
        if (abandon) {
            switch (rnd(&s) % 3) {
            case 0: ZSTD_CCtx_reset(c, ZSTD_reset_session_only); break;
            case 1: ZSTD_CCtx_reset(c, ZSTD_reset_session_and_parameters); ZSTD_CCtx_refThreadPool(c, g_tp); break;
            default: ZSTD_freeCCtx(c); c = ZSTD_createCCtx(); ZSTD_CCtx_refThreadPool(c, g_tp); break;
            }
            continue;
        }
        for (;;) {
            ZSTD_inBuffer none = { src, pos, pos };
            size_t const r = ZSTD_compressStream2(c, &out, &none, ZSTD_e_end);
            if (ZSTD_isError(r)) { printf("O ZSTD_compressStream2(end): %s\n", ZSTD_getErrorName(r)); goto _end; }
            if (r == 0) break;
        }
        {   size_t const d = ZSTD_decompress(back, n, dst, out.pos);
            if (d != len || memcmp(back, src, len)) { printf("O a frame compressed on the shared pool does not decode to its input (frame %d, %zu bytes)\n", it, len); goto _end; }
        }
    }
_end:
    ZSTD_freeCCtx(c); free(src); free(dst); free(back);
    return NULL;
}

int main(int argc, char** argv)
{   unsigned const seed = argc > 2 ? (unsigned)strtoul(argv[2], NULL, 10) : 1;
    if (argc < 2) return 2;
    setvbuf(stdout, NULL, _IOLBF, 0);
    if (!strcmp(argv[1], "pool")) {
        int const clients = argc > 3 ? atoi(argv[3]) : 3, threads = argc > 4 ? atoi(argv[4]) : 2;
        int const queue = argc > 5 ? atoi(argv[5]) : 1, ops = argc > 6 ? atoi(argv[6]) : 200;
        if (pool_main(seed, clients, threads, queue, ops)) return 1;
    } else if (!strcmp(argv[1], "sizeof")) {
        pthread_t a, b;
        g_tp = ZSTD_createThreadPool(2);
        pthread_create(&a, NULL, sizer, NULL);
        pthread_create(&b, NULL, resizer, NULL);
        pthread_join(a, NULL); pthread_join(b, NULL);
        ZSTD_freeThreadPool(g_tp);
    } else if (!strcmp(argv[1], "shared")) {
        pthread_t t[4]; int i;
        int contexts = argc > 3 ? atoi(argv[3]) : 3;
        int const poolThreads = argc > 4 ? atoi(argv[4]) : 2;
        g_frames = argc > 5 ? atoi(argv[5]) : 8;
        g_seed = seed;
        if (contexts > 4) contexts = 4;
        g_tp = ZSTD_createThreadPool((size_t)poolThreads);
        for (i = 0; i < contexts; i++) pthread_create(&t[i], NULL, shared_client, (void*)(size_t)i);
        for (i = 0; i < contexts; i++) pthread_join(t[i], NULL);
        ZSTD_freeThreadPool(g_tp);
    } else return 2;
    printf("E ok\n");
    return 0;
}
