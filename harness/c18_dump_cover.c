/* second translation unit of the C18 dumper: constants private to cover.c */
#define ZDICT_STATIC_LINKING_ONLY
#include "dictBuilder/cover.c"
#include <stdio.h>
int dyadic20(const char* name, double v);
int dump_cover(void) {
    printf("Definition t_COVER_prime4bytes : N := %llu%%N.\n", (unsigned long long)COVER_prime4bytes);
    printf("Definition t_COVER_MAX_SAMPLES_SIZE : N := %llu%%N.\n", (unsigned long long)(size_t)COVER_MAX_SAMPLES_SIZE);
    return dyadic20("COVER_DEFAULT_SPLITPOINT", COVER_DEFAULT_SPLITPOINT);
}
