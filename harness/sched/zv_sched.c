/* Deterministic scheduler: see zv_sched.h.  Compile WITHOUT zv_pthread.h. */
#include <stdio.h>
#include <stdlib.h>
#include <string.h>
#include <unistd.h>
#include "zv_sched.h"

typedef struct { unsigned magic; int owner; } zv_mutex;          /* stored in place of pthread_mutex_t */
typedef struct { unsigned magic; int id; } zv_cond;              /* stored in place of pthread_cond_t  */
#define ZV_MMAGIC 0x5a564d58u
#define ZV_CMAGIC 0x5a56434eu

typedef struct {
    pthread_t th; int used; zv_status st; void* obj; zv_mutex* mtx; int join_tid;
    int fresh; int creator; char op; void* (*fn)(void*); void* arg;
} zv_thread;

static pthread_mutex_t G = PTHREAD_MUTEX_INITIALIZER;
static pthread_cond_t CV[ZV_MAXT];   /* one per thread: the baton is handed to exactly one thread */
static zv_thread T[ZV_MAXT];
static int g_cur = -1, g_nt = 0, g_next_worker = 1;
static zv_params P;
static int g_step = 0;           /* index of the step being executed */
static int g_last_w = 0, g_last_nwake = 0;
static int g_mismatch = 0;
static unsigned long long g_rng;
static zv_trace_step g_trace[ZV_MAXSTEPS];
static __thread int zv_me = -1;

static unsigned long long rnd(void) {   /* splitmix64 */
    unsigned long long z = (g_rng += 0x9e3779b97f4a7c15ULL);
    z = (z ^ (z >> 30)) * 0xbf58476d1ce4e5b9ULL; z = (z ^ (z >> 27)) * 0x94d049bb133111ebULL; return z ^ (z >> 31);
}

/* invalid use of a synchronisation object by the code under test: tell the harness (optional callback), then stop the run */
static void zv_fatal(const char* what) {
    if (P.on_fatal) P.on_fatal(what);
    fprintf(stderr, "zv_sched: %s\n", what); _exit(6);
}

static int enabled(int t) {
    if (!T[t].used) return 0;
    switch (T[t].st) {
    case ZS_RUN: return 1;
    case ZS_MUTEX: return T[t].mtx->owner < 0;
    case ZS_JOIN: return T[T[t].join_tid].st == ZS_DONE;
    default: return 0;
    }
}

static void wait_turn(int me) { while (g_cur != me) pthread_cond_wait(&CV[me], &G); }
static void hand(int next) { g_cur = next; pthread_cond_signal(&CV[next]); }

/* the running thread [me] completed a step (it stands at its next operation, or is done): log, choose, hand over */
static void reschedule(int me) {
    int en[ZV_MAXT], n = 0, t, next = -1, alldone = 1; unsigned mask = 0;
    if (T[me].fresh) {          /* first stop of a newly created thread: give the baton back to the creator */
        T[me].fresh = 0; hand(T[me].creator); if (T[me].st != ZS_DONE) wait_turn(me); return;
    }
    if (P.on_step) P.on_step(g_step - 1, me, g_last_w);
    for (t = 0; t < g_nt; t++) { if (T[t].used && T[t].st != ZS_DONE) alldone = 0; if (enabled(t)) { en[n++] = t; mask |= 1u << t; } }
    if (n == 0) {
        if (alldone) { g_cur = -2; return; }
        if (P.on_stuck) P.on_stuck();
        _exit(3);
    }
    if (g_step >= ZV_MAXSTEPS) { fprintf(stderr, "zv_sched: step limit\n"); _exit(4); }
    if (g_step < P.sched_len) {
        int want = P.sched_t[g_step];
        if (want >= 0 && want < g_nt && enabled(want)) next = want; else g_mismatch = 1;
    }
    if (next < 0 && P.choose) {
        int const want = P.choose(g_step, me, en, n);
        if (want >= 0 && want < g_nt && enabled(want)) next = want;
    }
    if (next < 0) {
        if (P.policy == ZV_POLICY_NOPREEMPT) next = enabled(me) ? me : en[0];
        else if (enabled(me) && (int)(rnd() % 100) < P.stay_pct) next = me;
        else next = en[rnd() % (unsigned)n];
    }
    g_trace[g_step].t = next; g_trace[g_step].enabled = mask; g_trace[g_step].prev_enabled = enabled(me);
    g_trace[g_step].w = 0; g_trace[g_step].nwake = 0;
    g_step++; g_last_w = 0; g_last_nwake = 0;
    if (next != me) { hand(next); if (T[me].st != ZS_DONE) wait_turn(me); }
}

static void enter(void) { pthread_mutex_lock(&G); }
static void leave(void) { pthread_mutex_unlock(&G); }

void zv_sched_begin(const zv_params* p) {
    { int i; for (i = 0; i < ZV_MAXT; i++) pthread_cond_init(&CV[i], NULL); }
    memset(T, 0, sizeof(T)); P = *p; g_rng = p->seed * 0x2545F4914F6CDD1DULL + 1; g_step = 0; g_mismatch = 0;
    g_next_worker = p->first_worker_tid; g_nt = 1; T[0].used = 1; T[0].st = ZS_RUN; zv_me = 0; g_cur = 0;
}
void zv_sched_end(void) {
    int me = zv_me; enter(); T[me].st = ZS_DONE; reschedule(me); leave();
}
int zv_self(void) { return zv_me; }
int zv_nthreads(void) { return g_nt; }
zv_status zv_thread_status(int tid, void** obj) { if (obj) *obj = T[tid].obj; return T[tid].used ? T[tid].st : ZS_NONE; }
char zv_thread_op(int tid) { return T[tid].op; }
int zv_mutex_owner(const pthread_mutex_t* m) { return ((const zv_mutex*)m)->owner; }
int zv_schedule_mismatch(void) { return g_mismatch; }
int zv_trace_len(void) { return g_step; }
const zv_trace_step* zv_trace(void) { return g_trace; }

static void* trampoline(void* a) {
    int me = (int)(long)a; zv_me = me;
    enter(); wait_turn(me); leave();
    T[me].fn(T[me].arg);
    enter(); T[me].st = ZS_DONE; reschedule(me); leave();
    return NULL;
}

/* create thread [tid]; it runs at once up to its first synchronisation operation, then the creator continues */
static int create_tid(int tid, void* (*fn)(void*), void* arg) {
    int me = zv_me; pthread_attr_t at;
    if (tid < 0 || tid >= ZV_MAXT || T[tid].used) { fprintf(stderr, "zv_sched: bad tid %d\n", tid); _exit(5); }
    enter();
    T[tid].used = 1; T[tid].st = ZS_RUN; T[tid].fresh = 1; T[tid].creator = me; T[tid].fn = fn; T[tid].arg = arg;
    if (tid + 1 > g_nt) g_nt = tid + 1;
    pthread_attr_init(&at); pthread_attr_setstacksize(&at, 256 * 1024);
    if (pthread_create(&T[tid].th, &at, trampoline, (void*)(long)tid)) { fprintf(stderr, "zv_sched: pthread_create failed\n"); _exit(5); }
    pthread_attr_destroy(&at);
    pthread_detach(T[tid].th);
    hand(tid); wait_turn(me);
    leave();
    return 0;
}
int zv_spawn(int tid, void* (*fn)(void*), void* arg) { return create_tid(tid, fn, arg); }

/* fault injection driven by the schedule (see zv_sched.h); one decision per step */
static int g_fault_step = -2, g_fault_w = 0, g_fault_creates = 0;
static __thread int zv_my_faults = 0;
int zv_step_fault(int nalt) {
    int const mystep = g_step - 1;
    if (!P.fault_enable || mystep < 0) return 0;
    if (g_fault_step != mystep) {
        g_fault_step = mystep; g_fault_creates = 0;
        if (mystep < P.sched_len) g_fault_w = P.sched_w[mystep];
        else if (P.policy == ZV_POLICY_RANDOM && P.fault_pct > 0 && (int)(rnd() % 100) < P.fault_pct) g_fault_w = 1 + (int)(rnd() % 4);
        else g_fault_w = 0;
        g_last_w = g_fault_w; g_trace[mystep].w = g_fault_w;
    }
    if (nalt > g_trace[mystep].nwake) { g_trace[mystep].nwake = nalt; g_last_nwake = nalt; }
    return g_fault_w;
}
static int g_total_faults = 0;
int zv_total_faults(void) { return g_total_faults; }
int zv_thread_faults(void) { return zv_my_faults; }
static int g_create_countdown = 0;
void zv_fail_create_at(int k) { g_create_countdown = k; }

int zv_pthread_create(pthread_t* t, const pthread_attr_t* a, void* (*f)(void*), void* x) {
    int tid; (void)a;
    if (g_create_countdown > 0 && --g_create_countdown == 0) { zv_my_faults++; g_total_faults++; return 11 /* EAGAIN */; }
    if (P.fault_enable && g_step > 0) {
        int w; enter(); w = zv_step_fault(0); g_fault_creates++; (void)zv_step_fault(g_fault_creates + 2); leave();
        if (w == g_fault_creates + 1) { zv_my_faults++; g_total_faults++; return 11 /* EAGAIN */; }
    }
    tid = g_next_worker++;
    *t = (pthread_t)(1000 + tid);
    return create_tid(tid, f, x);
}

/* a non-blocking operation: stop before it (yield point), then the caller performs its effect */
static void stop_runnable(int me, char op, void* obj) { T[me].st = ZS_RUN; T[me].obj = obj; T[me].op = op; reschedule(me); }

void zv_join_tid(int tid) {
    int me = zv_me; enter(); T[me].st = ZS_JOIN; T[me].join_tid = tid; reschedule(me); T[me].st = ZS_RUN; leave();
}
int zv_pthread_join(pthread_t t, void** r) { (void)r; zv_join_tid((int)((unsigned long)t - 1000)); return 0; }

int zv_mutex_init(pthread_mutex_t* m, const pthread_mutexattr_t* a) { zv_mutex* z = (zv_mutex*)m; (void)a; z->magic = ZV_MMAGIC; z->owner = -1; return 0; }
int zv_mutex_destroy(pthread_mutex_t* m) {
    zv_mutex* z = (zv_mutex*)m;
    if (z->magic != ZV_MMAGIC || z->owner >= 0) zv_fatal("destroy of a locked/invalid mutex");
    z->magic = 0; return 0;
}
int zv_mutex_lock(pthread_mutex_t* m) {
    zv_mutex* z = (zv_mutex*)m; int me = zv_me;
    enter();
    if (z->magic != ZV_MMAGIC) zv_fatal("lock of an invalid mutex");
    T[me].st = ZS_MUTEX; T[me].mtx = z; T[me].obj = z; reschedule(me);
    z->owner = me; T[me].st = ZS_RUN;
    leave(); return 0;
}
int zv_mutex_unlock(pthread_mutex_t* m) {
    zv_mutex* z = (zv_mutex*)m; int me = zv_me;
    enter(); stop_runnable(me, 'U', z);
    if (z->owner != me) zv_fatal("unlock by non-owner");
    z->owner = -1;
    leave(); return 0;
}
int zv_cond_init(pthread_cond_t* c, const pthread_condattr_t* a) { zv_cond* z = (zv_cond*)c; (void)a; z->magic = ZV_CMAGIC; z->id = 0; return 0; }
int zv_cond_destroy(pthread_cond_t* c) {
    zv_cond* z = (zv_cond*)c; int t;
    for (t = 0; t < g_nt; t++) if (T[t].used && T[t].st == ZS_COND && T[t].obj == (void*)z) zv_fatal("destroy of a condition with waiters");
    z->magic = 0; return 0;
}
int zv_cond_wait(pthread_cond_t* c, pthread_mutex_t* m) {
    zv_cond* zc = (zv_cond*)c; zv_mutex* z = (zv_mutex*)m; int me = zv_me;
    enter(); stop_runnable(me, 'W', zc);               /* standing at cond_wait */
    if (z->owner != me || zc->magic != ZV_CMAGIC) zv_fatal("bad cond_wait");
    z->owner = -1; T[me].st = ZS_COND; T[me].obj = zc; T[me].mtx = z;
    reschedule(me);                                   /* asleep: a signaller turns the status into ZS_MUTEX */
    z->owner = me; T[me].st = ZS_RUN;
    leave(); return 0;
}
static int waiters(zv_cond* zc, int* out) { int t, n = 0; for (t = 0; t < g_nt; t++) if (T[t].used && T[t].st == ZS_COND && T[t].obj == (void*)zc) out[n++] = t; return n; }
int zv_cond_signal(pthread_cond_t* c) {
    zv_cond* zc = (zv_cond*)c; int me = zv_me, ws[ZV_MAXT], n, k = 0, mystep;
    enter(); stop_runnable(me, 'S', zc);
    mystep = g_step - 1;
    n = waiters(zc, ws);
    if (n > 0) {
        if (mystep < P.sched_len) k = P.sched_w[mystep] % n;
        else if (P.policy == ZV_POLICY_RANDOM) k = (int)(rnd() % (unsigned)n);
        else k = 0;
        T[ws[k]].st = ZS_MUTEX; T[ws[k]].obj = T[ws[k]].mtx;
    }
    g_last_w = k; g_last_nwake = n; g_trace[mystep].w = k; g_trace[mystep].nwake = n;
    leave(); return 0;
}
int zv_cond_broadcast(pthread_cond_t* c) {
    zv_cond* zc = (zv_cond*)c; int me = zv_me, ws[ZV_MAXT], n, i;
    enter(); stop_runnable(me, 'B', zc);
    n = waiters(zc, ws);
    for (i = 0; i < n; i++) { T[ws[i]].st = ZS_MUTEX; T[ws[i]].obj = T[ws[i]].mtx; }
    leave(); return 0;
}
