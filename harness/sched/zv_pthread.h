/* Redirect the pthread primitives used by zstd (through lib/common/threading.h) to the
 * deterministic scheduler of zv_sched.c.  Include this BEFORE any zstd source; never include it
 * when compiling zv_sched.c itself (it uses the real primitives for its baton). */
#ifndef ZV_PTHREAD_H
#define ZV_PTHREAD_H
#ifndef __ASSEMBLER__   /* the library build pre-includes this header for the .S file too */
#include <pthread.h>
#include "zv_sched.h"

#define pthread_mutex_init(m, a)     zv_mutex_init((m), (a))
#define pthread_mutex_destroy(m)     zv_mutex_destroy((m))
#define pthread_mutex_lock(m)        zv_mutex_lock((m))
#define pthread_mutex_unlock(m)      zv_mutex_unlock((m))
#define pthread_cond_init(c, a)      zv_cond_init((c), (a))
#define pthread_cond_destroy(c)      zv_cond_destroy((c))
#define pthread_cond_wait(c, m)      zv_cond_wait((c), (m))
#define pthread_cond_signal(c)       zv_cond_signal((c))
#define pthread_cond_broadcast(c)    zv_cond_broadcast((c))
#define pthread_create(t, a, f, x)   zv_pthread_create((t), (a), (f), (x))
#define pthread_join(t, r)           zv_pthread_join((t), (r))
#endif /* __ASSEMBLER__ */
#endif
