/* Deterministic cooperative scheduler over real threads (one baton): exactly one thread runs at a
 * time; at every synchronisation call the running thread yields and the scheduler picks the next
 * enabled thread from an explicit schedule, then from a policy (PRNG or "no preemption").
 * pthread_cond_signal's choice of the woken waiter is a scheduling decision as well. */
#ifndef ZV_SCHED_H
#define ZV_SCHED_H
#include <pthread.h>

#define ZV_MAXT 24
#ifndef ZV_MAXSTEPS
#define ZV_MAXSTEPS 4096
#endif

typedef enum { ZS_NONE = 0, ZS_RUN, ZS_MUTEX, ZS_COND, ZS_JOIN, ZS_DONE } zv_status;
typedef enum { ZV_POLICY_RANDOM = 0, ZV_POLICY_NOPREEMPT = 1 } zv_policy;

typedef struct {
    int t;            /* thread that executed the step */
    int w;            /* wake choice used by the step (index among the waiters, tid order) */
    int nwake;        /* number of candidate waiters when the step signalled (0 otherwise) */
    unsigned enabled; /* bit mask of the threads that were enabled when the step was chosen */
    int prev_enabled; /* the thread of the previous step was still enabled */
} zv_trace_step;

typedef struct {
    /* explicit schedule prefix */
    int sched_len; int sched_t[ZV_MAXSTEPS]; int sched_w[ZV_MAXSTEPS];
    zv_policy policy; unsigned long long seed; int stay_pct;
    int first_worker_tid;     /* tid given to the first pthread_create'd thread */
    /* callbacks (called with the baton held, no other thread running) */
    void (*on_step)(int step_index, int tid, int w);   /* after each step; step_index -1 = initial state */
    void (*on_stuck)(void);                              /* no enabled thread, some thread unfinished; must not return */
    /* (appended for C11) optional policy hook, consulted after the explicit schedule prefix and before [policy]:
     * returns the tid to run next among enabled[0..n) or -1 to fall back on [policy]; me = thread that just ran */
    int (*choose)(int step_index, int me, const int* enabled, int n);
    /* (appended for C12's shared-pool harness) optional: called before the run is stopped with exit status 6 because the code under
     * test used a synchronisation object wrongly (lock / wait on a destroyed object, destroy of a locked mutex or of a condition
     * with waiters, unlock by a non-owner) */
    void (*on_fatal)(const char* what);
    /* (appended for C12) fault injection driven by the schedule.  0 = off: pthread_create never fails and zv_step_fault() returns
     * 0.  Otherwise the [w] of a step is also its failure point: zv_step_fault() returns the w of the step being executed (explicit
     * prefix: sched_w; after it, under ZV_POLICY_RANDOM, a non-zero value with probability fault_pct %), w = 1 is for the caller
     * (an allocation failure), and the (k+1)-th pthread_create of the step fails with EAGAIN when w = k + 2. */
    int fault_enable; int fault_pct;
} zv_params;

void zv_sched_begin(const zv_params* p);   /* calling thread becomes tid 0 */
void zv_sched_end(void);                   /* tid 0 finished its program (last step of the run) */
int  zv_spawn(int tid, void* (*fn)(void*), void* arg);   /* harness-level thread with a chosen tid; not a yield point */
void zv_join_tid(int tid);                 /* yield point: enabled when tid is done */
int  zv_self(void);
int  zv_nthreads(void);                    /* highest tid in use + 1 */
zv_status zv_thread_status(int tid, void** obj);
char zv_thread_op(int tid);              /* for ZS_RUN: the operation the thread stands at: U unlock, W cond_wait, S signal, B broadcast */
int  zv_mutex_owner(const pthread_mutex_t* m);
int  zv_schedule_mismatch(void);           /* the explicit schedule named a disabled thread at some step */
int  zv_step_fault(int nalt);               /* w of the current step as a failure point (0 = none); nalt = number of alternatives the
                                               caller knows of (recorded in the trace for the exhaustive search) */
void zv_fail_create_at(int k);              /* the k-th pthread_create from now on (1-based) fails once, whatever the schedule; 0 = off */
int  zv_total_faults(void);                 /* number of pthread_create failures injected so far, all threads */
int  zv_thread_faults(void);                /* number of pthread_create failures injected into the calling thread so far */
int  zv_trace_len(void);
const zv_trace_step* zv_trace(void);

int zv_mutex_init(pthread_mutex_t* m, const pthread_mutexattr_t* a);
int zv_mutex_destroy(pthread_mutex_t* m);
int zv_mutex_lock(pthread_mutex_t* m);
int zv_mutex_unlock(pthread_mutex_t* m);
int zv_cond_init(pthread_cond_t* c, const pthread_condattr_t* a);
int zv_cond_destroy(pthread_cond_t* c);
int zv_cond_wait(pthread_cond_t* c, pthread_mutex_t* m);
int zv_cond_signal(pthread_cond_t* c);
int zv_cond_broadcast(pthread_cond_t* c);
int zv_pthread_create(pthread_t* t, const pthread_attr_t* a, void* (*f)(void*), void* x);
int zv_pthread_join(pthread_t t, void** r);
#endif
