/* c17_hunt: random round-trip hunts through the sequence-level API (property C17, round 3).  NOT part of ./check C17: a scratch tool kept
 * for later rounds (it found finding C17-generateSequences-ldm-opt-matchlength-below-minmatch).
 *   build : gcc -O2 -g -DZSTD_MULTITHREAD -I/repo/lib -I/repo/lib/common harness/c17_hunt.c <libzstd.a from zv.core.build_lib('o1'|'asan')> -lpthread
 *   run   : c17_hunt <g|p|c> <first seed> <count>       (exit 1 and FAIL lines on stderr when a case fails; failing lists are dumped to
 *           /verif/build/wip/C17r3/fail_*.txt; HUNT_V=1 prints every seed, HUNT_LOG=1 the producer calls, HUNT_NOCKS / HUNT_FB / HUNT_VAL override)
 *   g : ZSTD_generateSequences (levels, strategies, LDM, minMatch, windowLog, raw-content dictionaries load/byRef/cdict, optionally with a registered
 *       producer + fallback) -> valid-parse check -> ZSTD_compressSequences with the same parameters, explicit delimiters and merged / delimiter-free
 *       with small block sizes, validation on/off, same or fresh context -> ZSTD_decompress_usingDict == source
 *   p : ZSTD_compress2 / ZSTD_compressStream2 (chunks, flushes, stable input, pledged size, a first frame on the same context) with a producer that
 *       answers random valid parses at the block's frame position (repeat offsets, bound offsets, dictionary), random failures + fallback,
 *       targetCBlockSize, block splitter, validation -> decode == source
 *   c : corrupted lists with validation on: no crash (ASan build), an accepted frame must decode without error (overruns in delimiter-free mode excluded)
 */
#define ZSTD_STATIC_LINKING_ONLY
#include "zstd.h"
#include "zstd_errors.h"
#include <stdio.h>
#include <stdlib.h>
#include <string.h>
#include <stdint.h>

typedef unsigned char u8;
static uint64_t S;
static uint64_t rnd(void) { S ^= S >> 12; S ^= S << 25; S ^= S >> 27; return S * 2685821657736338717ULL; }
static unsigned ru(unsigned n) { return n ? (unsigned)(rnd() % n) : 0; }
static int chance(int pct) { return (int)ru(100) < pct; }
#define PICK(a) ((a)[ru(sizeof(a) / sizeof((a)[0]))])

/* all = dict ++ src ; generate src with LZ structure reaching into the dictionary */
static void gen_src(u8* all, size_t dn, size_t n, int kind) {
    size_t p = dn, end = dn + n; unsigned alpha = kind == 0 ? 256 : (kind == 1 ? 4 : 1 + ru(40));
    size_t rep[3] = {1, 4, 8};
    while (p < end) {
        if (p == 0 || chance(kind == 3 ? 10 : 35)) {
            size_t l = 1 + ru(chance(5) ? 3000 : 12), i;
            for (i = 0; i < l && p < end; i++) all[p++] = (u8)ru(alpha);
        } else {
            size_t off, l, i; int c = ru(10);
            if (c < 4) off = rep[ru(3)];
            else if (c < 5) off = rep[0] > 1 && chance(50) ? rep[0] - 1 : rep[0] + 1;
            else if (c < 7) off = 1 + ru(32);
            else if (c < 8) off = p;
            else off = 1 + (size_t)(rnd() % p);
            if (off > p || off == 0) off = p;
            l = chance(3) ? 3 + ru(200000) : (chance(20) ? 3 + ru(600) : 3 + ru(12));
            for (i = 0; i < l && p < end; i++, p++) all[p] = all[p - off];
            if (off != rep[0]) { rep[2] = rep[1]; rep[1] = rep[0]; rep[0] = off; }
        }
    }
}

typedef struct { int level, wlog, mm, strat, ldm, hlog, clog, slog, tlen, mbs, cks, split, tcb, litmode, ers; } par_t;
static void rnd_params(par_t* P, size_t n) {
    static const int L[] = {1, 1, 2, 3, 3, 4, 5, 6, 7, 9, 12, 13, 16, 19, -1, -5};
    static const int W[] = {10, 10, 11, 12, 14, 17, 18, 20, 0, 0};
    static const int B[] = {0, 0, 1024, 1025, 2048, 4096, 65536, 131071};
    memset(P, 0, sizeof(*P));
    P->level = PICK(L); if (n > 150000 && P->level > 12) P->level = 5;
    P->wlog = PICK(W);
    P->mm = chance(40) ? 3 + (int)ru(5) : 0;
    P->strat = chance(40) ? 1 + (int)ru(9) : 0; if (n > 100000 && P->strat > 6) P->strat = 6;
    P->ldm = chance(25);
    P->hlog = chance(30) ? 6 + (int)ru(12) : 0; P->clog = chance(30) ? 6 + (int)ru(12) : 0; P->slog = chance(30) ? 1 + (int)ru(6) : 0;
    P->tlen = chance(20) ? (int)ru(300) : -1;
    P->mbs = PICK(B); P->cks = chance(20); P->split = (int)ru(3); P->tcb = 0; P->litmode = (int)ru(3); P->ers = (int)ru(3);
}
static size_t setp(ZSTD_CCtx* c, const par_t* P, int forGen) {
    size_t r = 0;
#define SP(k, v) do { size_t e_ = ZSTD_CCtx_setParameter(c, k, v); if (ZSTD_isError(e_)) r = e_; } while (0)
    SP(ZSTD_c_compressionLevel, P->level);
    if (P->wlog) SP(ZSTD_c_windowLog, P->wlog);
    if (P->mm) SP(ZSTD_c_minMatch, P->mm);
    if (P->strat) SP(ZSTD_c_strategy, P->strat);
    if (P->hlog) SP(ZSTD_c_hashLog, P->hlog);
    if (P->clog) SP(ZSTD_c_chainLog, P->clog);
    if (P->slog) SP(ZSTD_c_searchLog, P->slog);
    if (P->tlen >= 0) SP(ZSTD_c_targetLength, P->tlen);
    if (P->ldm && forGen) { SP(ZSTD_c_enableLongDistanceMatching, 1); SP(ZSTD_c_ldmMinMatch, 4 + (int)(P->hlog % 60)); SP(ZSTD_c_ldmHashLog, 6 + (P->clog % 10)); SP(ZSTD_c_ldmHashRateLog, P->slog % 4); }
    SP(ZSTD_c_maxBlockSize, P->mbs);
    SP(ZSTD_c_checksumFlag, P->cks);
    SP(ZSTD_c_useBlockSplitter, P->split);
    if (P->tcb) SP(ZSTD_c_targetCBlockSize, P->tcb);
    SP(ZSTD_c_literalCompressionMode, P->litmode);
    return r;
}
static void pr_params(const par_t* P) {
    fprintf(stderr, "level=%d wlog=%d mm=%d strat=%d ldm=%d hlog=%d clog=%d slog=%d tlen=%d mbs=%d cks=%d split=%d tcb=%d lit=%d ers=%d",
            P->level, P->wlog, P->mm, P->strat, P->ldm, P->hlog, P->clog, P->slog, P->tlen, P->mbs, P->cks, P->split, P->tcb, P->litmode, P->ers);
}
/* valid parse check (explicit delimiters carry literals) ; returns -1 ok, else index of first bad */
static long check_parse(const u8* all, size_t dn, size_t n, const ZSTD_Sequence* q, size_t nq, int* why) {
    size_t p = 0, i, k;
    for (i = 0; i < nq; i++) {
        p += q[i].litLength;
        if (p > n) { *why = 1; return (long)i; }
        if (q[i].offset == 0 && q[i].matchLength == 0) continue;
        if (q[i].offset == 0 || q[i].offset > p + dn) { *why = 2; return (long)i; }
        if (q[i].matchLength < 3 || p + q[i].matchLength > n) { *why = 3; return (long)i; }
        for (k = 0; k < q[i].matchLength; k++) if (all[dn + p + k] != all[dn + p + k - q[i].offset]) { *why = 4; return (long)i; }
        p += q[i].matchLength;
    }
    if (p > n) { *why = 5; return (long)nq; }
    *why = (p == n) ? 0 : 6; return -1;
}
static int decode_cmp(const u8* f, size_t fn, const u8* d, size_t dn, const u8* x, size_t n, const char** err) {
    u8* out = (u8*)malloc(n + 64); ZSTD_DCtx* dc = ZSTD_createDCtx(); size_t r; int res;
    ZSTD_DCtx_setParameter(dc, ZSTD_d_windowLogMax, 31);
    r = ZSTD_decompress_usingDict(dc, out, n + 64, f, fn, d, dn);
    if (ZSTD_isError(r)) { *err = ZSTD_getErrorName(r); res = 2; }
    else if (r != n || (n && memcmp(out, x, n))) { *err = "diff"; res = 1; }
    else res = 0;
    ZSTD_freeDCtx(dc); free(out); return res;
}
static void dump_case(const char* tag, uint64_t seed, const u8* all, size_t dn, size_t n, const ZSTD_Sequence* q, size_t nq) {
    char name[256]; FILE* f; size_t i;
    snprintf(name, sizeof(name), "/verif/build/wip/C17r3/fail_%s_%llu.txt", tag, (unsigned long long)seed);
    f = fopen(name, "w"); if (!f) return;
    fprintf(f, "dn=%lu n=%lu nq=%lu\nall=", (unsigned long)dn, (unsigned long)n, (unsigned long)nq);
    for (i = 0; i < dn + n; i++) fprintf(f, "%02x", all[i]);
    fprintf(f, "\nseqs=");
    for (i = 0; i < nq; i++) fprintf(f, "%s%u:%u:%u", i ? "," : "", q[i].offset, q[i].litLength, q[i].matchLength);
    fprintf(f, "\n"); fclose(f);
}

static int give_dict(ZSTD_CCtx* c, int dmode, const u8* d, size_t dn, ZSTD_CDict** cd, int level) {
    size_t r = 0;
    if (dn == 0 || dmode == 0) return 0;
    if (dmode == 1) r = ZSTD_CCtx_loadDictionary_advanced(c, d, dn, ZSTD_dlm_byCopy, ZSTD_dct_rawContent);
    else if (dmode == 2) r = ZSTD_CCtx_loadDictionary_advanced(c, d, dn, ZSTD_dlm_byRef, ZSTD_dct_rawContent);
    else { ZSTD_compressionParameters cp = ZSTD_getCParams(level, 0, dn);
           *cd = ZSTD_createCDict_advanced(d, dn, ZSTD_dlm_byRef, ZSTD_dct_rawContent, cp, ZSTD_defaultCMem);
           r = ZSTD_CCtx_refCDict(c, *cd); }
    return ZSTD_isError(r) ? 1 : 0;
}

static long g_fail = 0, g_ok = 0, g_rej = 0, g_generr = 0;
typedef struct { const u8* all; size_t dn, n; size_t pos; unsigned W; int failpct; int nofinal; long calls, fails, lost; int style; int* heads; } prod_t;
static size_t producer(void* st, ZSTD_Sequence* o, size_t cap, const void* src, size_t srcSize, const void* dict, size_t dictSize, int level, size_t windowSize);
#define HB 15
static unsigned h4(const u8* p);

static void mode_g(uint64_t seed) {
    static const size_t N[] = {60, 700, 1500, 5000, 20000, 70000, 131072, 131075, 140000, 200000, 300000};
    size_t n = PICK(N) + ru(50), dn = chance(40) ? 1 + ru(chance(50) ? 300 : 40000) : 0;
    u8* all = (u8*)malloc(dn + n + 8); par_t P; int dmode = dn ? 1 + (int)ru(3) : 0;
    ZSTD_CCtx* c = ZSTD_createCCtx(); ZSTD_CDict* cd = NULL; ZSTD_CDict* cd2 = NULL;
    size_t bound = ZSTD_sequenceBound(n), nq, cap = ZSTD_compressBound(n) + 64 + 12 * (n / 1024 + 4); ZSTD_Sequence* q = (ZSTD_Sequence*)malloc((bound + 1) * sizeof(*q));
    u8* out = (u8*)malloc(cap); int why = 0; long bad; int v; int withprod = chance(20); prod_t pr;
    gen_src(all, 0, dn + n, (int)ru(4));
    rnd_params(&P, n);
    if (withprod) P.mm = 3;   /* the producer answers three-byte matches: zstd.h asks for minMatch <= the smallest match */
    if (ZSTD_isError(setp(c, &P, 1))) goto done;
    if (give_dict(c, dmode, all, dn, &cd, P.level)) goto done;
    if (chance(20)) ZSTD_CCtx_setParameter(c, ZSTD_c_contentSizeFlag, 0);
    if (chance(20)) ZSTD_CCtx_setParameter(c, ZSTD_c_dictIDFlag, 0);
    if (withprod) {
        int i; memset(&pr, 0, sizeof(pr)); pr.all = all; pr.dn = dn; pr.n = n; pr.failpct = chance(50) ? 20 : 0; pr.nofinal = chance(30); pr.style = (int)ru(3);
        pr.heads = (int*)malloc(sizeof(int) << HB); for (i = 0; i < (1 << HB); i++) pr.heads[i] = -1;
        for (i = 0; i + 4 <= (int)dn; i++) pr.heads[h4(all + i)] = i;
        ZSTD_CCtx_setParameter(c, ZSTD_c_enableLongDistanceMatching, 0);
        ZSTD_CCtx_setParameter(c, ZSTD_c_enableSeqProducerFallback, 1);
        ZSTD_registerSequenceProducer(c, &pr, producer);
    }
    nq = ZSTD_generateSequences(c, q, bound, all + dn, n);
    if (withprod) { ZSTD_registerSequenceProducer(c, NULL, NULL); free(pr.heads); }
    if (ZSTD_isError(nq)) { g_generr++; goto done; }
    bad = check_parse(all, dn, n, q, nq, &why);
    if (bad >= 0 || why != 0) {
        fprintf(stderr, "FAIL seed=%llu generateSequences not a valid parse: idx=%ld why=%d n=%lu dn=%lu dmode=%d withprod=%d ", (unsigned long long)seed, bad, why, (unsigned long)n, (unsigned long)dn, dmode, withprod);
        pr_params(&P); fprintf(stderr, "\n"); g_fail++; dump_case("gen", seed, all, dn, n, q, nq); goto done;
    }
    for (v = 0; v < 3; v++) {
        ZSTD_CCtx* c2; int same = chance(30), val = withprod ? 0 : chance(60), ers = (int)ru(3), r; size_t fs; const char* err = ""; size_t nq2 = nq; par_t P2 = P;
        ZSTD_Sequence* q2 = (ZSTD_Sequence*)malloc((3 * nq + 4) * sizeof(*q)); memcpy(q2, q, nq * sizeof(*q));
        if (v == 2) {   /* explicit delimiters with empty blocks and literals-only blocks added: still a valid parse */
            size_t i, k = 0; ZSTD_Sequence z; memset(&z, 0, sizeof(z));
            if (chance(50)) q2[k++] = z;
            for (i = 0; i < nq; i++) {
                if (q[i].offset == 0 && q[i].matchLength == 0) {
                    if (q[i].litLength > 1 && chance(40)) { unsigned a = 1 + ru(q[i].litLength - 1); q2[k] = q[i]; q2[k].litLength = a; k++; q2[k] = q[i]; q2[k].litLength = q[i].litLength - a; k++; }
                    else q2[k++] = q[i];
                    if (chance(30)) q2[k++] = z;
                } else q2[k++] = q[i];
            }
            nq2 = k;
        }
        if (v == 1) { static const int B2[] = {0, 1024, 1024, 1300, 4096, 50000}; nq2 = ZSTD_mergeBlockDelimiters(q2, nq); P2.mbs = PICK(B2); }
        if (same) { c2 = c; } else { c2 = ZSTD_createCCtx(); }
        setp(c2, &P2, 0);
        ZSTD_CCtx_setParameter(c2, ZSTD_c_enableLongDistanceMatching, 0 + 2 * 0);
        if (!same) give_dict(c2, dmode, all, dn, &cd2, P.level);
        ZSTD_CCtx_setParameter(c2, ZSTD_c_blockDelimiters, v != 1 ? ZSTD_sf_explicitBlockDelimiters : ZSTD_sf_noBlockDelimiters);
        ZSTD_CCtx_setParameter(c2, ZSTD_c_validateSequences, val);
        ZSTD_CCtx_setParameter(c2, ZSTD_c_searchForExternalRepcodes, ers);
        if (getenv("HUNT_STABLE")) { int mask = atoi(getenv("HUNT_STABLE")); int a = (int)ru(2), b = (int)ru(2), c3 = chance(30), d3 = chance(30), hint = (int)ru(100000), e3 = chance(20), f3 = chance(10);
            if (mask & 1) ZSTD_CCtx_setParameter(c2, ZSTD_c_stableInBuffer, a); if (mask & 2) ZSTD_CCtx_setParameter(c2, ZSTD_c_stableOutBuffer, b);
            if ((mask & 4) && c3) ZSTD_CCtx_setParameter(c2, ZSTD_c_format, ZSTD_f_zstd1); if ((mask & 8) && d3) ZSTD_CCtx_setParameter(c2, ZSTD_c_srcSizeHint, hint);
            if ((mask & 16) && e3) ZSTD_CCtx_setPledgedSrcSize(c2, n); if ((mask & 32) && f3) ZSTD_CCtx_setPledgedSrcSize(c2, n + 1);
            if (getenv("HUNT_V")) fprintf(stderr, "  stable: in=%d out=%d fmt=%d hint=%d(%d) pledged=%d pledged+1=%d\n", a, b, c3, d3, hint, e3, f3); }
        fs = ZSTD_compressSequences(c2, out, cap, q2, nq2, all + dn, n);
        if (ZSTD_isError(fs)) {
            fprintf(stderr, "FAIL seed=%llu compressSequences refused library parse: %s v=%d same=%d val=%d ers=%d n=%lu dn=%lu dmode=%d nq=%lu ", (unsigned long long)seed, ZSTD_getErrorName(fs), v, same, val, ers, (unsigned long)n, (unsigned long)dn, dmode, (unsigned long)nq2);
            pr_params(&P2); fprintf(stderr, "\n"); g_fail++; dump_case(v ? "rejm" : "reje", seed, all, dn, n, q2, nq2);
        } else if ((r = decode_cmp(out, fs, all, dn, all + dn, n, &err)) != 0) {
            fprintf(stderr, "FAIL seed=%llu round trip: %s v=%d same=%d val=%d ers=%d n=%lu dn=%lu dmode=%d nq=%lu ", (unsigned long long)seed, err, v, same, val, ers, (unsigned long)n, (unsigned long)dn, dmode, (unsigned long)nq2);
            pr_params(&P2); fprintf(stderr, "\n"); g_fail++; dump_case(v ? "rtm" : "rte", seed, all, dn, n, q2, nq2);
        } else g_ok++;
        if (!same) ZSTD_freeCCtx(c2);
        if (cd2) { ZSTD_freeCDict(cd2); cd2 = NULL; }
        free(q2);
    }
done:
    ZSTD_freeCCtx(c); if (cd) ZSTD_freeCDict(cd);
    free(all); free(q); free(out);
}

/* ---- producer: random valid parses of the block at its frame position ---- */
static unsigned h4(const u8* p) { unsigned v; memcpy(&v, p, 4); return (v * 2654435761u) >> (32 - HB); }
static size_t producer(void* st, ZSTD_Sequence* o, size_t cap, const void* src, size_t srcSize, const void* dict, size_t dictSize, int level, size_t windowSize) {
    prod_t* P = (prod_t*)st; const u8* x = P->all + P->dn; size_t pos = P->pos, k, no = 0, p, lit = 0, end; size_t rep[3] = {0, 0, 0};
    (void)dict; (void)dictSize; (void)level;
    P->calls++;
    /* locate the block in the source (tiny blocks never reach the producer) */
    for (k = 0; k < 64 && pos + srcSize <= P->n; k++, pos++) if (!memcmp(x + pos, src, srcSize)) break;
    if (k == 64 || pos + srcSize > P->n) { P->lost++; return ZSTD_SEQUENCE_PRODUCER_ERROR; }
    if (getenv("HUNT_LOG")) { size_t a = 0, j; for (j = 0; j < 64 && pos + j + srcSize <= P->n; j++) if (!memcmp(x + pos + j, src, srcSize)) a++;
        fprintf(stderr, "  call %ld: expected %lu found %lu size %lu alt-matches %lu window %lu\n", P->calls, (unsigned long)P->pos, (unsigned long)pos, (unsigned long)srcSize, (unsigned long)a, (unsigned long)windowSize); }
    P->pos = pos + srcSize;
    {   size_t a = 0, j; for (j = 0; j < 64 && pos + j + srcSize <= P->n; j++) if (!memcmp(x + pos + j, src, srcSize)) a++;
        if (a > 1) { o[0].offset = 0; o[0].matchLength = 0; o[0].litLength = (unsigned)srcSize; o[0].rep = 0; return 1; } }   /* position ambiguous (periodic data after a tiny block): literals only */
    P->W = (unsigned)windowSize;
    if (chance(P->failpct)) { P->fails++; if (getenv("HUNT_LOG")) fprintf(stderr, "    -> fails\n"); return chance(50) ? ZSTD_SEQUENCE_PRODUCER_ERROR : (chance(50) ? 0 : cap + 1); }
    p = pos; end = pos + srcSize;
    while (p + 3 <= end && no + 2 < cap) {
        /* candidates: repeat offsets, offset 1, hash chain head, bound offsets */
        size_t bound = (p > P->W) ? P->W : p + P->dn, off = 0, ml = 0, c;
        size_t cand[8]; int nc = 0;
        if (rep[0]) cand[nc++] = rep[0]; if (rep[1]) cand[nc++] = rep[1]; if (rep[2]) cand[nc++] = rep[2];
        if (rep[0] > 1) cand[nc++] = rep[0] - 1;
        cand[nc++] = 1; cand[nc++] = bound;
        if (p + 4 <= end) { int hp = P->heads[h4(x + p)]; if (hp >= 0 && (size_t)hp < p + P->dn) cand[nc++] = p + P->dn - (size_t)hp; }
        if (bound > 0) cand[nc++] = 1 + (size_t)(rnd() % bound);
        for (c = 0; c < (size_t)nc; c++) {
            size_t of = cand[c], l = 0;
            if (of == 0 || of > bound) continue;
            while (p + l < end && x[p + l] == x[(long)p + (long)l - (long)of]) l++;
            if (l >= 3 && (l > ml || (l == ml && chance(50)) || (P->style == 1 && chance(30)))) { ml = l; off = of; }
        }
        if (p + 4 <= P->n) P->heads[h4(x + p)] = (int)(p + P->dn);
        if (ml >= 3 && !chance(P->style == 2 ? 40 : 5)) {
            if (P->style == 1 || chance(20)) { size_t cut = 3 + ru(6); if (cut < ml) ml = cut; }
            o[no].offset = (unsigned)off; o[no].litLength = (unsigned)lit; o[no].matchLength = (unsigned)ml; o[no].rep = 0; no++;
            if (off != rep[0] || lit == 0) { if (off != rep[0]) { rep[2] = rep[1]; rep[1] = rep[0]; rep[0] = off; } }
            p += ml; lit = 0;
        } else { p++; lit++; }
    }
    lit += end - p;
    if (P->nofinal && lit == 0 && no > 0) return no;
    o[no].offset = 0; o[no].matchLength = 0; o[no].litLength = (unsigned)lit; o[no].rep = 0; no++;
    return no;
}

static void mode_p(uint64_t seed) {
    static const size_t N[] = {700, 1500, 3000, 5000, 9000, 20000, 70000, 140000, 300000};
    size_t n = PICK(N) + ru(50), dn = chance(40) ? 1 + ru(chance(50) ? 300 : 40000) : 0;
    u8* all = (u8*)malloc(dn + n + 8); par_t P; int dmode = dn ? 1 + (int)ru(3) : 0, i;
    ZSTD_CCtx* c = ZSTD_createCCtx(); ZSTD_CDict* cd = NULL; prod_t pr;
    size_t cap = ZSTD_compressBound(n) + 64 + 2 * (n / 1000 + 10) * 4; u8* out = (u8*)malloc(cap);
    int val = chance(60), fb = chance(50), ers = (int)ru(3), stream = (int)ru(4), stableIn = 0, r; const char* err = ""; size_t fs = 0; int wl = 0;
    static const int T[] = {0, 0, 1340, 1500, 3000, 20000, 131072};
    gen_src(all, 0, dn + n, (int)ru(4));
    rnd_params(&P, n); P.ldm = 0; P.tcb = PICK(T); if (P.level > 12 || P.strat > 6) { if (n > 30000) { P.level = 3; P.strat = P.strat > 6 ? 6 : P.strat; } }
    memset(&pr, 0, sizeof(pr)); pr.all = all; pr.dn = dn; pr.n = n; pr.failpct = fb ? (chance(50) ? 10 : 50) : 0; pr.nofinal = chance(30); pr.style = (int)ru(3);
    pr.heads = (int*)malloc(sizeof(int) << HB); for (i = 0; i < (1 << HB); i++) pr.heads[i] = -1;
    for (i = 0; i + 4 <= (int)dn; i++) pr.heads[h4(all + i)] = i;
    if (getenv("HUNT_NOCKS")) P.cks = 0;
    if (getenv("HUNT_FB")) { fb = atoi(getenv("HUNT_FB")); pr.failpct = fb ? pr.failpct : 0; }
    if (getenv("HUNT_VAL")) val = atoi(getenv("HUNT_VAL"));
    if (ZSTD_isError(setp(c, &P, 0))) goto done;
    ZSTD_CCtx_setParameter(c, ZSTD_c_validateSequences, val);
    ZSTD_CCtx_setParameter(c, ZSTD_c_enableSeqProducerFallback, fb);
    ZSTD_CCtx_setParameter(c, ZSTD_c_searchForExternalRepcodes, ers);
    if (give_dict(c, dmode, all, dn, &cd, P.level)) goto done;
    ZSTD_registerSequenceProducer(c, &pr, producer);
    {   ZSTD_inBuffer in; ZSTD_outBuffer ob; size_t rem;
        ob.dst = out; ob.size = cap; ob.pos = 0; in.src = all + dn; in.size = 0; in.pos = 0;
        if (chance(30)) {   /* a first frame on the same context (same source, producer answering), result thrown away */
            prod_t pr0 = pr; int i; size_t r0;
            pr0.heads = (int*)malloc(sizeof(int) << HB); for (i = 0; i < (1 << HB); i++) pr0.heads[i] = pr.heads[i];
            ZSTD_registerSequenceProducer(c, &pr0, producer);
            r0 = ZSTD_compress2(c, out, chance(30) ? 20 + ru(200) : cap, all + dn, chance(50) ? n : n / 2);   /* sometimes fails for lack of room */
            free(pr0.heads);
            if (ZSTD_isError(r0) || chance(50)) ZSTD_CCtx_reset(c, ZSTD_reset_session_only);
            ZSTD_registerSequenceProducer(c, &pr, producer);
        }
        if (stream == 0) {
            fs = ZSTD_compress2(c, out, cap, all + dn, n);
        } else {
            if (stream == 3 && chance(50)) { stableIn = 1; ZSTD_CCtx_setParameter(c, ZSTD_c_stableInBuffer, 1); }
            if (chance(50)) ZSTD_CCtx_setPledgedSrcSize(c, n);
            in.size = 0;
            for (;;) {
                size_t step = chance(30) ? 1 + ru(20) : 1 + ru(chance(50) ? 3000 : 200000); ZSTD_EndDirective dir;
                if (in.size + step > n) step = n - in.size;
                in.size += step;
                dir = in.size == n ? ZSTD_e_end : (chance(30) ? ZSTD_e_flush : ZSTD_e_continue);
                do { rem = ZSTD_compressStream2(c, &ob, &in, dir); } while (!ZSTD_isError(rem) && (dir != ZSTD_e_continue ? rem != 0 : (in.pos < in.size && !stableIn)) && ob.pos < ob.size);
                if (ZSTD_isError(rem)) { fs = rem; break; }
                if (dir == ZSTD_e_end && rem == 0) { fs = ob.pos; break; }
                if (ob.pos == ob.size) { fs = (size_t)-ZSTD_error_dstSize_tooSmall; break; }
            }
        }
    }
    if (ZSTD_isError(fs)) {
        int expected = (!fb && pr.fails) || (ZSTD_getErrorCode(fs) == ZSTD_error_dstSize_tooSmall && 0);
        if (!expected) {
            fprintf(stderr, "FAIL seed=%llu producer frame refused: %s val=%d fb=%d ers=%d stream=%d stable=%d n=%lu dn=%lu dmode=%d calls=%ld fails=%ld lost=%ld nofinal=%d style=%d ", (unsigned long long)seed, ZSTD_getErrorName(fs), val, fb, ers, stream, stableIn, (unsigned long)n, (unsigned long)dn, dmode, pr.calls, pr.fails, pr.lost, pr.nofinal, pr.style);
            pr_params(&P); fprintf(stderr, "\n"); g_fail++;
        } else g_rej++;
    } else if ((r = decode_cmp(out, fs, all, dn, all + dn, n, &err)) != 0) {
        fprintf(stderr, "FAIL seed=%llu producer round trip: %s val=%d fb=%d ers=%d stream=%d stable=%d n=%lu dn=%lu dmode=%d calls=%ld fails=%ld lost=%ld nofinal=%d style=%d ", (unsigned long long)seed, err, val, fb, ers, stream, stableIn, (unsigned long)n, (unsigned long)dn, dmode, pr.calls, pr.fails, pr.lost, pr.nofinal, pr.style);
        pr_params(&P); fprintf(stderr, "\n"); g_fail++;
    } else { g_ok++; if (pr.lost) { fprintf(stderr, "NOTE seed=%llu producer lost=%ld (window told %u)\n", (unsigned long long)seed, pr.lost, pr.W); } }
done:
    ZSTD_freeCCtx(c); if (cd) ZSTD_freeCDict(cd);
    free(all); free(out); free(pr.heads);
}

/* ---- corrupted lists with validation on: never a crash ; an accepted frame must decode without error ---- */
static void mode_c(uint64_t seed) {
    static const size_t N[] = {60, 700, 1500, 3000, 5000, 20000, 140000};
    size_t n = PICK(N) + ru(50), dn = chance(40) ? 1 + ru(chance(50) ? 300 : 5000) : 0;
    u8* all = (u8*)malloc(dn + n + 8); par_t P; int dmode = dn ? 1 + (int)ru(3) : 0;
    ZSTD_CCtx* c = ZSTD_createCCtx(); ZSTD_CDict* cd = NULL; ZSTD_CDict* cd2 = NULL;
    size_t bound = ZSTD_sequenceBound(n), nq, cap = ZSTD_compressBound(n) + 64; ZSTD_Sequence* q = (ZSTD_Sequence*)malloc((bound + 8) * sizeof(*q));
    u8* out = (u8*)malloc(cap); int v, k, nc;
    gen_src(all, 0, dn + n, (int)ru(4));
    rnd_params(&P, n); if (P.level > 9) P.level = 3; if (P.strat > 5) P.strat = 0; P.ldm = 0; P.cks = 0;
    if (ZSTD_isError(setp(c, &P, 1))) goto done;
    if (give_dict(c, dmode, all, dn, &cd, P.level)) goto done;
    nq = ZSTD_generateSequences(c, q, bound, all + dn, n);
    if (ZSTD_isError(nq)) { g_generr++; goto done; }
    v = (int)ru(2);
    if (v == 1) { static const int B2[] = {0, 1024, 1024, 1300, 4096}; nq = ZSTD_mergeBlockDelimiters(q, nq); P.mbs = PICK(B2); }
    nc = 1 + (int)ru(3);
    for (k = 0; k < nc && nq; k++) {
        size_t i = ru((unsigned)nq); unsigned* f = ru(3) == 0 ? &q[i].offset : (ru(2) ? &q[i].litLength : &q[i].matchLength);
        static const unsigned V[] = {0, 1, 2, 3, 4, 0xFFFF, 0x10000, 0x10002, 0x10003, 0x1FFFF, 0x20000, 0x7FFFFFFF, 0x80000000u, 0xFFFFFFFCu, 0xFFFFFFFDu, 0xFFFFFFFEu, 0xFFFFFFFFu};
        switch (ru(6)) { case 0: *f += 1; break; case 1: *f -= 1; break; case 2: *f = PICK(V); break; case 3: *f += 1u << ru(32); break;
                         case 4: *f = (unsigned)rnd(); break; default: *f = (unsigned)(n + dn) + ru(5) - 2; break; }
    }
    if (chance(10) && nq > 1) nq -= 1 + ru((unsigned)nq > 3 ? 3 : 1);
    {   ZSTD_CCtx* c2 = ZSTD_createCCtx(); size_t fs; ZSTD_Sequence* qx = (ZSTD_Sequence*)malloc((nq ? nq : 1) * sizeof(*q)); u8* xx = (u8*)malloc(n ? n : 1);
        memcpy(qx, q, nq * sizeof(*q)); memcpy(xx, all + dn, n);
        setp(c2, &P, 0); give_dict(c2, dmode, all, dn, &cd2, P.level);
        ZSTD_CCtx_setParameter(c2, ZSTD_c_blockDelimiters, v == 0 ? ZSTD_sf_explicitBlockDelimiters : ZSTD_sf_noBlockDelimiters);
        ZSTD_CCtx_setParameter(c2, ZSTD_c_validateSequences, 1);
        ZSTD_CCtx_setParameter(c2, ZSTD_c_searchForExternalRepcodes, (int)ru(3));
        fs = ZSTD_compressSequences(c2, out, cap, qx, nq, xx, n);
        if (!ZSTD_isError(fs)) {
            u8* back = (u8*)malloc(n + 64); ZSTD_DCtx* dc = ZSTD_createDCtx(); size_t r;
            ZSTD_DCtx_setParameter(dc, ZSTD_d_windowLogMax, 31);
            r = ZSTD_decompress_usingDict(dc, back, n + 64, out, fs, all, dn);
            unsigned long long tot = 0; size_t j; for (j = 0; j < nq; j++) tot += (unsigned long long)qx[j].litLength + qx[j].matchLength;
            if (v == 1 && tot > n) g_generr++;   /* overrun in delimiter-free mode: outside the documented scope */
            else if (ZSTD_isError(r) || r != n) {
                fprintf(stderr, "FAIL seed=%llu accepted under validation but not decodable: %s v=%d n=%lu dn=%lu dmode=%d nq=%lu ", (unsigned long long)seed, ZSTD_isError(r) ? ZSTD_getErrorName(r) : "size", v, (unsigned long)n, (unsigned long)dn, dmode, (unsigned long)nq);
                pr_params(&P); fprintf(stderr, "\n"); g_fail++; dump_case("acc", seed, all, dn, n, qx, nq);
            } else g_ok++;
            ZSTD_freeDCtx(dc); free(back);
        } else g_rej++;
        ZSTD_freeCCtx(c2); if (cd2) ZSTD_freeCDict(cd2); free(qx); free(xx);
    }
done:
    ZSTD_freeCCtx(c); if (cd) ZSTD_freeCDict(cd);
    free(all); free(q); free(out);
}

int main(int argc, char** argv) {
    char mode = argc > 1 ? argv[1][0] : 'g'; uint64_t s0 = argc > 2 ? strtoull(argv[2], NULL, 10) : 1; long cnt = argc > 3 ? atol(argv[3]) : 100, i;
    for (i = 0; i < cnt; i++) {
        uint64_t seed = s0 + (uint64_t)i; S = seed * 0x9E3779B97F4A7C15ULL + 12345; rnd(); rnd();
        if (getenv("HUNT_V")) fprintf(stderr, "seed %llu\n", (unsigned long long)seed);
        if (mode == 'g') mode_g(seed); else if (mode == 'p') mode_p(seed); else mode_c(seed);
    }
    fprintf(stderr, "mode %c seeds %llu..+%ld : ok=%ld rejected-as-expected=%ld generr=%ld FAIL=%ld\n", mode, (unsigned long long)s0, cnt, g_ok, g_rej, g_generr, g_fail);
    return g_fail ? 1 : 0;
}
