/* c02_hist: decoding histories over ONE reused ZSTD_DCtx (C02, round 2): dictionaries / prefixes / DDicts attached between
 * frames, ZSTD_initDStream* / ZSTD_resetDStream / ZSTD_DCtx_reset in the middle of a stream, stable output buffer,
 * ZSTD_decompressStream_simpleArgs, single-call decompression on the same context, legacy frames.
 * Everything comes from the libzstd rebuilt from /repo's working tree; only the q op reads private fields (through #include).
 *
 *  H <id> <dict1hex|-> <dict2hex|-> <streamhex> <ops>
 *      ops (';'-separated), executed in order on one context, one input cursor (ipos) and one output cursor (opos):
 *        ld1 ld2   ZSTD_DCtx_loadDictionary(dict1|dict2)          lr1 lr2   ZSTD_DCtx_loadDictionary_byReference
 *        rd1 rd2   ZSTD_DCtx_refDDict(DDict of dict1|dict2)       rd0       ZSTD_DCtx_refDDict(NULL)
 *        rp1 rp2   ZSTD_DCtx_refPrefix(dict1|dict2)               in        ZSTD_initDStream
 *        iu1 iu2   ZSTD_initDStream_usingDict                     id1 id2   ZSTD_initDStream_usingDDict
 *        rs        ZSTD_resetDStream        xs  ZSTD_DCtx_reset(session_only)     xa  ZSTD_DCtx_reset(session_and_parameters)
 *        ml=<v> so=<v> mdd=<v> wl=<v>   ZSTD_DCtx_setParameter(format | stableOutBuffer | refMultipleDDicts | windowLogMax)
 *        ce        from here on an error of a decompressStream call no longer ends the history (the next op should be a resetting one)
 *        n         free the context, create a new one             j<pos>    ipos := pos       e<pos>   no later call is offered input beyond pos
 *        s<in>:<cap>   one ZSTD_decompressStream call : in = <n> | a (all that remains) | h (last returned hint) ; cap = <n> | r
 *        t<in>:<cap>   the same through ZSTD_decompressStream_simpleArgs
 *        L<in>:<cap>[:<limit>]   repeat s<in>:<cap> until the input is consumed and the last call returned 0 (with a <limit>:
 *                      until the input up to <limit> is consumed, whatever the last call returned), or an error, or 30000 calls
 *        M<in>:<cap>[:<limit>]   the same loop through ZSTD_decompressStream_simpleArgs
 *        q         record the dictionary-selection state: q=<k>,<dictUses>  k = 0 (dctx->ddict NULL) | 1 | 2 (a DDict of dict1 | dict2) | 9
 *        o<len>    ZSTD_decompressDCtx(out+opos, room, stream+ipos, len) ; both cursors advance
 *      -> <id> OK <outhex> rec;rec;...    rec = <op>=<ret|Ename>  for set-up ops,
 *                                               s:<offered>:<cap>:<consumed>:<produced>:<ret|Ename> for calls, o:<len>:<ret|Ename>
 *      with so=1 every call gets the whole output area {out, OUTCAP, opos} (stable output buffer), <cap> is ignored.
 *  T <id> <seed>    a structured dictionary trained by ZDICT_trainFromBuffer on 200 synthetic samples (deterministic) -> <id> OK <dicthex>
 */
#define ZSTD_STATIC_LINKING_ONLY
#define ZSTD_DISABLE_DEPRECATE_WARNINGS
#include "decompress/zstd_ddict.c"        /* the two translation units under study: dctx->ddict / dctx->dictUses are read by the q op */
#include "decompress/zstd_decompress.c"
#include "zdict.h"
#include <stdio.h>
#include <stdlib.h>
#include <string.h>

static unsigned char* unhex(const char* s, size_t* n) {
    size_t l, i; unsigned char* b;
    if (!strcmp(s, "-")) { *n = 0; return (unsigned char*)calloc(1, 1); }
    l = strlen(s) / 2; b = (unsigned char*)malloc(l + 1);
    for (i = 0; i < l; i++) { unsigned v; sscanf(s + 2 * i, "%2x", &v); b[i] = (unsigned char)v; }
    *n = l; return b;
}
static void puthex(const unsigned char* b, size_t n) {
    static const char* H = "0123456789abcdef"; size_t i;
    if (n == 0) { putchar('-'); return; }
    for (i = 0; i < n; i++) { putchar(H[b[i] >> 4]); putchar(H[b[i] & 15]); }
}
static size_t rl; static size_t rcap; static char* rec;
static void radd(const char* s) { size_t l = strlen(s); if (rl + l + 2 > rcap) { rcap = 2 * rcap + l; rec = (char*)realloc(rec, rcap); } memcpy(rec + rl, s, l + 1); rl += l; }
static void rret(size_t r) {
    char b[64];
    if (ZSTD_isError(r)) { const char* e = ZSTD_getErrorName(r); size_t i = 0; b[i++] = 'E'; for (; *e && i < 62; e++) b[i++] = (*e == ' ') ? '_' : *e; b[i] = 0; }
    else sprintf(b, "%lu", (unsigned long)r);
    radd(b);
}
#define OUTCAP ((size_t)4 << 20)

static void cmd_H(char** t) {
    const char* id = t[1]; size_t dn[3] = {0, 0, 0}, fn; unsigned char* dict[3]; unsigned char* f; unsigned char* out = (unsigned char*)malloc(OUTCAP + 1);
    ZSTD_DDict* dd[3] = {NULL, NULL, NULL}; ZSTD_DCtx* d = ZSTD_createDCtx();
    size_t ipos = 0, opos = 0, hint = 5, iend, lastr = 1; int stable = 0; int cont = 0; char* ops = strdup(t[5]); char* sv = NULL; char* p; size_t ncalls = 0;
    dict[0] = NULL; dict[1] = unhex(t[2], &dn[1]); dict[2] = unhex(t[3], &dn[2]); f = unhex(t[4], &fn);
    if (dn[1]) dd[1] = ZSTD_createDDict(dict[1], dn[1]);
    if (dn[2]) dd[2] = ZSTD_createDDict(dict[2], dn[2]);
    rcap = 1 << 16; rl = 0; rec = (char*)malloc(rcap); rec[0] = 0; iend = fn;
    for (p = strtok_r(ops, ";", &sv); p; p = strtok_r(NULL, ";", &sv)) {
        size_t r = 0; int k = (strlen(p) >= 3 && p[2] == '2') ? 2 : 1; int isset = 1;
        if (!strcmp(p, "q")) {
            char b[64]; int idx = 0;
            if (d->ddict) { size_t const sz = ZSTD_DDict_dictSize(d->ddict); const void* const ct = ZSTD_DDict_dictContent(d->ddict);   /* by content: the two dictionaries may have the same size */
                idx = (sz == dn[1] && !memcmp(ct, dict[1], sz)) ? 1 : (sz == dn[2] && !memcmp(ct, dict[2], sz)) ? 2 : 9; }
            sprintf(b, "q=%d,%d;", idx, (int)d->dictUses); radd(b); continue;
        }
        if (!strcmp(p, "ld1") || !strcmp(p, "ld2")) r = ZSTD_DCtx_loadDictionary(d, dict[k], dn[k]);
        else if (!strcmp(p, "lr1") || !strcmp(p, "lr2")) r = ZSTD_DCtx_loadDictionary_byReference(d, dict[k], dn[k]);
        else if (!strcmp(p, "rd1") || !strcmp(p, "rd2")) r = ZSTD_DCtx_refDDict(d, dd[k]);
        else if (!strcmp(p, "rd0")) r = ZSTD_DCtx_refDDict(d, NULL);
        else if (!strcmp(p, "rp1") || !strcmp(p, "rp2")) r = ZSTD_DCtx_refPrefix(d, dict[k], dn[k]);
        else if (!strcmp(p, "in")) r = ZSTD_initDStream(d);
        else if (!strcmp(p, "iu1") || !strcmp(p, "iu2")) r = ZSTD_initDStream_usingDict(d, dict[k], dn[k]);
        else if (!strcmp(p, "id1") || !strcmp(p, "id2")) r = ZSTD_initDStream_usingDDict(d, dd[k]);
        else if (!strcmp(p, "rs")) r = ZSTD_resetDStream(d);
        else if (!strcmp(p, "xs")) r = ZSTD_DCtx_reset(d, ZSTD_reset_session_only);
        else if (!strcmp(p, "xa")) { r = ZSTD_DCtx_reset(d, ZSTD_reset_session_and_parameters); if (!ZSTD_isError(r)) stable = 0; }
        else if (!strncmp(p, "ml=", 3)) r = ZSTD_DCtx_setParameter(d, ZSTD_d_format, atoi(p + 3));
        else if (!strncmp(p, "so=", 3)) { r = ZSTD_DCtx_setParameter(d, ZSTD_d_stableOutBuffer, atoi(p + 3)); if (!ZSTD_isError(r)) stable = atoi(p + 3); }
        else if (!strncmp(p, "mdd=", 4)) r = ZSTD_DCtx_setParameter(d, ZSTD_d_refMultipleDDicts, atoi(p + 4));
        else if (!strncmp(p, "wl=", 3)) r = ZSTD_DCtx_setParameter(d, ZSTD_d_windowLogMax, atoi(p + 3));
        else if (!strcmp(p, "n")) { ZSTD_freeDCtx(d); d = ZSTD_createDCtx(); stable = 0; r = 0; }
        else if (!strcmp(p, "ce")) { cont = 1; r = 0; }
        else if (p[0] == 'j') { ipos = (size_t)strtoull(p + 1, NULL, 10); if (ipos > fn) ipos = fn; r = 0; lastr = 1; }
        else if (p[0] == 'e') { iend = (size_t)strtoull(p + 1, NULL, 10); if (iend > fn) iend = fn; r = 0; }
        else isset = 0;
        if (isset) { radd(p); radd("="); rret(r); radd(";"); continue; }
        if (p[0] == 'o') {
            size_t len = (size_t)strtoull(p + 1, NULL, 10); char b[64];
            if (len > fn - ipos) len = fn - ipos;
            r = ZSTD_decompressDCtx(d, out + opos, OUTCAP - opos, f + ipos, len);
            sprintf(b, "o:%lu:", (unsigned long)len); radd(b); rret(r); radd(";");
            if (!ZSTD_isError(r)) { ipos += len; opos += r; }
            continue;
        }
        if (p[0] == 's' || p[0] == 't' || p[0] == 'L' || p[0] == 'M') {
            char* colon = strchr(p, ':'); char* colon2 = colon ? strchr(colon + 1, ':') : NULL; int loop = p[0] == 'L' || p[0] == 'M'; int simple = p[0] == 't' || p[0] == 'M';
            size_t limit = (loop && colon2) ? (size_t)strtoull(colon2 + 1, NULL, 10) : iend; int stop = 0;
            if (limit > iend) limit = iend;
            if (!loop && ipos >= iend && lastr == 0) continue;   /* this part of the stream is complete: a further call would start the next frame */
            while (!loop || !(ipos >= limit && (lastr == 0 || colon2 != NULL))) {   /* a loop does not call again once its part of the stream is complete */
                size_t offered, cap, avail = (limit > ipos) ? limit - ipos : 0; ZSTD_inBuffer ib; ZSTD_outBuffer ob; size_t opos0; char b[128];
                if (p[1] == 'a') offered = avail; else if (p[1] == 'h') offered = hint; else offered = (size_t)strtoull(p + 1, NULL, 10);
                if (offered > avail) offered = avail;
                cap = (colon && colon[1] != 'r') ? (size_t)strtoull(colon + 1, NULL, 10) : ((size_t)1 << 20);
                if (stable) { ob.dst = out; ob.size = OUTCAP; ob.pos = opos; cap = OUTCAP - opos; }
                else { if (cap > OUTCAP - opos) cap = OUTCAP - opos; ob.dst = out + opos; ob.size = cap; ob.pos = 0; }
                /* the buffers start a few bytes before the cursors (pos != 0) whenever there is something before them */
                {   size_t const ki = ipos < 3 ? ipos : 3; size_t const ko = (!stable && opos >= 2) ? 2 : 0;
                    if (ko) { ob.dst = out + opos - ko; ob.size = cap + ko; ob.pos = ko; }
                    opos0 = ob.pos; ib.src = f + ipos - ki; ib.size = offered + ki; ib.pos = ki;
                    if (simple) { size_t dp = ob.pos, sp = ib.pos; r = ZSTD_decompressStream_simpleArgs(d, ob.dst, ob.size, &dp, ib.src, ib.size, &sp); ob.pos = dp; ib.pos = sp; }
                    else r = ZSTD_decompressStream(d, &ob, &ib);
                    ib.pos -= ki;      /* consumed by this call */
                }
                ncalls++;
                sprintf(b, "s:%lu:%lu:%lu:%lu:", (unsigned long)offered, (unsigned long)cap, (unsigned long)ib.pos, (unsigned long)(ob.pos - opos0));
                radd(b); rret(r); radd(";");
                if (ZSTD_isError(r)) { stop = !cont; lastr = 1; break; }
                ipos += ib.pos; opos += ob.pos - opos0; hint = r ? r : 5; lastr = r;
                if (!loop) break;
                if (ncalls >= 30000) { radd("callbudget=1;"); stop = 1; break; }   /* the history is cut here (the caller sizes its loops below that) */
            }
            if (stop) break;      /* the state after an error is unspecified : the history ends here */
            continue;
        }
        radd(p); radd("=?;");
    }
    printf("%s OK ", id); puthex(out, opos); printf(" %s\n", rl ? rec : "-");
    free(rec); free(ops); ZSTD_freeDCtx(d); ZSTD_freeDDict(dd[1]); ZSTD_freeDDict(dd[2]); free(dict[1]); free(dict[2]); free(f); free(out);
}

static void cmd_T(char** t) {
    unsigned s = (unsigned)strtoul(t[2], NULL, 10) * 2654435761u + 12345u; size_t ns = 200, i, k; size_t sz[200];
    unsigned char* smp = (unsigned char*)malloc(ns * 600); unsigned char base[600]; unsigned char* out = (unsigned char*)malloc(8000); size_t r;
    for (i = 0; i < 600; i++) { s = s * 1103515245u + 12345u; base[i] = (i > 20 && ((s >> 16) % 4)) ? base[i - 1 - ((s >> 20) % 17)] : (unsigned char)('a' + (s >> 24) % 20); }
    for (i = 0; i < ns; i++) { sz[i] = 600; memcpy(smp + i * 600, base, 600);
        for (k = 0; k < 40; k++) { s = s * 1103515245u + 12345u; smp[i * 600 + (s >> 8) % 600] = (unsigned char)('a' + (s >> 24) % 26); } }
    r = ZDICT_trainFromBuffer(out, 8000, smp, sz, (unsigned)ns);
    if (ZDICT_isError(r)) printf("%s ERR %s\n", t[1], ZDICT_getErrorName(r)); else { printf("%s OK ", t[1]); puthex(out, r); putchar('\n'); }
    free(smp); free(out);
}

int main(void) {
    char* line = NULL; size_t lcap = 0; ssize_t len;
    while ((len = getline(&line, &lcap, stdin)) > 0) {
        char* t[8]; int nt = 0; char* sv = NULL; char* tok = strtok_r(line, " \n", &sv);
        while (tok && nt < 8) { t[nt++] = tok; tok = strtok_r(NULL, " \n", &sv); }
        if (nt == 0) continue;
        if (t[0][0] == 'H' && nt >= 6) cmd_H(t);
        else if (t[0][0] == 'T' && nt >= 3) cmd_T(t);
        else printf("? BADCMD\n");
        fflush(stdout);
    }
    free(line);
    return 0;
}
