/* c05_entries: compression entry points x call histories that harness/zv_codec.c does not drive (property C05, round 2).
 * Line protocol (one command per line, one result line per command, flushed):
 *
 *  A <id> <raw> <dicthex|-> <inputhex|->
 *      raw = wl:cl:hl:sl:mm:tl:st:cs:ck:nd   ZSTD_compress_advanced with these RAW ZSTD_parameters (only ZSTD_checkCParams)
 *      -> <id> OK <framehex>  |  <id> ERR <name>
 *  B <id> <begin> <dicthex|-> <segs> <inputhex|->
 *      buffer-less API: begin = adv:<raw>:<pledged|-1>  ZSTD_compressBegin_advanced
 *                             | lvl:<level>             ZSTD_compressBegin / ZSTD_compressBegin_usingDict
 *                             | cdict:<level>           ZSTD_compressBegin_usingCDict
 *                             | cdadv:<level>:<cs>:<ck>:<nd>:<pledged|-1>   ZSTD_compressBegin_usingCDict_advanced
 *      segs  = len[n],len[n],...  input handed to ZSTD_compressContinue piece by piece, the rest to ZSTD_compressEnd;
 *              suffix n = the piece is copied to a separate allocation first (non-contiguous with the previous one);
 *              "-" = everything to ZSTD_compressEnd
 *      -> <id> OK <framehex>  |  <id> ERR <name>
 *  K <id> <begin> <dicthex|-> <blk> <inputhex|->
 *      block-level API: same begin forms (adv / lvl); input cut into pieces of <blk> bytes (0 = ZSTD_getBlockSize), each through
 *      ZSTD_compressBlock; the harness wraps the results into a frame the way the documentation tells block-API users to:
 *      magic, descriptor without content size, window descriptor of the context's windowLog, one block header per piece
 *      (raw block when ZSTD_compressBlock returned 0), last flag on the last one.
 *      (with a dictionary the declared window is raised to cover dictionary + content: block mode never retires a dictionary)
 *      -> <id> OK <framehex> bs=<ZSTD_getBlockSize> wl=<declared windowLog>  | <id> ERR <name>
 *  M <id> <dicthex|-> <steps> <inputhex|->
 *      several frames on ONE context.  steps = step|step|... ;  step = <reset>/<params>/<dictmode>/<how>
 *        reset   : n (none) | s (session_only) | p (parameters; only after s) | b (session_and_parameters)
 *        params  : id:v,id:v or -
 *        dictmode: - | keep | load | loadref | prefix | cdict | none (loadDictionary(NULL,0))
 *        how     : c2 | cctx:<level> | udict:<level> | st:<in>:<out>:<flushEvery> | stp (st with pledged size) | end (single ZSTD_e_end call)
 *      -> <id> OK <frame1hex>,<frame2hex>,...   (an E<name> token in place of a frame when that step failed)
 *  L <id> <init> <dicthex|-> <segs> <inputhex|-> <frames>
 *      the ZSTD_initCStream* family + ZSTD_compressStream / ZSTD_flushStream / ZSTD_endStream.   init =
 *        init:<level> | srcsize:<level>:<pss> | reset:<level>:<pss> (initCStream then resetCStream) | adv:<raw>:<pss>
 *        | udict:<level> | ucdict:<level> | ucdadv:<level>:<cs>:<ck>:<nd>:<pss>      (pss: decimal, -1 = ZSTD_CONTENTSIZE_UNKNOWN)
 *        | zbuff:<raw>:<pss> (ZBUFF_compressInit_advanced, 0 / -1 = unknown) | zbuffd:<level> (ZBUFF_compressInitDictionary)
 *      segs = len[f],len[f],... pieces for ZSTD_compressStream (f: ZSTD_flushStream after the piece), output capacity 1 + (k*37 % 5000)
 *      per call; the rest of the input follows in one piece; then ZSTD_endStream until 0.   frames = 1 | 2 (a second frame of the same
 *      input on the same stream object without any new init call)
 *      -> <id> OK <frame1hex>[,<frame2hex>]  (E<name> in place of a frame that failed)
 *  (B/K begin forms may be prefixed with copy:<pledged>: - the context is begun on a first object, then duplicated with
 *   ZSTD_copyCCtx(dst, src, pledged) and the duplicate is used)
 *  W <id> <variant> <payloadhex|-> <cap|-1>
 *      ZSTD_writeSkippableFrame -> <id> OK <framehex> is=<ZSTD_isSkippableFrame> rd=<variant read back>:<payload equal 0|1> fs=<ZSTD_findFrameCompressedSize>
 */
#define ZSTD_STATIC_LINKING_ONLY
#define ZSTD_DISABLE_DEPRECATE_WARNINGS
#include "zstd.h"
#include "zstd_errors.h"
#define ZBUFF_DISABLE_DEPRECATE_WARNINGS
#include "deprecated/zbuff.h"
#include <stdio.h>
#include <stdlib.h>
#include <string.h>

static unsigned char* unhex(const char* s, size_t* n) {
    size_t l, i; unsigned char* b;
    if (!strcmp(s, "-")) { *n = 0; b = (unsigned char*)malloc(1); return b; }
    l = strlen(s) / 2; b = (unsigned char*)malloc(l + 1);
    for (i = 0; i < l; i++) {
        unsigned char c0 = (unsigned char)s[2 * i], c1 = (unsigned char)s[2 * i + 1];
        unsigned v0 = c0 <= '9' ? c0 - '0' : (c0 | 32) - 'a' + 10, v1 = c1 <= '9' ? c1 - '0' : (c1 | 32) - 'a' + 10;
        b[i] = (unsigned char)(v0 * 16 + v1); }
    *n = l; return b;
}
static void puthex(const unsigned char* b, size_t n) {
    static const char* H = "0123456789abcdef"; size_t i;
    if (n == 0) { putchar('-'); return; }
    for (i = 0; i < n; i++) { putchar(H[b[i] >> 4]); putchar(H[b[i] & 15]); }
}
static void pename(size_t code) {
    const char* e = ZSTD_getErrorString(ZSTD_getErrorCode(code));
    for (; *e; e++) putchar(*e == ' ' ? '_' : *e);
}
static void perr(const char* id, size_t code) { printf("%s ERR ", id); pename(code); putchar('\n'); }
static size_t apply_cparams(ZSTD_CCtx* c, const char* p) {
    if (!strcmp(p, "-")) return 0;
    while (*p) { int id, v, n = 0;
        if (sscanf(p, "%d:%d%n", &id, &v, &n) < 2) break;
        { size_t r = ZSTD_CCtx_setParameter(c, (ZSTD_cParameter)id, v); if (ZSTD_isError(r)) return r; }
        p += n; if (*p == ',') p++; }
    return 0;
}

/* raw = wl:cl:hl:sl:mm:tl:st:cs:ck:nd ; returns chars consumed */
static int parse_raw(const char* s, ZSTD_parameters* p) {
    unsigned v[10]; int n = 0;
    if (sscanf(s, "%u:%u:%u:%u:%u:%u:%u:%u:%u:%u%n", v, v + 1, v + 2, v + 3, v + 4, v + 5, v + 6, v + 7, v + 8, v + 9, &n) < 10) return -1;
    memset(p, 0, sizeof(*p));
    p->cParams.windowLog = v[0]; p->cParams.chainLog = v[1]; p->cParams.hashLog = v[2]; p->cParams.searchLog = v[3];
    p->cParams.minMatch = v[4]; p->cParams.targetLength = v[5]; p->cParams.strategy = (ZSTD_strategy)v[6];
    p->fParams.contentSizeFlag = (int)v[7]; p->fParams.checksumFlag = (int)v[8]; p->fParams.noDictIDFlag = (int)v[9];
    return n;
}

static void cmd_A(char** t) {
    const char* id = t[1]; ZSTD_parameters p; size_t dn, n, r;
    unsigned char* d = unhex(t[3], &dn); unsigned char* in = unhex(t[4], &n);
    size_t cap = ZSTD_compressBound(n) + 64; unsigned char* out = (unsigned char*)malloc(cap);
    ZSTD_CCtx* c = ZSTD_createCCtx();
    if (parse_raw(t[2], &p) < 0) r = (size_t)-ZSTD_error_GENERIC;
    else r = ZSTD_compress_advanced(c, out, cap, in, n, dn ? d : NULL, dn, p);
    if (ZSTD_isError(r)) perr(id, r); else { printf("%s OK ", id); puthex(out, r); putchar('\n'); }
    ZSTD_freeCCtx(c); free(d); free(in); free(out);
}

static ZSTD_CDict* g_cd = NULL;
/* begin forms shared by B and K; *wl receives the window log in force when it can be known (0 otherwise) */
static ZSTD_CCtx* g_src = NULL;
static size_t do_begin(ZSTD_CCtx* c, const char* b, const unsigned char* d, size_t dn, size_t n, unsigned* wl) {
    *wl = 0;
    if (!strncmp(b, "copy:", 5)) {
        long long pl = atoll(b + 5); const char* rest = strchr(b + 5, ':'); size_t r;
        if (!rest) return (size_t)-ZSTD_error_GENERIC;
        if (g_src) ZSTD_freeCCtx(g_src);
        g_src = ZSTD_createCCtx();
        r = do_begin(g_src, rest + 1, d, dn, n, wl);
        if (ZSTD_isError(r)) return r;
        return ZSTD_copyCCtx(c, g_src, (unsigned long long)pl);
    }
    if (!strncmp(b, "adv:", 4)) {
        ZSTD_parameters p; int k = parse_raw(b + 4, &p); long long pl = -1;
        if (k < 0) return (size_t)-ZSTD_error_GENERIC;
        if (b[4 + k] == ':') pl = atoll(b + 4 + k + 1);
        *wl = p.cParams.windowLog;
        return ZSTD_compressBegin_advanced(c, dn ? d : NULL, dn, p, pl < 0 ? ZSTD_CONTENTSIZE_UNKNOWN : (unsigned long long)pl);
    }
    if (!strncmp(b, "lvl:", 4)) {
        int lvl = atoi(b + 4);
        *wl = ZSTD_getCParams(lvl, 0, dn).windowLog;
        return dn ? ZSTD_compressBegin_usingDict(c, d, dn, lvl) : ZSTD_compressBegin(c, lvl);
    }
    if (!strncmp(b, "cdict:", 6)) {
        g_cd = ZSTD_createCDict(d, dn, atoi(b + 6));
        if (!g_cd) return (size_t)-ZSTD_error_memory_allocation;
        return ZSTD_compressBegin_usingCDict(c, g_cd);
    }
    if (!strncmp(b, "cdadv:", 6)) {
        int lvl, cs, ck, nd; long long pl; ZSTD_frameParameters fp;
        if (sscanf(b + 6, "%d:%d:%d:%d:%lld", &lvl, &cs, &ck, &nd, &pl) < 5) return (size_t)-ZSTD_error_GENERIC;
        g_cd = ZSTD_createCDict(d, dn, lvl);
        if (!g_cd) return (size_t)-ZSTD_error_memory_allocation;
        fp.contentSizeFlag = cs; fp.checksumFlag = ck; fp.noDictIDFlag = nd;
        return ZSTD_compressBegin_usingCDict_advanced(c, g_cd, fp, pl < 0 ? ZSTD_CONTENTSIZE_UNKNOWN : (unsigned long long)pl);
    }
    (void)n;
    return (size_t)-ZSTD_error_GENERIC;
}

static void cmd_B(char** t) {
    const char* id = t[1]; size_t dn, n, r, op = 0, ip = 0; unsigned wl;
    unsigned char* d = unhex(t[3], &dn); unsigned char* in = unhex(t[5], &n);
    size_t cap = ZSTD_compressBound(n) + 64 + 3 * 512; unsigned char* out; const char* s = t[4];
    void* keep[512]; int nk = 0, i, pieces = 0;
    ZSTD_CCtx* c = ZSTD_createCCtx();
    { const char* q; for (q = s; *q; q++) if (*q == ',') pieces++; }
    cap += (size_t)(pieces + 2) * 16;
    out = (unsigned char*)malloc(cap);
    r = do_begin(c, t[2], d, dn, n, &wl);
    if (!strcmp(s, "-")) s = "";
    while (!ZSTD_isError(r) && *s && ip < n && nk < 510) {
        unsigned long len; int k = 0, nc = 0; const unsigned char* src;
        if (sscanf(s, "%lu%n", &len, &k) < 1) break;
        s += k; if (*s == 'n') { nc = 1; s++; } if (*s == ',') s++;
        if (len > n - ip) len = (unsigned long)(n - ip);
        if (nc) { unsigned char* cp = (unsigned char*)malloc(len + 4096 + 64 * (size_t)nk); memcpy(cp + 40, in + ip, len); keep[nk++] = cp; src = cp + 40; }
        else src = in + ip;
        r = ZSTD_compressContinue(c, out + op, cap - op, src, len);
        if (!ZSTD_isError(r)) { op += r; ip += len; }
    }
    if (!ZSTD_isError(r)) { r = ZSTD_compressEnd(c, out + op, cap - op, in + ip, n - ip); if (!ZSTD_isError(r)) op += r; }
    if (ZSTD_isError(r)) perr(id, r); else { printf("%s OK ", id); puthex(out, op); putchar('\n'); }
    for (i = 0; i < nk; i++) free(keep[i]);
    ZSTD_freeCCtx(c); if (g_cd) { ZSTD_freeCDict(g_cd); g_cd = NULL; }
    if (g_src) { ZSTD_freeCCtx(g_src); g_src = NULL; }
    free(d); free(in); free(out);
}

static void cmd_K(char** t) {
    const char* id = t[1]; size_t dn, n, r, op = 0, ip = 0, bs, blk; unsigned wl; int wlp = 0;
    unsigned char* d = unhex(t[3], &dn); unsigned char* in = unhex(t[5], &n);
    size_t cap; unsigned char* out;
    ZSTD_CCtx* c = ZSTD_createCCtx();
    r = do_begin(c, t[2], d, dn, n, &wl);
    if (ZSTD_isError(r)) { perr(id, r); goto done; }
    bs = ZSTD_getBlockSize(c);
    ZSTD_CCtx_getParameter(c, ZSTD_c_windowLog, &wlp);
    blk = (size_t)strtoull(t[4], NULL, 10); if (blk == 0 || blk > bs) blk = bs;
    /* block mode never retires a dictionary (no ZSTD_checkDictValidity outside frame mode) and declares no window: with a
     * dictionary the wrapper declares a window that covers dictionary + content, as a block-API user has to */
    if (dn) while (wl < 31 && ((size_t)1 << wl) < n + dn) wl++;
    cap = 16 + n + (n / (blk ? blk : 1) + 2) * 3 + 64; out = (unsigned char*)malloc(cap + ZSTD_compressBound(blk) + 64);
    out[0] = 0x28; out[1] = 0xB5; out[2] = 0x2F; out[3] = 0xFD; out[4] = 0; out[5] = (unsigned char)((wl - 10) << 3); op = 6;
    if (n == 0) { out[op++] = 1; out[op++] = 0; out[op++] = 0; }
    while (ip < n) {
        size_t len = n - ip < blk ? n - ip : blk; int last = (ip + len == n); unsigned h;
        r = ZSTD_compressBlock(c, out + op + 3, cap - op - 3 + ZSTD_compressBound(blk), in + ip, len);
        if (ZSTD_isError(r)) break;
        if (r == 0) { memcpy(out + op + 3, in + ip, len); h = (unsigned)(last + (0 << 1) + (len << 3)); r = len; }
        else h = (unsigned)(last + (2 << 1) + (r << 3));
        out[op] = (unsigned char)h; out[op + 1] = (unsigned char)(h >> 8); out[op + 2] = (unsigned char)(h >> 16);
        op += 3 + r; ip += len;
    }
    if (ZSTD_isError(r)) perr(id, r);
    else { printf("%s OK ", id); puthex(out, op); printf(" bs=%lu wl=%u\n", (unsigned long)bs, wl); }
    free(out);
done:
    ZSTD_freeCCtx(c); if (g_cd) { ZSTD_freeCDict(g_cd); g_cd = NULL; }
    if (g_src) { ZSTD_freeCCtx(g_src); g_src = NULL; }
    free(d); free(in);
}

static size_t stream_all(ZSTD_CCtx* c, unsigned char* out, size_t cap, const unsigned char* in, size_t n,
                         size_t iseg, size_t oseg, int flushEvery) {
    size_t ip = 0, op = 0; int calls = 0;
    if (iseg == 0) iseg = n ? n : 1;
    if (oseg == 0) oseg = cap;
    for (;;) {
        ZSTD_inBuffer ib; ZSTD_outBuffer ob; size_t r; int dir;
        size_t il = n - ip < iseg ? n - ip : iseg, ol = cap - op < oseg ? cap - op : oseg;
        ib.src = in + ip; ib.size = il; ib.pos = 0; ob.dst = out + op; ob.size = ol; ob.pos = 0;
        calls++;
        dir = (ip + il == n) ? ZSTD_e_end : (flushEvery && calls % flushEvery == 0) ? ZSTD_e_flush : ZSTD_e_continue;
        r = ZSTD_compressStream2(c, &ob, &ib, (ZSTD_EndDirective)dir);
        if (ZSTD_isError(r)) return r;
        ip += ib.pos; op += ob.pos;
        if (dir == ZSTD_e_end && r == 0 && ip == n) return op;
        if (calls > 4000000) return (size_t)-ZSTD_error_GENERIC;
    }
}

static void cmd_M(char** t) {
    const char* id = t[1]; size_t dn, n; unsigned char* d = unhex(t[2], &dn); unsigned char* in = unhex(t[4], &n);
    size_t cap = ZSTD_compressBound(n) + 4096 + n / 4; unsigned char* out = (unsigned char*)malloc(cap);
    ZSTD_CCtx* c = ZSTD_createCCtx(); ZSTD_CDict* cd = NULL; char* sv = NULL; char* st; int first = 1;
    printf("%s OK ", id);
    for (st = strtok_r(t[3], "|", &sv); st; st = strtok_r(NULL, "|", &sv)) {
        char* f[4]; int nf = 0; char* sv2 = NULL; char* q = strtok_r(st, "/", &sv2); size_t r = 0;
        while (q && nf < 4) { f[nf++] = q; q = strtok_r(NULL, "/", &sv2); }
        if (!first) putchar(',');
        first = 0;
        if (nf < 4) { printf("Ebadstep"); continue; }
        if (f[0][0] == 's') r = ZSTD_CCtx_reset(c, ZSTD_reset_session_only);
        else if (f[0][0] == 'p') { r = ZSTD_CCtx_reset(c, ZSTD_reset_session_only); if (!ZSTD_isError(r)) r = ZSTD_CCtx_reset(c, ZSTD_reset_parameters); }
        else if (f[0][0] == 'b') r = ZSTD_CCtx_reset(c, ZSTD_reset_session_and_parameters);
        if (!ZSTD_isError(r)) r = apply_cparams(c, f[1]);
        if (!ZSTD_isError(r)) {
            if (!strcmp(f[2], "load")) r = ZSTD_CCtx_loadDictionary(c, d, dn);
            else if (!strcmp(f[2], "loadref")) r = ZSTD_CCtx_loadDictionary_byReference(c, d, dn);
            else if (!strcmp(f[2], "prefix")) r = ZSTD_CCtx_refPrefix(c, d, dn);
            else if (!strcmp(f[2], "none")) r = ZSTD_CCtx_loadDictionary(c, NULL, 0);
            else if (!strcmp(f[2], "cdict")) { int lvl = 3; ZSTD_CCtx_getParameter(c, ZSTD_c_compressionLevel, &lvl);
                if (!cd) cd = ZSTD_createCDict(d, dn, lvl);
                r = cd ? ZSTD_CCtx_refCDict(c, cd) : (size_t)-ZSTD_error_memory_allocation; }
        }
        if (!ZSTD_isError(r)) {
            if (!strcmp(f[3], "c2")) r = ZSTD_compress2(c, out, cap, in, n);
            else if (!strncmp(f[3], "cctx:", 5)) r = ZSTD_compressCCtx(c, out, cap, in, n, atoi(f[3] + 5));
            else if (!strncmp(f[3], "udict:", 6)) r = ZSTD_compress_usingDict(c, out, cap, in, n, d, dn, atoi(f[3] + 6));
            else if (!strncmp(f[3], "st:", 3) || !strncmp(f[3], "stp:", 4)) {
                unsigned long a = 0, b = 0; int fe = 0; int pl = f[3][2] == 'p';
                sscanf(f[3] + (pl ? 4 : 3), "%lu:%lu:%d", &a, &b, &fe);
                if (pl) r = ZSTD_CCtx_setPledgedSrcSize(c, n);
                if (!ZSTD_isError(r)) r = stream_all(c, out, cap, in, n, a, b, fe);
            } else if (!strcmp(f[3], "end")) {
                ZSTD_inBuffer ib; ZSTD_outBuffer ob; ib.src = in; ib.size = n; ib.pos = 0; ob.dst = out; ob.size = cap; ob.pos = 0;
                r = ZSTD_compressStream2(c, &ob, &ib, ZSTD_e_end);
                if (!ZSTD_isError(r)) r = (r == 0 && ib.pos == n) ? ob.pos : (size_t)-ZSTD_error_dstSize_tooSmall;
            } else r = (size_t)-ZSTD_error_GENERIC;
        }
        if (ZSTD_isError(r)) { putchar('E'); pename(r); } else puthex(out, r);
    }
    putchar('\n');
    ZSTD_freeCCtx(c); ZSTD_freeCDict(cd); free(d); free(in); free(out);
}

static size_t legacy_frame(ZSTD_CStream* z, unsigned char* out, size_t cap, const unsigned char* in, size_t n, const char* s) {
    size_t ip = 0, op = 0; int k = 0, guard = 0;
    if (!strcmp(s, "-")) s = "";
    while (ip < n) {
        unsigned long len = (unsigned long)(n - ip); int c = 0, fl = 0; ZSTD_inBuffer ib;
        if (*s && sscanf(s, "%lu%n", &len, &c) >= 1) { s += c; if (*s == 'f') { fl = 1; s++; } if (*s == ',') s++; }
        if (len > n - ip) len = (unsigned long)(n - ip);
        ib.src = in + ip; ib.size = len; ib.pos = 0;
        while (ib.pos < ib.size) {
            ZSTD_outBuffer ob; size_t r; size_t oc = 1 + (size_t)(k++ * 37 % 5000);
            if (oc > cap - op) oc = cap - op;
            ob.dst = out + op; ob.size = oc; ob.pos = 0;
            r = ZSTD_compressStream(z, &ob, &ib);
            if (ZSTD_isError(r)) return r;
            op += ob.pos;
            if (++guard > 4000000) return (size_t)-ZSTD_error_GENERIC;
        }
        ip += len;
        while (fl) {
            ZSTD_outBuffer ob; size_t r; size_t oc = 1 + (size_t)(k++ * 37 % 5000);
            if (oc > cap - op) oc = cap - op;
            ob.dst = out + op; ob.size = oc; ob.pos = 0;
            r = ZSTD_flushStream(z, &ob);
            if (ZSTD_isError(r)) return r;
            op += ob.pos; if (r == 0) fl = 0;
            if (++guard > 4000000) return (size_t)-ZSTD_error_GENERIC;
        }
    }
    for (;;) {
        ZSTD_outBuffer ob; size_t r; size_t oc = 1 + (size_t)(k++ * 37 % 5000);
        if (oc > cap - op) oc = cap - op;
        ob.dst = out + op; ob.size = oc; ob.pos = 0;
        r = ZSTD_endStream(z, &ob);
        if (ZSTD_isError(r)) return r;
        op += ob.pos; if (r == 0) return op;
        if (++guard > 4000000) return (size_t)-ZSTD_error_GENERIC;
    }
}

static void cmd_L(char** t) {
    const char* id = t[1]; const char* b = t[2]; size_t dn, n, r = 0; int frames = atoi(t[6]), f;
    unsigned char* d = unhex(t[3], &dn); unsigned char* in = unhex(t[5], &n);
    size_t cap = ZSTD_compressBound(n) + 4096 + n / 2; unsigned char* out = (unsigned char*)malloc(cap);
    ZSTD_CStream* z = ZSTD_createCStream(); ZSTD_CDict* cd = NULL; long long pl = -1;
#define PSS(x) ((x) < 0 ? ZSTD_CONTENTSIZE_UNKNOWN : (unsigned long long)(x))
    if (!strncmp(b, "init:", 5)) r = ZSTD_initCStream(z, atoi(b + 5));
    else if (!strncmp(b, "srcsize:", 8)) { int lvl; sscanf(b + 8, "%d:%lld", &lvl, &pl); r = ZSTD_initCStream_srcSize(z, lvl, PSS(pl)); }
    else if (!strncmp(b, "reset:", 6)) { int lvl; sscanf(b + 6, "%d:%lld", &lvl, &pl); r = ZSTD_initCStream(z, lvl); if (!ZSTD_isError(r)) r = ZSTD_resetCStream(z, PSS(pl)); }
    else if (!strncmp(b, "adv:", 4)) { ZSTD_parameters p; int k = parse_raw(b + 4, &p);
        if (k < 0) r = (size_t)-ZSTD_error_GENERIC; else { if (b[4 + k] == ':') pl = atoll(b + 4 + k + 1); r = ZSTD_initCStream_advanced(z, dn ? d : NULL, dn, p, PSS(pl)); } }
    else if (!strncmp(b, "zbuff:", 6)) { ZSTD_parameters p; int k = parse_raw(b + 6, &p);     /* lib/deprecated/zbuff_compress.c; 0 = unknown */
        if (k < 0) r = (size_t)-ZSTD_error_GENERIC; else { if (b[6 + k] == ':') pl = atoll(b + 6 + k + 1); r = ZBUFF_compressInit_advanced(z, dn ? d : NULL, dn, p, pl < 0 ? 0ULL : (unsigned long long)pl); } }
    else if (!strncmp(b, "zbuffd:", 7)) r = ZBUFF_compressInitDictionary(z, d, dn, atoi(b + 7));
    else if (!strncmp(b, "udict:", 6)) r = ZSTD_initCStream_usingDict(z, d, dn, atoi(b + 6));
    else if (!strncmp(b, "ucdict:", 7)) { cd = ZSTD_createCDict(d, dn, atoi(b + 7)); r = cd ? ZSTD_initCStream_usingCDict(z, cd) : (size_t)-ZSTD_error_memory_allocation; }
    else if (!strncmp(b, "ucdadv:", 7)) { int lvl, cs, ck, nd; ZSTD_frameParameters fp;
        if (sscanf(b + 7, "%d:%d:%d:%d:%lld", &lvl, &cs, &ck, &nd, &pl) < 5) r = (size_t)-ZSTD_error_GENERIC;
        else { cd = ZSTD_createCDict(d, dn, lvl); fp.contentSizeFlag = cs; fp.checksumFlag = ck; fp.noDictIDFlag = nd;
            r = cd ? ZSTD_initCStream_usingCDict_advanced(z, cd, fp, PSS(pl)) : (size_t)-ZSTD_error_memory_allocation; } }
    else r = (size_t)-ZSTD_error_GENERIC;
    if (ZSTD_isError(r)) { perr(id, r); goto done; }
    printf("%s OK ", id);
    for (f = 0; f < frames; f++) {
        r = legacy_frame(z, out, cap, in, n, t[4]);
        if (f) putchar(',');
        if (ZSTD_isError(r)) { putchar('E'); pename(r); break; } else puthex(out, r);
    }
    putchar('\n');
done:
    ZSTD_freeCStream(z); ZSTD_freeCDict(cd); free(d); free(in); free(out);
}

static void cmd_W(char** t) {
    const char* id = t[1]; unsigned variant = (unsigned)strtoul(t[2], NULL, 10); size_t n; unsigned char* in = unhex(t[3], &n);
    long long capl = atoll(t[4]); size_t cap = capl < 0 ? n + 8 + 16 : (size_t)capl;
    unsigned char* out = (unsigned char*)malloc(cap + 1); unsigned char* back = (unsigned char*)malloc(n + 1);
    size_t r = ZSTD_writeSkippableFrame(out, cap, in, n, variant);
    if (ZSTD_isError(r)) perr(id, r);
    else { unsigned mv = 99; size_t rr = ZSTD_readSkippableFrame(back, n, &mv, out, r); size_t fs = ZSTD_findFrameCompressedSize(out, r);
        printf("%s OK ", id); puthex(out, r);
        printf(" is=%u rd=%u:%d fs=%s%lu\n", ZSTD_isSkippableFrame(out, r), mv, (!ZSTD_isError(rr) && rr == n && !memcmp(back, in, n)) ? 1 : 0,
               ZSTD_isError(fs) ? "E" : "", ZSTD_isError(fs) ? 0UL : (unsigned long)fs); }
    free(in); free(out); free(back);
}

int main(void) {
    char* line = NULL; size_t lcap = 0; ssize_t len;
    while ((len = getline(&line, &lcap, stdin)) > 0) {
        char* t[12]; int nt = 0; char* sv = NULL; char* tok = strtok_r(line, " \n", &sv);
        while (tok && nt < 12) { t[nt++] = tok; tok = strtok_r(NULL, " \n", &sv); }
        if (nt == 0) continue;
        if (t[0][0] == 'A' && nt >= 5) cmd_A(t);
        else if (t[0][0] == 'B' && nt >= 6) cmd_B(t);
        else if (t[0][0] == 'K' && nt >= 6) cmd_K(t);
        else if (t[0][0] == 'M' && nt >= 5) cmd_M(t);
        else if (t[0][0] == 'L' && nt >= 7) cmd_L(t);
        else if (t[0][0] == 'W' && nt >= 5) cmd_W(t);
        else printf("%s BADCMD\n", nt > 1 ? t[1] : "?");
        fflush(stdout);
    }
    free(line);
    return 0;
}
