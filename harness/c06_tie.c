/* C06 value/behaviour correspondence harness (compiled against the CURRENT /repo sources on every run).
 *   c06_tie bound    : stdin lines "<hex n>"                       -> "B <n> <ZSTD_COMPRESSBOUND(n)> <ZSTD_compressBound(n)|ERR>"
 *   c06_tie optbs    : stdin lines "<hex srcSize> <hex bsMax> <dec savings> <dec strat> <dec seed>"
 *                       -> "O <ZSTD_optimalBlockSize(..)> <split oracle used for that strategy>"
 *   c06_tie margin   : stdin lines "<hex originalSize> <hex blockSize>" -> "M <ZSTD_DECOMPRESSION_MARGIN(..)>"
 * No logic beyond calling the real functions and printing. Includes zstd_compress.c to reach the static
 * ZSTD_optimalBlockSize. */
#define ZSTD_STATIC_LINKING_ONLY
#include "compress/zstd_compress.c"
#include <stdio.h>
#include <stdlib.h>
#include <string.h>

static unsigned long long rng_state;
static unsigned rnd(void) { rng_state = rng_state * 6364136223846793005ULL + 1442695040888963407ULL; return (unsigned)(rng_state >> 33); }

static void fill(unsigned char* p, size_t n, unsigned long long seed)
{
    size_t i; rng_state = seed * 2654435761ULL + 12345;
    /* 8 KiB segments alternating between statistics, so that the fingerprint splitter has something to find */
    for (i = 0; i < n; i++) {
        size_t seg = i >> 13;
        unsigned r = rnd();
        switch ((seg + seed) % 4) {
            case 0: p[i] = (unsigned char)r; break;                       /* noise */
            case 1: p[i] = (unsigned char)("abcdefgh"[r & 7]); break;     /* small alphabet */
            case 2: p[i] = (unsigned char)(i & 0xFF); break;              /* ramp */
            default: p[i] = (unsigned char)((r & 15) ? 'x' : r); break;   /* mostly constant */
        }
    }
}

int main(int argc, char** argv)
{
    char line[512];
    const char* mode = argc > 1 ? argv[1] : "bound";
    if (!strcmp(mode, "bound")) {
        while (fgets(line, sizeof line, stdin)) {
            unsigned long long n; size_t r, m;
            if (sscanf(line, "%llx", &n) != 1) continue;
            m = ZSTD_COMPRESSBOUND((size_t)n);
            r = ZSTD_compressBound((size_t)n);
            /* ERR only for the documented failure; values just below ZSTD_MAX_INPUT_SIZE fall into the numeric range
               of error codes (ZSTD_isError() is true for them) but are genuine bounds: printed as numbers */
            if (r == (size_t)-ZSTD_error_srcSize_wrong && m == 0) printf("B %llx %llx ERR\n", n, (unsigned long long)m);
            else printf("B %llx %llx %llx\n", n, (unsigned long long)m, (unsigned long long)r);
        }
    } else if (!strcmp(mode, "margin")) {
        while (fgets(line, sizeof line, stdin)) {
            unsigned long long o, b;
            if (sscanf(line, "%llx %llx", &o, &b) != 2) continue;
            printf("M %llx\n", (unsigned long long)ZSTD_DECOMPRESSION_MARGIN(o, b));
        }
    } else if (!strcmp(mode, "optbs")) {
        size_t const bufSize = 160 << 10;
        unsigned char* buf = (unsigned char*)malloc(bufSize);
        unsigned char* tmp = (unsigned char*)malloc(ZSTD_compressBound(4096));
        ZSTD_CCtx* cctx = ZSTD_createCCtx();
        if (!buf || !tmp || !cctx) return 2;
        /* one small compression so that cctx->tmpWorkspace exists (used by ZSTD_splitBlock) */
        fill(buf, 4096, 1);
        if (ZSTD_isError(ZSTD_compressCCtx(cctx, tmp, ZSTD_compressBound(4096), buf, 4096, 19))) return 2;
        while (fgets(line, sizeof line, stdin)) {
            unsigned long long srcSize, bsMax, seed; long long savings; int strat;
            size_t r, sp;
            if (sscanf(line, "%llx %llx %lld %d %llu", &srcSize, &bsMax, &savings, &strat, &seed) != 5) continue;
            fill(buf, bufSize, seed);
            /* the split oracle the code consults for this strategy (only meaningful for full blocks) */
            if (strat >= (int)ZSTD_btopt)
                sp = ZSTD_splitBlock(buf, (size_t)(srcSize < bufSize ? srcSize : bufSize), 128 KB, split_lvl2, cctx->tmpWorkspace, cctx->tmpWkspSize);
            else if (strat >= (int)ZSTD_lazy2)
                sp = ZSTD_splitBlock(buf, (size_t)(srcSize < bufSize ? srcSize : bufSize), 128 KB, split_lvl1, cctx->tmpWorkspace, cctx->tmpWkspSize);
            else sp = 92 KB;
            r = ZSTD_optimalBlockSize(cctx, buf, (size_t)srcSize, (size_t)bsMax, (ZSTD_strategy)strat, (S64)savings);
            printf("O %llx %llx\n", (unsigned long long)r, (unsigned long long)sp);
        }
        ZSTD_freeCCtx(cctx); free(buf); free(tmp);
    } else return 2;
    return 0;
}
