/* C16: third translation unit - reaches the private ZSTDMT_CCtx (the parameters the next jobs of a running
 * multi-threaded frame will use: what ZSTDMT_updateCParams_whileCompressing rewrites).  Compiled against the CURRENT /repo sources. */
#include "compress/zstdmt_compress.c"

int c16_mt_params(const ZSTDMT_CCtx* mt, int* level, unsigned cp[7]) {
    if (!mt) return 0;
    *level = mt->params.compressionLevel;
    cp[0] = mt->params.cParams.windowLog; cp[1] = mt->params.cParams.chainLog; cp[2] = mt->params.cParams.hashLog; cp[3] = mt->params.cParams.searchLog;
    cp[4] = mt->params.cParams.minMatch; cp[5] = mt->params.cParams.targetLength; cp[6] = (unsigned)mt->params.cParams.strategy;
    return 1;
}
