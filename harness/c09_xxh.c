/* C09 tie of the streaming checksum: XXH64_reset / XXH64_update per chunk / XXH64_digest of the CURRENT lib/common/xxhash.h
 * input line : <id> <seed> <chunkhex_chunkhex_...>   ("-" = empty chunk)      output : <id> OK <digest decimal> <one-shot digest decimal> */
#define XXH_NAMESPACE ZSTD_
#define XXH_STATIC_LINKING_ONLY
#include "common/xxhash.h"
#include <stdio.h>
#include <stdlib.h>
#include <string.h>

int main(void) {
    static char line[1 << 20]; static unsigned char all[1 << 19];
    while (fgets(line, sizeof(line), stdin)) {
        char id[64]; unsigned long long seed; int n = 0; char* p; size_t total = 0;
        XXH64_state_t st;
        if (sscanf(line, "%63s %llu %n", id, &seed, &n) < 2) continue;
        XXH64_reset(&st, seed);
        p = strtok(line + n, "_\n");
        while (p) {
            size_t l = strcmp(p, "-") ? strlen(p) / 2 : 0, i; unsigned char* c = all + total;
            for (i = 0; i < l; i++) { unsigned v; sscanf(p + 2 * i, "%2x", &v); c[i] = (unsigned char)v; }
            XXH64_update(&st, c, l); total += l;
            p = strtok(NULL, "_\n");
        }
        printf("%s OK %llu %llu\n", id, (unsigned long long)XXH64_digest(&st), (unsigned long long)XXH64(all, total, seed));
    }
    return 0;
}
