/* C06 unit-level tie of the capacity-checked writers the Gallina model contains, each called directly on the
 * CURRENT /repo sources (statics reached by #include) for EVERY capacity around its threshold, with dst ending at a
 * PROT_NONE page (a store past the capacity faults) and a canary in front of it:
 *   NC  ZSTD_noCompressBlock          RL  ZSTD_rleCompressBlock        LE  ZSTD_writeLastEmptyBlock
 *   FH  ZSTD_writeFrameHeader (+ the header bytes, so that the inspector model reads them back)
 *   SK  ZSTD_writeSkippableFrame      SR  ZSTD_readSkippableFrame
 *   EP  buffer-less history ZSTD_compressBegin_advanced / ZSTD_compressContinue(n1) / ZSTD_compressEnd(n2) with the
 *       capacity of the last call swept (epilogue guards: empty last block, checksum)
 * Output: one line per call  "U <family> <args...> -> OK <ret> | ERR <name>"  (compared with the extracted model by
 * zv/props/c06.py), "H hex=<header bytes> :: I ..." inspector lines, "FAULT ..." when a call faulted (each family runs
 * in a forked child). No logic beyond calling the real functions and printing. */
#define ZSTD_STATIC_LINKING_ONLY
#include "compress/zstd_compress.c"
#include <stdio.h>
#include <stdlib.h>
#include <string.h>
#include <signal.h>
#include <unistd.h>
#include <sys/mman.h>
#include <sys/wait.h>

#define PG 4096u
#define CANARY 0xA5
typedef struct { unsigned char* lo; unsigned char* hi; } region;
static region region_new(size_t maxBytes)
{
    region r; size_t data = ((maxBytes + PG - 1) / PG) * PG + PG;
    unsigned char* map = (unsigned char*)mmap(NULL, data + 2 * PG, PROT_READ | PROT_WRITE, MAP_PRIVATE | MAP_ANONYMOUS, -1, 0);
    if (map == MAP_FAILED) { perror("mmap"); exit(2); }
    if (mprotect(map, PG, PROT_NONE) || mprotect(map + PG + data, PG, PROT_NONE)) { perror("mprotect"); exit(2); }
    r.lo = map + PG; r.hi = map + PG + data;
    return r;
}
/* buffer of c bytes ending at the upper fence; everything below it is canary */
static unsigned char* place(region* r, size_t c) { memset(r->lo, CANARY, (size_t)(r->hi - r->lo)); return r->hi - c; }
static int intact(region* r, unsigned char* p) { unsigned char* a; for (a = r->lo; a < p; a++) if (*a != CANARY) return 0; return 1; }

static char g_desc[300];
static void on_fault(int sig, siginfo_t* si, void* ctx)
{
    char buf[500]; int n; (void)ctx;
    n = snprintf(buf, sizeof buf, "FAULT sig=%d addr=%p :: %s\n", sig, si ? si->si_addr : NULL, g_desc);
    if (n > 0) { ssize_t w = write(1, buf, (size_t)n); (void)w; }
    _exit(3);
}

static unsigned long long g_rng;
static unsigned rnd(void) { g_rng = g_rng * 6364136223846793005ULL + 1442695040888963407ULL; return (unsigned)(g_rng >> 33); }

static void res(size_t r) { if (ZSTD_isError(r)) printf(" -> ERR %s\n", ZSTD_getErrorName(r)); else printf(" -> OK %zu\n", r); }
static void hexout(const unsigned char* p, size_t n) { size_t i; for (i = 0; i < n; i++) printf("%02x", p[i]); if (!n) printf("-"); }

static region g_dst, g_src;
static unsigned char g_noise[1 << 18];

static void inspect_line(const char* tag, const unsigned char* src, size_t size)
{
    ZSTD_frameHeader zfh; size_t r; unsigned long long u;
    printf("%s hex=", tag); hexout(src, size);
    printf(" :: I fhs=");
    if (size >= 5) { r = ZSTD_frameHeaderSize(src, size); if (ZSTD_isError(r)) printf("ERR"); else printf("%zx", r); } else printf("ERR");
    r = ZSTD_getFrameHeader(&zfh, src, size);
    if (ZSTD_isError(r)) printf(" gfh=ERR");
    else if (r > 0) printf(" gfh=NEED:%zx", r);
    else printf(" gfh=OK:%llx:%llx:%x:%d:%x:%x:%d", zfh.frameContentSize, zfh.windowSize, zfh.blockSizeMax, zfh.frameType == ZSTD_skippableFrame, zfh.headerSize, zfh.dictID, zfh.checksumFlag ? 1 : 0);
    r = ZSTD_findFrameCompressedSize(src, size); if (ZSTD_isError(r)) printf(" ffcs=ERR"); else printf(" ffcs=%zx", r);
    u = ZSTD_decompressBound(src, size); if (u == ZSTD_CONTENTSIZE_ERROR) printf(" dbound=ERR"); else printf(" dbound=%llx", u);
    r = ZSTD_decompressionMargin(src, size); if (ZSTD_isError(r)) printf(" margin=ERR"); else printf(" margin=%zx", r);
    printf(" fds=%llx gfcs=%llx\n", ZSTD_findDecompressedSize(src, size), ZSTD_getFrameContentSize(src, size));
}

/* ---- families ---- */
static void fam_blocks(void)
{
    static const size_t lens[] = { 0, 1, 2, 5, 100, 1023, 1024, 1025, 65536, 131071, 131072 };
    size_t li, c;
    for (li = 0; li < sizeof lens / sizeof lens[0]; li++) {
        size_t const len = lens[li];
        unsigned char* const src = g_src.hi - len;     /* source ends at a fence too: no read past it */
        memcpy(src, g_noise, len);
        for (c = 0; c <= len + 8; c++) {
            unsigned char* dst; size_t r;
            if (c > 10 && c + 6 < len) { c = len - 6; }   /* 0..10, then len-6 .. len+8 */
            dst = place(&g_dst, c);
            snprintf(g_desc, sizeof g_desc, "NC len=%zu cap=%zu", len, c);
            r = ZSTD_noCompressBlock(dst, c, src, len, (U32)(c & 1));
            printf("U NC %zu %zu", len, c); res(r);
            if (!intact(&g_dst, dst)) printf("BAD write-below-dst :: %s\n", g_desc);
            if (!ZSTD_isError(r) && (r > c || memcmp(dst + 3, src, len))) printf("BAD content-or-size :: %s\n", g_desc);
        }
    }
    for (c = 0; c <= 9; c++) {
        unsigned char* dst = place(&g_dst, c); size_t r;
        snprintf(g_desc, sizeof g_desc, "RL cap=%zu", c);
        r = ZSTD_rleCompressBlock(dst, c, 0x42, 1000 + c, (U32)(c & 1));
        printf("U RL %zu", c); res(r);
        if (!intact(&g_dst, dst)) printf("BAD write-below-dst :: %s\n", g_desc);
        if (!ZSTD_isError(r) && r > c) printf("BAD size-exceeds-capacity :: %s\n", g_desc);
    }
    for (c = 0; c <= 6; c++) {
        unsigned char* dst = place(&g_dst, c); size_t r;
        snprintf(g_desc, sizeof g_desc, "LE cap=%zu", c);
        r = ZSTD_writeLastEmptyBlock(dst, c);
        printf("U LE %zu", c); res(r);
        if (!intact(&g_dst, dst)) printf("BAD write-below-dst :: %s\n", g_desc);
        if (!ZSTD_isError(r) && r > c) printf("BAD size-exceeds-capacity :: %s\n", g_desc);
    }
}

static void fam_header(unsigned long long seed)
{
    static const unsigned long long pledges[] = { 0, 1, 255, 256, 257, 65535, 65536, 65791, 65792, 0xFFFFFFFEULL, 0xFFFFFFFFULL, 0x100000000ULL, 0x123456789ABCULL, ZSTD_CONTENTSIZE_UNKNOWN };
    static const unsigned dictIDs[] = { 0, 1, 255, 256, 65535, 65536, 0xFFFFFFFFu };
    unsigned k; g_rng = seed * 7 + 3;
    for (k = 0; k < 60; k++) {
        ZSTD_CCtx_params p; size_t c; unsigned long long pl; unsigned did;
        ZSTD_CCtxParams_init(&p, 3);
        p.cParams = ZSTD_getCParams(3, 0, 0);
        p.cParams.windowLog = 10 + rnd() % 22;
        p.fParams.contentSizeFlag = (int)(rnd() % 4 != 0);
        p.fParams.checksumFlag = (int)(rnd() & 1);
        p.fParams.noDictIDFlag = (int)(rnd() % 4 == 0);
        pl = pledges[k % (sizeof pledges / sizeof pledges[0])];
        did = dictIDs[rnd() % (sizeof dictIDs / sizeof dictIDs[0])];
        if (pl == ZSTD_CONTENTSIZE_UNKNOWN) p.fParams.contentSizeFlag = 0;
        for (c = 0; c <= 24; c++) {
            unsigned char* dst = place(&g_dst, c); size_t r;
            snprintf(g_desc, sizeof g_desc, "FH cap=%zu pledged=%llx dictID=%x csf=%d chk=%d nodid=%d wlog=%u", c, pl, did,
                     p.fParams.contentSizeFlag, p.fParams.checksumFlag, p.fParams.noDictIDFlag, p.cParams.windowLog);
            r = ZSTD_writeFrameHeader(dst, c, &p, pl, did);
            printf("U FH %zu %u", c, k); res(r);
            if (!intact(&g_dst, dst)) printf("BAD write-below-dst :: %s\n", g_desc);
            if (!ZSTD_isError(r) && r > c) printf("BAD size-exceeds-capacity :: %s\n", g_desc);
            if (!ZSTD_isError(r) && c == 24) {
                char tag[40]; snprintf(tag, sizeof tag, "H id=fh%u k=0", k);
                if (r > ZSTD_FRAMEHEADERSIZE_MAX) printf("BAD header-larger-than-FRAMEHEADERSIZE_MAX :: %s\n", g_desc);
                inspect_line(tag, dst, r);
            }
        }
    }
}

static void fam_skippable(void)
{
    static const size_t lens[] = { 0, 1, 7, 8, 9, 100, 4096 };
    size_t li, c;
    for (li = 0; li < sizeof lens / sizeof lens[0]; li++) {
        size_t const len = lens[li];
        unsigned char* const src = g_src.hi - len;
        static unsigned char frame[5000];
        memcpy(src, g_noise + 77, len);
        for (c = 0; c <= len + 12; c++) {
            unsigned char* dst; size_t r;
            if (c > 12 && c + 6 < len) c = len - 6;
            dst = place(&g_dst, c);
            snprintf(g_desc, sizeof g_desc, "SK len=%zu cap=%zu", len, c);
            r = ZSTD_writeSkippableFrame(dst, c, src, len, (unsigned)(c % 16));
            printf("U SK %zu %zu", len, c); res(r);
            if (!intact(&g_dst, dst)) printf("BAD write-below-dst :: %s\n", g_desc);
            if (!ZSTD_isError(r) && r > c) printf("BAD size-exceeds-capacity :: %s\n", g_desc);
            if (!ZSTD_isError(r) && c == len + 12) { char tag[40]; memcpy(frame, dst, r); snprintf(tag, sizeof tag, "H id=sk%zu k=0", len); inspect_line(tag, frame, r); }
        }
        {   size_t const fsize = len + 8;
            unsigned char* const fsrc = g_src.hi - fsize;      /* the frame itself ends at a fence: no read past it */
            memcpy(fsrc, frame, fsize);
            for (c = 0; c <= len + 3; c++) {
                unsigned char* dst; size_t r; unsigned variant = 99;
                if (c > 12 && c + 4 < len) c = len - 4;
                dst = place(&g_dst, c);
                snprintf(g_desc, sizeof g_desc, "SR len=%zu cap=%zu", len, c);
                r = ZSTD_readSkippableFrame(dst, c, &variant, fsrc, fsize);
                printf("U SR %zu %zu", len, c); res(r);
                if (!intact(&g_dst, dst)) printf("BAD write-below-dst :: %s\n", g_desc);
                if (!ZSTD_isError(r) && (r != len || memcmp(dst, src, len))) printf("BAD skippable-content :: %s\n", g_desc);
            }
            /* truncated skippable frames: an error, never a read past the end */
            for (c = 0; c < fsize; c++) {
                unsigned char* const ts = g_src.hi - c; unsigned char* dst = place(&g_dst, len); unsigned variant; size_t r;
                memmove(ts, frame, c);
                snprintf(g_desc, sizeof g_desc, "SRT len=%zu trunc=%zu", len, c);
                r = ZSTD_readSkippableFrame(dst, len, &variant, ts, c);
                if (!ZSTD_isError(r)) printf("BAD truncated-skippable-accepted :: %s\n", g_desc);
                (void)ZSTD_findFrameCompressedSize(ts, c); (void)ZSTD_isSkippableFrame(ts, c);
                if (c > 12 && c + 3 < fsize) c = fsize - 3;
            }
        }
    }
}

/* buffer-less history: begin, continue(n1) into an ample buffer, end(n2) into c bytes */
static void fam_epilogue(void)
{
    static const size_t n1s[] = { 0, 1, 100, 5000, 140000 };
    static const size_t n2s[] = { 0, 1, 50, 1024, 3000 };
    static unsigned char big[160000];
    size_t a, b, c; int chk, wl;
    ZSTD_CCtx* cctx = ZSTD_createCCtx();
    if (!cctx) exit(2);
    for (a = 0; a < 5; a++) for (b = 0; b < 5; b++) for (chk = 0; chk < 2; chk++) for (wl = 0; wl < 2; wl++) {
        size_t const n1 = n1s[a], n2 = n2s[b];
        size_t lo = 0, hi = n2 + 3 * (n2 / 1024 + 2) + 40;
        if ((a * 5 + b + (size_t)chk) % 2 && wl) continue;
        for (c = lo; c <= hi; c++) {
            ZSTD_parameters p; size_t r1, r2; unsigned char* dst; unsigned char* src2 = g_src.hi - n2;
            if (c > 34 && c + 12 < n2) c = n2 - 12;
            memset(&p, 0, sizeof p);
            p.cParams = ZSTD_getCParams(1, 0, 0);
            p.cParams.windowLog = wl ? 10 : 17;
            p.fParams.contentSizeFlag = 0; p.fParams.checksumFlag = chk; p.fParams.noDictIDFlag = 0;
            if (ZSTD_isError(ZSTD_compressBegin_advanced(cctx, NULL, 0, p, ZSTD_CONTENTSIZE_UNKNOWN))) exit(2);
            r1 = ZSTD_compressContinue(cctx, big, sizeof big, g_noise, n1);
            if (ZSTD_isError(r1)) { printf("BAD continue-failed-with-ample-room :: EP n1=%zu\n", n1); break; }
            memcpy(src2, g_noise + 150000, n2);
            dst = place(&g_dst, c);
            snprintf(g_desc, sizeof g_desc, "EP n1=%zu n2=%zu chk=%d wlog=%d cap=%zu", n1, n2, chk, p.cParams.windowLog, c);
            r2 = ZSTD_compressEnd(cctx, dst, c, src2, n2);
            printf("U EP %zu %zu %d %zu %zu %zu", n1, n2, chk, (size_t)cctx->blockSize, r1, c); res(r2);
            if (!intact(&g_dst, dst)) printf("BAD write-below-dst :: %s\n", g_desc);
            if (!ZSTD_isError(r2) && r2 > c) printf("BAD size-exceeds-capacity :: %s\n", g_desc);
            if (!ZSTD_isError(r2)) {   /* whatever was produced is a valid frame for the two pieces */
                static unsigned char frame[320000]; static unsigned char back[160000]; size_t d;
                memcpy(frame, big, r1); memcpy(frame + r1, dst, r2);
                d = ZSTD_decompress(back, sizeof back, frame, r1 + r2);
                if (ZSTD_isError(d) || d != n1 + n2 || memcmp(back, g_noise, n1) || memcmp(back + n1, g_noise + 150000, n2)) printf("BAD roundtrip :: %s\n", g_desc);
            }
        }
    }
    ZSTD_freeCCtx(cctx);
}

int main(int argc, char** argv)
{
    unsigned long long const seed = argc > 2 ? strtoull(argv[2], NULL, 10) : 1;
    int fam; size_t i;
    struct sigaction sa;
    if (argc < 2 || strcmp(argv[1], "units")) return 2;
    setvbuf(stdout, NULL, _IOLBF, 0);
    memset(&sa, 0, sizeof sa); sa.sa_sigaction = on_fault; sa.sa_flags = SA_SIGINFO;
    sigaction(SIGSEGV, &sa, NULL); sigaction(SIGBUS, &sa, NULL);
    g_rng = seed * 0x9E3779B97F4A7C15ULL + 99;
    for (i = 0; i < sizeof g_noise; i++) g_noise[i] = (unsigned char)rnd();
    g_dst = region_new(200000); g_src = region_new(200000);
    for (fam = 0; fam < 4; fam++) {
        pid_t pid; int st = 0;
        fflush(stdout);
        pid = fork();
        if (pid < 0) return 2;
        if (pid == 0) {
            if (fam == 0) fam_blocks(); else if (fam == 1) fam_header(seed); else if (fam == 2) fam_skippable(); else fam_epilogue();
            fflush(stdout); _exit(0);
        }
        if (waitpid(pid, &st, 0) < 0) return 2;
        if (!(WIFEXITED(st) && (WEXITSTATUS(st) == 0 || WEXITSTATUS(st) == 3))) printf("ABANDON family=%d status=%d\n", fam, st);
    }
    printf("DONE units\n");
    return 0;
}
