/* c10_hints: hint-following readers on the real decoder (property C10, part c).
 * The whole stream (frames + bytes that follow them) sits in one allocation; the reader presents to the decoder exactly the
 * number of bytes the decoder asked for (never more), so any byte past a frame end that the decoder asks for is visible as a
 * request position beyond the frame end.  One command per line:
 *
 *  H <id> <dflags> <streamhex> <payload> s <outcap> [maxcalls]     ZSTD_decompressStream, hint = return value
 *      dflags : "-" or comma list: ml (magicless) | nock | bm=<maxBlockSize> | wl=<windowLogMax> | so (ZSTD_d_stableOutBuffer: every
 *               call gets the one output buffer {out, 16 MiB, bytes produced so far}; <outcap> is ignored)
 *               | ab=<k> (before the run the same context is given the first k bytes of the stream in up to 3 calls with
 *               <outcap> bytes of room each, then ZSTD_DCtx_reset(session_only): an abandoned frame must leave nothing behind)
 *      payload: number of leading bytes of the stream that are frames (the reader stops there; the rest is "data that follows")
 *      reader : request := ZSTD_startingInputLength(format) at the start of every frame, afterwards the last return value;
 *               the requested bytes are presented (again and again, with a fresh output buffer of <outcap> bytes) until they
 *               are all consumed, then the next request is made.  A return value 0 ends the frame.
 *      -> <id> OK <outhex> req:pos:offered:consumed:produced:ret|E<name>:newframe;...     one record per call;
 *         req = bytes newly requested before this call (0 when the call re-presents unconsumed input), pos = stream offset
 *         of the first presented byte, newframe = 1 when the call starts a frame
 *  H <id> <dflags> <streamhex> <payload> c 0                       buffer-less: ZSTD_decompressBegin + ZSTD_decompressContinue
 *      fed exactly ZSTD_nextSrcSizeToDecompress() bytes; a 0 ends the frame
 *      -> <id> OK <outhex> req:pos:offered:consumed:produced:ret|E<name>:newframe:nextInputType;...
 */
#define ZSTD_STATIC_LINKING_ONLY
#define ZSTD_DISABLE_DEPRECATE_WARNINGS
#include "zstd.h"
#include "zstd_errors.h"
#include <stdio.h>
#include <stdlib.h>
#include <string.h>

static unsigned char* unhex(const char* s, size_t* n) {
    size_t l, i; unsigned char* b;
    if (!strcmp(s, "-")) { *n = 0; return (unsigned char*)malloc(1); }
    l = strlen(s) / 2; b = (unsigned char*)malloc(l + 1);
    for (i = 0; i < l; i++) { unsigned v; sscanf(s + 2 * i, "%2x", &v); b[i] = (unsigned char)v; }
    *n = l; return b;
}
static void puthex(const unsigned char* b, size_t n) {
    static const char* H = "0123456789abcdef"; size_t i;
    if (n == 0) { putchar('-'); return; }
    for (i = 0; i < n; i++) { putchar(H[b[i] >> 4]); putchar(H[b[i] & 15]); }
}
static size_t puterr_s(char* dst, size_t code) {
    const char* e = ZSTD_getErrorString(ZSTD_getErrorCode(code)); size_t k = 0; dst[k++] = 'E';
    for (; *e; e++) dst[k++] = (*e == ' ') ? '_' : *e;
    dst[k] = 0; return k;
}

typedef struct { char* p; size_t n, cap; } sbuf;
static void sb_room(sbuf* s, size_t k) { if (s->n + k + 1 > s->cap) { s->cap = 2 * (s->n + k + 1); s->p = (char*)realloc(s->p, s->cap); } }

static void cmd_H(char** t, int nt) {
    const char* id = t[1]; size_t fn; unsigned char* f = unhex(t[3], &fn);
    size_t payload = (size_t)strtoull(t[4], NULL, 10);
    int bufferless = t[5][0] == 'c';
    size_t outcap = (size_t)strtoull(t[6], NULL, 10);
    size_t maxcalls = nt > 7 ? (size_t)strtoull(t[7], NULL, 10) : 400000;
    ZSTD_DCtx* d = ZSTD_createDCtx(); size_t r = 0; int magicless = 0, stable = 0; size_t ab = 0;
    size_t ocap_total = (size_t)16 << 20, opos = 0, ipos = 0, ncalls = 0;
    unsigned char* out = (unsigned char*)malloc(ocap_total + 1);
    sbuf rec = { (char*)malloc(1 << 16), 0, 1 << 16 };
    rec.p[0] = 0;
    if (payload > fn) payload = fn;
    {   char* fl = strdup(t[2]); char* s2 = NULL; char* q = strtok_r(fl, ",", &s2);
        while (q) {
            if (!strcmp(q, "ml")) { magicless = 1; r = ZSTD_DCtx_setParameter(d, ZSTD_d_format, ZSTD_f_zstd1_magicless); }
            else if (!strncmp(q, "wl=", 3)) r = ZSTD_DCtx_setParameter(d, ZSTD_d_windowLogMax, atoi(q + 3));
            else if (!strncmp(q, "bm=", 3)) r = ZSTD_DCtx_setParameter(d, ZSTD_d_maxBlockSize, atoi(q + 3));
            else if (!strcmp(q, "nock")) r = ZSTD_DCtx_setParameter(d, ZSTD_d_forceIgnoreChecksum, 1);
            else if (!strcmp(q, "so")) { stable = 1; r = ZSTD_DCtx_setParameter(d, ZSTD_d_stableOutBuffer, 1); }
            else if (!strncmp(q, "ab=", 3)) ab = (size_t)strtoull(q + 3, NULL, 10);
            if (ZSTD_isError(r)) { char e[200]; puterr_s(e, r); printf("%s ERR %s\n", id, e + 1); free(fl); goto done; }
            q = strtok_r(NULL, ",", &s2);
        }
        free(fl);
    }
    if (ab > 0 && !bufferless) {   /* an abandoned frame first */
        ZSTD_inBuffer ib; ZSTD_outBuffer ob; int k;
        ib.src = f; ib.size = ab < fn ? ab : fn; ib.pos = 0;
        for (k = 0; k < 3; k++) {
            size_t cap = outcap < ocap_total ? outcap : ocap_total;
            ob.dst = out; ob.size = stable ? ocap_total : cap; ob.pos = 0;
            r = ZSTD_decompressStream(d, &ob, &ib);
            if (ZSTD_isError(r) || r == 0) break;
            if (stable) break;      /* the stable buffer may not be rewound */
        }
        ZSTD_DCtx_reset(d, ZSTD_reset_session_only);
        r = 0;
    }
    {   size_t const start = magicless ? 1 : 5;      /* ZSTD_startingInputLength() = ZSTD_FRAMEHEADERSIZE_PREFIX(format): public macro */
        int stop = 0;
        while (!stop && ipos < payload && ncalls < maxcalls) {
            /* one frame */
            int first = 1; size_t req = bufferless ? 0 : start;
            if (bufferless) { r = ZSTD_decompressBegin(d); if (ZSTD_isError(r)) { stop = 1; break; } req = ZSTD_nextSrcSizeToDecompress(d); }
            for (;;) {
                size_t offered = req; size_t have = 0;      /* [ipos, ipos + have) = bytes requested and not yet consumed */
                if (offered > fn - ipos) offered = fn - ipos;   /* the source is exhausted: a reader would see EOF (the request is still recorded) */
                have = offered;
                if (bufferless) {
                    size_t const pos0 = ipos; size_t produced = 0; int nit;
                    r = ZSTD_decompressContinue(d, out + opos, ocap_total - opos, f + ipos, offered);
                    ncalls++;
                    if (!ZSTD_isError(r)) { produced = r; opos += r; ipos += offered; }
                    nit = (int)ZSTD_nextInputType(d);
                    sb_room(&rec, 400);
                    rec.n += sprintf(rec.p + rec.n, "%lu:%lu:%lu:%lu:%lu:", (unsigned long)req, (unsigned long)pos0, (unsigned long)offered,
                                     (unsigned long)(ZSTD_isError(r) ? 0 : offered), (unsigned long)produced);
                    if (ZSTD_isError(r)) rec.n += puterr_s(rec.p + rec.n, r); else rec.n += sprintf(rec.p + rec.n, "%lu", (unsigned long)ZSTD_nextSrcSizeToDecompress(d));
                    rec.n += sprintf(rec.p + rec.n, ":%d:%d;", first, nit);
                    first = 0;
                    if (ZSTD_isError(r)) { stop = 1; break; }
                    req = ZSTD_nextSrcSizeToDecompress(d);
                    if (req == 0) break;                         /* frame complete */
                    if (ncalls >= maxcalls) { stop = 1; break; }
                } else {
                    size_t newreq = req; int frame_done = 0;
                    for (;;) {                                   /* present the requested bytes until they are all consumed */
                        ZSTD_inBuffer ib; ZSTD_outBuffer ob; size_t cap = outcap;
                        if (cap > ocap_total - opos) cap = ocap_total - opos;
                        ib.src = f + ipos; ib.size = have; ib.pos = 0;
                        ob.dst = out + opos; ob.size = cap; ob.pos = 0;
                        if (stable) { ob.dst = out; ob.size = ocap_total; ob.pos = opos; }
                        r = ZSTD_decompressStream(d, &ob, &ib);
                        ncalls++;
                        sb_room(&rec, 400);
                        rec.n += sprintf(rec.p + rec.n, "%lu:%lu:%lu:%lu:%lu:", (unsigned long)newreq, (unsigned long)ipos, (unsigned long)have,
                                         (unsigned long)ib.pos, (unsigned long)(stable ? ob.pos - opos : ob.pos));
                        if (ZSTD_isError(r)) rec.n += puterr_s(rec.p + rec.n, r); else rec.n += sprintf(rec.p + rec.n, "%lu", (unsigned long)r);
                        rec.n += sprintf(rec.p + rec.n, ":%d;", first);
                        first = 0; newreq = 0;
                        if (ZSTD_isError(r)) { stop = 1; break; }
                        ipos += ib.pos; have -= ib.pos; opos = stable ? ob.pos : opos + ob.pos;
                        if (r == 0) { frame_done = 1; break; }
                        if (have == 0) break;
                        if (ncalls >= maxcalls) { stop = 1; break; }
                    }
                    if (stop || frame_done) break;
                    req = r;
                    if (ncalls >= maxcalls) { stop = 1; break; }
                    if (req > 0 && ipos >= fn) { stop = 1; break; }   /* nothing left to give */
                }
            }
        }
    }
    printf("%s OK ", id); puthex(out, opos); printf(" %s\n", rec.n ? rec.p : "-");
done:
    free(rec.p); free(out); ZSTD_freeDCtx(d); free(f);
}

int main(void) {
    char* line = NULL; size_t lcap = 0; ssize_t len;
    while ((len = getline(&line, &lcap, stdin)) > 0) {
        char* t[12]; int nt = 0; char* sv = NULL; char* tok = strtok_r(line, " \n", &sv);
        while (tok && nt < 12) { t[nt++] = tok; tok = strtok_r(NULL, " \n", &sv); }
        if (nt == 0) continue;
        if (t[0][0] == 'H' && nt >= 7) cmd_H(t, nt);
        else printf("? BADCMD\n");
        fflush(stdout);
    }
    free(line);
    return 0;
}
