/* C15 (thorough tier): raw-content prefix of >= 4 GiB, LDM on, nbWorkers 0 / 1, pure public API (finding
 * C15-zstdmt-ldm-prefix-index-wraps, repaired).  usage: c15_bigprefix nbWorkers prefixMiB ldm [srcMiB]  */
#define ZSTD_STATIC_LINKING_ONLY
#include "zstd.h"
#include <stdio.h>
#include <stdlib.h>
#include <string.h>
#include <stdint.h>

int main(int argc, char** argv) {
    int const nbw = argc > 1 ? atoi(argv[1]) : 1;
    size_t const P = (size_t)(argc > 2 ? atoll(argv[2]) : 4160) << 20;
    int const ldm = argc > 3 ? atoi(argv[3]) : 1;
    size_t const N = (size_t)(argc > 4 ? atoll(argv[4]) : 8) << 20;
    uint8_t* dict = malloc(P); uint8_t* src = malloc(N); uint8_t* dst = malloc(ZSTD_compressBound(N)); uint8_t* dec = malloc(N);
    uint64_t s = 88172645463325252ULL; size_t i;
    if (!dict || !src || !dst || !dec) { printf("alloc failed\n"); return 2; }
    for (i = 0; i + 8 <= P; i += 8) { s ^= s << 13; s ^= s >> 7; s ^= s << 17; memcpy(dict + i, &s, 8); }
    /* source: 64 KiB pieces copied from all over the dictionary (begin, middle, end), separated by 4 KiB of noise */
    {   size_t pos = 0; unsigned k = 0;
        while (pos < N) {
            size_t const piece = 65536, noise = 4096;
            size_t where;
            switch (k % 4) { case 0: where = (size_t)(k * 2654435761u) % ((size_t)32 << 20); break;              /* first 32 MiB */
                             case 1: where = P / 2 + (size_t)(k * 40503u) % ((size_t)64 << 20); break;           /* middle */
                             case 2: where = P - ((size_t)60 << 20) + (size_t)(k * 9973u) % ((size_t)32 << 20); break; /* end */
                             default: where = ((size_t)1 << 30) + (size_t)(k * 7919u) % ((size_t)1 << 30); break; }
            k++;
            if (where + piece > P) where = P - piece;
            {   size_t n = piece; if (n > N - pos) n = N - pos; memcpy(src + pos, dict + where, n); pos += n; }
            {   size_t n = noise; if (n > N - pos) n = N - pos; for (i = 0; i < n; i++) { s ^= s << 13; s ^= s >> 7; s ^= s << 17; src[pos + i] = (uint8_t)s; } pos += n; }
        }
    }
    printf("prefix=%zu src=%zu nbWorkers=%d ldm=%d dict=%p src=%p\n", P, N, nbw, ldm, (void*)dict, (void*)src); fflush(stdout);
    {   ZSTD_CCtx* c = ZSTD_createCCtx(); size_t r, cs;
        ZSTD_CCtx_setParameter(c, ZSTD_c_compressionLevel, 1);
        ZSTD_CCtx_setParameter(c, ZSTD_c_nbWorkers, nbw);
        ZSTD_CCtx_setParameter(c, ZSTD_c_enableLongDistanceMatching, ldm);
        ZSTD_CCtx_setParameter(c, ZSTD_c_checksumFlag, 1);
        r = ZSTD_CCtx_refPrefix_advanced(c, dict, P, ZSTD_dct_rawContent);
        if (ZSTD_isError(r)) { printf("refPrefix: %s\n", ZSTD_getErrorName(r)); return 1; }
        cs = ZSTD_compress2(c, dst, ZSTD_compressBound(N), src, N);
        if (ZSTD_isError(cs)) { printf("compress: %s\n", ZSTD_getErrorName(cs)); return 1; }
        printf("compressed %zu -> %zu\n", N, cs); fflush(stdout);
        {   ZSTD_DCtx* d = ZSTD_createDCtx();
            ZSTD_DCtx_setParameter(d, ZSTD_d_windowLogMax, 31);
            ZSTD_DCtx_refPrefix_advanced(d, dict, P, ZSTD_dct_rawContent);
            r = ZSTD_decompressDCtx(d, dec, N, dst, cs);
            if (ZSTD_isError(r)) printf("DECODE ERROR: %s\n", ZSTD_getErrorName(r));
            else printf("decoded %zu equal=%d\n", r, r == N && !memcmp(dec, src, N));
        }
    }
    return 0;
}
