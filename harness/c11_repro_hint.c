/* C11 finding mt-inputhint-null-mtctx-after-pool-switch (repaired by /repo 7045dec): stand-alone repro on the public API.
 * Build against a plain libzstd with -DZSTD_MULTITHREAD: gcc -I/repo/lib c11_repro_hint.c libzstd.a -lpthread. Before the repair the
 * ZSTD_compressStream call below dies with SIGSEGV in ZSTDMT_nextInputSizeHint(mtctx=0x0). Not part of the check (the corpus case
 * pool-switch-stable-hint of zv/props/c11.py drives the same sequence through harness/c11_mt.c). */
#define ZSTD_STATIC_LINKING_ONLY
#include "zstd.h"
#include <stdio.h>
#include <stdlib.h>
#include <string.h>
int main(void) {
    size_t const n = 2u << 20; char* src = malloc(n); char* dst = malloc(ZSTD_compressBound(n)); size_t i, r;
    ZSTD_CCtx* c = ZSTD_createCCtx(); ZSTD_threadPool* pool = ZSTD_createThreadPool(2);
    for (i = 0; i < n; i++) src[i] = (char)(i * 2654435761u >> 24);
    ZSTD_CCtx_setParameter(c, ZSTD_c_nbWorkers, 2);
    ZSTD_CCtx_setParameter(c, ZSTD_c_stableInBuffer, 1);
    r = ZSTD_compress2(c, dst, ZSTD_compressBound(n), src, n);              /* a multithreaded frame: appliedParams.nbWorkers = 2 */
    printf("frame 1: %zu (%s)\n", r, ZSTD_isError(r) ? ZSTD_getErrorName(r) : "ok");
    r = ZSTD_CCtx_refThreadPool(c, pool);                                      /* drops the multithreaded context (fix 7b3a25e) */
    printf("refThreadPool: %s\n", ZSTD_getErrorName(r));
    {   ZSTD_inBuffer in = { src, 1000, 0 }; ZSTD_outBuffer out = { dst, ZSTD_compressBound(n), 0 };
        r = ZSTD_compressStream(c, &out, &in);                                 /* stable input < one block: accepted without initialising the frame */
        printf("compressStream: %zu (%s)\n", r, ZSTD_isError(r) ? ZSTD_getErrorName(r) : "ok");
    }
    ZSTD_freeCCtx(c); ZSTD_freeThreadPool(pool);
    return 0;
}
