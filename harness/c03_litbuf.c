/* c03_litbuf: the literal-buffer placement of lib/decompress/zstd_decompress_block.c observed on the real code.
 * ZSTD_decodeLiteralsBlock (static) is reached by including the source file; the DCtx fields it sets are printed
 * relative to the region they point into, in the format of ml/c03_driver.ml (command P) so that the two can be
 * compared line by line.  dst and src are exact-size heap blocks: with the `asan` variant the memset / memcpy /
 * Huffman decoding into the chosen buffer is bounds-checked as well.
 *
 *   P <id> <blockSizeMax> <dstCapacity> <streaming 0|1> <srchex>
 *      -> P <id> OK loc=<0 not_in_dst|1 in_dst|2 split> ptr=<dst|extra|src>+<off> end=<dst|extra|src>+<off> used=<n> n=<litSize>
 *       | P <id> ERR <error name>
 */
#include "decompress/zstd_decompress_block.c"
#include "zstd_errors.h"
#include <stdio.h>
#include <stdlib.h>
#include <string.h>

static unsigned char* unhex(const char* s, size_t* n) {
    size_t l, i; unsigned char* b;
    if (!strcmp(s, "-")) { *n = 0; return (unsigned char*)malloc(1); }
    l = strlen(s) / 2; b = (unsigned char*)malloc(l ? l : 1);
    for (i = 0; i < l; i++) { unsigned v; sscanf(s + 2 * i, "%2x", &v); b[i] = (unsigned char)v; }
    *n = l; return b;
}

static void put_ptr(const char* key, const BYTE* p, const ZSTD_DCtx* dc, const BYTE* dst, size_t cap, const BYTE* src, size_t srcSize) {
    /* one-past-the-end of a region still belongs to it; dst first, because a zero-size dst may coincide with nothing else */
    if (p >= dc->litExtraBuffer && p <= dc->litExtraBuffer + sizeof(dc->litExtraBuffer)) printf(" %s=extra+%ld", key, (long)(p - dc->litExtraBuffer));
    else if (p >= src && p <= src + srcSize) printf(" %s=src+%ld", key, (long)(p - src));
    else printf(" %s=dst+%ld", key, (long)(p - dst));      /* may be negative or beyond cap: that is the point */
    (void)cap;
}

int main(void) {
    char* line = NULL; size_t lcap = 0; ssize_t len;
    while ((len = getline(&line, &lcap, stdin)) > 0) {
        char* t[8]; int nt = 0; char* sv = NULL; char* tok = strtok_r(line, " \n", &sv);
        while (tok && nt < 8) { t[nt++] = tok; tok = strtok_r(NULL, " \n", &sv); }
        if (nt < 6 || t[0][0] != 'P') { if (nt) printf("? BADCMD\n"); continue; }
        {   size_t const bmax = (size_t)strtoull(t[2], NULL, 10), cap = (size_t)strtoull(t[3], NULL, 10);
            int const streaming = atoi(t[4]); size_t sn; unsigned char* s0 = unhex(t[5], &sn);
            BYTE* src = (BYTE*)malloc(sn ? sn : 1); BYTE* dst = (BYTE*)malloc(cap ? cap : 1);
            ZSTD_DCtx* dc = ZSTD_createDCtx(); size_t r;
            if (sn) memcpy(src, s0, sn);
            free(s0);
            ZSTD_decompressBegin(dc);
            dc->isFrameDecompression = 1;
            dc->fParams.blockSizeMax = (unsigned)bmax;
            r = ZSTD_decodeLiteralsBlock(dc, src, sn, dst, cap, streaming ? is_streaming : not_streaming);
            printf("P %s", t[1]);
            if (ZSTD_isError(r)) {
                const char* e = ZSTD_getErrorString(ZSTD_getErrorCode(r));
                printf(" ERR "); for (; *e; e++) putchar((*e == ' ' || *e == '\'') ? '_' : *e);
            } else {
                printf(" OK loc=%d", (int)dc->litBufferLocation);
                put_ptr("ptr", dc->litPtr, dc, dst, cap, src, sn);
                put_ptr("end", dc->litBufferEnd, dc, dst, cap, src, sn);
                printf(" used=%lu n=%lu", (unsigned long)r, (unsigned long)dc->litSize);
            }
            putchar('\n'); fflush(stdout);
            ZSTD_freeDCtx(dc); free(dst); free(src);
        }
    }
    free(line);
    return 0;
}
