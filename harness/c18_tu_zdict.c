/* C18 translation unit around lib/dictBuilder/zdict.c */
#define ZDICT_STATIC_LINKING_ONLY
#define ZDICT_DISABLE_DEPRECATE_WARNINGS
#include "dictBuilder/zdict.c"
#include "c18_tu.h"

size_t zv_analyzeEntropy(void* dst, size_t maxDst, int level, const void* samples, const size_t* sizes, unsigned nb,
                         const void* dict, size_t dictSize) {
    return ZDICT_analyzeEntropy(dst, maxDst, level, samples, sizes, nb, dict, dictSize, 0);
}
size_t zv_addEntropy_advanced(void* dictBuffer, size_t contentSize, size_t cap, const void* samples, const size_t* sizes,
                              unsigned nb, ZDICT_params_t params) {
    return ZDICT_addEntropyTablesFromBuffer_advanced(dictBuffer, contentSize, cap, samples, sizes, nb, params);
}
unsigned zv_hbuffsize(void) { return HBUFFSIZE; }
