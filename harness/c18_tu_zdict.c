/* C18 translation unit around lib/dictBuilder/zdict.c */
#define ZDICT_STATIC_LINKING_ONLY
#define ZDICT_DISABLE_DEPRECATE_WARNINGS
#include "dictBuilder/zdict.c"
#include "c18_tu.h"

size_t zv_analyzeEntropy(void* dst, size_t maxDst, int level, const void* samples, const size_t* sizes, unsigned nb,
                         const void* dict, size_t dictSize) {
    return ZDICT_analyzeEntropy(dst, maxDst, level, samples, sizes, nb, dict, dictSize, 0);
}
size_t zv_addEntropy_advanced(void* dictBuffer, size_t contentSize, size_t cap, const void* samples, const size_t* sizes,
                              unsigned nb, ZDICT_params_t params) {
    return ZDICT_addEntropyTablesFromBuffer_advanced(dictBuffer, contentSize, cap, samples, sizes, nb, params);
}
unsigned zv_hbuffsize(void) { return HBUFFSIZE; }

/* round 3: the offset-code limit ZDICT_analyzeEntropy derives from the dictionary size, observed on the REAL static
 * function: an all-zero "dictionary" of dictSize bytes (untouched lazy mapping when it is large), no samples; the offcode
 * table written into the entropy header is decoded again (FSE_readNCount): with no samples every code 0..offcodeMax has
 * count 1, so the largest symbol present IS offcodeMax.  returns -1 when the function returns an error, -2 harness problem */
#include <sys/mman.h>
int zv_offcode_max(unsigned long long dictSize64) {
    size_t const dictSize = (size_t)dictSize64;
    size_t const mapLimit = (size_t)1 << 33;
    unsigned char small[64];
    unsigned char* dict = small;
    size_t mapped = 0;
    BYTE header[HBUFFSIZE];
    size_t e;
    int res = -2;
    memset(small, 0, sizeof small);
    if (dictSize > sizeof small && dictSize <= mapLimit) {
        mapped = dictSize;
        dict = (unsigned char*)mmap(NULL, mapped, PROT_READ, MAP_PRIVATE | MAP_ANONYMOUS | MAP_NORESERVE, -1, 0);
        if (dict == (unsigned char*)MAP_FAILED) return -2;
    }
    e = ZDICT_analyzeEntropy(header, HBUFFSIZE - 8, 3, small, NULL, 0, dict, dictSize, 0);
    if (ZDICT_isError(e)) res = -1;
    else {
        BYTE weights[256]; U32 rank[HUF_TABLELOG_ABSOLUTEMAX + 1]; U32 nbSym = 0, tlog = 0;
        size_t const hh = HUF_readStats(weights, sizeof weights, rank, &nbSym, &tlog, header, e);
        if (!HUF_isError(hh) && hh < e) {
            short ncount[MaxOff + 1]; unsigned maxSV = MaxOff, tl = 0;
            size_t const oh = FSE_readNCount(ncount, &maxSV, &tl, header + hh, e - hh);
            if (!FSE_isError(oh)) res = (int)maxSV;
        }
    }
    if (mapped) munmap(dict, mapped);
    return res;
}
