/* c17_seq: line-oriented driver for the sequence-level compression API of the libzstd rebuilt from /repo's
 * working tree (property C17).  One command per line, one result line per command (flushed).
 *
 *  Q <id> <params> <dictmode> <dicthex|-> <seqs|-> <srchex|-> <cap|0>
 *        ZSTD_compressSequences(seqs, src) with dstCapacity cap (0 = compressBound+64)
 *        -> <id> OK <framehex> <applied> d=<ok|diff|E<name>>      (d = libzstd decoding the frame with the dictionary)
 *        -> <id> ERR <name> <applied>
 *        seqs    : off:ll:ml,off:ll:ml,...   (decimal, unsigned 32 bit)
 *        applied : wl=<windowLog>,mm=<minMatch>,bs=<blockSize>,ers=<searchForExternalRepcodes>,val=<validate>,
 *                  delim=<blockDelimiters>,maxnb=<seqStore.maxNbSeq>,ds=<dictSize seen by the copier>
 *  G <id> <params> <dictmode> <dicthex|-> <srchex|-> <merge 0|1> <outcap|0>
 *        ZSTD_generateSequences (+ ZSTD_mergeBlockDelimiters when merge=1), outcap 0 = ZSTD_sequenceBound
 *        -> <id> OK <seqs|-> <applied>   |  <id> ERR <name>
 *        here seqs are off:ll:ml:rep
 *  M <id> <seqs|->     ZSTD_mergeBlockDelimiters alone -> <id> OK <seqs|->
 *  P <id> <params> <script> <srchex|-> <cap|0>
 *        ZSTD_compress2 with a registered block-level sequence producer that answers from the script:
 *        script  : resp;resp;...    one per producer call, in order (calls beyond the script return ZSTD_SEQUENCE_PRODUCER_ERROR)
 *        resp    : E<value>  (return that value, E = capacity+<value> when written as C<value>)
 *                | R<ret>=<seqs|->   (write seqs (at most capacity of them) and return <ret>)
 *                | S<seqs|->         (write seqs and return their number)
 *        -> <id> OK <framehex> <applied> d=<ok|diff|E..> calls=<srcSize>:<capacity>:<windowSize>;...
 *        -> <id> ERR <name> <applied> calls=...
 *  B <id>            -> <id> OK sequenceBound samples (T-tie of ZSTD_sequenceBound) : n=bound,...
 *  (round 2)
 *  D <id> <contenthex> <dictID> <r0.r1.r2|->
 *        zstd-format dictionary (magic, entropy tables, content) built by ZDICT_finalizeDictionary from the content, the three
 *        repeat offsets at the end of its header optionally replaced   -> <id> OK <dicthex> hs=<header size>
 *  K <id> <params> <srchex> [<outcap>]
 *        ZSTD_generateSequences(c, q, outcap (default: bound), src) (fails when outcap is too small); the array is then filled with a sentinel; ZSTD_compress2(c, src) on the SAME
 *        context and on a fresh one  -> <id> OK gen=<n|Ename> sentinel=<intact|written@k> c2=<size|Ename> fresh=<size|Ename> same=<0|1> d=<..>
 *  Z <id> <params> <dictmode> <dicthex|-> <seqs1|-> <src1hex|-> <seqs2|-> <src2hex|->
 *        call history on ONE context: r1 = ZSTD_compressSequences(seqs1, src1) (may fail), setp = ZSTD_CCtx_setParameter(checksumFlag, its current value)
 *        right after it, r2 = ZSTD_compressSequences(seqs2, src2), c2 = ZSTD_compress2(src2); f2 / fc = the same two calls on fresh
 *        contexts  -> <id> OK r1=<size|Ename> setp=<ok|Ename> r2=<size|Ename> r2same=<0|1> d2=<..> c2=<size|Ename> c2same=<0|1>
 *  R <id> <params> <dictmode> <dicthex|-> <script> <srchex|-> <cap|0>
 *        the P command with a dictionary given to the context first (same result line, ds = dictSize seen by the copier)
 *  Q with a dictionary additionally prints u=<ok|diff|E..> : ZSTD_decompress_usingDict (history = dictionary content only)
 *  (round 3)
 *  X <id> <B> <nblocks> <seed> <depth> <codeLo> <codeHi> <density> <split> <tcbs> <validate>
 *        block splitter / super-block writer driven by a producer (scenario family of C06's c06_r2, fix: 3960417 / 65eb70d): a raw-content
 *        dictionary of 2^26 noise bytes, nblocks blocks of B bytes, each filled with up to B/3 three-byte matches whose offset codes
 *        (codeLo..codeHi) differ between the halves of every index range (depth = levels of that tree; depth 9 = 39000 sequences in
 *        256 leaves, aimed at ZSTD_MAX_NB_BLOCK_SPLITS; depth 10 = first half of the sequences incompressible [raw partition], second half long
 *        matches at the last three offsets of the first half, searchForExternalRepcodes enabled: repeat codes the splitter must reconcile);
 *        all answers are valid parses; dstCapacity = ZSTD_compressBound(n) exactly
 *        -> <id> OK csize=<n> bound=<n> blocks=<wire blocks> raw=<raw blocks> calls=<producer calls> d=<ok|diff|E..>   |   <id> ERR <name> bound=<n>
 */
#define ZSTD_STATIC_LINKING_ONLY
#include "compress/zstd_compress.c"   /* only to read applied parameters / dictSize and for the unit-level U commands */
#include "zstd_errors.h"
#define ZDICT_STATIC_LINKING_ONLY
#include "zdict.h"
#include <stdio.h>
#include <stdlib.h>
#include <string.h>

static unsigned char* unhex(const char* s, size_t* n) {
    size_t l, i; unsigned char* b;
    if (!strcmp(s, "-")) { *n = 0; b = (unsigned char*)malloc(1); return b; }
    l = strlen(s) / 2; b = (unsigned char*)malloc(l + 1);
    for (i = 0; i < l; i++) {
        unsigned char c0 = (unsigned char)s[2 * i], c1 = (unsigned char)s[2 * i + 1];
        unsigned v0 = c0 <= '9' ? c0 - '0' : (c0 | 32) - 'a' + 10, v1 = c1 <= '9' ? c1 - '0' : (c1 | 32) - 'a' + 10;
        b[i] = (unsigned char)(v0 * 16 + v1); }
    *n = l; return b;
}
static void puthex(const unsigned char* b, size_t n) {
    static const char* H = "0123456789abcdef"; size_t i;
    if (n == 0) { putchar('-'); return; }
    for (i = 0; i < n; i++) { putchar(H[b[i] >> 4]); putchar(H[b[i] & 15]); }
}
static void pename(size_t code) {
    const char* e = ZSTD_getErrorString(ZSTD_getErrorCode(code));
    for (; *e; e++) putchar(*e == ' ' ? '_' : *e);
}
static size_t apply_cparams(ZSTD_CCtx* c, const char* p) {
    if (!strcmp(p, "-")) return 0;
    while (*p) { int id, v, n = 0;
        if (sscanf(p, "%d:%d%n", &id, &v, &n) < 2) break;
        { size_t r = ZSTD_CCtx_setParameter(c, (ZSTD_cParameter)id, v); if (ZSTD_isError(r)) return r; }
        p += n; if (*p == ',') p++; }
    return 0;
}
static ZSTD_CDict* g_cdict = NULL;
static size_t give_dict(ZSTD_CCtx* c, const char* mode, const unsigned char* d, size_t dn) {
    if (!strcmp(mode, "-")) return 0;
    if (!strcmp(mode, "load")) return ZSTD_CCtx_loadDictionary(c, d, dn);
    if (!strcmp(mode, "loadref")) return ZSTD_CCtx_loadDictionary_byReference(c, d, dn);
    if (!strcmp(mode, "prefix")) return ZSTD_CCtx_refPrefix(c, d, dn);
    if (!strcmp(mode, "cdict")) {
        int lvl = 3; ZSTD_CCtx_getParameter(c, ZSTD_c_compressionLevel, &lvl);
        if (g_cdict) ZSTD_freeCDict(g_cdict);
        g_cdict = ZSTD_createCDict(d, dn, lvl);
        if (!g_cdict) return (size_t)-ZSTD_error_memory_allocation;
        return ZSTD_CCtx_refCDict(c, g_cdict);
    }
    return (size_t)-ZSTD_error_GENERIC;
}
/* parse "a:b:c,a:b:c" ; returns count; *out malloc'ed with `extra` spare slots */
static size_t parse_seqs(const char* s, ZSTD_Sequence** out, size_t extra) {
    size_t n = 0, cap = 16; ZSTD_Sequence* q = (ZSTD_Sequence*)calloc(cap + extra + 1, sizeof(ZSTD_Sequence));
    if (strcmp(s, "-")) {
        const char* p = s;
        while (*p) {
            unsigned long a, b, c; char* e;
            a = strtoul(p, &e, 10); if (*e != ':') break; p = e + 1;
            b = strtoul(p, &e, 10); if (*e != ':') break; p = e + 1;
            c = strtoul(p, &e, 10); p = e;
            if (n == cap) { cap *= 2; q = (ZSTD_Sequence*)realloc(q, (cap + extra + 1) * sizeof(ZSTD_Sequence)); }
            q[n].offset = (unsigned)a; q[n].litLength = (unsigned)b; q[n].matchLength = (unsigned)c; q[n].rep = 0; n++;
            if (*p == ',') p++; else break;
        }
    }
    *out = q; return n;
}
static void print_seqs(const ZSTD_Sequence* q, size_t n, int withrep) {
    size_t i;
    if (n == 0) { putchar('-'); return; }
    for (i = 0; i < n; i++) {
        if (withrep) printf("%s%u:%u:%u:%u", i ? "," : "", q[i].offset, q[i].litLength, q[i].matchLength, q[i].rep);
        else printf("%s%u:%u:%u", i ? "," : "", q[i].offset, q[i].litLength, q[i].matchLength);
    }
}
static void print_applied(const ZSTD_CCtx* c, size_t ds) {
    printf("wl=%u,mm=%u,bs=%lu,ers=%d,val=%d,delim=%d,maxnb=%lu,ds=%lu",
           c->appliedParams.cParams.windowLog, c->appliedParams.cParams.minMatch, (unsigned long)c->blockSize,
           (int)c->appliedParams.searchForExternalRepcodes, c->appliedParams.validateSequences,
           (int)c->appliedParams.blockDelimiters, (unsigned long)c->seqStore.maxNbSeq, (unsigned long)ds);
}
static void print_decode(const unsigned char* f, size_t fn, const unsigned char* d, size_t dn,
                         const unsigned char* x, size_t n, int magicless) {
    unsigned char* out = (unsigned char*)malloc(n + 64); ZSTD_DCtx* dc = ZSTD_createDCtx(); size_t r;
    if (magicless) ZSTD_DCtx_setParameter(dc, ZSTD_d_format, ZSTD_f_zstd1_magicless);
    ZSTD_DCtx_setParameter(dc, ZSTD_d_windowLogMax, 31);
    if (dn) r = ZSTD_DCtx_loadDictionary(dc, d, dn); else r = 0;
    if (!ZSTD_isError(r)) r = ZSTD_decompressDCtx(dc, out, n + 64, f, fn);
    if (ZSTD_isError(r)) { printf("d=E"); pename(r); }
    else if (r != n || (n && memcmp(out, x, n))) printf("d=diff");
    else printf("d=ok");
    ZSTD_freeDCtx(dc); free(out);
}

static void cmd_Q(char** t) {
    const char* id = t[1];
    size_t dn, n; unsigned char* d = unhex(t[4], &dn); unsigned char* x = unhex(t[6], &n);
    ZSTD_Sequence* q; size_t nq = parse_seqs(t[5], &q, 0);
    size_t cap = (size_t)strtoull(t[7], NULL, 10); unsigned char* out; size_t r, ds = 0;
    ZSTD_CCtx* c = ZSTD_createCCtx();
    ZSTD_Sequence* qx = (ZSTD_Sequence*)malloc((nq ? nq : 1) * sizeof(ZSTD_Sequence));   /* exact-size copy: ASan sees any over-read */
    unsigned char* xx = (unsigned char*)malloc(n ? n : 1);                                    /* exact-size copy of the source */
    int fmt = 0;
    if (nq) memcpy(qx, q, nq * sizeof(ZSTD_Sequence));
    if (n) memcpy(xx, x, n);
    if (cap == 0) cap = ZSTD_compressBound(n) + 64;
    out = (unsigned char*)malloc(cap ? cap : 1);
    r = apply_cparams(c, t[2]);
    if (!ZSTD_isError(r)) r = give_dict(c, t[3], d, dn);
    if (!ZSTD_isError(r)) {
        /* what the copier will see as dictSize (same expression as the code, evaluated after the call) */
        r = ZSTD_compressSequences(c, out, cap, qx, nq, xx, n);
        ds = c->cdict ? c->cdict->dictContentSize : (c->prefixDict.dict ? c->prefixDict.dictSize : 0);
    }
    ZSTD_CCtx_getParameter(c, ZSTD_c_format, &fmt);
    if (ZSTD_isError(r)) { printf("%s ERR ", id); pename(r); putchar(' '); print_applied(c, ds); putchar('\n'); }
    else { printf("%s OK ", id); puthex(out, r); putchar(' '); print_applied(c, ds); putchar(' ');
           print_decode(out, r, d, dn, x, n, fmt == 1);
           if (dn && strcmp(t[3], "-") && fmt != 1) {     /* decoder whose history is the dictionary CONTENT only */
               unsigned char* back = (unsigned char*)malloc(n + 64); ZSTD_DCtx* dc = ZSTD_createDCtx(); size_t k;
               ZSTD_DCtx_setParameter(dc, ZSTD_d_windowLogMax, 31);
               k = ZSTD_decompress_usingDict(dc, back, n + 64, out, r, d, dn);
               if (ZSTD_isError(k)) { printf(" u=E"); pename(k); } else printf((k != n || (n && memcmp(back, x, n))) ? " u=diff" : " u=ok");
               ZSTD_freeDCtx(dc); free(back); }
           putchar('\n'); }
    ZSTD_freeCCtx(c); if (g_cdict) { ZSTD_freeCDict(g_cdict); g_cdict = NULL; }
    free(d); free(x); free(q); free(qx); free(xx); free(out);
}

static void cmd_G(char** t) {
    const char* id = t[1];
    size_t dn, n; unsigned char* d = unhex(t[4], &dn); unsigned char* x = unhex(t[5], &n);
    int merge = atoi(t[6]); size_t ocap = (size_t)strtoull(t[7], NULL, 10);
    ZSTD_CCtx* c = ZSTD_createCCtx(); size_t r; ZSTD_Sequence* q;
    if (ocap == 0) ocap = ZSTD_sequenceBound(n);
    q = (ZSTD_Sequence*)malloc((ocap ? ocap : 1) * sizeof(ZSTD_Sequence));
    r = apply_cparams(c, t[2]);
    if (!ZSTD_isError(r)) r = give_dict(c, t[3], d, dn);
    if (!ZSTD_isError(r)) r = ZSTD_generateSequences(c, q, ocap, x, n);
    if (!ZSTD_isError(r) && merge) r = ZSTD_mergeBlockDelimiters(q, r);
    if (ZSTD_isError(r)) { printf("%s ERR ", id); pename(r); putchar('\n'); }
    else { printf("%s OK ", id); print_seqs(q, r, 1); putchar(' '); print_applied(c, 0); putchar('\n'); }
    ZSTD_freeCCtx(c); if (g_cdict) { ZSTD_freeCDict(g_cdict); g_cdict = NULL; }
    free(d); free(x); free(q);
}

static void cmd_M(char** t) {
    ZSTD_Sequence* q; size_t nq = parse_seqs(t[2], &q, 0);
    ZSTD_Sequence* qx = (ZSTD_Sequence*)malloc((nq ? nq : 1) * sizeof(ZSTD_Sequence)); size_t r;
    if (nq) memcpy(qx, q, nq * sizeof(ZSTD_Sequence));
    r = ZSTD_mergeBlockDelimiters(qx, nq);
    printf("%s OK ", t[1]); print_seqs(qx, r, 0); putchar('\n');
    free(q); free(qx);
}

/* ---- scripted external sequence producer ---- */
typedef struct { char* script; char* cur; char log[1 << 16]; size_t ll; int calls; } prod_t;
static size_t producer(void* st, ZSTD_Sequence* outSeqs, size_t outSeqsCapacity, const void* src, size_t srcSize,
                       const void* dict, size_t dictSize, int level, size_t windowSize) {
    prod_t* p = (prod_t*)st; char* r = p->cur; char* end; size_t ret;
    (void)src; (void)dict; (void)dictSize; (void)level;
    p->calls++;
    if (p->ll < sizeof(p->log) - 80)
        p->ll += (size_t)sprintf(p->log + p->ll, "%lu:%lu:%lu;", (unsigned long)srcSize, (unsigned long)outSeqsCapacity, (unsigned long)windowSize);
    if (!r || !*r) return ZSTD_SEQUENCE_PRODUCER_ERROR;
    end = strchr(r, ';');
    if (end) { *end = 0; p->cur = end + 1; } else p->cur = r + strlen(r);
    if (r[0] == 'E') return (size_t)strtoull(r + 1, NULL, 10);
    if (r[0] == 'C') return outSeqsCapacity + (size_t)strtoull(r + 1, NULL, 10);
    {   ZSTD_Sequence* q; size_t nq; const char* s = r + 1; int haveRet = 0;
        ret = 0;
        if (r[0] == 'R') { char* eq = strchr(r, '='); ret = (size_t)strtoull(r + 1, NULL, 10); haveRet = 1; s = eq ? eq + 1 : "-"; }
        nq = parse_seqs(s, &q, 0);
        if (nq > outSeqsCapacity) nq = outSeqsCapacity;        /* never write past the buffer zstd gave us */
        if (nq) memcpy(outSeqs, q, nq * sizeof(ZSTD_Sequence));
        free(q);
        return haveRet ? ret : nq;
    }
}

static void cmd_P(char** t) {
    const char* id = t[1];
    size_t n; unsigned char* x = unhex(t[4], &n);
    size_t cap = (size_t)strtoull(t[5], NULL, 10); unsigned char* out; size_t r;
    ZSTD_CCtx* c = ZSTD_createCCtx(); prod_t* p = (prod_t*)calloc(1, sizeof(prod_t)); int fmt = 0;
    if (cap == 0) cap = ZSTD_compressBound(n) + 64;
    out = (unsigned char*)malloc(cap ? cap : 1);
    p->script = strdup(strcmp(t[3], "-") ? t[3] : ""); p->cur = p->script;
    r = apply_cparams(c, t[2]);
    ZSTD_registerSequenceProducer(c, p, producer);
    if (!ZSTD_isError(r)) r = ZSTD_compress2(c, out, cap, x, n);
    ZSTD_CCtx_getParameter(c, ZSTD_c_format, &fmt);
    if (ZSTD_isError(r)) { printf("%s ERR ", id); pename(r); putchar(' '); print_applied(c, 0); }
    else { printf("%s OK ", id); puthex(out, r); putchar(' '); print_applied(c, 0); putchar(' ');
           print_decode(out, r, NULL, 0, x, n, fmt == 1); }
    printf(" calls=%s\n", p->ll ? p->log : "-");
    ZSTD_freeCCtx(c); free(p->script); free(p); free(x); free(out);
}

static void cmd_R(char** t) {
    const char* id = t[1];
    size_t dn, n; unsigned char* d = unhex(t[4], &dn); unsigned char* x = unhex(t[6], &n);
    size_t cap = (size_t)strtoull(t[7], NULL, 10); unsigned char* out; size_t r, ds = 0;
    ZSTD_CCtx* c = ZSTD_createCCtx(); prod_t* p = (prod_t*)calloc(1, sizeof(prod_t)); int fmt = 0;
    if (cap == 0) cap = ZSTD_compressBound(n) + 64;
    out = (unsigned char*)malloc(cap ? cap : 1);
    p->script = strdup(strcmp(t[5], "-") ? t[5] : ""); p->cur = p->script;
    r = apply_cparams(c, t[2]);
    if (!ZSTD_isError(r)) r = give_dict(c, t[3], d, dn);
    ZSTD_registerSequenceProducer(c, p, producer);
    if (!ZSTD_isError(r)) { r = ZSTD_compress2(c, out, cap, x, n); ds = c->cdict ? c->cdict->dictContentSize : 0; }
    ZSTD_CCtx_getParameter(c, ZSTD_c_format, &fmt);
    if (ZSTD_isError(r)) { printf("%s ERR ", id); pename(r); putchar(' '); print_applied(c, ds); }
    else { printf("%s OK ", id); puthex(out, r); putchar(' '); print_applied(c, ds); putchar(' ');
           print_decode(out, r, d, dn, x, n, fmt == 1); }
    printf(" calls=%s\n", p->ll ? p->log : "-");
    ZSTD_freeCCtx(c); if (g_cdict) { ZSTD_freeCDict(g_cdict); g_cdict = NULL; }
    free(p->script); free(p); free(d); free(x); free(out);
}

static void cmd_B(char** t) {
    static const size_t S[] = {0, 1, 2, 3, 5, 6, 1023, 1024, 1025, 3071, 3072, 131071, 131072, 131073, 1000000, 4294967295UL};
    size_t i;
    printf("%s OK ", t[1]);
    for (i = 0; i < sizeof(S) / sizeof(S[0]); i++) printf("%s%lu=%lu", i ? "," : "", (unsigned long)S[i], (unsigned long)ZSTD_sequenceBound(S[i]));
    printf(" minmatchmin=%d blockmaxmin=%d blockmax=%d err=%lu\n", ZSTD_MINMATCH_MIN, ZSTD_BLOCKSIZE_MAX_MIN, ZSTD_BLOCKSIZE_MAX, (unsigned long)ZSTD_SEQUENCE_PRODUCER_ERROR);
}

/* A <id> <params> <dictmode> <dicthex|-> <srcSize>  -> <id> OK <applied>    (parameters as ZSTD_compressSequences will apply them) */
static void cmd_A(char** t) {
    const char* id = t[1]; size_t dn; unsigned char* d = unhex(t[4], &dn); size_t n = (size_t)strtoull(t[5], NULL, 10);
    ZSTD_CCtx* c = ZSTD_createCCtx(); size_t r = apply_cparams(c, t[2]); size_t ds = 0;
    if (!ZSTD_isError(r)) r = give_dict(c, t[3], d, dn);
    if (!ZSTD_isError(r)) r = ZSTD_CCtx_init_compressStream2(c, ZSTD_e_end, n);
    if (!ZSTD_isError(r)) ds = c->cdict ? c->cdict->dictContentSize : (c->prefixDict.dict ? c->prefixDict.dictSize : 0);
    if (ZSTD_isError(r)) { printf("%s ERR ", id); pename(r); putchar('\n'); }
    else { printf("%s OK ", id); print_applied(c, ds); putchar('\n'); }
    ZSTD_freeCCtx(c); if (g_cdict) { ZSTD_freeCDict(g_cdict); g_cdict = NULL; }
    free(d);
}

/* ---- round 2: dictionaries in zstd format, call histories on one context ---- */
static void cmd_D(char** t) {
    size_t cn; unsigned char* content = unhex(t[2], &cn); unsigned id = (unsigned)strtoul(t[3], NULL, 10);
    size_t cap = cn + (1 << 16); unsigned char* dict = (unsigned char*)malloc(cap); ZDICT_params_t zp; size_t dn, hs;
    size_t ns = cn >= 64 ? 8 : 1, i; size_t* ss = (size_t*)malloc(ns * sizeof(size_t));
    memset(&zp, 0, sizeof(zp)); zp.dictID = id;
    for (i = 0; i < ns; i++) ss[i] = cn / ns;                 /* samples = the content cut in pieces */
    dn = ZDICT_finalizeDictionary(dict, cap, content, cn, content, ss, (unsigned)ns, zp);
    if (ZDICT_isError(dn)) { printf("%s ERR %s\n", t[1], ZDICT_getErrorName(dn)); }
    else {
        hs = ZDICT_getDictHeaderSize(dict, dn);
        if (strcmp(t[4], "-") && !ZSTD_isError(hs) && hs >= 12) { unsigned a, b, c;
            if (sscanf(t[4], "%u.%u.%u", &a, &b, &c) == 3) { MEM_writeLE32(dict + hs - 12, a); MEM_writeLE32(dict + hs - 8, b); MEM_writeLE32(dict + hs - 4, c); } }
        printf("%s OK ", t[1]); puthex(dict, dn); printf(" hs=%lu\n", (unsigned long)hs);
    }
    free(content); free(dict); free(ss);
}
static void pres(const char* k, size_t r) { printf(" %s=", k); if (ZSTD_isError(r)) { putchar('E'); pename(r); } else printf("%lu", (unsigned long)r); }

static void cmd_K(char** t) {
    const char* id = t[1]; size_t n; unsigned char* x = unhex(t[3], &n);
    size_t bound = ZSTD_compressBound(n) + 64; unsigned char* o1 = (unsigned char*)malloc(bound); unsigned char* o2 = (unsigned char*)malloc(bound);
    size_t cap = (t[4] && atoi(t[4]) > 0) ? (size_t)atoi(t[4]) : ZSTD_sequenceBound(n) + 8, i, g, r1, r2, hit = (size_t)-1;
    ZSTD_Sequence* q = (ZSTD_Sequence*)malloc(cap * sizeof(ZSTD_Sequence));
    ZSTD_CCtx* c = ZSTD_createCCtx(); ZSTD_CCtx* f = ZSTD_createCCtx();
    apply_cparams(c, t[2]); apply_cparams(f, t[2]);
    g = ZSTD_generateSequences(c, q, cap, x, n);
    memset(q, 0xA5, cap * sizeof(ZSTD_Sequence));
    r1 = ZSTD_compress2(c, o1, bound, x, n);
    for (i = 0; i < cap * sizeof(ZSTD_Sequence); i++) if (((unsigned char*)q)[i] != 0xA5) { hit = i / sizeof(ZSTD_Sequence); break; }
    r2 = ZSTD_compress2(f, o2, bound, x, n);
    printf("%s OK", id); pres("gen", g);
    if (hit == (size_t)-1) printf(" sentinel=intact"); else printf(" sentinel=written@%lu", (unsigned long)hit);
    pres("c2", r1); pres("fresh", r2);
    printf(" same=%d ", (!ZSTD_isError(r1) && r1 == r2 && !memcmp(o1, o2, r1)) ? 1 : 0);
    if (!ZSTD_isError(r1)) print_decode(o1, r1, NULL, 0, x, n, 0); else printf("d=-");
    putchar('\n');
    ZSTD_freeCCtx(c); ZSTD_freeCCtx(f); free(x); free(o1); free(o2); free(q);
}

static void cmd_Z(char** t) {
    const char* id = t[1]; size_t dn, n1, n2; unsigned char* d = unhex(t[4], &dn);
    unsigned char* x1 = unhex(t[6], &n1); unsigned char* x2 = unhex(t[8], &n2);
    ZSTD_Sequence *q1, *q2; size_t nq1 = parse_seqs(t[5], &q1, 0), nq2 = parse_seqs(t[7], &q2, 0);
    size_t b1 = ZSTD_compressBound(n1) + 64, b2 = ZSTD_compressBound(n2) + 64;
    unsigned char* o1 = (unsigned char*)malloc(b1); unsigned char* o2 = (unsigned char*)malloc(b2); unsigned char* o3 = (unsigned char*)malloc(b2);
    ZSTD_CCtx* c = ZSTD_createCCtx(); ZSTD_CCtx* f = ZSTD_createCCtx(); size_t r1, sp, r2, f2, c2, fc; int fmt = 0;
    apply_cparams(c, t[2]); apply_cparams(f, t[2]);
    give_dict(c, t[3], d, dn);
    r1 = ZSTD_compressSequences(c, o1, b1, q1, nq1, x1, n1);
    {   int cur = 0; ZSTD_CCtx_getParameter(c, ZSTD_c_checksumFlag, &cur);
        sp = ZSTD_CCtx_setParameter(c, ZSTD_c_checksumFlag, cur); }     /* same value: only asks whether a frame parameter may be set now */
    r2 = ZSTD_compressSequences(c, o2, b2, q2, nq2, x2, n2);
    {   ZSTD_CDict* keep = g_cdict; g_cdict = NULL;            /* the fresh context gets its own CDict */
        give_dict(f, t[3], d, dn);
        f2 = ZSTD_compressSequences(f, o3, b2, q2, nq2, x2, n2);
        if (g_cdict) { ZSTD_freeCCtx(f); f = NULL; ZSTD_freeCDict(g_cdict); }
        g_cdict = keep; }
    ZSTD_CCtx_getParameter(c, ZSTD_c_format, &fmt);
    printf("%s OK", id); pres("r1", r1); printf(" setp=%s", ZSTD_isError(sp) ? "E" : "ok"); if (ZSTD_isError(sp)) pename(sp);
    pres("r2", r2);
    printf(" r2same=%d ", (ZSTD_isError(r2) && ZSTD_isError(f2)) ? (ZSTD_getErrorCode(r2) == ZSTD_getErrorCode(f2))
                          : (!ZSTD_isError(r2) && !ZSTD_isError(f2) && r2 == f2 && !memcmp(o2, o3, r2)));
    if (!ZSTD_isError(r2)) { printf("d2"); print_decode(o2, r2, d, dn, x2, n2, fmt == 1); } else printf("d2d=-");
    pres("f2", f2);
    /* and a plain ZSTD_compress2 afterwards vs a fresh context with the same dictionary */
    c2 = ZSTD_compress2(c, o2, b2, x2, n2);
    {   ZSTD_CCtx* g = ZSTD_createCCtx(); ZSTD_CDict* keep = g_cdict; g_cdict = NULL;
        apply_cparams(g, t[2]); give_dict(g, t[3], d, dn);
        fc = ZSTD_compress2(g, o3, b2, x2, n2);
        ZSTD_freeCCtx(g); if (g_cdict) ZSTD_freeCDict(g_cdict); g_cdict = keep; }
    pres("c2", c2);
    printf(" c2same=%d", (ZSTD_isError(c2) && ZSTD_isError(fc)) ? (ZSTD_getErrorCode(c2) == ZSTD_getErrorCode(fc))
                         : (!ZSTD_isError(c2) && !ZSTD_isError(fc) && c2 == fc && !memcmp(o2, o3, c2)));
    putchar('\n');
    ZSTD_freeCCtx(c); if (f) ZSTD_freeCCtx(f); if (g_cdict) { ZSTD_freeCDict(g_cdict); g_cdict = NULL; }
    free(d); free(x1); free(x2); free(q1); free(q2); free(o1); free(o2); free(o3);
}


/* ---- round 3: adversarial (valid) producer against the block splitter ---- */
#define XDICT_LOG 26
typedef struct { unsigned pos, ml, off; } xrec;
static unsigned char* x_all; static size_t x_dn; static xrec* x_recs; static size_t x_nrecs; static size_t x_calls;
static unsigned long long x_rng;
static unsigned xrnd(void) { x_rng = x_rng * 6364136223846793005ULL + 1442695040888963407ULL; return (unsigned)(x_rng >> 33); }
static size_t xproducer(void* st, ZSTD_Sequence* out, size_t outCap, const void* src, size_t srcSize,
                        const void* dict, size_t dictSize, int level, size_t windowSize) {
    size_t const pos = (size_t)((const unsigned char*)src - (x_all + x_dn)); size_t lo = 0, hi = x_nrecs, k = 0, cur = pos;
    (void)st; (void)dict; (void)dictSize; (void)level; (void)windowSize; x_calls++;
    while (lo < hi) { size_t mid = (lo + hi) / 2; if (x_recs[mid].pos < pos) lo = mid + 1; else hi = mid; }
    for (; lo < x_nrecs && x_recs[lo].pos + x_recs[lo].ml <= pos + srcSize; lo++) {
        if (k + 1 >= outCap) return ZSTD_SEQUENCE_PRODUCER_ERROR;
        out[k].offset = x_recs[lo].off; out[k].matchLength = x_recs[lo].ml; out[k].litLength = (unsigned)(x_recs[lo].pos - cur); out[k].rep = 0;
        cur = x_recs[lo].pos + x_recs[lo].ml; k++; }
    if (k >= outCap) return ZSTD_SEQUENCE_PRODUCER_ERROR;
    out[k].offset = 0; out[k].matchLength = 0; out[k].litLength = (unsigned)(pos + srcSize - cur); out[k].rep = 0; k++;
    return k;
}
static void cmd_X(char** t) {
    const char* id = t[1]; size_t B = (size_t)strtoull(t[2], NULL, 10), nblocks = (size_t)strtoull(t[3], NULL, 10);
    unsigned long long seed = strtoull(t[4], NULL, 10); int depth = atoi(t[5]), codeLo = atoi(t[6]), codeHi = atoi(t[7]), density = atoi(t[8]);
    int split = atoi(t[9]), tcbs = atoi(t[10]), val = atoi(t[11]);
    size_t n = B * nblocks, b, i, bound = ZSTD_compressBound(n), r; unsigned ncodes = (unsigned)(codeHi - codeLo + 1);
    unsigned char* src; unsigned char* dst; ZSTD_CCtx* c;
    if (n == 0 || n > (4u << 20) || codeLo < 2 || codeHi > 25 || codeHi < codeLo) { printf("%s BADCMD\n", id); return; }
    if (!x_all) {
        x_dn = (size_t)1 << XDICT_LOG; x_all = (unsigned char*)malloc(x_dn + (4u << 20) + 64); x_recs = (xrec*)malloc(((4u << 20) / 3 + 16) * sizeof(xrec));
        x_rng = 424242ULL * 0x9E3779B97F4A7C15ULL + 0x1234567ULL;
        for (i = 0; i < x_dn; i += 4) { unsigned const v = xrnd(); memcpy(x_all + i, &v, 4); }
    }
    src = x_all + x_dn; x_nrecs = 0; x_calls = 0;
    x_rng = (seed * 7919 + 13) * 0x9E3779B97F4A7C15ULL + 0x1234567ULL;
    for (b = 0; b < nblocks; b++) {
        size_t const base = b * B; size_t pos = base; size_t const end = base + B; int const aimed = (depth == 9);
        size_t const nseq = aimed ? 39000 : (B / 3) * (size_t)density / 100; size_t j; unsigned const leaves = aimed ? 256u : 1u << depth;
        if (depth == 10) {
            /* repeat-offset reconciliation of the splitter: the first half of the sequence indices is incompressible (three-byte matches at
               offsets of codeLo..codeHi bits: that partition ends up raw, the decoder's history does not move), the second half reuses the
               LAST THREE offsets of the first half with long matches (repeat codes w.r.t. the history the copier built) */
            size_t const n1 = B / 14, n2 = n1; unsigned last[3] = {1, 4, 8}; size_t k;
            for (j = 0; j < n1 + n2; j++) {
                unsigned ml, ll, off; size_t G;
                if (j < n1) { unsigned const code = (unsigned)codeLo + (unsigned)(j % ncodes); unsigned const lo = (1u << code) - 3, hi = (2u << code) - 4;
                    ml = 3; ll = 0; off = lo + xrnd() % (hi - lo + 1); }
                else { ml = 8 + xrnd() % 4; ll = xrnd() % 2; off = last[xrnd() % 3]; }
                if (pos + ll + ml > end) break;
                for (k = 0; k < ll; k++) src[pos + k] = (unsigned char)xrnd();
                pos += ll; G = x_dn + pos; if (off > G) off = (unsigned)G;
                for (k = 0; k < ml; k++) x_all[G + k] = x_all[G + k - off];
                x_recs[x_nrecs].pos = (unsigned)pos; x_recs[x_nrecs].ml = ml; x_recs[x_nrecs].off = off; x_nrecs++;
                pos += ml;
                if (j < n1 && off != last[0]) { last[2] = last[1]; last[1] = last[0]; last[0] = off; }
            }
            for (; pos < end; pos++) src[pos] = (unsigned char)xrnd();
            continue;
        }
        for (j = 0; j < nseq; j++) {
            unsigned const leaf = (unsigned)(j * leaves / (nseq ? nseq : 1)); unsigned code, ml = 3, off, lo, hi; size_t G, k;
            if (aimed) code = (j & 1) ? 18 + ((leaf >> 1) & 7) : 2 + (leaf >> 4);
            else if (ncodes >= 4 && depth > 1) { unsigned const half = ncodes / 2;
                code = (j & 1) ? (unsigned)codeLo + half + ((leaf >> 1) % (ncodes - half)) : (unsigned)codeLo + ((leaf >> (depth > 4 ? 4 : 1)) % half); }
            else code = (unsigned)codeLo + (leaf % ncodes);
            if (aimed) ml = (((leaf >> 1) < (unsigned)density) && (leaf & 1)) ? 4 : 3;
            if (pos + ml > end) break;
            G = x_dn + pos;
            lo = (code <= 2) ? 1 : (1u << code) - 3; hi = (code <= 2) ? 4 : (2u << code) - 4;
            off = lo + xrnd() % (hi - lo + 1);
            if (off > G) off = (unsigned)G;
            for (k = 0; k < ml; k++) x_all[G + k] = x_all[G + k - off];
            x_recs[x_nrecs].pos = (unsigned)pos; x_recs[x_nrecs].ml = ml; x_recs[x_nrecs].off = off; x_nrecs++;
            pos += ml;
        }
        for (; pos < end; pos++) src[pos] = (unsigned char)xrnd();
    }
    c = ZSTD_createCCtx(); dst = (unsigned char*)malloc(bound ? bound : 1);
    ZSTD_CCtx_setParameter(c, ZSTD_c_compressionLevel, 1);
    ZSTD_CCtx_setParameter(c, ZSTD_c_windowLog, XDICT_LOG + 1);
    ZSTD_CCtx_setParameter(c, ZSTD_c_minMatch, 3);
    if (B < (128u << 10)) ZSTD_CCtx_setParameter(c, ZSTD_c_maxBlockSize, (int)B);
    if (split) ZSTD_CCtx_setParameter(c, ZSTD_c_useBlockSplitter, split == 1 ? ZSTD_ps_enable : ZSTD_ps_disable);
    if (tcbs) ZSTD_CCtx_setParameter(c, ZSTD_c_targetCBlockSize, tcbs);
    ZSTD_CCtx_setParameter(c, ZSTD_c_validateSequences, val);
    if (depth == 10) ZSTD_CCtx_setParameter(c, ZSTD_c_searchForExternalRepcodes, ZSTD_ps_enable);   /* level 1 resolves auto to disable: no repeat codes otherwise */
    ZSTD_registerSequenceProducer(c, NULL, xproducer);
    r = ZSTD_CCtx_loadDictionary_advanced(c, x_all, x_dn, ZSTD_dlm_byRef, ZSTD_dct_rawContent);
    if (!ZSTD_isError(r)) r = ZSTD_compress2(c, dst, bound, src, n);
    if (ZSTD_isError(r)) { printf("%s ERR ", id); pename(r); printf(" bound=%lu calls=%lu\n", (unsigned long)bound, (unsigned long)x_calls); }
    else {
        size_t pos = ZSTD_frameHeaderSize(dst, r), blocks = 0, raw = 0, dr; unsigned char* out = (unsigned char*)malloc(n + 64); ZSTD_DCtx* d = ZSTD_createDCtx();
        while (pos + 3 <= r) { unsigned const h = dst[pos] | (dst[pos + 1] << 8) | ((unsigned)dst[pos + 2] << 16); unsigned const ty = (h >> 1) & 3;
            blocks++; if (ty == 0) raw++; pos += 3 + (ty == 1 ? 1 : (h >> 3)); if (h & 1) break; }
        printf("%s OK csize=%lu bound=%lu blocks=%lu raw=%lu calls=%lu ", id, (unsigned long)r, (unsigned long)bound, (unsigned long)blocks, (unsigned long)raw, (unsigned long)x_calls);
        ZSTD_DCtx_setParameter(d, ZSTD_d_windowLogMax, 31);
        ZSTD_DCtx_loadDictionary_advanced(d, x_all, x_dn, ZSTD_dlm_byRef, ZSTD_dct_rawContent);
        dr = ZSTD_decompressDCtx(d, out, n + 64, dst, r);
        if (ZSTD_isError(dr)) { printf("d=E"); pename(dr); } else printf((dr != n || memcmp(out, src, n)) ? "d=diff" : "d=ok");
#ifndef C17_NO_UNITS
        /* unit level (as c06_r2): the split table of the block just handed over by the producer (its sequences are still in c->seqStore),
           derived again into a table of our own whose entries from ZSTD_MAX_NB_BLOCK_SPLITS on are canaries */
        if (nblocks == 1 && split == 1 && !tcbs) {
            enum { EXTRA = 64 }; static U32 table[ZSTD_MAX_NB_BLOCK_SPLITS + EXTRA];
            U32 const nbSeq = (U32)(c->seqStore.sequences - c->seqStore.sequencesStart); size_t ns, i2, over = 0;
            for (i2 = 0; i2 < ZSTD_MAX_NB_BLOCK_SPLITS + EXTRA; i2++) table[i2] = 0xC0FFEE00u + (U32)i2;
            ZSTD_reset_compressedBlockState(c->blockState.prevCBlock);
            ns = ZSTD_deriveBlockSplits(c, table, nbSeq);
            for (i2 = ZSTD_MAX_NB_BLOCK_SPLITS; i2 < ZSTD_MAX_NB_BLOCK_SPLITS + EXTRA; i2++) if (table[i2] != 0xC0FFEE00u + (U32)i2) over++;
            printf(" nbseq=%u splits=%lu over=%lu limit=%d", nbSeq, (unsigned long)ns, (unsigned long)over, (int)ZSTD_MAX_NB_BLOCK_SPLITS);
        }
#endif
        putchar('\n'); ZSTD_freeDCtx(d); free(out);
    }
    ZSTD_freeCCtx(c); free(dst);
}

#ifndef C17_NO_UNITS
/* unit-level commands: direct calls of the static functions the property is anchored in
 *  U <id> v <wlog> <minMatch> <producer> <dictSize> <offBase> <ml> <posInSrc>   -> <id> 0|1   (1 = ZSTD_validateSequence accepts)
 *  U <id> f <raw> <r0.r1.r2> <ll0>                                             -> <id> <offBase> <r0.r1.r2 after ZSTD_updateRep>
 *  U <id> b <srcSize>                                                          -> <id> <ZSTD_sequenceBound>
 *  U <id> p <nb> <capacity> <srcSize> <seqs|->                                 -> <id> OK <seqs> | <id> FAIL   (ZSTD_postProcessSequenceProducerResult)
 *  U <id> k <r0.r1.r2> <lastLL> <ll.ml.ob;...|->                               -> <id> OK off:ll:ml:rep,...      (ZSTD_copyBlockSequences)
 */
static void cmd_U(char** t, int nt) {
    const char* id = t[1];
    if (t[2][0] == 'v' && nt >= 10) {
        size_t r = ZSTD_validateSequence((U32)strtoul(t[7], NULL, 10), (U32)strtoul(t[8], NULL, 10), (U32)strtoul(t[4], NULL, 10),
                                         (size_t)strtoull(t[9], NULL, 10), (U32)strtoul(t[3], NULL, 10), (size_t)strtoull(t[6], NULL, 10), atoi(t[5]));
        printf("%s %d\n", id, ZSTD_isError(r) ? 0 : 1);
    } else if (t[2][0] == 'f' && nt >= 6) {
        U32 rep[3]; unsigned a, b, c; U32 ob; U32 ll0 = (U32)atoi(t[5]);
        sscanf(t[4], "%u.%u.%u", &a, &b, &c); rep[0] = a; rep[1] = b; rep[2] = c;
        ob = ZSTD_finalizeOffBase((U32)strtoul(t[3], NULL, 10), rep, ll0);
        ZSTD_updateRep(rep, ob, ll0);
        printf("%s %u %u.%u.%u\n", id, ob, rep[0], rep[1], rep[2]);
    } else if (t[2][0] == 'b' && nt >= 4) {
        printf("%s %lu\n", id, (unsigned long)ZSTD_sequenceBound((size_t)strtoull(t[3], NULL, 10)));
    } else if (t[2][0] == 'p' && nt >= 7) {
        size_t nb = (size_t)strtoull(t[3], NULL, 10), cap = (size_t)strtoull(t[4], NULL, 10), n = (size_t)strtoull(t[5], NULL, 10);
        ZSTD_Sequence* q; size_t nq = parse_seqs(t[6], &q, 0);
        ZSTD_Sequence* buf = (ZSTD_Sequence*)calloc(cap ? cap : 1, sizeof(ZSTD_Sequence)); size_t r;
        if (nq > cap) nq = cap;
        if (nq) memcpy(buf, q, nq * sizeof(ZSTD_Sequence));
        r = ZSTD_postProcessSequenceProducerResult(buf, nb, cap, n);
        if (ZSTD_isError(r)) printf("%s FAIL\n", id); else { printf("%s OK ", id); print_seqs(buf, r, 0); putchar('\n'); }
        free(q); free(buf);
    } else if (t[2][0] == 'k' && nt >= 6) {
        U32 rep[3]; unsigned a, b, c; size_t lastLL = (size_t)strtoull(t[4], NULL, 10); size_t n = 0, cap = 16, i, lits = 0;
        seqDef* sd = (seqDef*)calloc(cap, sizeof(seqDef)); seqStore_t ss; SeqCollector sc; ZSTD_Sequence* out; size_t r; const char* p = t[5];
        memset(&ss, 0, sizeof(ss)); ss.longLengthType = ZSTD_llt_none;
        sscanf(t[3], "%u.%u.%u", &a, &b, &c); rep[0] = a; rep[1] = b; rep[2] = c;
        if (strcmp(p, "-")) while (*p) {
            unsigned long l, m, o; char* e;
            l = strtoul(p, &e, 10); if (*e != '.') break; p = e + 1;
            m = strtoul(p, &e, 10); if (*e != '.') break; p = e + 1;
            o = strtoul(p, &e, 10); p = e;
            if (n == cap) { cap *= 2; sd = (seqDef*)realloc(sd, cap * sizeof(seqDef)); }
            if (l > 0xFFFF) { ss.longLengthType = ZSTD_llt_literalLength; ss.longLengthPos = (U32)n; }
            if (m - MINMATCH > 0xFFFF) { ss.longLengthType = ZSTD_llt_matchLength; ss.longLengthPos = (U32)n; }
            sd[n].litLength = (U16)l; sd[n].mlBase = (U16)(m - MINMATCH); sd[n].offBase = (U32)o; lits += l; n++;
            if (*p == ';') p++; else break;
        }
        ss.sequencesStart = sd; ss.sequences = sd + n; ss.litStart = (BYTE*)sd; ss.lit = (BYTE*)sd + lits + lastLL;   /* only the difference is used */
        out = (ZSTD_Sequence*)calloc(n + 1, sizeof(ZSTD_Sequence));
        sc.collectSequences = 1; sc.seqStart = out; sc.seqIndex = 0; sc.maxSequences = n + 1;
        r = ZSTD_copyBlockSequences(&sc, &ss, rep);
        if (ZSTD_isError(r)) printf("%s FAIL\n", id); else { printf("%s OK ", id); print_seqs(out, sc.seqIndex, 1); putchar('\n'); }
        (void)i; free(sd); free(out);
    } else printf("%s BADCMD\n", id);
}
#endif

int main(void) {
    char* line = NULL; size_t lcap = 0; ssize_t len;
    while ((len = getline(&line, &lcap, stdin)) > 0) {
        char* t[14] = {0}; int nt = 0; char* sv = NULL; char* tok = strtok_r(line, " \n", &sv);
        while (tok && nt < 14) { t[nt++] = tok; tok = strtok_r(NULL, " \n", &sv); }
        if (nt == 0) continue;
        if (t[0][0] == 'Q' && nt >= 8) cmd_Q(t);
        else if (t[0][0] == 'G' && nt >= 8) cmd_G(t);
        else if (t[0][0] == 'M' && nt >= 3) cmd_M(t);
        else if (t[0][0] == 'P' && nt >= 6) cmd_P(t);
        else if (t[0][0] == 'B' && nt >= 2) cmd_B(t);
        else if (t[0][0] == 'A' && nt >= 6) cmd_A(t);
        else if (t[0][0] == 'R' && nt >= 8) cmd_R(t);
        else if (t[0][0] == 'D' && nt >= 5) cmd_D(t);
        else if (t[0][0] == 'K' && nt >= 4) cmd_K(t);
        else if (t[0][0] == 'Z' && nt >= 9) cmd_Z(t);
        else if (t[0][0] == 'X' && nt >= 12) cmd_X(t);
#ifndef C17_NO_UNITS
        else if (t[0][0] == 'U' && nt >= 4) cmd_U(t, nt);
#endif
        else printf("%s BADCMD\n", nt > 1 ? t[1] : "?");
        fflush(stdout);
    }
    free(line);
    return 0;
}
