/* c08_hist: round 3 of C08 - call histories on ONE compression context and ONE decompression context.
 * A scenario is a pure function of its seed: three dictionaries (raw content of 1..300000 bytes; formatted ones = entropy tables of
 * ZDICT_finalizeDictionary + chosen content size 1..300000, repeat offsets anywhere in 1..content, chosen ID), then 1..7 frames on the same
 * ZSTD_CCtx.  Every frame picks
 *   - an entry point: advanced API (ZSTD_compress2 / ZSTD_compressStream2 after resets, random parameters, ZSTD_CCtx_loadDictionary_advanced /
 *     refCDict / refCDict(NULL) / refPrefix_advanced / loadDictionary(NULL), or the legacy ZSTD_initCStream* family + ZSTD_compressStream /
 *     ZSTD_endStream, multithreaded frames included), one-shot legacy calls (ZSTD_compress_usingDict / _advanced / _usingCDict[_advanced] /
 *     ZSTD_compressCCtx), the buffer-less API in frame mode (ZSTD_compressBegin* + ZSTD_compressContinue / ZSTD_compressEnd) and in block mode
 *     (ZSTD_compressBlock), each input segment PLACED in memory: contiguous with the previous one, in a fresh allocation, right behind the
 *     dictionary buffer, overlapping the previous segment (the documented "src overlaps, history is discarded" case) or anywhere in an arena;
 *   - a dictionary mode: up to 6 CDicts of different strategies / table logs / dedicated-dict-search / content types alternate on the context;
 *   - an input made of dictionary pieces, matches at the dictionary's repeat offsets at the very start, self references, noise.
 * The dictionary in force for a frame follows from the documented contract (sticky load / ref, single-use prefix, legacy calls leave the
 * sticky state alone).  Every frame is then decoded (a) by a fresh DCtx, single call, (b) by a fresh DCtx, streaming with small outputs (a frame
 * reaching into a dictionary beyond its window fails here), (c) by ONE long-lived DCtx that receives the dictionary in one of 7 ways with resets
 * in between; the dictionary ID in the header is checked; every other formatted dictionary of the scenario must be refused.
 *   P <id> <seed>                -> <id> OK D0:<hex> D1:<hex> D2:<hex> F:<kind 0 none 1 raw 2 formatted>:<dict>:<framehex>:<inputhex> ...   (frames of inputs <= 40000 bytes
 *                                   with dictionaries <= 70000 bytes, for the reference decoder)
 *   S <id> <firstSeed> <count>   -> <id> OK scenarios=<n> frames=<n>   |   <id> FAIL seed=<s> what=<text> history=<text>   (spaces as _) */
#define ZSTD_STATIC_LINKING_ONLY
#define ZSTD_DISABLE_DEPRECATE_WARNINGS
#define ZDICT_STATIC_LINKING_ONLY
#include "zstd.h"
#include "zstd_errors.h"
#include "zdict.h"
#include <stdio.h>
#include <stdlib.h>
#include <string.h>
#include <stdint.h>
#include <stdarg.h>

typedef struct { uint64_t s; } rng_t;
static unsigned rnd(rng_t* r) { r->s ^= r->s << 13; r->s ^= r->s >> 7; r->s ^= r->s << 17; return (unsigned)(r->s >> 20); }
static unsigned pick(rng_t* r, unsigned n) { return n ? rnd(r) % n : 0; }
static int chance(rng_t* r, unsigned pct) { return rnd(r) % 100 < pct; }
static const char* ename(size_t code) { return ZSTD_getErrorString(ZSTD_getErrorCode(code)); }

static char g_log[1 << 16]; static size_t g_ll;
static void rec(const char* fmt, ...) { va_list ap; va_start(ap, fmt); if (g_ll < sizeof(g_log) - 400) g_ll += (size_t)vsnprintf(g_log + g_ll, 390, fmt, ap); va_end(ap); }

#define BASEN 700000
static unsigned char BASE[BASEN];
static void gen_base(rng_t* r) {
    static unsigned char voc[400][14]; static int vl[400]; int i; size_t p = 0;
    for (i = 0; i < 400; i++) { int l = 2 + (int)pick(r, 11), j; vl[i] = l; for (j = 0; j < l; j++) voc[i][j] = (unsigned char)('a' + pick(r, 20)); }
    while (p < BASEN) {
        unsigned k = pick(r, 100);
        if (k < 90) { int w = (int)(pick(r, 400) * pick(r, 400) / 400); int l = vl[w]; if (p + l + 1 > BASEN) break; memcpy(BASE + p, voc[w], l); p += l; BASE[p++] = ' '; }
        else if (k < 94) { size_t l = 1 + pick(r, 300), j; for (j = 0; j < l && p < BASEN; j++) BASE[p++] = (unsigned char)rnd(r); }
        else if (k < 97) { size_t l = 1 + pick(r, 200), j; unsigned char c = (unsigned char)rnd(r); for (j = 0; j < l && p < BASEN; j++) BASE[p++] = c; }
        else if (p > 100) { size_t l = 4 + pick(r, 400), o = 1 + pick(r, (unsigned)(p > 60000 ? 60000 : p - 1)), j; for (j = 0; j < l && p < BASEN; j++, p++) BASE[p] = BASE[p - o]; }
    }
    while (p < BASEN) BASE[p++] = 'z';
}

#define ROOM (1u << 20)
typedef struct { unsigned char* buf; unsigned char* orig; size_t n; int fmt; unsigned id; size_t hdr; unsigned rep[3]; } dict_t;
#define NDICT 3
static dict_t DI[NDICT];
static unsigned char HDR[4096]; static size_t HDRN;
static void make_hdr(void) {
    static unsigned char tmp[1 << 16]; size_t sizes[20]; int i; ZDICT_params_t zp; size_t r; size_t const cs = 8192;
    for (i = 0; i < 20; i++) sizes[i] = 5000;
    memset(&zp, 0, sizeof zp); zp.dictID = 12345;
    r = ZDICT_finalizeDictionary(tmp, sizeof tmp, BASE + 1000, cs, BASE + 100000, sizes, 20, zp);
    if (ZDICT_isError(r)) { fprintf(stderr, "finalize failed %s\n", ZDICT_getErrorName(r)); exit(2); }
    HDRN = r - cs; memcpy(HDR, tmp, HDRN);
}
static void make_dict(rng_t* r, dict_t* d, int fmt) {
    static const unsigned sz[] = { 1, 2, 3, 4, 5, 6, 7, 8, 9, 12, 15, 16, 17, 31, 32, 33, 64, 100, 255, 1000, 1024, 4000, 8192, 20000, 32768, 65536, 65537, 100000, 131072, 131073, 200000, 300000 };
    size_t cn = sz[pick(r, sizeof sz / sizeof sz[0])]; size_t off;
    if (chance(r, 30)) cn = 1 + pick(r, 3000);
    off = pick(r, (unsigned)(BASEN - cn));
    d->fmt = fmt; d->hdr = fmt ? HDRN : 0; d->n = d->hdr + cn;
    d->buf = (unsigned char*)malloc(d->n + ROOM); d->orig = (unsigned char*)malloc(d->n + 1);
    if (fmt) { unsigned k; memcpy(d->buf, HDR, HDRN); d->id = chance(r, 50) ? 1 + pick(r, 60000) : (unsigned)rnd(r) * 77u + 70000u;
        d->buf[4] = (unsigned char)d->id; d->buf[5] = (unsigned char)(d->id >> 8); d->buf[6] = (unsigned char)(d->id >> 16); d->buf[7] = (unsigned char)(d->id >> 24);
        for (k = 0; k < 3; k++) { unsigned rep = chance(r, 40) ? (unsigned)cn : chance(r, 50) ? 1 + pick(r, (unsigned)cn) : (cn >= 8 ? (k == 0 ? 1 : k == 1 ? 4 : 8) : 1);
            if (rep > cn) rep = (unsigned)cn; d->rep[k] = rep; { unsigned char* p = d->buf + HDRN - 12 + 4 * k; p[0] = (unsigned char)rep; p[1] = (unsigned char)(rep >> 8); p[2] = (unsigned char)(rep >> 16); p[3] = (unsigned char)(rep >> 24); } } }
    else { d->id = 0; d->rep[0] = 1; d->rep[1] = 4; d->rep[2] = 8; }
    memcpy(d->buf + d->hdr, BASE + off, cn);
    if (!fmt && cn >= 4 && d->buf[0] == 0x37 && d->buf[1] == 0xA4) d->buf[0] = 'q';
    memcpy(d->orig, d->buf, d->n);
}

enum { K_NONE = 0, K_RAW = 1, K_FMT = 2 };
typedef struct { int kind; int di; } use_t;   /* which dictionary a frame was compressed with, and how the decoder must take it */

/* CDict pool */
#define NCD 6
typedef struct { ZSTD_CDict* cd; use_t u; int byref; char desc[200]; } cd_t;
static cd_t CD[NCD]; static int g_ncd;

static int g_lastLevel;
typedef size_t (*setter_f)(void* o, ZSTD_cParameter p, int v);
static size_t set_cctx(void* o, ZSTD_cParameter p, int v) { return ZSTD_CCtx_setParameter((ZSTD_CCtx*)o, p, v); }
static size_t set_params(void* o, ZSTD_cParameter p, int v) { return ZSTD_CCtxParams_setParameter((ZSTD_CCtx_params*)o, p, v); }
static int g_mt;
static int g_noid;   /* sticky dictIDFlag==0 on the cctx */
static void rand_params(rng_t* r, setter_f set, void* o, int forCDict) {
    static const int levels[] = { -5, -1, 1, 1, 2, 3, 3, 4, 5, 6, 7, 8, 9, 10, 12, 13, 15, 16, 17, 18, 19, 22 };
#define SET(p, v) do { size_t e_ = set(o, p, v); rec(" %s=%d%s", #p + 7, (int)(v), ZSTD_isError(e_) ? "(refused)" : ""); } while (0)
    if (chance(r, 70)) { int level = levels[pick(r, sizeof levels / sizeof levels[0])]; SET(ZSTD_c_compressionLevel, level); g_lastLevel = level; }
    if (chance(r, 40)) SET(ZSTD_c_strategy, 1 + pick(r, 9));
    if (chance(r, 40)) { static const int w[] = { 10, 10, 11, 12, 13, 14, 17, 18, 20, 23 }; SET(ZSTD_c_windowLog, w[pick(r, 10)]); }
    if (chance(r, 25)) { static const int w[] = { 6, 7, 8, 12, 17, 20, 24 }; SET(ZSTD_c_hashLog, w[pick(r, 7)]); }
    if (chance(r, 25)) { static const int w[] = { 6, 7, 8, 12, 17, 20, 24 }; SET(ZSTD_c_chainLog, w[pick(r, 7)]); }
    if (chance(r, 20)) SET(ZSTD_c_searchLog, 1 + pick(r, 9));
    if (chance(r, 25)) SET(ZSTD_c_minMatch, 3 + pick(r, 5));
    if (chance(r, 10)) { static const int w[] = { 0, 1, 8, 64, 999, 131072 }; SET(ZSTD_c_targetLength, w[pick(r, 6)]); }
    if (chance(r, 20)) { SET(ZSTD_c_enableLongDistanceMatching, chance(r, 80) ? 1 : 2); if (chance(r, 40)) SET(ZSTD_c_ldmMinMatch, 4 + pick(r, 60)); if (chance(r, 30)) SET(ZSTD_c_ldmHashLog, 6 + pick(r, 10));
                         if (chance(r, 30)) SET(ZSTD_c_ldmHashRateLog, pick(r, 6)); if (chance(r, 20)) SET(ZSTD_c_ldmBucketSizeLog, 1 + pick(r, 8)); }
    if (chance(r, 40)) SET(ZSTD_c_useRowMatchFinder, pick(r, 3));
    if (chance(r, 40)) SET(ZSTD_c_forceAttachDict, pick(r, 4));
    if (chance(r, 30)) SET(ZSTD_c_enableDedicatedDictSearch, pick(r, 2));
    if (!forCDict) {
        if (chance(r, 15)) { int v = (int)pick(r, 2); SET(ZSTD_c_dictIDFlag, v); g_noid = !v; }
        if (chance(r, 20)) SET(ZSTD_c_checksumFlag, pick(r, 2));
        if (chance(r, 15)) SET(ZSTD_c_contentSizeFlag, pick(r, 2));
        if (chance(r, 15)) { static const int w[] = { 0, 64, 300, 1340, 5000 }; SET(ZSTD_c_targetCBlockSize, w[pick(r, 5)]); }
        if (chance(r, 20)) SET(ZSTD_c_useBlockSplitter, pick(r, 3));
        if (chance(r, 10)) SET(ZSTD_c_literalCompressionMode, pick(r, 3));
        if (chance(r, 8)) SET(ZSTD_c_forceMaxWindow, pick(r, 2));
        if (chance(r, 10)) SET(ZSTD_c_deterministicRefPrefix, pick(r, 2));
        if (chance(r, 10)) SET(ZSTD_c_prefetchCDictTables, pick(r, 3));
        if (chance(r, 10)) { static const int w[] = { 0, 1, 100, 5000, 200000 }; SET(ZSTD_c_srcSizeHint, w[pick(r, 5)]); }
        if (chance(r, 15)) { static const int w[] = { 0, 1024, 1500, 4096, 65536 }; SET(ZSTD_c_maxBlockSize, w[pick(r, 5)]); }
        if (chance(r, 12)) { int w = (int)pick(r, 4); SET(ZSTD_c_nbWorkers, w); g_mt = w; if (w) { if (chance(r, 70)) SET(ZSTD_c_jobSize, 512 * 1024 + (int)pick(r, 3) * 100000); if (chance(r, 60)) SET(ZSTD_c_overlapLog, pick(r, 10)); if (chance(r, 20)) SET(ZSTD_c_rsyncable, 1); } }
    }
#undef SET
}
static const char* dctname(int t) { return t == 0 ? "auto" : t == 1 ? "raw" : "full"; }
static int kind_of(const dict_t* d, int t) { if (t == ZSTD_dct_rawContent) return K_RAW; return d->fmt ? K_FMT : K_RAW; }

static ZSTD_compressionParameters rand_cparams(rng_t* r, int lvl, size_t src, size_t dn) {
    ZSTD_compressionParameters cp = ZSTD_getCParams(lvl, src, dn);
    if (chance(r, 30)) cp.strategy = (ZSTD_strategy)(1 + pick(r, 9));
    if (chance(r, 25)) cp.windowLog = 10 + pick(r, 10);
    if (chance(r, 25)) { static const unsigned w[] = { 6, 7, 8, 12, 17, 22 }; cp.hashLog = w[pick(r, 6)]; }
    if (chance(r, 25)) { static const unsigned w[] = { 6, 7, 8, 12, 17, 22 }; cp.chainLog = w[pick(r, 6)]; }
    if (chance(r, 20)) cp.minMatch = 3 + pick(r, 5);
    if (chance(r, 15)) cp.searchLog = 1 + pick(r, 8);
    if (ZSTD_isError(ZSTD_checkCParams(cp))) cp = ZSTD_adjustCParams(cp, src, dn);
    return cp;
}

static cd_t* get_cdict(rng_t* r) {
    cd_t* c; int how, di, dlm, dct, lvl; dict_t* d; static const int levels[] = { -3, 1, 2, 3, 4, 5, 6, 7, 8, 10, 12, 13, 16, 19, 22 };
    if (g_ncd == NCD || (g_ncd > 0 && chance(r, 50))) { c = &CD[pick(r, (unsigned)g_ncd)]; rec(" [cdict#%d %s]", (int)(c - CD), c->desc); return c; }
    c = &CD[g_ncd]; how = (int)pick(r, 4); di = (int)pick(r, NDICT); d = &DI[di]; dlm = (int)pick(r, 2); dct = chance(r, 70) ? 0 : (int)pick(r, d->fmt ? 3 : 2); lvl = levels[pick(r, 15)];
    c->u.di = di; c->u.kind = kind_of(d, dct); c->byref = 0;
    if (how == 0) { snprintf(c->desc, sizeof c->desc, "create(d%d,L%d)", di, lvl); c->cd = ZSTD_createCDict(d->buf, d->n, lvl); c->u.kind = kind_of(d, 0); }
    else if (how == 1) { snprintf(c->desc, sizeof c->desc, "byRef(d%d,L%d)", di, lvl); c->cd = ZSTD_createCDict_byReference(d->buf, d->n, lvl); c->u.kind = kind_of(d, 0); c->byref = 1; }
    else if (how == 2) { ZSTD_compressionParameters cp = rand_cparams(r, lvl, chance(r, 50) ? 0 : 1 + pick(r, 300000), d->n);
        snprintf(c->desc, sizeof c->desc, "advanced(d%d,L%d,%s,%s,strat=%d,w=%u,h=%u,c=%u,mm=%u,s=%u)", di, lvl, dlm ? "ref" : "copy", dctname(dct), (int)cp.strategy, cp.windowLog, cp.hashLog, cp.chainLog, cp.minMatch, cp.searchLog);
        c->cd = ZSTD_createCDict_advanced(d->buf, d->n, (ZSTD_dictLoadMethod_e)dlm, (ZSTD_dictContentType_e)dct, cp, ZSTD_defaultCMem); c->byref = dlm; }
    else { ZSTD_CCtx_params* p = ZSTD_createCCtxParams(); size_t l0 = g_ll; rec(" {new cdict params:"); rand_params(r, set_params, p, 1); rec("}");
        snprintf(c->desc, sizeof c->desc, "advanced2(d%d,%s,%s)", di, dlm ? "ref" : "copy", dctname(dct)); (void)l0;
        c->cd = ZSTD_createCDict_advanced2(d->buf, d->n, (ZSTD_dictLoadMethod_e)dlm, (ZSTD_dictContentType_e)dct, p, ZSTD_defaultCMem); ZSTD_freeCCtxParams(p); c->byref = dlm; }
    rec(" [new cdict#%d %s%s]", g_ncd, c->desc, c->cd ? "" : " ->NULL");
    if (!c->cd) return NULL;
    g_ncd++; return c;
}

/* ---- input generation ---- */
static int g_big;
static size_t gen_input(rng_t* r, unsigned char* x, size_t cap, const dict_t* d) {
    static const unsigned sz[] = { 0, 1, 2, 7, 8, 9, 50, 300, 1000, 3000, 6000, 20000, 40000, 70000, 131072, 131073, 200000, 400000 };
    size_t n = sz[pick(r, sizeof sz / sizeof sz[0])], p = 0;
    if (chance(r, 40)) n = pick(r, 12000);
    if (g_big) { n = 600000 + pick(r, 900000); g_big = 0; }
    if (n > cap) n = cap;
    if (d && d->n > d->hdr && chance(r, 35)) { size_t cn = d->n - d->hdr; unsigned rp = d->rep[pick(r, 3)]; size_t l = 3 + pick(r, 40), j;
        if (chance(r, 30)) { size_t q = 1 + pick(r, 3); for (j = 0; j < q && p < n; j++) x[p++] = (unsigned char)rnd(r); }
        if (rp >= 1 && rp <= cn) for (j = 0; j < l && p < n; j++, p++) x[p] = (p >= rp) ? x[p - rp] : d->orig[d->hdr + cn - rp + p]; }
    while (p < n) { unsigned k = pick(r, 100); size_t l, j;
        if (k < 35 && d && d->n > d->hdr) { size_t cn = d->n - d->hdr; size_t o = pick(r, (unsigned)cn); l = 3 + pick(r, 600); if (chance(r, 20)) { o = cn > l ? cn - l : 0; } if (chance(r, 10)) o = 0; if (l > cn - o) l = cn - o;
            for (j = 0; j < l && p < n; j++) x[p++] = d->orig[d->hdr + o + j]; }
        else if (k < 60) { size_t o = pick(r, BASEN - 2000); l = 3 + pick(r, 1500); for (j = 0; j < l && p < n; j++) x[p++] = BASE[o + j]; }
        else if (k < 80 && p > 8) { size_t o = 1 + pick(r, (unsigned)p - 1); if (chance(r, 50) && o > 70) o = 1 + pick(r, 64); l = 3 + pick(r, 500); for (j = 0; j < l && p < n; j++, p++) x[p] = x[p - o]; }
        else if (k < 90) { l = 1 + pick(r, 40); for (j = 0; j < l && p < n; j++) x[p++] = (unsigned char)rnd(r); }
        else { l = 1 + pick(r, 2000); for (j = 0; j < l && p < n; j++) x[p++] = (unsigned char)rnd(r); }
    }
    return n;
}

/* ---- placement of bufferless segments ---- */
#define ARENA (8u << 20)
static unsigned char* g_arena;
static unsigned char* g_prevLoc; static size_t g_prevLen;
static void* g_tofree[64]; static int g_ntofree;
static unsigned char* place(rng_t* r, const unsigned char* x, size_t len, const dict_t* d, int allowAdj, int first) {
    unsigned k = pick(r, 100); unsigned char* loc;
    if (!first && k < 35 && g_prevLoc >= g_arena && g_prevLoc + g_prevLen + len <= g_arena + ARENA) { loc = g_prevLoc + g_prevLen; rec(" contig"); }
    else if (k < 50 && g_ntofree < 60) { loc = (unsigned char*)malloc(len + 1); g_tofree[g_ntofree++] = loc; rec(" malloc"); }
    else if (k < 62 && d && allowAdj && len < ROOM) { loc = d->buf + d->n; rec(" adjdict"); }
    else if (!first && k < 80 && g_prevLoc >= g_arena && g_prevLoc < g_arena + ARENA && g_prevLen > 1) {
        long delta = (long)pick(r, (unsigned)g_prevLen) - (chance(r, 50) ? (long)pick(r, (unsigned)len + 1) : 0);
        loc = g_prevLoc + delta; if (loc < g_arena) loc = g_arena; if (loc + len > g_arena + ARENA) loc = g_arena + ARENA - len; rec(" overlap(%ld)", (long)(loc - g_prevLoc)); }
    else { loc = g_arena + pick(r, (unsigned)(ARENA - len)); rec(" arena@%lu", (unsigned long)(loc - g_arena)); }
    memmove(loc, x, len);
    g_prevLoc = loc; g_prevLen = len;
    return loc;
}

/* ---- decoding ---- */
static int g_failed;
static char g_what[700];
static int failx(const char* fmt, ...) { va_list ap; va_start(ap, fmt); if (!g_failed) vsnprintf(g_what, sizeof g_what, fmt, ap); va_end(ap); g_failed = 1; return -1; }

static size_t decode_fresh(rng_t* r, use_t u, const unsigned char* f, size_t fn, unsigned char* out, size_t cap, int streaming) {
    ZSTD_DCtx* dc = ZSTD_createDCtx(); size_t ret; const dict_t* d = u.kind == K_NONE ? NULL : &DI[u.di];
    if (u.kind == K_RAW) ret = ZSTD_DCtx_loadDictionary_advanced(dc, d->orig, d->n, ZSTD_dlm_byRef, ZSTD_dct_rawContent);
    else if (u.kind == K_FMT) ret = ZSTD_DCtx_loadDictionary_advanced(dc, d->orig, d->n, ZSTD_dlm_byRef, chance(r, 50) ? ZSTD_dct_fullDict : ZSTD_dct_auto);
    else ret = 0;
    if (ZSTD_isError(ret)) { ZSTD_freeDCtx(dc); return ret; }
    if (!streaming) ret = ZSTD_decompressDCtx(dc, out, cap, f, fn);
    else { ZSTD_inBuffer ib; ZSTD_outBuffer ob; size_t e = 1, ipos = 0, opos = 0; int guard = 0; size_t const oc = 1 + pick(r, chance(r, 50) ? 300 : 70000);
        ret = 0;
        while (ipos < fn && ++guard < 3000000) { size_t il = 1 + pick(r, 5000), ol = oc;
            if (il > fn - ipos) il = fn - ipos; if (ol > cap - opos) ol = cap - opos;
            ib.src = f + ipos; ib.size = il; ib.pos = 0; ob.dst = out + opos; ob.size = ol; ob.pos = 0;
            e = ZSTD_decompressStream(dc, &ob, &ib); if (ZSTD_isError(e)) { ret = e; break; } ipos += ib.pos; opos += ob.pos;
            if (ib.pos == 0 && ob.pos == 0 && ol == 0) { ret = (size_t)-ZSTD_error_dstSize_tooSmall; break; } }
        while (!ZSTD_isError(ret) && e != 0 && ++guard < 3000000) { size_t ol = cap - opos; if (ol > oc) ol = oc; ib.src = f + fn; ib.size = 0; ib.pos = 0; ob.dst = out + opos; ob.size = ol; ob.pos = 0;
            e = ZSTD_decompressStream(dc, &ob, &ib); if (ZSTD_isError(e)) { ret = e; break; } opos += ob.pos; if (ob.pos == 0) break; }
        if (!ZSTD_isError(ret)) ret = e ? (size_t)-ZSTD_error_srcSize_wrong : opos; }
    ZSTD_freeDCtx(dc);
    return ret;
}

/* the long-lived DCtx: random way of giving it the dictionary, with resets */
static ZSTD_DCtx* g_dc; static ZSTD_DDict* g_dd[NDICT][2]; static use_t g_dst;   /* sticky dictionary of the long-lived DCtx */
static size_t decode_reused(rng_t* r, use_t u, const unsigned char* f, size_t fn, unsigned char* out, size_t cap) {
    const dict_t* d = u.kind == K_NONE ? NULL : &DI[u.di]; int how = (int)pick(r, 7); size_t e;
    if (chance(r, 20)) { rec(" <dreset %d>", 1); ZSTD_DCtx_reset(g_dc, ZSTD_reset_session_only); }
    if (chance(r, 15)) { rec(" <dreset p>"); ZSTD_DCtx_reset(g_dc, ZSTD_reset_session_and_parameters); g_dst.kind = K_NONE; }
    /* the dictionary loaded / referenced for an earlier frame is sticky: the same dictionary need not be given again */
    if (u.kind != K_NONE && g_dst.kind == u.kind && g_dst.di == u.di && chance(r, 50)) { rec(" <dec sticky d%d>", u.di);
        if (chance(r, 50)) return ZSTD_decompressDCtx(g_dc, out, cap, f, fn);
        {   ZSTD_inBuffer ib; ZSTD_outBuffer ob; size_t r2 = 1; int guard = 0; ib.src = f; ib.size = fn; ib.pos = 0; ob.dst = out; ob.size = cap; ob.pos = 0;
            while (r2 != 0 && ++guard < 100000) { size_t b = ib.pos + ob.pos; r2 = ZSTD_decompressStream(g_dc, &ob, &ib); if (ZSTD_isError(r2)) return r2; if (r2 && ib.pos + ob.pos == b) return (size_t)-ZSTD_error_srcSize_wrong; }
            return ob.pos; } }
    if (u.kind == K_NONE) { rec(" <dec none h%d>", how); if (how != 5) g_dst.kind = K_NONE;
        /* whatever dictionary the context holds, a frame that needs none decodes; drop it half of the time */
        if (how < 3) ZSTD_DCtx_loadDictionary(g_dc, NULL, 0);
        else if (how < 5) ZSTD_DCtx_refDDict(g_dc, NULL);
        else if (how == 5) return ZSTD_decompress_usingDict(g_dc, out, cap, f, fn, NULL, 0);
        else { /* leave whatever is there: only legitimate if the held dictionary is raw content or the frame names no ID: names no ID here */ ZSTD_DCtx_loadDictionary(g_dc, NULL, 0); }
        return ZSTD_decompressDCtx(g_dc, out, cap, f, fn); }
    rec(" <dec d%d k%d h%d>", u.di, u.kind, how);
    if (how <= 1 || how == 3 || how == 6) g_dst = u; else if (how == 2 || (how == 5 && u.kind == K_RAW && d->fmt)) g_dst.kind = K_NONE;   /* a prefix replaces the sticky dictionary and serves once */
    {   ZSTD_dictContentType_e t = u.kind == K_RAW ? ZSTD_dct_rawContent : ZSTD_dct_auto;
        switch (how) {
        case 0: e = ZSTD_DCtx_loadDictionary_advanced(g_dc, d->orig, d->n, ZSTD_dlm_byCopy, t); if (ZSTD_isError(e)) return e; return ZSTD_decompressDCtx(g_dc, out, cap, f, fn);
        case 1: e = ZSTD_DCtx_loadDictionary_advanced(g_dc, d->orig, d->n, ZSTD_dlm_byRef, t); if (ZSTD_isError(e)) return e; return ZSTD_decompressDCtx(g_dc, out, cap, f, fn);
        case 2: e = ZSTD_DCtx_refPrefix_advanced(g_dc, d->orig, d->n, t); if (ZSTD_isError(e)) return e; return ZSTD_decompressDCtx(g_dc, out, cap, f, fn);
        case 3: if (!g_dd[u.di][u.kind == K_RAW]) g_dd[u.di][u.kind == K_RAW] = ZSTD_createDDict_advanced(d->orig, d->n, ZSTD_dlm_byRef, t, ZSTD_defaultCMem);
                e = ZSTD_DCtx_refDDict(g_dc, g_dd[u.di][u.kind == K_RAW]); if (ZSTD_isError(e)) return e; return ZSTD_decompressDCtx(g_dc, out, cap, f, fn);
        case 4: if (!g_dd[u.di][u.kind == K_RAW]) g_dd[u.di][u.kind == K_RAW] = ZSTD_createDDict_advanced(d->orig, d->n, ZSTD_dlm_byCopy, t, ZSTD_defaultCMem);
                return ZSTD_decompress_usingDDict(g_dc, out, cap, f, fn, g_dd[u.di][u.kind == K_RAW]);
        case 5: if (u.kind == K_RAW && d->fmt) { e = ZSTD_DCtx_refPrefix_advanced(g_dc, d->orig, d->n, t); if (ZSTD_isError(e)) return e; return ZSTD_decompressDCtx(g_dc, out, cap, f, fn); }
                return ZSTD_decompress_usingDict(g_dc, out, cap, f, fn, d->orig, d->n);
        default: { ZSTD_inBuffer ib; ZSTD_outBuffer ob; size_t r2 = 1; int guard = 0;
                e = ZSTD_DCtx_loadDictionary_advanced(g_dc, d->orig, d->n, ZSTD_dlm_byRef, t); if (ZSTD_isError(e)) return e;
                ib.src = f; ib.size = fn; ib.pos = 0; ob.dst = out; ob.size = cap; ob.pos = 0;
                while (r2 != 0 && ++guard < 100000) { size_t b = ib.pos + ob.pos; r2 = ZSTD_decompressStream(g_dc, &ob, &ib); if (ZSTD_isError(r2)) return r2; if (r2 && ib.pos + ob.pos == b) return (size_t)-ZSTD_error_srcSize_wrong; }
                return ob.pos; }
        } }
}

static size_t decode_blocks(use_t u, const unsigned char* f, size_t fn, unsigned char* out, size_t cap) {
    ZSTD_DCtx* dc = ZSTD_createDCtx(); size_t ip = 0, op = 0, ret; const dict_t* d = u.kind == K_NONE ? NULL : &DI[u.di];
    if (u.kind == K_NONE) ret = ZSTD_decompressBegin(dc);
    else if (u.kind == K_FMT || !d->fmt) ret = ZSTD_decompressBegin_usingDict(dc, d->orig, d->n);
    else { ZSTD_freeDCtx(dc); return (size_t)-9999; }
    while (!ZSTD_isError(ret) && ip < fn) { unsigned a, b; memcpy(&a, f + ip, 4); memcpy(&b, f + ip + 4, 4); ip += 8;
        if (a > cap - op) { ret = (size_t)-ZSTD_error_dstSize_tooSmall; break; }
        if (b == 0) { memcpy(out + op, f + ip, a); ret = ZSTD_insertBlock(dc, out + op, a); ip += a; if (!ZSTD_isError(ret)) ret = a; }
        else { ret = ZSTD_decompressBlock(dc, out + op, cap - op, f + ip, b); ip += b; if (!ZSTD_isError(ret) && ret != a) ret = (size_t)-ZSTD_error_corruption_detected; }
        if (!ZSTD_isError(ret)) op += a; }
    ZSTD_freeDCtx(dc);
    return ZSTD_isError(ret) ? ret : op;
}

static int g_keep; static int g_print; static char* g_pr; static size_t g_prn, g_prcap;
static void pr_hex(const char* tag, const unsigned char* b, size_t n) { static const char* H = "0123456789abcdef"; size_t i; size_t need = g_prn + strlen(tag) + 2 * n + 8;
    if (need > g_prcap) { g_prcap = need * 2; g_pr = (char*)realloc(g_pr, g_prcap); }
    g_prn += (size_t)sprintf(g_pr + g_prn, "%s", tag); if (n == 0) g_pr[g_prn++] = '-'; for (i = 0; i < n; i++) { g_pr[g_prn++] = H[b[i] >> 4]; g_pr[g_prn++] = H[b[i] & 15]; } g_pr[g_prn] = 0; }
static unsigned char *X, *OUT, *DEC; static size_t const XCAP = 1600000, OCAP = 3400000;
static long g_frames, g_errs;

static int check_frame(rng_t* r, use_t u, int noid, int isBlocks, size_t xn, size_t cs, int fi) {
    size_t ds; int s;
    g_frames++;
    if (isBlocks) { ds = decode_blocks(u, OUT, cs, DEC, xn + 64); if (ds == (size_t)-9999) return 0;
        if (ZSTD_isError(ds)) return failx("frame %d block decode failed: %s", fi, ename(ds));
        if (ds != xn || memcmp(DEC, X, xn)) return failx("frame %d block decode gives DIFFERENT BYTES (kind %d d%d)", fi, u.kind, u.di);
        return 0; }
    {   unsigned fid = ZSTD_getDictID_fromFrame(OUT, cs); unsigned want = (u.kind == K_FMT && !noid) ? DI[u.di].id : 0;
        if (noid >= 0 && fid != want) return failx("frame %d records dictID %u, expected %u", fi, fid, want); }
    for (s = 0; s < 2; s++) {
        ds = decode_fresh(r, u, OUT, cs, DEC, xn + 64, s);
        if (ZSTD_isError(ds)) return failx("frame %d (kind %d d%d) decode fresh/%s failed: %s", fi, u.kind, u.di, s ? "stream" : "oneshot", ename(ds));
        if (ds != xn || memcmp(DEC, X, xn)) return failx("frame %d (kind %d d%d) decode fresh/%s gives DIFFERENT BYTES", fi, u.kind, u.di, s ? "stream" : "oneshot");
    }
    ds = decode_reused(r, u, OUT, cs, DEC, xn + 64);
    if (ZSTD_isError(ds)) return failx("frame %d (kind %d d%d) decode on the reused DCtx failed: %s", fi, u.kind, u.di, ename(ds));
    if (ds != xn || memcmp(DEC, X, xn)) return failx("frame %d (kind %d d%d) decode on the reused DCtx gives DIFFERENT BYTES", fi, u.kind, u.di);
    if (g_print && xn <= 40000 && (u.kind == K_NONE || DI[u.di].n <= 70000)) { char tag[64]; sprintf(tag, " F:%d:%d:", u.kind, u.kind == K_NONE ? 0 : u.di); pr_hex(tag, OUT, cs); pr_hex(":", X, xn); }
    /* another dictionary with another ID must be refused */
    if (u.kind == K_FMT && ZSTD_getDictID_fromFrame(OUT, cs) != 0) { int o; for (o = 0; o < NDICT; o++) if (DI[o].fmt && DI[o].id != DI[u.di].id) { use_t w; w.kind = K_FMT; w.di = o;
        ds = decode_fresh(r, w, OUT, cs, DEC, xn + 64, chance(r, 50));
        if (!ZSTD_isError(ds)) return failx("frame %d decodes with another dictionary (d%d) instead of being refused", fi, o); } }
    return 0;
}

static int scenario(uint64_t seed) {
    rng_t r; ZSTD_CCtx* c; int nf, fi, i; use_t sticky; int stickyPrefix = 0; int rc = 0;
    r.s = seed * 0x9E3779B97F4A7C15ull + 88172645463325252ull; rnd(&r); rnd(&r); rnd(&r);
    g_ll = 0; g_log[0] = 0; g_ncd = 0; g_noid = 0; g_mt = 0; g_big = 0; g_failed = 0; g_lastLevel = 3;
    for (i = 0; i < NDICT; i++) make_dict(&r, &DI[i], i == 0 ? 0 : (i == 1 ? 1 : (int)pick(&r, 2)));
    if (DI[2].fmt && DI[2].id == DI[1].id) DI[2].id ^= 0x10, DI[2].buf[4] ^= 0x10, DI[2].orig[4] ^= 0x10;
    rec(" dicts: d0 raw %lu; d1 fmt %lu id %u; d2 %s %lu id %u;", (unsigned long)DI[0].n, (unsigned long)(DI[1].n - DI[1].hdr), DI[1].id, DI[2].fmt ? "fmt" : "raw", (unsigned long)(DI[2].n - DI[2].hdr), DI[2].id);
    c = ZSTD_createCCtx(); g_dc = ZSTD_createDCtx(); memset(g_dd, 0, sizeof g_dd); g_dst.kind = K_NONE; g_dst.di = 0;
    sticky.kind = K_NONE; sticky.di = 0;
    nf = 1 + (int)pick(&r, 7);
    for (fi = 0; fi < nf && !rc; fi++) {
        int api = (int)pick(&r, 100); use_t u; size_t xn, cs = 0; int noid = 0; int isBlocks = 0; const dict_t* hint = &DI[pick(&r, NDICT)];
        u.kind = K_NONE; u.di = 0;
        rec("\n   F%d:", fi);
#define CK(e, what) do { size_t e_ = (e); if (ZSTD_isError(e_)) { rec(" %s -> %s", what, ename(e_)); g_errs++; goto next; } } while (0)
        if (api < 40) {   /* advanced API */
            int oldInit = 0;
            if (chance(&r, 15)) { rec(" reset(session)"); ZSTD_CCtx_reset(c, ZSTD_reset_session_only); }
            if (chance(&r, 12)) { rec(" reset(params)"); ZSTD_CCtx_reset(c, ZSTD_reset_parameters); sticky.kind = K_NONE; stickyPrefix = 0; g_noid = 0; g_mt = 0; }
            if (chance(&r, 8)) { rec(" reset(both)"); ZSTD_CCtx_reset(c, ZSTD_reset_session_and_parameters); sticky.kind = K_NONE; stickyPrefix = 0; g_noid = 0; g_mt = 0; }
            if (chance(&r, 60)) rand_params(&r, set_cctx, c, 0);
            if (chance(&r, 25)) { int op = (int)pick(&r, 7); int di = (int)pick(&r, NDICT); dict_t* d = &DI[di]; int lvl = (int)pick(&r, 23) - 3; if (lvl == 0) lvl = 1; oldInit = 1;
                if (op == 0) { rec(" initCStream(L%d)", lvl); CK(ZSTD_initCStream(c, lvl), "init"); sticky.kind = K_NONE; stickyPrefix = 0; }
                else if (op == 1) { rec(" initCStream_srcSize(L%d)", lvl); CK(ZSTD_initCStream_srcSize(c, lvl, ZSTD_CONTENTSIZE_UNKNOWN), "init"); sticky.kind = K_NONE; stickyPrefix = 0; }
                else if (op == 2) { int nul = chance(&r, 15); rec(" initCStream_usingDict(%s%d,L%d)", nul ? "NULL" : "d", di, lvl); CK(ZSTD_initCStream_usingDict(c, nul ? NULL : d->buf, nul ? 0 : d->n, lvl), "init"); sticky.kind = nul ? K_NONE : kind_of(d, 0); sticky.di = di; stickyPrefix = 0; hint = d; }
                else if (op == 3) { cd_t* cd = get_cdict(&r); if (cd) { rec(" initCStream_usingCDict"); CK(ZSTD_initCStream_usingCDict(c, cd->cd), "init"); sticky = cd->u; stickyPrefix = 0; } }
                else if (op == 4) { cd_t* cd = get_cdict(&r); if (cd) { ZSTD_frameParameters fp; fp.contentSizeFlag = chance(&r, 70); fp.checksumFlag = chance(&r, 40); fp.noDictIDFlag = chance(&r, 25);
                    rec(" initCStream_usingCDict_advanced(noid=%d)", fp.noDictIDFlag); CK(ZSTD_initCStream_usingCDict_advanced(c, cd->cd, fp, ZSTD_CONTENTSIZE_UNKNOWN), "init"); g_noid = fp.noDictIDFlag; sticky = cd->u; stickyPrefix = 0; } }
                else if (op == 5) { ZSTD_parameters p; int nul = chance(&r, 15); p.cParams = rand_cparams(&r, lvl, 0, d->n); p.fParams.contentSizeFlag = chance(&r, 70); p.fParams.checksumFlag = chance(&r, 40); p.fParams.noDictIDFlag = chance(&r, 25);
                    rec(" initCStream_advanced(%s%d,L%d,strat=%d,w=%u,h=%u,c=%u,mm=%u,noid=%d)", nul ? "NULL" : "d", di, lvl, (int)p.cParams.strategy, p.cParams.windowLog, p.cParams.hashLog, p.cParams.chainLog, p.cParams.minMatch, p.fParams.noDictIDFlag);
                    CK(ZSTD_initCStream_advanced(c, nul ? NULL : d->buf, nul ? 0 : d->n, p, ZSTD_CONTENTSIZE_UNKNOWN), "init"); g_noid = p.fParams.noDictIDFlag; sticky.kind = nul ? K_NONE : kind_of(d, 0); sticky.di = di; stickyPrefix = 0; hint = d; }
                else { rec(" resetCStream"); CK(ZSTD_resetCStream(c, 0), "init"); } }
            else if (chance(&r, 65)) { int op = (int)pick(&r, 10); int di = (int)pick(&r, NDICT); dict_t* d = &DI[di]; int dct = chance(&r, 60) ? 0 : (int)pick(&r, d->fmt ? 3 : 2); int dlm = (int)pick(&r, 2);
                if (op < 3) { rec(" loadDictionary_advanced(d%d,%s,%s)", di, dlm ? "ref" : "copy", dctname(dct)); CK(ZSTD_CCtx_loadDictionary_advanced(c, d->buf, d->n, (ZSTD_dictLoadMethod_e)dlm, (ZSTD_dictContentType_e)dct), "load"); sticky.kind = kind_of(d, dct); sticky.di = di; stickyPrefix = 0; }
                else if (op < 6) { cd_t* cd = get_cdict(&r); if (cd) { rec(" refCDict"); CK(ZSTD_CCtx_refCDict(c, cd->cd), "refCDict"); sticky = cd->u; stickyPrefix = 0; } }
                else if (op < 8) { rec(" refPrefix_advanced(d%d,%s)", di, dctname(dct)); CK(ZSTD_CCtx_refPrefix_advanced(c, d->buf, d->n, (ZSTD_dictContentType_e)dct), "refPrefix"); sticky.kind = kind_of(d, dct); sticky.di = di; stickyPrefix = 1; }
                else if (op == 8) { rec(" refCDict(NULL)"); CK(ZSTD_CCtx_refCDict(c, NULL), "refCDict0"); sticky.kind = K_NONE; stickyPrefix = 0; }
                else { rec(" loadDictionary(NULL)"); CK(ZSTD_CCtx_loadDictionary(c, NULL, 0), "load0"); sticky.kind = K_NONE; stickyPrefix = 0; }
                hint = d; }
            if (sticky.kind != K_NONE && chance(&r, 70)) hint = &DI[sticky.di];
            if (g_mt && chance(&r, 60)) g_big = 1;
            xn = gen_input(&r, X, XCAP, hint);
            u = sticky; noid = g_noid;
            if (oldInit && chance(&r, 70)) { ZSTD_inBuffer ib; ZSTD_outBuffer ob; size_t e = 0; rec(" compressStream+endStream(%lu)", (unsigned long)xn);
                ib.src = X; ib.size = xn; ib.pos = 0; ob.dst = OUT; ob.size = OCAP; ob.pos = 0;
                while (ib.pos < ib.size) { size_t lim = ib.pos + 1 + pick(&r, 90000); ZSTD_inBuffer i2; if (lim > xn) lim = xn; i2.src = X; i2.size = lim; i2.pos = ib.pos; e = ZSTD_compressStream(c, &ob, &i2); if (ZSTD_isError(e)) break; ib.pos = i2.pos; if (chance(&r, 10)) { e = ZSTD_flushStream(c, &ob); if (ZSTD_isError(e)) break; } }
                if (!ZSTD_isError(e)) { e = ZSTD_endStream(c, &ob); if (!ZSTD_isError(e) && e != 0) e = (size_t)-ZSTD_error_dstSize_tooSmall; }
                cs = ZSTD_isError(e) ? e : ob.pos; }
            else if (chance(&r, 50)) { const unsigned char* src = X;
                if (sticky.kind != K_NONE && xn < ROOM && chance(&r, 35)) { dict_t* d = &DI[sticky.di]; memcpy(d->buf + d->n, X, xn); src = d->buf + d->n; rec(" [input right behind the dictionary buffer]"); }
                rec(" compress2(%lu)", (unsigned long)xn); cs = ZSTD_compress2(c, OUT, OCAP, src, xn); }
            else { ZSTD_inBuffer ib; ZSTD_outBuffer ob; size_t ipos = 0, op = 0; int guard = 0; rec(" compressStream2(%lu)", (unsigned long)xn);
                if (chance(&r, 40)) { rec(" pledged"); CK(ZSTD_CCtx_setPledgedSrcSize(c, xn), "pledge"); }
                for (;;) { size_t chunk = chance(&r, 30) ? xn - ipos : 1 + pick(&r, 70000); int last; size_t ret; size_t oc = chance(&r, 50) ? OCAP - op : 1 + pick(&r, 5000); unsigned char* loc;
                    if (chunk > xn - ipos) chunk = xn - ipos; if (oc > OCAP - op) oc = OCAP - op; last = (ipos + chunk == xn);
                    loc = chance(&r, 60) ? X + ipos : place(&r, X + ipos, chunk, NULL, 0, 1);
                    ib.src = loc; ib.size = chunk; ib.pos = 0; ob.dst = OUT + op; ob.size = oc; ob.pos = 0;
                    ret = ZSTD_compressStream2(c, &ob, &ib, last ? ZSTD_e_end : (chance(&r, 10) ? ZSTD_e_flush : ZSTD_e_continue));
                    if (ZSTD_isError(ret)) { cs = ret; break; }
                    ipos += ib.pos; op += ob.pos; cs = op;
                    if (last && ret == 0 && ib.pos == chunk) break;
                    if (++guard > 100000 || op == OCAP) { cs = (size_t)-ZSTD_error_dstSize_tooSmall; break; } } }
            if (stickyPrefix) { sticky.kind = K_NONE; stickyPrefix = 0; }
            if (ZSTD_isError(cs)) { rec(" -> %s", ename(cs)); g_errs++;
                if (ZSTD_getErrorCode(cs) != ZSTD_error_parameter_combination_unsupported && ZSTD_getErrorCode(cs) != ZSTD_error_parameter_unsupported && ZSTD_getErrorCode(cs) != ZSTD_error_memory_allocation) rc = failx("frame %d: advanced compression failed: %s", fi, ename(cs));
                ZSTD_CCtx_reset(c, ZSTD_reset_session_only); goto next; }
        } else if (api < 58) {   /* legacy one-shot */
            int how = (int)pick(&r, 6); int di = (int)pick(&r, NDICT); dict_t* d = &DI[di]; int lvl = (int)pick(&r, 23) - 3; if (lvl == 0) lvl = 1;
            if (how >= 3) { cd_t* cd = get_cdict(&r); if (!cd) goto next; hint = &DI[cd->u.di]; xn = gen_input(&r, X, XCAP, hint); u = cd->u;
                if (how == 3) { rec(" compress_usingCDict(%lu)", (unsigned long)xn); cs = ZSTD_compress_usingCDict(c, OUT, OCAP, X, xn, cd->cd); }
                else { ZSTD_frameParameters fp; fp.contentSizeFlag = chance(&r, 70); fp.checksumFlag = chance(&r, 40); fp.noDictIDFlag = chance(&r, 25); noid = fp.noDictIDFlag;
                    rec(" compress_usingCDict_advanced(%lu,noid=%d)", (unsigned long)xn, noid); cs = ZSTD_compress_usingCDict_advanced(c, OUT, OCAP, X, xn, cd->cd, fp); } }
            else { xn = gen_input(&r, X, XCAP, d); u.kind = kind_of(d, 0); u.di = di;
                if (how == 0) { rec(" compress_usingDict(d%d,L%d,%lu)", di, lvl, (unsigned long)xn); cs = ZSTD_compress_usingDict(c, OUT, OCAP, X, xn, d->buf, d->n, lvl); }
                else if (how == 1) { ZSTD_parameters p; p.cParams = rand_cparams(&r, lvl, chance(&r, 50) ? xn : 0, d->n); p.fParams.contentSizeFlag = chance(&r, 70); p.fParams.checksumFlag = chance(&r, 40); p.fParams.noDictIDFlag = chance(&r, 25); noid = p.fParams.noDictIDFlag;
                    rec(" compress_advanced(d%d,L%d,strat=%d,w=%u,h=%u,c=%u,mm=%u,noid=%d,%lu)", di, lvl, (int)p.cParams.strategy, p.cParams.windowLog, p.cParams.hashLog, p.cParams.chainLog, p.cParams.minMatch, noid, (unsigned long)xn);
                    cs = ZSTD_compress_advanced(c, OUT, OCAP, X, xn, d->buf, d->n, p); }
                else { rec(" compressCCtx(L%d,%lu)", lvl, (unsigned long)xn); u.kind = K_NONE; cs = ZSTD_compressCCtx(c, OUT, OCAP, X, xn, lvl); } }
            if (ZSTD_isError(cs)) { rc = failx("frame %d: one-shot compression failed: %s", fi, ename(cs)); goto next; }
        } else {   /* buffer-less: frame mode or block mode, segments placed anywhere */
            int block = api >= 82; int how = (int)pick(&r, 6); int di = (int)pick(&r, NDICT); dict_t* d = &DI[di]; int lvl = (int)pick(&r, 23) - 3; const dict_t* adj = NULL; int byref = 0;
            size_t ipos = 0, op = 0, bs; int nseg, k; size_t wl = 0;
            if (lvl == 0) lvl = 1;
            if (chance(&r, 10)) { int v = (int)pick(&r, 2); rec(" [sticky LDM=%d]", v); ZSTD_CCtx_setParameter(c, ZSTD_c_enableLongDistanceMatching, v ? 1 : 2); }
            if (how >= 3 && how <= 4) { cd_t* cd = get_cdict(&r); if (!cd) goto next; u = cd->u; d = &DI[u.di]; byref = cd->byref;
                if (how == 3) { rec(" compressBegin_usingCDict"); CK(ZSTD_compressBegin_usingCDict(c, cd->cd), "begin"); }
                else { ZSTD_frameParameters fp; unsigned long long pl = chance(&r, 50) ? ZSTD_CONTENTSIZE_UNKNOWN : 0; fp.contentSizeFlag = 0; fp.checksumFlag = chance(&r, 40); fp.noDictIDFlag = chance(&r, 25); noid = fp.noDictIDFlag;
                    rec(" compressBegin_usingCDict_advanced(noid=%d,%s)", noid, pl ? "unknown" : "pledge-later"); if (pl == 0) pl = 1ull << 40;
                    CK(ZSTD_compressBegin_usingCDict_advanced(c, cd->cd, fp, pl == (1ull << 40) ? ZSTD_CONTENTSIZE_UNKNOWN : pl), "begin"); } }
            else if (how == 0) { rec(" compressBegin_usingDict(d%d,L%d)", di, lvl); CK(ZSTD_compressBegin_usingDict(c, d->buf, d->n, lvl), "begin"); u.kind = kind_of(d, 0); u.di = di; byref = 1; }
            else if (how <= 2) { ZSTD_parameters p; p.cParams = rand_cparams(&r, lvl, 0, d->n); p.fParams.contentSizeFlag = 0; p.fParams.checksumFlag = chance(&r, 40); p.fParams.noDictIDFlag = chance(&r, 25); noid = p.fParams.noDictIDFlag;
                if (chance(&r, 6)) { p.cParams.windowLog = 27; p.cParams.strategy = ZSTD_btopt; }
                rec(" compressBegin_advanced(d%d,L%d,strat=%d,w=%u,h=%u,c=%u,mm=%u,s=%u,noid=%d)", di, lvl, (int)p.cParams.strategy, p.cParams.windowLog, p.cParams.hashLog, p.cParams.chainLog, p.cParams.minMatch, p.cParams.searchLog, noid);
                CK(ZSTD_compressBegin_advanced(c, d->buf, d->n, p, ZSTD_CONTENTSIZE_UNKNOWN), "begin"); u.kind = kind_of(d, 0); u.di = di; byref = 1; wl = p.cParams.windowLog; }
            else { rec(" compressBegin(L%d)", lvl); CK(ZSTD_compressBegin(c, lvl), "begin"); u.kind = K_NONE; d = NULL; }
            (void)wl;
            if (byref && d) adj = d;
            xn = gen_input(&r, X, XCAP, d ? d : hint);
            bs = ZSTD_getBlockSize(c);
            g_prevLoc = NULL; g_prevLen = 0;
            if (block) { isBlocks = 1; rec(" BLOCKS(%lu):", (unsigned long)xn);
                while (ipos < xn) { size_t len = 1 + pick(&r, chance(&r, 50) ? (unsigned)bs : 3000); size_t w; unsigned char* loc; if (len > xn - ipos) len = xn - ipos; if (len > bs) len = bs;
                    loc = place(&r, X + ipos, len, adj, adj != NULL, ipos == 0); rec("/%lu", (unsigned long)len);
                    if (OCAP - op < len + 8 + 64) { rc = failx("out of room"); goto next; }
                    w = ZSTD_compressBlock(c, OUT + op + 8, OCAP - op - 8, loc, len);
                    if (ZSTD_isError(w)) { rc = failx("frame %d: compressBlock failed: %s", fi, ename(w)); goto next; }
                    if (w == 0) memcpy(OUT + op + 8, X + ipos, len);
                    { unsigned a = (unsigned)len, b = (unsigned)w; memcpy(OUT + op, &a, 4); memcpy(OUT + op + 4, &b, 4); }
                    op += 8 + (w ? w : len); ipos += len; }
                cs = op; }
            else { nseg = 1 + (int)pick(&r, 6); rec(" SEGS(%lu):", (unsigned long)xn);
                for (k = 0; k < nseg; k++) { size_t len = (k == nseg - 1) ? xn - ipos : (chance(&r, 30) ? pick(&r, 200) : (xn - ipos) / (1 + pick(&r, 4))); size_t w; unsigned char* loc;
                    if (len > xn - ipos) len = xn - ipos;
                    loc = place(&r, X + ipos, len, adj, adj != NULL, k == 0); rec("/%lu", (unsigned long)len);
                    w = (k == nseg - 1) ? ZSTD_compressEnd(c, OUT + op, OCAP - op, loc, len) : ZSTD_compressContinue(c, OUT + op, OCAP - op, loc, len);
                    if (ZSTD_isError(w)) { rc = failx("frame %d: compressContinue/End failed: %s", fi, ename(w)); goto next; }
                    op += w; ipos += len; }
                cs = op; }
            /* the dictionary buffers may have been written next to, never into */
        }
        rec(" => %lu", (unsigned long)cs);
        rc = check_frame(&r, u, noid, isBlocks, xn, cs, fi);
    next:
        while (g_ntofree > 0) free(g_tofree[--g_ntofree]);
        for (i = 0; i < NDICT; i++) if (memcmp(DI[i].buf, DI[i].orig, DI[i].n)) { rc = failx("dictionary buffer d%d modified", i); }
    }
    ZSTD_freeCCtx(c); ZSTD_freeDCtx(g_dc);
    for (i = 0; i < g_ncd; i++) ZSTD_freeCDict(CD[i].cd);
    for (i = 0; i < NDICT; i++) { ZSTD_freeDDict(g_dd[i][0]); ZSTD_freeDDict(g_dd[i][1]); if (!g_keep) { free(DI[i].buf); free(DI[i].orig); } }
    return rc;
}

static void put_(const char* t) { for (; *t; t++) putchar(*t == ' ' || *t == '\n' ? '_' : *t); }
int main(void) {
    static char line[256]; rng_t r0;
    r0.s = 0x1234567887654321ull; gen_base(&r0); make_hdr();
    X = (unsigned char*)malloc(XCAP + 64); OUT = (unsigned char*)malloc(OCAP); DEC = (unsigned char*)malloc(XCAP + 128); g_arena = (unsigned char*)malloc(ARENA);
    while (fgets(line, sizeof line, stdin)) { char id[64]; unsigned long long a, n, s; int bad = 0;
        if (sscanf(line, "P %63s %llu", id, &a) == 2) { int i, rc; g_print = 1; g_prn = 0; if (g_pr) g_pr[0] = 0; g_keep = 1; rc = scenario(a); g_print = 0; g_keep = 0;
            if (rc) { printf("%s FAIL seed=%llu what=", id, a); put_(g_what); printf("\n"); }
            else { printf("%s OK", id); for (i = 0; i < NDICT; i++) { char tag[16]; size_t n0 = g_prn; sprintf(tag, " D%d:", i); g_prn = 0; { char* keep = g_pr; size_t kc = g_prcap; g_pr = NULL; g_prcap = 0; pr_hex(tag, DI[i].n <= 70000 ? DI[i].orig : (const unsigned char*)"", DI[i].n <= 70000 ? DI[i].n : 0); fputs(g_pr, stdout); free(g_pr); g_pr = keep; g_prcap = kc; } g_prn = n0; }
                   if (g_pr && g_prn) fputs(g_pr, stdout); printf("\n"); }
            for (i = 0; i < NDICT; i++) { free(DI[i].buf); free(DI[i].orig); }
            fflush(stdout); continue; }
        if (sscanf(line, "S %63s %llu %llu", id, &a, &n) != 3) continue;
        g_frames = 0;
        for (s = a; s < a + n; s++) if (scenario(s)) { printf("%s FAIL seed=%llu what=", id, s); put_(g_what); printf(" history="); put_(g_log); printf("\n"); bad = 1; break; }
        if (!bad) printf("%s OK scenarios=%llu frames=%ld\n", id, n, g_frames);
        fflush(stdout); }
    return 0;
}
