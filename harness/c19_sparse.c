/* C19 — drives the static sparse writer of programs/fileio_asyncio.c directly and logs the
 * seek / write calls it makes on the FILE*.
 *
 *   c19_sparse <outfile> <sparse 0|1> <skips0> <spec>
 *   spec: frames separated by '|', chunks by ',', a chunk = runs z<n> (zero bytes) / x<n> (non-zero bytes) joined by '+',
 *         optionally followed by *<k>: the same buffer is handed to the writer k times (zero runs beyond 4 GiB)
 * Each chunk is one AIO_fwriteSparse call on a malloc'ed buffer; each frame ends with AIO_fwriteSparseEnd.
 * With env C19_SPARSE_QUIET=1 the S/W calls are not printed (only "SIZE").
 * stdout: "S<n>" per seek, "W<n>" per write (n bytes), then "SIZE <file size>".
 */
#define _FILE_OFFSET_BITS 64
#include <stdio.h>
#include <stdlib.h>
#include <string.h>
#include <sys/types.h>

static int zv_quiet = 0;
static int zv_fseeko(FILE* f, off_t off, int whence)
{
    if (!zv_quiet) {
        printf("S%lld ", (long long)off);
        if (whence != SEEK_CUR) printf("WHENCE%d ", whence);
    }
    return fseeko(f, off, whence);
}
static size_t zv_fwrite(const void* p, size_t sz, size_t n, FILE* f)
{
    if (!zv_quiet) printf("W%zu ", sz * n);
    return fwrite(p, sz, n, f);
}
#define fseeko zv_fseeko
#define fseek zv_fseeko
#define fwrite zv_fwrite
#include "fileio_asyncio.c"
#undef fseeko
#undef fseek
#undef fwrite

FIO_display_prefs_t g_display_prefs = { 2, FIO_ps_auto };
/* EXM_THROW may call this (defined in fileio.c, which is not linked here): nothing to remove in this harness */
void FIO_removeArtefact(void);
void FIO_removeArtefact(void) { }

int main(int argc, char** argv)
{
    FIO_prefs_t prefs;
    FILE* f;
    unsigned storedSkips;
    char* spec;
    char* frame_save = NULL;
    char* fr;
    if (argc != 5) { fprintf(stderr, "usage\n"); return 2; }
    zv_quiet = getenv("C19_SPARSE_QUIET") != NULL;
    memset(&prefs, 0, sizeof(prefs));
    prefs.sparseFileSupport = atoi(argv[2]);
    prefs.testMode = 0;
    storedSkips = (unsigned)strtoul(argv[3], NULL, 10);
    f = fopen(argv[1], "wb");
    if (!f) { perror(argv[1]); return 2; }
    spec = strdup(argv[4]);
    for (fr = strtok_r(spec, "|", &frame_save); fr; fr = strtok_r(NULL, "|", &frame_save)) {
        char* chunk_save = NULL;
        char* ch;
        for (ch = strtok_r(fr, ",", &chunk_save); ch; ch = strtok_r(NULL, ",", &chunk_save)) {
            /* size of the chunk */
            size_t total = 0, pos = 0;
            unsigned long reps = 1, rep;
            char* star = strchr(ch, '*');
            char* copy;
            if (star) { reps = strtoul(star + 1, NULL, 10); *star = 0; }
            copy = strdup(ch);
            char* run_save = NULL;
            char* r;
            unsigned char* buf;
            for (r = strtok_r(copy, "+", &run_save); r; r = strtok_r(NULL, "+", &run_save)) total += strtoull(r + 1, NULL, 10);
            free(copy);
            buf = (unsigned char*)malloc(total + 8);
            run_save = NULL;
            for (r = strtok_r(ch, "+", &run_save); r; r = strtok_r(NULL, "+", &run_save)) {
                size_t const n = strtoull(r + 1, NULL, 10);
                size_t j;
                if (r[0] == 'z') memset(buf + pos, 0, n);
                else for (j = 0; j < n; j++) buf[pos + j] = (unsigned char)(1 + (j % 255));
                pos += n;
            }
            for (rep = 0; rep < reps; rep++)
                storedSkips = AIO_fwriteSparse(f, buf, total, &prefs, storedSkips);
            free(buf);
        }
        AIO_fwriteSparseEnd(&prefs, f, storedSkips);
        storedSkips = 0;
    }
    if (fclose(f)) { perror("fclose"); return 2; }
    {   FILE* g = fopen(argv[1], "rb");
        long long sz;
        fseeko(g, 0, SEEK_END);
        sz = (long long)ftello(g);
        fclose(g);
        printf("\nSIZE %lld\n", sz);
    }
    return 0;
}
