/* C20 correspondence harness: drives contrib/seekable_format of the CURRENT /repo working tree.
 *
 * The two contrib translation units are #included so that (a) their private structs are visible and
 * (b) their calls into libzstd's streaming API can be observed: ZSTD_compressStream / ZSTD_endStream /
 * ZSTD_decompressStream / ZSTD_DCtx_reset are redirected (by macro, after zstd.h has been included) to
 * recording wrappers.  The recorded per-call results are the ORACLE the Gallina model is run with; what
 * the seekable layer does with them (buffers offered, restarts, return values, frame log, seek table
 * bytes, data returned) is what the model predicts and the python driver diffs.
 *
 * No logic about the property lives here: commands are executed one per line, results printed one per line.
 */
#define ZSTD_STATIC_LINKING_ONLY
#include "zstd.h"
#include "zstd_errors.h"
#include <stdio.h>
#include <stdlib.h>
#include <string.h>
#include <sys/resource.h>   /* setrlimit: command aslimit (round 3) */

/* ---------------------------------------------------------------- recording wrappers */
typedef struct { int kind; unsigned long long a, b, c, d; unsigned long long e; unsigned long long f; } rec_t;
#define MAXREC (1 << 16)
static rec_t g_rec[MAXREC];
static int g_nrec = 0;
static int g_rec_overflow = 0;
static void rec(int kind, unsigned long long a, unsigned long long b, unsigned long long c, unsigned long long d, unsigned long long e)
{
    if (g_nrec < MAXREC) { rec_t r = { kind, a, b, c, d, e, 0 }; g_rec[g_nrec++] = r; } else g_rec_overflow = 1;
}

static size_t zv_compressStream(ZSTD_CStream* zcs, ZSTD_outBuffer* out, ZSTD_inBuffer* in)
{
    size_t const ip = in->pos, op = out->pos;
    size_t const r = ZSTD_compressStream(zcs, out, in);
    rec('c', in->size - ip, in->pos - ip, out->pos - op, r, ZSTD_isError(r));
    return r;
}
static size_t zv_endStream(ZSTD_CStream* zcs, ZSTD_outBuffer* out)
{
    size_t const op = out->pos;
    size_t const r = ZSTD_endStream(zcs, out);
    rec('e', 0, 0, out->pos - op, r, ZSTD_isError(r));
    return r;
}
static const void* g_skipbuf = NULL;   /* zs->outBuff of the active seekable */
static size_t zv_decompressStream(ZSTD_DStream* zds, ZSTD_outBuffer* out, ZSTD_inBuffer* in)
{
    size_t const ip = in->pos, op = out->pos;
    size_t const r = ZSTD_decompressStream(zds, out, in);
    /* kind 'k' = skip buffer, 'd' = caller's buffer; size, pos before, progress, consumed, ret */
    rec(out->dst == g_skipbuf ? 'k' : 'd', out->size, op, out->pos - op, in->pos - ip,
        ZSTD_isError(r) ? 2 : (r == 0 ? 1 : 0));
    if (g_nrec > 0 && !g_rec_overflow) g_rec[g_nrec - 1].f = ZSTD_isError(r) ? 0 : r;   /* round 3: the size hint (7th field) */
    return r;
}
static unsigned* g_curFramePtr = NULL;
static size_t zv_DCtx_reset(ZSTD_DCtx* d, ZSTD_ResetDirective x)
{
    rec('R', g_curFramePtr ? *g_curFramePtr : 0, 0, 0, 0, 0);
    return ZSTD_DCtx_reset(d, x);
}

#define ZSTD_compressStream zv_compressStream
#define ZSTD_endStream zv_endStream
#define ZSTD_decompressStream zv_decompressStream
#define ZSTD_DCtx_reset zv_DCtx_reset
#include "zstdseek_compress.c"
#include "zstdseek_decompress.c"
#undef ZSTD_compressStream
#undef ZSTD_endStream
#undef ZSTD_decompressStream
#undef ZSTD_DCtx_reset

/* ---------------------------------------------------------------- helpers */
typedef struct { unsigned char* p; size_t n, cap; } vec_t;
static void vec_add(vec_t* v, const void* src, size_t n)
{
    if (v->n + n > v->cap) { v->cap = (v->n + n) * 2 + 64; v->p = (unsigned char*)realloc(v->p, v->cap); }
    if (n) memcpy(v->p + v->n, src, n);
    v->n += n;
}
static unsigned crc32_of(const unsigned char* p, size_t n)
{
    static unsigned tab[256]; static int init = 0; unsigned c = 0xFFFFFFFFu; size_t i;
    if (!init) { unsigned k; for (k = 0; k < 256; k++) { unsigned x = k; int j; for (j = 0; j < 8; j++) x = (x & 1) ? 0xEDB88320u ^ (x >> 1) : x >> 1; tab[k] = x; } init = 1; }
    for (i = 0; i < n; i++) c = tab[(c ^ p[i]) & 0xFF] ^ (c >> 8);
    return c ^ 0xFFFFFFFFu;
}
static void print_hex(const unsigned char* p, size_t n) { size_t i; for (i = 0; i < n; i++) printf("%02x", p[i]); if (!n) printf("-"); }
static int read_file(const char* path, vec_t* v)
{
    FILE* f = fopen(path, "rb"); unsigned char b[65536]; size_t k;
    if (!f) return -1;
    v->n = 0;
    while ((k = fread(b, 1, sizeof b, f)) > 0) vec_add(v, b, k);
    fclose(f);
    return 0;
}
static size_t unhex(const char* s, unsigned char* out, size_t cap)
{
    size_t n = 0;
    if (s[0] == '-') return 0;
    while (s[0] && s[1] && n < cap) { unsigned x; sscanf(s, "%2x", &x); out[n++] = (unsigned char)x; s += 2; }
    return n;
}
static void print_ret(const char* name, size_t r)
{
    if (ZSTD_isError(r)) printf(" %s=E%u", name, (unsigned)ZSTD_getErrorCode(r)); else printf(" %s=%llu", name, (unsigned long long)r);
}
static void print_recs(void)
{
    int i;
    printf(" tr=");
    if (g_nrec == 0) printf("-");
    for (i = 0; i < g_nrec; i++) {
        rec_t* r = &g_rec[i];
        if (i) printf(";");
        switch (r->kind) {
        case 'c': printf("c:%llu:%llu:%llu:%llu", r->a, r->b, r->c, r->d); break;   /* offered:consumed:produced:ret(raw size_t) */
        case 'e': printf("e:%llu:%llu", r->c, r->d); break;                         /* produced:ret(raw size_t) */
        case 'R': printf("R:%llu", r->a); break;
        default:  printf("%c:%llu:%llu:%llu:%llu:%llu:%llu", r->kind, r->a, r->b, r->c, r->d, r->e, r->f); break;       /* size:pos:progress:consumed:fin:hint */
        }
    }
    if (g_rec_overflow) printf(";OVERFLOW");
    g_nrec = 0; g_rec_overflow = 0;
}

/* custom-callback access: an independent implementation of the read/seek contract of zstd_seekable.h */
typedef struct { const unsigned char* p; size_t size; size_t head; unsigned long long nread, nseek;
                 unsigned long long fail_seek, fail_read;   /* fault injection: the k-th next call fails once (0 = never) */
                 unsigned long long fail_readpart;          /* round 3: the k-th next read fails once AFTER delivering part of the bytes (read head moved) */ } cbsrc_t;
static int g_cb_ok = 0;   /* value the callbacks return on success: the header allows any non-negative value */
/* round 3: log of the callback source's I/O since the last 'r' / 'rf' command: S:<offset>:<ok> (SEEK_SET only) and I:<head>:<n>:<ok>:<moved> */
typedef struct { int kind; unsigned long long a, b, moved; int ok; } io_t;
#define MAXIO 4096
static io_t g_io[MAXIO];
static int g_nio = 0, g_io_overflow = 0;
static void iolog(int kind, unsigned long long a, unsigned long long b, int ok)
{
    if (g_nio < MAXIO) { io_t e = { kind, a, b, 0, ok }; g_io[g_nio++] = e; } else g_io_overflow = 1;
}
static int cb_read(void* opaque, void* buffer, size_t n)
{
    cbsrc_t* s = (cbsrc_t*)opaque; size_t i;
    s->nread++;
    iolog('I', s->head, n, 1);
    if (s->fail_read && --s->fail_read == 0) { g_io[g_nio > 0 ? g_nio - 1 : 0].ok = 0; return -1; }   /* injected transient I/O error */
    if (s->fail_readpart && --s->fail_readpart == 0) {    /* injected transient I/O error after a partial transfer: like fread(), whose
                                                           * file position is indeterminate after an error (C11 7.21.8.1) */
        size_t h = (n + 1) / 2; if (h > s->size - s->head) h = s->size - s->head;
        for (i = 0; i < h; i++) ((unsigned char*)buffer)[i] = s->p[s->head + i];
        s->head += h;
        g_io[g_nio > 0 ? g_nio - 1 : 0].ok = 0; g_io[g_nio > 0 ? g_nio - 1 : 0].moved = h;
        return -1;
    }
    if (n > s->size - s->head) { g_io[g_nio > 0 ? g_nio - 1 : 0].ok = 0; return -1; }   /* premature EOF is an error */
    for (i = 0; i < n; i++) ((unsigned char*)buffer)[i] = s->p[s->head + i];
    s->head += n;
    return g_cb_ok;
}
static int cb_seek(void* opaque, long long offset, int origin)
{
    cbsrc_t* s = (cbsrc_t*)opaque; long long base, np;
    s->nseek++;
    if (origin == SEEK_SET) iolog('S', (unsigned long long)offset, 0, 1);
    if (s->fail_seek && --s->fail_seek == 0) { if (origin == SEEK_SET && g_nio > 0) g_io[g_nio - 1].ok = 0; return -1; }   /* injected transient I/O error */
    base = origin == SEEK_SET ? 0 : origin == SEEK_END ? (long long)s->size : (long long)s->head;
    np = base + offset;
    if (np < 0 || (unsigned long long)np > s->size) { if (origin == SEEK_SET && g_nio > 0) g_io[g_nio - 1].ok = 0; return -1; }
    s->head = (size_t)np;
    return g_cb_ok;
}

/* ---------------------------------------------------------------- state */
static vec_t X = {0}, A = {0};                 /* content, archive */
static size_t xpos = 0;                        /* input consumed so far */
static ZSTD_seekable_CStream* zcs = NULL;
static ZSTD_frameLog* rawlog = NULL;
static ZSTD_seekable* zs = NULL;
static FILE* zs_file = NULL;
static cbsrc_t cbsrc;
static unsigned char* memcopy = NULL;          /* exact-size copy of the archive for in-memory mode (ASan sees overreads) */

static void close_seekable(void)
{
    if (zs) { ZSTD_seekable_free(zs); zs = NULL; }
    if (zs_file) { fclose(zs_file); zs_file = NULL; }
    free(memcopy); memcopy = NULL;
    g_skipbuf = NULL; g_curFramePtr = NULL;
}

static size_t do_ccall(int kind, size_t n, size_t cap)
{
    unsigned char* ob = (unsigned char*)malloc(cap ? cap : 1);
    ZSTD_outBuffer out = { ob, cap, 0 };
    size_t r, consumed = 0;
    g_nrec = 0;
    if (kind == 'c') {
        size_t avail = X.n - xpos; ZSTD_inBuffer in;
        if (n > avail) n = avail;
        in.src = X.p + xpos; in.size = n; in.pos = 0;
        r = ZSTD_seekable_compressStream(zcs, &out, &in);
        consumed = in.pos; xpos += in.pos;
        printf("c offered=%llu", (unsigned long long)n);
    } else if (kind == 'e') {
        r = ZSTD_seekable_endFrame(zcs, &out);
        printf("e");
    } else {
        r = ZSTD_seekable_endStream(zcs, &out);
        printf("s");
    }
    vec_add(&A, ob, out.pos);
    printf(" cap=%llu", (unsigned long long)cap);
    print_ret("ret", r);
    printf(" consumed=%llu produced=%llu", (unsigned long long)consumed, (unsigned long long)out.pos);
    print_recs();
    printf(" fc=%u fd=%u nlog=%u wst=%d pend=%d stpos=%u stidx=%u", zcs->frameCSize, zcs->frameDSize, zcs->framelog.size,
           zcs->writingSeekTable, zcs->frameEndPending, zcs->framelog.seekTablePos, zcs->framelog.seekTableIndex);
    if (kind == 's' && zcs->writingSeekTable) {   /* bytes this call appended while in the seek-table phase: the last (produced - inner e produced) bytes */
        printf(" out="); print_hex(ob, out.pos);
    }
    printf("\n");
    free(ob);
    return r;
}

int main(int argc, char** argv)
{
    static char line[1 << 22];
    FILE* in = argc > 1 ? fopen(argv[1], "r") : stdin;
    if (!in) { fprintf(stderr, "cannot open case file\n"); return 2; }
    if (getenv("ZV_LINEBUF")) setvbuf(stdout, NULL, _IOLBF, 1 << 16); else setvbuf(stdout, NULL, _IOFBF, 1 << 20);
    while (fgets(line, sizeof line, in)) {
        char cmd[64]; int off = 0;
        size_t L = strlen(line);
        while (L && (line[L - 1] == '\n' || line[L - 1] == '\r')) line[--L] = 0;
        if (sscanf(line, "%63s%n", cmd, &off) != 1) continue;
        if (cmd[0] == '#') { printf("%s\n", line); continue; }
        if (!strcmp(cmd, "content_file")) {
            char path[4096]; sscanf(line + off, "%4095s", path);
            if (read_file(path, &X)) { printf("content_file ERR\n"); return 2; }
            xpos = 0; printf("content n=%llu crc=%08x\n", (unsigned long long)X.n, crc32_of(X.p, X.n));
        } else if (!strcmp(cmd, "content_hex")) {
            char* h = line + off; while (*h == ' ') h++;
            X.n = 0; { size_t hl = strlen(h); unsigned char* t = (unsigned char*)malloc(hl / 2 + 1); size_t n = unhex(h, t, hl / 2 + 1); vec_add(&X, t, n); free(t); }
            xpos = 0; printf("content n=%llu crc=%08x\n", (unsigned long long)X.n, crc32_of(X.p, X.n));
        } else if (!strcmp(cmd, "cinit")) {
            int level, cf; unsigned mfs; size_t r;
            sscanf(line + off, "%d %d %u", &level, &cf, &mfs);
            if (!zcs) zcs = ZSTD_seekable_createCStream();
            r = ZSTD_seekable_initCStream(zcs, level, cf, mfs);
            A.n = 0; xpos = 0;
            printf("cinit"); print_ret("ret", r); printf(" mfs=%u\n", zcs->maxFrameSize);
        } else if (!strcmp(cmd, "c")) {
            unsigned long long n, cap; sscanf(line + off, "%llu %llu", &n, &cap); do_ccall('c', (size_t)n, (size_t)cap);
        } else if (!strcmp(cmd, "e")) {
            /* e <cap> : ZSTD_seekable_endFrame, repeated (as for every zstd "end" call) until it reports the flush complete;
             * a room too small to ever finish is enlarged after a few attempts */
            unsigned long long cap; size_t r; int tries = 0;
            sscanf(line + off, "%llu", &cap);
            do { r = do_ccall('e', 0, (size_t)(tries < 6 ? cap : cap + 64)); tries++; } while (r != 0 && !ZSTD_isError(r) && tries < 100000);
        } else if (!strcmp(cmd, "e1")) {            /* a single ZSTD_seekable_endFrame call, whatever it returns (documented observation only) */
            unsigned long long cap; sscanf(line + off, "%llu", &cap); do_ccall('e', 0, (size_t)cap);
        } else if (!strcmp(cmd, "s")) {
            unsigned long long cap; sscanf(line + off, "%llu", &cap); do_ccall('s', 0, (size_t)cap);
        } else if (!strcmp(cmd, "finish")) {        /* finish <ccap> <scap> : feed the remaining input, then endStream until it returns 0 */
            unsigned long long ccap, scap; int guard = 0; size_t r = 0;
            sscanf(line + off, "%llu %llu", &ccap, &scap);
            while (xpos < X.n && guard++ < 200000) { r = do_ccall('c', X.n - xpos, (size_t)ccap); if (ZSTD_isError(r)) break; }
            if (!ZSTD_isError(r)) { guard = 0; do { r = do_ccall('s', 0, (size_t)scap); } while (r != 0 && !ZSTD_isError(r) && guard++ < 200000); }
            printf("finish"); print_ret("ret", r); printf(" xpos=%llu n=%llu alen=%llu\n", (unsigned long long)xpos, (unsigned long long)X.n, (unsigned long long)A.n);
        } else if (!strcmp(cmd, "log")) {
            unsigned i; printf("log n=%u cf=%d :", zcs->framelog.size, zcs->framelog.checksumFlag);
            for (i = 0; i < zcs->framelog.size; i++) printf(" %u:%u:%u", zcs->framelog.entries[i].cSize, zcs->framelog.entries[i].dSize, zcs->framelog.entries[i].checksum);
            printf("\n");
        } else if (!strcmp(cmd, "xpos")) {
            printf("xpos %llu of %llu\n", (unsigned long long)xpos, (unsigned long long)X.n);
        } else if (!strcmp(cmd, "save")) {
            char path[4096]; FILE* f; sscanf(line + off, "%4095s", path);
            f = fopen(path, "wb"); if (!f) { printf("save ERR\n"); return 2; }
            fwrite(A.p, 1, A.n, f); fclose(f);
            printf("save n=%llu crc=%08x\n", (unsigned long long)A.n, crc32_of(A.p, A.n));
        } else if (!strcmp(cmd, "archive_file")) {
            char path[4096]; sscanf(line + off, "%4095s", path);
            if (read_file(path, &A)) { printf("archive_file ERR\n"); return 2; }
            printf("archive n=%llu crc=%08x\n", (unsigned long long)A.n, crc32_of(A.p, A.n));
        } else if (!strcmp(cmd, "archive_hex")) {
            char* h = line + off; while (*h == ' ') h++;
            A.n = 0; { size_t hl = strlen(h); unsigned char* t = (unsigned char*)malloc(hl / 2 + 1); size_t n = unhex(h, t, hl / 2 + 1); vec_add(&A, t, n); free(t); }
            printf("archive n=%llu crc=%08x\n", (unsigned long long)A.n, crc32_of(A.p, A.n));
        } else if (!strcmp(cmd, "setbytes")) {      /* setbytes <pos> <hex> : overwrite archive bytes */
            unsigned long long pos; char* h; int o2 = 0; unsigned char t[4096]; size_t n;
            sscanf(line + off, "%llu%n", &pos, &o2); h = line + off + o2; while (*h == ' ') h++;
            n = unhex(h, t, sizeof t);
            if (pos + n <= A.n) memcpy(A.p + pos, t, n);
            printf("setbytes pos=%llu n=%llu ok=%d\n", pos, (unsigned long long)n, pos + n <= A.n);
        } else if (!strcmp(cmd, "truncate")) {
            unsigned long long n; sscanf(line + off, "%llu", &n); if (n <= A.n) A.n = (size_t)n; printf("truncate n=%llu\n", (unsigned long long)A.n);
        } else if (!strcmp(cmd, "rawlog")) {        /* rawlog <cf> <c:d:k> ... : the raw seek table API */
            int cf; int o2 = 0; char* p; unsigned nfail = 0, n = 0;
            sscanf(line + off, "%d%n", &cf, &o2); p = line + off + o2;
            if (rawlog) ZSTD_seekable_freeFrameLog(rawlog);
            rawlog = ZSTD_seekable_createFrameLog(cf);
            for (;;) { unsigned c, d, k; int o3 = 0; if (sscanf(p, " %u:%u:%u%n", &c, &d, &k, &o3) != 3) break; p += o3;
                if (ZSTD_isError(ZSTD_seekable_logFrame(rawlog, c, d, k))) nfail++; n++; }
            printf("rawlog cf=%d n=%u size=%u fail=%u\n", cf, n, rawlog->size, nfail);
        } else if (!strcmp(cmd, "rawrep")) {        /* rawrep <count> <c> <d> <k> : log the same frame many times */
            unsigned long long cnt, i; unsigned c, d, k; unsigned nfail = 0; size_t last = 0;
            sscanf(line + off, "%llu %u %u %u", &cnt, &c, &d, &k);
            for (i = 0; i < cnt; i++) { last = ZSTD_seekable_logFrame(rawlog, c, d, k); if (ZSTD_isError(last)) nfail++; }
            printf("rawrep size=%u fail=%u", rawlog->size, nfail); print_ret("last", last); printf("\n");
        } else if (!strcmp(cmd, "w")) {             /* w <avail> : one ZSTD_seekable_writeSeekTable call */
            unsigned long long cap; unsigned char* ob; ZSTD_outBuffer out; size_t r;
            sscanf(line + off, "%llu", &cap);
            ob = (unsigned char*)malloc(cap ? cap : 1); out.dst = ob; out.size = (size_t)cap; out.pos = 0;
            r = ZSTD_seekable_writeSeekTable(rawlog, &out);
            vec_add(&A, ob, out.pos);
            printf("w cap=%llu", cap); print_ret("ret", r); printf(" stpos=%u stidx=%u out=", rawlog->seekTablePos, rawlog->seekTableIndex);
            if (out.pos <= 64) print_hex(ob, out.pos); else printf("#%llu:%08x", (unsigned long long)out.pos, crc32_of(ob, out.pos));
            printf("\n"); free(ob);
        } else if (!strcmp(cmd, "aclear")) {
            A.n = 0; printf("aclear\n");
        } else if (!strcmp(cmd, "open")) {          /* open mem|file <path>|cb */
            char mode[16], path[4096]; size_t r; path[0] = 0;
            sscanf(line + off, "%15s %4095s", mode, path);
            close_seekable();
            zs = ZSTD_seekable_create();
            g_skipbuf = zs->outBuff; g_curFramePtr = &zs->curFrame; g_nrec = 0;
            if (!strcmp(mode, "mem")) {
                memcopy = (unsigned char*)malloc(A.n ? A.n : 1); if (A.n) memcpy(memcopy, A.p, A.n);
                r = ZSTD_seekable_initBuff(zs, memcopy, A.n);
            } else if (!strcmp(mode, "file")) {
                FILE* f = fopen(path, "wb"); fwrite(A.p, 1, A.n, f); fclose(f);
                zs_file = fopen(path, "rb");
                r = ZSTD_seekable_initFile(zs, zs_file);
            } else {
                ZSTD_seekable_customFile cf;
                memcopy = (unsigned char*)malloc(A.n ? A.n : 1); if (A.n) memcpy(memcopy, A.p, A.n);
                cbsrc.p = memcopy; cbsrc.size = A.n; cbsrc.head = 0; cbsrc.nread = cbsrc.nseek = 0; cbsrc.fail_seek = cbsrc.fail_read = cbsrc.fail_readpart = 0;
                cf.opaque = &cbsrc; cf.read = cb_read; cf.seek = cb_seek;
                r = ZSTD_seekable_initAdvanced(zs, cf);
            }
            printf("open %s", mode); print_ret("ret", r);
            if (!ZSTD_isError(r)) printf(" n=%u cf=%d cur=%u doff=%llu", ZSTD_seekable_getNumFrames(zs), zs->seekTable.checksumFlag, zs->curFrame, (unsigned long long)zs->decompressedOffset);
            else { close_seekable(); }
            g_nrec = 0;
            printf("\n");
        } else if (!strcmp(cmd, "reopen")) {        /* reopen : ZSTD_seekable_initBuff on the SAME object with the current archive bytes
                                                     * (a failed init must leave the object freeable and re-initialisable) */
            size_t r; unsigned char* old = memcopy;
            if (!zs) { zs = ZSTD_seekable_create(); g_skipbuf = zs->outBuff; g_curFramePtr = &zs->curFrame; }
            memcopy = (unsigned char*)malloc(A.n ? A.n : 1); if (A.n) memcpy(memcopy, A.p, A.n);
            r = ZSTD_seekable_initBuff(zs, memcopy, A.n);
            free(old);
            printf("reopen"); print_ret("ret", r);
            if (!ZSTD_isError(r)) printf(" n=%u cf=%d", ZSTD_seekable_getNumFrames(zs), zs->seekTable.checksumFlag);
            g_nrec = 0;
            printf("\n");
        } else if (!strcmp(cmd, "reopenf") || !strcmp(cmd, "reopencb")) {
            /* reopenf <path> | reopencb : ZSTD_seekable_initFile / ZSTD_seekable_initAdvanced on the SAME object with the current
             * archive bytes (the header documents re-initialisation: the source stays alive "until the object is freed or reset") */
            size_t r; unsigned char* old = memcopy; FILE* oldf = zs_file; char path[4096]; path[0] = 0;
            sscanf(line + off, "%4095s", path);
            if (!zs) { zs = ZSTD_seekable_create(); g_skipbuf = zs->outBuff; g_curFramePtr = &zs->curFrame; }
            memcopy = NULL; zs_file = NULL;
            if (cmd[6] == 'f') {
                FILE* f = fopen(path, "wb"); fwrite(A.p, 1, A.n, f); fclose(f);
                zs_file = fopen(path, "rb");
                r = ZSTD_seekable_initFile(zs, zs_file);
            } else {
                ZSTD_seekable_customFile cf;
                memcopy = (unsigned char*)malloc(A.n ? A.n : 1); if (A.n) memcpy(memcopy, A.p, A.n);
                cbsrc.p = memcopy; cbsrc.size = A.n; cbsrc.head = 0; cbsrc.nread = cbsrc.nseek = 0; cbsrc.fail_seek = cbsrc.fail_read = cbsrc.fail_readpart = 0;
                cf.opaque = &cbsrc; cf.read = cb_read; cf.seek = cb_seek;
                r = ZSTD_seekable_initAdvanced(zs, cf);
            }
            free(old); if (oldf) fclose(oldf);
            printf("%s", cmd); print_ret("ret", r);
            if (!ZSTD_isError(r)) printf(" n=%u cf=%d", ZSTD_seekable_getNumFrames(zs), zs->seekTable.checksumFlag);
            g_nrec = 0;
            printf("\n");
        } else if (!strcmp(cmd, "rawarch")) {
            /* rawarch <tableChecksumFlag> <zstdChecksumFlag> <level> <frameSize> : the documented raw seek-table API: the content is cut
             * into pieces of frameSize bytes, each compressed independently with ZSTD_compress2 (with or without zstd's own content
             * checksum), logged with ZSTD_seekable_logFrame, the table appended with ZSTD_seekable_writeSeekTable */
            int cf, zck, level; unsigned long long fs; size_t pos = 0; ZSTD_frameLog* fl; ZSTD_CCtx* cc = ZSTD_createCCtx(); size_t wr = 0; unsigned nf = 0;
            sscanf(line + off, "%d %d %d %llu", &cf, &zck, &level, &fs);
            if (fs == 0) fs = 1;
            fl = ZSTD_seekable_createFrameLog(cf);
            A.n = 0;
            printf("rawarch log :");
            do {
                size_t const n = X.n - pos < fs ? X.n - pos : (size_t)fs;
                size_t const bound = ZSTD_compressBound(n); unsigned char* ob = (unsigned char*)malloc(bound ? bound : 1); size_t r;
                unsigned const h = (unsigned)(XXH64(X.p + pos, n, 0) & 0xFFFFFFFFU);
                ZSTD_CCtx_reset(cc, ZSTD_reset_session_and_parameters);
                ZSTD_CCtx_setParameter(cc, ZSTD_c_compressionLevel, level);
                ZSTD_CCtx_setParameter(cc, ZSTD_c_checksumFlag, zck);
                r = ZSTD_compress2(cc, ob, bound, X.p + pos, n);
                if (ZSTD_isError(r)) { printf(" ERR"); free(ob); break; }
                vec_add(&A, ob, r); free(ob);
                ZSTD_seekable_logFrame(fl, (unsigned)r, (unsigned)n, cf ? h : 0);
                printf(" %u:%u:%u", (unsigned)r, (unsigned)n, cf ? h : 0);
                pos += n; nf++;
            } while (pos < X.n);
            {   unsigned char tb[4096]; int guard = 0;
                do { ZSTD_outBuffer o = { tb, sizeof tb, 0 }; wr = ZSTD_seekable_writeSeekTable(fl, &o); vec_add(&A, tb, o.pos); } while (wr != 0 && !ZSTD_isError(wr) && guard++ < 1000000); }
            printf("\nrawarch frames=%u", nf); print_ret("table", wr); printf(" alen=%llu\n", (unsigned long long)A.n);
            ZSTD_seekable_freeFrameLog(fl); ZSTD_freeCCtx(cc);
        } else if (!strcmp(cmd, "stfree")) {        /* the independent seek table outlives its ZSTD_seekable: copy, free the seekable, then query */
            unsigned n, i; ZSTD_seekTable* st;
            if (!zs) { printf("stfree closed\n"); continue; }
            st = ZSTD_seekTable_create_fromSeekable(zs);
            close_seekable();
            n = ZSTD_seekTable_getNumFrames(st);
            printf("stfree n=%u :", n);
            for (i = 0; i <= n + 1 && i < 40; i++)
                printf(" %u:%llu:%llu:%llu:%llu", i, ZSTD_seekTable_getFrameCompressedOffset(st, i), ZSTD_seekTable_getFrameDecompressedOffset(st, i),
                       (unsigned long long)ZSTD_seekTable_getFrameCompressedSize(st, i), (unsigned long long)ZSTD_seekTable_getFrameDecompressedSize(st, i));
            printf(" o2f0=%u\n", ZSTD_seekTable_offsetToFrameIndex(st, 0));
            ZSTD_seekTable_free(st);
        } else if (!strcmp(cmd, "cbret")) {         /* cbret <v> : the callbacks return v (>= 0) on success from now on */
            int v = 0; sscanf(line + off, "%d", &v); g_cb_ok = v < 0 ? 0 : v; printf("cbret %d\n", g_cb_ok);
        } else if (!strcmp(cmd, "cbfail")) {        /* cbfail seek|read <k> : the k-th next callback of that kind fails once (callback access only) */
            char what[16]; unsigned long long k = 0; what[0] = 0;
            sscanf(line + off, "%15s %llu", what, &k);
            if (!strcmp(what, "seek")) cbsrc.fail_seek = k; else if (!strcmp(what, "readpart")) cbsrc.fail_readpart = k; else cbsrc.fail_read = k;
            printf("cbfail %s %llu\n", what, k);
        } else if (!strcmp(cmd, "table")) {         /* all accessors for i in 0..n+2 and 2^32-1, through both API families */
            unsigned n, i; ZSTD_seekTable* st;
            if (!zs) { printf("table closed\n"); continue; }
            n = ZSTD_seekable_getNumFrames(zs);
            st = ZSTD_seekTable_create_fromSeekable(zs);
            printf("table n=%u n2=%u :", n, ZSTD_seekTable_getNumFrames(st));
            for (i = 0; i <= n + 3; i++) {
                unsigned idx = i <= n + 2 ? i : 0xFFFFFFFFu;
                unsigned long long co = ZSTD_seekable_getFrameCompressedOffset(zs, idx), dof = ZSTD_seekable_getFrameDecompressedOffset(zs, idx);
                size_t cs = ZSTD_seekable_getFrameCompressedSize(zs, idx), ds = ZSTD_seekable_getFrameDecompressedSize(zs, idx);
                int same = co == ZSTD_seekTable_getFrameCompressedOffset(st, idx) && dof == ZSTD_seekTable_getFrameDecompressedOffset(st, idx)
                        && cs == ZSTD_seekTable_getFrameCompressedSize(st, idx) && ds == ZSTD_seekTable_getFrameDecompressedSize(st, idx);
                if (n > 64 && i > 8 && i + 8 < n) continue;   /* long tables: first and last entries only (python checks the rest through 'entries') */
                printf(" %u:%llu:%llu:%llu:%llu:%d", idx, co, dof, (unsigned long long)cs, (unsigned long long)ds, same);
            }
            printf("\n");
            ZSTD_seekTable_free(st);
        } else if (!strcmp(cmd, "entries")) {       /* crc over the raw (cOffset,dOffset,checksum-if-flag) entries incl. the extra one */
            unsigned n, i; unsigned c = 0; vec_t v = {0};
            if (!zs) { printf("entries closed\n"); continue; }
            n = (unsigned)zs->seekTable.tableLen;
            for (i = 0; i <= n; i++) { unsigned long long t[3]; t[0] = zs->seekTable.entries[i].cOffset; t[1] = zs->seekTable.entries[i].dOffset;
                t[2] = (zs->seekTable.checksumFlag && i < n) ? zs->seekTable.entries[i].checksum : 0; vec_add(&v, t, sizeof t); }
            c = crc32_of(v.p, v.n); free(v.p);
            printf("entries n=%u crc=%08x\n", n, c);
        } else if (!strcmp(cmd, "o2f")) {
            char* p = line + off; printf("o2f");
            if (!zs) { printf(" closed\n"); continue; }
            for (;;) { unsigned long long pos; int o3 = 0; if (sscanf(p, " %llu%n", &pos, &o3) != 1) break; p += o3;
                printf(" %llu:%u", pos, ZSTD_seekable_offsetToFrameIndex(zs, pos)); }
            printf("\n");
        } else if (!strcmp(cmd, "r") || !strcmp(cmd, "rf")) {   /* r <offset> <len> | rf <frameIndex> <dstSize> */
            unsigned long long a, b; unsigned char* dst; size_t r; size_t cap;
            sscanf(line + off, "%llu %llu", &a, &b);
            if (!zs) { printf("%s closed\n", cmd); continue; }
            cap = (size_t)b;
            dst = (unsigned char*)malloc(cap ? cap : 1);
            memset(dst, 0xA5, cap ? cap : 1);
            g_nrec = 0; g_nio = 0; g_io_overflow = 0;
            if (cmd[1] == 0) r = ZSTD_seekable_decompress(zs, dst, cap, a);
            else r = ZSTD_seekable_decompressFrame(zs, dst, cap, (unsigned)a);
            printf("%s %llu %llu", cmd, a, b); print_ret("ret", r);
            printf(" cur=%u doff=%llu", zs->curFrame, (unsigned long long)zs->decompressedOffset);
            printf(" armed=%llu", cbsrc.fail_seek + cbsrc.fail_read + cbsrc.fail_readpart);   /* injected faults still pending after this call */
            if (!ZSTD_isError(r) && r <= cap) {
                printf(" crc=%08x", crc32_of(dst, r));
                if (r <= 48) { printf(" data="); print_hex(dst, r); }
                { size_t i, untouched = 1; for (i = r; i < cap; i++) if (dst[i] != 0xA5) untouched = 0; printf(" tail=%d", (int)untouched); }
            }
            print_recs();
            {   int i; printf(" io=");       /* callback access only: the source's I/O during this call */
                if (g_nio == 0) printf("-");
                for (i = 0; i < g_nio; i++) {
                    if (i) printf(";");
                    if (g_io[i].kind == 'S') printf("S:%llu:%d", g_io[i].a, g_io[i].ok); else printf("I:%llu:%llu:%d:%llu", g_io[i].a, g_io[i].b, g_io[i].ok, g_io[i].moved);
                }
                if (g_io_overflow) printf(";OVERFLOW");
            }
            printf("\n");
            free(dst);
        } else if (!strcmp(cmd, "regular")) {       /* plain libzstd multi-frame streaming decode of the whole archive */
            ZSTD_DStream* d = ZSTD_createDStream(); vec_t out = {0}; unsigned char ob[1 << 16];
            ZSTD_inBuffer ib; size_t r = 0; int err = 0; unsigned nframesDone = 0;
            unsigned char* copy = (unsigned char*)malloc(A.n ? A.n : 1); if (A.n) memcpy(copy, A.p, A.n);
            ib.src = copy; ib.size = A.n; ib.pos = 0;
            ZSTD_initDStream(d);
            while (ib.pos < ib.size) {
                ZSTD_outBuffer o = { ob, sizeof ob, 0 };
                r = ZSTD_decompressStream(d, &o, &ib);
                if (ZSTD_isError(r)) { err = 1; break; }
                vec_add(&out, ob, o.pos);
                if (r == 0) nframesDone++;
            }
            printf("regular err=%d", err); print_ret("last", r);
            printf(" n=%llu crc=%08x frames=%u same=%d\n", (unsigned long long)out.n, crc32_of(out.p, out.n), nframesDone,
                   out.n == X.n && (X.n == 0 || !memcmp(out.p, X.p, X.n)));
            free(out.p); free(copy); ZSTD_freeDStream(d);
        } else if (!strcmp(cmd, "frames")) {        /* walk the archive with the frame inspectors: kind:compressedSize:contentSize per frame */
            size_t pos = 0; printf("frames");
            while (pos < A.n) {
                size_t const fs = ZSTD_findFrameCompressedSize(A.p + pos, A.n - pos);
                if (ZSTD_isError(fs)) { printf(" ERR@%llu", (unsigned long long)pos); break; }
                if (ZSTD_isSkippableFrame(A.p + pos, A.n - pos)) printf(" S:%llu:%u", (unsigned long long)fs, MEM_readLE32(A.p + pos) & 0xF);
                else { unsigned long long const cs = ZSTD_getFrameContentSize(A.p + pos, A.n - pos);
                       /* one-shot decode of this single frame */
                       size_t const bound = (cs == ZSTD_CONTENTSIZE_UNKNOWN || cs == ZSTD_CONTENTSIZE_ERROR) ? (X.n + 1) : (size_t)cs;
                       unsigned char* o = (unsigned char*)malloc(bound ? bound : 1);
                       size_t const ds = ZSTD_decompress(o, bound, A.p + pos, fs);
                       if (ZSTD_isError(ds)) printf(" Z:%llu:E", (unsigned long long)fs);
                       else printf(" Z:%llu:%llu:%08x", (unsigned long long)fs, (unsigned long long)ds, crc32_of(o, ds));
                       free(o); }
                pos += fs;
            }
            printf("\n");
        } else if (!strcmp(cmd, "aslimit")) {       /* aslimit <MiB> : cap the address space of this process (round 3: a loader that accepts a
                                                     * footer claiming 2^29 frames asks for 12 GiB; under the cap that shows as memory_allocation) */
            unsigned long long mib = 0; struct rlimit rl; int rr;
            sscanf(line + off, "%llu", &mib);
            rl.rlim_cur = rl.rlim_max = (rlim_t)(mib << 20);
            rr = setrlimit(RLIMIT_AS, &rl);
            printf("aslimit %llu rc=%d\n", mib, rr);
        } else if (!strcmp(cmd, "close")) {
            close_seekable(); printf("close\n");
        } else {
            printf("?? %s\n", cmd);
        }
    }
    close_seekable();
    if (zcs) ZSTD_seekable_freeCStream(zcs);
    if (rawlog) ZSTD_seekable_freeFrameLog(rawlog);
    free(X.p); free(A.p);
    fflush(stdout);
    return 0;
}
