/* C13 - allocation-failure injection harness (direct oracle + event trace for the tie).
 *
 * Linked against libzstd rebuilt from the current /repo tree.  A counting ZSTD_customMem
 * hands out blocks, records every event (alloc ok / alloc NULL / free / double free /
 * foreign pointer / block returned through plain free()), and fails the allocations whose
 * 1-based index is in the fault set.  plain free() is interposed with -Wl,--wrap=free so that
 * a block obtained through the caller's allocator but released through libc free() is seen.
 *
 * usage:
 *   c13_fault list
 *   c13_fault one   <scenario> <k1[,k2..]|0>       run one case in-process, print one JSON line
 *   c13_fault sweep <scenario>                      k=0 then every k in 1..allocs (fork per case)
 *   c13_fault pairs <scenario> <seed> <count>       sampled double faults (k,k')
 * No logic about the model lives here; python (zv/props/c13.py) judges the lines.
 */
#define ZSTD_STATIC_LINKING_ONLY
#define ZDICT_STATIC_LINKING_ONLY
/* the two translation units whose statics the unit-level scenarios call directly (ZSTDMT_resize, struct fields);
   they are excluded from the library this harness links against, so every scenario runs this copy of the current source */
#include "compress/zstdmt_compress.c"
#include "common/pool.c"
#include "zstd.h"
#include "zstd_errors.h"
#include "zdict.h"
#include "common/pool.h"
#include "compress/zstdmt_compress.h"
#include "zstd_seekable.h"      /* contrib/seekable_format (plain malloc / realloc / free) */
#include <pthread.h>
#include <errno.h>
#include <stdio.h>
#include <stdlib.h>
#include <string.h>
#include <signal.h>
#include <unistd.h>
#include <sys/wait.h>
#include <time.h>

/* ------------------------------------------------------------------ allocator */
extern void __real_free(void*);
extern void* __real_malloc(size_t);
extern void* __real_calloc(size_t, size_t);
#define MAXBLK 65536
#define MAXFAULT 8
typedef struct { void* p; size_t size; int idx; int live; int plain; void* base; } blk_t;
static blk_t g_blk[MAXBLK];
static int g_nblk, g_nalloc, g_nfailed, g_dfree, g_foreign, g_pfree;
static int g_fault[MAXFAULT], g_nfault;
static pthread_mutex_t g_mu = PTHREAD_MUTEX_INITIALIZER;
static char* g_ev; static size_t g_evlen, g_evcap;
static int g_armed;
static size_t g_misalign;   /* C13_MISALIGN=8: the custom allocator returns blocks that are 8- but not 16-byte aligned */

static void ev(const char* fmt, long a, long b) {
    char tmp[64]; int n = snprintf(tmp, sizeof tmp, fmt, a, b);
    if (g_evlen + (size_t)n + 2 > g_evcap) { g_evcap = g_evcap ? g_evcap * 2 : 1 << 16; { char* ne = (char*)__real_malloc(g_evcap); if (g_ev) { memcpy(ne, g_ev, g_evlen + 1); __real_free(g_ev); } g_ev = ne; } }
    memcpy(g_ev + g_evlen, tmp, (size_t)n); g_evlen += (size_t)n; g_ev[g_evlen++] = ' '; g_ev[g_evlen] = 0;
}
static void mark(const char* name) {
    pthread_mutex_lock(&g_mu);
    { char tmp[64]; snprintf(tmp, sizeof tmp, "|%s", name); ev(tmp, 0, 0); }
    pthread_mutex_unlock(&g_mu);
}
/* call brackets for the tie: "[name:p1:p2" before an API call, "]ok" / "]NULL" / "]E<code>" / "]" after it */
static void beg(const char* name, long a, long b) {
    pthread_mutex_lock(&g_mu);
    { char tmp[96]; if (a < 0) snprintf(tmp, sizeof tmp, "[%s", name); else if (b < 0) snprintf(tmp, sizeof tmp, "[%s:%ld", name, a); else snprintf(tmp, sizeof tmp, "[%s:%ld:%ld", name, a, b);
      { size_t i; for (i = 0; tmp[i]; i++) if (tmp[i] == '%') tmp[i] = '_'; } ev(tmp, 0, 0); }
    pthread_mutex_unlock(&g_mu);
}
static void begn(const char* name, int n, const long* ps) {
    pthread_mutex_lock(&g_mu);
    { char tmp[160]; int i, l = snprintf(tmp, sizeof tmp, "[%s", name); for (i = 0; i < n && l < 140; i++) l += snprintf(tmp + l, sizeof tmp - (size_t)l, ":%ld", ps[i]);
      { size_t j; for (j = 0; tmp[j]; j++) if (tmp[j] == '%') tmp[j] = '_'; } ev(tmp, 0, 0); }
    pthread_mutex_unlock(&g_mu);
}
static void endc(const char* res) {
    pthread_mutex_lock(&g_mu);
    { char tmp[64]; snprintf(tmp, sizeof tmp, "]%s", res); ev(tmp, 0, 0); }
    pthread_mutex_unlock(&g_mu);
}


/* one allocation request of the library: plain = it came through libc malloc/calloc (default allocator) */
static void* lib_alloc(size_t size, int plain, int zero) {
    void* p = NULL; int i, fail = 0;
    pthread_mutex_lock(&g_mu);
    g_nalloc++;
    for (i = 0; i < g_nfault; i++) if (g_fault[i] == g_nalloc) fail = 1;
    if (fail) { g_nfailed++; ev(plain ? "n%ld:%ld" : "N%ld:%ld", g_nalloc, (long)size); pthread_mutex_unlock(&g_mu); return NULL; }
    {   size_t const off = (!plain && g_misalign) ? g_misalign : 0; char* const base = (char*)__real_malloc((size ? size : 1) + off);
        if (!base) { fprintf(stderr, "c13_fault: real malloc failed\n"); _exit(97); }
        p = base + off; if (g_nblk < MAXBLK) g_blk[g_nblk].base = base; }
    if (zero) memset(p, 0, size);
#if !defined(__SANITIZE_ADDRESS__)
    else memset(p, 0xA5, size);
#endif
    if (g_nblk < MAXBLK) { g_blk[g_nblk].p = p; g_blk[g_nblk].size = size; g_blk[g_nblk].idx = g_nalloc; g_blk[g_nblk].live = 1; g_blk[g_nblk].plain = plain; g_nblk++; }
    else { fprintf(stderr, "c13_fault: block table full\n"); _exit(98); }
    ev(plain ? "a%ld:%ld" : "A%ld:%ld", g_nalloc, (long)size);
    pthread_mutex_unlock(&g_mu);
    return p;
}
static void* zv_alloc(void* opaque, size_t size) { (void)opaque; return lib_alloc(size, 0, 0); }

/* libc malloc/calloc of the whole program land here (-Wl,--wrap): while a case is armed they are allocation
 * requests of the library through its default allocator (ZSTD_defaultCMem users, a zeroed ZSTD_customMem copy,
 * legacy decoders) and take part in the fault numbering; the harness itself uses __real_malloc */
void* __wrap_malloc(size_t size) { if (g_armed) return lib_alloc(size, 1, 0); return __real_malloc(size); }
void* __wrap_calloc(size_t n, size_t size) { if (g_armed) return lib_alloc(n * size, 1, 1); return __real_calloc(n, size); }

/* thread-resource requests (pthread_create, pthread_mutex_init, pthread_cond_init), interposed with -Wl,--wrap: they take part
 * in the fault numbering only inside the scenarios that opt in (g_thr; the "thr_*" scenarios), as events t<idx>:<kind> (granted)
 * / u<idx>:<kind> (refused: EAGAIN / ENOMEM); kind 1 = thread, 2 = mutex, 3 = condition */
extern int __real_pthread_create(pthread_t*, const pthread_attr_t*, void* (*)(void*), void*);
extern int __real_pthread_mutex_init(pthread_mutex_t*, const pthread_mutexattr_t*);
extern int __real_pthread_cond_init(pthread_cond_t*, const pthread_condattr_t*);
static int g_thr;
static int res_request(int kind) {
    int i, fail = 0;
    if (!g_armed || !g_thr) return 0;
    pthread_mutex_lock(&g_mu);
    g_nalloc++;
    for (i = 0; i < g_nfault; i++) if (g_fault[i] == g_nalloc) fail = 1;
    if (fail) g_nfailed++;
    ev(fail ? "u%ld:%ld" : "t%ld:%ld", g_nalloc, kind);
    pthread_mutex_unlock(&g_mu);
    return fail;
}
int __wrap_pthread_create(pthread_t* t, const pthread_attr_t* a, void* (*f)(void*), void* arg) { if (res_request(1)) return EAGAIN; return __real_pthread_create(t, a, f, arg); }
int __wrap_pthread_mutex_init(pthread_mutex_t* m, const pthread_mutexattr_t* a) { if (res_request(2)) return ENOMEM; return __real_pthread_mutex_init(m, a); }
int __wrap_pthread_cond_init(pthread_cond_t* c, const pthread_condattr_t* a) { if (res_request(3)) return ENOMEM; return __real_pthread_cond_init(c, a); }

/* returns: 1 freed a live block, 2 double free, 0 unknown pointer; *plain = how the block was obtained */
static int release_block(void* p, const char* okfmt, const char* dfmt, int* plain) {
    int i, res = 0;
    for (i = g_nblk - 1; i >= 0; i--) if (g_blk[i].p == p) break;
    if (i >= 0) *plain = g_blk[i].plain;
    if (i >= 0 && g_blk[i].live) {
        g_blk[i].live = 0; ev(okfmt, g_blk[i].idx, 0); res = 1;
#if defined(__SANITIZE_ADDRESS__)
        __real_free(g_blk[i].base);
#else
        memset(p, 0xDD, g_blk[i].size);   /* quarantine for the life of the case: addresses stay unique */
#endif
    } else if (i >= 0) { ev(dfmt, g_blk[i].idx, 0); res = 2; }
    return res;
}

static void zv_free(void* opaque, void* p) {
    (void)opaque;
    if (p == NULL) return;
    pthread_mutex_lock(&g_mu);
    { int plain = 0, mine = 0, i;
      for (i = g_nblk - 1; i >= 0; i--) if (g_blk[i].p == p) { mine = 1; plain = g_blk[i].plain; break; }
      if (!mine) { g_foreign++; ev("X%ld", 0, 0); }
      else if (plain) { g_foreign++; release_block(p, "Y%ld", "Z%ld", &plain); }   /* Y: malloc'd block handed to the custom free */
      else { int const r = release_block(p, "F%ld", "D%ld", &plain); if (r == 2) g_dfree++; } }
    pthread_mutex_unlock(&g_mu);
}

/* plain free() of the whole program (libzstd included) lands here */
void __wrap_free(void* p) {
    if (p && g_armed) {
        int i, mine = 0, plain = 0;
        pthread_mutex_lock(&g_mu);
        for (i = g_nblk - 1; i >= 0; i--) if (g_blk[i].p == p) { mine = 1; plain = g_blk[i].plain; break; }
        if (mine && plain) {   /* default-allocator block released through libc free: the matching pair */
            int const r = release_block(p, "f%ld", "d%ld", &plain); if (r == 2) g_dfree++;
            pthread_mutex_unlock(&g_mu);
            return;
        }
        if (mine) {
            int const r = release_block(p, "P%ld", "Q%ld", &plain);   /* P: custom block given to libc free; Q: again */
            g_pfree++; (void)r;
            pthread_mutex_unlock(&g_mu);
            return;
        }
        pthread_mutex_unlock(&g_mu);
    }
    __real_free(p);
}

/* libc realloc (contrib/seekable_format grows its frame log with it): a request for a new block; on success the old block
 * is released (event f), on failure it stays valid (C semantics) */
extern void* __real_realloc(void*, size_t);
void* __wrap_realloc(void* old, size_t size) {
    if (!g_armed) return __real_realloc(old, size);
    {   void* p = lib_alloc(size, 1, 0); int i; size_t osz = 0;
        if (!p) return NULL;
        if (old) {
            pthread_mutex_lock(&g_mu);
            for (i = g_nblk - 1; i >= 0; i--) if (g_blk[i].p == old) { osz = g_blk[i].size; break; }
            pthread_mutex_unlock(&g_mu);
            if (i < 0) { fprintf(stderr, "c13_fault: realloc of an unknown block\n"); _exit(94); }
            memcpy(p, old, osz < size ? osz : size);
            __wrap_free(old);
        }
        return p; }
}

static ZSTD_customMem const g_cmem = { zv_alloc, zv_free, NULL };

static int live_count(void) { int i, n = 0; for (i = 0; i < g_nblk; i++) n += g_blk[i].live; return n; }

/* ------------------------------------------------------------------ data */
static unsigned g_rng = 12345;
static unsigned rnd(void) { g_rng = g_rng * 1103515245u + 12345u; return (g_rng >> 8) & 0xFFFFFF; }

static char* g_src; static size_t g_srcSize;          /* compressible text */
static char* g_dict; static size_t g_dictSize;        /* trained dictionary (dictID != 0) */
#define NDD 40
static char* g_dicts[NDD];                            /* same dictionary, distinct dictIDs */
static char* g_fr_small; static size_t g_fr_small_n;  /* frame, window 2^10..: 3 KB of g_src  */
static char* g_fr_big;   static size_t g_fr_big_n;    /* frame of 300 KB of g_src, window 2^18 */
static char* g_fr_dict;  static size_t g_fr_dict_n;   /* frame compressed with g_dicts[7]   */
static char* g_scratch;  static size_t g_scratchCap;

static void gen_src(size_t n) {
    static const char* words[] = { "alpha", "beta", "gamma", "delta", "window", "block", "frame", "zstd", "literal",
                                   "sequence", "offset", "match", "entropy", "table", "hash", "chain", "{\"id\":", "\"name\":\"", "\"},\n" };
    size_t pos = 0; g_src = (char*)malloc(n + 64); g_srcSize = n;
    while (pos < n) {
        unsigned r = rnd();
        if ((r & 15) == 0) { int j; for (j = 0; j < 6 && pos < n; j++) g_src[pos++] = (char)('0' + (rnd() % 10)); }
        else { const char* w = words[r % (sizeof words / sizeof *words)]; size_t l = strlen(w); memcpy(g_src + pos, w, l); pos += l; g_src[pos++] = ' '; }
    }
}

static void prepare(void) {
    size_t i;
    gen_src(3u << 20);
    g_scratchCap = ZSTD_compressBound(g_srcSize) + 1024; g_scratch = (char*)malloc(g_scratchCap);
    {   /* dictionary: trained on 400 samples of 600 bytes */
        size_t const ns = 400, ss = 600; size_t* sizes = (size_t*)malloc(ns * sizeof(size_t));
        for (i = 0; i < ns; i++) sizes[i] = ss;
        g_dict = (char*)malloc(16384);
        g_dictSize = ZDICT_trainFromBuffer(g_dict, 16384, g_src + 100000, sizes, (unsigned)ns);
        if (ZDICT_isError(g_dictSize)) { fprintf(stderr, "c13_fault: dictionary training failed: %s\n", ZDICT_getErrorName(g_dictSize)); exit(96); }
        free(sizes);
        for (i = 0; i < NDD; i++) { unsigned id = 1000 + 37 * (unsigned)i; g_dicts[i] = (char*)malloc(g_dictSize); memcpy(g_dicts[i], g_dict, g_dictSize);
            g_dicts[i][4] = (char)(id & 255); g_dicts[i][5] = (char)((id >> 8) & 255); g_dicts[i][6] = 0; g_dicts[i][7] = 0; }
    }
    {   ZSTD_CCtx* c = ZSTD_createCCtx(); size_t r;
        g_fr_small = (char*)malloc(8192); g_fr_big = (char*)malloc(400000); g_fr_dict = (char*)malloc(8192);
        ZSTD_CCtx_setParameter(c, ZSTD_c_compressionLevel, 3);
        ZSTD_CCtx_setParameter(c, ZSTD_c_checksumFlag, 1);
        ZSTD_CCtx_setParameter(c, ZSTD_c_contentSizeFlag, 0);
        {   ZSTD_inBuffer in = { g_src, 3000, 0 }; ZSTD_outBuffer out = { g_fr_small, 8192, 0 };
            r = ZSTD_compressStream2(c, &out, &in, ZSTD_e_end); if (r != 0) exit(95); g_fr_small_n = out.pos; }
        ZSTD_CCtx_setParameter(c, ZSTD_c_windowLog, 18);
        {   ZSTD_inBuffer in = { g_src + 5000, 300000, 0 }; ZSTD_outBuffer out = { g_fr_big, 400000, 0 };
            r = ZSTD_compressStream2(c, &out, &in, ZSTD_e_end); if (r != 0) exit(95); g_fr_big_n = out.pos; }
        ZSTD_CCtx_reset(c, ZSTD_reset_session_and_parameters);
        ZSTD_CCtx_loadDictionary(c, g_dicts[7], g_dictSize);
        r = ZSTD_compress2(c, g_fr_dict, 8192, g_src + 100000 + 7 * 600, 4000); if (ZSTD_isError(r)) exit(95); g_fr_dict_n = r;
        ZSTD_freeCCtx(c);
    }
}

/* ------------------------------------------------------------------ result bookkeeping */
static char g_ops[1 << 16]; static size_t g_opslen;
static int g_viol; static char g_violtxt[4096];
static int g_succ_despite_fail;

static void oplog(const char* name, const char* res) {
    int n = snprintf(g_ops + g_opslen, sizeof g_ops - g_opslen, "%s%s=%s", g_opslen ? ";" : "", name, res);
    if (n > 0) g_opslen += (size_t)n;
    if (g_opslen > sizeof g_ops - 200) g_opslen = sizeof g_ops - 200;
}
static void violation(const char* what, const char* name) {
    size_t l = strlen(g_violtxt);
    g_viol++;
    snprintf(g_violtxt + l, sizeof g_violtxt - l, "%s%s@%s", l ? ";" : "", what, name);
}
static const char* ename(size_t r) {
    static char b[48];
    if (!ZSTD_isError(r)) return "ok";
    snprintf(b, sizeof b, "E%d", (int)ZSTD_getErrorCode(r)); return b;
}

/* judge one attempt of an operation: failed = it returned NULL/error; nf0 = g_nfailed before it */
static void judge(const char* name, int failed, size_t code, int nf0, int attempt) {
    int const newfail = g_nfailed - nf0;
    endc(failed ? (code ? ename(code) : "NULL") : "ok");
    if (failed) {
        oplog(name, code ? ename(code) : "NULL");
        if (newfail == 0) violation(attempt ? "error-after-reset-without-alloc-failure" : "error-without-alloc-failure", name);
        else if (code && ZSTD_getErrorCode(code) != ZSTD_error_memory_allocation) {
            char b[80]; snprintf(b, sizeof b, "alloc-failure-reported-as-%s", ename(code)); violation(b, name); }
    } else {
        oplog(name, attempt ? "ok-retry" : "ok");
        if (newfail) { g_succ_despite_fail++; oplog(name, "note-success-despite-alloc-failure"); }
    }
}
static int g_single;   /* 1: an operation is attempted once (no retry of the same operation after the reset) */
#define MAXTRY (g_single ? 1 : g_nfault + 2)

static int check_rt(const char* name, const void* cbuf, size_t csize, const void* src, size_t n, const void* dict, size_t dictSize) {
    static char* out; static size_t cap;
    size_t r; int saved = g_armed;
    if (cap < n + 1) { cap = n + 1; if (out) __real_free(out); out = (char*)__real_malloc(cap); }
    g_armed = 0;   /* the verification decoder is not part of the case */
    {   ZSTD_DCtx* d = ZSTD_createDCtx();
        r = dict ? ZSTD_decompress_usingDict(d, out, cap, cbuf, csize, dict, dictSize) : ZSTD_decompressDCtx(d, out, cap, cbuf, csize);
        ZSTD_freeDCtx(d); }
    g_armed = saved;
    if (ZSTD_isError(r) || r != n || memcmp(out, src, n)) { violation("round-trip-mismatch", name); return 1; }
    return 0;
}

/* round 3 */
/* probes that must be harmless on a context whose last operation failed (before any reset) */
static void probe_cctx(ZSTD_CCtx* c) {
    if (!c) return;
    {   size_t const s = ZSTD_sizeof_CCtx(c); ZSTD_frameProgression const fp = ZSTD_getFrameProgression(c); size_t const tf = ZSTD_toFlushNow(c);
        if (s < sizeof(void*) || ZSTD_isError(s)) violation("sizeof-after-failure", "sizeof_CCtx"); (void)fp; (void)tf; }
}
static void probe_dctx(ZSTD_DCtx* d) {
    if (!d) return;
    {   size_t const s = ZSTD_sizeof_DCtx(d); if (s < sizeof(void*) || ZSTD_isError(s)) violation("sizeof-after-failure", "sizeof_DCtx"); }
}

/* ---- generic retried operations on a CCtx / DCtx */
static int op_compress2(const char* name, ZSTD_CCtx* c, const void* src, size_t n, const void* dict, size_t dictSize) {
    int t;
    for (t = 0; t < MAXTRY; t++) {
        int nf0 = g_nfailed; size_t r; beg("compress", -1, -1); r = ZSTD_compress2(c, g_scratch, g_scratchCap, src, n);
        judge(name, ZSTD_isError(r), ZSTD_isError(r) ? r : 0, nf0, t);
        if (!ZSTD_isError(r)) { check_rt(name, g_scratch, r, src, n, dict, dictSize); return 0; }
        probe_cctx(c);
        {   size_t rr; beg("CCtx_reset", -1, -1); rr = ZSTD_CCtx_reset(c, ZSTD_reset_session_only); endc(ZSTD_isError(rr) ? "E" : "ok"); if (ZSTD_isError(rr)) violation("reset-failed", name); }
    }
    if (!g_single) violation("not-reusable-after-reset", name);
    return 1;
}

static int op_cstream(const char* name, ZSTD_CCtx* c, const void* src, size_t n, size_t chunk, size_t ochunk, int flushEvery) {
    int t;
    for (t = 0; t < MAXTRY; t++) {
        int nf0 = g_nfailed; size_t r = 0; size_t ip = 0, op = 0; int calls = 0;
        beg("compress", -1, -1);
        while (ip < n) {
            size_t const ci = (n - ip < chunk) ? n - ip : chunk;
            ZSTD_inBuffer in = { (const char*)src + ip, ci, 0 };
            while (in.pos < in.size) {
                ZSTD_outBuffer out = { g_scratch + op, (g_scratchCap - op < ochunk) ? g_scratchCap - op : ochunk, 0 };
                r = ZSTD_compressStream2(c, &out, &in, ZSTD_e_continue); if (ZSTD_isError(r)) goto done; op += out.pos;
            }
            ip += ci; calls++;
            if (flushEvery && (calls % flushEvery) == 0) {
                do { ZSTD_inBuffer in0 = { NULL, 0, 0 }; ZSTD_outBuffer out = { g_scratch + op, (g_scratchCap - op < ochunk) ? g_scratchCap - op : ochunk, 0 };
                     r = ZSTD_compressStream2(c, &out, &in0, ZSTD_e_flush); if (ZSTD_isError(r)) goto done; op += out.pos; } while (r != 0);
            }
        }
        do { ZSTD_inBuffer in0 = { NULL, 0, 0 }; ZSTD_outBuffer out = { g_scratch + op, (g_scratchCap - op < ochunk) ? g_scratchCap - op : ochunk, 0 };
             r = ZSTD_compressStream2(c, &out, &in0, ZSTD_e_end); if (ZSTD_isError(r)) goto done; op += out.pos; } while (r != 0);
done:
        judge(name, ZSTD_isError(r), ZSTD_isError(r) ? r : 0, nf0, t);
        if (!ZSTD_isError(r)) { check_rt(name, g_scratch, op, src, n, NULL, 0); return 0; }
        probe_cctx(c);
        {   size_t rr; beg("CCtx_reset", -1, -1); rr = ZSTD_CCtx_reset(c, ZSTD_reset_session_only); endc(ZSTD_isError(rr) ? "E" : "ok"); if (ZSTD_isError(rr)) violation("reset-failed", name); }
    }
    if (!g_single) violation("not-reusable-after-reset", name);
    return 1;
}

static int op_dstream(const char* name, ZSTD_DCtx* d, const void* frame, size_t fn, const void* expect, size_t en, size_t chunk, size_t ochunk) {
    int t; static char* out; static size_t cap;
    if (cap < en + 64) { cap = en + 64; if (out) __real_free(out); out = (char*)__real_malloc(cap); }
    for (t = 0; t < MAXTRY; t++) {
        int nf0 = g_nfailed; size_t r = 1; size_t ip = 0, op = 0;
        {   const unsigned char* f8 = (const unsigned char*)frame;   /* a v0.4 ... v0.7 frame: its own call name for the tie */
            if (fn > 4 && f8[0] >= 0x24 && f8[0] <= 0x27 && f8[1] == 0xB5 && f8[2] == 0x2F && f8[3] == 0xFD) beg("lstream", (long)(f8[0] - 0x20), -1);
            else beg("dstream", -1, -1); }
        while (ip < fn) {
            size_t const ci = (fn - ip < chunk) ? fn - ip : chunk;
            ZSTD_inBuffer in = { (const char*)frame + ip, ci, 0 };
            while (in.pos < in.size) {
                ZSTD_outBuffer o = { out + op, (cap - op < ochunk) ? cap - op : ochunk, 0 };
                r = ZSTD_decompressStream(d, &o, &in); if (ZSTD_isError(r)) goto done; op += o.pos;
                if (o.pos == 0 && in.pos == 0 && r != 0 && o.size == 0) { r = (size_t)-ZSTD_error_dstSize_tooSmall; goto done; }
            }
            ip += ci;
        }
        while (r != 0 && !ZSTD_isError(r)) {   /* drain */
            ZSTD_inBuffer in0 = { NULL, 0, 0 }; ZSTD_outBuffer o = { out + op, (cap - op < ochunk) ? cap - op : ochunk, 0 };
            size_t const before = op;
            r = ZSTD_decompressStream(d, &o, &in0); if (ZSTD_isError(r)) break; op += o.pos;
            if (op == before) break;
        }
done:
        judge(name, ZSTD_isError(r), ZSTD_isError(r) ? r : 0, nf0, t);
        if (!ZSTD_isError(r)) {
            if (r != 0 || op != en || memcmp(out, expect, en)) violation("decoded-output-mismatch", name);
            return 0;
        }
        probe_dctx(d);
        {   size_t rr; beg("DCtx_reset", -1, -1); rr = ZSTD_DCtx_reset(d, ZSTD_reset_session_only); endc(ZSTD_isError(rr) ? "E" : "ok"); if (ZSTD_isError(rr)) violation("reset-failed", name); }
    }
    if (!g_single) violation("not-reusable-after-reset", name);
    return 1;
}

static ZSTD_CCtx* mk_cctx(void) {
    int t; for (t = 0; t < MAXTRY; t++) { int nf0 = g_nfailed; ZSTD_CCtx* c; beg("createCCtx", -1, -1); c = ZSTD_createCCtx_advanced(g_cmem); judge("createCCtx", c == NULL, 0, nf0, t); if (c) return c; }
    violation("create-keeps-failing", "createCCtx"); return NULL;
}
static ZSTD_DCtx* mk_dctx(void) {
    int t; for (t = 0; t < MAXTRY; t++) { int nf0 = g_nfailed; ZSTD_DCtx* d; beg("createDCtx", -1, -1); d = ZSTD_createDCtx_advanced(g_cmem); judge("createDCtx", d == NULL, 0, nf0, t); if (d) return d; }
    violation("create-keeps-failing", "createDCtx"); return NULL;
}
static void setp(ZSTD_CCtx* c, ZSTD_cParameter p, int v) {
    int nf0 = g_nfailed; size_t r; beg("setParameter", (long)p, (long)v); r = ZSTD_CCtx_setParameter(c, p, v);
    if (ZSTD_isError(r)) { judge("setParameter", 1, r, nf0, 0); } else endc("ok");
}

/* ------------------------------------------------------------------ scenarios */
typedef void (*scen_fn)(int variant);
typedef struct { const char* name; scen_fn fn; int variant; int heavy; } scen_t;

static void fr_cctx(ZSTD_CCtx* c) { beg("freeCCtx", -1, -1); ZSTD_freeCCtx(c); endc(""); }
static void fr_dctx(ZSTD_DCtx* d) { beg("freeDCtx", -1, -1); ZSTD_freeDCtx(d); endc(""); }
static void fr_cdict(ZSTD_CDict* d) { beg("freeCDict", 0, -1); ZSTD_freeCDict(d); endc(""); }
static void fr_ddict(ZSTD_DDict* d, int k) { beg("freeDDict", k, -1); ZSTD_freeDDict(d); endc(""); }

static void sc_cctx_create(int v) { ZSTD_CCtx* c; (void)v; mark("create"); c = mk_cctx(); mark("free"); fr_cctx(c); }

static void sc_cctx_params(int v) {
    ZSTD_CCtx* c; ZSTD_CCtx_params* p = NULL; int t; (void)v;
    mark("create"); c = mk_cctx(); if (!c) return;
    mark("params");
    for (t = 0; t < MAXTRY && !p; t++) { int nf0 = g_nfailed; beg("createCCtxParams", -1, -1); p = ZSTD_createCCtxParams(); judge("createCCtxParams", p == NULL, 0, nf0, t); }
    /* ZSTD_createCCtxParams uses the default allocator (plain calloc: lower-case events) */
    if (p) { ZSTD_CCtxParams_setParameter(p, ZSTD_c_compressionLevel, 5); ZSTD_CCtxParams_setParameter(p, ZSTD_c_checksumFlag, 1);
             ZSTD_CCtx_setParametersUsingCCtxParams(c, p); }
    mark("compress"); op_compress2("compress2", c, g_src, 20000, NULL, 0);
    mark("free"); beg("freeCCtxParams", -1, -1); ZSTD_freeCCtxParams(p); endc(""); fr_cctx(c);
}

static void sc_compress_st(int v) {
    ZSTD_CCtx* c; static const int lv[] = { 1, 3, 6, 13, 19 };
    mark("create"); c = mk_cctx(); if (!c) return;
    setp(c, ZSTD_c_compressionLevel, lv[v % 5]);
    if (v >= 5) setp(c, ZSTD_c_enableLongDistanceMatching, 1);
    mark("compress"); op_compress2("compress2", c, g_src, v == 4 ? 30000 : 100000, NULL, 0);
    mark("free"); fr_cctx(c);
}

/* workspace free + create: small job, then a much larger one (too small), then a tiny one many times (wasteful) */
static void sc_compress_grow(int v) {
    ZSTD_CCtx* c; int i;
    mark("create"); c = mk_cctx(); if (!c) return;
    setp(c, ZSTD_c_compressionLevel, v ? 7 : 1);
    mark("small"); op_compress2("compress2-small", c, g_src, 2000, NULL, 0);
    mark("big"); op_compress2("compress2-big", c, g_src, 600000, NULL, 0);
    mark("shrink");
    for (i = 0; i < 132; i++) op_compress2("compress2-tiny", c, g_src + i, 1000, NULL, 0);   /* oversized for > 128 uses -> realloc smaller */
    mark("free"); fr_cctx(c);
}

/* a failed operation followed, after the reset, by a DIFFERENT (smaller) operation: whatever the failed (re)allocation
   left behind (sizes, pointers) must describe the context truthfully */
static void sc_fail_then_small(int v) {
    if (v == 0) {
        ZSTD_CCtx* c;
        mark("create"); c = mk_cctx(); if (!c) return;
        setp(c, ZSTD_c_compressionLevel, 3);
        mark("small"); op_compress2("compress2-small", c, g_src, 3000, NULL, 0);
        mark("big-once"); g_single = 1; op_compress2("compress2-big", c, g_src, 900000, NULL, 0); g_single = 0;
        mark("small-after"); op_compress2("compress2-small2", c, g_src + 50, 2500, NULL, 0);
        mark("stream-after"); op_cstream("cstream-after", c, g_src + 99, 30000, 4000, 1000, 0);
        mark("free"); fr_cctx(c);
    } else {
        ZSTD_DCtx* d;
        mark("create"); d = mk_dctx(); if (!d) return;
        mark("small"); op_dstream("dstream-small", d, g_fr_small, g_fr_small_n, g_src, 3000, 4096, 100000);
        mark("big-once"); g_single = 1; op_dstream("dstream-big", d, g_fr_big, g_fr_big_n, g_src + 5000, 300000, 50000, 400000); g_single = 0;
        mark("small-after"); op_dstream("dstream-small2", d, g_fr_small, g_fr_small_n, g_src, 3000, 333, 500);
        mark("big-after"); op_dstream("dstream-big2", d, g_fr_big, g_fr_big_n, g_src + 5000, 300000, 1000, 5000);
        mark("free"); fr_dctx(d);
    }
}

static size_t do_load_dict(ZSTD_CCtx* c, int byRef, const char* dict) {
    size_t r; beg("loadDictionary", byRef, -1);
    r = byRef ? ZSTD_CCtx_loadDictionary_byReference(c, dict, g_dictSize) : ZSTD_CCtx_loadDictionary(c, dict, g_dictSize);
    return r;
}
static void sc_load_dict(int v) {
    ZSTD_CCtx* c; int t;
    mark("create"); c = mk_cctx(); if (!c) return;
    setp(c, ZSTD_c_compressionLevel, 3);
    mark("loadDict");
    for (t = 0; t < MAXTRY; t++) { int nf0 = g_nfailed;
        size_t r = do_load_dict(c, v == 1, g_dict);
        judge("loadDictionary", ZSTD_isError(r), ZSTD_isError(r) ? r : 0, nf0, t); if (!ZSTD_isError(r)) break; }
    mark("compress"); op_compress2("compress2-dict", c, g_src + 100000, 5000, g_dict, g_dictSize);
    mark("compress-again"); op_compress2("compress2-dict2", c, g_src + 130000, 7000, g_dict, g_dictSize);
    if (v == 2) { mark("reload"); { int nf0 = g_nfailed; size_t r = do_load_dict(c, 0, g_dicts[3]); judge("loadDictionary2", ZSTD_isError(r), ZSTD_isError(r) ? r : 0, nf0, 0);
                                    if (!ZSTD_isError(r)) op_compress2("compress2-dict3", c, g_src + 130000, 7000, g_dicts[3], g_dictSize); } }
    mark("free"); fr_cctx(c);
}

static ZSTD_CDict* mk_cdict(int byRef, int level) {
    int t; ZSTD_compressionParameters cp = ZSTD_getCParams(level, 0, g_dictSize);
    for (t = 0; t < MAXTRY; t++) { int nf0 = g_nfailed; ZSTD_CDict* cd;
        beg("createCDict", 0, byRef);
        cd = ZSTD_createCDict_advanced(g_dict, g_dictSize, byRef ? ZSTD_dlm_byRef : ZSTD_dlm_byCopy, ZSTD_dct_auto, cp, g_cmem);
        judge("createCDict", cd == NULL, 0, nf0, t); if (cd) return cd; }
    violation("create-keeps-failing", "createCDict"); return NULL;
}
static void sc_cdict(int v) {
    ZSTD_CCtx* c; ZSTD_CDict* cd;
    mark("createCDict"); cd = mk_cdict(v & 1, (v & 2) ? 12 : 3); if (!cd) return;
    mark("create"); c = mk_cctx(); if (!c) { fr_cdict(cd); return; }
    mark("ref"); { size_t r; beg("refCDict", -1, -1); r = ZSTD_CCtx_refCDict(c, cd); endc(ZSTD_isError(r) ? "E" : "ok"); if (ZSTD_isError(r)) violation("refCDict-error", "refCDict"); }
    mark("compress"); op_compress2("compress2-cdict", c, g_src + 100000, 6000, g_dict, g_dictSize);
    mark("compress-big"); op_compress2("compress2-cdict-big", c, g_src + 100000, 300000, g_dict, g_dictSize);
    mark("free"); fr_cctx(c); fr_cdict(cd);
}

static void sc_cstream(int v) {
    ZSTD_CCtx* c;
    mark("create"); c = mk_cctx(); if (!c) return;
    setp(c, ZSTD_c_compressionLevel, v == 1 ? 9 : 2); setp(c, ZSTD_c_checksumFlag, 1);
    mark("stream"); op_cstream("cstream", c, g_src, 250000, 7001, 3001, v == 2 ? 5 : 0);
    mark("stream2"); op_cstream("cstream2", c, g_src + 1000, 40000, 997, 100000, 0);
    mark("free"); fr_cctx(c);
}

static void sc_mt(int v) {
    /* v: 0 one-shot 2 workers; 1 streaming 1 worker; 2 ldm + 2 workers; 3 dictionary + 2 workers; 4 rsyncable 3 workers; 5 resize 1 -> 3 workers;
       6 failed resize then back to 1 worker; 7 resize 3 -> 1 -> 4 workers, streaming */
    ZSTD_CCtx* c; size_t const n = (v == 2) ? 2600000 : 1400000;
    mark("create"); c = mk_cctx(); if (!c) return;
    setp(c, ZSTD_c_compressionLevel, 1);
    setp(c, ZSTD_c_nbWorkers, (v == 1 || v == 5 || v == 6) ? 1 : ((v == 4 || v == 7) ? 3 : 2));
    setp(c, ZSTD_c_jobSize, 1 << 19);
    if (v == 2) { setp(c, ZSTD_c_enableLongDistanceMatching, 1); setp(c, ZSTD_c_windowLog, 21); }
    if (v == 4) setp(c, ZSTD_c_rsyncable, 1);
    if (v == 3) { int nf0 = g_nfailed; size_t r = do_load_dict(c, 0, g_dict); judge("loadDictionary", ZSTD_isError(r), ZSTD_isError(r) ? r : 0, nf0, 0);
                  if (ZSTD_isError(r)) { nf0 = g_nfailed; r = do_load_dict(c, 0, g_dict); judge("loadDictionary", ZSTD_isError(r), ZSTD_isError(r) ? r : 0, nf0, 1); } }
    mark("compress");
    if (v == 1 || v == 7) op_cstream("mt-cstream", c, g_src, n, 200000, 150000, 3);
    else op_compress2("mt-compress2", c, g_src, n, v == 3 ? g_dict : NULL, v == 3 ? g_dictSize : 0);
    if (v == 5) { mark("resize"); setp(c, ZSTD_c_nbWorkers, 3); op_compress2("mt-compress2-resized", c, g_src + 3, n, NULL, 0); }
    if (v == 6) {   /* a failed resize followed by a return to the previous worker count */
        int nf0; size_t r;
        mark("resize"); setp(c, ZSTD_c_nbWorkers, 3); nf0 = g_nfailed;
        beg("compress", -1, -1);
        r = ZSTD_compress2(c, g_scratch, g_scratchCap, g_src + 3, n); judge("mt-compress2-resized", ZSTD_isError(r), ZSTD_isError(r) ? r : 0, nf0, 0);
        if (ZSTD_isError(r)) { beg("CCtx_reset", -1, -1); ZSTD_CCtx_reset(c, ZSTD_reset_session_only); endc("ok"); mark("back"); setp(c, ZSTD_c_nbWorkers, 1); op_compress2("mt-compress2-back", c, g_src + 5, n, NULL, 0); }
    }
    if (v == 7) { mark("shrink"); setp(c, ZSTD_c_nbWorkers, 1); op_cstream("mt-cstream-1", c, g_src + 11, 900000, 100000, 50000, 0);
                  mark("grow"); setp(c, ZSTD_c_nbWorkers, 4); op_cstream("mt-cstream-4", c, g_src + 13, n, 300000, 200000, 2); }
    mark("again"); op_compress2("mt-compress2-again", c, g_src + 7, 700000, v == 3 ? g_dict : NULL, v == 3 ? g_dictSize : 0);
    mark("free"); fr_cctx(c);
}

/* unit level: the constructors the DSL instances model, called directly */
static void sc_pool(int v) {
    POOL_ctx* p = NULL; int t; size_t const nt = (v & 1) ? 3 : 1; size_t const qs = (v & 2) ? 4 : 0;
    mark("POOL_create");
    for (t = 0; t < MAXTRY && !p; t++) { int nf0 = g_nfailed; beg("POOL_create", (long)nt, (long)qs); p = POOL_create_advanced(nt, qs, g_cmem); judge("POOL_create", p == NULL, 0, nf0, t); }
    if (!p) { violation("create-keeps-failing", "POOL_create"); return; }
    mark("POOL_resize");
    for (t = 0; t < MAXTRY; t++) { int nf0 = g_nfailed; int r; beg("POOL_resize", (long)nt + 2, -1); r = POOL_resize(p, nt + 2); judge("POOL_resize", r != 0, 0, nf0, t); if (!r) break; }
    mark("POOL_resize_down");
    { int nf0 = g_nfailed; int r; beg("POOL_resize", 1, -1); r = POOL_resize(p, 1); judge("POOL_resize_down", r != 0, 0, nf0, 0); }
    if (v & 4) { mark("POOL_resize_up"); for (t = 0; t < MAXTRY; t++) { int nf0 = g_nfailed; int r; beg("POOL_resize", (long)nt + 5, -1); r = POOL_resize(p, nt + 5); judge("POOL_resize_up", r != 0, 0, nf0, t); if (!r) break; } }
    mark("POOL_free"); beg("POOL_free", -1, -1); POOL_free(p); endc("");
}

static void sc_mtctx(int v) {
    ZSTDMT_CCtx* m = NULL; int t; unsigned const w = (unsigned)(v + 1);
    mark("ZSTDMT_create");
    for (t = 0; t < MAXTRY && !m; t++) { int nf0 = g_nfailed; beg("ZSTDMT_create", (long)w, -1); m = ZSTDMT_createCCtx_advanced(w, g_cmem, NULL); judge("ZSTDMT_create", m == NULL, 0, nf0, t); }
    if (!m) { violation("create-keeps-failing", "ZSTDMT_create"); return; }
    mark("ZSTDMT_free"); beg("ZSTDMT_free", -1, -1); ZSTDMT_freeCCtx(m); endc("");
}

/* ZSTDMT_resize called directly on a context created directly: the state the function finds (thread capacity, jobs-table
   capacity, pool capacities) goes into the call bracket; a failed resize leaves NULL tables / pools that the retry must
   re-create */
static void sc_mtresize(int v) {
    static const unsigned seq0[] = { 1, 3, 2, 6, 1, 0 }, seq1[] = { 4, 9, 2, 12, 0 }, seq2[] = { 2, 2, 5, 5, 3, 0 };
    const unsigned* seq = v == 0 ? seq0 : (v == 1 ? seq1 : seq2);
    ZSTDMT_CCtx* m = NULL; int t, i;
    mark("ZSTDMT_create");
    for (t = 0; t < MAXTRY && !m; t++) { int nf0 = g_nfailed; beg("ZSTDMT_create", (long)seq[0], -1); m = ZSTDMT_createCCtx_advanced(seq[0], g_cmem, NULL); judge("ZSTDMT_create", m == NULL, 0, nf0, t); }
    if (!m) { violation("create-keeps-failing", "ZSTDMT_create"); return; }
    for (i = 1; seq[i]; i++) {
        mark("ZSTDMT_resize");
        for (t = 0; t < MAXTRY; t++) {
            int nf0 = g_nfailed; size_t r; long ps[6];
            ps[0] = m->factory ? (long)m->factory->threadCapacity : 0; ps[1] = m->jobs ? (long)m->jobIDMask + 1 : 0;
            ps[2] = m->bufPool ? (long)m->bufPool->totalBuffers : 0; ps[3] = m->cctxPool ? (long)m->cctxPool->totalCCtx : 0;
            ps[4] = m->seqPool ? (long)m->seqPool->totalBuffers : 0; ps[5] = (long)seq[i];
            begn("ZSTDMT_resize", 6, ps);
            r = ZSTDMT_resize(m, seq[i]);
            judge("ZSTDMT_resize", ZSTD_isError(r), ZSTD_isError(r) ? r : 0, nf0, t);
            if (!ZSTD_isError(r)) break;
        }
        if (t == MAXTRY) violation("not-reusable-after-reset", "ZSTDMT_resize");
    }
    mark("ZSTDMT_free"); beg("ZSTDMT_free", -1, -1); ZSTDMT_freeCCtx(m); endc("");
}

static void sc_dctx(int v) {
    ZSTD_DCtx* d; static char out[400000]; (void)v;
    mark("create"); d = mk_dctx(); if (!d) return;
    mark("decompress");
    { int nf0 = g_nfailed; size_t r; beg("decompressDCtx", -1, -1); r = ZSTD_decompressDCtx(d, out, sizeof out, g_fr_big, g_fr_big_n); judge("decompressDCtx", ZSTD_isError(r), ZSTD_isError(r) ? r : 0, nf0, 0);
      if (!ZSTD_isError(r) && (r != 300000 || memcmp(out, g_src + 5000, r))) violation("decoded-output-mismatch", "decompressDCtx"); }
    mark("free"); fr_dctx(d);
}

static void sc_dstream(int v) {
    /* window growth: small frame first (small buffers), then a frame with a 256 KB window (inBuff freed, then re-malloc'd) */
    ZSTD_DCtx* d;
    mark("create"); d = mk_dctx(); if (!d) return;
    mark("small"); op_dstream("dstream-small", d, g_fr_small, g_fr_small_n, g_src, 3000, v ? 100 : 4096, v ? 777 : 100000);
    mark("big"); op_dstream("dstream-big", d, g_fr_big, g_fr_big_n, g_src + 5000, 300000, v ? 1000 : 50000, v ? 5000 : 400000);
    mark("small-again"); op_dstream("dstream-small2", d, g_fr_small, g_fr_small_n, g_src, 3000, 4096, 100000);
    if (v == 2) { int i; mark("shrink"); for (i = 0; i < 132; i++) op_dstream("dstream-tiny", d, g_fr_small, g_fr_small_n, g_src, 3000, 4096, 100000); }
    mark("free"); fr_dctx(d);
}

static void sc_dctx_dict(int v) {
    ZSTD_DCtx* d; int t; static char out[8192];
    mark("create"); d = mk_dctx(); if (!d) return;
    mark("loadDict");
    for (t = 0; t < MAXTRY; t++) { int nf0 = g_nfailed; size_t r;
        beg("DCtx_loadDictionary", v ? 1 : 0, -1);
        r = v ? ZSTD_DCtx_loadDictionary_byReference(d, g_dicts[7], g_dictSize) : ZSTD_DCtx_loadDictionary(d, g_dicts[7], g_dictSize);
        judge("DCtx_loadDictionary", ZSTD_isError(r), ZSTD_isError(r) ? r : 0, nf0, t); if (!ZSTD_isError(r)) break; }
    mark("decompress");
    { int nf0 = g_nfailed; size_t r; beg("decompressDCtx", -1, -1); r = ZSTD_decompressDCtx(d, out, sizeof out, g_fr_dict, g_fr_dict_n); judge("decompressDCtx-dict", ZSTD_isError(r), ZSTD_isError(r) ? r : 0, nf0, 0);
      if (!ZSTD_isError(r) && (r != 4000 || memcmp(out, g_src + 100000 + 7 * 600, r))) violation("decoded-output-mismatch", "decompressDCtx-dict"); }
    mark("stream"); op_dstream("dstream-dict", d, g_fr_dict, g_fr_dict_n, g_src + 100000 + 7 * 600, 4000, 500, 600);
    mark("free"); fr_dctx(d);
}

static ZSTD_DDict* mk_ddict(const char* dict, int byRef, int k) {
    int t;
    for (t = 0; t < MAXTRY; t++) { int nf0 = g_nfailed; ZSTD_DDict* dd;
        beg("createDDict", k, byRef);
        dd = ZSTD_createDDict_advanced(dict, g_dictSize, byRef ? ZSTD_dlm_byRef : ZSTD_dlm_byCopy, ZSTD_dct_auto, g_cmem);
        judge("createDDict", dd == NULL, 0, nf0, t); if (dd) return dd; }
    violation("create-keeps-failing", "createDDict"); return NULL;
}
static void sc_ddict(int v) {
    ZSTD_DCtx* d; ZSTD_DDict* dd; static char out[8192];
    mark("createDDict"); dd = mk_ddict(g_dicts[7], v, 0); if (!dd) return;
    mark("create"); d = mk_dctx(); if (!d) { fr_ddict(dd, 0); return; }
    mark("decompress");
    { int nf0 = g_nfailed; size_t r; beg("decompress_usingDDict", -1, -1); r = ZSTD_decompress_usingDDict(d, out, sizeof out, g_fr_dict, g_fr_dict_n, dd); judge("decompress_usingDDict", ZSTD_isError(r), ZSTD_isError(r) ? r : 0, nf0, 0);
      if (!ZSTD_isError(r) && (r != 4000 || memcmp(out, g_src + 100000 + 7 * 600, r))) violation("decoded-output-mismatch", "decompress_usingDDict"); }
    mark("free"); fr_dctx(d); fr_ddict(dd, 0);
}

static void sc_multi_ddict(int v) {
    /* refMultipleDDicts: hash set creation at the first ref, expansion (64 -> 128 entries) at the 17th */
    ZSTD_DCtx* d; ZSTD_DDict* dds[NDD]; int i, nd = v ? NDD : 20; static char out[8192];
    memset(dds, 0, sizeof dds);
    mark("create"); d = mk_dctx(); if (!d) return;
    { size_t r = ZSTD_DCtx_setParameter(d, ZSTD_d_refMultipleDDicts, ZSTD_rmd_refMultipleDDicts); if (ZSTD_isError(r)) violation("setParameter-error", "refMultipleDDicts"); }
    mark("ddicts");
    for (i = 0; i < nd; i++) { dds[i] = mk_ddict(g_dicts[i], i & 1, i); if (!dds[i]) goto out; }
    mark("ref");
    for (i = 0; i < nd; i++) { int t;
        for (t = 0; t < MAXTRY; t++) { int nf0 = g_nfailed; size_t r; beg("refDDict", i, -1); r = ZSTD_DCtx_refDDict(d, dds[i]);
            judge("refDDict", ZSTD_isError(r), ZSTD_isError(r) ? r : 0, nf0, t); if (!ZSTD_isError(r)) break; }
        if (t == MAXTRY) violation("not-reusable-after-reset", "refDDict"); }
    mark("decompress");
    { int nf0 = g_nfailed; size_t r; beg("decompressDCtx", -1, -1); r = ZSTD_decompressDCtx(d, out, sizeof out, g_fr_dict, g_fr_dict_n); judge("decompressDCtx-multi", ZSTD_isError(r), ZSTD_isError(r) ? r : 0, nf0, 0);
      if (!ZSTD_isError(r) && (r != 4000 || memcmp(out, g_src + 100000 + 7 * 600, r))) violation("decoded-output-mismatch", "decompressDCtx-multi"); }
    mark("stream"); op_dstream("dstream-multi", d, g_fr_dict, g_fr_dict_n, g_src + 100000 + 7 * 600, 4000, 300, 900);
out:
    mark("free"); fr_dctx(d); for (i = 0; i < nd; i++) if (dds[i]) fr_ddict(dds[i], i);
}

static void sc_copy_cctx(int v) {
    ZSTD_CCtx *a, *b; (void)v;
    mark("create"); a = mk_cctx(); if (!a) return; b = mk_cctx(); if (!b) { fr_cctx(a); return; }
    mark("begin");
    { int t; for (t = 0; t < MAXTRY; t++) { int nf0 = g_nfailed; size_t r; beg("compressBegin", -1, -1); r = ZSTD_compressBegin(a, 4); judge("compressBegin", ZSTD_isError(r), ZSTD_isError(r) ? r : 0, nf0, t); if (!ZSTD_isError(r)) break; } }
    mark("copy");
    { int t; for (t = 0; t < MAXTRY; t++) { int nf0 = g_nfailed; size_t r; beg("copyCCtx", -1, -1); r = ZSTD_copyCCtx(b, a, 50000); judge("copyCCtx", ZSTD_isError(r), ZSTD_isError(r) ? r : 0, nf0, t); if (!ZSTD_isError(r)) {
          size_t c = ZSTD_compressEnd(b, g_scratch, g_scratchCap, g_src, 50000);
          if (ZSTD_isError(c)) violation("compressEnd-error", "copyCCtx"); else check_rt("copyCCtx", g_scratch, c, g_src, 50000, NULL, 0);
          break; } } }
    mark("free"); fr_cctx(a); fr_cctx(b);
}

/* ---- dictionary training: the trainers use plain malloc/calloc/free (lower-case events); no context to reset.
   Oracle: error (any code) or a dictionary that ZSTD_createCDict/DDict-free decoding accepts; a retry with memory
   available must succeed; nothing stays allocated. */
#define NSAMP 320
#define SSAMP 160
static size_t g_ssz[NSAMP];
static void check_dict(const char* name, const void* dict, size_t dsz) {
    int saved = g_armed; g_armed = 0;
    {   size_t const n = 3000;
        {   ZSTD_CCtx* cc = ZSTD_createCCtx(); size_t r = ZSTD_compress_usingDict(cc, g_scratch, g_scratchCap, g_src + 200000, n, dict, dsz, 3);
            ZSTD_freeCCtx(cc);
            if (ZSTD_isError(r)) violation("trained-dictionary-unusable", name);
            else check_rt(name, g_scratch, r, g_src + 200000, n, dict, dsz); } }
    g_armed = saved;
}
static void sc_train(int v) {
    /* v: 0 cover  1 fastcover  2 legacy  3 ZDICT_trainFromBuffer (fastcover optimise, 1 thread)  4 optimize cover 2 threads
          5 optimize fastcover 2 threads  6 finalizeDictionary  7 addEntropyTablesFromBuffer */
    static char dict[1 << 14]; size_t const cap = sizeof dict; int t, i; size_t r = 0;
    const char* samples = g_src + 400000;
    static const char* names[] = { "train_cover", "train_fastcover", "train_legacy", "trainFromBuffer", "optimize_cover", "optimize_fastcover", "finalizeDictionary", "addEntropyTables", "optimize_cover_shrink", "optimize_fastcover_shrink" };
    for (i = 0; i < NSAMP; i++) g_ssz[i] = SSAMP;
    mark("train");
    for (t = 0; t < MAXTRY; t++) {
        int nf0 = g_nfailed;
        beg(names[v], -1, -1);
        switch (v) {
        case 0: { ZDICT_cover_params_t p; memset(&p, 0, sizeof p); p.k = 200; p.d = 8; p.zParams.compressionLevel = 3; r = ZDICT_trainFromBuffer_cover(dict, cap, samples, g_ssz, NSAMP, p); break; }
        case 1: { ZDICT_fastCover_params_t p; memset(&p, 0, sizeof p); p.k = 200; p.d = 8; p.f = 14; p.accel = 1; p.zParams.compressionLevel = 3; r = ZDICT_trainFromBuffer_fastCover(dict, cap, samples, g_ssz, NSAMP, p); break; }
        case 2: { ZDICT_legacy_params_t p; memset(&p, 0, sizeof p); p.selectivityLevel = 9; r = ZDICT_trainFromBuffer_legacy(dict, cap, samples, g_ssz, NSAMP, p); break; }
        case 3: r = ZDICT_trainFromBuffer(dict, 4096, samples, g_ssz, 120); break;
        case 4: { ZDICT_cover_params_t p; memset(&p, 0, sizeof p); p.d = 8; p.steps = 3; p.nbThreads = 2; p.zParams.compressionLevel = 3; r = ZDICT_optimizeTrainFromBuffer_cover(dict, 4096, samples, g_ssz, 120, &p); break; }
        case 5: { ZDICT_fastCover_params_t p; memset(&p, 0, sizeof p); p.d = 8; p.steps = 3; p.f = 12; p.accel = 2; p.nbThreads = 2; p.zParams.compressionLevel = 3; r = ZDICT_optimizeTrainFromBuffer_fastCover(dict, 4096, samples, g_ssz, 120, &p); break; }
        case 6: { ZDICT_params_t p; memset(&p, 0, sizeof p); p.compressionLevel = 3; r = ZDICT_finalizeDictionary(dict, cap, g_src + 600000, 6000, samples, g_ssz, NSAMP, p); break; }
        case 8: { ZDICT_cover_params_t p; memset(&p, 0, sizeof p); p.d = 8; p.steps = 2; p.nbThreads = 1; p.shrinkDict = 1; p.shrinkDictMaxRegression = 5; p.zParams.compressionLevel = 3; r = ZDICT_optimizeTrainFromBuffer_cover(dict, 4096, samples, g_ssz, 120, &p); break; }
        case 9: { ZDICT_fastCover_params_t p; memset(&p, 0, sizeof p); p.d = 8; p.steps = 2; p.f = 12; p.accel = 2; p.nbThreads = 2; p.shrinkDict = 1; p.shrinkDictMaxRegression = 5; p.zParams.compressionLevel = 3; r = ZDICT_optimizeTrainFromBuffer_fastCover(dict, 4096, samples, g_ssz, 120, &p); break; }
        default: { memcpy(dict + cap - 5000, g_src + 600000, 5000); r = ZDICT_addEntropyTablesFromBuffer(dict, 5000, cap, samples, g_ssz, NSAMP); break; }
        }
        {   int const failed = ZDICT_isError(r); int const newfail = g_nfailed - nf0;
            endc(failed ? ename(r) : "ok");
            if (failed) { oplog(names[v], ename(r)); if (newfail == 0) violation(t ? "error-after-retry-without-alloc-failure" : "error-without-alloc-failure", names[v]); }
            else { oplog(names[v], t ? "ok-retry" : "ok"); if (newfail) { g_succ_despite_fail++; oplog(names[v], "note-success-despite-alloc-failure"); }
                   if (r == 0 || r > cap) violation("trained-dictionary-size-out-of-range", names[v]); else check_dict(names[v], dict, r);
                   return; } }
    }
    violation("training-keeps-failing", names[v]);
}

/* ------------------------------------------------------------------ round 2: more entry points */

/* legacy frames (v0.5 / v0.6 / v0.7): magic, frame header with the window log, one raw block of n bytes, end block */
static size_t make_legacy(unsigned char* out, unsigned ver, unsigned wlog, size_t n) {
    size_t p = 0, i;
    out[p++] = (unsigned char)(0x20 + ver); out[p++] = 0xB5; out[p++] = 0x2F; out[p++] = 0xFD;
    if (ver == 7) { out[p++] = 0x00; out[p++] = (unsigned char)((wlog - 10) << 3); }
    else if (ver == 6) { out[p++] = (unsigned char)(wlog - 12); }
    else { out[p++] = (unsigned char)(wlog - 11); }   /* v0.5 and v0.4: one byte, windowLog - 11 */
    out[p++] = 0x40 | (unsigned char)((n >> 16) & 7); out[p++] = (unsigned char)(n >> 8); out[p++] = (unsigned char)n;
    for (i = 0; i < n; i++) out[p++] = (unsigned char)('a' + i % 26);
    out[p++] = 0xC0; out[p++] = 0; out[p++] = 0;
    return p;
}
/* the legacy stream contexts (ZBUFFv05/06/07_createDCtx and their buffers: plain malloc) behind ZSTD_decompressStream:
   v 0: one v0.7 frame, twice;  1: v0.5, v0.7, v0.6, a modern frame, v0.7 (version changes free + create the legacy context);
   2: one-shot ZSTD_decompressDCtx of the three versions */
static void sc_legacy(int v) {
    static unsigned char fr[3][4200]; static size_t fl[3]; static char expect[4000]; static char out[8192];
    ZSTD_DCtx* d; size_t const n = 3000; int i;
    for (i = 0; i < 3; i++) fl[i] = make_legacy(fr[i], 5 + (unsigned)i, 17, n);
    for (i = 0; i < (int)n; i++) expect[i] = (char)('a' + i % 26);
    mark("create"); d = mk_dctx(); if (!d) return;
    if (v == 0) {
        mark("v07"); op_dstream("dstream-v07", d, fr[2], fl[2], expect, n, 700, 900);
        mark("v07-again"); op_dstream("dstream-v07b", d, fr[2], fl[2], expect, n, 5000, 5000);
    } else if (v == 3) {   /* version switches only (tied to the model: no modern frame in between) */
        mark("v05"); op_dstream("dstream-v05", d, fr[0], fl[0], expect, n, 700, 900);
        mark("v07"); op_dstream("dstream-v07", d, fr[2], fl[2], expect, n, 5000, 5000);
        mark("v07-again"); op_dstream("dstream-v07b", d, fr[2], fl[2], expect, n, 100, 300);
        mark("v06"); op_dstream("dstream-v06", d, fr[1], fl[1], expect, n, 333, 100);
        mark("v05-again"); op_dstream("dstream-v05b", d, fr[0], fl[0], expect, n, 5000, 5000);
    } else if (v == 1) {
        mark("v05"); op_dstream("dstream-v05", d, fr[0], fl[0], expect, n, 700, 900);
        mark("v07"); op_dstream("dstream-v07", d, fr[2], fl[2], expect, n, 5000, 5000);
        mark("v06"); op_dstream("dstream-v06", d, fr[1], fl[1], expect, n, 333, 100);
        mark("modern"); op_dstream("dstream-modern", d, g_fr_small, g_fr_small_n, g_src, 3000, 4096, 100000);
        mark("v07-again"); op_dstream("dstream-v07b", d, fr[2], fl[2], expect, n, 64, 5000);
    } else {
        for (i = 0; i < 3; i++) { int t;
            for (t = 0; t < MAXTRY; t++) { int nf0 = g_nfailed; size_t r; beg("decompressDCtx", -1, -1); r = ZSTD_decompressDCtx(d, out, sizeof out, fr[i], fl[i]);
                judge("decompressDCtx-legacy", ZSTD_isError(r), ZSTD_isError(r) ? r : 0, nf0, t);
                if (!ZSTD_isError(r)) { if (r != n || memcmp(out, expect, n)) violation("decoded-output-mismatch", "decompressDCtx-legacy"); break; } }
            if (t == MAXTRY) violation("not-reusable-after-reset", "decompressDCtx-legacy"); }
    }
    mark("free"); fr_dctx(d);
}

/* entry points that use the default allocator (plain malloc / calloc / free): the simple API and the sequence API */
#define RETRY(NAME, CALL, FAILED, CODE) \
    { int t_; for (t_ = 0; t_ < MAXTRY; t_++) { int nf0_ = g_nfailed; beg(NAME, -1, -1); CALL; judge(NAME, (FAILED), (CODE), nf0_, t_); if (!(FAILED)) break; } \
      if (t_ == MAXTRY) violation("keeps-failing", NAME); }
static void sc_simple(int v) {
    size_t r = 0; static char out[70000]; size_t const n = 60000;
    if (v == 0) {          /* ZSTD_compress / ZSTD_decompress (contexts on the heap inside the call) */
        size_t c = 0;
        mark("compress"); RETRY("ZSTD_compress", r = ZSTD_compress(g_scratch, g_scratchCap, g_src, n, 3), ZSTD_isError(r), ZSTD_isError(r) ? r : 0);
        c = r; check_rt("ZSTD_compress", g_scratch, c, g_src, n, NULL, 0);
        mark("decompress"); RETRY("ZSTD_decompress", r = ZSTD_decompress(out, sizeof out, g_scratch, c), ZSTD_isError(r), ZSTD_isError(r) ? r : 0);
        if (r != n || memcmp(out, g_src, n)) violation("decoded-output-mismatch", "ZSTD_decompress");
    } else if (v == 1) {   /* default-allocator CCtx / DCtx / CDict / DDict, *_usingDict, *_usingCDict, *_usingDDict */
        ZSTD_CCtx* c = NULL; ZSTD_DCtx* d = NULL; ZSTD_CDict* cd = NULL; ZSTD_DDict* dd = NULL; size_t cs;
        const char* src = g_src + 100000 + 7 * 600;
        mark("create"); RETRY("ZSTD_createCCtx", c = ZSTD_createCCtx(), c == NULL, 0); RETRY("ZSTD_createDCtx", d = ZSTD_createDCtx(), d == NULL, 0);
        RETRY("ZSTD_createCDict", cd = ZSTD_createCDict(g_dict, g_dictSize, 5), cd == NULL, 0);
        RETRY("ZSTD_createDDict", dd = ZSTD_createDDict(g_dict, g_dictSize), dd == NULL, 0);
        if (c && d && cd && dd) {
            mark("usingDict"); RETRY("compress_usingDict", r = ZSTD_compress_usingDict(c, g_scratch, g_scratchCap, src, 4000, g_dict, g_dictSize, 3), ZSTD_isError(r), ZSTD_isError(r) ? r : 0);
            cs = r; RETRY("decompress_usingDict", r = ZSTD_decompress_usingDict(d, out, sizeof out, g_scratch, cs, g_dict, g_dictSize), ZSTD_isError(r), ZSTD_isError(r) ? r : 0);
            if (r != 4000 || memcmp(out, src, 4000)) violation("decoded-output-mismatch", "decompress_usingDict");
            mark("usingCDict"); RETRY("compress_usingCDict", r = ZSTD_compress_usingCDict(c, g_scratch, g_scratchCap, src, 4000, cd), ZSTD_isError(r), ZSTD_isError(r) ? r : 0);
            cs = r; RETRY("decompress_usingDDict", r = ZSTD_decompress_usingDDict(d, out, sizeof out, g_scratch, cs, dd), ZSTD_isError(r), ZSTD_isError(r) ? r : 0);
            if (r != 4000 || memcmp(out, src, 4000)) violation("decoded-output-mismatch", "decompress_usingDDict");
            mark("initCStream_usingDict");
            RETRY("initCStream_usingDict", r = ZSTD_initCStream_usingDict(c, g_dict, g_dictSize, 4), ZSTD_isError(r), ZSTD_isError(r) ? r : 0);
            {   int t; for (t = 0; t < MAXTRY; t++) { int nf0 = g_nfailed; ZSTD_inBuffer in = { src, 4000, 0 }; ZSTD_outBuffer o = { g_scratch, g_scratchCap, 0 };
                    beg("endStream", -1, -1); r = ZSTD_compressStream2(c, &o, &in, ZSTD_e_end); judge("compressStream2-usingDict", ZSTD_isError(r), ZSTD_isError(r) ? r : 0, nf0, t);
                    if (!ZSTD_isError(r)) { check_rt("compressStream2-usingDict", g_scratch, o.pos, src, 4000, g_dict, g_dictSize); break; }
                    ZSTD_CCtx_reset(c, ZSTD_reset_session_only); } }
            mark("initDStream_usingDict");
            RETRY("initDStream_usingDict", r = ZSTD_initDStream_usingDict(d, g_dicts[7], g_dictSize), ZSTD_isError(r), ZSTD_isError(r) ? r : 0);
            op_dstream("dstream-usingDict", d, g_fr_dict, g_fr_dict_n, src, 4000, 500, 600);
        }
        mark("free"); beg("free", -1, -1); ZSTD_freeCCtx(c); ZSTD_freeDCtx(d); ZSTD_freeCDict(cd); ZSTD_freeDDict(dd); endc("");
    } else if (v == 2) {   /* ZSTD_createCDict_advanced2 with dedicated dictionary search, attached to a lazy-strategy compression */
        ZSTD_CCtx* c; ZSTD_CDict* cd = NULL; ZSTD_CCtx_params* p; const char* src = g_src + 100000 + 7 * 600; int sg = g_armed;
        g_armed = 0; p = ZSTD_createCCtxParams(); g_armed = sg;
        ZSTD_CCtxParams_init(p, 6); ZSTD_CCtxParams_setParameter(p, ZSTD_c_enableDedicatedDictSearch, 1);
        mark("createCDict"); RETRY("createCDict_advanced2", cd = ZSTD_createCDict_advanced2(g_dict, g_dictSize, ZSTD_dlm_byCopy, ZSTD_dct_auto, p, g_cmem), cd == NULL, 0);
        mark("create"); c = mk_cctx();
        if (c && cd) { setp(c, ZSTD_c_compressionLevel, 6); ZSTD_CCtx_refCDict(c, cd);
            mark("compress"); op_compress2("compress2-dds", c, src, 6000, g_dict, g_dictSize);
            mark("compress-big"); op_compress2("compress2-dds-big", c, g_src + 100000, 400000, g_dict, g_dictSize); }
        mark("free"); fr_cctx(c); fr_cdict(cd); g_armed = 0; ZSTD_freeCCtxParams(p); g_armed = sg;
    } else {               /* sequence API: ZSTD_generateSequences (scratch buffer through the default allocator), ZSTD_compressSequences */
        ZSTD_CCtx* c; size_t const sn = 50000; size_t const cap = ZSTD_sequenceBound(sn); size_t ns = 0; int sg = g_armed;
        ZSTD_Sequence* seqs; g_armed = 0; seqs = (ZSTD_Sequence*)__real_malloc(cap * sizeof(ZSTD_Sequence)); g_armed = sg;
        mark("create"); c = mk_cctx(); if (!c) { __real_free(seqs); return; }
        setp(c, ZSTD_c_compressionLevel, 3);
        mark("generate");
        {   int t; for (t = 0; t < MAXTRY; t++) { int nf0 = g_nfailed; beg("generateSequences", -1, -1); r = ZSTD_generateSequences(c, seqs, cap, g_src, sn);
                judge("generateSequences", ZSTD_isError(r), ZSTD_isError(r) ? r : 0, nf0, t); if (!ZSTD_isError(r)) { ns = r; break; } ZSTD_CCtx_reset(c, ZSTD_reset_session_only); }
            if (t == MAXTRY) violation("not-reusable-after-reset", "generateSequences"); }
        if (ns) {
            ZSTD_CCtx_reset(c, ZSTD_reset_session_and_parameters);
            setp(c, ZSTD_c_blockDelimiters, ZSTD_sf_explicitBlockDelimiters); setp(c, ZSTD_c_validateSequences, 1);
            mark("compressSequences");
            {   int t; for (t = 0; t < MAXTRY; t++) { int nf0 = g_nfailed; beg("compressSequences", -1, -1); r = ZSTD_compressSequences(c, g_scratch, g_scratchCap, seqs, ns, g_src, sn);
                    judge("compressSequences", ZSTD_isError(r), ZSTD_isError(r) ? r : 0, nf0, t);
                    if (!ZSTD_isError(r)) { check_rt("compressSequences", g_scratch, r, g_src, sn, NULL, 0); break; } ZSTD_CCtx_reset(c, ZSTD_reset_session_only); }
                if (t == MAXTRY) violation("not-reusable-after-reset", "compressSequences"); }
            mark("compress-after"); op_compress2("compress2-after-sequences", c, g_src + 9, 30000, NULL, 0);
        }
        mark("free"); fr_cctx(c); __real_free(seqs);
    }
}

/* dictionaries that are refused for their CONTENT (ZSTD_dct_fullDict on bytes that are no zstd dictionary): the constructors
   unwind through their free functions although no allocation failed; with every k on top.  Expected: NULL / error, nothing kept */
static void sc_dict_invalid(int v) {
    ZSTD_CCtx* c; ZSTD_DCtx* d; size_t r; int t; (void)v;
    ZSTD_compressionParameters cp = ZSTD_getCParams(3, 0, 5000);
    mark("cdict");
    for (t = 0; t < 2; t++) { ZSTD_CDict* cd; beg("createCDict_invalid", t, -1); cd = ZSTD_createCDict_advanced(g_src + 777, 5000, t ? ZSTD_dlm_byRef : ZSTD_dlm_byCopy, ZSTD_dct_fullDict, cp, g_cmem);
        endc(cd ? "ok" : "NULL"); if (cd) { violation("invalid-dictionary-accepted", "createCDict"); ZSTD_freeCDict(cd); } }
    mark("ddict");
    for (t = 0; t < 2; t++) { ZSTD_DDict* dd; beg("createDDict_invalid", t, -1); dd = ZSTD_createDDict_advanced(g_src + 777, 5000, t ? ZSTD_dlm_byRef : ZSTD_dlm_byCopy, ZSTD_dct_fullDict, g_cmem);
        endc(dd ? "ok" : "NULL"); if (dd) { violation("invalid-dictionary-accepted", "createDDict"); ZSTD_freeDDict(dd); } }
    mark("cctx"); c = mk_cctx();
    if (c) { int loaded; beg("loadDictionary_invalid", -1, -1); r = ZSTD_CCtx_loadDictionary_advanced(c, g_src + 777, 5000, ZSTD_dlm_byCopy, ZSTD_dct_fullDict); endc(ZSTD_isError(r) ? "E" : "ok");
        loaded = !ZSTD_isError(r);   /* the content is examined when the local CDict is built, i.e. by the compression */
        beg("compress_invalid", -1, -1); r = ZSTD_compress2(c, g_scratch, g_scratchCap, g_src, 20000); endc(ZSTD_isError(r) ? "E" : "ok");
        if (loaded && !ZSTD_isError(r)) violation("invalid-dictionary-accepted", "compress2");
        beg("CCtx_reset", -1, -1); ZSTD_CCtx_reset(c, ZSTD_reset_session_and_parameters); endc("ok");
        mark("compress-after"); op_compress2("compress2-after-invalid-dict", c, g_src, 20000, NULL, 0); }
    mark("dctx"); d = mk_dctx();
    if (d) { beg("DCtx_loadDictionary_invalid", -1, -1); r = ZSTD_DCtx_loadDictionary_advanced(d, g_src + 777, 5000, ZSTD_dlm_byCopy, ZSTD_dct_fullDict); endc(ZSTD_isError(r) ? "E" : "ok");
        if (!ZSTD_isError(r)) violation("invalid-dictionary-accepted", "DCtx_loadDictionary");
        mark("stream-after"); op_dstream("dstream-after-invalid-dict", d, g_fr_small, g_fr_small_n, g_src, 3000, 4096, 100000); }
    mark("free"); fr_cctx(c); fr_dctx(d);
}

/* multithreaded compression, more configurations: v 0 prefix (raw content, by reference) + 2 workers; 1 CDict + 2 workers;
   2 a thread pool shared through ZSTD_CCtx_refThreadPool; 3 LDM + 3 workers + streaming with flushes; 4 overlapLog 9 + 2 workers streaming
   (round buffer as large as it gets); 5 dictionary by reference + 1 worker + two frames; 6 shared pool of 2 threads, then 4 workers,
   then 1; 7 nbWorkers 2 -> 0 -> 3 -> 0 on one context */
static void sc_mt2(int v) {
    ZSTD_CCtx* c; ZSTD_CDict* cd = NULL; ZSTD_threadPool* tp = NULL; size_t const n = 1400000; int rep;
    mark("create"); c = mk_cctx(); if (!c) return;
    setp(c, ZSTD_c_compressionLevel, 1); setp(c, ZSTD_c_jobSize, 1 << 19);
    setp(c, ZSTD_c_nbWorkers, v == 3 ? 3 : (v == 5 ? 1 : 2));
    if (v == 1) { mark("createCDict"); cd = mk_cdict(0, 3); if (!cd) { fr_cctx(c); return; } { size_t r; beg("refCDict", -1, -1); r = ZSTD_CCtx_refCDict(c, cd); endc(ZSTD_isError(r) ? "E" : "ok"); } }
    if (v == 2 || v == 6) { mark("threadPool"); RETRY("createThreadPool", tp = ZSTD_createThreadPool(v == 6 ? 2 : 3), tp == NULL, 0);
                  if (tp) { size_t r; beg("refThreadPool", -1, -1); r = ZSTD_CCtx_refThreadPool(c, tp); endc(ZSTD_isError(r) ? "E" : "ok"); } }
    if (v == 3) { setp(c, ZSTD_c_enableLongDistanceMatching, 1); setp(c, ZSTD_c_windowLog, 20); setp(c, ZSTD_c_checksumFlag, 1); }
    if (v == 4) { setp(c, ZSTD_c_overlapLog, 9); setp(c, ZSTD_c_windowLog, 21); }
    if (v == 9) {   /* one LDM frame, then LDM switched off: the sequence pool must not keep handing out (and silently losing) buffers */
        mark("ldm"); setp(c, ZSTD_c_enableLongDistanceMatching, 1); setp(c, ZSTD_c_windowLog, 20); op_compress2("mt2-compress2-ldm", c, g_src, n, NULL, 0);
        mark("plain"); setp(c, ZSTD_c_enableLongDistanceMatching, 0); setp(c, ZSTD_c_nbWorkers, 4);   /* more workers: the pools are rebuilt empty, the buffer size is kept */
        op_compress2("mt2-compress2-plain", c, g_src + 1, n, NULL, 0);
        mark("plain-again"); op_compress2("mt2-compress2-plain2", c, g_src + 2, n, NULL, 0);
        mark("free"); fr_cctx(c); return; }
    if (v == 8) {   /* a streaming multithreaded compression that fails is abandoned: no reset, the context is freed with jobs possibly in flight */
        size_t ip = 0, r = 0; int nf0 = g_nfailed; size_t const total = 2300000;
        mark("compress-once"); beg("compress", -1, -1);
        while (ip < total) { ZSTD_inBuffer in = { g_src + ip, 400000 < total - ip ? 400000 : total - ip, 0 }; ZSTD_outBuffer o = { g_scratch, g_scratchCap, 0 };
            r = ZSTD_compressStream2(c, &o, &in, ZSTD_e_continue); if (ZSTD_isError(r)) break; ip += in.pos; }
        while (!ZSTD_isError(r)) { ZSTD_inBuffer in = { NULL, 0, 0 }; ZSTD_outBuffer o = { g_scratch, g_scratchCap, 0 };   /* a worker-side failure surfaces here at the latest */
            r = ZSTD_compressStream2(c, &o, &in, ZSTD_e_end); if (r == 0) break; }
        judge("mt2-cstream-once", ZSTD_isError(r), ZSTD_isError(r) ? r : 0, nf0, 0);
        mark("free"); fr_cctx(c); return; }
    for (rep = 0; rep < 2; rep++) {
        mark(rep ? "again" : "compress");
        if (v == 0) { size_t r; beg("refPrefix", -1, -1); r = ZSTD_CCtx_refPrefix(c, g_src + 2000000, 300000); endc(ZSTD_isError(r) ? "E" : "ok"); }
        if (v == 5 && rep == 0) { int nf0 = g_nfailed; size_t r = do_load_dict(c, 1, g_dict); judge("loadDictionary", ZSTD_isError(r), ZSTD_isError(r) ? r : 0, nf0, 0); }
        if (v == 0) {   /* the prefix is single-use: no retry of the same call */
            int nf0 = g_nfailed; size_t r; beg("compress", -1, -1); r = ZSTD_compress2(c, g_scratch, g_scratchCap, g_src + rep, n);
            judge("mt-compress2-prefix", ZSTD_isError(r), ZSTD_isError(r) ? r : 0, nf0, 0);
            if (!ZSTD_isError(r)) check_rt("mt-compress2-prefix", g_scratch, r, g_src + rep, n, g_src + 2000000, 300000);
            else { beg("CCtx_reset", -1, -1); ZSTD_CCtx_reset(c, ZSTD_reset_session_only); endc("ok"); }
        } else if (v == 3 || v == 4) op_cstream("mt2-cstream", c, g_src + rep, v == 3 ? 2300000 : n, 180000, 90000, 2);
        else op_compress2("mt2-compress2", c, g_src + rep, n, (v == 1 || v == 5) ? g_dict : NULL, (v == 1 || v == 5) ? g_dictSize : 0);
    }
    if (v == 6) {   /* more workers than the shared pool has threads: ZSTDMT_resize grows the caller's pool and every table */
        mark("grow"); setp(c, ZSTD_c_nbWorkers, 4); op_compress2("mt2-compress2-4", c, g_src + 5, n, NULL, 0);
        mark("shrink"); setp(c, ZSTD_c_nbWorkers, 1); op_compress2("mt2-compress2-1", c, g_src + 6, 600000, NULL, 0); }
    if (v == 7) {   /* one context switching between multithreaded and single-threaded compression */
        mark("st"); setp(c, ZSTD_c_nbWorkers, 0); op_compress2("mt2-compress2-st", c, g_src + 5, 300000, NULL, 0);
        mark("mt-again"); setp(c, ZSTD_c_nbWorkers, 3); op_compress2("mt2-compress2-mt3", c, g_src + 6, n, NULL, 0);
        mark("st-again"); setp(c, ZSTD_c_nbWorkers, 0); op_cstream("mt2-cstream-st", c, g_src + 7, 200000, 50000, 30000, 0); }
    mark("free"); fr_cctx(c); if (cd) fr_cdict(cd);
    if (tp) { beg("freeThreadPool", -1, -1); ZSTD_freeThreadPool(tp); endc(""); }
}

/* random histories on one CCtx and one DCtx (sequence drawn from C13_RSEED and the variant; the same sequence for every k of
   a sweep): parameters (level, nbWorkers 0..3, LDM, windowLog, checksum), dictionary by copy / by reference / prefix / none,
   one-shot or streaming compression of various sizes, parameter resets, streaming decompression of the frame just produced with
   random chunking.  Every operation is judged and retried like in the fixed scenarios. */
static unsigned rs_next(unsigned* st) { *st = *st * 1664525u + 1013904223u; return (*st >> 10) & 0xFFFFF; }
static void sc_rand(int v) {
    unsigned st = (unsigned)(getenv("C13_RSEED") ? atoi(getenv("C13_RSEED")) : 1) * 7919u + (unsigned)v * 104729u + 17u;
    ZSTD_CCtx* c; ZSTD_DCtx* d; int step; static char* fr; static size_t frcap; size_t frn = 0; const char* frsrc = NULL; size_t frsz = 0;
    const char* dict = NULL; size_t dictSize = 0; int dictIsPrefix = 0; const char* fdict = NULL; size_t fdictSize = 0;
    int workers = 0, level = 3;
    if (!fr) { frcap = ZSTD_compressBound(1600000) + 64; fr = (char*)__real_malloc(frcap); }
    mark("create"); c = mk_cctx(); if (!c) return; d = mk_dctx(); if (!d) { fr_cctx(c); return; }
    for (step = 0; step < 14; step++) {
        unsigned const r = rs_next(&st) % 10;
        if (r == 0) { static const int lv[] = { 1, 3, 5, 9, 16 }; level = lv[rs_next(&st) % 5]; mark("level"); setp(c, ZSTD_c_compressionLevel, level); }
        else if (r == 1) { static const int nw[] = { 0, 1, 1, 2, 3 }; workers = nw[rs_next(&st) % 5]; mark("workers"); setp(c, ZSTD_c_nbWorkers, workers); if (workers) setp(c, ZSTD_c_jobSize, 1 << 19); }
        else if (r == 2) { static const int wl[] = { 0, 18, 21 }; mark("ldm-window"); setp(c, ZSTD_c_enableLongDistanceMatching, (int)(rs_next(&st) & 1) ? 1 : 0); setp(c, ZSTD_c_windowLog, wl[rs_next(&st) % 3]); setp(c, ZSTD_c_checksumFlag, (int)(rs_next(&st) & 1)); }
        else if (r == 3) {   /* dictionary */
            unsigned const k = rs_next(&st) % 4; int t; mark("dict");
            if (k == 3) { size_t rr; beg("loadDictionary", 0, -1); rr = ZSTD_CCtx_loadDictionary(c, NULL, 0); endc(ZSTD_isError(rr) ? "E" : "ok"); dict = NULL; dictSize = 0; dictIsPrefix = 0; }
            else if (k == 2) { dict = g_src + 2000000 + (rs_next(&st) % 1000); dictSize = 100000; dictIsPrefix = 1; }   /* referenced before each compression */
            else { for (t = 0; t < MAXTRY; t++) { int nf0 = g_nfailed; size_t rr = do_load_dict(c, (int)k, g_dict);
                       judge("loadDictionary", ZSTD_isError(rr), ZSTD_isError(rr) ? rr : 0, nf0, t); if (!ZSTD_isError(rr)) break; }
                   dict = g_dict; dictSize = g_dictSize; dictIsPrefix = 0; }
        }
        else if (r == 4) { size_t rr; level = 3; mark("reset-params"); beg("CCtx_reset", -1, -1); rr = ZSTD_CCtx_reset(c, ZSTD_reset_session_and_parameters); endc(ZSTD_isError(rr) ? "E" : "ok"); dict = NULL; dictSize = 0; dictIsPrefix = 0; workers = 0; }
        else if (r <= 7) {   /* compression */
            static const size_t szs[] = { 1000, 30000, 200000, 700000, 1500000 }; size_t n = szs[rs_next(&st) % 5]; const char* src = g_src + (rs_next(&st) % 1000) * 100; int t;
            if (src + n > g_src + 2000000) n = 200000;
            if (level >= 9 && n > 200000) n = 200000;   /* keeps a sweep of the slow strategies short */
            mark("compress");
            for (t = 0; t < MAXTRY; t++) {
                int nf0 = g_nfailed; size_t rr;
                if (dictIsPrefix) { beg("refPrefix", -1, -1); rr = ZSTD_CCtx_refPrefix(c, dict, dictSize); endc(ZSTD_isError(rr) ? "E" : "ok"); }
                beg("compress", -1, -1);
                if (r == 7) { ZSTD_inBuffer in = { src, n, 0 }; ZSTD_outBuffer o = { fr, frcap, 0 }; size_t const chunk = 1 + rs_next(&st) % 300000;
                    rr = 0; while (in.pos < n && !ZSTD_isError(rr)) { ZSTD_inBuffer i2 = { src, in.pos + chunk < n ? in.pos + chunk : n, in.pos }; rr = ZSTD_compressStream2(c, &o, &i2, ZSTD_e_continue); in.pos = i2.pos; }
                    while (!ZSTD_isError(rr)) { ZSTD_inBuffer i0 = { NULL, 0, 0 }; rr = ZSTD_compressStream2(c, &o, &i0, ZSTD_e_end); if (rr == 0) { rr = o.pos; break; } } }
                else rr = ZSTD_compress2(c, fr, frcap, src, n);
                judge("rand-compress", ZSTD_isError(rr), ZSTD_isError(rr) ? rr : 0, nf0, t);
                if (!ZSTD_isError(rr)) { frn = rr; frsrc = src; frsz = n; fdict = dict; fdictSize = dictSize; check_rt("rand-compress", fr, frn, src, n, dict, dictSize); break; }
                { size_t r2; beg("CCtx_reset", -1, -1); r2 = ZSTD_CCtx_reset(c, ZSTD_reset_session_only); endc(ZSTD_isError(r2) ? "E" : "ok"); }
            }
            if (t == MAXTRY) violation("not-reusable-after-reset", "rand-compress");
        }
        else if (frn) {      /* streaming decompression of the last frame */
            size_t const ic = 1 + rs_next(&st) % 70000, oc = 1 + rs_next(&st) % 200000; int t;
            mark("decompress");
            if (fdict) { for (t = 0; t < MAXTRY; t++) { int nf0 = g_nfailed; size_t rr; beg("DCtx_loadDictionary", 1, -1);
                    rr = (fdict == g_dict) ? ZSTD_DCtx_loadDictionary(d, fdict, fdictSize) : ZSTD_DCtx_loadDictionary_advanced(d, fdict, fdictSize, ZSTD_dlm_byRef, ZSTD_dct_rawContent);
                    judge("DCtx_loadDictionary", ZSTD_isError(rr), ZSTD_isError(rr) ? rr : 0, nf0, t); if (!ZSTD_isError(rr)) break; } }
            else { size_t rr; beg("DCtx_loadDictionary", 0, -1); rr = ZSTD_DCtx_loadDictionary(d, NULL, 0); endc(ZSTD_isError(rr) ? "E" : "ok"); }
            { size_t rr = ZSTD_DCtx_setParameter(d, ZSTD_d_windowLogMax, 27); (void)rr; }
            op_dstream("rand-dstream", d, fr, frn, frsrc, frsz, ic, oc);
        }
    }
    mark("free"); fr_cctx(c); fr_dctx(d);
}

/* thread-resource failures: the same scenarios with pthread_create / pthread_mutex_init / pthread_cond_init taking part in the
   fault numbering (a refused thread or mutex must give NULL / memory_allocation, release everything, and leave the context usable) */
static void sc_thr(int v) {
    g_thr = 1;
    switch (v) {
    case 0: sc_pool(7); break;
    case 1: sc_mtctx(1); break;
    case 2: sc_mtresize(0); break;
    case 3: sc_mt(0); break;
    case 4: sc_mt(5); break;
    case 5: sc_mt2(2); break;
    case 6: sc_train(4); break;
    default: sc_train(5); break;
    }
    g_thr = 0;
}

/* contrib/seekable_format: plain malloc / realloc / free.  v 0: 40 frames of 1000 bytes with checksums (the frame log grows
   16 -> 32 -> 64 entries by realloc), then the archive is read back through ZSTD_seekable (create, initBuff = seek table
   allocation, reads, ZSTD_seekTable_create_fromSeekable);  a failed call is simply made again (there is no reset in this API) */
static void sc_seekable(int v) {
    ZSTD_seekable_CStream* zcs = NULL; ZSTD_seekable* zs = NULL; ZSTD_seekTable* st = NULL; size_t r = 0; size_t const n = 40000; size_t alen = 0;
    static char out[40000]; int tries; (void)v;
    mark("createCStream"); RETRY("seekable_createCStream", zcs = ZSTD_seekable_createCStream(), zcs == NULL, 0);
    if (!zcs) return;
    mark("initCStream"); RETRY("seekable_initCStream", r = ZSTD_seekable_initCStream(zcs, 3, 1, 1000), ZSTD_isError(r), ZSTD_isError(r) ? r : 0);
    mark("compress");
    {   ZSTD_inBuffer in = { g_src, n, 0 }; ZSTD_outBuffer o = { g_scratch, g_scratchCap, 0 }; int bad = 0;
        tries = 0;
        while (in.pos < in.size) { int nf0 = g_nfailed; size_t const before = in.pos; beg("seekable_compressStream", -1, -1); r = ZSTD_seekable_compressStream(zcs, &o, &in);
            if (ZSTD_isError(r)) { judge("seekable_compressStream", 1, r, nf0, tries); if (++tries > g_nfault + 2) { violation("keeps-failing", "seekable_compressStream"); bad = 1; break; } }
            else { endc("ok"); if (g_nfailed != nf0) { g_succ_despite_fail++; oplog("seekable_compressStream", "note-success-despite-alloc-failure"); }
                   if (in.pos == before && ++tries > 100) { violation("no-progress", "seekable_compressStream"); bad = 1; break; } } }
        tries = 0;
        while (!bad) { int nf0 = g_nfailed; beg("seekable_endStream", -1, -1); r = ZSTD_seekable_endStream(zcs, &o);
            if (ZSTD_isError(r)) { judge("seekable_endStream", 1, r, nf0, tries); if (++tries > g_nfault + 2) { violation("keeps-failing", "seekable_endStream"); bad = 1; } }
            else { endc("ok"); if (g_nfailed != nf0) { g_succ_despite_fail++; oplog("seekable_endStream", "note-success-despite-alloc-failure"); } if (r == 0) break; if (++tries > 100) { violation("no-progress", "seekable_endStream"); bad = 1; } } }
        alen = o.pos;
        mark("freeCStream"); beg("seekable_freeCStream", -1, -1); ZSTD_seekable_freeCStream(zcs); endc("");
        if (bad) return;
    }
    {   /* independent check of the archive: every byte through a seekable reader that is not part of the case, and as a plain multi-frame stream */
        int sg = g_armed; g_armed = 0;
        {   ZSTD_seekable* chk = ZSTD_seekable_create(); size_t ir = ZSTD_seekable_initBuff(chk, g_scratch, alen);
            if (ZSTD_isError(ir)) violation("archive-not-openable", "seekable");
            else { size_t got = ZSTD_seekable_decompress(chk, out, n, 0); if (got != n || memcmp(out, g_src, n)) violation("archive-round-trip-mismatch", "seekable");
                   { unsigned const nfr = ZSTD_seekable_getNumFrames(chk); if (nfr != 40 && nfr != 41) violation("archive-frame-count", "seekable"); } }
            ZSTD_seekable_free(chk); }
        g_armed = sg; }
    mark("create"); RETRY("seekable_create", zs = ZSTD_seekable_create(), zs == NULL, 0);
    if (!zs) return;
    mark("initBuff"); RETRY("seekable_initBuff", r = ZSTD_seekable_initBuff(zs, g_scratch, alen), ZSTD_isError(r), ZSTD_isError(r) ? r : 0);
    if (!ZSTD_isError(r)) {
        mark("read"); RETRY("seekable_decompress", r = ZSTD_seekable_decompress(zs, out, 5000, 12345), ZSTD_isError(r), ZSTD_isError(r) ? r : 0);
        if (!ZSTD_isError(r) && (r != 5000 || memcmp(out, g_src + 12345, 5000))) violation("decoded-output-mismatch", "seekable_decompress");
        RETRY("seekable_decompress2", r = ZSTD_seekable_decompress(zs, out, 700, 100), ZSTD_isError(r), ZSTD_isError(r) ? r : 0);
        if (!ZSTD_isError(r) && (r != 700 || memcmp(out, g_src + 100, 700))) violation("decoded-output-mismatch", "seekable_decompress2");
        mark("seekTable"); RETRY("seekTable_create", st = ZSTD_seekTable_create_fromSeekable(zs), st == NULL, 0);
        if (st) { if (ZSTD_seekTable_getNumFrames(st) != ZSTD_seekable_getNumFrames(zs)) violation("seek-table-copy-wrong", "seekTable_create"); }
        if (v == 1) {   /* the same object opened again: the first seek table belongs to the object and must not be lost */
            mark("reinit"); RETRY("seekable_initBuff2", r = ZSTD_seekable_initBuff(zs, g_scratch, alen), ZSTD_isError(r), ZSTD_isError(r) ? r : 0);
            RETRY("seekable_decompress3", r = ZSTD_seekable_decompress(zs, out, 900, 39000), ZSTD_isError(r), ZSTD_isError(r) ? r : 0);
            if (!ZSTD_isError(r) && (r != 900 || memcmp(out, g_src + 39000, 900))) violation("decoded-output-mismatch", "seekable_decompress3");
        }
    }
    mark("free"); beg("seekable_free", -1, -1); ZSTD_seekable_free(zs); ZSTD_seekTable_free(st); endc("");
}


/* ------------------------------------------------------------------ round 3: second doors */

/* v0.4 frames (library built with ZSTD_LEGACY_SUPPORT <= 4; scenarios "leg4_*" are run with that build only):
   v 0: one v0.4 frame streamed twice, then a larger window;  1: v0.4, v0.5, v0.4, v0.7, v0.4 (version switches);  2: one-shot */
static void sc_legacy4(int v) {
    static unsigned char fr[4][4200]; static size_t fl[4]; static unsigned char frbig[4200]; size_t flbig; static char expect[4000]; static char out[8192];
    ZSTD_DCtx* d; size_t const n = 3000; int i;
    for (i = 0; i < 4; i++) fl[i] = make_legacy(fr[i], 4 + (unsigned)i, 17, n);
    flbig = make_legacy(frbig, 4, 19, n);
    for (i = 0; i < (int)n; i++) expect[i] = (char)('a' + i % 26);
    mark("create"); d = mk_dctx(); if (!d) return;
    if (v == 0) {
        mark("v04"); op_dstream("dstream-v04", d, fr[0], fl[0], expect, n, 700, 900);
        mark("v04-again"); op_dstream("dstream-v04b", d, fr[0], fl[0], expect, n, 5000, 5000);
        mark("v04-big"); op_dstream("dstream-v04c", d, frbig, flbig, expect, n, 100, 300);
        mark("v04-small"); op_dstream("dstream-v04d", d, fr[0], fl[0], expect, n, 333, 100);
    } else if (v == 1) {
        mark("v04"); op_dstream("dstream-v04", d, fr[0], fl[0], expect, n, 700, 900);
        mark("v05"); op_dstream("dstream-v05", d, fr[1], fl[1], expect, n, 5000, 5000);
        mark("v04-again"); op_dstream("dstream-v04b", d, fr[0], fl[0], expect, n, 100, 300);
        mark("v07"); op_dstream("dstream-v07", d, fr[3], fl[3], expect, n, 333, 100);
        mark("v04-big"); op_dstream("dstream-v04c", d, frbig, flbig, expect, n, 5000, 5000);
    } else {
        int t;
        for (t = 0; t < MAXTRY; t++) { int nf0 = g_nfailed; size_t r; beg("decompressDCtx", -1, -1); r = ZSTD_decompressDCtx(d, out, sizeof out, fr[0], fl[0]);
            judge("decompressDCtx-v04", ZSTD_isError(r), ZSTD_isError(r) ? r : 0, nf0, t);
            if (!ZSTD_isError(r)) { if (r != n || memcmp(out, expect, n)) violation("decoded-output-mismatch", "decompressDCtx-v04"); break; } }
        if (t == MAXTRY) violation("not-reusable-after-reset", "decompressDCtx-v04");
    }
    mark("free"); fr_dctx(d);
}

/* ZSTD_DCtx_refDDict whose hash-set allocation fails: the call reports memory_allocation, so it must not have taken effect.
   v 0: first reference (set creation fails);  1: the 17th reference (expansion fails).  The caller releases the DDict the failed
   call was given (it was told the reference failed) and decodes a frame that names that dictionary: dictionary_wrong (or any
   clean error) is the only acceptable outcome; success means the DCtx still uses the released DDict */
static void sc_refddict_fail(int v) {
    ZSTD_DCtx* d; ZSTD_DDict* dds[NDD]; int i, nd = (v & 1) ? 17 : 1; static char out[8192]; int refused = 0; size_t r; int const freeFirst = v & 2;
    memset(dds, 0, sizeof dds);
    mark("create"); d = mk_dctx(); if (!d) return;
    { size_t rr = ZSTD_DCtx_setParameter(d, ZSTD_d_refMultipleDDicts, ZSTD_rmd_refMultipleDDicts); if (ZSTD_isError(rr)) violation("setParameter-error", "refMultipleDDicts"); }
    mark("ddicts");
    /* the dictionary of g_fr_dict (g_dicts[7]) is the LAST one referenced */
    for (i = 0; i < nd; i++) { dds[i] = mk_ddict(g_dicts[i == nd - 1 ? 7 : (i == 7 ? nd - 1 : i)], 0, i); if (!dds[i]) goto out; }
    mark("ref");
    for (i = 0; i < nd; i++) { int nf0 = g_nfailed; beg("refDDict", i, -1); r = ZSTD_DCtx_refDDict(d, dds[i]);
        judge("refDDict", ZSTD_isError(r), ZSTD_isError(r) ? r : 0, nf0, 0);
        if (ZSTD_isError(r)) { probe_dctx(d); if (i == nd - 1) refused = 1; if (freeFirst) { fr_ddict(dds[i], i); dds[i] = NULL; } } }
    mark("decompress");
    { beg("decompressDCtx", -1, -1); r = ZSTD_decompressDCtx(d, out, sizeof out, g_fr_dict, g_fr_dict_n); endc(ZSTD_isError(r) ? ename(r) : "ok");
      if (refused && !ZSTD_isError(r)) violation("failed-refDDict-took-effect", "decompressDCtx");
      if (!refused && (ZSTD_isError(r) || r != 4000 || memcmp(out, g_src + 100000 + 7 * 600, 4000))) violation("decoded-output-mismatch", "decompressDCtx"); }
out:
    mark("free"); fr_dctx(d); for (i = 0; i < nd; i++) if (dds[i]) fr_ddict(dds[i], i);
}

/* ZSTD_DCtx_reset(parameters) releases the multi-DDict set (b70602d); the set is created again by the next reference */
static void sc_dctx_reset_multi(int v) {
    ZSTD_DCtx* d; ZSTD_DDict* dds[NDD]; int i, rep, nd = 20; static char out[8192]; (void)v;
    memset(dds, 0, sizeof dds);
    mark("create"); d = mk_dctx(); if (!d) return;
    mark("ddicts");
    for (i = 0; i < nd; i++) { dds[i] = mk_ddict(g_dicts[i], i & 1, i); if (!dds[i]) goto out; }
    for (rep = 0; rep < 2; rep++) {
        { size_t rr = ZSTD_DCtx_setParameter(d, ZSTD_d_refMultipleDDicts, ZSTD_rmd_refMultipleDDicts); if (ZSTD_isError(rr)) violation("setParameter-error", "refMultipleDDicts"); }
        mark("ref");
        for (i = 0; i < nd; i++) { int t;
            for (t = 0; t < MAXTRY; t++) { int nf0 = g_nfailed; size_t r; beg("refDDict", i, -1); r = ZSTD_DCtx_refDDict(d, dds[i]);
                judge("refDDict", ZSTD_isError(r), ZSTD_isError(r) ? r : 0, nf0, t); if (!ZSTD_isError(r)) break; probe_dctx(d); }
            if (t == MAXTRY) violation("not-reusable-after-reset", "refDDict"); }
        mark("decompress");
        { int nf0 = g_nfailed; size_t r; beg("decompressDCtx", -1, -1); r = ZSTD_decompressDCtx(d, out, sizeof out, g_fr_dict, g_fr_dict_n); judge("decompressDCtx-multi", ZSTD_isError(r), ZSTD_isError(r) ? r : 0, nf0, 0);
          if (!ZSTD_isError(r) && (r != 4000 || memcmp(out, g_src + 100000 + 7 * 600, r))) violation("decoded-output-mismatch", "decompressDCtx-multi"); }
        mark("reset-params"); { size_t rr; beg("DCtx_reset_params", -1, -1); rr = ZSTD_DCtx_reset(d, ZSTD_reset_session_and_parameters); endc(ZSTD_isError(rr) ? "E" : "ok"); }
        { int nf0 = g_nfailed; size_t r; beg("decompressDCtx", -1, -1); r = ZSTD_decompressDCtx(d, out, sizeof out, g_fr_small, g_fr_small_n);
          judge("decompressDCtx-plain", ZSTD_isError(r), ZSTD_isError(r) ? r : 0, nf0, 0); }
    }
out:
    mark("free"); fr_dctx(d); for (i = 0; i < nd; i++) if (dds[i]) fr_ddict(dds[i], i);
}

/* ZSTD_CCtx_refThreadPool after a multithreaded frame: the multithreaded context is dropped and rebuilt around the new pool at the
   next frame (7b3a25e).  v 0: own pool -> shared pool -> own pool;  1: shared pool A -> shared pool B (more threads) -> NULL, streaming */
static void sc_mt3_refpool(int v) {
    ZSTD_CCtx* c; ZSTD_threadPool *tp = NULL, *tp2 = NULL; size_t const n = 1400000; size_t r;
    mark("create"); c = mk_cctx(); if (!c) return;
    setp(c, ZSTD_c_compressionLevel, 1); setp(c, ZSTD_c_jobSize, 1 << 19); setp(c, ZSTD_c_nbWorkers, 2);
    if (v == 1) { mark("threadPoolA"); RETRY("createThreadPool", tp2 = ZSTD_createThreadPool(1), tp2 == NULL, 0);
                  if (tp2) { beg("refThreadPool", -1, -1); r = ZSTD_CCtx_refThreadPool(c, tp2); endc(ZSTD_isError(r) ? "E" : "ok"); } }
    mark("compress"); if (v == 1) op_cstream("mt3-cstream", c, g_src, n, 200000, 150000, 3); else op_compress2("mt3-compress2", c, g_src, n, NULL, 0);
    mark("threadPool"); RETRY("createThreadPool", tp = ZSTD_createThreadPool(3), tp == NULL, 0);
    if (tp) { beg("refThreadPool", -1, -1); r = ZSTD_CCtx_refThreadPool(c, tp); endc(ZSTD_isError(r) ? "E" : "ok"); if (ZSTD_isError(r)) violation("refThreadPool-error", "refThreadPool"); }
    probe_cctx(c);
    mark("compress-shared"); if (v == 1) op_cstream("mt3-cstream-shared", c, g_src + 1, n, 200000, 150000, 3); else op_compress2("mt3-compress2-shared", c, g_src + 1, n, NULL, 0);
    mark("unref"); { beg("refThreadPool", -1, -1); r = ZSTD_CCtx_refThreadPool(c, NULL); endc(ZSTD_isError(r) ? "E" : "ok"); if (ZSTD_isError(r)) violation("refThreadPool-error", "refThreadPool"); }
    if (tp) { beg("freeThreadPool", -1, -1); ZSTD_freeThreadPool(tp); endc(""); tp = NULL; }
    probe_cctx(c);
    mark("compress-own"); setp(c, ZSTD_c_nbWorkers, 3); op_compress2("mt3-compress2-own", c, g_src + 2, n, NULL, 0);
    mark("free"); fr_cctx(c);
    if (tp2) { beg("freeThreadPool", -1, -1); ZSTD_freeThreadPool(tp2); endc(""); }
}

/* ZSTD_copyCCtx into destinations with a history: v 0: the destination compressed multithreaded frames before (it owns a
   ZSTDMT_CCtx and still requests nbWorkers = 2) and a local dictionary; 1: source prepared with a dictionary at level 19 (large
   tables), destination used before with a tiny workspace; after a failed copy the destination runs a different operation, then the
   copy again; 2: the source is copied twice into the same destination, the second copy after a frame */
static void sc_copy_cctx2(int v) {
    ZSTD_CCtx *a, *b; size_t r; int t; size_t const n = 60000;
    mark("create"); a = mk_cctx(); if (!a) return; b = mk_cctx(); if (!b) { fr_cctx(a); return; }
    if (v == 0) {
        mark("dst-history"); setp(b, ZSTD_c_nbWorkers, 2); setp(b, ZSTD_c_jobSize, 1 << 19); setp(b, ZSTD_c_compressionLevel, 1);
        { int nf0 = g_nfailed; r = do_load_dict(b, 0, g_dict); judge("loadDictionary", ZSTD_isError(r), ZSTD_isError(r) ? r : 0, nf0, 0); }
        op_compress2("dst-mt-compress2", b, g_src, 1400000, g_dict, g_dictSize);
    } else {
        mark("dst-history"); setp(b, ZSTD_c_compressionLevel, 1); op_compress2("dst-compress2-tiny", b, g_src, 500, NULL, 0);
    }
    for (t = 0; t < 2; t++) {
        int tt;
        mark("begin");
        for (tt = 0; tt < MAXTRY; tt++) { int nf0 = g_nfailed; beg("compressBegin", -1, -1);
            r = (v == 1) ? ZSTD_compressBegin_usingDict(a, g_dict, g_dictSize, 19) : ZSTD_compressBegin_usingDict(a, g_dict, g_dictSize, 5);
            judge("compressBegin", ZSTD_isError(r), ZSTD_isError(r) ? r : 0, nf0, tt); if (!ZSTD_isError(r)) break; }
        if (tt == MAXTRY) { violation("not-reusable-after-reset", "compressBegin"); break; }
        mark("copy");
        {   int nf0 = g_nfailed; beg("copyCCtx", -1, -1); r = ZSTD_copyCCtx(b, a, n); judge("copyCCtx", ZSTD_isError(r), ZSTD_isError(r) ? r : 0, nf0, 0);
            if (ZSTD_isError(r)) {   /* a different operation on the destination, then the copy again */
                probe_cctx(b);
                { beg("CCtx_reset", -1, -1); ZSTD_CCtx_reset(b, ZSTD_reset_session_only); endc("ok"); }
                mark("dst-other"); op_compress2("dst-compress2-after-failed-copy", b, g_src + 7, 30000, v == 0 ? g_dict : NULL, v == 0 ? g_dictSize : 0);
                mark("copy-again"); nf0 = g_nfailed; beg("copyCCtx", -1, -1); r = ZSTD_copyCCtx(b, a, n); judge("copyCCtx", ZSTD_isError(r), ZSTD_isError(r) ? r : 0, nf0, 1);
            }
            if (!ZSTD_isError(r)) {
                size_t cs = ZSTD_compressEnd(b, g_scratch, g_scratchCap, g_src + 100000 + 7 * 600, n);
                if (ZSTD_isError(cs)) violation("compressEnd-error", "copyCCtx"); else check_rt("copyCCtx", g_scratch, cs, g_src + 100000 + 7 * 600, n, g_dict, g_dictSize);
            } }
        { size_t cs = ZSTD_compressEnd(a, g_scratch, g_scratchCap, g_src + 100000, 1000); (void)cs; }   /* the source finishes its own frame */
        if (v != 2) break;
        mark("dst-frame"); op_compress2("dst-compress2-between", b, g_src + 9, 200000, NULL, 0);
    }
    if (v == 0) { mark("dst-mt-again"); op_compress2("dst-mt-compress2-again", b, g_src + 3, 1400000, g_dict, g_dictSize); }
    mark("free"); fr_cctx(a); fr_cctx(b);
}

/* trainers, more configurations: v 0 cover optimiser over d (6, 8) and k with 1 thread; 1 the same with 3 threads; 2 fastcover
   optimiser over d with 3 threads, f = 10; 3 cover optimiser, splitPoint 1.0; 4 legacy trainer with few small samples;
   5 ZDICT_trainFromBuffer_cover with a tiny dictionary capacity;  6 finalizeDictionary with a content smaller than the minimum */
static void sc_train2(int v) {
    static char dict[1 << 14]; size_t const cap = sizeof dict; int t, i; size_t r = 0;
    const char* samples = g_src + 400000;
    static const char* names[] = { "optimize_cover_d_k", "optimize_cover_d_k_mt3", "optimize_fastcover_d_mt3", "optimize_cover_split1", "train_legacy_small", "train_cover_tiny", "finalize_small" };
    for (i = 0; i < NSAMP; i++) g_ssz[i] = SSAMP;
    mark("train");
    for (t = 0; t < MAXTRY; t++) {
        int nf0 = g_nfailed;
        beg(names[v], -1, -1);
        switch (v) {
        case 0: { ZDICT_cover_params_t p; memset(&p, 0, sizeof p); p.steps = 2; p.nbThreads = 1; p.zParams.compressionLevel = 1; r = ZDICT_optimizeTrainFromBuffer_cover(dict, 2048, samples, g_ssz, 60, &p); break; }
        case 1: { ZDICT_cover_params_t p; memset(&p, 0, sizeof p); p.steps = 2; p.nbThreads = 3; p.zParams.compressionLevel = 1; r = ZDICT_optimizeTrainFromBuffer_cover(dict, 2048, samples, g_ssz, 60, &p); break; }
        case 2: { ZDICT_fastCover_params_t p; memset(&p, 0, sizeof p); p.steps = 2; p.f = 10; p.accel = 3; p.nbThreads = 3; p.zParams.compressionLevel = 1; r = ZDICT_optimizeTrainFromBuffer_fastCover(dict, 2048, samples, g_ssz, 60, &p); break; }
        case 3: { ZDICT_cover_params_t p; memset(&p, 0, sizeof p); p.d = 6; p.steps = 2; p.nbThreads = 2; p.splitPoint = 1.0; p.zParams.compressionLevel = 1; r = ZDICT_optimizeTrainFromBuffer_cover(dict, 2048, samples, g_ssz, 60, &p); break; }
        case 4: { ZDICT_legacy_params_t p; memset(&p, 0, sizeof p); p.selectivityLevel = 3; p.zParams.notificationLevel = 0; r = ZDICT_trainFromBuffer_legacy(dict, 2048, samples, g_ssz, 40, p); break; }
        case 5: { ZDICT_cover_params_t p; memset(&p, 0, sizeof p); p.k = 64; p.d = 6; p.zParams.compressionLevel = 1; r = ZDICT_trainFromBuffer_cover(dict, 512, samples, g_ssz, 60, p); break; }
        default: { ZDICT_params_t p; memset(&p, 0, sizeof p); p.compressionLevel = 1; r = ZDICT_finalizeDictionary(dict, 1024, g_src + 600000, 200, samples, g_ssz, 60, p); break; }
        }
        {   int const failed = ZDICT_isError(r); int const newfail = g_nfailed - nf0;
            endc(failed ? ename(r) : "ok");
            if (failed) { oplog(names[v], ename(r)); if (newfail == 0) violation(t ? "error-after-retry-without-alloc-failure" : "error-without-alloc-failure", names[v]); }
            else { oplog(names[v], t ? "ok-retry" : "ok"); if (newfail) { g_succ_despite_fail++; oplog(names[v], "note-success-despite-alloc-failure"); }
                   if (r == 0 || r > cap) violation("trained-dictionary-size-out-of-range", names[v]); else check_dict(names[v], dict, r);
                   return; } }
    }
    violation("training-keeps-failing", names[v]);
}


/* round 3: the other entry points of the compression / decompression API on contexts created with the counting allocator.
   Every operation is attempted up to MAXTRY times (session reset between attempts), judged, and its result round-trips. */
#define CTRY(NAME, CALL, ISERR, CODE, AFTER) \
    { int t_; for (t_ = 0; t_ < MAXTRY; t_++) { int nf0_ = g_nfailed; beg(NAME, -1, -1); CALL; judge(NAME, (ISERR), (CODE), nf0_, t_); if (!(ISERR)) break; AFTER; } \
      if (t_ == MAXTRY) violation("not-reusable-after-reset", NAME); }
static size_t stream_old_api(ZSTD_CCtx* c, const char* src, size_t n, size_t* outPos) {
    ZSTD_inBuffer in = { src, n, 0 }; ZSTD_outBuffer o = { g_scratch, g_scratchCap, 0 }; size_t r = 0;
    while (in.pos < in.size) { ZSTD_inBuffer i2 = { src, in.pos + 30000 < n ? in.pos + 30000 : n, in.pos }; r = ZSTD_compressStream(c, &o, &i2); if (ZSTD_isError(r)) return r; in.pos = i2.pos;
        if ((in.pos / 30000) % 3 == 1) { r = ZSTD_flushStream(c, &o); if (ZSTD_isError(r)) return r; } }
    do { r = ZSTD_endStream(c, &o); if (ZSTD_isError(r)) return r; } while (r != 0);
    *outPos = o.pos; return 0;
}
static size_t h_stable_c2(ZSTD_CCtx* c, const char* src, size_t n, size_t* outPos) {
    ZSTD_inBuffer in = { src, n, 0 }; ZSTD_outBuffer o = { g_scratch, g_scratchCap, 0 }; size_t const r = ZSTD_compressStream2(c, &o, &in, ZSTD_e_end); *outPos = o.pos; return r;
}
static size_t h_stable_out(ZSTD_DCtx* d, char* out, size_t cap) {
    ZSTD_inBuffer in = { g_fr_small, g_fr_small_n, 0 }; ZSTD_outBuffer o = { out, cap, 0 }; size_t q = 1;
    while (in.pos < in.size && !ZSTD_isError(q) && q != 0) { ZSTD_inBuffer i2 = { g_fr_small, in.pos + 500 < in.size ? in.pos + 500 : in.size, in.pos }; q = ZSTD_decompressStream(d, &o, &i2); in.pos = i2.pos; }
    return ZSTD_isError(q) ? q : o.pos;
}
static size_t h_simple_args(ZSTD_DCtx* d, char* out, size_t cap) {
    size_t ipos = 0, opos = 0; size_t const r = ZSTD_decompressStream_simpleArgs(d, out, cap, &opos, g_fr_small, g_fr_small_n, &ipos); return ZSTD_isError(r) ? r : opos;
}
static void sc_api_misc(int v) {
    size_t r = 0; size_t const n = 90000; const char* src = g_src + 100000 + 7 * 600; static char out[100000];
    if (v == 0) {   /* compression entry points */
        ZSTD_CCtx* c; ZSTD_CDict* cd; size_t op = 0;
        mark("create"); c = mk_cctx(); if (!c) return;
        mark("createCDict"); cd = mk_cdict(0, 4); if (!cd) { fr_cctx(c); return; }
#define RST { beg("CCtx_reset", -1, -1); ZSTD_CCtx_reset(c, ZSTD_reset_session_only); endc("ok"); }
        mark("compressCCtx"); CTRY("compressCCtx", r = ZSTD_compressCCtx(c, g_scratch, g_scratchCap, src, n, 3), ZSTD_isError(r), ZSTD_isError(r) ? r : 0, RST);
        if (!ZSTD_isError(r)) check_rt("compressCCtx", g_scratch, r, src, n, NULL, 0);
        mark("compress_usingDict"); CTRY("compress_usingDict", r = ZSTD_compress_usingDict(c, g_scratch, g_scratchCap, src, n, g_dict, g_dictSize, 5), ZSTD_isError(r), ZSTD_isError(r) ? r : 0, RST);
        if (!ZSTD_isError(r)) check_rt("compress_usingDict", g_scratch, r, src, n, g_dict, g_dictSize);
        mark("compress_usingCDict"); CTRY("compress_usingCDict", r = ZSTD_compress_usingCDict(c, g_scratch, g_scratchCap, src, n, cd), ZSTD_isError(r), ZSTD_isError(r) ? r : 0, RST);
        if (!ZSTD_isError(r)) check_rt("compress_usingCDict", g_scratch, r, src, n, g_dict, g_dictSize);
        mark("compress_usingCDict_advanced"); { ZSTD_frameParameters fp = { 1, 1, 0 };
            CTRY("compress_usingCDict_advanced", r = ZSTD_compress_usingCDict_advanced(c, g_scratch, g_scratchCap, src, 3000, cd, fp), ZSTD_isError(r), ZSTD_isError(r) ? r : 0, RST);
            if (!ZSTD_isError(r)) check_rt("compress_usingCDict_advanced", g_scratch, r, src, 3000, g_dict, g_dictSize); }
        mark("compress_advanced"); { ZSTD_parameters pp = ZSTD_getParams(7, n, g_dictSize); pp.fParams.checksumFlag = 1;
            CTRY("compress_advanced", r = ZSTD_compress_advanced(c, g_scratch, g_scratchCap, src, n, g_dict, g_dictSize, pp), ZSTD_isError(r), ZSTD_isError(r) ? r : 0, RST);
            if (!ZSTD_isError(r)) check_rt("compress_advanced", g_scratch, r, src, n, g_dict, g_dictSize); }
        mark("compressBegin_usingCDict");
        CTRY("compressBegin_usingCDict", r = ZSTD_compressBegin_usingCDict(c, cd), ZSTD_isError(r), ZSTD_isError(r) ? r : 0, RST);
        if (!ZSTD_isError(r)) { size_t a = ZSTD_compressContinue(c, g_scratch, g_scratchCap, src, 40000), b2 = 0, e = 0;
            if (!ZSTD_isError(a)) b2 = ZSTD_compressContinue(c, g_scratch + a, g_scratchCap - a, src + 40000, 30000);
            if (!ZSTD_isError(a) && !ZSTD_isError(b2)) e = ZSTD_compressEnd(c, g_scratch + a + b2, g_scratchCap - a - b2, src + 70000, 20000);
            if (ZSTD_isError(a) || ZSTD_isError(b2) || ZSTD_isError(e)) violation("block-api-error", "compressBegin_usingCDict"); else check_rt("compressBegin_usingCDict", g_scratch, a + b2 + e, src, n, g_dict, g_dictSize); }
        mark("compressBegin_advanced"); { ZSTD_parameters pp = ZSTD_getParams(2, 50000, 0);
            CTRY("compressBegin_advanced", r = ZSTD_compressBegin_advanced(c, NULL, 0, pp, 50000), ZSTD_isError(r), ZSTD_isError(r) ? r : 0, RST);
            if (!ZSTD_isError(r)) { size_t e = ZSTD_compressEnd(c, g_scratch, g_scratchCap, src, 50000); if (ZSTD_isError(e)) violation("block-api-error", "compressBegin_advanced"); else check_rt("compressBegin_advanced", g_scratch, e, src, 50000, NULL, 0); } }
        mark("initCStream"); CTRY("initCStream", (r = ZSTD_initCStream(c, 4), r = ZSTD_isError(r) ? r : stream_old_api(c, src, n, &op)), ZSTD_isError(r), ZSTD_isError(r) ? r : 0, RST);
        if (!ZSTD_isError(r)) check_rt("initCStream", g_scratch, op, src, n, NULL, 0);
        mark("initCStream_srcSize"); CTRY("initCStream_srcSize", (r = ZSTD_initCStream_srcSize(c, 3, n), r = ZSTD_isError(r) ? r : stream_old_api(c, src, n, &op)), ZSTD_isError(r), ZSTD_isError(r) ? r : 0, RST);
        if (!ZSTD_isError(r)) check_rt("initCStream_srcSize", g_scratch, op, src, n, NULL, 0);
        mark("initCStream_usingDict"); CTRY("initCStream_usingDict", (r = ZSTD_initCStream_usingDict(c, g_dict, g_dictSize, 6), r = ZSTD_isError(r) ? r : stream_old_api(c, src, n, &op)), ZSTD_isError(r), ZSTD_isError(r) ? r : 0, RST);
        if (!ZSTD_isError(r)) check_rt("initCStream_usingDict", g_scratch, op, src, n, g_dict, g_dictSize);
        mark("resetCStream"); CTRY("resetCStream", (r = ZSTD_resetCStream(c, 0), r = ZSTD_isError(r) ? r : stream_old_api(c, src + 1, 50000, &op)), ZSTD_isError(r), ZSTD_isError(r) ? r : 0, RST);
        if (!ZSTD_isError(r)) check_rt("resetCStream", g_scratch, op, src + 1, 50000, g_dict, g_dictSize);
        mark("initCStream_usingCDict"); CTRY("initCStream_usingCDict", (r = ZSTD_initCStream_usingCDict(c, cd), r = ZSTD_isError(r) ? r : stream_old_api(c, src, n, &op)), ZSTD_isError(r), ZSTD_isError(r) ? r : 0, RST);
        if (!ZSTD_isError(r)) check_rt("initCStream_usingCDict", g_scratch, op, src, n, g_dict, g_dictSize);
        mark("initCStream_advanced"); { ZSTD_parameters pp = ZSTD_getParams(9, 0, 0); pp.cParams.windowLog = 19;
            CTRY("initCStream_advanced", (r = ZSTD_initCStream_advanced(c, NULL, 0, pp, ZSTD_CONTENTSIZE_UNKNOWN), r = ZSTD_isError(r) ? r : stream_old_api(c, src, n, &op)), ZSTD_isError(r), ZSTD_isError(r) ? r : 0, RST);
            if (!ZSTD_isError(r)) check_rt("initCStream_advanced", g_scratch, op, src, n, NULL, 0); }
        mark("stable-buffers"); { ZSTD_CCtx_reset(c, ZSTD_reset_session_and_parameters); setp(c, ZSTD_c_stableInBuffer, 1); setp(c, ZSTD_c_stableOutBuffer, 1); setp(c, ZSTD_c_compressionLevel, 5);
            CTRY("compressStream2-stable", r = h_stable_c2(c, src, n, &op), ZSTD_isError(r), ZSTD_isError(r) ? r : 0, RST);
            if (!ZSTD_isError(r)) check_rt("compressStream2-stable", g_scratch, op, src, n, NULL, 0); }
#undef RST
        mark("free"); fr_cctx(c); fr_cdict(cd);
    } else if (v == 1) {   /* decompression entry points */
        ZSTD_DCtx* d; ZSTD_DDict* dd;
        mark("create"); d = mk_dctx(); if (!d) return;
        mark("createDDict"); dd = mk_ddict(g_dicts[7], 0, 0); if (!dd) { fr_dctx(d); return; }
#define RSTD { beg("DCtx_reset", -1, -1); ZSTD_DCtx_reset(d, ZSTD_reset_session_only); endc("ok"); }
        mark("decompress_usingDict"); CTRY("decompress_usingDict", r = ZSTD_decompress_usingDict(d, out, sizeof out, g_fr_dict, g_fr_dict_n, g_dicts[7], g_dictSize), ZSTD_isError(r), ZSTD_isError(r) ? r : 0, RSTD);
        if (!ZSTD_isError(r) && (r != 4000 || memcmp(out, src, 4000))) violation("decoded-output-mismatch", "decompress_usingDict");
        mark("decompressBegin_usingDDict"); CTRY("decompressBegin_usingDDict", r = ZSTD_decompressBegin_usingDDict(d, dd), ZSTD_isError(r), ZSTD_isError(r) ? r : 0, RSTD);
        if (!ZSTD_isError(r)) { size_t ip = 0, opp = 0;
            for (;;) { size_t const need = ZSTD_nextSrcSizeToDecompress(d); size_t g; if (need == 0) break; if (ip + need > g_fr_dict_n) { violation("bufferless-overrun", "decompressContinue"); break; }
                g = ZSTD_decompressContinue(d, out + opp, sizeof out - opp, g_fr_dict + ip, need); if (ZSTD_isError(g)) { violation("bufferless-error", "decompressContinue"); break; } ip += need; opp += g; }
            if (opp != 4000 || memcmp(out, src, 4000)) violation("decoded-output-mismatch", "decompressContinue"); }
        mark("initDStream_usingDDict"); CTRY("initDStream_usingDDict", r = ZSTD_initDStream_usingDDict(d, dd), ZSTD_isError(r), ZSTD_isError(r) ? r : 0, RSTD);
        op_dstream("dstream-usingDDict", d, g_fr_dict, g_fr_dict_n, src, 4000, 300, 700);
        mark("resetDStream"); CTRY("resetDStream", r = ZSTD_resetDStream(d), ZSTD_isError(r), ZSTD_isError(r) ? r : 0, RSTD);
        op_dstream("dstream-after-resetDStream", d, g_fr_dict, g_fr_dict_n, src, 4000, 5000, 5000);
        mark("refPrefix"); { static char pfr[20000]; size_t pfn; int sg = g_armed; ZSTD_DCtx_reset(d, ZSTD_reset_session_and_parameters);
            g_armed = 0; { ZSTD_CCtx* pc = ZSTD_createCCtx(); ZSTD_CCtx_refPrefix(pc, g_src + 2000000, 50000); pfn = ZSTD_compress2(pc, pfr, sizeof pfr, g_src + 2000100, 30000); ZSTD_freeCCtx(pc); } g_armed = sg;
            if (ZSTD_isError(pfn)) violation("harness-prefix-frame", "refPrefix");
            CTRY("DCtx_refPrefix", r = ZSTD_DCtx_refPrefix(d, g_src + 2000000, 50000), ZSTD_isError(r), ZSTD_isError(r) ? r : 0, RSTD);
            g_single = 1; op_dstream("dstream-refPrefix", d, pfr, pfn, g_src + 2000100, 30000, 200, 4096); g_single = 0; }   /* the prefix is single-use */
        mark("big-window"); op_dstream("dstream-big", d, g_fr_big, g_fr_big_n, g_src + 5000, 300000, 70000, 100000);
        mark("stableOut"); { size_t rr = ZSTD_DCtx_setParameter(d, ZSTD_d_stableOutBuffer, 1); (void)rr;
            CTRY("decompressStream-stableOut", r = h_stable_out(d, out, sizeof out), ZSTD_isError(r), ZSTD_isError(r) ? r : 0, RSTD);
            if (!ZSTD_isError(r) && (r != 3000 || memcmp(out, g_src, 3000))) violation("decoded-output-mismatch", "decompressStream-stableOut");
            rr = ZSTD_DCtx_setParameter(d, ZSTD_d_stableOutBuffer, 0); (void)rr; }
        mark("simpleArgs"); CTRY("decompressStream_simpleArgs", r = h_simple_args(d, out, sizeof out), ZSTD_isError(r), ZSTD_isError(r) ? r : 0, RSTD);
        if (!ZSTD_isError(r) && (r != 3000 || memcmp(out, g_src, 3000))) violation("decoded-output-mismatch", "decompressStream_simpleArgs");
#undef RSTD
        mark("free"); fr_dctx(d); fr_ddict(dd, 0);
    }
}


/* round 3: random histories with a larger operation menu than sc_rand: CDicts (by copy / by reference) attached and detached, shared
   thread pools referenced / replaced / dropped, ZSTD_copyCCtx from a second context, the single-call and the old streaming entry
   points, more parameters (overlapLog, targetCBlockSize, rsyncable, row match finder, block splitter), DDict / prefix on the decoder,
   probes of sizeof / progression after every step.  18 steps drawn from C13_RSEED and the variant; the same sequence for every k */
static void sc_rand2(int v) {
    unsigned st = (unsigned)(getenv("C13_RSEED") ? atoi(getenv("C13_RSEED")) : 1) * 104723u + (unsigned)v * 7907u + 91u;
    ZSTD_CCtx *c, *c2; ZSTD_DCtx* d; ZSTD_CDict *cdA = NULL, *cdB = NULL; ZSTD_DDict* ddA = NULL; ZSTD_threadPool *tpA = NULL, *tpB = NULL;
    int step; static char* fr; static size_t frcap; size_t frn = 0; const char* frsrc = NULL; size_t frsz = 0;
    const char* dict = NULL; size_t dictSize = 0; int dictIsPrefix = 0; const char* fdict = NULL; size_t fdictSize = 0; int fdictRaw = 0;
    int workers = 0, level = 3; size_t r;
    if (!fr) { frcap = ZSTD_compressBound(1600000) + 64; fr = (char*)__real_malloc(frcap); }
    mark("create"); c = mk_cctx(); if (!c) return; d = mk_dctx(); if (!d) { fr_cctx(c); return; }
    c2 = mk_cctx(); if (!c2) { fr_cctx(c); fr_dctx(d); return; }
    cdA = mk_cdict(0, 3); cdB = mk_cdict(1, 9); ddA = mk_ddict(g_dict, 1, 0);
    RETRY("createThreadPool", tpA = ZSTD_createThreadPool(2), tpA == NULL, 0); RETRY("createThreadPool", tpB = ZSTD_createThreadPool(4), tpB == NULL, 0);
    if (!cdA || !cdB || !ddA || !tpA || !tpB) goto out;
    for (step = 0; step < 18; step++) {
        unsigned const op = rs_next(&st) % 16;
        if (op == 0) { static const int lv[] = { 1, 3, 5, 9, 16 }; level = lv[rs_next(&st) % 5]; mark("level"); setp(c, ZSTD_c_compressionLevel, level); }
        else if (op == 1) { static const int nw[] = { 0, 1, 2, 3 }; static const int ov[] = { 0, 3, 9 }; workers = nw[rs_next(&st) % 4]; mark("workers"); setp(c, ZSTD_c_nbWorkers, workers);
            if (workers) { setp(c, ZSTD_c_jobSize, (rs_next(&st) & 1) ? (1 << 19) : (1 << 20)); setp(c, ZSTD_c_overlapLog, ov[rs_next(&st) % 3]); } }
        else if (op == 2) { static const int wl[] = { 0, 18, 21 }; mark("ldm-window"); setp(c, ZSTD_c_enableLongDistanceMatching, (int)(rs_next(&st) & 1)); setp(c, ZSTD_c_windowLog, wl[rs_next(&st) % 3]); setp(c, ZSTD_c_checksumFlag, (int)(rs_next(&st) & 1)); }
        else if (op == 3) {
            unsigned const k = rs_next(&st) % 4; int t; mark("dict");
            if (k == 3) { beg("loadDictionary", 0, -1); r = ZSTD_CCtx_loadDictionary(c, NULL, 0); endc(ZSTD_isError(r) ? "E" : "ok"); dict = NULL; dictSize = 0; dictIsPrefix = 0; }
            else if (k == 2) { beg("loadDictionary", 0, -1); r = ZSTD_CCtx_loadDictionary(c, NULL, 0); endc(ZSTD_isError(r) ? "E" : "ok"); dict = g_src + 2000000 + (rs_next(&st) % 1000); dictSize = 100000; dictIsPrefix = 1; }
            else { for (t = 0; t < MAXTRY; t++) { int nf0 = g_nfailed; r = do_load_dict(c, (int)k, g_dict); judge("loadDictionary", ZSTD_isError(r), ZSTD_isError(r) ? r : 0, nf0, t); if (!ZSTD_isError(r)) break; }
                   dict = g_dict; dictSize = g_dictSize; dictIsPrefix = 0; } }
        else if (op == 4) { unsigned const k = rs_next(&st) % 3; mark("refCDict"); beg("refCDict", -1, -1); r = ZSTD_CCtx_refCDict(c, k == 0 ? cdA : (k == 1 ? cdB : NULL)); endc(ZSTD_isError(r) ? "E" : "ok");
            if (ZSTD_isError(r)) violation("refCDict-error", "refCDict"); dictIsPrefix = 0; if (k == 2) { dict = NULL; dictSize = 0; } else { dict = g_dict; dictSize = g_dictSize; } }
        else if (op == 5) { level = 3; mark("reset-params"); beg("CCtx_reset", -1, -1); r = ZSTD_CCtx_reset(c, ZSTD_reset_session_and_parameters); endc(ZSTD_isError(r) ? "E" : "ok"); dict = NULL; dictSize = 0; dictIsPrefix = 0; workers = 0; }
        else if (op == 6) { unsigned const k = rs_next(&st) % 3; mark("refThreadPool"); beg("refThreadPool", -1, -1); r = ZSTD_CCtx_refThreadPool(c, k == 0 ? tpA : (k == 1 ? tpB : NULL)); endc(ZSTD_isError(r) ? "E" : "ok");
            if (ZSTD_isError(r)) violation("refThreadPool-error", "refThreadPool"); }
        else if (op == 7) { unsigned const k = rs_next(&st) % 4; mark("misc-params");
            if (k == 0) setp(c, ZSTD_c_targetCBlockSize, (rs_next(&st) & 1) ? 2000 : 0);
            else if (k == 1) setp(c, ZSTD_c_rsyncable, workers ? (int)(rs_next(&st) & 1) : 0);
            else if (k == 2) setp(c, ZSTD_c_useRowMatchFinder, (int)(rs_next(&st) % 3));
            else setp(c, ZSTD_c_useBlockSplitter, (int)(rs_next(&st) % 3)); }
        else if (op <= 11) {   /* compression through one of five entry points */
            static const size_t szs[] = { 1000, 30000, 200000, 700000, 1500000 }; size_t n = szs[rs_next(&st) % 5]; const char* src = g_src + (rs_next(&st) % 1000) * 100; int t;
            unsigned const how = rs_next(&st) % 5; size_t const chunk = 1 + rs_next(&st) % 300000;
            if (src + n > g_src + 2000000) n = 200000;
            if (level >= 9 && n > 200000) n = 200000;
            mark("compress");
            for (t = 0; t < MAXTRY; t++) {
                int nf0 = g_nfailed; size_t rr = 0; const char* udict = dict; size_t udictSize = dictSize;
                if (dictIsPrefix && how <= 2) { beg("refPrefix", -1, -1); rr = ZSTD_CCtx_refPrefix(c, dict, dictSize); endc(ZSTD_isError(rr) ? "E" : "ok"); }
                beg("compress", (long)how, -1);
                if (how == 0) rr = ZSTD_compress2(c, fr, frcap, src, n);
                else if (how == 1) { ZSTD_inBuffer in = { src, n, 0 }; ZSTD_outBuffer o = { fr, frcap, 0 }; int calls = 0;
                    rr = 0; while (in.pos < n && !ZSTD_isError(rr)) { ZSTD_inBuffer i2 = { src, in.pos + chunk < n ? in.pos + chunk : n, in.pos }; rr = ZSTD_compressStream2(c, &o, &i2, (++calls % 3) ? ZSTD_e_continue : ZSTD_e_flush); in.pos = i2.pos; }
                    while (!ZSTD_isError(rr)) { ZSTD_inBuffer i0 = { NULL, 0, 0 }; rr = ZSTD_compressStream2(c, &o, &i0, ZSTD_e_end); if (rr == 0) { rr = o.pos; break; } } }
                else if (how == 2) { ZSTD_inBuffer in = { src, n, 0 }; ZSTD_outBuffer o = { fr, frcap, 0 };
                    rr = 0; while (in.pos < n && !ZSTD_isError(rr)) { ZSTD_inBuffer i2 = { src, in.pos + chunk < n ? in.pos + chunk : n, in.pos }; rr = ZSTD_compressStream(c, &o, &i2); in.pos = i2.pos; }
                    while (!ZSTD_isError(rr)) { rr = ZSTD_endStream(c, &o); if (rr == 0) { rr = o.pos; break; } } }
                else if (how == 3) { rr = ZSTD_compressCCtx(c, fr, frcap, src, n, level > 9 ? 9 : level); udict = NULL; udictSize = 0; }   /* ignores the sticky parameters and dictionaries */
                else {   /* ZSTD_copyCCtx from the second context, then the frame is completed on this one */
                    size_t const n2 = n > 200000 ? 200000 : n; rr = ZSTD_compressBegin(c2, level > 9 ? 9 : level);
                    if (!ZSTD_isError(rr)) rr = ZSTD_copyCCtx(c, c2, n2);
                    if (!ZSTD_isError(rr)) rr = ZSTD_compressEnd(c, fr, frcap, src, n2);
                    { size_t const e2 = ZSTD_compressEnd(c2, g_scratch, g_scratchCap, src, ZSTD_isError(rr) ? 0 : 100); (void)e2; }
                    n = n2; udict = NULL; udictSize = 0; }
                judge("rand2-compress", ZSTD_isError(rr), ZSTD_isError(rr) ? rr : 0, nf0, t);
                if (!ZSTD_isError(rr)) { frn = rr; frsrc = src; frsz = n; fdict = udict; fdictSize = udictSize; fdictRaw = (udict != NULL && udict != g_dict); check_rt("rand2-compress", fr, frn, src, n, udict, udictSize); break; }
                probe_cctx(c);
                { size_t r2; beg("CCtx_reset", -1, -1); r2 = ZSTD_CCtx_reset(c, ZSTD_reset_session_only); endc(ZSTD_isError(r2) ? "E" : "ok"); beg("CCtx_reset", -1, -1); r2 = ZSTD_CCtx_reset(c2, ZSTD_reset_session_only); endc(ZSTD_isError(r2) ? "E" : "ok"); }
            }
            if (t == MAXTRY) violation("not-reusable-after-reset", "rand2-compress");
        }
        else if (op <= 14 && frn) {   /* decompression of the last frame: streaming (dictionary loaded / referenced / prefix) or one-shot */
            size_t const ic = 1 + rs_next(&st) % 70000, oc = 1 + rs_next(&st) % 200000; int t; unsigned const how = rs_next(&st) % 3;
            mark("decompress");
            { size_t rr = ZSTD_DCtx_reset(d, ZSTD_reset_session_and_parameters); (void)rr; rr = ZSTD_DCtx_setParameter(d, ZSTD_d_windowLogMax, 27); (void)rr; }
            if (fdict) { for (t = 0; t < MAXTRY; t++) { int nf0 = g_nfailed; size_t rr; beg("DCtx_dict", (long)how, -1);
                    if (fdictRaw) rr = (how == 0) ? ZSTD_DCtx_refPrefix(d, fdict, fdictSize) : ZSTD_DCtx_loadDictionary_advanced(d, fdict, fdictSize, how == 1 ? ZSTD_dlm_byRef : ZSTD_dlm_byCopy, ZSTD_dct_rawContent);
                    else rr = (how == 0) ? ZSTD_DCtx_refDDict(d, ddA) : (how == 1 ? ZSTD_DCtx_loadDictionary(d, fdict, fdictSize) : ZSTD_DCtx_loadDictionary_byReference(d, fdict, fdictSize));
                    judge("DCtx_dict", ZSTD_isError(rr), ZSTD_isError(rr) ? rr : 0, nf0, t); if (!ZSTD_isError(rr)) break; } }
            if (fdict && fdictRaw && how == 0) { g_single = 1; op_dstream("rand2-dstream-prefix", d, fr, frn, frsrc, frsz, ic, oc); g_single = 0; }   /* the prefix is single-use */
            else op_dstream("rand2-dstream", d, fr, frn, frsrc, frsz, ic, oc);
        }
        probe_cctx(c); probe_dctx(d);
    }
out:
    mark("free"); fr_cctx(c); fr_cctx(c2); fr_dctx(d); if (cdA) fr_cdict(cdA); if (cdB) fr_cdict(cdB); if (ddA) fr_ddict(ddA, 0);
    if (tpA) { beg("freeThreadPool", -1, -1); ZSTD_freeThreadPool(tpA); endc(""); } if (tpB) { beg("freeThreadPool", -1, -1); ZSTD_freeThreadPool(tpB); endc(""); }
}


/* one DCtx doing everything AllocBorrow models: dictionary loaded by copy, streamed; three DDicts referenced (the local one is
   dropped), decoded in one call (the set selects the frame's DDict) and streamed; dictionary loaded by reference (the referenced
   DDict is dropped, the set stays), streamed; parameter reset; a plain frame streamed */
static void sc_refddict_full(int v) {
    ZSTD_DCtx* d; ZSTD_DDict* dds[3]; int i, t; static char out[8192]; const char* src = g_src + 100000 + 7 * 600; size_t r; (void)v;
    memset(dds, 0, sizeof dds);
    mark("create"); d = mk_dctx(); if (!d) return;
    { size_t rr = ZSTD_DCtx_setParameter(d, ZSTD_d_refMultipleDDicts, ZSTD_rmd_refMultipleDDicts); if (ZSTD_isError(rr)) violation("setParameter-error", "refMultipleDDicts"); }
    mark("ddicts"); for (i = 0; i < 3; i++) { dds[i] = mk_ddict(g_dicts[i == 0 ? 7 : i], i & 1, i); if (!dds[i]) goto out; }
    mark("load-copy");
    for (t = 0; t < MAXTRY; t++) { int nf0 = g_nfailed; beg("DCtx_loadDictionary", 0, -1); r = ZSTD_DCtx_loadDictionary(d, g_dicts[7], g_dictSize); judge("DCtx_loadDictionary", ZSTD_isError(r), ZSTD_isError(r) ? r : 0, nf0, t); if (!ZSTD_isError(r)) break; }
    op_dstream("dstream-local", d, g_fr_dict, g_fr_dict_n, src, 4000, 500, 600);
    mark("ref");
    for (i = 2; i >= 0; i--) { for (t = 0; t < MAXTRY; t++) { int nf0 = g_nfailed; beg("refDDict", i, -1); r = ZSTD_DCtx_refDDict(d, dds[i]); judge("refDDict", ZSTD_isError(r), ZSTD_isError(r) ? r : 0, nf0, t); if (!ZSTD_isError(r)) break; } }
    mark("decompress");
    { int nf0 = g_nfailed; beg("decompressDCtx", -1, -1); r = ZSTD_decompressDCtx(d, out, sizeof out, g_fr_dict, g_fr_dict_n); judge("decompressDCtx-multi", ZSTD_isError(r), ZSTD_isError(r) ? r : 0, nf0, 0);
      if (!ZSTD_isError(r) && (r != 4000 || memcmp(out, src, 4000))) violation("decoded-output-mismatch", "decompressDCtx-multi"); }
    op_dstream("dstream-multi", d, g_fr_dict, g_fr_dict_n, src, 4000, 333, 5000);
    mark("load-ref");
    for (t = 0; t < MAXTRY; t++) { int nf0 = g_nfailed; beg("DCtx_loadDictionary", 1, -1); r = ZSTD_DCtx_loadDictionary_byReference(d, g_dicts[7], g_dictSize); judge("DCtx_loadDictionary", ZSTD_isError(r), ZSTD_isError(r) ? r : 0, nf0, t); if (!ZSTD_isError(r)) break; }
    op_dstream("dstream-local-ref", d, g_fr_dict, g_fr_dict_n, src, 4000, 5000, 5000);
    mark("big"); op_dstream("dstream-big", d, g_fr_big, g_fr_big_n, g_src + 5000, 300000, 50000, 400000);
    mark("reset-params"); { size_t rr; beg("DCtx_reset_params", -1, -1); rr = ZSTD_DCtx_reset(d, ZSTD_reset_session_and_parameters); endc(ZSTD_isError(rr) ? "E" : "ok"); }
    op_dstream("dstream-plain", d, g_fr_small, g_fr_small_n, g_src, 3000, 4096, 100000);
out:
    mark("free"); fr_dctx(d); for (i = 0; i < 3; i++) if (dds[i]) fr_ddict(dds[i], i);
}


/* a single-use prefix and an allocation failure: after the reset, the SAME operation (same context, same prefix reference given once)
   must complete correctly.  v 0: ZSTD_DCtx_refPrefix + ZSTD_decompressStream;  1: ZSTD_CCtx_refPrefix + ZSTD_compress2 (the frame must still
   be compressed against the prefix: its size is compared with the size a fresh context produces);  2: ZSTD_CCtx_refPrefix + streaming */
static void sc_prefix_retry(int v) {
    static char pfr[40000]; size_t pfn = 0, refSize = 0; int sg = g_armed; const char* pre = g_src + 2000000; static char srcbuf[30000]; const char* src = srcbuf; size_t const n = 30000; size_t r;
    memcpy(srcbuf, g_src + 2000100, n);   /* content found in the prefix, at another address */
    g_armed = 0; { ZSTD_CCtx* pc = ZSTD_createCCtx(); ZSTD_CCtx_setParameter(pc, ZSTD_c_compressionLevel, 3); ZSTD_CCtx_setParameter(pc, ZSTD_c_windowLog, 18); ZSTD_CCtx_refPrefix(pc, pre, 50000); pfn = ZSTD_compress2(pc, pfr, sizeof pfr, src, n); ZSTD_freeCCtx(pc); } g_armed = sg;
    if (ZSTD_isError(pfn)) { violation("harness-prefix-frame", "prefix"); return; }
    refSize = pfn;
    if (v == 0) {
        ZSTD_DCtx* d; mark("create"); d = mk_dctx(); if (!d) return;
        mark("refPrefix"); RETRY("DCtx_refPrefix", r = ZSTD_DCtx_refPrefix(d, pre, 50000), ZSTD_isError(r), ZSTD_isError(r) ? r : 0);
        mark("stream"); op_dstream("dstream-prefix", d, pfr, pfn, src, n, 700, 4096);
        mark("free"); fr_dctx(d);
    } else {
        ZSTD_CCtx* c; int t; mark("create"); c = mk_cctx(); if (!c) return;
        setp(c, ZSTD_c_compressionLevel, 3); setp(c, ZSTD_c_windowLog, 18);
        mark("refPrefix"); { beg("refPrefix", -1, -1); r = ZSTD_CCtx_refPrefix(c, pre, 50000); endc(ZSTD_isError(r) ? "E" : "ok"); }
        mark("compress");
        for (t = 0; t < MAXTRY; t++) { int nf0 = g_nfailed; size_t cs = 0;
            beg("compress", -1, -1);
            if (v == 1) r = ZSTD_compress2(c, g_scratch, g_scratchCap, src, n);
            else { ZSTD_inBuffer in = { src, n, 0 }; ZSTD_outBuffer o = { g_scratch, g_scratchCap, 0 }; r = ZSTD_compressStream2(c, &o, &in, ZSTD_e_continue); if (!ZSTD_isError(r)) { do { r = ZSTD_compressStream2(c, &o, &in, ZSTD_e_end); } while (!ZSTD_isError(r) && r != 0); } if (!ZSTD_isError(r)) r = o.pos; }
            judge("compress-prefix", ZSTD_isError(r), ZSTD_isError(r) ? r : 0, nf0, t);
            if (!ZSTD_isError(r)) { cs = r; check_rt("compress-prefix", g_scratch, cs, src, n, pre, 50000);
                { char b[64]; snprintf(b, sizeof b, "size-%u-ref-%u", (unsigned)cs, (unsigned)refSize); oplog("compress-prefix", b); }
                if (cs > refSize + refSize / 2 + 64) violation("prefix-lost-after-failed-attempt", "compress-prefix"); break; }
            { beg("CCtx_reset", -1, -1); ZSTD_CCtx_reset(c, ZSTD_reset_session_only); endc("ok"); }
        }
        mark("free"); fr_cctx(c);
    }
}

static const scen_t g_scen[] = {
    { "cctx_create", sc_cctx_create, 0, 0 },
    { "cctx_params", sc_cctx_params, 0, 0 },
    { "compress_l1", sc_compress_st, 0, 0 }, { "compress_l3", sc_compress_st, 1, 0 }, { "compress_l6", sc_compress_st, 2, 0 },
    { "compress_l13", sc_compress_st, 3, 0 }, { "compress_l19", sc_compress_st, 4, 1 }, { "compress_ldm", sc_compress_st, 6, 0 },
    { "compress_grow", sc_compress_grow, 0, 0 }, { "compress_grow7", sc_compress_grow, 1, 1 },
    { "load_dict_copy", sc_load_dict, 0, 0 }, { "load_dict_ref", sc_load_dict, 1, 0 }, { "load_dict_reload", sc_load_dict, 2, 0 },
    { "cdict_copy", sc_cdict, 0, 0 }, { "cdict_ref", sc_cdict, 1, 0 }, { "cdict_copy_l12", sc_cdict, 2, 1 },
    { "cstream", sc_cstream, 0, 0 }, { "cstream_l9", sc_cstream, 1, 1 }, { "cstream_flush", sc_cstream, 2, 0 },
    { "mt_oneshot", sc_mt, 0, 0 }, { "mt_stream", sc_mt, 1, 0 }, { "mt_ldm", sc_mt, 2, 0 }, { "mt_dict", sc_mt, 3, 0 },
    { "mt_rsync", sc_mt, 4, 1 }, { "mt_resize", sc_mt, 5, 0 }, { "mt_resize_back", sc_mt, 6, 0 }, { "mt_resize_stream", sc_mt, 7, 1 },
    { "unit_pool_1_0", sc_pool, 0, 0 }, { "unit_pool_3_0", sc_pool, 1, 0 }, { "unit_pool_1_4", sc_pool, 2, 0 }, { "unit_pool_3_4", sc_pool, 3, 0 },
    { "unit_pool_3_4_up", sc_pool, 7, 0 },
    { "unit_mtresize_a", sc_mtresize, 0, 0 }, { "unit_mtresize_b", sc_mtresize, 1, 0 }, { "unit_mtresize_c", sc_mtresize, 2, 0 },
    { "unit_mtctx_1", sc_mtctx, 0, 0 }, { "unit_mtctx_2", sc_mtctx, 1, 0 }, { "unit_mtctx_4", sc_mtctx, 3, 0 }, { "unit_mtctx_9", sc_mtctx, 8, 0 },
    { "dctx_oneshot", sc_dctx, 0, 0 },
    { "dstream_grow", sc_dstream, 0, 0 }, { "dstream_grow_small_io", sc_dstream, 1, 0 }, { "dstream_shrink", sc_dstream, 2, 0 },
    { "dctx_load_dict_copy", sc_dctx_dict, 0, 0 }, { "dctx_load_dict_ref", sc_dctx_dict, 1, 0 },
    { "ddict_copy", sc_ddict, 0, 0 }, { "ddict_ref", sc_ddict, 1, 0 },
    { "multi_ddict_20", sc_multi_ddict, 0, 0 }, { "multi_ddict_40", sc_multi_ddict, 1, 1 },
    { "copy_cctx", sc_copy_cctx, 0, 0 },
    { "compress_fail_then_small", sc_fail_then_small, 0, 0 }, { "dstream_fail_then_small", sc_fail_then_small, 1, 0 },
    { "train_cover", sc_train, 0, 0 }, { "train_fastcover", sc_train, 1, 0 }, { "train_legacy", sc_train, 2, 0 }, { "train_default", sc_train, 3, 1 },
    { "train_opt_cover_mt", sc_train, 4, 1 }, { "train_opt_fastcover_mt", sc_train, 5, 1 },
    { "train_finalize", sc_train, 6, 0 }, { "train_add_entropy", sc_train, 7, 0 },
    { "train_opt_cover_shrink", sc_train, 8, 1 }, { "train_opt_fastcover_shrink_mt", sc_train, 9, 1 },
    /* round 2 (direct oracle only) */
    { "legacy_v07", sc_legacy, 0, 0 }, { "legacy_versions", sc_legacy, 1, 0 }, { "legacy_oneshot", sc_legacy, 2, 0 }, { "legacy_switch", sc_legacy, 3, 0 },
    { "simple_api", sc_simple, 0, 0 }, { "simple_dict_api", sc_simple, 1, 0 }, { "simple_cdict_dds", sc_simple, 2, 0 }, { "simple_sequences", sc_simple, 3, 0 },
    { "mt2_prefix", sc_mt2, 0, 0 }, { "mt2_cdict", sc_mt2, 1, 0 }, { "mt2_threadpool", sc_mt2, 2, 0 }, { "mt2_ldm_stream", sc_mt2, 3, 1 },
    { "mt2_overlap9", sc_mt2, 4, 1 }, { "mt2_dict_ref", sc_mt2, 5, 0 }, { "mt2_threadpool_grow", sc_mt2, 6, 0 }, { "mt2_switch_st", sc_mt2, 7, 0 }, { "mt2_fail_then_free", sc_mt2, 8, 0 }, { "mt2_ldm_then_plain", sc_mt2, 9, 0 },
    { "thr_pool", sc_thr, 0, 0 }, { "thr_mtctx", sc_thr, 1, 0 }, { "thr_mtresize", sc_thr, 2, 0 }, { "thr_mt_oneshot", sc_thr, 3, 0 },
    { "thr_mt_resize", sc_thr, 4, 0 }, { "thr_threadpool", sc_thr, 5, 0 }, { "thr_opt_cover", sc_thr, 6, 1 }, { "thr_opt_fastcover", sc_thr, 7, 1 },
    { "invalid_dict", sc_dict_invalid, 0, 0 },
    { "rand_0", sc_rand, 0, 0 }, { "rand_1", sc_rand, 1, 0 }, { "rand_2", sc_rand, 2, 0 }, { "rand_3", sc_rand, 3, 0 }, { "rand_4", sc_rand, 4, 0 }, { "rand_5", sc_rand, 5, 0 },
    { "seekable_rw", sc_seekable, 0, 0 }, { "seekable_reinit", sc_seekable, 1, 0 },
    /* round 3 */
    { "leg4_v04", sc_legacy4, 0, 0 }, { "leg4_versions", sc_legacy4, 1, 0 }, { "leg4_oneshot", sc_legacy4, 2, 0 },
    { "refddict_fail_first", sc_refddict_fail, 0, 0 }, { "refddict_fail_expand", sc_refddict_fail, 1, 0 }, { "refddict_fail_first_free", sc_refddict_fail, 2, 0 }, { "refddict_fail_expand_free", sc_refddict_fail, 3, 0 },
    { "refddict_reset_multi", sc_dctx_reset_multi, 0, 0 }, { "refddict_full", sc_refddict_full, 0, 0 }, { "refddict_prefix_retry", sc_prefix_retry, 0, 0 }, { "prefix_retry_c", sc_prefix_retry, 1, 0 }, { "prefix_retry_cstream", sc_prefix_retry, 2, 0 },
    { "mt3_refpool", sc_mt3_refpool, 0, 0 }, { "mt3_refpool_stream", sc_mt3_refpool, 1, 0 },
    { "copy2_mt_dst", sc_copy_cctx2, 0, 0 }, { "copy2_l19", sc_copy_cctx2, 1, 1 }, { "copy2_twice", sc_copy_cctx2, 2, 0 },
    { "train_r3_cover_dk", sc_train2, 0, 1 }, { "train_r3_cover_dk_mt3", sc_train2, 1, 1 }, { "train_r3_fastcover_d_mt3", sc_train2, 2, 1 }, { "train_r3_cover_split1", sc_train2, 3, 1 },
    { "randx_0", sc_rand2, 0, 1 }, { "randx_1", sc_rand2, 1, 1 }, { "randx_2", sc_rand2, 2, 1 }, { "randx_3", sc_rand2, 3, 1 }, { "randx_4", sc_rand2, 4, 1 }, { "randx_5", sc_rand2, 5, 1 },
    { "api_misc_compress", sc_api_misc, 0, 0 }, { "api_misc_decompress", sc_api_misc, 1, 0 },
    { "train_r3_legacy_small", sc_train2, 4, 0 }, { "train_r3_cover_tiny", sc_train2, 5, 0 }, { "train_r3_finalize_small", sc_train2, 6, 0 },
};
#define NSCEN ((int)(sizeof g_scen / sizeof *g_scen))

/* ------------------------------------------------------------------ driver */
static const char* g_cur = "?";
static void print_k_fd(char* b, size_t cap) { int i; size_t l = 0; b[0] = 0; for (i = 0; i < g_nfault && l + 16 < cap; i++) l += (size_t)snprintf(b + l, cap - l, "%s%d", i ? "," : "", g_fault[i]); }
static void dump_partial(int sig) {
    static char head[512]; char kb[128]; int n;
    print_k_fd(kb, sizeof kb);
    n = snprintf(head, sizeof head, "{\"s\":\"%s\",\"k\":[%s],\"signal\":%d,\"allocs\":%d,\"failed\":%d,\"ops\":\"", g_cur, kb, sig, g_nalloc, g_nfailed);
    if (write(1, head, (size_t)n) < 0) _exit(99);
    if (write(1, g_ops, g_opslen) < 0) _exit(99);
    if (write(1, "\",\"ev\":\"", 8) < 0) _exit(99);
    if (g_ev && write(1, g_ev, g_evlen) < 0) _exit(99);
    if (write(1, "\"}\n", 3) < 0) _exit(99);
}
static void on_signal(int sig) { dump_partial(sig); _exit(100); }
#if defined(__SANITIZE_ADDRESS__)
extern void __sanitizer_set_death_callback(void (*)(void));
static void on_san_death(void) { dump_partial(-1); }
#endif
static void install_handlers(void) {
    signal(SIGSEGV, on_signal); signal(SIGBUS, on_signal); signal(SIGABRT, on_signal); signal(SIGFPE, on_signal); signal(SIGILL, on_signal); signal(SIGALRM, on_signal);
#if defined(__SANITIZE_ADDRESS__)
    signal(SIGSEGV, SIG_DFL); signal(SIGBUS, SIG_DFL); signal(SIGABRT, SIG_DFL);
    __sanitizer_set_death_callback(on_san_death);
#endif
}
static const scen_t* find(const char* name) { int i; for (i = 0; i < NSCEN; i++) if (!strcmp(g_scen[i].name, name)) return &g_scen[i]; return NULL; }

static void print_k(void) { int i; printf("["); for (i = 0; i < g_nfault; i++) printf("%s%d", i ? "," : "", g_fault[i]); printf("]"); }

static void run_case(const scen_t* s) {
    g_cur = s->name; install_handlers();
    g_armed = 1;
    s->fn(s->variant);
    g_armed = 0;
    printf("{\"s\":\"%s\",\"k\":", s->name); print_k();
    printf(",\"allocs\":%d,\"failed\":%d,\"live\":%d,\"dfree\":%d,\"foreign\":%d,\"pfree\":%d,\"viol\":%d,\"violtxt\":\"%s\",\"optional\":%d,\"ops\":\"%s\",\"ev\":\"%s\"}\n",
           g_nalloc, g_nfailed, live_count(), g_dfree, g_foreign, g_pfree, g_viol, g_violtxt, g_succ_despite_fail, g_ops, g_ev ? g_ev : "");
    fflush(stdout);
}

static int parse_k(const char* a) {
    g_nfault = 0;
    while (*a && g_nfault < MAXFAULT) { int k = atoi(a); if (k > 0) g_fault[g_nfault++] = k; while (*a && *a != ',') a++; if (*a == ',') a++; }
    return g_nfault;
}

/* run one case in a child; returns allocs (read back through a pipe), or -1 when the child died */
static int forked(const scen_t* s, int timeout_s) {
    int pfd[2]; pid_t pid; int status = 0, allocs = -1;
    fflush(stdout); fflush(stderr);
    if (pipe(pfd)) exit(90);
    pid = fork();
    if (pid == 0) {
        close(pfd[0]); alarm((unsigned)timeout_s);
        run_case(s);
        { int n = g_nalloc; if (write(pfd[1], &n, sizeof n) != (ssize_t)sizeof n) _exit(91); }
        _exit(0);
    }
    close(pfd[1]);
    waitpid(pid, &status, 0);
    if (WIFEXITED(status) && WEXITSTATUS(status) == 0) { int n; if (read(pfd[0], &n, sizeof n) == (ssize_t)sizeof n) allocs = n; }
    else if (WIFEXITED(status) && WEXITSTATUS(status) == 100) { /* the child printed its own partial line */ }
    else {
        printf("{\"s\":\"%s\",\"k\":", s->name); print_k();
        if (WIFSIGNALED(status)) printf(",\"signal\":%d%s}\n", WTERMSIG(status), WTERMSIG(status) == SIGALRM ? ",\"timeout\":1" : "");
        else printf(",\"signal\":0,\"exit\":%d}\n", WEXITSTATUS(status));
        fflush(stdout);
    }
    close(pfd[0]);
    return allocs;
}

int main(int argc, char** argv) {
    const scen_t* s; int timeout_s = 60;
    if (argc < 2) return 2;
    if (getenv("C13_TIMEOUT")) timeout_s = atoi(getenv("C13_TIMEOUT"));
    if (getenv("C13_MISALIGN")) g_misalign = (size_t)atoi(getenv("C13_MISALIGN"));
    if (!strcmp(argv[1], "list")) { int i; for (i = 0; i < NSCEN; i++) printf("%s %d\n", g_scen[i].name, g_scen[i].heavy); return 0; }
    if (argc < 3 || !(s = find(argv[2]))) { fprintf(stderr, "unknown scenario\n"); return 2; }
    prepare();
    if (!strcmp(argv[1], "one")) { parse_k(argc > 3 ? argv[3] : "0"); run_case(s); return 0; }
    if (!strcmp(argv[1], "sweep")) {
        int n, k;
        g_nfault = 0; n = forked(s, timeout_s); if (n < 0) return 0;
        for (k = 1; k <= n; k++) { g_nfault = 1; g_fault[0] = k; forked(s, timeout_s); }
        return 0;
    }
    if (!strcmp(argv[1], "pairs") && argc >= 5) {
        int n, i, count = atoi(argv[4]); g_rng = (unsigned)atoi(argv[3]) * 2654435761u + 99;
        g_nfault = 0;
        n = forked(s, timeout_s); if (n < 1) return 0;
        for (i = 0; i < count; i++) { int k1 = 1 + (int)(rnd() % (unsigned)n); int k2 = k1 + 1 + (int)(rnd() % (unsigned)(n < 12 ? n : 12));
            g_nfault = 2; g_fault[0] = k1; g_fault[1] = k2;
            if ((rnd() & 7) == 0) { g_nfault = 3; g_fault[2] = k2 + 1 + (int)(rnd() % 6); }
            forked(s, timeout_s); }
        return 0;
    }
    return 2;
}
