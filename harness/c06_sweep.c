/* C06 capacity-sweep / inspector harness.  Compiled against the CURRENT /repo sources on every run
 * (#include of zstd_compress.c only to read cctx->blockSize; all calls go through the public / static API).
 *
 *   c06_sweep sweep <seed> <tier 0|1> <shard> <nshards>      two-dimensional input x capacity sweep
 *   c06_sweep one <kind> <iseed> <n> <entry> <level> <chk> <csf> <wlog> <maxbs> <tcbs> <split> <strat> <mm> <ldm> <cap> <placement>
 *   c06_sweep frames <seed> <tier> <shard> <nshards>          multi-frame inputs for the inspector correspondence
 *   c06_sweep stream <seed> <tier> <shard> <nshards>          multi-call streaming (de)compression, every buffer fenced
 *   c06_sweep stream1 <kind> <iseed> <n> <level> <chk> <wlog> <tcbs> <mt> <outChunk>
 *
 * dst and src live in mmap'ed regions fenced by PROT_NONE pages; a buffer of c bytes is placed so that it ENDS at
 * the upper fence (placement 0) or STARTS at the lower fence (placement 1); the slack on the other side is filled
 * with a canary and checked after every call.  A fault prints "FAULT <case>" and exits with status 3.
 * The direct oracle (property statement on the real code) is evaluated here; violations are printed as
 * "BAD <what> :: <case>" lines.  Per-case facts are printed as "CASE ..." lines for the model comparison. */
#define ZSTD_STATIC_LINKING_ONLY
#include "compress/zstd_compress.c"
#include <stdio.h>
#include <stdlib.h>
#include <string.h>
#include <signal.h>
#include <unistd.h>
#include <sys/mman.h>
#include <sys/wait.h>
#include <execinfo.h>

/* ------------------------------------------------------------------ PRNG */
static unsigned long long g_rng;
static void rseed(unsigned long long s) { g_rng = s * 0x9E3779B97F4A7C15ULL + 0x1234567ULL; }
static unsigned rnd(void) { g_rng = g_rng * 6364136223846793005ULL + 1442695040888963407ULL; return (unsigned)(g_rng >> 33); }

/* ------------------------------------------------------------------ fenced regions */
typedef struct { unsigned char* map; size_t maplen; unsigned char* lo; unsigned char* hi; } region;
#define PG 4096u
static region region_new(size_t maxBytes)
{
    region r; size_t data = ((maxBytes + PG - 1) / PG) * PG + PG;
    r.maplen = data + 2 * PG;
    r.map = (unsigned char*)mmap(NULL, r.maplen, PROT_READ | PROT_WRITE, MAP_PRIVATE | MAP_ANONYMOUS, -1, 0);
    if (r.map == MAP_FAILED) { perror("mmap"); exit(2); }
    if (mprotect(r.map, PG, PROT_NONE) || mprotect(r.map + PG + data, PG, PROT_NONE)) { perror("mprotect"); exit(2); }
    r.lo = r.map + PG; r.hi = r.map + PG + data;
    return r;
}
#define CANARY 0xA5
static unsigned char* region_place(region* r, size_t c, int placement)
{
    memset(r->lo, CANARY, (size_t)(r->hi - r->lo));
    return placement ? r->lo : r->hi - c;
}
/* returns 0 if the slack is intact */
static int region_check(region* r, unsigned char* p, size_t c, int placement)
{
    unsigned char* a = placement ? p + c : r->lo;
    unsigned char* b = placement ? r->hi : p;
    for (; a < b; a++) if (*a != CANARY) return 1;
    return 0;
}

static char g_desc[600];
static void* g_mainAddr;
static volatile size_t* g_shared;   /* [0] = capacity being tried by the child (or -1), survives its death */
static void on_fault(int sig, siginfo_t* si, void* ctx)
{
    char buf[1200]; int n, k, nb; void* bt[16];
    (void)ctx;
    /* return addresses relative to main (the executable is position independent): resolved by the driver */
    nb = backtrace(bt, 16);
    n = snprintf(buf, sizeof buf, "FAULT sig=%d addr=%p bt=", sig, si ? si->si_addr : NULL);
    for (k = 0; k < nb && n < 900; k++) n += snprintf(buf + n, sizeof buf - (size_t)n, "%s%lld", k ? "," : "", (long long)((char*)bt[k] - (char*)g_mainAddr));
    n += snprintf(buf + n, sizeof buf - (size_t)n, " :: %s\n", g_desc);
    if (n > 0) { ssize_t w = write(1, buf, (size_t)n); (void)w; }
    _exit(3);
}
static void install_handlers(void)
{
    struct sigaction sa; memset(&sa, 0, sizeof sa);
    sa.sa_sigaction = on_fault; sa.sa_flags = SA_SIGINFO;
    sigaction(SIGSEGV, &sa, NULL); sigaction(SIGBUS, &sa, NULL);
}

/* ------------------------------------------------------------------ inputs */
enum { K_NOISE = 0, K_ALT8K, K_RLE, K_TEXT, K_SPARSE, K_ALTSTAT, K_NB };
static const char* const kindName[] = { "noise", "alt8k", "rle", "text", "sparse", "altstat" };
static void gen_input(unsigned char* p, size_t n, int kind, unsigned long long iseed)
{
    static const char* words[] = { "the ", "quick ", "brown ", "fox ", "jumps ", "over ", "lazy ", "dog ", "zstd ", "frame ", "block ", "\n" };
    size_t i = 0;
    rseed(iseed * 31 + (unsigned)kind);
    switch (kind) {
    case K_NOISE: for (i = 0; i < n; i++) p[i] = (unsigned char)rnd(); break;
    case K_ALT8K: for (i = 0; i < n; i++) { unsigned r = rnd(); p[i] = ((i >> 13) & 1) ? (unsigned char)r : (unsigned char)("ab"[r & 1]); } break;
    case K_RLE: { unsigned char b = (unsigned char)rnd(); memset(p, b, n); } break;
    case K_TEXT: while (i < n) { const char* w = words[rnd() % 12]; size_t l = strlen(w); if (l > n - i) l = n - i; memcpy(p + i, w, l); i += l; } break;
    case K_SPARSE: for (i = 0; i < n; i++) { unsigned r = rnd(); p[i] = (r % 97) ? 0 : (unsigned char)(r >> 8); } break;
    default: /* K_ALTSTAT: 8 KiB segments, each compressible, with different statistics */
        for (i = 0; i < n; i++) { unsigned r = rnd(); size_t seg = i >> 13;
            p[i] = (seg % 3 == 0) ? (unsigned char)("0123"[r & 3]) : (seg % 3 == 1) ? (unsigned char)(i & 0x3F) : (unsigned char)((r & 7) ? 'z' : (r >> 8)); }
        break;
    }
}

/* ------------------------------------------------------------------ parameter sets / entry points */
enum { E_COMPRESS = 0, E_COMPRESS2, E_STREAM2, E_SEQ, E_MT, E_DICT, E_NB };
static const char* const entryName[] = { "compress", "compress2", "stream2end", "sequences", "mt", "dict" };
#define MT_JOBSIZE (512u << 10)   /* ZSTDMT_JOBSIZE_MIN */
static unsigned char g_dict[3000]; static size_t const g_dictSize = 2500; static int g_useDict;
typedef struct { int level, chk, csf, wlog, maxbs, tcbs, split, strat, mm, ldm; } P;

#define CHK(e) do { size_t const r_ = (e); if (ZSTD_isError(r_)) { fprintf(stderr, "setup error %s: %s\n", #e, ZSTD_getErrorName(r_)); exit(2); } } while (0)
static void apply_params(ZSTD_CCtx* c, const P* p)
{
    CHK(ZSTD_CCtx_reset(c, ZSTD_reset_session_and_parameters));
    CHK(ZSTD_CCtx_setParameter(c, ZSTD_c_compressionLevel, p->level));
    CHK(ZSTD_CCtx_setParameter(c, ZSTD_c_checksumFlag, p->chk));
    if (p->csf >= 0) CHK(ZSTD_CCtx_setParameter(c, ZSTD_c_contentSizeFlag, p->csf));
    if (p->wlog) CHK(ZSTD_CCtx_setParameter(c, ZSTD_c_windowLog, p->wlog));
    if (p->maxbs) CHK(ZSTD_CCtx_setParameter(c, ZSTD_c_maxBlockSize, p->maxbs));
    if (p->tcbs) CHK(ZSTD_CCtx_setParameter(c, ZSTD_c_targetCBlockSize, p->tcbs));
    if (p->split) CHK(ZSTD_CCtx_setParameter(c, ZSTD_c_useBlockSplitter, p->split == 1 ? ZSTD_ps_enable : ZSTD_ps_disable));
    if (p->strat) CHK(ZSTD_CCtx_setParameter(c, ZSTD_c_strategy, p->strat));
    if (p->mm) CHK(ZSTD_CCtx_setParameter(c, ZSTD_c_minMatch, p->mm));
    if (p->ldm) CHK(ZSTD_CCtx_setParameter(c, ZSTD_c_enableLongDistanceMatching, ZSTD_ps_enable));
}

static ZSTD_CCtx* g_cctx; static ZSTD_CCtx* g_gen; static ZSTD_DCtx* g_dctx;
static ZSTD_Sequence* g_seqs; static size_t g_nbSeqs; static size_t g_seqCap;

/* all-literal sequences, one explicit block delimiter per block of bs bytes */
static size_t trivial_seqs(ZSTD_Sequence* s, size_t n, size_t bs)
{
    size_t k = 0, rem = n;
    while (rem) { size_t l = rem < bs ? rem : bs; s[k].offset = 0; s[k].matchLength = 0; s[k].litLength = (unsigned)l; s[k].rep = 0; k++; rem -= l; }
    if (n == 0) { s[0].offset = 0; s[0].matchLength = 0; s[0].litLength = 0; s[0].rep = 0; k = 1; }
    return k;
}

static void prepare_seqs(const P* p, const unsigned char* src, size_t n)
{
    P q = *p; size_t r;
    q.tcbs = 0; q.split = 2;
    apply_params(g_gen, &q);
    r = ZSTD_generateSequences(g_gen, g_seqs, g_seqCap, src, n);
    if (ZSTD_isError(r) || r == 0) {
        size_t bs = (size_t)1 << 17;
        if (p->maxbs && (size_t)p->maxbs < bs) bs = (size_t)p->maxbs;
        if (p->wlog && ((size_t)1 << p->wlog) < bs) bs = (size_t)1 << p->wlog;
        if (bs > 1024) bs = 1024 + (bs - 1024) / 2;   /* stay below the block size of any window adjustment */
        r = trivial_seqs(g_seqs, n, bs < 1024 ? 1024 : bs);
    }
    g_nbSeqs = r;
}

static size_t run_entry(int entry, const P* p, void* dst, size_t cap, const void* src, size_t n)
{
    switch (entry) {
    case E_COMPRESS: return ZSTD_compressCCtx(g_cctx, dst, cap, src, n, p->level);
    case E_COMPRESS2: apply_params(g_cctx, p); return ZSTD_compress2(g_cctx, dst, cap, src, n);
    case E_STREAM2: {
        ZSTD_outBuffer o; ZSTD_inBuffer in; size_t r;
        apply_params(g_cctx, p);
        o.dst = dst; o.size = cap; o.pos = 0; in.src = src; in.size = n; in.pos = 0;
        r = ZSTD_compressStream2(g_cctx, &o, &in, ZSTD_e_end);
        if (ZSTD_isError(r)) return r;
        if (o.pos > cap) return o.pos;               /* reported as an overrun by the caller */
        if (r != 0) return ERROR(dstSize_tooSmall);  /* one pass did not finish: capacity too small */
        return o.pos; }
    case E_MT:   /* multi-threaded one-pass: two workers, smallest job size */
        apply_params(g_cctx, p);
        CHK(ZSTD_CCtx_setParameter(g_cctx, ZSTD_c_nbWorkers, 2));
        CHK(ZSTD_CCtx_setParameter(g_cctx, ZSTD_c_jobSize, (int)MT_JOBSIZE));
        return ZSTD_compress2(g_cctx, dst, cap, src, n);
    case E_DICT: /* raw-content dictionary */
        return ZSTD_compress_usingDict(g_cctx, dst, cap, src, n, g_dict, g_dictSize, p->level);
    default: {
        apply_params(g_cctx, p);
        CHK(ZSTD_CCtx_setParameter(g_cctx, ZSTD_c_blockDelimiters, ZSTD_sf_explicitBlockDelimiters));
        return ZSTD_compressSequences(g_cctx, dst, cap, g_seqs, g_nbSeqs, src, n); }
    }
}

/* ------------------------------------------------------------------ frame analysis (wire blocks + regenerated sizes) */
typedef struct { int type; size_t cs; size_t regen; size_t lit; } wblk;
static wblk g_blocks[4096]; static size_t g_nbBlocks; static size_t g_frameBsMax;
/* regenerated size announced by the literals section header of a compressed block (format, section 3.1.1.3.1.1) */
static size_t lit_size(const unsigned char* p, size_t avail)
{
    unsigned t, f;
    if (avail < 1) return 0;
    t = p[0] & 3; f = (p[0] >> 2) & 3;
    if (t < 2) {   /* raw / rle */
        if (f == 0 || f == 2) return p[0] >> 3;
        if (f == 1) return avail >= 2 ? (size_t)((p[0] | (p[1] << 8)) >> 4) : 0;
        return avail >= 3 ? (size_t)((p[0] | (p[1] << 8) | (p[2] << 16)) >> 4) : 0;
    }
    if (avail < 5) return 0;
    {   unsigned const v = p[0] | (p[1] << 8) | (p[2] << 16) | ((unsigned)p[3] << 24);
        if (f < 2) return (v >> 4) & 0x3FF;
        if (f == 2) return (v >> 4) & 0x3FFF;
        return (v >> 4) & 0x3FFFF; }
}
static unsigned char* g_scratch; static size_t g_scratchCap;

/* returns 0 on success; fills g_blocks; *hs, *chk */
static int analyze_frame(const unsigned char* f, size_t fsize, size_t* hs, int* chk, size_t* total)
{
    ZSTD_frameHeader zfh; size_t pos, dpos = 0;
    g_nbBlocks = 0;
    if (ZSTD_getFrameHeader(&zfh, f, fsize) != 0) return 1;
    *hs = zfh.headerSize; *chk = (int)zfh.checksumFlag; g_frameBsMax = zfh.blockSizeMax;
    if (ZSTD_isError(g_useDict ? ZSTD_decompressBegin_usingDict(g_dctx, g_dict, g_dictSize) : ZSTD_decompressBegin(g_dctx))) return 1;
    pos = 0;
    for (;;) {
        size_t const need = ZSTD_nextSrcSizeToDecompress(g_dctx);
        ZSTD_nextInputType_e const t = ZSTD_nextInputType(g_dctx);
        size_t r;
        if (need == 0) break;
        if (pos + need > fsize) return 1;
        if (t == ZSTDnit_blockHeader && g_nbBlocks < 4096) {
            unsigned const h = f[pos] | (f[pos + 1] << 8) | (f[pos + 2] << 16);
            g_blocks[g_nbBlocks].type = (int)((h >> 1) & 3);
            g_blocks[g_nbBlocks].cs = (g_blocks[g_nbBlocks].type == 1) ? 1 : (h >> 3);
            g_blocks[g_nbBlocks].regen = 0;
            g_blocks[g_nbBlocks].lit = (g_blocks[g_nbBlocks].type == 2 && pos + 3 < fsize) ? lit_size(f + pos + 3, fsize - pos - 3) : 0;
        }
        r = ZSTD_decompressContinue(g_dctx, g_scratch + dpos, g_scratchCap - dpos, f + pos, need);
        if (ZSTD_isError(r)) return 1;
        if (t == ZSTDnit_block || t == ZSTDnit_lastBlock) { if (g_nbBlocks < 4096) g_blocks[g_nbBlocks].regen = r; g_nbBlocks++; dpos += r; }
        else if (t == ZSTDnit_blockHeader) {
            /* empty raw / rle blocks are completed by the header step itself */
            ZSTD_nextInputType_e const t2 = ZSTD_nextInputType(g_dctx);
            if (t2 != ZSTDnit_block && t2 != ZSTDnit_lastBlock) { if (g_nbBlocks < 4096) g_blocks[g_nbBlocks].regen = r; g_nbBlocks++; dpos += r; }
        }
        pos += need;
    }
    *total = dpos;
    return pos == fsize ? 0 : 1;
}

/* ------------------------------------------------------------------ the sweep of one (input, params, entry) */
static region g_dstR, g_srcR, g_ddstR, g_dsrcR, g_ipR;
static size_t decode_any(void* dst, size_t cap, const void* src, size_t size)
{
    return g_useDict ? ZSTD_decompress_usingDict(g_dctx, dst, cap, src, size, g_dict, g_dictSize)
                     : ZSTD_decompressDCtx(g_dctx, dst, cap, src, size);
}
static unsigned char* g_input; static unsigned char* g_ref; static unsigned char* g_out;
static unsigned g_nbBad;

static void bad(const char* what, size_t c, size_t ret)
{
    g_nbBad++;
    printf("BAD %s cap=%zu ret=%zu(%s) :: %s\n", what, c, ret, ZSTD_isError(ret) ? ZSTD_getErrorName(ret) : "ok", g_desc);
}

static unsigned long long fnv(const unsigned char* p, size_t n) { unsigned long long h = 1469598103934665603ULL; size_t i; for (i = 0; i < n; i++) { h ^= p[i]; h *= 1099511628211ULL; } return h; }

/* one compression call under fences; returns the library's return value; *okOut = verified round trip */
static size_t fenced_compress(int entry, const P* p, size_t n, size_t c, int placement, int verify)
{
    unsigned char* const src = region_place(&g_srcR, n, placement);
    unsigned char* dst; size_t r;
    memcpy(src, g_input, n);
    dst = region_place(&g_dstR, c, placement);
    r = run_entry(entry, p, dst, c, src, n);
    if (region_check(&g_dstR, dst, c, placement)) bad("write-outside-dst", c, r);
    if (region_check(&g_srcR, src, n, placement)) bad("write-outside-src", c, r);
    if (memcmp(src, g_input, n)) bad("source-modified", c, r);
    if (!ZSTD_isError(r)) {
        if (r > c) bad("returned-size-exceeds-capacity", c, r);
        else if (verify) {
            /* error-or-valid: whatever was produced must decode to the input, in an exactly sized fenced buffer */
            unsigned char* const ds = region_place(&g_dsrcR, r, 0);
            unsigned char* dd; size_t d;
            memcpy(ds, dst, r);
            dd = region_place(&g_ddstR, n, 0);
            d = decode_any(dd, n, ds, r);
            if (ZSTD_isError(d) || d != n || memcmp(dd, g_input, n)) bad("roundtrip-mismatch", c, d);
            if (region_check(&g_ddstR, dd, n, 0)) bad("decoder-write-outside-dst", c, d);
        }
    }
    return r;
}

/* ------------------------------------------------------------------ decoder side of a case (g_out = the frame, g_input = its content) */
static void set_cap_desc(const char* fmt, size_t a, int b, const char* tag, size_t k)
{
    char* q = strstr(g_desc, " CAP ");
    (void)fmt;
    if (q) snprintf(q, sizeof g_desc - (size_t)(q - g_desc), " CAP %zu %d %s %zu", a, b, tag, k);
}

/* exact / short / long capacities: error below the decoded size, exact content from it on */
static region g_ddstS, g_dsrcS;   /* small regions: cheap to re-arm when many capacities of a small frame are swept */
static void dec_cap(size_t n, size_t csize, size_t c, int placement)
{
    region* const RS = (csize <= 12000) ? &g_dsrcS : &g_dsrcR;
    region* const RD = (c <= 12000) ? &g_ddstS : &g_ddstR;
    unsigned char* const ds = region_place(RS, csize, placement); unsigned char* dd; size_t d;
    memcpy(ds, g_out, csize);
    dd = region_place(RD, c, placement);
    set_cap_desc("", c, placement, "DECODE", 0);
    d = decode_any(dd, c, ds, csize);
    if (region_check(RD, dd, c, placement)) bad("decoder-write-outside-dst", c, d);
    if (c < n) { if (!ZSTD_isError(d)) bad("decoder-accepted-short-capacity", c, d); }
    else if (ZSTD_isError(d) || d != n || memcmp(dd, g_input, n)) bad("decoder-failed-with-exact-capacity", c, d);
}


/* buffer-less decoding (ZSTD_decompressContinue): every block gets EXACTLY the capacity it regenerates, in a linear
   buffer of n bytes that ends at the fence (a store past a block's capacity hits the canary that marks the room of the
   later blocks, or the fence for the last block); with one byte less for block [shortAt] the call must fail */
static void dec_bufferless(size_t n, size_t csize, long long shortAt)
{
    unsigned char* const ds = region_place((csize <= 12000) ? &g_dsrcS : &g_dsrcR, csize, 0);
    region* const RD = (n <= 12000) ? &g_ddstS : &g_ddstR;
    unsigned char* const base = region_place(RD, n, 0);
    size_t pos = 0, dpos = 0, k = 0;
    memcpy(ds, g_out, csize);
    set_cap_desc("", n, 0, "BUFLESS", (size_t)(shortAt + 1));
    if (ZSTD_isError(g_useDict ? ZSTD_decompressBegin_usingDict(g_dctx, g_dict, g_dictSize) : ZSTD_decompressBegin(g_dctx))) { bad("bufferless-begin-failed", n, 0); return; }
    for (;;) {
        size_t const need = ZSTD_nextSrcSizeToDecompress(g_dctx);
        ZSTD_nextInputType_e const t = ZSTD_nextInputType(g_dctx);
        size_t cap, r; int const isBlock = (t == ZSTDnit_block || t == ZSTDnit_lastBlock);
        if (need == 0) break;
        if (pos + need > csize) { bad("bufferless-wants-more-than-the-frame", n, need); return; }
        cap = 0;
        if (isBlock && k < g_nbBlocks) { cap = g_blocks[k].regen; if ((long long)k == shortAt) { if (cap == 0) return; cap--; } }
        memset(base + dpos + cap, CANARY, n - dpos - cap);
        r = ZSTD_decompressContinue(g_dctx, base + dpos, cap, ds + pos, need);
        { size_t j; for (j = dpos + cap; j < n; j++) if (base[j] != CANARY) { bad("bufferless-write-beyond-block-capacity", cap, r); return; } }
        if (region_check(RD, base, n, 0)) { bad("bufferless-write-below-dst", cap, r); return; }
        if (isBlock && (long long)k == shortAt) { if (!ZSTD_isError(r)) bad("bufferless-accepted-short-block-capacity", cap, r); return; }
        if (ZSTD_isError(r)) { bad("bufferless-failed-with-exact-block-capacity", cap, r); return; }
        if (r > cap) { bad("bufferless-returned-more-than-capacity", cap, r); return; }
        if (isBlock) { k++; } else if (t == ZSTDnit_blockHeader) { ZSTD_nextInputType_e const t2 = ZSTD_nextInputType(g_dctx); if (t2 != ZSTDnit_block && t2 != ZSTDnit_lastBlock) k++; }
        dpos += r; pos += need;
    }
    if (shortAt < 0 && (dpos != n || memcmp(base, g_input, n))) bad("bufferless-wrong-content", n, dpos);
}

/* truncated sources (read side fenced): an error, never a fault; the inspectors must not read past the end either */
static void dec_trunc(size_t n, size_t csize, unsigned long long iseed, size_t k)
{
    size_t tl; unsigned char* ds; unsigned char* dd; size_t d; size_t const c = (k & 1) ? n : n / 2;
    if (k < 20) tl = k; else if (k < 30) tl = csize > (k - 19) ? csize - (k - 19) : 0; else { rseed(iseed + k); tl = csize ? rnd() % csize : 0; }
    if (tl > csize) return;
    ds = region_place(&g_dsrcR, tl, 0); memcpy(ds, g_out, tl);
    dd = region_place(&g_ddstR, c, 0);
    set_cap_desc("", c, 0, "TRUNC", k);
    d = decode_any(dd, c, ds, tl);
    if (region_check(&g_ddstR, dd, c, 0)) bad("decoder-write-outside-dst", c, d);
    if (tl > 0 && tl < csize && !ZSTD_isError(d)) bad("decoder-accepted-truncated-frame", c, d);   /* 0 bytes = zero frames: valid */
    (void)ZSTD_findFrameCompressedSize(ds, tl); (void)ZSTD_decompressBound(ds, tl); (void)ZSTD_getFrameContentSize(ds, tl);
    (void)ZSTD_findDecompressedSize(ds, tl); (void)ZSTD_decompressionMargin(ds, tl);
}

/* damaged sources: anything may be returned, nothing may fault, a success must respect the capacity */
static void dec_damage(size_t n, size_t csize, unsigned long long iseed, size_t k)
{
    unsigned char* ds = region_place(&g_dsrcR, csize, 0); unsigned char* dd; size_t d; unsigned j, nflips; size_t c;
    memcpy(ds, g_out, csize);
    rseed(iseed * 977 + k + n); nflips = 1 + rnd() % 3;
    for (j = 0; j < nflips && csize; j++) { size_t at = (rnd() % 4 == 0) ? rnd() % (csize < 24 ? csize : 24) : rnd() % csize; ds[at] ^= (unsigned char)(1u << (rnd() % 8)); }
    c = (k % 3 == 0) ? n : (k % 3 == 1) ? (n > 7 ? n - 7 : 0) : n + 5;
    dd = region_place(&g_ddstR, c, (int)(k & 1));
    set_cap_desc("", c, (int)(k & 1), "DAMAGE", k);
    d = decode_any(dd, c, ds, csize);
    if (region_check(&g_ddstR, dd, c, (int)(k & 1))) bad("decoder-write-outside-dst", c, d);
    if (!ZSTD_isError(d) && d > c) bad("decoder-returned-size-exceeds-capacity", c, d);
    (void)ZSTD_findFrameCompressedSize(ds, csize); (void)ZSTD_decompressBound(ds, csize); (void)ZSTD_decompressionMargin(ds, csize);
}

static int cmp_sz(const void* a, const void* b) { size_t x = *(const size_t*)a, y = *(const size_t*)b; return x < y ? -1 : x > y; }

static void sweep_case(int kind, unsigned long long iseed, size_t n, int entry, const P* p, int tier, unsigned caseId, size_t startCap)
{
    size_t const bound = ZSTD_compressBound(n);
    static size_t caps[26000]; size_t nc = 0, i;
    size_t csize, hs = 0, total = 0, bsmax, minok = (size_t)-1, maxfail = (size_t)-1; int haveFail = 0;
    int chk = 0; unsigned long long lastHash = 0; size_t lastRet = (size_t)-1;
    size_t nonmono = 0; size_t firstNonmono = 0;
    int const placement0 = (int)(caseId & 1);

    gen_input(g_input, n, kind, iseed);
    g_useDict = (entry == E_DICT);
    if (entry == E_SEQ) prepare_seqs(p, g_input, n);
    snprintf(g_desc, sizeof g_desc, "one %d %llu %zu %d %d %d %d %d %d %d %d %d %d %d CAP %zu %d", kind, iseed, n, entry,
             p->level, p->chk, p->csf, p->wlog, p->maxbs, p->tcbs, p->split, p->strat, p->mm, p->ldm, bound + 64, placement0);

    g_shared[0] = (size_t)-1;
    /* ample run */
    csize = fenced_compress(entry, p, n, bound + 64, placement0, 1);
    if (ZSTD_isError(csize)) { bad("failed-with-ample-capacity", bound + 64, csize); return; }
    memcpy(g_out, (placement0 ? g_dstR.lo : g_dstR.hi - (bound + 64)), csize);
    bsmax = (entry == E_MT) ? ((size_t)1 << 17) : g_cctx->blockSize;
    if (analyze_frame(g_out, csize, &hs, &chk, &total) || total != n) { bad("ample-output-not-decodable-by-bufferless-api", bound + 64, csize); return; }
    /* in-place decoding with the margin of the ZSTD_DECOMPRESSION_MARGIN macro (single frame, block size of the context) */
    if (entry != E_SEQ) {
        size_t const bsz = bsmax ? bsmax : 1;
        size_t const margin = ZSTD_DECOMPRESSION_MARGIN(n, bsz); size_t const B = n + margin;
        if (B >= csize) {
            unsigned char* const buf = region_place(&g_ipR, B, 0); size_t r2;
            memmove(buf + B - csize, g_out, csize);
            { char* q = strstr(g_desc, " CAP "); if (q) snprintf(q, sizeof g_desc - (size_t)(q - g_desc), " CAP %zu 0 INPLACE 0", B); }
            r2 = decode_any(buf, B, buf + B - csize, csize);
            if (region_check(&g_ipR, buf, B, 0)) bad("inplace-write-outside-buffer", B, r2);
            if (ZSTD_isError(r2) || r2 != n || memcmp(buf, g_input, n)) bad("inplace-with-macro-margin-failed", B, r2);
            { char* q = strstr(g_desc, " CAP "); if (q) snprintf(q, sizeof g_desc - (size_t)(q - g_desc), " CAP %zu %d", bound + 64, placement0); }
        } else bad("macro-margin-buffer-smaller-than-frame", B, csize);
    }

    /* capacities: header area, every wire-block edge, every raw-model block edge, final size, bound */
#define ADD(v) do { long long v_ = (long long)(v); if (v_ >= 0 && (size_t)v_ <= bound + 3 && nc < 25990) caps[nc++] = (size_t)v_; } while (0)
    for (i = 0; i <= 26; i++) ADD(i);
    if (p->tcbs) for (i = 27; i <= 330; i++) ADD(i);          /* super-block writers: dense small capacities */
    if (entry == E_SEQ) for (i = 27; i <= 48; i++) ADD(i);
    if (csize <= (size_t)(tier ? 12000 : 2500)) for (i = 27; i <= csize + 8; i++) ADD(i);   /* small outputs: every capacity */
    { size_t e = hs; size_t stride = g_nbBlocks > 40 ? g_nbBlocks / 40 : 1;
      for (i = 0; i < g_nbBlocks; i++) { e += 3 + g_blocks[i].cs; if (i % stride == 0 || i + 3 > g_nbBlocks) { long long d; for (d = -2; d <= 7; d++) ADD((long long)e + d); } } }
    { size_t e = hs, rem = n; size_t nb = bsmax ? (n + bsmax - 1) / bsmax : 0; size_t stride = nb > 40 ? nb / 40 : 1; size_t k = 0;
      while (rem) { size_t l = rem < bsmax ? rem : bsmax; e += 3 + l; rem -= l; if (k % stride == 0 || rem < 3 * bsmax) { long long d; for (d = -2; d <= 7; d++) ADD((long long)e + d); } k++; } }
    { long long d; for (d = -4; d <= 8; d++) { ADD((long long)csize + d); ADD((long long)bound + d); } }
    { unsigned k, extra = tier ? 24 : 8; rseed(iseed ^ 0xC06u ^ (unsigned long long)n); for (k = 0; k < extra; k++) ADD(rnd() % (bound + 4)); }
    qsort(caps, nc, sizeof caps[0], cmp_sz);
    { size_t w = 0; for (i = 0; i < nc; i++) if (w == 0 || caps[w - 1] != caps[i]) caps[w++] = caps[i]; nc = w; }

    for (i = 0; i < nc; i++) {
        size_t const c = caps[i]; int const placement = (int)((caseId + i) & 1);
        size_t r;
        if (c < startCap) continue;     /* capacities already known to fault (reported by a previous child) */
        g_shared[0] = c;
        { char* q = strstr(g_desc, " CAP "); if (q) snprintf(q, sizeof g_desc - (size_t)(q - g_desc), " CAP %zu %d", c, placement); }
        r = fenced_compress(entry, p, n, c, placement, 0);
        if (!ZSTD_isError(r) && r <= c) {
            /* verify each distinct output once */
            unsigned char* const dst = placement ? g_dstR.lo : g_dstR.hi - c;
            unsigned long long const h = fnv(dst, r);
            if (r != lastRet || h != lastHash) { (void)fenced_compress(entry, p, n, c, placement, 1); lastRet = r; lastHash = h; }
            if (minok == (size_t)-1) minok = c;
        } else if (ZSTD_isError(r)) {
            if (c >= bound) bad("bound-capacity-rejected", c, r);
            if (minok != (size_t)-1) { if (!nonmono) firstNonmono = c; nonmono++; }
            maxfail = c; haveFail = 1;
        }
    }
    g_shared[0] = (size_t)-1;
    /* refine the threshold: first success must be adjacent to a failure */
    if (minok != (size_t)-1 && minok > 0) {
        size_t lo = 0, hi = minok;   /* invariant: hi succeeds; find smallest success above the largest failure below minok */
        { size_t j; int found = 0; for (j = 0; j < nc; j++) if (caps[j] < minok) { lo = caps[j]; found = 1; } if (!found) lo = 0; }
        if (startCap && lo + 1 < startCap) lo = startCap - 1;
        while (hi - lo > 1) {
            size_t const mid = lo + (hi - lo) / 2; size_t r;
            { char* q = strstr(g_desc, " CAP "); if (q) snprintf(q, sizeof g_desc - (size_t)(q - g_desc), " CAP %zu %d", mid, 0); }
            r = fenced_compress(entry, p, n, mid, 0, 1);
            if (!ZSTD_isError(r) && r <= mid) hi = mid; else lo = mid;
        }
        minok = hi;
    }
    printf("CASE id=%u kind=%s iseed=%llu n=%zu entry=%s level=%d chk=%d csf=%d wlog=%d maxbs=%d tcbs=%d split=%d strat=%d mm=%d ldm=%d "
           "bound=%zu csize=%zu hs=%zu fchk=%d bsmax=%zu applied_wlog=%u caps=%zu minok=%lld maxfail=%lld nonmono=%zu firstnonmono=%zu blocks=",
           caseId, kindName[kind], iseed, n, entryName[entry], p->level, p->chk, p->csf, p->wlog, p->maxbs, p->tcbs, p->split, p->strat, p->mm, p->ldm,
           bound, csize, hs, chk, bsmax, g_cctx->appliedParams.cParams.windowLog, nc,
           minok == (size_t)-1 ? -1LL : (long long)minok, haveFail ? (long long)maxfail : -1LL, nonmono, firstNonmono);
    for (i = 0; i < g_nbBlocks && i < 4096; i++) printf("%s%d:%zu:%zu", i ? "," : "", g_blocks[i].type, g_blocks[i].cs, g_blocks[i].regen);
    if (g_nbBlocks == 0) printf("-");
    printf("\n");

    /* ---- decompression side: capacities around the exact size, truncated and damaged sources ---- */
    g_shared[0] = (size_t)-1;
    {   static size_t dc[4200]; size_t ndc = 0, k; size_t e = 0;
        size_t const dmax = 2 * n + 400;
#define DADD(v) do { long long v_ = (long long)(v); if (v_ >= 0 && (size_t)v_ <= dmax && (size_t)v_ <= n + (1u << 17) + 400 && ndc < 4190) dc[ndc++] = (size_t)v_; } while (0)
        DADD(0); DADD(1); DADD(n / 2); DADD((long long)n - 1); DADD(n); DADD(n + 1);
        for (k = 0; k < g_nbBlocks && k < 6; k++) { e += g_blocks[k].regen; DADD((long long)e - 1); DADD(e); }
        /* capacities ABOVE the content size: the single-pass decoder places literals inside dst when
           remaining capacity > blockSizeMax + WILDCOPY_OVERLENGTH + litSize + WILDCOPY_OVERLENGTH; wild copies may then
           read up to 32 bytes past the literals - which must still be inside dst */
        if (n <= (size_t)(tier ? 8000 : 1800)) { size_t c; for (c = n + 2; c <= dmax; c++) DADD(c); }
        else {
            static const int ds_[] = { -2, -1, 0, 1, 2, 3, 4, 5, 6, 8, 10, 12, 15, 16, 17, 24, 30, 31, 32, 33, 34, 35, 36, 40, 48, 56, 62, 63, 64, 65, 66, 70 };
            size_t before = 0, j;
            for (k = 0; k < g_nbBlocks; k++) {
                if ((k < 5 || k + 5 >= g_nbBlocks) && g_blocks[k].type == 2)
                    for (j = 0; j < sizeof ds_ / sizeof ds_[0]; j++) DADD((long long)(before + g_frameBsMax + 32 + g_blocks[k].lit) + ds_[j]);
                before += g_blocks[k].regen;
            }
            DADD(n + 2); DADD(n + 31); DADD(n + 32); DADD(n + 33); DADD(n + 64); DADD(n + 65); DADD(2 * n); DADD(dmax);
        }
        /* dst ends at the upper fence for every capacity above the content size (reads past dst fault) */
        for (k = 0; k < ndc; k++) dec_cap(n, csize, dc[k], dc[k] > n ? 0 : (int)((caseId + k) & 1));
        dec_bufferless(n, csize, -1);
        for (k = 0; k < g_nbBlocks && k < 3; k++) dec_bufferless(n, csize, (long long)k);
        if (g_nbBlocks > 3) dec_bufferless(n, csize, (long long)g_nbBlocks - 1);
        for (k = 0; k < 40; k++) dec_trunc(n, csize, iseed, k);
        for (k = 0; k < (size_t)(tier ? 60 : 24); k++) dec_damage(n, csize, iseed, k);
    }
}

/* ------------------------------------------------------------------ case list */
static const size_t sizesQuick[] = { 0, 1, 2, 3, 5, 6, 12, 17, 18, 19, 255, 256, 257, 1023, 1024, 1025, 2049, 8191, 8193, 65536,
                                     131071, 131072, 131073, 132096, 262143, 262144, 262145, 300000, 393221 };
typedef struct { int kind; unsigned long long iseed; size_t n; int entry; P p; } kase;

static P mkP(int level, int chk, int csf, int wlog, int maxbs, int tcbs, int split, int strat, int mm, int ldm)
{ P p; p.level = level; p.chk = chk; p.csf = csf; p.wlog = wlog; p.maxbs = maxbs; p.tcbs = tcbs; p.split = split; p.strat = strat; p.mm = mm; p.ldm = ldm; return p; }

static size_t build_cases(kase* ks, size_t maxk, unsigned long long seed, int tier)
{
    size_t k = 0; unsigned i;
    size_t const nsz = sizeof sizesQuick / sizeof sizesQuick[0];
    rseed(seed * 7919 + 17);
#define PUSH(kd, is, nn, en, pp) do { if (k < maxk) { ks[k].kind = (kd); ks[k].iseed = (is); ks[k].n = (nn); ks[k].entry = (en); ks[k].p = (pp); k++; } } while (0)
    /* (a) incompressible input x every boundary size x simple parameter families: the exact-model cases */
    for (i = 0; i < nsz; i++) {
        size_t const n = sizesQuick[i]; unsigned long long is = seed * 1000 + i;
        PUSH(K_NOISE, is, n, E_COMPRESS, mkP((i % 3 == 0) ? 1 : (i % 3 == 1) ? 3 : -5, 0, -1, 0, 0, 0, 0, 0, 0, 0));
        PUSH(K_NOISE, is, n, E_COMPRESS2, mkP(1 + (int)(i % 4), 1, (int)(i % 2), 0, 0, 0, 0, 0, 0, 0));
        if (i % 2 == 0) PUSH(K_NOISE, is, n, E_STREAM2, mkP(2, (int)(i % 4 == 0), -1, 0, 0, 0, 0, 0, 0, 0));
        if (i % 2 == 1) PUSH(K_NOISE, is, n, E_SEQ, mkP(3, (int)(i % 4 == 1), -1, 0, 0, 0, 0, 0, 0, 0));
        if (i % 3 == 0) PUSH(K_NOISE, is, n, E_COMPRESS2, mkP(1, (int)(i & 1), -1, 10 + (int)(i % 8), 0, 0, 0, 0, 0, 0));       /* small windows */
        if (i % 3 == 1) PUSH(K_NOISE, is, n, E_COMPRESS2, mkP(3, 0, 0, 0, 1024 << (i % 5), 0, 0, 0, 0, 0));                      /* maxBlockSize */
        if (i % 3 == 2) PUSH(K_NOISE, is, n, E_COMPRESS2, mkP(3, 1, -1, 0, 0, 1340 + (int)(rnd() % 4000), 0, 0, 0, 0));           /* targetCBlockSize */
    }
    /* (b) structured inputs x parameter families */
    {   unsigned const reps = tier ? 90 : 30;
        for (i = 0; i < reps; i++) {
            int const kind = 1 + (int)(i % (K_NB - 1));
            size_t n; int entry = (int)(rnd() % E_NB); P p; unsigned long long is = seed * 100000 + i;
            unsigned r = rnd() % 10;
            if (r < 4) n = sizesQuick[rnd() % nsz]; else if (r < 7) n = rnd() % 70000; else if (r < 9) n = 120000 + rnd() % 150000; else n = 262144 + rnd() % 200000;
            p = mkP((int)(rnd() % 7) + 1, (int)(rnd() & 1), (rnd() % 4 == 0) ? 0 : -1, 0, 0, 0, 0, 0, 0, 0);
            switch (rnd() % 8) {
            case 0: p.tcbs = 1340 + (int)(rnd() % 20000); break;
            case 1: p.split = 1; break;
            case 2: p.split = 2; break;
            case 3: p.wlog = 10 + (int)(rnd() % 9); break;
            case 4: p.maxbs = 1024 + (int)(rnd() % 100000); break;
            case 5: p.strat = 1 + (int)(rnd() % 9); if (p.strat >= 7 && n > 140000) n = 140000 + n % 3000; break;
            case 6: p.tcbs = 1340 + (int)(rnd() % 3000); p.wlog = 10 + (int)(rnd() % 8); p.split = 1; break;
            default: p.ldm = (int)(rnd() & 1); p.mm = 3 + (int)(rnd() % 4); break;
            }
            if (p.level > 5 && n > 200000) p.level = 3;
            if (entry == E_COMPRESS || entry == E_DICT) {   /* ZSTD_compressCCtx / ZSTD_compress_usingDict take a level only */
                int lv[] = { 1, 3, -1, 5, 9, 13 }; int l = lv[rnd() % 6]; if (l > 5 && n > 140000) l = 2;
                p = mkP(l, 0, -1, 0, 0, 0, 0, 0, 0, 0); }
            if (entry == E_MT) p = mkP(1 + (int)(rnd() % 3), (int)(rnd() & 1), -1, 0, 0, 0, 0, 0, 0, 0);   /* default window / block size */
            PUSH(kind, is, n, entry, p);
        }
    }
    /* (c) all strategies, pre-splitter on (full blocks, compressible then incompressible so that savings >= 3) */
    for (i = 1; i <= 9; i++) {
        if (!tier && (i == 8)) continue;
        PUSH(K_ALT8K, seed * 333 + i, 131072 + 65536 + (size_t)(rnd() % 9000), (i & 1) ? E_COMPRESS2 : E_STREAM2, mkP(3, (int)(i & 1), -1, 0, 0, 0, (i % 3 == 0) ? 2 : 0, (int)i, 0, 0));
        PUSH(K_ALTSTAT, seed * 555 + i, 262144 + 131072 + (size_t)(rnd() % 5000), E_COMPRESS2, mkP(3, 0, -1, 0, 0, 0, (int)(i % 3), (int)(i > 6 ? 6 : i), 0, 0));
    }
    /* (d) multi-threaded one-pass compression: 2 and 3 jobs of 512 KiB, exact multiple, checksum on/off */
    {   static const size_t mtn[] = { 600000, 1048576, 1100000 };
        for (i = 0; i < 3; i++) {
            if (!tier && i == 1 && (seed & 1)) continue;
            PUSH(K_NOISE, seed * 77 + i, mtn[i], E_MT, mkP(1, (int)((seed + i) & 1), -1, 0, 0, 0, 0, 0, 0, 0));
        }
        PUSH(K_TEXT, seed * 79, 700000 + (size_t)(rnd() % 5000), E_MT, mkP(1, 1, -1, 0, 0, 0, 0, 0, 0, 0));
        if (tier) PUSH(K_ALT8K, seed * 81, 900000, E_MT, mkP(3, 0, -1, 0, 0, 0, 0, 0, 0, 0));
    }
    /* (e) dictionary (raw content) */
    for (i = 0; i < 6; i++) {
        static const size_t dn[] = { 0, 1, 300, 5000, 131072, 200000 };
        PUSH((i & 1) ? K_TEXT : K_NOISE, seed * 91 + i, dn[i], E_DICT, mkP((int)(1 + i % 3), 0, -1, 0, 0, 0, 0, 0, 0, 0));
    }
    /* (f) RLE blocks in the middle of a frame: constant input cut in 1 KiB blocks (the first block may not be RLE) */
    PUSH(K_RLE, seed * 93, 5000, E_COMPRESS2, mkP(3, 1, -1, 10, 0, 0, 0, 0, 0, 0));
    PUSH(K_RLE, seed * 94, 4096, E_STREAM2, mkP(1, 0, -1, 10, 0, 0, 1, 0, 0, 0));
    PUSH(K_RLE, seed * 95, 6000, E_SEQ, mkP(3, 1, -1, 10, 0, 0, 0, 0, 0, 0));
    PUSH(K_RLE, seed * 96, 9000, E_COMPRESS2, mkP(3, 0, -1, 11, 0, 1340, 0, 0, 0, 0));
    return k;
}

/* ------------------------------------------------------------------ inspectors on multi-frame inputs */
static void hexout(const unsigned char* p, size_t n) { size_t i; for (i = 0; i < n; i++) printf("%02x", p[i]); }

static void inspect_line(const char* tag, const unsigned char* src, size_t size, int legacyCheck)
{
    ZSTD_frameHeader zfh; size_t r; unsigned long long u;
    (void)legacyCheck;
    printf("%s hex=", tag); hexout(src, size); if (!size) printf("-");
    printf(" :: I fhs=");
    if (size >= 5) { r = ZSTD_frameHeaderSize(src, size); if (ZSTD_isError(r)) printf("ERR"); else printf("%zx", r); } else printf("ERR");
    r = ZSTD_getFrameHeader(&zfh, src, size);
    if (ZSTD_isError(r)) printf(" gfh=ERR");
    else if (r > 0) printf(" gfh=NEED:%zx", r);
    else printf(" gfh=OK:%llx:%llx:%x:%d:%x:%x:%d", zfh.frameContentSize, zfh.windowSize, zfh.blockSizeMax, zfh.frameType == ZSTD_skippableFrame, zfh.headerSize, zfh.dictID, zfh.checksumFlag ? 1 : 0);
    r = ZSTD_findFrameCompressedSize(src, size); if (ZSTD_isError(r)) printf(" ffcs=ERR"); else printf(" ffcs=%zx", r);
    u = ZSTD_decompressBound(src, size); if (u == ZSTD_CONTENTSIZE_ERROR) printf(" dbound=ERR"); else printf(" dbound=%llx", u);
    r = ZSTD_decompressionMargin(src, size); if (ZSTD_isError(r)) printf(" margin=ERR"); else printf(" margin=%zx", r);
    printf(" fds=%llx gfcs=%llx", ZSTD_findDecompressedSize(src, size), ZSTD_getFrameContentSize(src, size));
}

/* actual decode facts: bytes consumed for the first frame by the streaming decoder, total decoded size by the
   one-shot decoder, and in-place decoding with the advertised margin */
static void decode_facts(const unsigned char* src, size_t size, size_t expectTotal, const unsigned char* expect)
{
    ZSTD_DStream* ds = ZSTD_createDStream(); ZSTD_inBuffer in; ZSTD_outBuffer o; size_t r = 1; size_t guard = 0;
    size_t d, margin;
    in.src = src; in.size = size; in.pos = 0;
    ZSTD_initDStream(ds);
    while (r != 0 && guard++ < 100000) { o.dst = g_scratch; o.size = g_scratchCap; o.pos = 0; r = ZSTD_decompressStream(ds, &o, &in); if (ZSTD_isError(r)) break; if (in.pos == in.size && o.pos == 0 && r != 0) break; }
    if (r == 0) printf(" consumed_first=%zx", in.pos); else printf(" consumed_first=ERR");
    ZSTD_freeDStream(ds);
    d = ZSTD_decompressDCtx(g_dctx, g_scratch, g_scratchCap, src, size);
    if (ZSTD_isError(d)) printf(" decoded=ERR"); else printf(" decoded=%zx", d);
    if (!ZSTD_isError(d) && expect && (d != expectTotal || memcmp(g_scratch, expect, d))) printf(" CONTENT-MISMATCH");
    margin = ZSTD_decompressionMargin(src, size);
    if (ZSTD_isError(margin) || ZSTD_isError(d)) printf(" inplace=NA");
    else {
        size_t const B = d + margin;
        if (B < size) printf(" inplace=NOFIT");
        else {
            unsigned char* const buf = region_place(&g_ipR, B, 0); size_t r2;
            memmove(buf + B - size, src, size);
            r2 = ZSTD_decompressDCtx(g_dctx, buf, B, buf + B - size, size);
            if (region_check(&g_ipR, buf, B, 0)) printf(" inplace=OUTSIDE");
            else if (ZSTD_isError(r2)) printf(" inplace=ERR:%s", ZSTD_getErrorName(r2));
            else if (r2 != d || memcmp(buf, g_scratch, d)) printf(" inplace=WRONG");
            else printf(" inplace=OK");
        }
    }
    printf("\n");
}

static void frames_mode(unsigned long long seed, int tier, unsigned shard, unsigned nshards)
{
    unsigned const ncases = tier ? 160 : 60; unsigned ci;
    size_t const maxIn = 300000;
    unsigned char* multi = (unsigned char*)malloc(5 * (maxIn + 4096) + 65536);
    unsigned char* plain = (unsigned char*)malloc(5 * maxIn + 16);
    unsigned char* one = (unsigned char*)malloc(maxIn);
    if (!multi || !plain || !one) exit(2);
    for (ci = 0; ci < ncases; ci++) {
        size_t msize = 0, psize = 0; unsigned nf, f; char tag[64];
        if (ci % nshards != shard) continue;
        snprintf(g_desc, sizeof g_desc, "frames %llu %d %u %u case=%u", seed, tier, shard, nshards, ci);
        rseed(seed * 4099 + ci);
        nf = 1 + rnd() % 4;
        for (f = 0; f < nf; f++) {
            unsigned const what = rnd() % 10;
            if (what < 2) {  /* skippable frame */
                size_t const sl = (rnd() % 3 == 0) ? 0 : rnd() % 300; size_t k; size_t r;
                for (k = 0; k < sl; k++) one[k] = (unsigned char)rnd();
                r = ZSTD_writeSkippableFrame(multi + msize, sl + 8, one, sl, rnd() % 16); if (ZSTD_isError(r)) exit(2);
                msize += r;
            } else {
                int const kind = (int)(rnd() % K_NB); size_t n; P p; size_t r; unsigned long long is = seed * 77 + ci * 10 + f;
                unsigned const sz = rnd() % 8; unsigned long long save = 0;
                n = sz == 0 ? 0 : sz == 1 ? 1 + rnd() % 300 : sz < 5 ? rnd() % 40000 : sz < 7 ? 100000 + rnd() % 80000 : 131072 + rnd() % 150000;
                p = mkP(1 + (int)(rnd() % 4), (int)(rnd() & 1), -1, (rnd() % 3 == 0) ? 10 + (int)(rnd() % 10) : 0, (rnd() % 5 == 0) ? 1024 + (int)(rnd() % 50000) : 0,
                        (rnd() % 5 == 0) ? 1340 + (int)(rnd() % 5000) : 0, (int)(rnd() % 3), 0, 0, 0);
                save = g_rng;
                gen_input(one, n, kind, is);
                g_rng = save;
                apply_params(g_cctx, &p);
                if (rnd() % 3 == 0) {  /* unknown content size: streaming without a pledged size */
                    ZSTD_outBuffer o; ZSTD_inBuffer in; size_t half = n / 2;
                    o.dst = multi + msize; o.size = ZSTD_compressBound(n) + 4096; o.pos = 0;
                    in.src = one; in.size = half; in.pos = 0;
                    r = ZSTD_compressStream2(g_cctx, &o, &in, ZSTD_e_continue); if (ZSTD_isError(r)) exit(2);
                    if (rnd() & 1) { r = ZSTD_compressStream2(g_cctx, &o, &in, ZSTD_e_flush); if (ZSTD_isError(r)) exit(2); }
                    in.size = n;
                    do { r = ZSTD_compressStream2(g_cctx, &o, &in, ZSTD_e_end); if (ZSTD_isError(r)) exit(2); } while (r);
                    r = o.pos;
                } else {
                    r = ZSTD_compress2(g_cctx, multi + msize, ZSTD_compressBound(n), one, n); if (ZSTD_isError(r)) exit(2);
                }
                msize += r; memcpy(plain + psize, one, n); psize += n;
            }
        }
        snprintf(tag, sizeof tag, "F id=%u nf=%u", ci, nf);
        inspect_line(tag, multi, msize, 1); decode_facts(multi, msize, psize, plain);
        /* truncations and single-byte damage in the header area: inspector results only */
        {   unsigned k;
            for (k = 0; k < 6; k++) {
                size_t tl = (k < 3) ? rnd() % (msize < 24 ? msize + 1 : 24) : (msize ? rnd() % msize : 0);
                snprintf(tag, sizeof tag, "T id=%u k=%u", ci, k);
                inspect_line(tag, multi, tl, 1); printf("\n");
            }
            for (k = 0; k < 6 && msize; k++) {
                size_t at = rnd() % (msize < 20 ? msize : 20); unsigned char old = multi[at];
                multi[at] ^= (unsigned char)(1u << (rnd() % 8));
                /* keep away from legacy magic numbers: not modelled */
                if (!(msize >= 4 && multi[1] == 0xB5 && multi[2] == 0x2F && multi[3] == 0xFD && multi[0] != 0x28 && multi[0] >= 0x1E && multi[0] <= 0x27)) {
                    snprintf(tag, sizeof tag, "D id=%u k=%u", ci, k);
                    inspect_line(tag, multi, msize, 1); printf("\n");
                }
                multi[at] = old;
            }
        }
    }
    /* corpus: frames for which the in-place margin is tight - incompressible content cut in the smallest blocks
       (window 1 KiB): the margin is then exactly header + checksum + 3 bytes per block + one block */
    if (shard == 0) {
        static const size_t tn[] = { 5000, 30000, 200000, 205824 }; unsigned k;
        for (k = 0; k < 4; k++) {
            P p = mkP(1, (int)(k & 1), (k == 2) ? 0 : -1, 10, 0, 0, 0, 0, 0, 0); size_t r; size_t msize = 0; char tag[64];
            snprintf(g_desc, sizeof g_desc, "frames %llu %d %u %u corpus=%u", seed, tier, shard, nshards, k);
            gen_input(one, tn[k], K_NOISE, 4242 + k);
            /* k == 3: a first block that compresses only slightly (7-bit symbols), then noise: the first block is a
               full-size compressed block and almost nothing is gained before it */
            if (k == 3) { size_t j; for (j = 0; j < 1024; j++) one[j] &= 0x7F; }
            apply_params(g_cctx, &p);
            if (k == 1) { r = ZSTD_writeSkippableFrame(multi, 64, "skip", 4, 7); if (ZSTD_isError(r)) exit(2); msize += r; }
            r = ZSTD_compress2(g_cctx, multi + msize, ZSTD_compressBound(tn[k]), one, tn[k]); if (ZSTD_isError(r)) exit(2);
            msize += r;
            snprintf(tag, sizeof tag, "F id=corpus%u nf=%u", k, k == 1 ? 2u : 1u);
            inspect_line(tag, multi, msize, 1); decode_facts(multi, msize, tn[k], one);
        }
    }
    /* hand-made valid frame whose compressed blocks are LARGER than what they regenerate (never emitted by the
       library's compressor): RLE block of 1024 bytes, then k compressed blocks "1 raw literal, 0 sequences" */
    if (shard == 0) {
        unsigned k; size_t pos = 0; unsigned const kk = 1010;
        unsigned char* f = multi;
        f[pos++] = 0x28; f[pos++] = 0xB5; f[pos++] = 0x2F; f[pos++] = 0xFD; f[pos++] = 0x00; f[pos++] = 0x00;   /* window 1 KiB, no FCS */
        { unsigned h = 0 + (1u << 1) + (1024u << 3); f[pos++] = (unsigned char)h; f[pos++] = (unsigned char)(h >> 8); f[pos++] = (unsigned char)(h >> 16); f[pos++] = 'R'; }
        for (k = 0; k < kk; k++) {
            unsigned h = (k == kk - 1 ? 1u : 0u) + (2u << 1) + (3u << 3);
            f[pos++] = (unsigned char)h; f[pos++] = (unsigned char)(h >> 8); f[pos++] = (unsigned char)(h >> 16);
            f[pos++] = 0x08; f[pos++] = (unsigned char)('a' + k % 26); f[pos++] = 0x00;
        }
        inspect_line("X id=expanding nf=1", f, pos, 1); decode_facts(f, pos, 0, NULL);
    }
    free(multi); free(plain); free(one);
}


/* ------------------------------------------------------------------ streaming with many calls: every buffer fenced */
static region g_sdstR, g_ssrcR;
#define SCHUNK_MAX 65536u
/* compress g_input[0..n) with ZSTD_compressStream2, output buffers of outChunk bytes, input pieces of pseudo-random
   size; returns the frame size (in g_out) or (size_t)-1 */
static size_t stream_compress(const P* p, int mt, size_t n, size_t outChunk, unsigned long long iseed, size_t* calls)
{
    size_t ipos = 0, total = 0, stalls = 0; unsigned long long save;
    size_t const outMax = ZSTD_compressBound(n) + (n >> 4) + 4096;
    apply_params(g_cctx, p);
    if (mt) CHK(ZSTD_CCtx_setParameter(g_cctx, ZSTD_c_nbWorkers, mt));   /* mt = number of workers (round 3: 2..4 workers, several jobs) */
    rseed(iseed * 131 + outChunk); save = g_rng;
    *calls = 0;
    for (;;) {
        ZSTD_inBuffer in; ZSTD_outBuffer o; size_t r; unsigned char* src; unsigned char* dst;
        size_t piece; int const ending = (ipos == n); int const placement = (int)(*calls & 1);
        g_rng = save; piece = (rnd() % 5 == 0) ? 1 + rnd() % 7 : 1 + rnd() % 40000; save = g_rng;
        if (piece > n - ipos) piece = n - ipos;
        if (piece > SCHUNK_MAX) piece = SCHUNK_MAX;
        src = region_place(&g_ssrcR, piece, 0); memcpy(src, g_input + ipos, piece);      /* ends at the fence: no over-read */
        dst = region_place(&g_sdstR, outChunk, placement);
        in.src = src; in.size = piece; in.pos = 0; o.dst = dst; o.size = outChunk; o.pos = 0;
        r = ZSTD_compressStream2(g_cctx, &o, &in, ending ? ZSTD_e_end : ZSTD_e_continue);
        (*calls)++;
        if (region_check(&g_sdstR, dst, outChunk, placement)) bad("stream-write-outside-output-buffer", outChunk, r);
        if (region_check(&g_ssrcR, src, piece, 0) || memcmp(src, g_input + ipos, piece)) bad("stream-input-modified", outChunk, r);
        if (o.pos > o.size || in.pos > in.size) { bad("stream-pos-exceeds-size", outChunk, o.pos); return (size_t)-1; }
        if (ZSTD_isError(r)) { bad("stream-compress-error", outChunk, r); return (size_t)-1; }
        if (total + o.pos > outMax) { bad("stream-output-far-above-bound", outChunk, total + o.pos); return (size_t)-1; }
        memcpy(g_out + total, dst, o.pos); total += o.pos;
        if (in.pos == 0 && o.pos == 0 && !(ending && r == 0)) { if (++stalls > 8) { if (outChunk) bad("stream-no-progress", outChunk, r); return (size_t)-1; } } else stalls = 0;
        ipos += in.pos;
        if (ending && r == 0) break;
        if (*calls > 4000000) { bad("stream-too-many-calls", outChunk, r); return (size_t)-1; }
    }
    return total;
}

/* decode g_out[0..csize) with ZSTD_decompressStream, output buffers of outChunk bytes, input pieces of inChunk bytes */
static void stream_decompress(size_t n, size_t csize, size_t outChunk, size_t inChunk, size_t* calls)
{
    size_t ipos = 0, total = 0, stalls = 0; size_t r = 1;
    ZSTD_DStream* const ds = ZSTD_createDStream();
    if (!ds) exit(2);
    ZSTD_initDStream(ds);
    *calls = 0;
    while (r != 0) {
        ZSTD_inBuffer in; ZSTD_outBuffer o; unsigned char* src; unsigned char* dst; int const placement = (int)(*calls & 1);
        size_t piece = inChunk; if (piece > csize - ipos) piece = csize - ipos;
        src = region_place(&g_ssrcR, piece, 0); memcpy(src, g_out + ipos, piece);
        dst = region_place(&g_sdstR, outChunk, placement);
        in.src = src; in.size = piece; in.pos = 0; o.dst = dst; o.size = outChunk; o.pos = 0;
        r = ZSTD_decompressStream(ds, &o, &in);
        (*calls)++;
        if (region_check(&g_sdstR, dst, outChunk, placement)) bad("dstream-write-outside-output-buffer", outChunk, r);
        if (o.pos > o.size || in.pos > in.size) { bad("dstream-pos-exceeds-size", outChunk, o.pos); break; }
        if (ZSTD_isError(r)) { bad("dstream-error-on-valid-frame", outChunk, r); break; }
        if (total + o.pos > n || memcmp(dst, g_input + total, o.pos)) { bad("dstream-wrong-content", outChunk, total + o.pos); break; }
        total += o.pos; ipos += in.pos;
        if (in.pos == 0 && o.pos == 0) { if (++stalls > 8) { if (outChunk || total == n) bad("dstream-no-progress", outChunk, r); break; } } else stalls = 0;
        if (ipos == csize && r != 0 && o.pos < o.size && in.pos == 0 && stalls > 2) break;
    }
    if (r == 0 && total != n) bad("dstream-short-output", outChunk, total);
    ZSTD_freeDStream(ds);
}

static void stream_case(int kind, unsigned long long iseed, size_t n, const P* p, int mt, size_t outChunk)
{
    size_t csize, ccalls = 0, dcalls = 0, dcalls2 = 0;
    gen_input(g_input, n, kind, iseed);
    g_useDict = 0;
    snprintf(g_desc, sizeof g_desc, "stream1 %d %llu %zu %d %d %d %d %d %zu", kind, iseed, n, p->level, p->chk, p->wlog, p->tcbs, mt, outChunk);
    csize = stream_compress(p, mt, n, outChunk, iseed, &ccalls);
    if (csize == (size_t)-1) { printf("STREAM kind=%s n=%zu mt=%d c=%zu csize=-1 ccalls=%zu dcalls=0\n", kindName[kind], n, mt, outChunk, ccalls); return; }
    {   /* the assembled frame is valid */
        size_t const d = ZSTD_decompressDCtx(g_dctx, g_scratch, g_scratchCap, g_out, csize);
        if (ZSTD_isError(d) || d != n || memcmp(g_scratch, g_input, n)) bad("stream-roundtrip-mismatch", outChunk, d);
    }
    if (mt > 1) {   /* round 3 cases (several workers, large inputs): the decoder side is not their subject */
        stream_decompress(n, csize, outChunk < 4096 ? 4096 : outChunk, SCHUNK_MAX, &dcalls);
    } else {
    stream_decompress(n, csize, outChunk ? outChunk : 1, SCHUNK_MAX, &dcalls);
    stream_decompress(n, csize, outChunk ? outChunk : 1, 1 + (size_t)(iseed % 13), &dcalls2);
    }
    printf("STREAM kind=%s n=%zu mt=%d c=%zu csize=%zu ccalls=%zu dcalls=%zu\n", kindName[kind], n, mt, outChunk, csize, ccalls, dcalls + dcalls2);
}

static void stream_mode(unsigned long long seed, int tier, unsigned shard, unsigned nshards)
{
    static const size_t chunks[] = { 1, 2, 3, 4, 5, 8, 17, 18, 19, 100, 1000, 4096, 65536 };
    static const size_t ns[] = { 0, 1, 100, 5000, 70000, 200000 };
    unsigned ci = 0, a, b, c;
    for (a = 0; a < sizeof ns / sizeof ns[0]; a++) for (b = 0; b < 5; b++) for (c = 0; c < sizeof chunks / sizeof chunks[0]; c++) {
        size_t const n = ns[a], ch = chunks[c]; int const mt = (b == 4);
        int const kind = (int)((a + b + c + seed) % 4 == 0 ? K_NOISE : (a + b + c + seed) % 4 == 1 ? K_TEXT : (a + b + c + seed) % 4 == 2 ? K_ALT8K : K_RLE);
        P p = mkP(1 + (int)((a + c) % 3), (int)(b == 1), -1, b == 2 ? 10 : 0, 0, b == 3 ? 1340 + (int)((seed * 37 + c) % 3000) : 0, 0, 0, 0, 0);
        pid_t pid; int st = 0;
        if (n / (ch ? ch : 1) > (size_t)(tier ? 60000 : 5000)) continue;        /* bound the number of calls */
        if (!tier && (a * 7 + b * 3 + c + seed) % 3 == 0 && ch > 8 && ch < 65536) continue;
        if (ci++ % nshards != shard) continue;
        fflush(stdout);
        pid = fork();
        if (pid < 0) exit(2);
        if (pid == 0) { stream_case(kind, seed * 1009 + ci, n, &p, mt, ch); fflush(stdout); _exit(0); }
        if (waitpid(pid, &st, 0) < 0) exit(2);
        if (!(WIFEXITED(st) && (WEXITSTATUS(st) == 0 || WEXITSTATUS(st) == 3))) printf("ABANDON stream case=%u status=%d\n", ci, st);
    }
    /* round 3: several workers and several jobs (jobs of 512 KiB) flushed into tiny output buffers */
    {   static const size_t mchunks[] = { 1, 2, 3, 5, 8, 17, 19, 100, 1000, 4096 };
        static const size_t mns[] = { 1100000, 1048576, 524289 };
        for (a = 0; a < 3; a++) for (b = 0; b < 3; b++) for (c = 0; c < sizeof mchunks / sizeof mchunks[0]; c++) {
            size_t const n = mns[a], ch = mchunks[c]; int const mt = 2 + (int)((a + b + c + seed) % 3);
            int const kind = (b == 0) ? K_RLE : (b == 1) ? K_TEXT : K_NOISE;
            P p = mkP(1 + (int)((a + c) % 3), (int)((a + c + seed) % 2), -1, 0, 0, 0, 0, 0, 0, 0);
            pid_t pid; int st = 0;
            size_t const expectOut = (kind == K_RLE) ? 200 : (kind == K_TEXT) ? n / 3 : n;
            if (expectOut / ch > (size_t)(tier ? 60000 : 3000)) continue;
            if (!tier && (a + b + c + seed) % 2 == 0) continue;
            if (ci++ % nshards != shard) continue;
            fflush(stdout);
            pid = fork();
            if (pid < 0) exit(2);
            if (pid == 0) { stream_case(kind, seed * 2003 + ci, n, &p, mt, ch); fflush(stdout); _exit(0); }
            if (waitpid(pid, &st, 0) < 0) exit(2);
            if (!(WIFEXITED(st) && (WEXITSTATUS(st) == 0 || WEXITSTATUS(st) == 3))) printf("ABANDON stream case=%u status=%d\n", ci, st);
    }   }
}

/* ------------------------------------------------------------------ main */
int main(int argc, char** argv)
{
    size_t const maxN = 1200000;
    if (argc < 2) return 2;
    setvbuf(stdout, NULL, _IOLBF, 0);
    gen_input(g_dict, sizeof g_dict, K_TEXT, 4711);
    g_mainAddr = (void*)&main;
    { void* warm[2]; (void)backtrace(warm, 2); }   /* loads libgcc now, not inside the handler */
    install_handlers();
    g_cctx = ZSTD_createCCtx(); g_gen = ZSTD_createCCtx(); g_dctx = ZSTD_createDCtx();
    g_input = (unsigned char*)malloc(maxN + 16); g_ref = (unsigned char*)malloc(maxN + 16); g_out = (unsigned char*)malloc(ZSTD_compressBound(maxN) + 128);
    g_scratchCap = 5 * maxN + 65536; g_scratch = (unsigned char*)malloc(g_scratchCap);
    g_seqCap = ZSTD_sequenceBound(maxN) + 16; g_seqs = (ZSTD_Sequence*)malloc(g_seqCap * sizeof(ZSTD_Sequence));
    if (!g_cctx || !g_gen || !g_dctx || !g_input || !g_ref || !g_out || !g_scratch || !g_seqs) return 2;
    g_dstR = region_new(ZSTD_compressBound(maxN) + 256); g_srcR = region_new(maxN + 16);
    g_ddstR = region_new(maxN + (1u << 17) + 1024); g_dsrcR = region_new(ZSTD_compressBound(maxN) + 256);
    g_ddstS = region_new(12000); g_dsrcS = region_new(12000);
    g_ipR = region_new(5 * maxN + 5 * 140000 + 65536);

    if (!strcmp(argv[1], "sweep") && argc >= 6) {
        unsigned long long const seed = strtoull(argv[2], NULL, 10); int const tier = atoi(argv[3]);
        unsigned const shard = (unsigned)atoi(argv[4]), nshards = (unsigned)atoi(argv[5]);
        static kase ks[2000]; size_t const nk = build_cases(ks, 2000, seed, tier); size_t i;
        g_shared = (volatile size_t*)mmap(NULL, PG, PROT_READ | PROT_WRITE, MAP_SHARED | MAP_ANONYMOUS, -1, 0);
        if (g_shared == MAP_FAILED) return 2;
        for (i = 0; i < nk; i++) if (i % nshards == shard) {
            /* each case runs in a child: a fault ends the child, is reported, and the case is resumed above the
               faulting capacity */
            size_t startCap = 0; int attempts = 0;
            for (;;) {
                pid_t pid; int st = 0;
                fflush(stdout);
                pid = fork();
                if (pid < 0) return 2;
                if (pid == 0) { sweep_case(ks[i].kind, ks[i].iseed, ks[i].n, ks[i].entry, &ks[i].p, tier, (unsigned)i, startCap); fflush(stdout); _exit(0); }
                if (waitpid(pid, &st, 0) < 0) return 2;
                if (WIFEXITED(st) && WEXITSTATUS(st) == 0) break;
                if (g_shared[0] == (size_t)-1 || ++attempts > 40) { printf("ABANDON id=%zu status=%d\n", i, st); break; }
                startCap = g_shared[0] + 1;
            }
        }
        printf("DONE shard=%u cases=%zu\n", shard, nk);
    } else if (!strcmp(argv[1], "one") && argc >= 18) {
        int const kind = atoi(argv[2]); unsigned long long const iseed = strtoull(argv[3], NULL, 10); size_t const n = (size_t)strtoull(argv[4], NULL, 10);
        int const entry = atoi(argv[5]);
        P p = mkP(atoi(argv[6]), atoi(argv[7]), atoi(argv[8]), atoi(argv[9]), atoi(argv[10]), atoi(argv[11]), atoi(argv[12]), atoi(argv[13]), atoi(argv[14]), atoi(argv[15]));
        size_t const cap = !strcmp(argv[17], "BOUND") ? ZSTD_compressBound((size_t)strtoull(argv[4], NULL, 10)) : (size_t)strtoull(argv[17], NULL, 10); int const placement = argc > 18 ? atoi(argv[18]) : 0; size_t r;
        if (n > maxN) return 2;
        gen_input(g_input, n, kind, iseed);
        g_useDict = (entry == E_DICT);
        if (entry == E_SEQ) prepare_seqs(&p, g_input, n);
        snprintf(g_desc, sizeof g_desc, "replay kind=%d n=%zu entry=%d cap=%zu placement=%d", kind, n, entry, cap, placement);
        { static size_t dummy[1]; g_shared = dummy; }
        if (argc > 19 && (!strcmp(argv[19], "DECODE") || !strcmp(argv[19], "TRUNC") || !strcmp(argv[19], "DAMAGE") || !strcmp(argv[19], "BUFLESS"))) {
            /* decoder-side replay: produce the frame with ample room, then redo the recorded decoder step */
            size_t const k = argc > 20 ? (size_t)strtoull(argv[20], NULL, 10) : 0;
            size_t const csize = fenced_compress(entry, &p, n, ZSTD_compressBound(n) + 64, 0, 1);
            if (ZSTD_isError(csize)) { printf("RESULT ample compression failed\n"); return 1; }
            memcpy(g_out, g_dstR.hi - (ZSTD_compressBound(n) + 64), csize);
            snprintf(g_desc, sizeof g_desc, "replay kind=%d n=%zu entry=%d CAP %zu %d %s %zu", kind, n, entry, cap, placement, argv[19], k);
            if (!strcmp(argv[19], "BUFLESS")) {
                size_t hs0, tot0; int chk0;
                if (analyze_frame(g_out, csize, &hs0, &chk0, &tot0)) { printf("RESULT frame not analysable\n"); return 1; }
                dec_bufferless(n, csize, (long long)k - 1);
            } else
            if (!strcmp(argv[19], "DECODE")) dec_cap(n, csize, cap, placement);
            else if (!strcmp(argv[19], "TRUNC")) dec_trunc(n, csize, iseed, k);
            else dec_damage(n, csize, iseed, k);
            printf("RESULT decoder step %s %zu done bad=%u\n", argv[19], k, g_nbBad);
            return g_nbBad ? 1 : 0;
        }
        if (argc > 19 && !strcmp(argv[19], "INPLACE")) {
            /* in-place decoding with the ZSTD_DECOMPRESSION_MARGIN macro: ample compression, then decode inside one buffer */
            size_t const csize = fenced_compress(entry, &p, n, ZSTD_compressBound(n) + 64, 0, 1);
            size_t const bsz = (entry == E_MT) ? ((size_t)1 << 17) : (g_cctx->blockSize ? g_cctx->blockSize : 1);
            size_t const B = n + ZSTD_DECOMPRESSION_MARGIN(n, bsz); unsigned char* buf; size_t r2;
            if (ZSTD_isError(csize)) { printf("RESULT ample compression failed\n"); return 1; }
            memcpy(g_out, g_dstR.hi - (ZSTD_compressBound(n) + 64), csize);
            buf = region_place(&g_ipR, B, 0); memmove(buf + B - csize, g_out, csize);
            r2 = decode_any(buf, B, buf + B - csize, csize);
            if (region_check(&g_ipR, buf, B, 0)) bad("inplace-write-outside-buffer", B, r2);
            if (ZSTD_isError(r2) || r2 != n || memcmp(buf, g_input, n)) bad("inplace-with-macro-margin-failed", B, r2);
            printf("RESULT in-place B=%zu csize=%zu ret=%zu (%s) bad=%u\n", B, csize, r2, ZSTD_isError(r2) ? ZSTD_getErrorName(r2) : "ok", g_nbBad);
            return g_nbBad ? 1 : 0;
        }
        r = fenced_compress(entry, &p, n, cap, placement, 1);
        if (ZSTD_isError(r) && cap >= ZSTD_compressBound(n)) bad("bound-capacity-rejected", cap, r);
        printf("RESULT cap=%zu bound=%zu ret=%zu (%s) bad=%u\n", cap, ZSTD_compressBound(n), r, ZSTD_isError(r) ? ZSTD_getErrorName(r) : "ok", g_nbBad);
        return g_nbBad ? 1 : 0;
    } else if (!strcmp(argv[1], "stream") && argc >= 6) {
        g_sdstR = region_new(SCHUNK_MAX + 64); g_ssrcR = region_new(SCHUNK_MAX + 64);
        { static size_t dummy[1]; g_shared = dummy; }
        stream_mode(strtoull(argv[2], NULL, 10), atoi(argv[3]), (unsigned)atoi(argv[4]), (unsigned)atoi(argv[5]));
        printf("DONE stream\n");
    } else if (!strcmp(argv[1], "stream1") && argc >= 11) {
        P p = mkP(atoi(argv[5]), atoi(argv[6]), -1, atoi(argv[7]), 0, atoi(argv[8]), 0, 0, 0, 0);
        g_sdstR = region_new(SCHUNK_MAX + 64); g_ssrcR = region_new(SCHUNK_MAX + 64);
        { static size_t dummy[1]; g_shared = dummy; }
        stream_case(atoi(argv[2]), strtoull(argv[3], NULL, 10), (size_t)strtoull(argv[4], NULL, 10), &p, atoi(argv[9]), (size_t)strtoull(argv[10], NULL, 10));
        printf("RESULT stream case done bad=%u\n", g_nbBad);
        return g_nbBad ? 1 : 0;
    } else if (!strcmp(argv[1], "frames") && argc >= 6) {
        frames_mode(strtoull(argv[2], NULL, 10), atoi(argv[3]), (unsigned)atoi(argv[4]), (unsigned)atoi(argv[5]));
        printf("DONE frames\n");
    } else return 2;
    return 0;
}
