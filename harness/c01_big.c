/* C01 thorough-tier direct oracle for the widest sequences the format allows: one sequence with a literal run >= 64 KiB
 * (16 extra bits), a match >= 32771 (15 extra bits) and an offset >= 2^27 (27 extra bits) = 58 extra bits, i.e. more than the
 * 56 bits the encoder's bit accumulator may hold between two flushes; the number of short sequences that follow it in the
 * block (argument v) shifts the bit position at which it is written.  usage: c01_big <vmax> ; one result line per (v, mode):
 *   <v> <mode> OK <csize>   |   <v> <mode> FAIL <what>   |  <v> <mode> SKIP (far match not found)
 * Needs ~400 MB of memory. */
#include <stdio.h>
#include <stdlib.h>
#include <string.h>
#define ZSTD_STATIC_LINKING_ONLY
#include "zstd.h"

static unsigned long long rs = 88172645463325252ULL;
static unsigned rnd(void) { rs ^= rs >> 12; rs ^= rs << 25; rs ^= rs >> 27; return (unsigned)((rs * 0x2545F4914F6CDD1DULL) >> 33); }

int main(int argc, char** argv)
{
    int const vmax = argc > 1 ? atoi(argv[1]) : 8;
    size_t const R = 131000, L = 66536, M = 40000;
    size_t P = 131072, N, i; unsigned char *src, *r, *c; size_t const cap = (size_t)8 << 20;
    ZSTD_CCtx* const cctx = ZSTD_createCCtx(); int v, mode;
    while (P < ((size_t)1 << 27)) P += 94208;      /* so that a block starts at P for the fast..lazy strategies */
    N = P + R;
    src = (unsigned char*)calloc(N, 1); r = (unsigned char*)malloc(N); c = (unsigned char*)malloc(cap);
    if (!src || !r || !c || !cctx) { printf("0 0 FAIL allocation\n"); return 2; }
    for (i = 0; i < M; i++) src[i] = (unsigned char)rnd();
    for (i = 0; i < L; i++) src[P + i] = (unsigned char)rnd();
    memcpy(src + P + L, src, M);
    for (v = 0; v < vmax; v++) {
        size_t t = P + L + M; int k;
        for (k = 0; t < N; k++) {
            if (k < v && t + 16 <= N) { memcpy(src + t, "abcdefgh12345678", 16); t += 16; if (t < N) src[t++] = (unsigned char)rnd(); }
            else src[t++] = (unsigned char)rnd();
        }
        for (mode = 0; mode < 2; mode++) {
            size_t cs, ds;
            ZSTD_CCtx_reset(cctx, ZSTD_reset_session_and_parameters);
            ZSTD_CCtx_setParameter(cctx, ZSTD_c_windowLog, 28);
            if (mode == 0) { ZSTD_CCtx_setParameter(cctx, ZSTD_c_compressionLevel, 1); ZSTD_CCtx_setParameter(cctx, ZSTD_c_enableLongDistanceMatching, 1); }
            else { ZSTD_CCtx_setParameter(cctx, ZSTD_c_compressionLevel, 5); ZSTD_CCtx_setParameter(cctx, ZSTD_c_hashLog, 22); ZSTD_CCtx_setParameter(cctx, ZSTD_c_chainLog, 22); }
            cs = ZSTD_compress2(cctx, c, cap, src, N);
            if (ZSTD_isError(cs)) { printf("%d %d FAIL compression:%s\n", v, mode, ZSTD_getErrorName(cs)); continue; }
            if (cs > N - M + 4096) { printf("%d %d SKIP\n", v, mode); continue; }
            ds = ZSTD_decompress(r, N, c, cs);
            if (ZSTD_isError(ds)) { printf("%d %d FAIL decompression:%s\n", v, mode, ZSTD_getErrorName(ds)); continue; }
            if (ds != N || memcmp(r, src, N)) { printf("%d %d FAIL content-differs\n", v, mode); continue; }
            printf("%d %d OK %u\n", v, mode, (unsigned)cs);
        }
        fflush(stdout);
    }
    return 0;
}
