/* c08_mkdict: builds structurally valid dictionaries with chosen (unusual) entropy tables, using the entropy
 * WRITERS of the current /repo tree (HUF_buildCTable_wksp/HUF_writeCTable_wksp, FSE_writeNCount).
 * input line : M <id> <dictID> <hufMaxBits>:<c0,c1,...>|direct:<w0,w1,...> <ofLog>:<n0,n1,..> <mlLog>:<..> <llLog>:<..> <rep1,rep2,rep3> <contenthex|->
 *   huf counts : symbol counts fed to HUF_buildCTable_wksp (0 = absent symbol) ; "direct:" = raw 4-bit weights header (<=128 symbols)
 *   norms      : normalized counts (-1 allowed), must sum to 2^log
 * output     : <id> OK <dicthex>  |  <id> ERR <what>
 * also       : L <id> <dicthex> -> <id> OK cdict=<0|1> ddict=<0|1> idC=<n> idD=<n> idZ=<n>    (loader verdicts)  */
#define ZSTD_STATIC_LINKING_ONLY
#define ZDICT_STATIC_LINKING_ONLY
#include "zstd.h"
#include "zdict.h"
#define FSE_STATIC_LINKING_ONLY
#define HUF_STATIC_LINKING_ONLY
#include "common/fse.h"
#include "common/huf.h"
#include "common/mem.h"
#include <stdio.h>
#include <stdlib.h>
#include <string.h>

static unsigned char* unhex(const char* s, size_t* n) {
    size_t l, i; unsigned char* b;
    if (!strcmp(s, "-")) { *n = 0; return (unsigned char*)malloc(1); }
    l = strlen(s) / 2; b = (unsigned char*)malloc(l + 1);
    for (i = 0; i < l; i++) { unsigned v; sscanf(s + 2 * i, "%2x", &v); b[i] = (unsigned char)v; }
    *n = l; return b;
}
static void puthex(const unsigned char* b, size_t n) { size_t i; if (!n) { putchar('-'); return; } for (i = 0; i < n; i++) printf("%02x", b[i]); }
static int parse_list(const char* s, int* out, int maxn) {
    int n = 0; while (*s && n < maxn) { int v, k = 0; if (sscanf(s, "%d%n", &v, &k) < 1) break; out[n++] = v; s += k; if (*s == ',') s++; } return n;
}

static size_t write_norm(unsigned char* op, size_t cap, const char* spec, const char** err) {
    int log, vals[300], n, i; short norm[300]; const char* c = strchr(spec, ':');
    if (!c) { *err = "norm spec"; return 0; }
    log = atoi(spec); n = parse_list(c + 1, vals, 300);
    if (n < 1) { *err = "norm empty"; return 0; }
    for (i = 0; i < n; i++) norm[i] = (short)vals[i];
    {   size_t r = FSE_writeNCount(op, cap, norm, (unsigned)(n - 1), (unsigned)log);
        if (FSE_isError(r)) { *err = "FSE_writeNCount"; return 0; }
        return r; }
}

static void cmd_M(char** t) {
    static unsigned char buf[1 << 20]; unsigned char* op = buf; const char* err = NULL; size_t r;
    unsigned dictID = (unsigned)strtoul(t[2], NULL, 10);
    MEM_writeLE32(op, ZSTD_MAGIC_DICTIONARY); MEM_writeLE32(op + 4, dictID); op += 8;
    if (!strncmp(t[3], "direct:", 7)) {
        int w[300]; int n = parse_list(t[3] + 7, w, 300), i;   /* n weights listed; the last symbol's weight is implied by the decoder */
        if (n < 1 || n > 128) { printf("%s ERR direct-count\n", t[1]); return; }
        *op++ = (unsigned char)(127 + n);
        for (i = 0; i < n; i += 2) *op++ = (unsigned char)((w[i] << 4) | (i + 1 < n ? w[i + 1] : 0));
    } else {
        int cnt[300]; unsigned count[256]; int n, i, maxBits = atoi(t[3]); const char* c = strchr(t[3], ':');
        static size_t ctable[HUF_CTABLE_SIZE_ST(255)]; static unsigned wksp[HUF_CTABLE_WORKSPACE_SIZE_U32 + 1024];
        if (!c) { printf("%s ERR hufspec\n", t[1]); return; }
        n = parse_list(c + 1, cnt, 256); memset(count, 0, sizeof(count));
        for (i = 0; i < n; i++) count[i] = (unsigned)cnt[i];
        {   unsigned maxSV = (unsigned)(n - 1); while (maxSV > 0 && count[maxSV] == 0) maxSV--;
            r = HUF_buildCTable_wksp((HUF_CElt*)ctable, count, maxSV, (unsigned)maxBits, wksp, sizeof(wksp));
            if (HUF_isError(r)) { printf("%s ERR HUF_buildCTable\n", t[1]); return; }
            {   size_t h = HUF_writeCTable_wksp(op, 4096, (HUF_CElt*)ctable, maxSV, (unsigned)r, wksp, sizeof(wksp));
                if (HUF_isError(h)) { printf("%s ERR HUF_writeCTable\n", t[1]); return; }
                op += h; } }
    }
    r = write_norm(op, 512, t[4], &err); if (err) { printf("%s ERR of-%s\n", t[1], err); return; } op += r;
    r = write_norm(op, 512, t[5], &err); if (err) { printf("%s ERR ml-%s\n", t[1], err); return; } op += r;
    r = write_norm(op, 512, t[6], &err); if (err) { printf("%s ERR ll-%s\n", t[1], err); return; } op += r;
    {   int rep[3]; if (parse_list(t[7], rep, 3) != 3) { printf("%s ERR reps\n", t[1]); return; }
        MEM_writeLE32(op, (U32)rep[0]); MEM_writeLE32(op + 4, (U32)rep[1]); MEM_writeLE32(op + 8, (U32)rep[2]); op += 12; }
    {   size_t cn; unsigned char* c = unhex(t[8], &cn); memcpy(op, c, cn); op += cn; free(c); }
    printf("%s OK ", t[1]); puthex(buf, (size_t)(op - buf)); putchar('\n');
}

static void cmd_L(char** t) {
    size_t dn; unsigned char* d = unhex(t[2], &dn);
    ZSTD_CDict* cd = ZSTD_createCDict(d, dn, 3); ZSTD_DDict* dd = ZSTD_createDDict(d, dn);
    printf("%s OK cdict=%d ddict=%d idC=%u idD=%u idZ=%u idF=%u\n", t[1], cd != NULL, dd != NULL,
           cd ? ZSTD_getDictID_fromCDict(cd) : 0, dd ? ZSTD_getDictID_fromDDict(dd) : 0, ZDICT_getDictID(d, dn), ZSTD_getDictID_fromDict(d, dn));
    ZSTD_freeCDict(cd); ZSTD_freeDDict(dd); free(d);
}

int main(void) {
    char* line = NULL; size_t lcap = 0; ssize_t len;
    while ((len = getline(&line, &lcap, stdin)) > 0) {
        char* t[12]; int nt = 0; char* sv = NULL; char* tok = strtok_r(line, " \n", &sv);
        while (tok && nt < 12) { t[nt++] = tok; tok = strtok_r(NULL, " \n", &sv); }
        if (nt == 0) continue;
        if (t[0][0] == 'M' && nt >= 9) cmd_M(t);
        else if (t[0][0] == 'L' && nt >= 3) cmd_L(t);
        else printf("? BADCMD\n");
        fflush(stdout);
    }
    return 0;
}
