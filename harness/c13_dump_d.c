/* decoder-side half of harness/c13_dump.c (separate translation unit: statics of the two sides collide) */
#include "decompress/zstd_decompress.c"
#include "decompress/zstd_ddict.c"
#include <stdio.h>
#define SZ(name, v) printf("Definition a_%s : N := %llu%%N.\n", name, (unsigned long long)(v))
void c13_dump_d(void);
void c13_dump_d(void) {
    SZ("sizeof_ZSTD_DCtx", sizeof(ZSTD_DCtx)); SZ("sizeof_ZSTD_DDict", sizeof(ZSTD_DDict));
    SZ("sizeof_DDictHashSet", sizeof(ZSTD_DDictHashSet));
    SZ("DDICT_HASHSET_TABLE_BASE_SIZE", DDICT_HASHSET_TABLE_BASE_SIZE);
    SZ("DDICT_HASHSET_RESIZE_FACTOR", DDICT_HASHSET_RESIZE_FACTOR);
    SZ("DDICT_HASHSET_MAX_LOAD_FACTOR_COUNT_MULT", DDICT_HASHSET_MAX_LOAD_FACTOR_COUNT_MULT);
    SZ("DDICT_HASHSET_MAX_LOAD_FACTOR_SIZE_MULT", DDICT_HASHSET_MAX_LOAD_FACTOR_SIZE_MULT);
}
