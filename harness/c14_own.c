/* C14 round 2 harness: ownership / reported sizes / "a static context never reaches an allocator" / the decoder
 * window limit on the legacy path / ZSTD_estimateDStreamSize_fromFrame / level-based CDict estimate.
 * Linked against libzstd rebuilt from the current tree; #includes zstd_ddict.c / zstd_decompress.c to read the
 * private fields that the model predicts (hash-set table size, buffer sizes).  /repo is not touched.
 * Reads case lines on stdin (numbers in hex), prints one canonical result line per case. */
#define ZSTD_STATIC_LINKING_ONLY
#define ZDICT_STATIC_LINKING_ONLY
#define ZSTD_DISABLE_DEPRECATE_WARNINGS
#include "decompress/zstd_ddict.c"
#include "decompress/zstd_decompress.c"
#include "zdict.h"
#include <stdio.h>
#include <stdlib.h>
#include <string.h>
#include <signal.h>
#include <setjmp.h>
#include <malloc.h>
#include <sys/mman.h>
#include <unistd.h>

typedef unsigned long long u64;
static u64 hx(const char* s) { int neg = (*s == '-'); u64 v = strtoull(s + neg, NULL, 16); return neg ? (u64)(-(long long)v) : v; }
static long long hxs(const char* s) { int neg = (*s == '-'); u64 v = strtoull(s + neg, NULL, 16); return neg ? -(long long)v : (long long)v; }

static sigjmp_buf zv_jmp;
static volatile int zv_armed = 0;
static void zv_segv(int sig, siginfo_t* si, void* ctx) { (void)sig; (void)ctx; (void)si; if (zv_armed) siglongjmp(zv_jmp, 1); _exit(99); }

static size_t zv_page;
typedef struct { char* map; size_t mapLen; char* lo; char* hi; } zv_region;
static int zv_region_make(zv_region* r, size_t need) {
    size_t const body = (need + 64 + zv_page - 1) / zv_page * zv_page;
    r->mapLen = body + 2 * zv_page;
    r->map = (char*)mmap(NULL, r->mapLen, PROT_READ | PROT_WRITE, MAP_PRIVATE | MAP_ANONYMOUS | MAP_NORESERVE, -1, 0);
    if (r->map == MAP_FAILED) return 0;
    mprotect(r->map, zv_page, PROT_NONE);
    mprotect(r->map + zv_page + body, zv_page, PROT_NONE);
    r->lo = r->map + zv_page; r->hi = r->map + zv_page + body;
    return 1;
}
static void zv_region_free(zv_region* r) { munmap(r->map, r->mapLen); }
static char* zv_place(zv_region* r, size_t size, unsigned placement) {
    if (placement == 0) return r->lo;
    {   size_t start = ((size_t)r->hi - size) & ~(size_t)7;
        start -= 8 * (size_t)(placement - 1);
        if ((char*)start < r->lo) return r->lo;
        return (char*)start; }
}

static void gen_data(unsigned char* p, size_t n, unsigned seed) {
    unsigned x = seed * 2654435761u + 12345u; size_t i;
    for (i = 0; i < n; i++) { x = x * 1103515245u + 12345u;
        if (i >= 1024 && ((x >> 20) & 7) < 3) p[i] = p[i - 1 - ((x >> 8) % 1000)];
        else p[i] = (unsigned char)("etaoin shrdlu\n0123"[(x >> 16) % 18]); }
}

/* ---- counting allocator that recognises its own blocks ---- */
#define ZV_TAG 0xC0FFEE5AC0FFEE5AULL
typedef struct { size_t live, peak, nAlloc, nFree, badFree; } zv_count;
static void* zv_cmalloc(void* op, size_t sz) { zv_count* c = (zv_count*)op; u64* p = (u64*)malloc(sz + 16); size_t l; if (!p) return NULL;
    p[0] = sz; p[1] = ZV_TAG; l = __sync_add_and_fetch(&c->live, sz); __sync_fetch_and_add(&c->nAlloc, 1);
    { size_t pk = c->peak; while (l > pk && !__sync_bool_compare_and_swap(&c->peak, pk, l)) pk = c->peak; } return (char*)p + 16; }   /* worker threads allocate too */
static void zv_cfree(void* op, void* ptr) { zv_count* c = (zv_count*)op; u64* p; if (!ptr) return; p = (u64*)((char*)ptr - 16);
    if (p[1] != ZV_TAG) { __sync_fetch_and_add(&c->badFree, 1); return; }       /* not one of ours: an interior pointer, a double free, ... */
    p[1] = 0; __sync_fetch_and_sub(&c->live, (size_t)p[0]); __sync_fetch_and_add(&c->nFree, 1); free(p); }
/* round 3: failure injection (the k-th next allocation fails); defined with do_mtf below */
static volatile long zv_failAt; static volatile long zv_allocNo; static void* zv_fmalloc(void* op, size_t sz);
static size_t heap_held(void) { struct mallinfo2 m = mallinfo2(); return m.uordblks + m.hblkhd; }

/* ---- every malloc / calloc of the process while [zv_watch] is set (link flags -Wl,--wrap=malloc,--wrap=calloc) ---- */
static volatile int zv_watch = 0; static volatile size_t zv_mcalls = 0, zv_mbytes = 0;
void* __real_malloc(size_t); void* __real_calloc(size_t, size_t);
void* __wrap_malloc(size_t n) { if (zv_watch) { __sync_fetch_and_add(&zv_mcalls, 1); __sync_fetch_and_add(&zv_mbytes, n); } return __real_malloc(n); }
void* __wrap_calloc(size_t a, size_t b) { if (zv_watch) { __sync_fetch_and_add(&zv_mcalls, 1); __sync_fetch_and_add(&zv_mbytes, a * b); } return __real_calloc(a, b); }

/* ---- frames ---- */
static size_t make_frame(unsigned char* out, unsigned wlByte, int withFcs, size_t n, unsigned seed) {
    size_t p = 0; size_t i;
    out[p++] = 0x28; out[p++] = 0xB5; out[p++] = 0x2F; out[p++] = 0xFD;
    if (!withFcs) { out[p++] = 0x00; out[p++] = (unsigned char)wlByte; }
    else { out[p++] = 0x80; out[p++] = (unsigned char)wlByte; out[p++] = (unsigned char)n; out[p++] = (unsigned char)(n >> 8); out[p++] = (unsigned char)(n >> 16); out[p++] = (unsigned char)(n >> 24); }
    {   unsigned bh = (unsigned)((n << 3) | 1); out[p++] = (unsigned char)bh; out[p++] = (unsigned char)(bh >> 8); out[p++] = (unsigned char)(bh >> 16); }
    for (i = 0; i < n; i++) out[p++] = (unsigned char)(seed + i * 7);
    return p;
}
static size_t make_frame_ss(unsigned char* out, size_t n, unsigned seed) {
    size_t p = 0; size_t i;
    out[p++] = 0x28; out[p++] = 0xB5; out[p++] = 0x2F; out[p++] = 0xFD;
    if (n < 256) { out[p++] = 0x20; out[p++] = (unsigned char)n; }
    else if (n < 65536 + 256) { out[p++] = 0x60; out[p++] = (unsigned char)(n - 256); out[p++] = (unsigned char)((n - 256) >> 8); }
    else { out[p++] = 0xA0; out[p++] = (unsigned char)n; out[p++] = (unsigned char)(n >> 8); out[p++] = (unsigned char)(n >> 16); out[p++] = (unsigned char)(n >> 24); }
    {   unsigned bh = (unsigned)((n << 3) | 1); out[p++] = (unsigned char)bh; out[p++] = (unsigned char)(bh >> 8); out[p++] = (unsigned char)(bh >> 16); }
    for (i = 0; i < n; i++) out[p++] = (unsigned char)(seed + i * 7);
    return p;
}
/* legacy frames (v0.5 / v0.6 / v0.7): magic, frame header with the window log, one raw block of n bytes, end block */
static size_t make_legacy(unsigned char* out, unsigned ver, unsigned wlog, size_t n) {
    size_t p = 0, i;
    out[p++] = (unsigned char)(0x20 + ver); out[p++] = 0xB5; out[p++] = 0x2F; out[p++] = 0xFD;
    if (ver == 7) { out[p++] = 0x00; out[p++] = (unsigned char)((wlog - 10) << 3); }
    else if (ver == 6) { out[p++] = (unsigned char)(wlog - 12); }
    else { out[p++] = (unsigned char)(wlog - 11); }
    out[p++] = 0x40 | (unsigned char)((n >> 16) & 7); out[p++] = (unsigned char)(n >> 8); out[p++] = (unsigned char)n;
    for (i = 0; i < n; i++) out[p++] = (unsigned char)('a' + i % 26);
    out[p++] = 0xC0; out[p++] = 0; out[p++] = 0;
    return p;
}

/* decode [frame] through ZSTD_decompressStream in small chunks; returns 0 / error code; *produced */
static size_t stream_decode(ZSTD_DCtx* d, const unsigned char* frame, size_t fl, unsigned char* outb, size_t outCap, size_t ichunk, size_t ochunk, size_t* produced) {
    size_t ip = 0, op = 0, r = 1; int guard = 0;
    while (r != 0) {
        ZSTD_inBuffer in; ZSTD_outBuffer out; size_t il = fl - ip < ichunk ? fl - ip : ichunk; size_t ol = outCap - op < ochunk ? outCap - op : ochunk;
        in.src = frame + ip; in.size = il; in.pos = 0; out.dst = outb + op; out.size = ol; out.pos = 0;
        r = ZSTD_decompressStream(d, &out, &in);
        if (ZSTD_isError(r)) { *produced = op; return r; }
        if (in.pos == 0 && out.pos == 0 && ++guard > 4) { *produced = op; return ERROR(GENERIC); }
        if (in.pos || out.pos) guard = 0;
        ip += in.pos; op += out.pos;
    }
    *produced = op; return 0;
}
static const char* ecode(size_t r) {
    static char buf[32]; ZSTD_ErrorCode ec;
    if (!ZSTD_isError(r)) return "OK";
    ec = ZSTD_getErrorCode(r);
    if (ec == ZSTD_error_memory_allocation) return "M";
    if (ec == ZSTD_error_frameParameter_windowTooLarge) return "W";
    snprintf(buf, sizeof buf, "E%d", (int)ec); return buf;
}

/* ---- a valid zstd dictionary (entropy tables + content) whose dictID can be patched ---- */
static unsigned char zv_dict[4096]; static size_t zv_dictLen = 0;
static void make_dict(void) {
    size_t const nS = 64, sLen = 512; unsigned char* samples = (unsigned char*)malloc(nS * sLen); size_t sizes[64]; size_t i;
    unsigned char content[1024]; ZDICT_params_t zp; size_t r;
    for (i = 0; i < nS; i++) { gen_data(samples + i * sLen, sLen, (unsigned)i + 3); sizes[i] = sLen; }
    gen_data(content, sizeof content, 77);
    memset(&zp, 0, sizeof zp); zp.dictID = 0x12345;
    r = ZDICT_finalizeDictionary(zv_dict, sizeof zv_dict, content, sizeof content, samples, sizes, (unsigned)nS, zp);
    zv_dictLen = ZDICT_isError(r) ? 0 : r;
    free(samples);
}

/* ---------------------------------------------------------------------------------------------------------
 * DOWN flags op op ...   ownership history on one HEAP DCtx created with the counting allocator
 *   op:  M<0|1>          ZSTD_d_refMultipleDDicts
 *        R<dictID>       ZSTD_DCtx_refDDict(a DDict with that dictID; the DDict itself belongs to the caller)
 *        N               ZSTD_DCtx_refDDict(NULL)
 *        L<size>/<byRef> ZSTD_DCtx_loadDictionary_advanced(raw content of that size)
 *        P<size>         ZSTD_DCtx_refPrefix(raw content of that size): used for one frame, freed by the frame after
 *        F<wl>/<len>     one frame (window descriptor byte wl, no content size, one raw block) through ZSTD_decompressStream
 *        Z               ZSTD_DCtx_reset(session_and_parameters)
 *        C<0|1>          ZSTD_copyDCtx(this, a fresh heap context with refMultipleDDicts = 0|1)
 *   per op:  <rc>/<live>/<sizeof>/<tableSize>/<count>   (live = bytes the counting allocator holds for the context) */
#define ZV_MAXDD 512
static void do_down(char** a, int n) {
    zv_count cnt; ZSTD_customMem cm; ZSTD_DCtx* d; int i; ZSTD_DDict* dds[ZV_MAXDD]; int nd = 0; unsigned char* raw = (unsigned char*)malloc(1 << 20); long pendingFail = 0;
    unsigned char* frame = (unsigned char*)malloc((1 << 17) + 64); unsigned char* outb = (unsigned char*)malloc((1 << 17) + 64);
    memset(&cnt, 0, sizeof cnt); cm.customAlloc = zv_fmalloc; cm.customFree = zv_cfree; cm.opaque = &cnt;
    zv_failAt = -1; zv_allocNo = 0;
    gen_data(raw, 1 << 20, 9);
    d = ZSTD_createDCtx_advanced(cm);
    zv_armed = 1;
    if (sigsetjmp(zv_jmp, 1)) { zv_armed = 0; printf("SEGV\n"); goto done; }
    for (i = 2; i < n; i++) {
        char k = a[i][0]; size_t rc = 0;
        if (k == '!') { pendingFail = (long)hx(a[i] + 1); continue; }     /* round 3: the k-th allocation of the NEXT operation fails (oracle only; the model has no failures) */
        if (pendingFail) { zv_failAt = zv_allocNo + pendingFail; pendingFail = 0; }
        if (k == 'M') rc = ZSTD_DCtx_setParameter(d, ZSTD_d_refMultipleDDicts, (int)hx(a[i] + 1));
        else if (k == 'R') {
            unsigned char* dc = (unsigned char*)malloc(zv_dictLen); unsigned id = (unsigned)hx(a[i] + 1);
            memcpy(dc, zv_dict, zv_dictLen); dc[4] = (unsigned char)id; dc[5] = (unsigned char)(id >> 8); dc[6] = (unsigned char)(id >> 16); dc[7] = (unsigned char)(id >> 24);
            if (nd < ZV_MAXDD) { dds[nd] = ZSTD_createDDict(dc, zv_dictLen); rc = dds[nd] ? ZSTD_DCtx_refDDict(d, dds[nd]) : ERROR(GENERIC); nd++; } else rc = ERROR(GENERIC);
            free(dc);
        }
        else if (k == 'N') rc = ZSTD_DCtx_refDDict(d, NULL);
        else if (k == 'L') { char* sl = strchr(a[i], '/'); size_t sz = (size_t)hx(a[i] + 1); int byRef = sl ? (int)hx(sl + 1) : 0;
            rc = ZSTD_DCtx_loadDictionary_advanced(d, raw, sz, byRef ? ZSTD_dlm_byRef : ZSTD_dlm_byCopy, ZSTD_dct_rawContent); }
        else if (k == 'P') rc = ZSTD_DCtx_refPrefix(d, raw, (size_t)hx(a[i] + 1));
        else if (k == 'F') { char* sl = strchr(a[i], '/'); unsigned wl = (unsigned)hx(a[i] + 1); size_t len = sl ? (size_t)hx(sl + 1) : 0; size_t prod = 0;
            size_t fl = make_frame(frame, wl, 0, len, (unsigned)i); rc = stream_decode(d, frame, fl, outb, len + 8, 7, 1000, &prod);
            if (ZSTD_isError(rc)) ZSTD_DCtx_reset(d, ZSTD_reset_session_only); else if (prod != len) rc = ERROR(GENERIC); }
        else if (k == 'Z') rc = ZSTD_DCtx_reset(d, ZSTD_reset_session_and_parameters);
        else if (k == 'C') { ZSTD_DCtx* tmp = ZSTD_createDCtx();     /* ZSTD_copyDCtx from a fresh context whose multi-DDict flag is set / clear */
            ZSTD_DCtx_setParameter(tmp, ZSTD_d_refMultipleDDicts, (int)hx(a[i] + 1)); ZSTD_copyDCtx(d, tmp); ZSTD_freeDCtx(tmp); rc = 0; }
        else { printf("BADTOKEN "); continue; }
        zv_failAt = -1;
        printf("%s/%llx/%llx/%llx/%llx ", ecode(rc), (u64)cnt.live, (u64)ZSTD_sizeof_DCtx(d),
               (u64)(d->ddictSet ? d->ddictSet->ddictPtrTableSize : 0), (u64)(d->ddictSet ? d->ddictSet->ddictPtrCount : 0));
    }
    zv_armed = 0;
    {   size_t const fr = ZSTD_freeDCtx(d); d = NULL;
        printf("free=%s live=%llx badfree=%llx\n", ecode(fr), (u64)cnt.live, (u64)cnt.badFree); }
done:
    zv_armed = 0;
    for (i = 0; i < nd; i++) ZSTD_freeDDict(dds[i]);
    free(raw); free(frame); free(outb);
}

/* ---------------------------------------------------------------------------------------------------------
 * SDCT fill placement op : a STATIC DCtx (workspace pre-filled with byte [fill]) asked to create a dictionary internally
 *   op: L loadDictionary  A loadDictionary_advanced(byRef)  P refPrefix  U initDStream_usingDict  E loadDictionary(empty)
 *       M setParameter(refMultipleDDicts)+refDDict   G a legacy v0.7 frame through ZSTD_decompressStream
 *   prints  rc  heap growth (default allocator, mallinfo2)  then decodes a frame with the context: must still work */
static void do_sdct(char** a) {
    unsigned fill = (unsigned)hx(a[1]); unsigned placement = (unsigned)hx(a[2]); char op = a[3][0];
    size_t const sz = ZSTD_estimateDStreamSize(1 << 12); zv_region r; char* ws; ZSTD_DCtx* d; size_t rc = 0, before, after;
    unsigned char dict[600]; unsigned char frame[300]; unsigned char outb[300]; size_t prod = 0, fl, dr; ZSTD_DDict* dd = NULL;
    if (!zv_region_make(&r, sz)) { printf("SKIP mmap\n"); return; }
    ws = zv_place(&r, sz, placement);
    memset(ws, (int)fill, sz);
    gen_data(dict, sizeof dict, 4);
    if (op == 'M') dd = ZSTD_createDDict(dict, sizeof dict);
    zv_armed = 1;
    if (sigsetjmp(zv_jmp, 1)) { zv_armed = 0; printf("SEGV\n"); goto done; }
    d = ZSTD_initStaticDCtx(ws, sz);
    if (!d) { zv_armed = 0; printf("NULL\n"); goto done; }
    before = heap_held();
    if (op == 'L') rc = ZSTD_DCtx_loadDictionary(d, dict, sizeof dict);
    else if (op == 'A') rc = ZSTD_DCtx_loadDictionary_advanced(d, dict, sizeof dict, ZSTD_dlm_byRef, ZSTD_dct_rawContent);
    else if (op == 'P') rc = ZSTD_DCtx_refPrefix(d, dict, sizeof dict);
    else if (op == 'U') rc = ZSTD_initDStream_usingDict(d, dict, sizeof dict);
    else if (op == 'E') rc = ZSTD_DCtx_loadDictionary(d, dict, 0);
    else if (op == 'G') {   /* a legacy (v0.7) frame: the legacy stream context would have to be malloc'ed */
        unsigned char lf[64]; size_t const lfl = make_legacy(lf, 7, 12, 5); size_t pr = 0;
        rc = stream_decode(d, lf, lfl, outb, sizeof outb, lfl, 50, &pr); }
    else if (op == 'M') { rc = ZSTD_DCtx_setParameter(d, ZSTD_d_refMultipleDDicts, 1); { size_t r2 = ZSTD_DCtx_refDDict(d, dd); if (!ZSTD_isError(rc)) rc = r2; } }
    after = heap_held();
    printf("rc=%s growth=%llx sizeof=%llx static=%llx", ecode(rc), (u64)(after > before ? after - before : 0), (u64)ZSTD_sizeof_DCtx(d), (u64)sz);
    /* the context must remain usable */
    ZSTD_DCtx_reset(d, ZSTD_reset_session_and_parameters);
    fl = make_frame(frame, 0, 0, 200, 5);
    dr = stream_decode(d, frame, fl, outb, 208, 11, 50, &prod);
    zv_armed = 0;
    printf(" after=%s/%llx\n", ecode(dr), (u64)prod);
done:
    zv_armed = 0; if (dd) ZSTD_freeDDict(dd); zv_region_free(&r);
}

/* ---------------------------------------------------------------------------------------------------------
 * CPD dir : ZSTD_copyDCtx between a static and a heap context (dir a: static <- heap, b: heap <- static), then one frame
 *   through ZSTD_decompressStream on the destination.  The static side must never free / malloc; nobody may crash. */
static void do_cpd(char** a) {
    char dir = a[1][0]; zv_count cnt; ZSTD_customMem cm; size_t const sz = ZSTD_estimateDStreamSize(1 << 12); zv_region r; char* ws;
    ZSTD_DCtx* sd; ZSTD_DCtx* hd; unsigned char frame[300]; unsigned char outb[300]; size_t prod = 0, fl, dr; size_t n0;
    memset(&cnt, 0, sizeof cnt); cm.customAlloc = zv_cmalloc; cm.customFree = zv_cfree; cm.opaque = &cnt;
    if (!zv_region_make(&r, sz)) { printf("SKIP mmap\n"); return; }
    ws = zv_place(&r, sz, 1);
    zv_armed = 1;
    if (sigsetjmp(zv_jmp, 1)) { zv_armed = 0; printf("SEGV\n"); goto done; }
    sd = ZSTD_initStaticDCtx(ws, sz); hd = ZSTD_createDCtx_advanced(cm);
    n0 = cnt.nAlloc;
    fl = make_frame(frame, 0, 0, 200, 5);
    if (dir == 'a') { ZSTD_copyDCtx(sd, hd); dr = stream_decode(sd, frame, fl, outb, 208, 11, 50, &prod);
        printf("rc=%s/%llx static-allocs=%llx badfree=%llx staticSize=%llx\n", ecode(dr), (u64)prod, (u64)(cnt.nAlloc - n0), (u64)cnt.badFree, (u64)sd->staticSize); }
    else if (dir == 'm') {   /* static <- heap whose refMultipleDDicts is on, then ZSTD_DCtx_refDDict on the static context */
        unsigned char dict[300]; ZSTD_DDict* dd; size_t before, after, rc;
        gen_data(dict, sizeof dict, 4); dd = ZSTD_createDDict(dict, sizeof dict);
        ZSTD_DCtx_setParameter(hd, ZSTD_d_refMultipleDDicts, 1);
        ZSTD_copyDCtx(sd, hd);
        before = heap_held(); rc = ZSTD_DCtx_refDDict(sd, dd); after = heap_held();
        printf("rc=%s growth=%llx set=%d static-allocs=%llx\n", ecode(rc), (u64)(after > before ? after - before : 0), sd->ddictSet != NULL, (u64)(cnt.nAlloc - n0));
        ZSTD_freeDDict(dd); }
    else if (dir == 'c') {   /* heap <- heap, the source owns a local dictionary and a multi-DDict set: both are freed afterwards */
        ZSTD_DCtx* h2 = ZSTD_createDCtx_advanced(cm); unsigned char dict[300]; size_t f1, f2; ZSTD_DDict* dd;
        gen_data(dict, sizeof dict, 4); dd = ZSTD_createDDict(dict, sizeof dict);
        ZSTD_DCtx_setParameter(hd, ZSTD_d_refMultipleDDicts, 1); ZSTD_DCtx_refDDict(hd, dd);
        if (a[1][1] != 's') ZSTD_DCtx_loadDictionary(hd, dict, sizeof dict);
        ZSTD_copyDCtx(h2, hd);
        f1 = ZSTD_freeDCtx(hd); f2 = ZSTD_freeDCtx(h2); ZSTD_freeDDict(dd);
        printf("free=%s/%s live=%llx badfree=%llx\n", ecode(f1), ecode(f2), (u64)cnt.live, (u64)cnt.badFree); }
    else { size_t fr; ZSTD_copyDCtx(hd, sd); dr = stream_decode(hd, frame, fl, outb, 208, 11, 50, &prod); fr = ZSTD_freeDCtx(hd);
        printf("rc=%s/%llx free=%s live=%llx badfree=%llx\n", ecode(dr), (u64)prod, ecode(fr), (u64)cnt.live, (u64)cnt.badFree); }
    zv_armed = 0;
done:
    zv_armed = 0; zv_region_free(&r);
}

/* ---------------------------------------------------------------------------------------------------------
 * LEGACY ver wlog limitLog n : a hand-made legacy frame through a heap ZSTD_decompressStream whose window limit is
 *   2^limitLog; reports the outcome, the heap growth (legacy contexts use plain malloc) and ZSTD_sizeof_DCtx */
static void do_legacy(char** a) {
    unsigned ver = (unsigned)hx(a[1]), wlog = (unsigned)hx(a[2]), limitLog = (unsigned)hx(a[3]); size_t n = (size_t)hx(a[4]);
    unsigned char* frame = (unsigned char*)malloc(n + 64); unsigned char* outb = (unsigned char*)malloc(n + 64); size_t fl, before, after, prod = 0, rc, so;
    ZSTD_DCtx* d = ZSTD_createDCtx();
    rc = ZSTD_DCtx_setParameter(d, ZSTD_d_windowLogMax, (int)limitLog);
    if (ZSTD_isError(rc)) { printf("BADPARAM\n"); goto done; }
    fl = make_legacy(frame, ver, wlog, n);
    before = heap_held();
    rc = stream_decode(d, frame, fl, outb, n + 8, fl, n + 8, &prod);
    after = heap_held(); so = ZSTD_sizeof_DCtx(d);
    if (!ZSTD_isError(rc) && (prod != n || (n && outb[0] != 'a'))) printf("BADDECODE ");
    printf("rc=%s out=%llx growth=%llx sizeof=%llx dctx=%llx\n", ecode(rc), (u64)prod, (u64)(after > before ? after - before : 0), (u64)so, (u64)sizeof(ZSTD_DCtx));
done:
    ZSTD_freeDCtx(d); free(frame); free(outb);
}

/* ---------------------------------------------------------------------------------------------------------
 * DFF placement kind wl len ichunk : static DStream of exactly ZSTD_estimateDStreamSize_fromFrame(frame) inside guard pages
 *   decodes that frame (kind u/k/s as in c14_harness.c); 1-byte output steps unless len is small */
static void do_dff(char** a) {
    unsigned placement = (unsigned)hx(a[1]); char k = a[2][0]; unsigned wl = (unsigned)hx(a[3]); size_t len = (size_t)hx(a[4]); size_t ichunk = (size_t)hx(a[5]);
    unsigned char* frame = (unsigned char*)malloc(len + 64); unsigned char* outb = (unsigned char*)malloc(len + 64); size_t fl, est, rc, prod = 0; zv_region r; char* ws; ZSTD_DCtx* d; size_t j; int bad = 0;
    fl = (k == 's') ? make_frame_ss(frame, len, 3) : make_frame(frame, wl, k == 'k', len, 3);
    est = ZSTD_estimateDStreamSize_fromFrame(frame, fl);
    if (ZSTD_isError(est)) { printf("EST-%s\n", ecode(est)); free(frame); free(outb); return; }
    if (!zv_region_make(&r, est)) { printf("SKIP mmap\n"); free(frame); free(outb); return; }
    ws = zv_place(&r, est, placement);
    zv_armed = 1;
    if (sigsetjmp(zv_jmp, 1)) { zv_armed = 0; printf("SEGV est=%llx\n", (u64)est); goto done; }
    d = ZSTD_initStaticDCtx(ws, est);
    if (!d) { zv_armed = 0; printf("NULL est=%llx\n", (u64)est); goto done; }
    ZSTD_DCtx_setParameter(d, ZSTD_d_windowLogMax, ZSTD_WINDOWLOG_MAX);
    rc = stream_decode(d, frame, fl, outb, len + 8, ichunk ? ichunk : 1, 3, &prod);
    zv_armed = 0;
    if (!ZSTD_isError(rc)) { if (prod != len) bad = 1; for (j = 0; j < len && !bad; j++) if (outb[j] != (unsigned char)(3 + j * 7)) bad = 1; }
    printf("%s est=%llx in=%llx out=%llx\n", bad ? "BADDECODE" : ecode(rc), (u64)est, (u64)d->inBuffSize, (u64)d->outBuffSize);
done:
    zv_armed = 0; zv_region_free(&r); free(frame); free(outb);
}

/* ---------------------------------------------------------------------------------------------------------
 * CDLVL placement dictSize level srcHint : the recipe of zstd.h for a static CDict made from a compression level:
 *   size = ZSTD_estimateCDictSize(dictSize, level); cParams = ZSTD_getCParams(level, srcHint, dictSize); ZSTD_initStaticCDict */
static void do_cdlvl(char** a) {
    unsigned placement = (unsigned)hx(a[1]); size_t dictSize = (size_t)hx(a[2]); int level = (int)hxs(a[3]); u64 hint = hx(a[4]);
    size_t const est = ZSTD_estimateCDictSize(dictSize, level); ZSTD_compressionParameters const cp = ZSTD_getCParams(level, hint, dictSize);
    size_t const adv = ZSTD_estimateCDictSize_advanced(dictSize, cp, ZSTD_dlm_byCopy);
    zv_region r; char* ws; const ZSTD_CDict* cd; unsigned char* dict = (unsigned char*)malloc(dictSize + 8);
    if (!zv_region_make(&r, est)) { printf("SKIP mmap\n"); free(dict); return; }
    ws = zv_place(&r, est, placement); gen_data(dict, dictSize, 2);
    zv_armed = 1;
    if (sigsetjmp(zv_jmp, 1)) { zv_armed = 0; printf("SEGV\n"); goto done; }
    cd = ZSTD_initStaticCDict(ws, est, dict, dictSize, ZSTD_dlm_byCopy, ZSTD_dct_rawContent, cp);
    if (cd) {   /* use it */
        size_t const srcLen = 6000; unsigned char* src = (unsigned char*)malloc(srcLen); unsigned char* dst = (unsigned char*)malloc(ZSTD_compressBound(srcLen));
        unsigned char* back = (unsigned char*)malloc(srcLen); ZSTD_CCtx* c = ZSTD_createCCtx(); ZSTD_DCtx* d = ZSTD_createDCtx(); size_t cs, ds;
        gen_data(src, srcLen, 8);
        cs = ZSTD_compress_usingCDict(c, dst, ZSTD_compressBound(srcLen), src, srcLen, cd);
        ds = ZSTD_isError(cs) ? cs : ZSTD_decompress_usingDict(d, back, srcLen, dst, cs, dict, dictSize);
        zv_armed = 0;
        printf("%s", (ZSTD_isError(ds) || ds != srcLen || memcmp(back, src, srcLen)) ? "BADROUNDTRIP" : "OK");
        ZSTD_freeCCtx(c); ZSTD_freeDCtx(d); free(src); free(dst); free(back);
    } else { zv_armed = 0; printf("NULL"); }
    printf(" est=%llx adv=%llx cp=%x,%x,%x,%x,%x,%x,%x\n", (u64)est, (u64)adv, cp.windowLog, cp.chainLog, cp.hashLog, cp.searchLog, cp.minMatch, cp.targetLength, (unsigned)cp.strategy);
done:
    zv_armed = 0; free(dict); zv_region_free(&r);
}

/* ---------------------------------------------------------------------------------------------------------
 * CSZ nbWorkers ldm dictSize byRef level srcLen : heap CCtx with the counting allocator; optional local dictionary;
 *   compress; ZSTD_sizeof_CCtx >= live bytes at every step.   OSZ dictSize byRef level : heap CDict / DDict objects */
static void do_csz(char** a) {
    int nbw = (int)hx(a[1]), ldm = (int)hx(a[2]); size_t dictSize = (size_t)hx(a[3]); int byRef = (int)hx(a[4]); int level = (int)hxs(a[5]); size_t srcLen = (size_t)hx(a[6]);
    zv_count cnt; ZSTD_customMem cm; ZSTD_CCtx* c; unsigned char* src = (unsigned char*)malloc(srcLen + 1); size_t cap = ZSTD_compressBound(srcLen) + 64; unsigned char* dst = (unsigned char*)malloc(cap);
    unsigned char* dict = (unsigned char*)malloc(dictSize + 8); size_t rc; u64 worst = ~(u64)0; int under = 0; int step;
    memset(&cnt, 0, sizeof cnt); cm.customAlloc = zv_cmalloc; cm.customFree = zv_cfree; cm.opaque = &cnt;
    gen_data(src, srcLen, 6); gen_data(dict, dictSize, 7);
    c = ZSTD_createCCtx_advanced(cm);
    ZSTD_CCtx_setParameter(c, ZSTD_c_compressionLevel, level);
    if (nbw) ZSTD_CCtx_setParameter(c, ZSTD_c_nbWorkers, nbw);
    if (ldm) ZSTD_CCtx_setParameter(c, ZSTD_c_enableLongDistanceMatching, 1);
    for (step = 0; step < 4; step++) {
        size_t so;
        if (step == 0 && dictSize) rc = ZSTD_CCtx_loadDictionary_advanced(c, dict, dictSize, byRef ? ZSTD_dlm_byRef : ZSTD_dlm_byCopy, ZSTD_dct_rawContent);
        else if (step == 1 || step == 2) rc = ZSTD_compress2(c, dst, cap, src, step == 1 ? srcLen : srcLen / 3);
        else if (step == 3) { ZSTD_inBuffer in = { src, srcLen / 2, 0 }; ZSTD_outBuffer out = { dst, cap, 0 }; rc = ZSTD_compressStream2(c, &out, &in, ZSTD_e_flush); }
        else rc = 0;
        if (ZSTD_isError(rc)) { printf("ERR-%s step=%d\n", ecode(rc), step); goto done; }
        so = ZSTD_sizeof_CCtx(c);
        if (so < cnt.live) under++;
        if ((u64)so - (u64)cnt.live < worst) worst = (u64)so - (u64)cnt.live;
        if (so < cnt.live) { printf("UNDER step=%d live=%llx sizeof=%llx\n", step, (u64)cnt.live, (u64)so); goto done; }
    }
    printf("OK live=%llx sizeof=%llx slack=%llx\n", (u64)cnt.live, (u64)ZSTD_sizeof_CCtx(c), worst);
done:
    ZSTD_freeCCtx(c);
    if (cnt.live || cnt.badFree) printf("LEAK live=%llx badfree=%llx\n", (u64)cnt.live, (u64)cnt.badFree);
    free(src); free(dst); free(dict);
}
/* MTI nbWorkers ldm level srcLen : a multithreaded heap CCtx observed IN THE MIDDLE of a frame: the caller offers one byte of
 *   output per call, so compressed jobs pile up unflushed; after each call, once every worker is idle, ZSTD_sizeof_CCtx
 *   must cover the bytes the counting allocator holds */
static void do_mti(char** a) {
    int nbw = (int)hx(a[1]), ldm = (int)hx(a[2]); int level = (int)hxs(a[3]); size_t srcLen = (size_t)hx(a[4]);
    zv_count cnt; ZSTD_customMem cm; ZSTD_CCtx* c; unsigned char* src = (unsigned char*)malloc(srcLen + 1); size_t cap = ZSTD_compressBound(srcLen) + 64; unsigned char* dst = (unsigned char*)malloc(cap);
    ZSTD_inBuffer in; ZSTD_outBuffer out; size_t rc = 0; int call; long long worst = 0; int worstCall = -1; size_t wl = 0, wso = 0;
    memset(&cnt, 0, sizeof cnt); cm.customAlloc = zv_cmalloc; cm.customFree = zv_cfree; cm.opaque = &cnt;
    gen_data(src, srcLen, 6);
    c = ZSTD_createCCtx_advanced(cm);
    ZSTD_CCtx_setParameter(c, ZSTD_c_compressionLevel, level); ZSTD_CCtx_setParameter(c, ZSTD_c_nbWorkers, nbw);
    if (ldm) ZSTD_CCtx_setParameter(c, ZSTD_c_enableLongDistanceMatching, 1);
    in.src = src; in.size = srcLen; in.pos = 0;
    for (call = 0; call < 8 && in.pos < in.size; call++) {
        int spin; size_t so, lv;
        out.dst = dst; out.size = 1; out.pos = 0;
        rc = ZSTD_compressStream2(c, &out, &in, ZSTD_e_continue);
        if (ZSTD_isError(rc)) break;
        for (spin = 0; spin < 2000 && ZSTD_getFrameProgression(c).nbActiveWorkers != 0; spin++) usleep(1000);
        usleep(2000);
        so = ZSTD_sizeof_CCtx(c); lv = cnt.live;
        if ((long long)so - (long long)lv < worst) { worst = (long long)so - (long long)lv; worstCall = call; wl = lv; wso = so; }
    }
    if (ZSTD_isError(rc)) printf("ERR-%s ", ecode(rc));
    else if (worst < 0) printf("UNDER call=%d live=%llx sizeof=%llx missing=%llx ", worstCall, (u64)wl, (u64)wso, (u64)(-worst));
    else printf("OK ");
    ZSTD_freeCCtx(c);
    printf("calls=%d end=%llx badfree=%llx\n", call, (u64)cnt.live, (u64)cnt.badFree);
    free(src); free(dst);
}

static void do_osz(char** a) {
    size_t dictSize = (size_t)hx(a[1]); int byRef = (int)hx(a[2]); int level = (int)hxs(a[3]);
    zv_count cnt; ZSTD_customMem cm; unsigned char* dict = (unsigned char*)malloc(dictSize + 8); ZSTD_CDict* cd; ZSTD_DDict* dd; size_t l1, s1, l2, s2;
    memset(&cnt, 0, sizeof cnt); cm.customAlloc = zv_cmalloc; cm.customFree = zv_cfree; cm.opaque = &cnt;
    gen_data(dict, dictSize, 7);
    cd = ZSTD_createCDict_advanced(dict, dictSize, byRef ? ZSTD_dlm_byRef : ZSTD_dlm_byCopy, ZSTD_dct_rawContent, ZSTD_getCParams(level, 0, dictSize), cm);
    l1 = cnt.live; s1 = ZSTD_sizeof_CDict(cd);
    dd = ZSTD_createDDict_advanced(dict, dictSize, byRef ? ZSTD_dlm_byRef : ZSTD_dlm_byCopy, ZSTD_dct_rawContent, cm);
    l2 = cnt.live - l1; s2 = ZSTD_sizeof_DDict(dd);
    printf("%s cdict=%llx/%llx ddict=%llx/%llx", (cd && dd && s1 >= l1 && s2 >= l2) ? "OK" : "UNDER", (u64)l1, (u64)s1, (u64)l2, (u64)s2);
    ZSTD_freeCDict(cd); ZSTD_freeDDict(dd);
    printf(" end=%llx\n", (u64)cnt.live);
    free(dict);
}

/* ---------------------------------------------------------------------------------------------------------
 * SCCT placement op arg : a STATIC CCtx (ZSTD_estimateCStreamSize(3) bytes inside guard pages) driven towards every
 *   allocation site of zstd_compress.c; counts the malloc/calloc calls made by the whole process meanwhile
 *   op: W<n> nbWorkers=n through ZSTD_CCtx_setParametersUsingCCtxParams, ZSTD_compress2 of 2 MiB      S<n> same, ZSTD_compressStream2
 *       D<n> direct ZSTD_CCtx_setParameter(ZSTD_c_nbWorkers, n)                 B ZSTD_CCtx_loadDictionary_byReference + compress2
 *       Y ZSTD_CCtx_loadDictionary (by copy)    P ZSTD_CCtx_refPrefix + compress2    R ZSTD_CCtx_refCDict(external CDict) + compress2
 *       Q ZSTD_generateSequences               N nothing special (plain compress2)   T ZSTD_CCtx_refThreadPool + nbWorkers via params
 *       round 3: Z ZSTD_compressSequences   L block API   C compressBegin_usingDict / Continue / End   I ZSTD_initCStream_srcSize + compressStream / endStream
 *                U ZSTD_initCStream_usingDict   H ZSTD_compress_usingCDict_advanced   E a failing sequence producer + fallback   X ZSTD_copyCCtx static <- static */
static size_t zv_failing_producer(void* st, ZSTD_Sequence* out, size_t cap, const void* src, size_t n, const void* dict, size_t dn, int lvl, size_t wsz) {
    (void)st; (void)out; (void)cap; (void)src; (void)n; (void)dict; (void)dn; (void)lvl; (void)wsz; return ZSTD_SEQUENCE_PRODUCER_ERROR; }
static void do_scct(char** a) {
    unsigned placement = (unsigned)hx(a[1]); char op = a[2][0]; int arg = (int)hx(a[2] + 1);
    size_t const est = ZSTD_estimateCStreamSize(3); zv_region r; char* ws; ZSTD_CCtx* c; size_t rc = 0, rc0 = 0;
    size_t const n = (op == 'W' || op == 'S' || op == 'T') ? (2u << 20) : 100000; unsigned char* src = (unsigned char*)malloc(n); size_t const cap = ZSTD_compressBound(n);
    unsigned char* dst = (unsigned char*)malloc(cap); unsigned char* back = (unsigned char*)malloc(n); static unsigned char dict[5000];
    ZSTD_CCtx_params* p = ZSTD_createCCtxParams(); ZSTD_CDict* cd = NULL; ZSTD_Sequence* seqs = NULL; ZSTD_threadPool* tp = NULL; ZSTD_DCtx* d = ZSTD_createDCtx(); int usedDict = 0;
    ZSTD_Sequence* seqs2 = NULL; size_t nseqs2 = 0; int noFrame = 0;
    gen_data(src, n, 11); memcpy(dict, src + 100, sizeof dict);
    if (op == 'R' || op == 'H') cd = ZSTD_createCDict(dict, sizeof dict, 3);
    if (op == 'Z') { ZSTD_CCtx* h = ZSTD_createCCtx(); seqs2 = (ZSTD_Sequence*)malloc(ZSTD_sequenceBound(n) * sizeof(ZSTD_Sequence));
        nseqs2 = ZSTD_generateSequences(h, seqs2, ZSTD_sequenceBound(n), src, n); if (!ZSTD_isError(nseqs2)) nseqs2 = ZSTD_mergeBlockDelimiters(seqs2, nseqs2); ZSTD_freeCCtx(h); }
    if (op == 'Q') seqs = (ZSTD_Sequence*)malloc(ZSTD_sequenceBound(n) * sizeof(ZSTD_Sequence));
    if (op == 'T') tp = ZSTD_createThreadPool(2);
    if (!zv_region_make(&r, est)) { printf("SKIP mmap\n"); goto done0; }
    ws = zv_place(&r, est, placement);
    zv_armed = 1;
    if (sigsetjmp(zv_jmp, 1)) { zv_armed = 0; zv_watch = 0; printf("SEGV\n"); goto done; }
    c = ZSTD_initStaticCCtx(ws, est);
    if (!c) { zv_armed = 0; printf("NULL\n"); goto done; }
    zv_mcalls = 0; zv_mbytes = 0; zv_watch = 1;
    if (op == 'W' || op == 'S' || op == 'T') {
        ZSTD_CCtxParams_init(p, 3); rc0 = ZSTD_CCtxParams_setParameter(p, ZSTD_c_nbWorkers, arg);
        if (op == 'T') ZSTD_CCtx_refThreadPool(c, tp);
        if (!ZSTD_isError(rc0)) rc0 = ZSTD_CCtx_setParametersUsingCCtxParams(c, p);
    } else if (op == 'D') rc0 = ZSTD_CCtx_setParameter(c, ZSTD_c_nbWorkers, arg);
    else if (op == 'B') { rc0 = ZSTD_CCtx_loadDictionary_byReference(c, dict, sizeof dict); usedDict = 1; }
    else if (op == 'Y') { rc0 = ZSTD_CCtx_loadDictionary(c, dict, sizeof dict); usedDict = !ZSTD_isError(rc0); }
    else if (op == 'P') { rc0 = ZSTD_CCtx_refPrefix(c, dict, sizeof dict); usedDict = 1; }
    else if (op == 'R') { rc0 = ZSTD_CCtx_refCDict(c, cd); usedDict = 1; }
    if (op == 'Q') rc = ZSTD_generateSequences(c, seqs, ZSTD_sequenceBound(n), src, n);
    /* round 3: more entry points on the same static context */
    else if (op == 'Z') {   /* ZSTD_compressSequences with sequences produced beforehand by a heap context */
        rc = ZSTD_compressSequences(c, dst, cap, seqs2, nseqs2, src, n); }
    else if (op == 'L') {   /* block-level API */
        rc = ZSTD_compressBegin(c, 3); if (!ZSTD_isError(rc)) rc = ZSTD_compressBlock(c, dst, cap, src, 50000); noFrame = 1; }
    else if (op == 'C') {   /* buffer-less streaming with a raw dictionary */
        size_t r1; rc = ZSTD_compressBegin_usingDict(c, dict, sizeof dict, 3); usedDict = 1;
        if (!ZSTD_isError(rc)) { r1 = ZSTD_compressContinue(c, dst, cap, src, n / 2); rc = r1;
            if (!ZSTD_isError(r1)) { rc = ZSTD_compressEnd(c, dst + r1, cap - r1, src + n / 2, n - n / 2); if (!ZSTD_isError(rc)) rc += r1; } } }
    else if (op == 'I') {   /* deprecated streaming initialisers */
        ZSTD_inBuffer in = { src, n, 0 }; ZSTD_outBuffer out = { dst, cap, 0 };
        rc = ZSTD_initCStream_srcSize(c, 3, n);
        if (!ZSTD_isError(rc)) rc = ZSTD_compressStream(c, &out, &in);
        while (!ZSTD_isError(rc)) { rc = ZSTD_endStream(c, &out); if (rc == 0) { rc = out.pos; break; } } }
    else if (op == 'U') { rc0 = ZSTD_initCStream_usingDict(c, dict, sizeof dict, 3); rc = ZSTD_isError(rc0) ? rc0 : ZSTD_compress2(c, dst, cap, src, n); usedDict = !ZSTD_isError(rc0); }
    else if (op == 'H') { ZSTD_frameParameters fp = { 1, 1, 0 }; rc = ZSTD_compress_usingCDict_advanced(c, dst, cap, src, n, cd, fp); usedDict = 1; }
    else if (op == 'E') {   /* a registered sequence producer that always fails, with fallback to the internal parser */
        ZSTD_registerSequenceProducer(c, NULL, zv_failing_producer); ZSTD_CCtx_setParameter(c, ZSTD_c_enableSeqProducerFallback, 1);
        rc = ZSTD_compress2(c, dst, cap, src, n); }
    else if (op == 'X') {   /* ZSTD_copyCCtx static <- static */
        void* b2 = malloc(est); ZSTD_CCtx* c2 = ZSTD_initStaticCCtx(b2, est); size_t r1;
        zv_mcalls = 0; zv_mbytes = 0;
        rc = ZSTD_compressBegin(c2, 3); if (!ZSTD_isError(rc)) rc = ZSTD_copyCCtx(c, c2, n);
        if (!ZSTD_isError(rc)) rc = ZSTD_compressEnd(c, dst, cap, src, n);
        (void)r1; zv_watch = 0; free(b2); }
    else if (op == 'S') { ZSTD_inBuffer in = { src, n, 0 }; ZSTD_outBuffer out = { dst, cap, 0 };
        rc = ZSTD_compressStream2(c, &out, &in, ZSTD_e_continue);
        while (!ZSTD_isError(rc)) { rc = ZSTD_compressStream2(c, &out, &in, ZSTD_e_end); if (rc == 0) { rc = out.pos; break; } } }
    else rc = ZSTD_compress2(c, dst, cap, src, n);
    zv_watch = 0;
    printf("set=%s rc=%s mallocs=%llx bytes=%llx sizeof=%llx block=%llx", ecode(rc0), ecode(rc), (u64)zv_mcalls, (u64)zv_mbytes, (u64)ZSTD_sizeof_CCtx(c), (u64)est);
    if (!ZSTD_isError(rc) && op != 'Q' && !noFrame) {
        size_t const dr = usedDict ? ZSTD_decompress_usingDict(d, back, n, dst, rc, dict, sizeof dict) : ZSTD_decompressDCtx(d, back, n, dst, rc);
        printf(" rt=%s", (!ZSTD_isError(dr) && dr == n && !memcmp(back, src, n)) ? "ok" : "BAD");
    }
    /* the context must remain usable as a plain static context */
    ZSTD_CCtx_reset(c, ZSTD_reset_session_and_parameters);
    {   size_t const r2 = ZSTD_compressCCtx(c, dst, cap, src, 50000, 1); size_t const d2 = ZSTD_isError(r2) ? r2 : ZSTD_decompressDCtx(d, back, n, dst, r2);
        printf(" after=%s\n", (!ZSTD_isError(d2) && d2 == 50000 && !memcmp(back, src, 50000)) ? "OK" : ecode(ZSTD_isError(r2) ? r2 : d2)); }
    zv_armed = 0;
done:
    zv_armed = 0; zv_watch = 0; zv_region_free(&r);
done0:
    ZSTD_freeCCtxParams(p); ZSTD_freeCDict(cd); ZSTD_freeDCtx(d); if (tp) ZSTD_freeThreadPool(tp); free(seqs); free(seqs2); free(src); free(dst); free(back);
}

/* ---------------------------------------------------------------------------------------------------------
 * ADV placement hashLog searchLog strategy : "estimate_usingCParams(c) + exactly c" through the one public entry point that
 *   applies c RAW, ZSTD_compress_advanced (no ZSTD_adjustCParams_internal: hashLog is not capped at 24 + rowLog);
 *   c = {windowLog 20, chainLog 6, hashLog, searchLog, minMatch 4, 0, strategy}.  The block (up to several GiB) is a
 *   MAP_NORESERVE mapping: a refusal happens at the size gate, before anything is touched. */
static void do_adv(char** a) {
    unsigned placement = (unsigned)hx(a[1]); ZSTD_compressionParameters c; size_t est, rc, rc2; char* map; char* ws; ZSTD_CCtx* cctx; ZSTD_parameters p;
    size_t const n = 100000; unsigned char* src = (unsigned char*)malloc(n); size_t const cap = ZSTD_compressBound(n); unsigned char* dst = (unsigned char*)malloc(cap);
    c.windowLog = 20; c.chainLog = 6; c.hashLog = (unsigned)hx(a[2]); c.searchLog = (unsigned)hx(a[3]); c.minMatch = 4; c.targetLength = 0; c.strategy = (ZSTD_strategy)hx(a[4]);
    gen_data(src, n, 5);
    if (ZSTD_isError(ZSTD_checkCParams(c))) { printf("BADPARAM\n"); goto done; }
    est = ZSTD_estimateCCtxSize_usingCParams(c);
    map = (char*)mmap(NULL, est + 4096, PROT_READ | PROT_WRITE, MAP_PRIVATE | MAP_ANONYMOUS | MAP_NORESERVE, -1, 0);
    if (map == MAP_FAILED) { printf("SKIP mmap\n"); goto done; }
    ws = map + 8 * (placement & 7);
    zv_armed = 1;
    if (sigsetjmp(zv_jmp, 1)) { zv_armed = 0; printf("SEGV est=%llx\n", (u64)est); munmap(map, est + 4096); goto done; }
    cctx = ZSTD_initStaticCCtx(ws, est);
    memset(&p, 0, sizeof p); p.cParams = c; p.fParams.contentSizeFlag = 1;
    rc = ZSTD_compress_advanced(cctx, dst, cap, src, n, NULL, 0, p);
    ZSTD_CCtx_reset(cctx, ZSTD_reset_session_and_parameters);
    ZSTD_CCtx_setParameter(cctx, ZSTD_c_windowLog, (int)c.windowLog); ZSTD_CCtx_setParameter(cctx, ZSTD_c_chainLog, (int)c.chainLog); ZSTD_CCtx_setParameter(cctx, ZSTD_c_hashLog, (int)c.hashLog);
    ZSTD_CCtx_setParameter(cctx, ZSTD_c_searchLog, (int)c.searchLog); ZSTD_CCtx_setParameter(cctx, ZSTD_c_minMatch, (int)c.minMatch); ZSTD_CCtx_setParameter(cctx, ZSTD_c_strategy, (int)c.strategy);
    rc2 = ZSTD_compress2(cctx, dst, cap, src, n);
    zv_armed = 0;
    printf("advanced=%s compress2=%s est=%llx\n", ecode(rc), ecode(rc2), (u64)est);
    munmap(map, est + 4096);
done:
    zv_armed = 0; free(src); free(dst);
}

/* ---------------------------------------------------------------------------------------------------------
 * round 3.  MTF from to k ldm : ZSTD_sizeof_CCtx of a heap multithreaded CCtx whose worker count changes from -> to while
 *   the k-th allocation of the resizing session fails (k = 0: none fails).  The failed session must answer
 *   memory_allocation (or succeed when k is beyond the last allocation); the context stays a live object: its reported
 *   size must be obtainable and >= the bytes the counting allocator holds, the next session must succeed and
 *   ZSTD_freeCCtx must release everything.
 *   prints  r1 r2 so/live  r3 so/live  end=live badfree */
static volatile long zv_failAt = -1; static volatile long zv_allocNo = 0;
static void* zv_fmalloc(void* op, size_t sz) { long const n = __sync_add_and_fetch(&zv_allocNo, 1); if (zv_failAt >= 0 && n == zv_failAt) return NULL; return zv_cmalloc(op, sz); }
static void do_mtf(char** a) {
    int from = (int)hx(a[1]), to = (int)hx(a[2]); long k = (long)hx(a[3]); int ldm = (int)hx(a[4]);
    zv_count cnt; ZSTD_customMem cm; ZSTD_CCtx* c; size_t const n = 1 << 20; unsigned char* src = (unsigned char*)malloc(n); size_t const cap = ZSTD_compressBound(n);
    unsigned char* dst = (unsigned char*)malloc(cap); size_t r1, r2, r3, so; long used; volatile int stage = 0;
    memset(&cnt, 0, sizeof cnt); cm.customAlloc = zv_fmalloc; cm.customFree = zv_cfree; cm.opaque = &cnt;
    gen_data(src, n, 21); zv_failAt = -1; zv_allocNo = 0;
    c = ZSTD_createCCtx_advanced(cm);
    ZSTD_CCtx_setParameter(c, ZSTD_c_compressionLevel, 1);
    if (ldm) { ZSTD_CCtx_setParameter(c, ZSTD_c_enableLongDistanceMatching, 1); ZSTD_CCtx_setParameter(c, ZSTD_c_windowLog, 20); }
    ZSTD_CCtx_setParameter(c, ZSTD_c_nbWorkers, from);
    r1 = ZSTD_compress2(c, dst, cap, src, n);
    ZSTD_CCtx_setParameter(c, ZSTD_c_nbWorkers, to);
    used = zv_allocNo; zv_failAt = k ? used + k : -1;
    r2 = ZSTD_compress2(c, dst, cap, src, n);
    zv_failAt = -1; used = zv_allocNo - used;
    printf("r1=%s r2=%s allocs=%lx ", ecode(r1), ecode(r2), used); fflush(stdout);
    zv_armed = 1;
    if (sigsetjmp(zv_jmp, 1)) { zv_armed = 0; printf("%s live=%llx\n", stage ? "NEXT-SESSION-SEGV" : "SIZEOF-SEGV", (u64)cnt.live); goto done; }   /* the context is abandoned */
    so = ZSTD_sizeof_CCtx(c);
    printf("%s/%llx/%llx ", so < cnt.live ? "UNDER" : "ok", (u64)so, (u64)cnt.live); fflush(stdout);
    stage = 1;
    r3 = ZSTD_compress2(c, dst, cap, src, n);
    so = ZSTD_sizeof_CCtx(c);
    printf("r3=%s %s/%llx/%llx ", ecode(r3), so < cnt.live ? "UNDER" : "ok", (u64)so, (u64)cnt.live);
    zv_armed = 0;
    ZSTD_freeCCtx(c);
    printf("end=%llx badfree=%llx\n", (u64)cnt.live, (u64)cnt.badFree);
done:
    zv_armed = 0; free(src); free(dst);
}

/* ---------------------------------------------------------------------------------------------------------
 * round 3.  CHIS op op ... : ownership history on one HEAP CCtx created with the counting allocator (direct oracle only):
 *   after every operation, once all workers are idle, ZSTD_sizeof_CCtx >= bytes the allocator holds; ZSTD_freeCCtx -> 0.
 *   op:  W<n> nbWorkers   G<0|1> long-distance matching   V<level>   w<windowLog>   J<jobSize>
 *        D<size>/<byRef> ZSTD_CCtx_loadDictionary_advanced(raw)   P<size> refPrefix   K<size> refCDict(external CDict)  k refCDict(NULL)
 *        T<0|1|2> ZSTD_CCtx_refThreadPool(NULL | pool A (2 threads) | pool B (3 threads))
 *        C<size> ZSTD_compress2   S<size> ZSTD_compressStream2(continue) offering ONE byte of output (frame left open)
 *        E ZSTD_compressStream2(end) until done   Rs / Rp ZSTD_CCtx_reset(session_only / session_and_parameters)
 *        U<size>/<dictSize> ZSTD_compress_usingDict(level 3)   A<size>/<hashLog> ZSTD_compress_advanced(fast, that hashLog)   (also inside an open streaming frame: abandons it, fix 38ec6ea)
 *        Y<level> ZSTD_copyCCtx(this <- a fresh context of the same allocator after ZSTD_compressBegin(level)), ZSTD_compressEnd(1000 bytes)
 *        X<size> ZSTD_CCtx_setParametersUsingCCtxParams(level 5, nbWorkers 2, LDM) then compress2
 *        !<k> the k-th allocation made by the NEXT operation fails (that operation may answer memory_allocation; the context
 *             stays a live object: its size must be obtainable, later operations may succeed, ZSTD_freeCCtx releases everything)
 *   per op:  <rc>/<live>/<sizeof>  */
static void do_chis(char** a, int n) {
    zv_count cnt; ZSTD_customMem cm; ZSTD_CCtx* c; int i; size_t const maxN = 6u << 20; unsigned char* src = (unsigned char*)malloc(maxN);
    size_t const cap = ZSTD_compressBound(maxN); unsigned char* dst = (unsigned char*)malloc(cap); unsigned char* dict = (unsigned char*)malloc(1 << 20);
    ZSTD_threadPool* tp[3] = { NULL, NULL, NULL }; ZSTD_CDict* cds[16]; int ncd = 0; int under = 0;
    long pendingFail = 0;   /* token !<k> : the k-th allocation of the NEXT operation fails */
    int const pollOK = 1;   /* (round 3: ZSTD_getFrameProgression used to crash after ZSTD_CCtx_refThreadPool / ZSTD_copyCCtx; fixed by 6c831c5) */
    memset(&cnt, 0, sizeof cnt); cm.customAlloc = zv_fmalloc; cm.customFree = zv_cfree; cm.opaque = &cnt;
    zv_failAt = -1; zv_allocNo = 0;
    gen_data(src, maxN, 31); gen_data(dict, 1 << 20, 32);
    tp[1] = ZSTD_createThreadPool(2); tp[2] = ZSTD_createThreadPool(3);
    c = ZSTD_createCCtx_advanced(cm);
    for (i = 1; i < n; i++) {
        char k = a[i][0]; size_t rc = 0; char* sl = strchr(a[i], '/'); size_t v = (size_t)hx(a[i] + 1); size_t v2 = sl ? (size_t)hx(sl + 1) : 0; size_t so, lv; int spin;
        if (v > maxN && strchr("CSUAX", k)) v = maxN;
        if (k == '!') { pendingFail = (long)v; continue; }
        if (pendingFail) { zv_failAt = zv_allocNo + pendingFail; pendingFail = 0; }
        zv_armed = 1;
        if (sigsetjmp(zv_jmp, 1)) { zv_armed = 0; zv_failAt = -1; printf("SEGV@%d:%s live=%llx\n", i, a[i], (u64)cnt.live); goto abandoned; }   /* the context is abandoned */
        if (k == 'W') rc = ZSTD_CCtx_setParameter(c, ZSTD_c_nbWorkers, (int)v);
        else if (k == 'G') rc = ZSTD_CCtx_setParameter(c, ZSTD_c_enableLongDistanceMatching, (int)v);
        else if (k == 'V') rc = ZSTD_CCtx_setParameter(c, ZSTD_c_compressionLevel, (int)hxs(a[i] + 1));
        else if (k == 'w') rc = ZSTD_CCtx_setParameter(c, ZSTD_c_windowLog, (int)v);
        else if (k == 'J') rc = ZSTD_CCtx_setParameter(c, ZSTD_c_jobSize, (int)v);
        else if (k == 'D') rc = ZSTD_CCtx_loadDictionary_advanced(c, dict, v > (1 << 20) ? (1 << 20) : v, v2 ? ZSTD_dlm_byRef : ZSTD_dlm_byCopy, ZSTD_dct_rawContent);
        else if (k == 'P') rc = ZSTD_CCtx_refPrefix(c, dict, v > (1 << 20) ? (1 << 20) : v);
        else if (k == 'K') { if (ncd < 16) { cds[ncd] = ZSTD_createCDict(dict, v > (1 << 20) ? (1 << 20) : v, 3); rc = ZSTD_CCtx_refCDict(c, cds[ncd]); ncd++; } }
        else if (k == 'k') rc = ZSTD_CCtx_refCDict(c, NULL);
        else if (k == 'T') rc = ZSTD_CCtx_refThreadPool(c, tp[v % 3]);
        else if (k == 'C') rc = ZSTD_compress2(c, dst, cap, src, v);
        else if (k == 'S') { ZSTD_inBuffer in = { src, v, 0 }; ZSTD_outBuffer out = { dst, 1, 0 }; rc = ZSTD_compressStream2(c, &out, &in, ZSTD_e_continue); }
        else if (k == 'E') { ZSTD_inBuffer in = { src, 0, 0 }; int g = 0; do { ZSTD_outBuffer out = { dst, cap, 0 }; rc = ZSTD_compressStream2(c, &out, &in, ZSTD_e_end); } while (!ZSTD_isError(rc) && rc != 0 && ++g < 1000); }
        else if (k == 'R') rc = ZSTD_CCtx_reset(c, a[i][1] == 'p' ? ZSTD_reset_session_and_parameters : ZSTD_reset_session_only);
        else if (k == 'U') rc = ZSTD_compress_usingDict(c, dst, cap, src, v, dict, v2 > (1 << 20) ? (1 << 20) : v2, 3);
        else if (k == 'A') { ZSTD_parameters p; memset(&p, 0, sizeof p); p.cParams = ZSTD_getCParams(1, v, 0); p.cParams.hashLog = (unsigned)v2; p.fParams.contentSizeFlag = 1;
            rc = ZSTD_isError(ZSTD_checkCParams(p.cParams)) ? 0 : ZSTD_compress_advanced(c, dst, cap, src, v, NULL, 0, p); }
        else if (k == 'Y') { ZSTD_CCtx* tmp = ZSTD_createCCtx_advanced(cm);   /* same allocator on both sides: see CPC for different ones */
            /* also into a context whose streaming frame is open (abandons it: fix d3967a5) */
            rc = tmp ? ZSTD_compressBegin(tmp, (int)hxs(a[i] + 1)) : ERROR(memory_allocation); if (!ZSTD_isError(rc)) rc = ZSTD_copyCCtx(c, tmp, 0); ZSTD_freeCCtx(tmp);
            if (!ZSTD_isError(rc)) rc = ZSTD_compressEnd(c, dst, cap, src, 1000); }
        else if (k == 'X') { ZSTD_CCtx_params* p = ZSTD_createCCtxParams(); ZSTD_CCtxParams_init(p, 5); ZSTD_CCtxParams_setParameter(p, ZSTD_c_nbWorkers, 2);
            ZSTD_CCtxParams_setParameter(p, ZSTD_c_enableLongDistanceMatching, 1); rc = ZSTD_CCtx_setParametersUsingCCtxParams(c, p); ZSTD_freeCCtxParams(p);
            if (!ZSTD_isError(rc)) rc = ZSTD_compress2(c, dst, cap, src, v); }
        else { printf("BADTOKEN "); zv_armed = 0; continue; }
        zv_failAt = -1;
        for (spin = 0; pollOK && spin < 4000 && ZSTD_getFrameProgression(c).nbActiveWorkers != 0; spin++) usleep(500);
        usleep(1000);
        so = ZSTD_sizeof_CCtx(c); lv = cnt.live;
        printf("%s/%llx/%llx ", ZSTD_isError(rc) ? ecode(rc) : "OK", (u64)lv, (u64)so);
        zv_armed = 0;
        if (so < lv) { under = 1; printf("UNDER@%d:%s missing=%llx ", i, a[i], (u64)(lv - so)); break; }
    }
    zv_armed = 0;
    ZSTD_freeCCtx(c);
    printf("%s end=%llx badfree=%llx\n", under ? "UNDER" : "fine", (u64)cnt.live, (u64)cnt.badFree);
abandoned:
    zv_armed = 0;
    for (i = 0; i < ncd; i++) ZSTD_freeCDict(cds[i]);
    ZSTD_freeThreadPool(tp[1]); ZSTD_freeThreadPool(tp[2]); free(src); free(dst); free(dict);
}

/* ---------------------------------------------------------------------------------------------------------
 * round 3.  CPC dir : ZSTD_copyCCtx between contexts of different allocators; the destination must keep its own
 *   a: dst custom <- src default    b: dst default <- src custom    s: dst custom <- src static    t: dst static <- src custom
 *   prints plain=<malloc/calloc calls that did not come from the counting allocator, made by the copy and the compression
 *   that follows> taken=<blocks the counting allocator handed out meanwhile> then what is left after the frees */
static void do_cpc(char** a) {
    char dir = a[1][0]; zv_count cnt; ZSTD_customMem cm; ZSTD_CCtx* d = NULL; ZSTD_CCtx* s = NULL; size_t rc, r2; size_t n0, plain, taken;
    static unsigned char src[20000]; static unsigned char dst[40000]; void* sbuf = NULL; size_t const ssz = ZSTD_estimateCCtxSize(3);
    memset(&cnt, 0, sizeof cnt); cm.customAlloc = zv_cmalloc; cm.customFree = zv_cfree; cm.opaque = &cnt;
    gen_data(src, sizeof src, 41);
    if (dir == 's' || dir == 't') { sbuf = malloc(ssz); memset(sbuf, 0x5a, ssz); }
    d = (dir == 'a' || dir == 's') ? ZSTD_createCCtx_advanced(cm) : (dir == 't') ? ZSTD_initStaticCCtx(sbuf, ssz) : ZSTD_createCCtx();
    s = (dir == 'a') ? ZSTD_createCCtx() : (dir == 's') ? ZSTD_initStaticCCtx(sbuf, ssz) : ZSTD_createCCtx_advanced(cm);
    if (!d || !s) { printf("NULL\n"); free(sbuf); return; }
    rc = ZSTD_compressBegin(s, 3);
    n0 = cnt.nAlloc; zv_mcalls = 0; zv_watch = 1;
    if (!ZSTD_isError(rc)) rc = ZSTD_copyCCtx(d, s, ZSTD_CONTENTSIZE_UNKNOWN);
    r2 = ZSTD_isError(rc) ? rc : ZSTD_compressEnd(d, dst, sizeof dst, src, sizeof src);
    zv_watch = 0; taken = cnt.nAlloc - n0; plain = zv_mcalls - taken;     /* the counting allocator itself calls malloc once per block */
    printf("copy=%s end=%s plain=%llx taken=%llx ", ecode(rc), ecode(r2), (u64)plain, (u64)taken);
    if (dir == 'a' || dir == 's') {     /* the custom destination must not have used plain malloc; if it did, freeing it would hand blocks to the wrong allocator: leave it */
        if (dir == 'a') ZSTD_freeCCtx(s);
        if (plain == 0) { ZSTD_freeCCtx(d); printf("live=%llx badfree=%llx\n", (u64)cnt.live, (u64)cnt.badFree); }
        else printf("dst-not-freed live=%llx\n", (u64)cnt.live);
    } else if (dir == 'b') {            /* the default destination must not hold blocks of the source's allocator once the source is gone */
        size_t afterSrc; ZSTD_freeCCtx(s); afterSrc = cnt.live; ZSTD_freeCCtx(d);
        printf("live-after-src-freed=%llx live=%llx badfree=%llx\n", (u64)afterSrc, (u64)cnt.live, (u64)cnt.badFree);
    } else {                            /* static destination: no allocation at all */
        ZSTD_freeCCtx(s); printf("live=%llx badfree=%llx\n", (u64)cnt.live, (u64)cnt.badFree);
    }
    free(sbuf);
}

/* ---------------------------------------------------------------------------------------------------------
 * round 3.  DSG placement windowLog srcLen seed ichunk ochunk level kind : a REAL multi-block frame (made by the library: matches that
 *   reach back the whole window, blocks of every type) decoded by a static DStream of exactly
 *   ZSTD_estimateDStreamSize_fromFrame(frame) bytes whose END touches a PROT_NONE page (placement >= 1): the output ring buffer is the
 *   last object of the block, so a wild copy beyond it faults.  kind: 0 text-like, 1 long-distance repeats at the window edge, 2 noise + runs */
static void do_dsg(char** a) {
    unsigned placement = (unsigned)hx(a[1]); unsigned wlog = (unsigned)hx(a[2]); size_t n = (size_t)hx(a[3]); unsigned seed = (unsigned)hx(a[4]);
    size_t ichunk = (size_t)hx(a[5]), ochunk = (size_t)hx(a[6]); int level = (int)hxs(a[7]); int kind = (int)hx(a[8]);
    unsigned char* src = (unsigned char*)malloc(n + 8); size_t const cap = ZSTD_compressBound(n) + 64; unsigned char* frame = (unsigned char*)malloc(cap);
    unsigned char* outb = (unsigned char*)malloc(n + 64); ZSTD_CCtx* c = ZSTD_createCCtx(); size_t fl, est, rc, prod = 0; zv_region r; char* ws; ZSTD_DCtx* d; size_t i;
    gen_data(src, n, seed);
    if (kind == 1) { size_t const w = (size_t)1 << wlog; for (i = w; i < n; i++) if (((i >> 6) & 3) == 0) src[i] = src[i - w + (i & 7)]; }   /* matches at distance ~ window */
    if (kind == 2) { unsigned x = seed * 7 + 1; for (i = 0; i < n; i++) { x = x * 1103515245u + 12345u; src[i] = ((i >> 10) & 1) ? (unsigned char)(x >> 16) : (unsigned char)(i >> 12); } }
    ZSTD_CCtx_setParameter(c, ZSTD_c_compressionLevel, level); ZSTD_CCtx_setParameter(c, ZSTD_c_windowLog, (int)wlog); ZSTD_CCtx_setParameter(c, ZSTD_c_contentSizeFlag, (int)(seed & 1));
    fl = ZSTD_compress2(c, frame, cap, src, n); ZSTD_freeCCtx(c);
    if (ZSTD_isError(fl)) { printf("CERR-%s\n", ecode(fl)); goto done0; }
    est = ZSTD_estimateDStreamSize_fromFrame(frame, fl);
    if (ZSTD_isError(est)) { printf("EST-%s\n", ecode(est)); goto done0; }
    if (!zv_region_make(&r, est)) { printf("SKIP mmap\n"); goto done0; }
    ws = zv_place(&r, est, placement);
    zv_armed = 1;
    if (sigsetjmp(zv_jmp, 1)) { zv_armed = 0; printf("SEGV est=%llx produced=%llx\n", (u64)est, (u64)prod); goto done; }
    d = ZSTD_initStaticDCtx(ws, est);
    if (!d) { zv_armed = 0; printf("NULL est=%llx\n", (u64)est); goto done; }
    ZSTD_DCtx_setParameter(d, ZSTD_d_windowLogMax, ZSTD_WINDOWLOG_MAX);
    rc = stream_decode(d, frame, fl, outb, n + 8, ichunk ? ichunk : 1, ochunk ? ochunk : 1, &prod);
    zv_armed = 0;
    printf("%s est=%llx frame=%llx out=%llx\n", ZSTD_isError(rc) ? ecode(rc) : (prod == n && !memcmp(outb, src, n)) ? "OK" : "BADDECODE", (u64)est, (u64)fl, (u64)d->outBuffSize);
done:
    zv_armed = 0; zv_region_free(&r);
done0:
    free(src); free(frame); free(outb);
}

int main(void) {
    static char line[1 << 16]; char* a[4096];
    struct sigaction sa; memset(&sa, 0, sizeof sa); sa.sa_sigaction = zv_segv; sa.sa_flags = SA_SIGINFO | SA_NODEFER; sigemptyset(&sa.sa_mask);
    sigaction(SIGSEGV, &sa, NULL); sigaction(SIGBUS, &sa, NULL);
    zv_page = (size_t)sysconf(_SC_PAGESIZE);
    make_dict();
    while (fgets(line, sizeof line, stdin)) {
        int n = 0; char* t = strtok(line, " \t\r\n");
        while (t && n < 4095) { a[n++] = t; t = strtok(NULL, " \t\r\n"); }
        if (n == 0) continue;
        if (!strcmp(a[0], "DOWN")) do_down(a, n);
        else if (!strcmp(a[0], "SDCT")) do_sdct(a);
        else if (!strcmp(a[0], "CPD")) do_cpd(a);
        else if (!strcmp(a[0], "LEGACY")) do_legacy(a);
        else if (!strcmp(a[0], "DFF")) do_dff(a);
        else if (!strcmp(a[0], "CDLVL")) do_cdlvl(a);
        else if (!strcmp(a[0], "SCCT")) do_scct(a);
        else if (!strcmp(a[0], "CSZ")) do_csz(a);
        else if (!strcmp(a[0], "OSZ")) do_osz(a);
        else if (!strcmp(a[0], "MTI")) do_mti(a);
        else if (!strcmp(a[0], "ADV")) do_adv(a);
        else if (!strcmp(a[0], "MTF")) do_mtf(a);
        else if (!strcmp(a[0], "CHIS")) do_chis(a, n);
        else if (!strcmp(a[0], "CPC")) do_cpc(a);
        else if (!strcmp(a[0], "DSG") && n >= 9) do_dsg(a);
        else if (!strcmp(a[0], "DICTLEN")) printf("%llx\n", (u64)zv_dictLen);
        else if (!strcmp(a[0], "SIZES")) printf("%llx %llx\n", (u64)sizeof(ZSTD_DCtx), (u64)sizeof(ZSTD_DDictHashSet));
        else printf("UNKNOWN-CASE %s\n", a[0]);
        fflush(stdout);
    }
    return 0;
}
