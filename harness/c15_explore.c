/* C15 oracle harness (R3): reuse fuzzer on REAL contexts.
 * One context (and a second one as the destination of ZSTD_copyCCtx) is reused across all frames of a scenario with every
 * table-carrying feature switched between frames: level or explicit parameters, row match finder, LDM, nbWorkers 0/1/2,
 * dedicatedDictSearch, attach / copy / load, raw and formatted dictionaries, CDicts shared by the whole run, and the entry
 * points ZSTD_compress2 / ZSTD_compressStream2 / ZSTD_compressBegin_usingDict|_usingCDict + ZSTD_compressContinue|End /
 * ZSTD_compressBlock / ZSTD_copyCCtx / ZSTD_compressCCtx / ZSTD_compress_usingDict|_usingCDict / ZSTD_initCStream_usingDict|
 * _usingCDict; destination too small in the middle of a frame; frames abandoned half way; caller-managed segments that are
 * contiguous, at a new address or cover the previous segment.  Every frame is also made by brand-new contexts.
 * Oracles (direct): every frame / block decodes to its input (streaming decoder with 4 KiB output pieces, or
 * ZSTD_decompressBlock / ZSTD_insertBlock), reused == fresh byte for byte (block-level sessions of the frequent-correction
 * build excepted: block mode does not enforce the window, a correction is visible there, docs/C15.md 6.6).
 * This fuzzer found finding 6.5 (C15-block-mode-attached-cdict-survives-noncontiguous-input).
 * usage: c15_explore seed nscen warp allowMT nframes firstScenario
 *   warp 1: between frames the index of the contexts is moved next to the reset threshold / ZSTD_CURRENT_MAX (test device,
 *   as "warpto" of c15_ctx.c; the dictionary of such a frame is dropped: known finding 6.1), warp 2: dictionary kept.
 * Output: one "FAIL ..." line (+ the frame description) per failing frame, "DONE seed= scen= fails=" at the end. */
#define ZSTD_DEPS_NEED_MALLOC
#include "compress/zstd_compress.c"
#include "compress/zstdmt_compress.c"
#define ZDICT_STATIC_LINKING_ONLY
#include "zdict.h"
#include <stdio.h>
#include <stdlib.h>
#include <string.h>

typedef long long ll;
static BYTE* arena; static size_t arenaSize;
static U64 rs;
static U32 rnd(void) { rs = rs * 6364136223846793005ULL + 1442695040888963407ULL; return (U32)(rs >> 33); }
static U32 rr(U32 lo, U32 hi) { return lo + rnd() % (hi - lo + 1); }
static void fill_arena(U64 seed) {
    size_t p = 0; U64 const save = rs;
    rs = seed * 0x9E3779B97F4A7C15ULL + 12345;
    while (p < arenaSize) {
        U32 const k = rnd() % 100;
        size_t len = 4 + rnd() % 200;
        if (len > arenaSize - p) len = arenaSize - p;
        if (k < 55 && p > 64) {
            size_t const maxd = (k < 25) ? 1024 : (k < 45) ? (1u << 17) : p;
            size_t const d = 1 + rnd() % (maxd < p ? maxd : p);
            size_t i; for (i = 0; i < len; i++) arena[p + i] = arena[p + i - d];
        } else if (k < 80) {
            size_t i; for (i = 0; i < len; i++) arena[p + i] = (BYTE)("etaoin shrdlu,.\n01"[rnd() % 18]);
        } else {
            size_t i; for (i = 0; i < len; i++) arena[p + i] = (BYTE)rnd();
        }
        p += len;
    }
    rs = save;
}

#define MAXP 40
typedef struct {
    int np; int pid[MAXP]; int pval[MAXP];
    int api;            /* 0 compress2, 1 stream, 2 begin/continue/end, 3 block API, 4 begin + copyCCtx + continue on the copy */
    int dictKind;       /* 0 none, 1 refPrefix raw, 2 loadDictionary raw byRef, 3 loadDictionary formatted, 4 refCDict */
    size_t dictOff, dictSize;     /* raw */
    int cdictIdx;
    size_t off, size;
    size_t cin, cout; int flushEvery;
    int nch; size_t chOff[64], chSize[64];
    int level;          /* for begin_usingDict */
    int pledge;
    size_t capLimit;    /* nonzero: the destination is this small (error injection: dstSize_tooSmall in the middle of a frame) */
    int abandon;        /* api 1: stop feeding in the middle and never end the frame (the next frame starts on the open session) */
    int simple;         /* api 6: 0 ZSTD_compressCCtx, 1 ZSTD_compress_usingDict, 2 ZSTD_compress_usingCDict, 3 ZSTD_initCStream_usingDict legacy streaming */
} frame_t;

/* formatted dictionaries + cdicts shared by the whole run */
#define NFD 3
static BYTE* fdict[NFD]; static size_t fdictSize[NFD];
#define NCD 8
static ZSTD_CDict* cdicts[NCD]; static int cdictSrc[NCD]; /* index into fdict, or -1 raw */ static size_t cdRawOff[NCD], cdRawSize[NCD];

static void make_fdicts(void) {
    int i;
    for (i = 0; i < NFD; i++) {
        size_t const contentSize = (i == 0) ? 300 : (i == 1) ? 20000 : 200000;
        size_t const cap = contentSize + 4096;
        size_t sizes[64]; int k; size_t tot = 0; size_t r;
        ZDICT_params_t zp; memset(&zp, 0, sizeof(zp)); zp.dictID = 1000 + i;
        for (k = 0; k < 64; k++) { sizes[k] = 2000; tot += 2000; }
        fdict[i] = (BYTE*)malloc(cap);
        r = ZDICT_finalizeDictionary(fdict[i], cap, arena + 1000000 + i * 300000, contentSize, arena + 5000, sizes, 64, zp);
        if (ZDICT_isError(r)) { printf("finalize error %s\n", ZDICT_getErrorName(r)); exit(2); }
        fdictSize[i] = r;
    }
}
static void make_cdicts(void) {
    int i;
    for (i = 0; i < NCD; i++) {
        ZSTD_CCtx_params* const p = ZSTD_createCCtxParams();
        int const level = (int)rr(1, 19);
        const void* d; size_t ds; ZSTD_dictContentType_e ct;
        ZSTD_CCtxParams_init(p, level);
        if (rnd() % 2) ZSTD_CCtxParams_setParameter(p, ZSTD_c_enableDedicatedDictSearch, 1);
        if (rnd() % 3 == 0) ZSTD_CCtxParams_setParameter(p, ZSTD_c_windowLog, (int)rr(10, 20));
        if (rnd() % 3 == 0) ZSTD_CCtxParams_setParameter(p, ZSTD_c_useRowMatchFinder, (int)rr(1, 2));
        if (rnd() % 2) { cdictSrc[i] = (int)(rnd() % NFD); d = fdict[cdictSrc[i]]; ds = fdictSize[cdictSrc[i]]; ct = ZSTD_dct_fullDict; }
        else { cdictSrc[i] = -1; cdRawSize[i] = rr(8, 300000); cdRawOff[i] = rnd() % (arenaSize - cdRawSize[i]); d = arena + cdRawOff[i]; ds = cdRawSize[i]; ct = ZSTD_dct_rawContent; }
        cdicts[i] = ZSTD_createCDict_advanced2(d, ds, (rnd() % 2) ? ZSTD_dlm_byRef : ZSTD_dlm_byCopy, ct, p, ZSTD_defaultCMem);
        if (!cdicts[i]) { printf("cdict creation failed\n"); exit(2); }
        ZSTD_freeCCtxParams(p);
    }
}

static void dict_of(const frame_t* f, const void** d, size_t* ds) {
    *d = NULL; *ds = 0;
    if (f->dictKind == 1 || f->dictKind == 2) { *d = arena + f->dictOff; *ds = f->dictSize; }
    else if (f->dictKind == 3) { *d = fdict[f->cdictIdx % NFD]; *ds = fdictSize[f->cdictIdx % NFD]; }
    else if (f->dictKind == 4) {
        int const i = f->cdictIdx % NCD;
        if (cdictSrc[i] >= 0) { *d = fdict[cdictSrc[i]]; *ds = fdictSize[cdictSrc[i]]; }
        else { *d = arena + cdRawOff[i]; *ds = cdRawSize[i]; }
    }
}

static int apply(ZSTD_CCtx* c, const frame_t* f) {
    int i; size_t r = 0;
    ZSTD_CCtx_reset(c, ZSTD_reset_session_and_parameters);
    for (i = 0; i < f->np; i++) {
        r = ZSTD_CCtx_setParameter(c, (ZSTD_cParameter)f->pid[i], f->pval[i]);
        if (ZSTD_isError(r)) return 0;
    }
    switch (f->dictKind) {
    case 1: r = ZSTD_CCtx_refPrefix(c, arena + f->dictOff, f->dictSize); break;
    case 2: r = ZSTD_CCtx_loadDictionary_advanced(c, arena + f->dictOff, f->dictSize, ZSTD_dlm_byRef, ZSTD_dct_rawContent); break;
    case 3: r = ZSTD_CCtx_loadDictionary(c, fdict[f->cdictIdx % NFD], fdictSize[f->cdictIdx % NFD]); break;
    case 4: r = ZSTD_CCtx_refCDict(c, cdicts[f->cdictIdx % NCD]); break;
    default: break;
    }
    return !ZSTD_isError(r);
}

/* returns compressed size or an error code; for the block API the output is [3-byte size | flag][block] records */
static size_t run_frame(ZSTD_CCtx* c, ZSTD_CCtx* cB, const frame_t* f, BYTE* dst, size_t cap) {
    if (f->capLimit && f->capLimit < cap && (f->api <= 1 || f->api == 6)) cap = f->capLimit;
    if (f->api == 6) {
        const void* d; size_t ds; dict_of(f, &d, &ds);
        if (f->simple == 0) return ZSTD_compressCCtx(c, dst, cap, arena + f->off, f->size, f->level);
        if (f->simple == 1) return ZSTD_compress_usingDict(c, dst, cap, arena + f->off, f->size, d, ds, f->level);
        if (f->simple == 2 && f->dictKind == 4) return ZSTD_compress_usingCDict(c, dst, cap, arena + f->off, f->size, cdicts[f->cdictIdx % NCD]);
        {   /* legacy streaming entry points */
            ZSTD_inBuffer in = { arena + f->off, f->size, 0 }; ZSTD_outBuffer out = { dst, cap, 0 }; size_t r;
            ZSTD_CCtx_reset(c, ZSTD_reset_session_and_parameters);   /* the legacy init keeps every other sticky parameter */
            r = (f->dictKind == 4) ? ZSTD_initCStream_usingCDict(c, cdicts[f->cdictIdx % NCD]) : ZSTD_initCStream_usingDict(c, d, ds, f->level);
            if (ZSTD_isError(r)) return r;
            while (in.pos < in.size) { r = ZSTD_compressStream(c, &out, &in); if (ZSTD_isError(r)) return r; if (out.pos == out.size) return ERROR(dstSize_tooSmall); }
            do { r = ZSTD_endStream(c, &out); if (ZSTD_isError(r)) return r; if (r && out.pos == out.size) return ERROR(dstSize_tooSmall); } while (r);
            return out.pos;
        }
    }
    if (f->api == 0) {
        if (!apply(c, f)) return ERROR(parameter_unsupported);
        return ZSTD_compress2(c, dst, cap, arena + f->off, f->size);
    }
    if (f->api == 1) {
        ZSTD_inBuffer in; ZSTD_outBuffer out; size_t fed = 0, n = 0, r = 1; int k = 0;
        if (!apply(c, f)) return ERROR(parameter_unsupported);
        if (f->pledge) ZSTD_CCtx_setPledgedSrcSize(c, f->size);
        out.dst = dst; out.size = 0; out.pos = 0;
        for (;;) {
            size_t const take = (f->size - fed < f->cin) ? f->size - fed : f->cin;
            ZSTD_EndDirective const dir = (fed + take == f->size) ? ZSTD_e_end : ((f->flushEvery && (++k % f->flushEvery) == 0) ? ZSTD_e_flush : ZSTD_e_continue);
            in.src = arena + f->off + fed; in.size = take; in.pos = 0;
            do {
                out.size = (out.pos + f->cout < cap) ? out.pos + f->cout : cap;
                r = ZSTD_compressStream2(c, &out, &in, dir);
                if (ZSTD_isError(r)) return r;
                if (out.pos == cap) return ERROR(dstSize_tooSmall);
                if (++n > (1u << 26)) return ERROR(GENERIC);
            } while (in.pos < in.size || (dir != ZSTD_e_continue && r != 0));
            fed += take;
            if (dir == ZSTD_e_end) break;
            if (f->abandon && fed >= f->size / 2) return 0;
        }
        return out.pos;
    }
    {   /* bufferless family */
        const void* d; size_t ds; size_t r, pos = 0; int i; ZSTD_CCtx* w = c;
        dict_of(f, &d, &ds);
        if (f->dictKind == 4) r = ZSTD_compressBegin_usingCDict(c, cdicts[f->cdictIdx % NCD]);
        else r = ZSTD_compressBegin_usingDict(c, d, ds, f->level);
        if (ZSTD_isError(r)) return r;
        if (f->api == 4) {
            r = ZSTD_copyCCtx(cB, c, ZSTD_CONTENTSIZE_UNKNOWN);
            if (ZSTD_isError(r)) return r;
            w = cB;
        }
        for (i = 0; i < f->nch; i++) {
            const BYTE* const s = arena + f->chOff[i]; size_t const n = f->chSize[i];
            if (f->api == 3) {
                if (n > ZSTD_getBlockSize(w)) return ERROR(srcSize_wrong);
                r = ZSTD_compressBlock(w, dst + pos + 4, cap - pos - 4, s, n);
                if (ZSTD_isError(r)) return r;
                MEM_writeLE32(dst + pos, (U32)r);
                pos += 4 + r;
            } else {
                int const last = (i == f->nch - 1);
                r = last ? ZSTD_compressEnd(w, dst + pos, cap - pos, s, n) : ZSTD_compressContinue(w, dst + pos, cap - pos, s, n);
                if (ZSTD_isError(r)) return r;
                pos += r;
            }
        }
        return pos;
    }
}

static BYTE* rbuf; static size_t rbufCap;
static ZSTD_DCtx* dctx;
static int decode_frame(const frame_t* f, const BYTE* cs, size_t csize, const char** why) {
    const void* d; size_t ds; size_t total = 0; int i;
    dict_of(f, &d, &ds);
    *why = "";
    if (f->api <= 1 || f->api == 6) total = f->size; else for (i = 0; i < f->nch; i++) total += f->chSize[i];
    if (total + 1 > rbufCap) { free(rbuf); rbufCap = total + 1; rbuf = (BYTE*)malloc(rbufCap); }
    ZSTD_DCtx_reset(dctx, ZSTD_reset_session_and_parameters);
    ZSTD_DCtx_setParameter(dctx, ZSTD_d_windowLogMax, ZSTD_WINDOWLOG_MAX);
    if (f->api == 3) {
        size_t pos = 0, q = 0; size_t r = ZSTD_decompressBegin_usingDict(dctx, (f->dictKind ? d : NULL), (f->dictKind ? ds : 0));
        if (ZSTD_isError(r)) { *why = "dbegin"; return 0; }
        for (i = 0; i < f->nch; i++) {
            U32 const bs = MEM_readLE32(cs + pos); pos += 4;
            if (bs == 0) { memcpy(rbuf + q, arena + f->chOff[i], f->chSize[i]); r = ZSTD_insertBlock(dctx, rbuf + q, f->chSize[i]); }
            else r = ZSTD_decompressBlock(dctx, rbuf + q, total - q, cs + pos, bs);
            if (ZSTD_isError(r)) { *why = ZSTD_getErrorName(r); return 0; }
            if (r != f->chSize[i]) { *why = "blocksize"; return 0; }
            if (memcmp(rbuf + q, arena + f->chOff[i], r) != 0) { size_t z=0; while (rbuf[q+z]==arena[f->chOff[i]+z]) z++; printf("   blockdiff at chunk %d (csize %u) byte %zu of %zu\n", i, bs, z, r); *why = "blockdiff"; return 0; }
            pos += bs; q += r;
        }
        return 1;
    }
    if (f->api == 6 && f->simple == 0) { /* ZSTD_compressCCtx: no dictionary */ }
    else if (f->dictKind == 1 || ((f->api >= 2) && f->dictKind == 2)) ZSTD_DCtx_refPrefix(dctx, d, ds);
    else if (f->dictKind == 2) ZSTD_DCtx_loadDictionary_advanced(dctx, d, ds, ZSTD_dlm_byRef, ZSTD_dct_rawContent);
    else if (f->dictKind == 3) ZSTD_DCtx_loadDictionary(dctx, d, ds);
    else if (f->dictKind == 4) { int const ci = f->cdictIdx % NCD; ZSTD_DCtx_loadDictionary_advanced(dctx, d, ds, ZSTD_dlm_byRef, cdictSrc[ci] >= 0 ? ZSTD_dct_fullDict : ZSTD_dct_rawContent); }
    {   /* streaming decode with small output pieces: only the declared window is kept */
        ZSTD_inBuffer ib; size_t pos = 0; static BYTE piece[4096]; size_t guard = 0; size_t q = 0;
        ib.src = cs; ib.size = csize; ib.pos = 0;
        for (;;) {
            ZSTD_outBuffer ob; size_t dr; size_t k = 0;
            ob.dst = piece; ob.size = sizeof(piece); ob.pos = 0;
            dr = ZSTD_decompressStream(dctx, &ob, &ib);
            if (ZSTD_isError(dr)) { *why = ZSTD_getErrorName(dr); return 0; }
            if (pos + ob.pos > total) { *why = "toolong"; return 0; }
            if (f->api <= 1 || f->api == 6) { if (memcmp(piece, arena + f->off + pos, ob.pos) != 0) { *why = "diff"; return 0; } }
            else memcpy(rbuf + pos, piece, ob.pos);
            (void)k; (void)q;
            pos += ob.pos;
            if (dr == 0) break;
            if (ob.pos == 0 && ib.pos == ib.size) { *why = "trunc"; return 0; }
            if (++guard > (1u << 24)) return 0;
        }
        if (pos != total) { *why = "short"; return 0; }
        if (f->api >= 2 && f->api != 6) { size_t q2 = 0; for (i = 0; i < f->nch; i++) { if (memcmp(rbuf + q2, arena + f->chOff[i], f->chSize[i]) != 0) { *why = "diff"; return 0; } q2 += f->chSize[i]; } }
    }
    return 1;
}

static void addp(frame_t* f, int id, int v) { if (f->np < MAXP) { f->pid[f->np] = id; f->pval[f->np] = v; f->np++; } }

static void gen_frame(frame_t* f, int allowMT) {
    int strat = 0, wlog = 0;
    memset(f, 0, sizeof(*f));
    f->api = (int[]){0, 0, 1, 1, 1, 2, 3, 4, 2, 3, 6, 6}[rnd() % 12];
    f->simple = (int)(rnd() % 4);
    if (rnd() % 6 == 0) f->capLimit = 1 + rnd() % 3000;
    if (f->api == 1 && rnd() % 6 == 0) f->abandon = 1;
    if (rnd() % 2) { f->level = (int)rr(1, 19); if (rnd() % 8 == 0) f->level = -(int)rr(1, 50); if (rnd() % 10 == 0) f->level = (int)rr(20, 22); addp(f, ZSTD_c_compressionLevel, f->level);
        if (rnd() % 2) { wlog = (int)rr(10, 21); addp(f, ZSTD_c_windowLog, wlog); } }
    else {
        strat = (int)rr(1, 9); wlog = (int)(int[]){10, 10, 11, 12, 14, 16, 17, 18, 20}[rnd() % 9];
        f->level = (int)rr(1, 19);
        addp(f, ZSTD_c_windowLog, wlog); addp(f, ZSTD_c_strategy, strat); addp(f, ZSTD_c_hashLog, (int)rr(6, 16)); addp(f, ZSTD_c_chainLog, (int)rr(6, 16));
        addp(f, ZSTD_c_searchLog, (int)rr(1, 5)); addp(f, ZSTD_c_minMatch, (int)rr(3, 7)); addp(f, ZSTD_c_targetLength, (int)(int[]){0, 4, 16, 48, 999}[rnd() % 5]);
    }
    if (rnd() % 3 == 0) addp(f, ZSTD_c_useRowMatchFinder, (int)rr(1, 2));
    if (rnd() % 3 == 0) { addp(f, ZSTD_c_enableLongDistanceMatching, (int)rr(1, 2)); if (rnd() % 2) { addp(f, ZSTD_c_ldmHashLog, (int)rr(6, 14)); addp(f, ZSTD_c_ldmMinMatch, (int)(int[]){4, 16, 64}[rnd() % 3]); } }
    if (rnd() % 2) addp(f, ZSTD_c_checksumFlag, 1);
    if (rnd() % 4 == 0) addp(f, ZSTD_c_maxBlockSize, (int)(int[]){1024, 4096, 1 << 16}[rnd() % 3]);
    if (rnd() % 8 == 0) addp(f, ZSTD_c_forceMaxWindow, 1);
    if (rnd() % 3 == 0) addp(f, ZSTD_c_deterministicRefPrefix, 1);
    if (rnd() % 4 == 0) addp(f, ZSTD_c_targetCBlockSize, (int)rr(1340, 20000));
    if (rnd() % 4 == 0) addp(f, ZSTD_c_useBlockSplitter, (int)rr(1, 2));
    if (rnd() % 4 == 0) addp(f, ZSTD_c_literalCompressionMode, (int)rr(1, 2));
    if (rnd() % 4 == 0) addp(f, ZSTD_c_forceAttachDict, (int)rr(1, 3));
    if (rnd() % 4 == 0) addp(f, ZSTD_c_enableDedicatedDictSearch, 1);
    if (rnd() % 6 == 0) addp(f, ZSTD_c_srcSizeHint, (int)rr(1, 1 << 20));
    if (allowMT && f->api <= 1 && rnd() % 4 == 0) { addp(f, ZSTD_c_nbWorkers, (int)rr(1, 2)); if (rnd() % 2) addp(f, ZSTD_c_jobSize, 1 << 19); if (rnd() % 2) addp(f, ZSTD_c_overlapLog, (int)rr(1, 9)); }
    /* dictionary */
    {   U32 const k = rnd() % 100;
        if (k < 35) f->dictKind = 0;
        else if (k < 50) f->dictKind = 1;
        else if (k < 65) f->dictKind = 2;
        else if (k < 80) f->dictKind = 3;
        else f->dictKind = 4;
        if (f->api == 2 || f->api == 3 || f->api == 4) { if (f->dictKind == 1) f->dictKind = 2; }
        f->dictSize = (size_t)(int[]){8, 9, 100, 4096, 1 << 16, 300000, 1}[rnd() % 7]; if (f->dictSize == 1) f->dictSize = rr(8, 1 << 18);
        f->dictOff = rnd() % (arenaSize - f->dictSize);
        f->cdictIdx = (int)(rnd() % 64);
    }
    f->size = (size_t)(int[]){0, 1, 6, 7, 100, 1000, 1 << 16, 131072, 131073, 1, 2, 3}[rnd() % 12];
    if (f->size == 1) f->size = rr(1, 131072); else if (f->size == 2) f->size = rr(131073, 1 << 21); else if (f->size == 3) f->size = rr(1 << 20, 6 << 20);
    if (rnd() % 16 == 0) f->size = 1;
    f->off = rnd() % (arenaSize - f->size - 1);
    f->cin = (size_t)(int[]){1, 7, 100, 1000, 4096, 1 << 16, 1 << 17, (1 << 17) + 1}[rnd() % 8];
    if (f->size / f->cin > 100000) f->cin = 4096;
    f->cout = (size_t)(int[]){1, 64, 1000, 1 << 17}[rnd() % 4];
    if (f->size / f->cout > 300000) f->cout = 4096;
    f->flushEvery = (int)(int[]){0, 0, 3, 10}[rnd() % 4];
    f->pledge = rnd() % 2;
    f->nch = (int)(int[]){1, 2, 3, 8, 30, 60}[rnd() % 6];
    {   size_t pos = rnd() % (arenaSize / 2); int i;
        for (i = 0; i < f->nch; i++) {
            size_t n = (size_t)(int[]){131071, 100000, 1, 6, 7, 8, 9, 1000, 0}[rnd() % 9]; if (n == 0) n = rr(1, 131071);
            if (f->api == 3 && n > 100000) n = 1000 + rnd() % 900;   /* stay below any block size the level may pick */
            if (f->api == 3 && wlog && n > ((size_t)1 << wlog)) n = (size_t)1 << wlog;
            if (i > 0 && rnd() % 5 == 0) { pos = f->chOff[i-1] - (f->chOff[i-1] > 100 ? rnd() % 100 : 0); if (n < f->chSize[i-1] + 50 && f->api != 3) n = f->chSize[i-1] + rnd() % 1000; }
            else if (rnd() % 4 == 0 || pos + n >= arenaSize) pos = rnd() % (arenaSize - n - 1);
            if (pos + n >= arenaSize) pos = rnd() % (arenaSize - n - 1);
            f->chOff[i] = pos; f->chSize[i] = n; pos += n;
        }
    }
}

static void print_frame(const frame_t* f) {
    int i;
    printf("   frame api=%d simple=%d caplimit=%zu dict=%d(off %zu size %zu idx %d) off=%zu size=%zu cin=%zu cout=%zu fl=%d pledge=%d level=%d nch=%d params:", f->api, f->simple, f->capLimit, f->dictKind, f->dictOff, f->dictSize, f->cdictIdx,
           f->off, f->size, f->cin, f->cout, f->flushEvery, f->pledge, f->level, f->nch);
    for (i = 0; i < f->np; i++) printf(" %d=%d", f->pid[i], f->pval[i]);
    printf("\n");
    if (f->api >= 2 && f->api != 6) { printf("   chunks:"); for (i = 0; i < f->nch; i++) printf(" %zu+%zu", f->chOff[i], f->chSize[i]); printf("\n"); }
}

static void warp_ctx(ZSTD_CCtx* c, ll target) {
    ZSTD_window_t* const w = &c->blockState.matchState.window;
    ll const d = target - (ll)(w->nextSrc - w->base);
    if (c->initialized && d > 0) { w->base -= d; w->dictBase -= d; }
}

int main(int argc, char** argv) {
    U64 const seed0 = argc > 1 ? (U64)atoll(argv[1]) : 1;
    int const nscen = argc > 2 ? atoi(argv[2]) : 10;
    int const warp = argc > 3 ? atoi(argv[3]) : 0;
    int const allowMT = argc > 4 ? atoi(argv[4]) : 1;
    int const nframes = argc > 5 ? atoi(argv[5]) : 25;
    int const scen0 = argc > 6 ? atoi(argv[6]) : 0;
    int sc, nfail = 0; size_t cap;
    BYTE *cb1, *cb2;
    arenaSize = (size_t)32 << 20;
    arena = (BYTE*)malloc(arenaSize + 64);
    fill_arena(1);
    rs = 777; make_fdicts(); make_cdicts();
    dctx = ZSTD_createDCtx();
    cap = ZSTD_compressBound(8 << 20) + (1 << 20);
    cb1 = (BYTE*)malloc(cap); cb2 = (BYTE*)malloc(cap);
    for (sc = scen0; sc < scen0 + nscen; sc++) {
        ZSTD_CCtx* const c = ZSTD_createCCtx(); ZSTD_CCtx* const cB = ZSTD_createCCtx();
        int fi;
        rs = (seed0 * 1000003ULL + (U64)sc) * 0x9E3779B97F4A7C15ULL + 99;
        for (fi = 0; fi < nframes; fi++) {
            frame_t f; size_t r1, r2; ZSTD_CCtx *fc, *fcB; const char* why = ""; int rt = 1, same;
            gen_frame(&f, allowMT);
            if (warp && rnd() % 4 == 0) {
                ll const edge = (ll)ZSTD_CURRENT_MAX - (ll)ZSTD_INDEXOVERFLOW_MARGIN;
                ll const t = (rnd() % 2) ? edge + (ll)rr(0, 6) - 3 : edge - (ll)rr(0, 1 << 20);
                warp_ctx(c, t); if (rnd() % 2) warp_ctx(cB, t - (ll)rr(0, 1000));
                if (f.dictKind && warp == 1) f.dictKind = 0;   /* known finding: dictionary dropped by the correction */
            }
            r1 = run_frame(c, cB, &f, cb1, cap);
            if (f.abandon) continue;
            fc = ZSTD_createCCtx(); fcB = ZSTD_createCCtx();
            r2 = run_frame(fc, fcB, &f, cb2, cap);
            ZSTD_freeCCtx(fc); ZSTD_freeCCtx(fcB);
            if (ZSTD_isError(r1) || ZSTD_isError(r2)) {
                if (ZSTD_isError(r1) != ZSTD_isError(r2) || ZSTD_getErrorCode(r1) != ZSTD_getErrorCode(r2)) {
                    printf("FAIL seed=%llu scen=%d frame=%d errors differ: reused=%s fresh=%s\n", (unsigned long long)seed0, sc, fi, ZSTD_getErrorName(r1), ZSTD_getErrorName(r2)); print_frame(&f); nfail++;
                }
                /* a failed frame leaves the session open: close it */
                continue;
            }
            rt = decode_frame(&f, cb1, r1, &why);
            same = (r1 == r2 && memcmp(cb1, cb2, r1) == 0);
            if (f.api == 3 && ZSTD_WINDOW_OVERFLOW_CORRECT_FREQUENTLY) same = 1;   /* block mode: a correction is visible in the output */
            if (!rt || !same) {
                printf("FAIL seed=%llu scen=%d frame=%d rt=%d(%s) fresh=%d csize=%zu/%zu\n", (unsigned long long)seed0, sc, fi, rt, why, same, r1, r2);
                print_frame(&f); nfail++; fflush(stdout);
                if (!same && rt) { const char* w2; int const rt2 = decode_frame(&f, cb2, r2, &w2); printf("   fresh output rt=%d\n", rt2); }
            }
        }
        ZSTD_freeCCtx(c); ZSTD_freeCCtx(cB);
    }
    printf("DONE seed=%llu scen=%d fails=%d\n", (unsigned long long)seed0, nscen, nfail);
    return nfail ? 1 : 0;
}
