/* C12 shared-pool harness: one POOL_ctx created by ZSTD_createThreadPool() serves SEVERAL ZSTD_CCtx (ZSTD_CCtx_refThreadPool),
 * each driven by its own application thread, all under the deterministic scheduler of harness/sched (one forked child per case).
 * The REAL lib/common/pool.c and lib/compress/zstdmt_compress.c are included (private fields visible); the rest of libzstd is the
 * library rebuilt with harness/sched/zv_pthread.h pre-included (the same archive as C11's harness).
 *
 * What is evaluated (the property, on the real state, after EVERY scheduler step and around every API call):
 *   - no job description that a pool worker is executing, or that waits in the pool's queue, lies in memory that was freed
 *     ("destroying ... is safe", no use after free): every context allocates through a quarantine allocator that knows its blocks;
 *   - no write into freed memory (quarantined blocks keep their 0xDD fill), no double free, no crash / abort / invalid mutex use;
 *   - no deadlock (a state where no thread can run before every application thread has finished);
 *   - the pool a frame runs on is the one the application selected last with ZSTD_CCtx_refThreadPool (NULL = a private pool);
 *   - pool fields: queue never over capacity, 1 <= threadLimit <= threadCapacity, guarded fields change only under queueMutex,
 *     no job is started beyond threadLimit;
 *   - every completed frame decodes to exactly the bytes fed.
 *
 * stdin : CASE id=1 pool=2 progs=P1.S2.c600.e|P1.S1.c600.F policy=r seed=5 stay=50 sched=1:0,2:0
 *   one program per application thread (tids 1..N; tid 0 creates the pool, joins them, frees the pool unless a program did), ops:
 *   P1 / P0  ZSTD_CCtx_refThreadPool(shared / NULL)      Sn  nbWorkers = n (level 1)        D  ZSTD_CCtx_loadDictionary(2000 bytes)
 *   L   enableLongDistanceMatching = 1 (the jobs then also synchronise on the serial LDM state)
 *   cN  feed N KiB with ZSTD_e_continue (until consumed)   f   flush until 0                   e  end until 0 (frame verified)
 *   R   ZSTD_CCtx_reset(session_only)                      A   reset(session_and_parameters)   F  ZSTD_freeCCtx + a fresh context
 *   K   ZSTD_freeThreadPool(shared) (legal only when no context references it any more; the generator guarantees that)
 *   z   ZSTD_sizeof_CCtx
 * stdout: "CASE ...", "O <violation>"*, "E END|STUCK|CRASH steps=<n> sched=<t:w,...>"
 */
#define _GNU_SOURCE
#include <sched.h>
#include "sched/zv_pthread.h"
#define ZSTD_STATIC_LINKING_ONLY
#include "common/pool.c"
/* every job ZSTDMT posts goes through this hook: the harness knows which job descriptions are posted / running / finished */
static int zv_tryAdd_hook(POOL_ctx* ctx, POOL_function fn, void* arg);
#define POOL_tryAdd(ctx, fn, arg) zv_tryAdd_hook((ctx), (fn), (arg))
#include "compress/zstdmt_compress.c"
#undef POOL_tryAdd
#include "zstd.h"

#include <stdio.h>
#include <stdlib.h>
#include <string.h>
#include <signal.h>
#include <unistd.h>
#include <sys/wait.h>

#define MAXAPP 4
#define MAXOPS 32
#define MAXT 24
#define MAXBLK 4096

typedef struct { char kind; long arg; } op_t;
typedef struct { int n; op_t ops[MAXOPS]; } prog_t;
static struct {
    int id, pool, N; prog_t progs[MAXAPP]; int policy; unsigned long long seed; int stay;
    int sched_len; int* sched_t; int* sched_w; char progs_s[512];
} C;

static int g_bad;
static char g_said[16][96]; static int g_nsaid;
static void oracle(const char* msg) {   /* each distinct message once */
    int i; g_bad = 1;
    for (i = 0; i < g_nsaid; i++) if (!strncmp(g_said[i], msg, 95)) return;
    if (g_nsaid < 16) { strncpy(g_said[g_nsaid], msg, 95); g_said[g_nsaid][95] = 0; g_nsaid++; }
    printf("O %s\n", msg); fflush(stdout);
}

/* ---------- quarantine allocator: freed blocks stay mapped, filled with 0xDD, and are never handed out again ---------- */
typedef struct { unsigned char* p; size_t n; int live; } blk_t;
static blk_t g_blk[MAXBLK]; static int g_nblk;
static void* q_alloc(void* o, size_t n) {
    unsigned char* p = (unsigned char*)malloc(n ? n : 1); (void)o;
    if (!p) return NULL;
    if (g_nblk >= MAXBLK) { fprintf(stderr, "c12_shared: too many blocks\n"); _exit(7); }
    g_blk[g_nblk].p = p; g_blk[g_nblk].n = n; g_blk[g_nblk].live = 1; g_nblk++;
    return p;
}
static void check_free_vs_jobs(const unsigned char* p, size_t n);
static void q_free(void* o, void* p) {
    int i; (void)o;
    if (!p) return;
    for (i = g_nblk - 1; i >= 0; i--) if (g_blk[i].p == (unsigned char*)p) break;
    if (i < 0) { oracle("free of a pointer the allocator never returned"); return; }
    if (!g_blk[i].live) { oracle("double free"); return; }
    check_free_vs_jobs((const unsigned char*)p, g_blk[i].n);
    g_blk[i].live = 0; memset(p, 0xDD, g_blk[i].n);
}
static int in_dead_block(const void* q) {
    int i; const unsigned char* p = (const unsigned char*)q;
    for (i = 0; i < g_nblk; i++) if (!g_blk[i].live && p >= g_blk[i].p && p < g_blk[i].p + g_blk[i].n) return 1;
    return 0;
}
static void scan_dead_blocks(const char* when) {
    int i; char buf[200];
    for (i = 0; i < g_nblk; i++) if (!g_blk[i].live) {
        size_t k; const unsigned char* p = g_blk[i].p;
        for (k = 0; k < g_blk[i].n; k++) if (p[k] != 0xDD) {
            snprintf(buf, sizeof buf, "write into freed memory (block of %zu bytes, offset %zu) seen %s", g_blk[i].n, k, when); oracle(buf);
            memset(g_blk[i].p, 0xDD, g_blk[i].n); return;
        }
    }
}

/* ---------- the jobs posted by ZSTDMT (through the hook above) ---------- */
#define MAXJOBREC 65536
typedef struct { POOL_function fn; void* arg; POOL_ctx* pool; int state; int runs; int worker; } jobrec_t;   /* state 1 accepted, 2 running, 3 finished */
static jobrec_t g_jobs[MAXJOBREC]; static int g_njobs;
/* a context whose job was just refused by a saturated pool spins inside ZSTD_compressStream2 (it has nothing of its own to wait for): after
 * the explicit schedule, such a thread yields to the threads that can make room, otherwise the runs only burn the scheduler's step budget */
static int g_spin[MAXT];
static int choose_nospin(int step, int me, const int* en, int n) {
    int i, c = 0, pick[MAXT];
    if (me < 0 || me >= MAXT || !g_spin[me]) return -1;
    for (i = 0; i < n; i++) if (en[i] >= 0 && en[i] < MAXT && !g_spin[en[i]]) pick[c++] = en[i];
    if (!c) return -1;
    return pick[((unsigned)step * 2654435761u >> 8) % (unsigned)c];
}
static void zv_job_trampoline(void* o) {
    jobrec_t* r = (jobrec_t*)o;
    r->runs++; if (r->runs > 1) oracle("a job accepted by the pool was executed twice");
    r->state = 2; r->worker = zv_self();
    r->fn(r->arg);
    r->state = 3;
}
static int zv_tryAdd_hook(POOL_ctx* ctx, POOL_function fn, void* arg) {
    jobrec_t* r; int ret;
    if (g_njobs >= MAXJOBREC) { fprintf(stderr, "c12_shared: too many jobs\n"); _exit(7); }
    /* the slot is reserved BEFORE the call: POOL_tryAdd is a scheduling point and another application thread may post meanwhile */
    r = &g_jobs[g_njobs++]; r->fn = fn; r->arg = arg; r->pool = ctx; r->state = 0; r->runs = 0; r->worker = -1;
    ret = POOL_tryAdd(ctx, zv_job_trampoline, r);
    if (ret != 0 && ret != 1) oracle("POOL_tryAdd returned neither 0 nor 1");
    if (ret) { if (r->state == 0) r->state = 1; }
    else { if (r->runs) oracle("a job refused by POOL_tryAdd was executed"); r->state = -1; }
    { int const me = zv_self(); if (me >= 0 && me < MAXT) g_spin[me] = !ret; }
    return ret;
}

/* ---------- the pools (the shared one + the private pool of every context) and what their workers run ---------- */
#define MAXPOOL 8
typedef struct { POOL_ctx* c; void* head_before; int head_valid; size_t snap[7]; int snap_valid; } ptrack_t;
static ptrack_t g_pools[MAXPOOL]; static int g_npools;
static POOL_ctx* g_shared; static int g_shared_freed;
static int in_dead_block(const void* q);
static void note_pool(POOL_ctx* c) {
    int i;
    if (!c) return;
    for (i = 0; i < g_npools; i++) if (g_pools[i].c == c) return;
    for (i = 0; i < g_npools; i++) if (!g_pools[i].c) break;
    if (i == g_npools) { if (g_npools >= MAXPOOL) return; g_npools++; }
    memset(&g_pools[i], 0, sizeof g_pools[i]); g_pools[i].c = c;
}
static void pool_oracles(int step, int tid) {
    int k;
    for (k = 0; k < g_npools; k++) {
        ptrack_t* P = &g_pools[k]; POOL_ctx* c = P->c; size_t now[7]; size_t pend;
        if (!c) continue;
        if ((c == g_shared && g_shared_freed) || in_dead_block(c)) { P->c = NULL; continue; }     /* the pool is gone */
        now[0] = c->queueHead; now[1] = c->queueTail; now[2] = (size_t)(c->queueEmpty != 0); now[3] = c->numThreadsBusy;
        now[4] = c->threadLimit; now[5] = c->threadCapacity; now[6] = (size_t)(c->shutdown != 0);
        pend = c->queueEmpty ? 0 : (c->queueHead == c->queueTail ? c->queueSize : (c->queueTail + c->queueSize - c->queueHead) % c->queueSize);
        if (pend > 1) oracle("pool: more pending entries than the hand-off queue holds");
        if (c->threadLimit < 1 || c->threadLimit > c->threadCapacity) oracle("pool: threadLimit outside 1..threadCapacity");
        if (c->numThreadsBusy > c->threadCapacity) oracle("pool: more busy threads than threads");
        /* round 3 (106ca1a): a pool created by the application keeps the size given to ZSTD_createThreadPool, whatever nbWorkers its contexts use */
        if (c == g_shared && (c->threadCapacity != (size_t)C.pool || c->threadLimit != (size_t)C.pool)) {
            char b[200]; snprintf(b, sizeof b, "shared pool resized by a context: ZSTD_createThreadPool(%d) now has threadCapacity %zu, threadLimit %zu", C.pool, c->threadCapacity, c->threadLimit); oracle(b); }
        if (step >= 0 && P->snap_valid) {
            if (memcmp(now, P->snap, sizeof now) && zv_mutex_owner(&c->queueMutex) != tid) oracle("pool: a field guarded by queueMutex was written by a thread that does not hold it");
            if (now[3] > P->snap[3] && now[3] > now[4]) oracle("pool: a job was started although numThreadsBusy had reached threadLimit");
        }
        memcpy(P->snap, now, sizeof now); P->snap_valid = 1;
        P->head_valid = !c->queueEmpty; P->head_before = P->head_valid ? c->queue[c->queueHead].opaque : NULL;
        if (P->head_valid && P->head_before >= (void*)g_jobs && P->head_before < (void*)(g_jobs + MAXJOBREC) && in_dead_block(((jobrec_t*)P->head_before)->arg))
            oracle("use after free: a job waiting in a pool's queue points into freed memory of its context");
    }
}
/* called by the allocator BEFORE a block is poisoned: nothing an unfinished job still needs may lie inside it */
static int inside(const void* q, const unsigned char* p, size_t n) { return q && (const unsigned char*)q >= p && (const unsigned char*)q < p + n; }
static __thread char t_op;      /* the operation the calling application thread is executing (see app_main) */
static void check_job_vs_block(jobrec_t* r, const unsigned char* p, size_t n) {
    ZSTDMT_jobDescription* D = (ZSTDMT_jobDescription*)r->arg;
    if (inside(D, p, n)) {
        oracle(r->state == 1 ? "use after free: the description of a job still waiting in the pool's queue is freed"
                             : "use after free: the description of a job that a pool worker is still executing is freed");
        return;
    }
    if (in_dead_block(D)) return;
    if (inside(D->cdict, p, n))
        oracle((t_op == 'D' || t_op == 'A') ? "use after free: the dictionary of a job that has not finished is freed by an init-stage call (loadDictionary / reset of the parameters) while the abandoned session's jobs still run"
                                            : "use after free: the dictionary of a job that has not finished is freed (ZSTD_freeCCtx / refThreadPool)");
    if (inside(D->src.start, p, n) || (D->prefix.size && inside(D->prefix.start, p, n))) oracle("use after free: the input of a job that has not finished is freed");
    if (inside(D->cctxPool, p, n) || inside(D->bufPool, p, n) || inside(D->seqPool, p, n) || inside(D->serial, p, n)) oracle("use after free: a resource pool of a job that has not finished is freed");
}
static void check_free_vs_jobs(const unsigned char* p, size_t n) {
    int k;
    for (k = 0; k < g_njobs; k++) if (g_jobs[k].state == 1 || g_jobs[k].state == 2) check_job_vs_block(&g_jobs[k], p, n);
}
static void check_jobs_at_end(void) {
    int k; char b[160];
    for (k = 0; k < g_njobs; k++) if (g_jobs[k].state != -1 && (g_jobs[k].state != 3 || g_jobs[k].runs != 1)) {
        snprintf(b, sizeof b, "after every pool was freed: an accepted job was executed %d times (state %d)", g_jobs[k].runs, g_jobs[k].state); oracle(b); return; }
}

static char* g_sched_buf; static size_t g_sched_len, g_sched_cap; static int g_steps;
static void on_step(int step, int tid, int w) {
    if (step >= 0) {
        if (g_sched_len + 32 > g_sched_cap) { g_sched_cap = g_sched_cap ? g_sched_cap * 2 : 4096; g_sched_buf = (char*)realloc(g_sched_buf, g_sched_cap); }
        g_sched_len += (size_t)sprintf(g_sched_buf + g_sched_len, g_sched_len ? ",%d:%d" : "%d:%d", tid, w); g_steps++;
    }
    pool_oracles(step, tid);
}
static void finish_line(const char* how) { printf("E %s steps=%d sched=%s\n", how, g_steps, g_sched_len ? g_sched_buf : "-"); }
static const char* name_obj(void* o, char* buf);
static void describe_threads(void) {
    int t, nt = zv_nthreads(); char nb[64]; static const char* SN[] = { "none", "run", "mutex", "cond", "join", "done" };
    printf("T");
    for (t = 0; t < nt; t++) { void* o = NULL; zv_status st = zv_thread_status(t, &o); int k, which = -1; const char* f = "";
        for (k = 0; k < g_npools; k++) if (g_pools[k].c && !in_dead_block(g_pools[k].c)) { POOL_ctx* c = g_pools[k].c; if (o == &c->queueMutex) { which = k; f = "queueMutex"; } if (o == &c->queuePushCond) { which = k; f = "queuePushCond"; } if (o == &c->queuePopCond) { which = k; f = "queuePopCond"; } }
        printf(" %d:%s", t, SN[st]); if (st == ZS_MUTEX || st == ZS_COND) { if (which >= 0) printf("(pool%d.%s)", which, f); else printf("(%s%s)", in_dead_block(o) ? "FREED " : "", name_obj(o, nb)); } }
    printf("\n");
}
static void on_stuck(void) { describe_threads(); oracle("deadlock: no thread can run although the application has not finished"); finish_line("STUCK"); fflush(stdout); _exit(0); }
static void on_fatal(const char* what) { char b[160]; snprintf(b, sizeof b, "invalid use of a synchronisation object: %s", what); describe_threads(); oracle(b); finish_line("CRASH"); fflush(stdout); }
static void on_crash(int sig) { char b[64]; snprintf(b, sizeof b, "crash: signal %d", sig); oracle(b); finish_line("CRASH"); fflush(stdout); _exit(0); }

/* ---------- application threads ---------- */
static unsigned char* g_src; static size_t g_srcsize;
static void gen_input(void) {
    static const char* W[] = { "alpha ", "beta ", "gamma", "delta\n", "epsilon ", "zeta", "eta ", "theta ", "iota", "kappa " };
    unsigned long long s = 0x9e3779b97f4a7c15ULL * (C.seed | 1); size_t i = 0, n = 3u << 20;
    g_src = (unsigned char*)malloc(n); g_srcsize = n;
    while (i < n) { const char* w; size_t l; s = s * 6364136223846793005ULL + 1442695040888963407ULL; w = W[(s >> 33) % 10]; l = strlen(w); if (i + l > n) l = n - i; memcpy(g_src + i, w, l); i += l; }
}

typedef struct { ZSTD_CCtx* c; int want_shared; int nbw; size_t fed0, fed, outpos; unsigned char* out; size_t outcap; int open; int checked; int has_dict; } app_t;
static app_t A[MAXAPP + 1];

static const char* name_obj(void* o, char* buf) {
    int a; unsigned k;
    for (a = 1; a <= C.N; a++) { ZSTDMT_CCtx* m = (A[a].c && !in_dead_block(A[a].c)) ? A[a].c->mtctx : NULL;
        if (!m || in_dead_block(m)) continue;
        if (o == &m->serial.mutex) { sprintf(buf, "app%d.serial.mutex", a); return buf; }
        if (o == &m->serial.cond) { sprintf(buf, "app%d.serial.cond(next=%u)", a, m->serial.nextJobID); return buf; }
        if (o == &m->serial.ldmWindowCond) { sprintf(buf, "app%d.ldmWindowCond", a); return buf; }
        if (m->jobs && !in_dead_block(m->jobs)) for (k = 0; k <= m->jobIDMask; k++) {
            if (o == &m->jobs[k].job_cond) { sprintf(buf, "app%d.job%u.cond(done=%u,next=%u,jobID=%u,consumed=%zu/%zu)", a, k, m->doneJobID, m->nextJobID, m->jobs[k].jobID, m->jobs[k].consumed, m->jobs[k].src.size); return buf; }
            if (o == &m->jobs[k].job_mutex) { sprintf(buf, "app%d.job%u.mutex", a, k); return buf; } }
    }
    sprintf(buf, "%p", o); return buf;
}
static ZSTD_CCtx* new_cctx(void) { ZSTD_customMem cm; cm.customAlloc = q_alloc; cm.customFree = q_free; cm.opaque = NULL; return ZSTD_createCCtx_advanced(cm); }
static void app_err(int a, const char* what, size_t r) { char b[200]; snprintf(b, sizeof b, "app %d: %s failed: %s", a, what, ZSTD_getErrorName(r)); oracle(b); }
static void check_pool_choice(app_t* p, int a) {
    ZSTDMT_CCtx* m = p->c->mtctx; char b[200];
    if (p->checked || !m || p->c->appliedParams.nbWorkers == 0) return;
    p->checked = 1;
    if (p->want_shared && m->factory != g_shared) { snprintf(b, sizeof b, "app %d: the frame runs on another pool than the one selected with ZSTD_CCtx_refThreadPool(pool)", a); oracle(b); }
    if (!p->want_shared && m->providedFactory) {   /* (no address comparison: a private pool may be allocated where the freed shared pool was) */ snprintf(b, sizeof b, "app %d: the frame still runs on the shared pool after ZSTD_CCtx_refThreadPool(NULL)", a); oracle(b); }
}
static void feed(app_t* p, int a, size_t n, ZSTD_EndDirective mode) {
    int guard = 0;
    if (!p->open) { p->open = 1; p->checked = 0; p->fed0 = p->fed; p->outpos = 0; }
    if (p->fed + n > g_srcsize) n = g_srcsize - p->fed;
    for (;;) {
        ZSTD_inBuffer in; ZSTD_outBuffer out; size_t r;
        in.src = g_src + p->fed; in.size = n; in.pos = 0; out.dst = p->out; out.size = p->outcap; out.pos = p->outpos;
        r = ZSTD_compressStream2(p->c, &out, &in, mode);
        if (ZSTD_isError(r)) { app_err(a, "ZSTD_compressStream2", r); p->open = 0; return; }
        check_pool_choice(p, a); if (p->c->mtctx) note_pool(p->c->mtctx->factory);
        p->fed += in.pos; n -= in.pos; p->outpos = out.pos;
        if (mode == ZSTD_e_continue ? n == 0 : r == 0) break;
        if (++guard > 100000) { oracle("ZSTD_compressStream2 makes no progress"); return; }
    }
    if (mode == ZSTD_e_end) {
        size_t const len = p->fed - p->fed0; unsigned char* back = (unsigned char*)malloc(len + 1); size_t r;
        r = p->has_dict ? ZSTD_decompress_usingDict(ZSTD_createDCtx(), back, len, p->out, p->outpos, g_src + 100000, 2000) : ZSTD_decompress(back, len, p->out, p->outpos);
        if (ZSTD_isError(r) || r != len || memcmp(back, g_src + p->fed0, len)) { char b[160]; snprintf(b, sizeof b, "app %d: a completed frame does not decode to the bytes fed (%s)", a, ZSTD_isError(r) ? ZSTD_getErrorName(r) : "content"); oracle(b); }
        free(back); p->open = 0;
    }
}
static void* app_main(void* arg) {
    int const a = (int)(long)arg; app_t* p = &A[a]; prog_t* pr = &C.progs[a - 1]; int i; size_t r;
    p->c = new_cctx(); p->outcap = ZSTD_compressBound(g_srcsize) + 1024; p->out = (unsigned char*)malloc(p->outcap);
    ZSTD_CCtx_setParameter(p->c, ZSTD_c_compressionLevel, 1); ZSTD_CCtx_setParameter(p->c, ZSTD_c_jobSize, 1);   /* clamped to ZSTDMT_JOBSIZE_MIN */
    for (i = 0; i < pr->n; i++) {
        op_t o = pr->ops[i];
        t_op = o.kind;
        switch (o.kind) {
        case 'P': r = ZSTD_CCtx_refThreadPool(p->c, o.arg ? g_shared : NULL); if (ZSTD_isError(r)) { if (!p->open) app_err(a, "ZSTD_CCtx_refThreadPool", r); } else p->want_shared = (int)o.arg; break;
        case 'S': r = ZSTD_CCtx_setParameter(p->c, ZSTD_c_nbWorkers, (int)o.arg); if (!ZSTD_isError(r)) p->nbw = (int)o.arg; else if (!p->open) app_err(a, "nbWorkers", r); break;
        case 'D': r = ZSTD_CCtx_loadDictionary(p->c, g_src + 100000, 2000); if (!ZSTD_isError(r)) p->has_dict = 1; else if (!p->open) app_err(a, "ZSTD_CCtx_loadDictionary", r); break;
        case 'L': r = ZSTD_CCtx_setParameter(p->c, ZSTD_c_enableLongDistanceMatching, 1); if (ZSTD_isError(r) && !p->open) app_err(a, "enableLongDistanceMatching", r); break;
        case 'c': feed(p, a, (size_t)o.arg << 10, ZSTD_e_continue); break;
        case 'f': feed(p, a, 0, ZSTD_e_flush); break;
        case 'e': feed(p, a, 0, ZSTD_e_end); break;
        case 'R': ZSTD_CCtx_reset(p->c, ZSTD_reset_session_only); p->open = 0; break;
        case 'A': ZSTD_CCtx_reset(p->c, ZSTD_reset_session_and_parameters); p->open = 0; p->nbw = 0; p->has_dict = 0; ZSTD_CCtx_setParameter(p->c, ZSTD_c_compressionLevel, 1); ZSTD_CCtx_setParameter(p->c, ZSTD_c_jobSize, 1); break;
        case 'F': ZSTD_freeCCtx(p->c); scan_dead_blocks("after ZSTD_freeCCtx"); p->c = new_cctx(); p->open = 0; p->nbw = 0; p->want_shared = 0; p->has_dict = 0; ZSTD_CCtx_setParameter(p->c, ZSTD_c_compressionLevel, 1); ZSTD_CCtx_setParameter(p->c, ZSTD_c_jobSize, 1); break;
        case 'K':
            if (!g_shared_freed) {
                int x; char b[200];
                for (x = 1; x <= C.N; x++) if (A[x].c && !A[x].want_shared && A[x].c->mtctx && A[x].c->mtctx->providedFactory && A[x].c->mtctx->factory == g_shared) {
                    snprintf(b, sizeof b, "app %d: ZSTD_CCtx_refThreadPool(NULL) returned 0 but the context still holds the shared pool, which is being freed", x); oracle(b); }
                if (!g_bad) { ZSTD_freeThreadPool(g_shared); } g_shared_freed = 1;
            }
            break;
        case 'z': (void)ZSTD_sizeof_CCtx(p->c); break;
        default: break;
        }
    }
    t_op = 'F'; ZSTD_freeCCtx(p->c); p->c = NULL; scan_dead_blocks("after the final ZSTD_freeCCtx");
    return NULL;
}

static void run_case(void) {
    zv_params zp; int i;
    memset(&zp, 0, sizeof zp);
    zp.sched_len = C.sched_len < ZV_MAXSTEPS ? C.sched_len : ZV_MAXSTEPS;
    for (i = 0; i < zp.sched_len; i++) { zp.sched_t[i] = C.sched_t[i]; zp.sched_w[i] = C.sched_w[i]; }
    zp.policy = C.policy ? ZV_POLICY_NOPREEMPT : ZV_POLICY_RANDOM; zp.seed = C.seed; zp.stay_pct = C.stay;
    zp.first_worker_tid = C.N + 1; zp.on_step = on_step; zp.on_stuck = on_stuck; zp.on_fatal = on_fatal; zp.choose = choose_nospin;
    {   cpu_set_t set; long ncpu = sysconf(_SC_NPROCESSORS_ONLN); CPU_ZERO(&set); CPU_SET((int)((unsigned long)getppid() % (unsigned long)(ncpu > 0 ? ncpu : 1)), &set); sched_setaffinity(0, sizeof set, &set); }
    signal(SIGSEGV, on_crash); signal(SIGBUS, on_crash); signal(SIGFPE, on_crash); signal(SIGABRT, on_crash);
    gen_input();
    zv_sched_begin(&zp);
    g_shared = ZSTD_createThreadPool((size_t)C.pool); note_pool(g_shared);
    if (!g_shared) { oracle("ZSTD_createThreadPool failed"); finish_line("CRASH"); fflush(stdout); _exit(0); }
    for (i = 1; i <= C.N; i++) zv_spawn(i, app_main, (void*)(long)i);
    for (i = 1; i <= C.N; i++) zv_join_tid(i);
    if (!g_shared_freed) { ZSTD_freeThreadPool(g_shared); g_shared_freed = 1; }
    scan_dead_blocks("at the end of the run"); check_jobs_at_end();
    zv_sched_end();
    finish_line("END"); fflush(stdout); _exit(0);
}

/* ---------- parsing ---------- */
static int parse_prog(const char* s, size_t len, prog_t* p) {
    size_t i = 0; p->n = 0;
    if (len == 1 && s[0] == '-') return 0;
    while (i < len) {
        op_t o; o.kind = s[i++]; o.arg = 0;
        while (i < len && s[i] >= '0' && s[i] <= '9') o.arg = o.arg * 10 + (s[i++] - '0');
        if (!strchr("PSDLcfeRAFKz", o.kind) || p->n >= MAXOPS) return -1;
        p->ops[p->n++] = o;
        if (i < len) { if (s[i] != '.') return -1; i++; }
    }
    return 0;
}
static int parse_case(char* line) {
    char* tok; memset(&C, 0, sizeof C); C.stay = 50; C.pool = 2;
    for (tok = strtok(line, " \n"); tok; tok = strtok(NULL, " \n")) {
        char* v = strchr(tok, '='); if (!v) continue; *v++ = 0;
        if (!strcmp(tok, "id")) C.id = atoi(v);
        else if (!strcmp(tok, "pool")) C.pool = atoi(v);
        else if (!strcmp(tok, "progs")) {
            const char* p = v; snprintf(C.progs_s, sizeof C.progs_s, "%s", v); C.N = 0;
            for (;;) { const char* e = strchr(p, '|'); size_t len = e ? (size_t)(e - p) : strlen(p); if (C.N >= MAXAPP || parse_prog(p, len, &C.progs[C.N])) return -1; C.N++; if (!e) break; p = e + 1; }
        }
        else if (!strcmp(tok, "policy")) C.policy = (v[0] == 'n');
        else if (!strcmp(tok, "seed")) C.seed = strtoull(v, NULL, 10);
        else if (!strcmp(tok, "stay")) C.stay = atoi(v);
        else if (!strcmp(tok, "sched")) {
            char* q = v; int cap = 0; C.sched_len = 0;
            while (*q && *q != '-') {
                int t = (int)strtol(q, &q, 10), w = 0;
                if (*q == ':') w = (int)strtol(q + 1, &q, 10);
                if (C.sched_len >= cap) { cap = cap ? cap * 2 : 1024; C.sched_t = (int*)realloc(C.sched_t, sizeof(int) * (size_t)cap); C.sched_w = (int*)realloc(C.sched_w, sizeof(int) * (size_t)cap); }
                C.sched_t[C.sched_len] = t; C.sched_w[C.sched_len] = w; C.sched_len++;
                if (*q == ',') q++;
            }
        }
    }
    return (C.N >= 1 && C.pool >= 1) ? 0 : -1;
}

int main(void) {
    static char line[1 << 20];
    while (fgets(line, sizeof line, stdin)) {
        pid_t pid; int st;
        if (strncmp(line, "CASE", 4)) continue;
        if (parse_case(line + 4)) { printf("BADCASE\n"); continue; }
        printf("CASE id=%d pool=%d progs=%s\n", C.id, C.pool, C.progs_s); fflush(stdout);
        pid = fork();
        if (pid < 0) { perror("fork"); return 2; }
        if (pid == 0) { run_case(); _exit(0); }
        waitpid(pid, &st, 0);
        if (WIFEXITED(st) && WEXITSTATUS(st) == 6) { /* reported by on_fatal */ }
        else if (WIFEXITED(st) && WEXITSTATUS(st) == 4) printf("E LIMIT steps=0 sched=-\n");     /* the scheduler's step limit (threads spinning on a full pool) */
        else if (!WIFEXITED(st) || WEXITSTATUS(st) != 0) printf("O abnormal termination of the run (status 0x%x: invalid use of a mutex / condition, abort or exit inside the library)\nE CRASH steps=0 sched=-\n", st);
        fflush(stdout);
    }
    return 0;
}
