/* C16: second translation unit - reaches the private ZSTD_DCtx fields the correspondence observes
 * (stream stage, attached dictionary, maxWindowSize; round 2: dictUses, which DDict, the DDict hash set, last parsed dictID).
 * Compiled against the CURRENT /repo sources. */
#include "decompress/zstd_decompress.c"

int c16_d_stage(const ZSTD_DCtx* d) { return d->streamStage != zdss_init; }
int c16_d_hasdict(const ZSTD_DCtx* d) { return d->ddict != NULL; }
unsigned long long c16_d_maxwin(const ZSTD_DCtx* d) { return (unsigned long long)d->maxWindowSize; }

size_t c16_d_sizeof(void) { return sizeof(ZSTD_DCtx); }
int c16_d_dictuses(const ZSTD_DCtx* d) { return d->dictUses == ZSTD_dont_use ? 0 : d->dictUses == ZSTD_use_once ? 1 : 2; }
int c16_d_ddict_is_local(const ZSTD_DCtx* d) { return d->ddict != NULL && d->ddict == d->ddictLocal; }
const void* c16_d_ddict(const ZSTD_DCtx* d) { return d->ddict; }
const void* c16_d_ddict_content(const ZSTD_DCtx* d) { return d->ddict ? ZSTD_DDict_dictContent(d->ddict) : NULL; }
size_t c16_d_ddict_size(const ZSTD_DCtx* d) { return d->ddict ? ZSTD_DDict_dictSize(d->ddict) : 0; }
int c16_d_set_allocated(const ZSTD_DCtx* d) { return d->ddictSet != NULL; }
int c16_d_set_has(const ZSTD_DCtx* d, unsigned dictID) { return d->ddictSet != NULL && ZSTD_DDictHashSet_getDDict(d->ddictSet, dictID) != NULL; }
unsigned c16_d_lastid(const ZSTD_DCtx* d) { return d->fParams.dictID; }
