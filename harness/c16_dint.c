/* C16: second translation unit - reaches the private ZSTD_DCtx fields the correspondence observes
 * (stream stage, attached dictionary, maxWindowSize).  Compiled against the CURRENT /repo sources. */
#include "decompress/zstd_decompress.c"

int c16_d_stage(const ZSTD_DCtx* d) { return d->streamStage != zdss_init; }
int c16_d_hasdict(const ZSTD_DCtx* d) { return d->ddict != NULL; }
unsigned long long c16_d_maxwin(const ZSTD_DCtx* d) { return (unsigned long long)d->maxWindowSize; }
