/* C15 tie harness (2): REAL compression contexts driven through long multi-frame histories.
 *
 * One context is reused for every frame of a scenario; each frame is also compressed by a brand-new
 * context with the same parameters / dictionary / call sequence.  For every frame:
 *   rt=    1 iff libzstd's decoder returns exactly the input                      (direct oracle, C01)
 *   fresh= 1 iff reused-context output == fresh-context output, byte for byte     (direct oracle, C07)
 * and after every call that feeds input the index window of the reused context (read through the
 * #include of zstd_compress.c, no /repo hook) is printed, so that the driver can compare it with the
 * prediction of the extracted Coq model for the same history (same addresses, sizes, applied parameters).
 *
 * "warp D" is the test device of the quick tier: between two frames it moves window.base D bytes down,
 * which is the state of a context that has processed D more bytes (every stored index is stale, exactly as
 * after real frames) - so index reset / overflow correction of the DEFAULT build run for real at
 * ZSTD_CURRENT_MAX without compressing 3.5 GiB first.  The thorough tier also gets there the hard way.
 */
#define ZSTD_DEPS_NEED_MALLOC
#include "compress/zstd_compress.c"
#include "compress/zstdmt_compress.c"   /* worker context pool and serial LDM state of ZSTDMT (command mtstream) */
#include <stdio.h>
#include <stdlib.h>
#include <string.h>

typedef long long ll;

/* ---------------- allocator with a small quarantine: a re-allocated workspace never keeps its address -------- */
#define QN 8
static void* quarantine[QN]; static int qpos;
static void* c_alloc(void* o, size_t s) { (void)o; return malloc(s); }
static void c_free(void* o, void* p) { (void)o; if (!p) return; free(quarantine[qpos]); quarantine[qpos] = p; qpos = (qpos + 1) % QN; }
static ZSTD_customMem const cmem = { c_alloc, c_free, NULL };

/* ---------------- synthetic input: repetitive but not trivial ---------------- */
static BYTE* arena; static size_t arenaSize;
static U64 rs;
static U32 rnd(void) { rs = rs * 6364136223846793005ULL + 1442695040888963407ULL; return (U32)(rs >> 33); }
static void fill_arena(U64 seed) {
    size_t p = 0;
    rs = seed * 0x9E3779B97F4A7C15ULL + 12345;
    while (p < arenaSize) {
        U32 const k = rnd() % 100;
        size_t len = 4 + rnd() % 200;
        if (len > arenaSize - p) len = arenaSize - p;
        if (k < 55 && p > 64) {           /* copy from the past: near, window-ish, or far */
            size_t const maxd = (k < 25) ? 1024 : (k < 45) ? (1u << 17) : p;
            size_t const d = 1 + rnd() % (maxd < p ? maxd : p);
            size_t i; for (i = 0; i < len; i++) arena[p + i] = arena[p + i - d];
        } else if (k < 80) {              /* text-like */
            size_t i; for (i = 0; i < len; i++) arena[p + i] = (BYTE)("etaoin shrdlu,.\n01"[rnd() % 18]);
        } else {                          /* noise */
            size_t i; for (i = 0; i < len; i++) arena[p + i] = (BYTE)rnd();
        }
        p += len;
    }
}

/* ---------------- state ---------------- */
#define MAXP 64
static int pid[MAXP], pval[MAXP], np;
static ZSTD_CCtx* cctx; static ZSTD_DCtx* dctx;
static const BYTE* litAddr;   /* the " " literal ZSTD_window_init points base at */
static size_t dictOff, dictSize; static int dictMode;   /* 0 none, 1 refPrefix (per frame), 2 loadDictionary (sticky) */
static BYTE *cbuf, *cbuf2, *rbuf; static size_t cbufCap, rbufCap;

#define AOFF(p) ((ll)((const BYTE*)(p) - arena))
static void w_out(const char* tag, const ZSTD_window_t* w) {
    printf(" %s=%lld,%lld,%lld,%u,%u,%u", tag, AOFF(w->nextSrc), AOFF(w->base), AOFF(w->dictBase), w->dictLimit, w->lowLimit, w->nbOverflowCorrections);
}
/* direct observer of tables_stay_below_current: number of cells of the index tables that hold an index above
 * the current one (a table that missed a rebasing shows here at once), and the largest cell seen.
 * Returns the number of bad cells (match-state tables + LDM table + nextToUpdate). */
static size_t table_observer(const ZSTD_CCtx* c, int print) {
    const ZSTD_matchState_t* const ms = &c->blockState.matchState;
    const ZSTD_CCtx_params* const ap = &c->appliedParams;
    int const ldmOn = ap->ldmParams.enableLdm == ZSTD_ps_enable;
    size_t bad = 0, lbad = 0, i; U32 mx = 0; int ntubad = 0;
    if (!(c->initialized && ms->hashTable)) return 0;
    {   ll const c_ = (ll)(ms->window.nextSrc - ms->window.base);
        size_t const hSize = (size_t)1 << ap->cParams.hashLog;
        for (i = 0; i < hSize; i++) { U32 const e = ms->hashTable[i]; if ((ll)e > c_) bad++; if (e > mx) mx = e; }
        if (ZSTD_allocateChainTable(ap->cParams.strategy, ap->useRowMatchFinder, (U32)ms->dedicatedDictSearch) && ms->chainTable) {
            size_t const cSize = (size_t)1 << ap->cParams.chainLog;
            for (i = 0; i < cSize; i++) { U32 const e = ms->chainTable[i]; if ((ll)e > c_) bad++; if (e > mx) mx = e; }
        }
        if (ms->hashLog3 && ms->hashTable3) {
            size_t const h3 = (size_t)1 << ms->hashLog3;
            for (i = 0; i < h3; i++) { U32 const e = ms->hashTable3[i]; if ((ll)e > c_) bad++; if (e > mx) mx = e; }
        }
        ntubad = (ll)ms->nextToUpdate > c_;
        if (print) printf(" tbad=%zu tmax=%u ntubad=%d", bad, mx, ntubad);
        if (ldmOn && c->ldmState.hashTable) {
            ll const lc = (ll)(c->ldmState.window.nextSrc - c->ldmState.window.base);
            size_t const n = (size_t)1 << ap->ldmParams.hashLog;
            for (i = 0; i < n; i++) if ((ll)c->ldmState.hashTable[i].offset > lc) lbad++;
            if (print) printf(" ltbad=%zu", lbad);
        }
    }
    return bad + lbad + (size_t)ntubad;
}

static void state_out(const ZSTD_CCtx* c) {
    const ZSTD_matchState_t* const ms = &c->blockState.matchState;
    const ZSTD_CCtx_params* const ap = &c->appliedParams;
    int const ldmOn = ap->ldmParams.enableLdm == ZSTD_ps_enable;
    printf(" ap=%u,%u,%u,%d,%d,%d,%u bsmax=%zu", ap->cParams.windowLog, ap->cParams.chainLog, ap->cParams.hashLog, (int)ap->cParams.strategy,
           ap->useRowMatchFinder == ZSTD_ps_enable, ldmOn, ms->hashLog3, c->blockSize);
    w_out("W", &ms->window);
    printf(" lde=%u dms=%d fnc=%d ntu=%u ofs=%d", ms->loadedDictEnd, ms->dictMatchState != NULL, ms->forceNonContiguous, ms->nextToUpdate, ms->opt.litLengthSum == 0);
    if (ms->dictMatchState) { w_out("DW", &ms->dictMatchState->window); }
    if (ldmOn) { w_out("LW", &c->ldmState.window); printf(" llde=%u lcap=%zu", c->ldmState.loadedDictEnd, c->maxNbLdmSequences); }
    if (c->localDict.cdict) { const ZSTD_matchState_t* const cm = &c->localDict.cdict->matchState;
        w_out("CD", &cm->window); printf(" cdl=%u cdn=%u", cm->loadedDictEnd, cm->nextToUpdate); }
    /* direct observer of index_never_overflows on the real context */
    {   ll const c_ = (ll)(ms->window.nextSrc - ms->window.base);
        printf(" idx=%lld", c_);
    }
    table_observer(c, 1);
}

static void apply_params(ZSTD_CCtx* c) {
    int i;
    ZSTD_CCtx_reset(c, ZSTD_reset_parameters);
    for (i = 0; i < np; i++) {
        size_t const r = ZSTD_CCtx_setParameter(c, (ZSTD_cParameter)pid[i], pval[i]);
        if (ZSTD_isError(r)) printf("E setParameter %d %d %s\n", pid[i], pval[i], ZSTD_getErrorName(r));
    }
}
static void apply_dict(ZSTD_CCtx* c) {
    if (dictMode == 1) ZSTD_CCtx_refPrefix(c, arena + dictOff, dictSize);
    else if (dictMode == 2) ZSTD_CCtx_loadDictionary_advanced(c, arena + dictOff, dictSize, ZSTD_dlm_byRef, ZSTD_dct_rawContent);
}
static int decode_ok(const void* cs, size_t csize, const BYTE* src, size_t size) {
    size_t r;
    if (size > rbufCap) { free(rbuf); rbufCap = size + 1; rbuf = (BYTE*)malloc(rbufCap); }
    ZSTD_DCtx_reset(dctx, ZSTD_reset_session_and_parameters);
    ZSTD_DCtx_setParameter(dctx, ZSTD_d_windowLogMax, ZSTD_WINDOWLOG_MAX);
    if (dictMode == 1) ZSTD_DCtx_refPrefix(dctx, arena + dictOff, dictSize);
    else if (dictMode == 2) ZSTD_DCtx_loadDictionary_advanced(dctx, arena + dictOff, dictSize, ZSTD_dlm_byRef, ZSTD_dct_rawContent);
    r = ZSTD_decompressDCtx(dctx, rbuf, size ? size : 1, cs, csize);
    if (ZSTD_isError(r)) { printf(" derr=%s", ZSTD_getErrorName(r)); return 0; }
    if (!(r == size && (size == 0 || memcmp(rbuf, src, size) == 0))) return 0;
    /* second decoding, streaming with small output pieces: the decoder then keeps only the window the frame header
     * declares (ring buffer), so a match reaching further back than the compressor's window allows is caught here */
    {   ZSTD_inBuffer ib; size_t pos = 0; static BYTE piece[4096]; size_t guard = 0;
        ZSTD_DCtx_reset(dctx, ZSTD_reset_session_and_parameters);
        ZSTD_DCtx_setParameter(dctx, ZSTD_d_windowLogMax, ZSTD_WINDOWLOG_MAX);
        if (dictMode == 1) ZSTD_DCtx_refPrefix(dctx, arena + dictOff, dictSize);
        else if (dictMode == 2) ZSTD_DCtx_loadDictionary_advanced(dctx, arena + dictOff, dictSize, ZSTD_dlm_byRef, ZSTD_dct_rawContent);
        ib.src = cs; ib.size = csize; ib.pos = 0;
        for (;;) {
            ZSTD_outBuffer ob; size_t dr;
            ob.dst = piece; ob.size = sizeof(piece); ob.pos = 0;
            dr = ZSTD_decompressStream(dctx, &ob, &ib);
            if (ZSTD_isError(dr)) { printf(" dserr=%s@%zu", ZSTD_getErrorName(dr), pos); return 0; }
            if (pos + ob.pos > size || memcmp(piece, src + pos, ob.pos) != 0) { printf(" dsdiff@%zu", pos); return 0; }
            pos += ob.pos;
            if (dr == 0) break;
            if (ob.pos == 0 && ib.pos == ib.size) { printf(" dstrunc@%zu", pos); return 0; }
            if (++guard > (1u << 24)) return 0;
        }
        if (pos != size) { printf(" dsshort@%zu", pos); return 0; }
    }
    return 1;
}
static void need_cbuf(size_t size) {
    size_t const need = ZSTD_compressBound(size) + 1024;
    if (need > cbufCap) { free(cbuf); free(cbuf2); cbufCap = need; cbuf = (BYTE*)malloc(need); cbuf2 = (BYTE*)malloc(need); }
}
/* was the index referential of the reused context re-created inside this call for a reason the window
 * itself does not explain?  (first use, or the workspace was re-allocated: `forced` of the model) */
typedef struct { int initialized; void* ws; } pre_t;
static pre_t pre(void) { pre_t p; p.initialized = cctx->initialized; p.ws = cctx->workspace.workspace; return p; }
static int forced(pre_t p) { return !p.initialized || p.ws != cctx->workspace.workspace; }

/* ---------------- frames ---------------- */
static void frame_oneshot(size_t off, size_t size) {
    size_t c1, c2; pre_t p0; int fr;
    ZSTD_CCtx* fresh;
    need_cbuf(size);
    apply_params(cctx); apply_dict(cctx);
    p0 = pre();
    c1 = ZSTD_compress2(cctx, cbuf, cbufCap, arena + off, size);
    fr = forced(p0);
    fresh = ZSTD_createCCtx_advanced(cmem);
    apply_params(fresh); apply_dict(fresh);
    c2 = ZSTD_compress2(fresh, cbuf2, cbufCap, arena + off, size);
    printf("F api=oneshot off=%zu size=%zu", off, size);
    if (ZSTD_isError(c1) || ZSTD_isError(c2)) printf(" cerr=%s/%s rt=0 fresh=0", ZSTD_getErrorName(c1), ZSTD_getErrorName(c2));
    else {
        printf(" csize=%zu rt=%d fresh=%d", c1, decode_ok(cbuf, c1, arena + off, size), c1 == c2 && memcmp(cbuf, cbuf2, c1) == 0);
        if (!(c1 == c2 && memcmp(cbuf, cbuf2, c1) == 0)) {   /* where the two outputs part */
            size_t k = 0; while (k < c1 && k < c2 && cbuf[k] == cbuf2[k]) k++;
            printf(" fsize=%zu fdiff=%zu", c2, k);
        }
    }
    printf(" forced=%d lit=%lld dict=%d,%zu,%zu", fr, AOFF(litAddr), dictMode, dictOff, dictSize);
    state_out(cctx);
    printf("\n");
    ZSTD_freeCCtx(fresh);
    if (dictMode == 1) dictMode = 0;   /* a prefix is single-use */
}

/* bufferless frame: chunks (offset,size), possibly non-contiguous; dictionary = raw content or none */
#define MAXCH 4096
static void frame_bufferless(int nch, const ll* ch, ZSTD_compressionParameters cp, int checksum) {
    ZSTD_parameters zp; size_t pos = 0, pos2 = 0, r = 0; int i, bad = 0, fr; pre_t p0; size_t total = 0;
    ZSTD_CCtx* fresh = ZSTD_createCCtx_advanced(cmem);
    const void* d = dictMode ? arena + dictOff : NULL; size_t const ds = dictMode ? dictSize : 0;
    for (i = 0; i < nch; i++) total += (size_t)ch[2 * i + 1];
    need_cbuf(total + (size_t)nch * 32);
    memset(&zp, 0, sizeof(zp)); zp.cParams = cp; zp.fParams.contentSizeFlag = 0; zp.fParams.checksumFlag = checksum; zp.fParams.noDictIDFlag = 1;
    p0 = pre();
    r = ZSTD_compressBegin_advanced(cctx, d, ds, zp, ZSTD_CONTENTSIZE_UNKNOWN); bad |= ZSTD_isError(r);
    fr = forced(p0);
    printf("B api=begin forced=%d lit=%lld dict=%d,%zu,%zu err=%d", fr, AOFF(litAddr), dictMode ? 1 : 0, dictOff, ds, bad);
    state_out(cctx); printf("\n");
    r = ZSTD_compressBegin_advanced(fresh, d, ds, zp, ZSTD_CONTENTSIZE_UNKNOWN); bad |= ZSTD_isError(r);
    for (i = 0; i < nch && !bad; i++) {
        const BYTE* const s = arena + ch[2 * i]; size_t const n = (size_t)ch[2 * i + 1];
        int const last = (i == nch - 1);
        r = last ? ZSTD_compressEnd(cctx, cbuf + pos, cbufCap - pos, s, n) : ZSTD_compressContinue(cctx, cbuf + pos, cbufCap - pos, s, n);
        if (ZSTD_isError(r)) { bad = 1; printf("E %s\n", ZSTD_getErrorName(r)); break; }
        pos += r;
        printf("C api=%s off=%lld size=%zu", last ? "end" : "continue", ch[2 * i], n);
        state_out(cctx); printf("\n");
        r = last ? ZSTD_compressEnd(fresh, cbuf2 + pos2, cbufCap - pos2, s, n) : ZSTD_compressContinue(fresh, cbuf2 + pos2, cbufCap - pos2, s, n);
        if (ZSTD_isError(r)) { bad = 1; break; }
        pos2 += r;
    }
    {   /* round trip: the chunks concatenated are the content (decoded with the same raw dictionary) */
        int rt = 0;
        if (!bad) {
            size_t q = 0; BYTE* cat = (BYTE*)malloc(total + 1);
            int const savedMode = dictMode;
            for (i = 0; i < nch; i++) { memcpy(cat + q, arena + ch[2 * i], (size_t)ch[2 * i + 1]); q += (size_t)ch[2 * i + 1]; }
            if (dictMode) dictMode = 1;
            rt = decode_ok(cbuf, pos, cat, total);
            dictMode = savedMode;
            free(cat);
        }
        printf("F api=bufferless chunks=%d size=%zu csize=%zu rt=%d fresh=%d\n", nch, total, pos, rt, !bad && pos == pos2 && memcmp(cbuf, cbuf2, pos) == 0);
    }
    ZSTD_freeCCtx(fresh);
}

/* block-level session (ZSTD_compressBlock): R3.  mode 0 = ZSTD_compressBegin_usingDict(level) with a raw dictionary (or none),
 * mode 1 = ZSTD_compressBegin_usingCDict with a by-reference raw-content CDict of that level (attached: pledged size unknown);
 * modes 2 / 3 = the same two begins followed by ZSTD_compressContinue / ZSTD_compressEnd (frame mode, sizes not clamped).
 * Chunks are (offset,size) in the arena, possibly non-contiguous and possibly overlapping the previous chunk (a caller
 * re-using its input buffer); each size is clamped to ZSTD_getBlockSize().  The window state after begin and after every
 * block is printed for the model (opcode 104 = OpBlockMode); blocks are decoded with ZSTD_decompressBlock / ZSTD_insertBlock
 * into one contiguous buffer.  rnb / fnb = overflow corrections made during the session by the reused / fresh context
 * (block mode does not enforce the window, so a correction is visible in the output: fresh equality is only claimed
 * when both are 0). */
static void frame_blockapi(int mode, int level, size_t dOff, size_t dSize, int nch, const ll* ch) {
    ZSTD_CCtx* fresh = ZSTD_createCCtx_advanced(cmem);
    ZSTD_CDict* cd = NULL; const void* const d = dSize ? arena + dOff : NULL;
    size_t r = 0, pos = 0, pos2 = 0, total = 0, q = 0; int i, bad = 0, fr, rt = 0; pre_t p0; U32 nb0, fnb0;
    size_t* const csz = (size_t*)calloc((size_t)nch + 1, sizeof(size_t)); size_t* const usz = (size_t*)calloc((size_t)nch + 1, sizeof(size_t));
    for (i = 0; i < nch; i++) total += (size_t)ch[2 * i + 1];
    need_cbuf(total + (size_t)nch * 32);
    if (mode & 1) { cd = ZSTD_createCDict_byReference(d, dSize, level); if (!cd) { printf("E blockapi cdict\n"); return; } }
    p0 = pre();
    r = (mode & 1) ? ZSTD_compressBegin_usingCDict(cctx, cd) : ZSTD_compressBegin_usingDict(cctx, d, dSize, level); bad |= ZSTD_isError(r);
    fr = forced(p0);
    nb0 = cctx->blockState.matchState.window.nbOverflowCorrections;
    printf("B api=blockbegin forced=%d lit=%lld dict=%d,%zu,%zu err=%d", fr, AOFF(litAddr), dSize ? ((mode & 1) ? 2 : 1) : 0, dOff, dSize, bad);
    state_out(cctx);
    if (cd) { const ZSTD_matchState_t* const cm = &cd->matchState; w_out("CD", &cm->window); printf(" cdl=%u cdn=%u", cm->loadedDictEnd, cm->nextToUpdate); }
    printf("\n");
    r = (mode & 1) ? ZSTD_compressBegin_usingCDict(fresh, cd) : ZSTD_compressBegin_usingDict(fresh, d, dSize, level); bad |= ZSTD_isError(r);
    fnb0 = fresh->blockState.matchState.window.nbOverflowCorrections;
    for (i = 0; i < nch && !bad; i++) {
        const BYTE* const s = arena + ch[2 * i]; size_t n = (size_t)ch[2 * i + 1];
        int const last = (i == nch - 1);
        if (mode < 2 && n > ZSTD_getBlockSize(cctx)) n = ZSTD_getBlockSize(cctx);
        usz[i] = n;
        r = (mode >= 2) ? (last ? ZSTD_compressEnd(cctx, cbuf + pos, cbufCap - pos, s, n) : ZSTD_compressContinue(cctx, cbuf + pos, cbufCap - pos, s, n))
                        : ZSTD_compressBlock(cctx, cbuf + pos, cbufCap - pos, s, n);
        if (ZSTD_isError(r)) { bad = 1; printf("E blockapi %s\n", ZSTD_getErrorName(r)); break; }
        csz[i] = r; pos += r;
        printf("C api=%s off=%lld size=%zu csz=%zu", mode >= 2 ? (last ? "end" : "continue") : "block", ch[2 * i], n, r);
        state_out(cctx); printf("\n");
        r = (mode >= 2) ? (last ? ZSTD_compressEnd(fresh, cbuf2 + pos2, cbufCap - pos2, s, n) : ZSTD_compressContinue(fresh, cbuf2 + pos2, cbufCap - pos2, s, n))
                        : ZSTD_compressBlock(fresh, cbuf2 + pos2, cbufCap - pos2, s, n);
        if (ZSTD_isError(r)) { bad = 1; break; }
        if (r != csz[i]) bad |= 2;     /* outputs differ in size: remembered, not an error */
        pos2 += r;
    }
    if (!(bad & 1)) {
        BYTE* const dec = (BYTE*)malloc(total + 1); size_t cp = 0;
        rt = 1;
        if (mode >= 2) {   /* frame mode (ZSTD_compressContinue / ZSTD_compressEnd): one frame */
            BYTE* const cat = (BYTE*)malloc(total + 1); size_t qq = 0;
            for (i = 0; i < nch; i++) { memcpy(cat + qq, arena + ch[2 * i], usz[i]); qq += usz[i]; }
            r = ZSTD_decompress_usingDict(dctx, dec, total + 1, cbuf, pos, d, dSize);
            if (ZSTD_isError(r)) { printf("D blockapi frame: %s\n", ZSTD_getErrorName(r)); rt = 0; }
            else if (r != qq || memcmp(dec, cat, qq) != 0) { printf("D blockapi frame decodes to other bytes\n"); rt = 0; }
            free(cat);
        }
        else r = ZSTD_decompressBegin_usingDict(dctx, d, dSize);
        if (ZSTD_isError(r)) rt = 0;
        for (i = 0; i < nch && rt && mode < 2; i++) {
            if (csz[i] == 0) { memcpy(dec + q, arena + ch[2 * i], usz[i]); r = usz[i] ? ZSTD_insertBlock(dctx, dec + q, usz[i]) : 0; }
            else r = ZSTD_decompressBlock(dctx, dec + q, total - q, cbuf + cp, csz[i]);
            if (ZSTD_isError(r)) { printf("D blockapi block %d: %s\n", i, ZSTD_getErrorName(r)); rt = 0; break; }
            if (r != usz[i] || memcmp(dec + q, arena + ch[2 * i], usz[i]) != 0) { printf("D blockapi block %d decodes to other bytes\n", i); rt = 0; break; }
            cp += csz[i]; q += usz[i];
        }
        free(dec);
    }
    printf("F api=blockapi mode=%d chunks=%d size=%zu csize=%zu rt=%d fresh=%d rnb=%u fnb=%u\n", mode, nch, total, pos, rt,
           !bad && pos == pos2 && memcmp(cbuf, cbuf2, pos) == 0,
           cctx->blockState.matchState.window.nbOverflowCorrections - nb0, fresh->blockState.matchState.window.nbOverflowCorrections - fnb0);
    ZSTD_freeCCtx(fresh); ZSTD_freeCDict(cd); free(csz); free(usz);
}

/* streaming frame (buffered), small chunks in and out; window not predicted, only the oracles and idx */
static size_t stream_one(ZSTD_CCtx* c, BYTE* dst, size_t cap, size_t off, size_t size, size_t cin, size_t cout, int flushEvery) {
    ZSTD_inBuffer in; ZSTD_outBuffer out; size_t fed = 0, n = 0; size_t r = 1; int k = 0;
    out.dst = dst; out.size = 0; out.pos = 0;
    while (fed < size || r != 0) {
        size_t const take = (size - fed < cin) ? size - fed : cin;
        ZSTD_EndDirective const dir = (fed + take == size) ? ZSTD_e_end : ((flushEvery && (++k % flushEvery) == 0) ? ZSTD_e_flush : ZSTD_e_continue);
        in.src = arena + off + fed; in.size = take; in.pos = 0;
        do {
            out.size = (out.pos + cout < cap) ? out.pos + cout : cap;
            r = ZSTD_compressStream2(c, &out, &in, dir);
            if (ZSTD_isError(r)) return r;
            if (out.pos == cap) return ERROR(dstSize_tooSmall);
            if (++n > (1u << 26)) return ERROR(GENERIC);
        } while (in.pos < in.size || (dir != ZSTD_e_continue && r != 0));
        fed += take;
        if (dir == ZSTD_e_end) break;
    }
    return out.pos;
}
static void frame_stream(size_t off, size_t size, size_t cin, size_t cout, int flushEvery) {
    size_t c1, c2; ZSTD_CCtx* fresh; pre_t p0; int fr;
    need_cbuf(size + (size / (cin ? cin : 1) + 8) * 16);
    apply_params(cctx); apply_dict(cctx);
    p0 = pre();
    c1 = stream_one(cctx, cbuf, cbufCap, off, size, cin, cout, flushEvery);
    fr = forced(p0);
    fresh = ZSTD_createCCtx_advanced(cmem);
    apply_params(fresh); apply_dict(fresh);
    c2 = stream_one(fresh, cbuf2, cbufCap, off, size, cin, cout, flushEvery);
    printf("F api=stream off=%zu size=%zu", off, size);
    if (ZSTD_isError(c1) || ZSTD_isError(c2)) printf(" cerr=%s/%s rt=0 fresh=0", ZSTD_getErrorName(c1), ZSTD_getErrorName(c2));
    else printf(" csize=%zu rt=%d fresh=%d", c1, decode_ok(cbuf, c1, arena + off, size), c1 == c2 && memcmp(cbuf, cbuf2, c1) == 0);
    printf(" forced=%d dict=%d,%zu,%zu", fr, dictMode, dictOff, dictSize);
    state_out(cctx);
    printf("\n");
    ZSTD_freeCCtx(fresh);
    if (dictMode == 1) dictMode = 0;
}

/* ---------------- one long stream through the reused context, generated and decoded on the fly ---------------- */
#define BCH (1u << 16)
static void gen_chunk(BYTE* dst, U64 i, U64 seed) {
    U64 h = (i + seed) * 0x9E3779B97F4A7C15ULL; h ^= h >> 29; h *= 0xBF58476D1CE4E5B9ULL; h ^= h >> 32;
    {   size_t const span = (arenaSize > (4u << 20) ? (2u << 20) : arenaSize / 2) - BCH;
        size_t const off = (size_t)(h % span);
        memcpy(dst, arena + off, BCH);
        memcpy(dst + (h >> 40) % (BCH - 8), &i, 8);      /* every chunk is unique */
    }
}
static void bigstream(U64 total, U64 seed) {
    BYTE* const in = (BYTE*)malloc(BCH); BYTE* const exp = (BYTE*)malloc(BCH);
    size_t const ocap = ZSTD_compressBound(BCH) + 4096; BYTE* const out = (BYTE*)malloc(ocap);
    BYTE* const dec = (BYTE*)malloc(BCH);
    U64 fed = 0, produced = 0, decoded = 0, nchunks = (total + BCH - 1) / BCH, i; int ok = 1; ll maxidx = 0; U32 nbovf = 0;
    U64 expChunk = (U64)-1; size_t r = 0;
    const ZSTD_matchState_t* const ms = &cctx->blockState.matchState;
    apply_params(cctx);
    ZSTD_DCtx_reset(dctx, ZSTD_reset_session_and_parameters);
    ZSTD_DCtx_setParameter(dctx, ZSTD_d_windowLogMax, ZSTD_WINDOWLOG_MAX);
    for (i = 0; i < nchunks && ok; i++) {
        size_t const n = (size_t)((total - fed < BCH) ? total - fed : BCH);
        ZSTD_inBuffer ib; ZSTD_EndDirective const dir = (i == nchunks - 1) ? ZSTD_e_end : ZSTD_e_continue;
        gen_chunk(in, i, seed);
        ib.src = in; ib.size = n; ib.pos = 0;
        do {
            ZSTD_outBuffer ob; ZSTD_inBuffer db;
            ob.dst = out; ob.size = ocap; ob.pos = 0;
            r = ZSTD_compressStream2(cctx, &ob, &ib, dir);
            if (ZSTD_isError(r)) { printf("E bigstream compress %s\n", ZSTD_getErrorName(r)); ok = 0; break; }
            produced += ob.pos;
            {   ll const c_ = (ll)(ms->window.nextSrc - ms->window.base); if (c_ > maxidx) maxidx = c_;
                nbovf = ms->window.nbOverflowCorrections; }
            db.src = out; db.size = ob.pos; db.pos = 0;
            while (db.pos < db.size && ok) {
                ZSTD_outBuffer dob; size_t dr, k = 0;
                dob.dst = dec; dob.size = BCH; dob.pos = 0;
                dr = ZSTD_decompressStream(dctx, &dob, &db);
                if (ZSTD_isError(dr)) { printf("E bigstream decompress %s at %llu\n", ZSTD_getErrorName(dr), (unsigned long long)decoded); ok = 0; break; }
                while (k < dob.pos) {     /* compare with the regenerated input */
                    U64 const ci = decoded / BCH; size_t const co = (size_t)(decoded % BCH);
                    size_t const m = (dob.pos - k < BCH - co) ? dob.pos - k : BCH - co;
                    if (ci != expChunk) { gen_chunk(exp, ci, seed); expChunk = ci; }
                    if (memcmp(dec + k, exp + co, m) != 0) { printf("E bigstream content differs near %llu\n", (unsigned long long)decoded); ok = 0; break; }
                    k += m; decoded += m;
                }
            }
        } while (ok && (ib.pos < ib.size || (dir == ZSTD_e_end && r != 0)));
        fed += n;
    }
    if (decoded != total) ok = 0;
    printf("G api=bigstream size=%llu csize=%llu rt=%d maxidx=%lld nbovf=%u", (unsigned long long)total, (unsigned long long)produced, ok, maxidx, nbovf);
    state_out(cctx); printf("\n");
    free(in); free(exp); free(out); free(dec);
}

/* ---------------- long stream through a (possibly multi-threaded) context + the same through a fresh one -------------
 * The compressed stream is hashed (XXH64) so that two runs can be compared without keeping them; when d != NULL it
 * is decoded on the fly and compared with the regenerated input. */
static int long_stream(ZSTD_CCtx* c, ZSTD_DCtx* d, U64 total, U64 seed, U64* producedOut, U64* hashOut) {
    BYTE* const in = (BYTE*)malloc(BCH); BYTE* const exp = (BYTE*)malloc(BCH);
    size_t const ocap = ZSTD_compressBound(BCH) + 4096; BYTE* const out = (BYTE*)malloc(ocap);
    BYTE* const dec = (BYTE*)malloc(BCH);
    U64 fed = 0, produced = 0, decoded = 0, nchunks = (total + BCH - 1) / BCH, i; int ok = 1;
    U64 expChunk = (U64)-1; size_t r = 0;
    XXH64_state_t xs; XXH64_reset(&xs, 0);
    if (d) { ZSTD_DCtx_reset(d, ZSTD_reset_session_and_parameters); ZSTD_DCtx_setParameter(d, ZSTD_d_windowLogMax, ZSTD_WINDOWLOG_MAX);
             if (dictMode == 1) ZSTD_DCtx_refPrefix(d, arena + dictOff, dictSize);
             else if (dictMode == 2) ZSTD_DCtx_loadDictionary_advanced(d, arena + dictOff, dictSize, ZSTD_dlm_byRef, ZSTD_dct_rawContent); }
    for (i = 0; i < nchunks && ok; i++) {
        size_t const n = (size_t)((total - fed < BCH) ? total - fed : BCH);
        ZSTD_inBuffer ib; ZSTD_EndDirective const dir = (i == nchunks - 1) ? ZSTD_e_end : ZSTD_e_continue;
        gen_chunk(in, i, seed);
        ib.src = in; ib.size = n; ib.pos = 0;
        do {
            ZSTD_outBuffer ob; ZSTD_inBuffer db;
            ob.dst = out; ob.size = ocap; ob.pos = 0;
            r = ZSTD_compressStream2(c, &ob, &ib, dir);
            if (ZSTD_isError(r)) { printf("E long_stream compress %s\n", ZSTD_getErrorName(r)); ok = 0; break; }
            produced += ob.pos;
            XXH64_update(&xs, out, ob.pos);
            db.src = out; db.size = ob.pos; db.pos = 0;
            while (d && db.pos < db.size && ok) {
                ZSTD_outBuffer dob; size_t dr, k = 0;
                dob.dst = dec; dob.size = BCH; dob.pos = 0;
                dr = ZSTD_decompressStream(d, &dob, &db);
                if (ZSTD_isError(dr)) { printf("E long_stream decompress %s at %llu\n", ZSTD_getErrorName(dr), (unsigned long long)decoded); ok = 0; break; }
                while (k < dob.pos) {
                    U64 const ci = decoded / BCH; size_t const co = (size_t)(decoded % BCH);
                    size_t const m = (dob.pos - k < BCH - co) ? dob.pos - k : BCH - co;
                    if (ci != expChunk) { gen_chunk(exp, ci, seed); expChunk = ci; }
                    if (memcmp(dec + k, exp + co, m) != 0) { printf("E long_stream content differs near %llu\n", (unsigned long long)decoded); ok = 0; break; }
                    k += m; decoded += m;
                }
            }
        } while (ok && (ib.pos < ib.size || (dir == ZSTD_e_end && r != 0)));
        fed += n;
    }
    if (d && decoded != total) ok = 0;
    *producedOut = produced; *hashOut = XXH64_digest(&xs);
    free(in); free(exp); free(out); free(dec);
    return ok;
}

/* mtstream total seed warpTo : the parameters in force must select nbWorkers >= 1.
 * warpTo > 0: before the frame every idle worker context of the pool is moved to index warpTo (same device as
 * "warpto", applied to the contexts ZSTDMT reuses from job to job).  After the frame the worker contexts are
 * inspected: corrections made, largest index, table observer. */
static void mtstream(U64 total, U64 seed, ll warpTo) {
    U64 p1 = 0, p2 = 0, h1 = 0, h2 = 0; int ok, nw = 0, k; U32 wnb = 0; ll wmax = 0; size_t wbad = 0; int warped = 0;
    ZSTD_CCtx* fresh;
    apply_params(cctx);
    if (warpTo > 0 && cctx->mtctx && cctx->mtctx->cctxPool) {
        ZSTDMT_CCtxPool* const pool = cctx->mtctx->cctxPool;
        for (k = 0; k < pool->availCCtx; k++) {
            ZSTD_CCtx* const wc = pool->cctxs[k];
            if (wc && wc->initialized) {
                ZSTD_window_t* const w = &wc->blockState.matchState.window;
                ll const dlt = warpTo - (ll)(w->nextSrc - w->base);
                if (dlt > 0) { w->base -= dlt; w->dictBase -= dlt; warped++; }
            }
        }
    }
    apply_dict(cctx);     /* a prefix / dictionary in force goes to the first job (as a CDict) and, raw, to the serial LDM state */
    ok = long_stream(cctx, dctx, total, seed, &p1, &h1);
    fresh = ZSTD_createCCtx_advanced(cmem);
    apply_params(fresh); apply_dict(fresh);
    (void)long_stream(fresh, NULL, total, seed, &p2, &h2);
    ZSTD_freeCCtx(fresh);
    if (cctx->mtctx && cctx->mtctx->cctxPool) {
        ZSTDMT_CCtxPool* const pool = cctx->mtctx->cctxPool;
        for (k = 0; k < pool->availCCtx; k++) {
            const ZSTD_CCtx* const wc = pool->cctxs[k];
            if (wc && wc->initialized) {
                const ZSTD_window_t* const w = &wc->blockState.matchState.window;
                ll const c_ = (ll)(w->nextSrc - w->base);
                nw++;
                if (w->nbOverflowCorrections > wnb) wnb = w->nbOverflowCorrections;
                if (c_ > wmax) wmax = c_;
                wbad += table_observer(wc, 0);
            }
        }
    }
    printf("G api=mtstream size=%llu csize=%llu rt=%d fresh=%d nbovf=%u maxidx=%lld workers=%d warped=%d wtbad=%zu",
           (unsigned long long)total, (unsigned long long)p1, ok, p1 == p2 && h1 == h2, wnb, wmax, nw, warped, wbad);
    if (cctx->mtctx) printf(" serialnbovf=%u", cctx->mtctx->serial.ldmState.window.nbOverflowCorrections);
    printf(" dict=%d,%zu,%zu\n", dictMode, dictOff, dictSize);
    if (dictMode == 1) dictMode = 0;   /* a prefix is single-use */
}

/* ---------------- finding F7 probe: LDM on, one frame, `ncalls` flushes of 6 bytes, then `tail` chunks of 64 KiB --------
 * pure public API (ZSTD_compressStream2 + ZSTD_e_flush); decoded on the fly; content verified by the frame
 * checksum (tiny phase) and byte compare (tail).  Blocks below 7 bytes never reach ZSTD_ldm_generateSequences,
 * the only place where the LDM window is overflow-corrected, while ZSTD_window_update advances it. */
static void ldmtiny(U64 ncalls, U64 tail, ll warpIdx) {
    static BYTE in[8]; BYTE* const out = (BYTE*)malloc(1 << 18); BYTE* const dec = (BYTE*)malloc(1 << 18);
    BYTE* const big = (BYTE*)malloc(BCH);
    U64 i, decoded = 0; int ok = 1; size_t r = 0;
    const ZSTD_window_t* const lw = &cctx->ldmState.window;
    apply_params(cctx);
    ZSTD_CCtx_setParameter(cctx, ZSTD_c_checksumFlag, 1);
    ZSTD_DCtx_reset(dctx, ZSTD_reset_session_and_parameters);
    ZSTD_DCtx_setParameter(dctx, ZSTD_d_windowLogMax, ZSTD_WINDOWLOG_MAX);
    for (i = 0; i < ncalls + tail && ok; i++) {
        ZSTD_inBuffer ib; int const isTail = i >= ncalls; int const last = (i == ncalls + tail - 1);
        if (!isTail) { in[0] = (BYTE)i; in[1] = (BYTE)(i >> 8); in[2] = 'c'; in[3] = 'd'; in[4] = 'e'; in[5] = 'f'; ib.src = in; ib.size = 6; }
        else { gen_chunk(big, i, 77); ib.src = big; ib.size = BCH; }
        ib.pos = 0;
        if (warpIdx > 0 && i == ncalls / 2) {
            /* test device of the quick tier: the LDM window as it is after (warpIdx - current index) more bytes of tiny
             * blocks (only ZSTD_window_update ever touches it on that path, and it only moves nextSrc) */
            ZSTD_window_t* const w = &cctx->ldmState.window;
            ll const dlt = warpIdx - (ll)(w->nextSrc - w->base);
            if (dlt > 0) { w->base -= dlt; w->dictBase -= dlt; }
        }
        if (i == ncalls) {
            printf("T api=ldmtiny phase=tiny-done calls=%llu ldmidx=%lld ldmexact=%d", (unsigned long long)ncalls, (ll)(lw->nextSrc - lw->base),
                   (ll)(lw->nextSrc - lw->base) >= 0 && (ll)(lw->nextSrc - lw->base) < 4294967296LL);
            printf(" lnbovf=%u msnbovf=%u\n", lw->nbOverflowCorrections, cctx->blockState.matchState.window.nbOverflowCorrections);
            fflush(stdout);
        }
        for (;;) {
            ZSTD_outBuffer ob; ZSTD_inBuffer db;
            ob.dst = out; ob.size = 1 << 18; ob.pos = 0;
            r = ZSTD_compressStream2(cctx, &ob, &ib, last ? ZSTD_e_end : ZSTD_e_flush);
            if (ZSTD_isError(r)) { printf("E ldmtiny compress %s\n", ZSTD_getErrorName(r)); ok = 0; break; }
            db.src = out; db.size = ob.pos; db.pos = 0;
            while (db.pos < db.size && ok) {
                ZSTD_outBuffer dob; size_t dr;
                dob.dst = dec; dob.size = 1 << 18; dob.pos = 0;
                dr = ZSTD_decompressStream(dctx, &dob, &db);
                if (ZSTD_isError(dr)) { printf("E ldmtiny decompress %s at %llu\n", ZSTD_getErrorName(dr), (unsigned long long)decoded); ok = 0; break; }
                if (isTail && decoded >= ncalls * 6 && dob.pos) {     /* tail: byte compare */
                    U64 q = decoded - ncalls * 6; size_t k = 0;
                    while (k < dob.pos && ok) {
                        U64 const ci = ncalls + q / BCH; size_t const co = (size_t)(q % BCH);
                        size_t const m = (dob.pos - k < BCH - co) ? dob.pos - k : BCH - co;
                        static BYTE* exp = NULL; static U64 expChunk = (U64)-1;
                        if (!exp) exp = (BYTE*)malloc(BCH);
                        if (ci != expChunk) { gen_chunk(exp, ci, 77); expChunk = ci; }
                        if (memcmp(dec + k, exp + co, m) != 0) { printf("E ldmtiny content differs near %llu\n", (unsigned long long)(decoded + k)); ok = 0; }
                        k += m; q += m;
                    }
                }
                decoded += dob.pos;
            }
            if (!ok || (r == 0 && ib.pos == ib.size)) break;
        }
    }
    if (decoded != ncalls * 6 + tail * BCH) ok = 0;
    printf("G api=ldmtiny size=%llu csize=0 rt=%d maxidx=0 nbovf=%u ldmidx=%lld", (unsigned long long)(ncalls * 6 + tail * BCH), ok,
           cctx->blockState.matchState.window.nbOverflowCorrections, (ll)(lw->nextSrc - lw->base));
    state_out(cctx); printf("\n");
    free(out); free(dec); free(big);
}

/* ---------------- finding probe: the per-frame job counters of ZSTDMT are 32 bits wide ------------------------------
 * mtjobwrap start nflush chunk : nbWorkers >= 1 must be in force.  One frame, fed through ZSTD_compressStream2 +
 * ZSTD_e_flush in `chunk`-byte pieces (one job per call).  After the first flush has returned 0 - every job done and
 * flushed, so nextJobID / doneJobID / serial.nextJobID are the only state that records how many jobs the frame has
 * had - the three counters are set to `start` (test device: the state of a frame after `start` flush calls; 2^32 real
 * calls take > 30 h).  A watchdog (SIGALRM) reports a call that never returns. */
#include <signal.h>
#include <unistd.h>
static volatile unsigned mjw_calls; static unsigned mjw_start;
static void mjw_alarm(int sig) {
    char b[256]; int n; (void)sig;
    n = snprintf(b, sizeof(b), "T api=mtjobwrap start=%u flushes=%u hang=1 next=%u done=%u mask=%u rt=0\n", mjw_start, mjw_calls,
                 cctx->mtctx ? cctx->mtctx->nextJobID : 0, cctx->mtctx ? cctx->mtctx->doneJobID : 0, cctx->mtctx ? cctx->mtctx->jobIDMask : 0);
    if (write(1, b, (size_t)n) < 0) _exit(3);
    _exit(0);
}
static void mtjobwrap(unsigned start, int nflush, size_t chunk) {
    size_t const total = (size_t)(nflush + 2) * chunk; size_t dpos = 0; int k, ok = 1;
    if (total > arenaSize) { printf("E mtjobwrap arena too small\n"); return; }
    need_cbuf(total + (size_t)(nflush + 2) * 64);
    apply_params(cctx);
    ZSTD_CCtx_setParameter(cctx, ZSTD_c_checksumFlag, 1);
    mjw_start = start; mjw_calls = 0;
    fflush(stdout);
    signal(SIGALRM, mjw_alarm);
    for (k = 0; k < nflush + 2 && ok; k++) {
        ZSTD_inBuffer in; ZSTD_EndDirective const dir = (k == nflush + 1) ? ZSTD_e_end : ZSTD_e_flush; size_t r;
        in.src = arena + (size_t)k * chunk; in.size = chunk; in.pos = 0;
        alarm(8);
        do {
            ZSTD_outBuffer out; out.dst = cbuf; out.size = cbufCap; out.pos = dpos;
            r = ZSTD_compressStream2(cctx, &out, &in, dir);
            dpos = out.pos;
            if (ZSTD_isError(r)) { printf("E mtjobwrap compress %s\n", ZSTD_getErrorName(r)); ok = 0; break; }
        } while (r != 0 || in.pos < in.size);
        alarm(0);
        if (k == 0 && ok) {
            ZSTDMT_CCtx* const m = cctx->mtctx;
            if (!m || m->nextJobID != m->doneJobID) { printf("E mtjobwrap no idle mtctx\n"); ok = 0; break; }
            printf("X mtjobwrap counters next=%u done=%u serial=%u mask=%u -> %u\n", m->nextJobID, m->doneJobID, m->serial.nextJobID, m->jobIDMask, start);
            fflush(stdout);
            if (start) { m->nextJobID = start; m->doneJobID = start; m->serial.nextJobID = start; }
        } else if (ok && dir == ZSTD_e_flush) mjw_calls++;
    }
    {   int rt = 0;
        printf("T api=mtjobwrap start=%u flushes=%u hang=0 next=%u done=%u mask=%u", start, mjw_calls,
               cctx->mtctx ? cctx->mtctx->nextJobID : 0, cctx->mtctx ? cctx->mtctx->doneJobID : 0, cctx->mtctx ? cctx->mtctx->jobIDMask : 0);
        if (ok) { int const saved = dictMode; dictMode = 0; rt = decode_ok(cbuf, dpos, arena, total); dictMode = saved; }
        printf(" rt=%d\n", rt);
    }
}

/* ---------------- unit-level tie of the serial LDM state of ZSTDMT (finding C15-zstdmt-ldm-prefix-index-wraps, repaired) -----
 * mtldmload dictSize forceWindow srcOff srcSize : ZSTDMT_serialState_reset (real function, LDM on, raw-content prefix of
 * dictSize bytes) followed by the window update ZSTDMT_serialState_update makes for the first job.  The prefix is a sparse
 * zero mapping (never written, so it costs no memory); it ends where the arena begins when possible.  The LDM window after
 * each step and the exactness of its current index are printed for comparison with the model (MtJobs.v). */
#include <sys/mman.h>
static void mtldmload(size_t dictSize, int forceWindow, size_t srcOff, size_t srcSize) {
    ZSTDMT_CCtx* const m = ZSTDMT_createCCtx_advanced(1, cmem, NULL);
    BYTE* const map = (BYTE*)mmap(NULL, dictSize + 4096, PROT_READ, MAP_PRIVATE | MAP_ANONYMOUS | MAP_NORESERVE, -1, 0);
    ZSTD_CCtx_params p; int err;
    if (!m || map == MAP_FAILED) { printf("E mtldmload setup\n"); return; }
    apply_params(cctx);
    p = cctx->requestedParams;
    p.cParams = ZSTD_getCParamsFromCCtxParams(&p, ZSTD_CONTENTSIZE_UNKNOWN, 0, ZSTD_cpm_noAttachDict);
    p.ldmParams.enableLdm = ZSTD_ps_enable;
    p.forceWindow = forceWindow;
    p.customMem = cmem;
    err = ZSTDMT_serialState_reset(&m->serial, m->seqPool, p, (size_t)1 << 20, map, dictSize, ZSTD_dct_rawContent, cmem);
    printf("M api=mtldmload dictsize=%zu dict=%lld fw=%d err=%d", dictSize, AOFF(map), forceWindow, err);
    {   const ZSTD_window_t* const w = &m->serial.ldmState.window; ll const c_ = (ll)(w->nextSrc - w->base);
        w_out("LW", w); printf(" llde=%u exact=%d", m->serial.ldmState.loadedDictEnd, c_ >= 0 && c_ < 4294967296LL);
    }
    /* first job: the statement of ZSTDMT_serialState_update that moves the window */
    ZSTD_window_update(&m->serial.ldmState.window, arena + srcOff, srcSize, /* forceNonContiguous */ 0);
    {   const ZSTD_window_t* const w = &m->serial.ldmState.window; ll const c_ = (ll)(w->nextSrc - w->base);
        printf(" src=%zu,%zu", srcOff, srcSize); w_out("JW", w); printf(" jexact=%d", c_ >= 0 && c_ < 4294967296LL);
    }
    printf(" lit=%lld\n", AOFF(litAddr));
    ZSTDMT_freeCCtx(m);
    munmap(map, dictSize + 4096);
}

int main(int argc, char** argv) {
    char* line = NULL; size_t cap = 0;
    static ll a[2 * MAXCH + 16];
    arenaSize = (size_t)(argc > 1 ? atoll(argv[1]) : 64) << 20;
    arena = (BYTE*)malloc(arenaSize + 64);
    if (!arena) return 2;
    fill_arena(1);
    cctx = ZSTD_createCCtx_advanced(cmem); dctx = ZSTD_createDCtx();
    {   ZSTD_window_t w; ZSTD_window_init(&w); litAddr = w.base; }
    printf("K frequently=%d currentMax=%u arena=%zu\n", (int)ZSTD_WINDOW_OVERFLOW_CORRECT_FREQUENTLY, (unsigned)ZSTD_CURRENT_MAX, arenaSize);
    while (getline(&line, &cap, stdin) > 0) {
        char cmd[32]; int n = 0, used = 0; char* p = line; char* e;
        if (sscanf(p, "%31s%n", cmd, &used) != 1) continue;
        p += used;
        for (;;) { ll v = strtoll(p, &e, 10); if (e == p) break; if (n < 2 * MAXCH + 16) a[n++] = v; p = e; }
        if (!strcmp(cmd, "seed")) { fill_arena((U64)a[0]); printf("S seed=%lld\n", a[0]); }
        else if (!strcmp(cmd, "param")) { if (np < MAXP) { pid[np] = (int)a[0]; pval[np] = (int)a[1]; np++; } }
        else if (!strcmp(cmd, "resetparams")) { np = 0; }
        else if (!strcmp(cmd, "newctx")) { ZSTD_freeCCtx(cctx); cctx = ZSTD_createCCtx_advanced(cmem); printf("N newctx\n"); }
        else if (!strcmp(cmd, "warp")) {
            ZSTD_window_t* const w = &cctx->blockState.matchState.window;
            w->base -= a[0]; w->dictBase -= a[0];
            printf("X warp=%lld", a[0]); w_out("W", w); printf("\n");
        }
        else if (!strcmp(cmd, "warpto")) {   /* make (nextSrc - base) == a[0] */
            ZSTD_window_t* const w = &cctx->blockState.matchState.window;
            ll const d = a[0] - (ll)(w->nextSrc - w->base);
            if (cctx->initialized && d > 0) { w->base -= d; w->dictBase -= d; }   /* only forward in time */
            printf("X warp=%lld", d); w_out("W", w); printf("\n");
        }
        else if (!strcmp(cmd, "prefix")) { dictMode = 1; dictOff = (size_t)a[0]; dictSize = (size_t)a[1]; }
        else if (!strcmp(cmd, "dict")) { dictMode = 2; dictOff = (size_t)a[0]; dictSize = (size_t)a[1]; }
        else if (!strcmp(cmd, "nodict")) { dictMode = 0; ZSTD_CCtx_loadDictionary(cctx, NULL, 0); }
        else if (!strcmp(cmd, "oneshot")) frame_oneshot((size_t)a[0], (size_t)a[1]);
        else if (!strcmp(cmd, "stream")) frame_stream((size_t)a[0], (size_t)a[1], (size_t)a[2], (size_t)a[3], (int)a[4]);
        else if (!strcmp(cmd, "bigstream")) bigstream((U64)a[0], (U64)a[1]);
        else if (!strcmp(cmd, "ldmtiny")) ldmtiny((U64)a[0], (U64)a[1], n > 2 ? a[2] : 0);
        else if (!strcmp(cmd, "mtstream")) mtstream((U64)a[0], (U64)a[1], n > 2 ? a[2] : 0);
        else if (!strcmp(cmd, "mtjobwrap")) mtjobwrap((unsigned)a[0], (int)a[1], (size_t)a[2]);
        else if (!strcmp(cmd, "mtldmload")) mtldmload((size_t)a[0], (int)a[1], (size_t)a[2], (size_t)a[3]);
        else if (!strcmp(cmd, "blockapi")) {   /* mode level dictOff dictSize nch (off size)* */
            frame_blockapi((int)a[0], (int)a[1], (size_t)a[2], (size_t)a[3], (int)a[4], a + 5);
        }
        else if (!strcmp(cmd, "bufferless")) {
            /* wlog clog hlog slog mml tlen strat checksum nch (off size)* */
            ZSTD_compressionParameters cp;
            cp.windowLog = (unsigned)a[0]; cp.chainLog = (unsigned)a[1]; cp.hashLog = (unsigned)a[2]; cp.searchLog = (unsigned)a[3];
            cp.minMatch = (unsigned)a[4]; cp.targetLength = (unsigned)a[5]; cp.strategy = (ZSTD_strategy)a[6];
            frame_bufferless((int)a[8], a + 9, cp, (int)a[7]);
        }
        else printf("E unknown command %s\n", cmd);
        fflush(stdout);
    }
    return 0;
}
