/* C14 correspondence harness (memory budgets).  Linked against libzstd rebuilt from the current tree; this
 * translation unit #includes zstd_compress.c / zstd_decompress.c to reach statics, and interposes logging
 * wrappers on the ZSTD_cwksp_reserve_* entry points (defined after the real inline functions of zstd_cwksp.h
 * and before zstd_compress.c is included, so /repo is not touched).
 * Reads case lines on stdin (numbers in hex), prints one canonical result line per case. */
#define ZSTD_STATIC_LINKING_ONLY
#include "compress/zstd_cwksp.h"
#include <stdio.h>
#include <stdlib.h>
#include <string.h>
#include <signal.h>
#include <setjmp.h>
#include <sys/mman.h>
#include <unistd.h>

/* ---- reservation log ---- */
typedef struct { char kind; size_t bytes; size_t ptr; } zv_res;
#define ZV_LOGMAX 256
static zv_res zv_log[ZV_LOGMAX];
static int zv_nlog = 0, zv_logging = 0;
static void zv_add(char k, size_t b, void* p) {
    if (zv_logging && zv_nlog < ZV_LOGMAX) { zv_log[zv_nlog].kind = k; zv_log[zv_nlog].bytes = b; zv_log[zv_nlog].ptr = (size_t)p; zv_nlog++; }
}
static void* zv_reserve_object(ZSTD_cwksp* ws, size_t b) { void* p = ZSTD_cwksp_reserve_object(ws, b); zv_add('O', b, p); return p; }
static void* zv_reserve_table(ZSTD_cwksp* ws, size_t b) { void* p = ZSTD_cwksp_reserve_table(ws, b); zv_add('T', b, p); return p; }
static void* zv_reserve_aligned64(ZSTD_cwksp* ws, size_t b) { void* p = ZSTD_cwksp_reserve_aligned64(ws, b); zv_add('A', ZSTD_cwksp_align(b, 64), p); return p; }
static void* zv_reserve_aligned_init_once(ZSTD_cwksp* ws, size_t b) { void* p = ZSTD_cwksp_reserve_aligned_init_once(ws, b); zv_add('I', ZSTD_cwksp_align(b, 64), p); return p; }
static BYTE* zv_reserve_buffer(ZSTD_cwksp* ws, size_t b) { BYTE* p = ZSTD_cwksp_reserve_buffer(ws, b); zv_add('B', b, p); return p; }
#define ZSTD_cwksp_reserve_object zv_reserve_object
#define ZSTD_cwksp_reserve_table zv_reserve_table
#define ZSTD_cwksp_reserve_aligned64 zv_reserve_aligned64
#define ZSTD_cwksp_reserve_aligned_init_once zv_reserve_aligned_init_once
#define ZSTD_cwksp_reserve_buffer zv_reserve_buffer
#include "compress/zstd_compress.c"
#undef ZSTD_cwksp_reserve_object
#undef ZSTD_cwksp_reserve_table
#undef ZSTD_cwksp_reserve_aligned64
#undef ZSTD_cwksp_reserve_aligned_init_once
#undef ZSTD_cwksp_reserve_buffer
#include "decompress/zstd_ddict.c"
#include "decompress/zstd_decompress.c"

/* ---- utilities ---- */
typedef unsigned long long u64;
static u64 hx(const char* s) { int neg = (*s == '-'); u64 v = strtoull(s + neg, NULL, 16); return neg ? (u64)(-(long long)v) : v; }
static long long hxs(const char* s) { int neg = (*s == '-'); u64 v = strtoull(s + neg, NULL, 16); return neg ? -(long long)v : (long long)v; }

static sigjmp_buf zv_jmp;
static volatile int zv_armed = 0;
static void zv_segv(int sig, siginfo_t* si, void* ctx) { (void)sig; (void)ctx; (void)si; if (zv_armed) siglongjmp(zv_jmp, 1); _exit(99); }

/* guarded region: [guard page][ usable ... ][guard page]; returns base of usable area (page aligned), *usable = bytes */
static size_t zv_page;
typedef struct { char* map; size_t mapLen; char* lo; char* hi; } zv_region;
static int zv_region_make(zv_region* r, size_t need) {
    size_t const body = (need + 64 + zv_page - 1) / zv_page * zv_page;
    r->mapLen = body + 2 * zv_page;
    r->map = (char*)mmap(NULL, r->mapLen, PROT_READ | PROT_WRITE, MAP_PRIVATE | MAP_ANONYMOUS | MAP_NORESERVE, -1, 0);
    if (r->map == MAP_FAILED) return 0;
    mprotect(r->map, zv_page, PROT_NONE);
    mprotect(r->map + zv_page + body, zv_page, PROT_NONE);
    r->lo = r->map + zv_page; r->hi = r->map + zv_page + body;
    return 1;
}
static void zv_region_free(zv_region* r) { munmap(r->map, r->mapLen); }
/* place a block of [size] bytes: placement 0 = start right after the low guard (start 64-aligned),
 * 1 = end as close as possible to the high guard with start 8-aligned, k>=2 = like 1 but start moved down by 8*(k-1) */
static char* zv_place(zv_region* r, size_t size, unsigned placement) {
    if (placement == 0) return r->lo;
    {   size_t start = ((size_t)r->hi - size) & ~(size_t)7;
        start -= 8 * (size_t)(placement - 1);
        if ((char*)start < r->lo) return r->lo;
        return (char*)start; }
}

static void gen_data(unsigned char* p, size_t n, unsigned seed) {
    /* compressible pseudo-text with some long-range repetition */
    unsigned x = seed * 2654435761u + 12345u; size_t i;
    for (i = 0; i < n; i++) { x = x * 1103515245u + 12345u;
        if (i >= 1024 && ((x >> 20) & 7) < 3) p[i] = p[i - 1 - ((x >> 8) % 1000)];
        else p[i] = (unsigned char)("etaoin shrdlu\n0123"[(x >> 16) % 18]); }
}

static size_t zv_dummyProducer(void* st, ZSTD_Sequence* out, size_t cap, const void* src, size_t srcSize,
                               const void* dict, size_t dictSize, int lvl, size_t win) {
    (void)st; (void)out; (void)cap; (void)src; (void)srcSize; (void)dict; (void)dictSize; (void)lvl; (void)win;
    return ZSTD_SEQUENCE_PRODUCER_ERROR;
}

/* fill a ZSTD_CCtx_params from tokens: lvl cp(7) row ldm(5: en hl bsl mm hr) mbs ext inb outb nbw */
static size_t set_pp(ZSTD_CCtx_params* p, char** a) {
    static const ZSTD_cParameter ids[7] = { ZSTD_c_windowLog, ZSTD_c_chainLog, ZSTD_c_hashLog, ZSTD_c_searchLog, ZSTD_c_minMatch, ZSTD_c_targetLength, ZSTD_c_strategy };
    int i; size_t e;
    ZSTD_CCtxParams_init(p, (int)hxs(a[0]));
    for (i = 0; i < 7; i++) { u64 v = hx(a[1 + i]); if (v) { e = ZSTD_CCtxParams_setParameter(p, ids[i], (int)v); if (ZSTD_isError(e)) return e; } }
    e = ZSTD_CCtxParams_setParameter(p, ZSTD_c_useRowMatchFinder, (int)hx(a[8])); if (ZSTD_isError(e)) return e;
    e = ZSTD_CCtxParams_setParameter(p, ZSTD_c_enableLongDistanceMatching, (int)hx(a[9])); if (ZSTD_isError(e)) return e;
    if (hx(a[10])) { e = ZSTD_CCtxParams_setParameter(p, ZSTD_c_ldmHashLog, (int)hx(a[10])); if (ZSTD_isError(e)) return e; }
    if (hx(a[11])) { e = ZSTD_CCtxParams_setParameter(p, ZSTD_c_ldmBucketSizeLog, (int)hx(a[11])); if (ZSTD_isError(e)) return e; }
    if (hx(a[12])) { e = ZSTD_CCtxParams_setParameter(p, ZSTD_c_ldmMinMatch, (int)hx(a[12])); if (ZSTD_isError(e)) return e; }
    if (hx(a[13])) { e = ZSTD_CCtxParams_setParameter(p, ZSTD_c_ldmHashRateLog, (int)hx(a[13])); if (ZSTD_isError(e)) return e; }
    if (hx(a[14])) { e = ZSTD_CCtxParams_setParameter(p, ZSTD_c_maxBlockSize, (int)hx(a[14])); if (ZSTD_isError(e)) return e; }
    if (hx(a[15])) ZSTD_CCtxParams_registerSequenceProducer(p, NULL, zv_dummyProducer);
    if (hx(a[15])) { e = ZSTD_CCtxParams_setParameter(p, ZSTD_c_enableSeqProducerFallback, 1); if (ZSTD_isError(e)) return e; }
    e = ZSTD_CCtxParams_setParameter(p, ZSTD_c_stableInBuffer, hx(a[16]) ? 0 : 1); if (ZSTD_isError(e)) return e;
    e = ZSTD_CCtxParams_setParameter(p, ZSTD_c_stableOutBuffer, hx(a[17]) ? 0 : 1); if (ZSTD_isError(e)) return e;
    if (hx(a[18])) { e = ZSTD_CCtxParams_setParameter(p, ZSTD_c_nbWorkers, (int)hx(a[18])); if (ZSTD_isError(e)) return e; }
    return 0;
}
static ZSTD_compressionParameters cp_of(char** a) {
    ZSTD_compressionParameters c; c.windowLog = (unsigned)hx(a[0]); c.chainLog = (unsigned)hx(a[1]); c.hashLog = (unsigned)hx(a[2]);
    c.searchLog = (unsigned)hx(a[3]); c.minMatch = (unsigned)hx(a[4]); c.targetLength = (unsigned)hx(a[5]); c.strategy = (ZSTD_strategy)hx(a[6]);
    return c;
}
static void pr_est(size_t v) { if (ZSTD_isError(v)) printf("ERR\n"); else printf("%llx\n", (u64)v); }

static void print_log(void) {
    int i; printf(" log=");
    for (i = 0; i < zv_nlog; i++) { if (i) printf(",");
        if (zv_log[i].ptr == 0) printf("-:%llx", (u64)zv_log[i].bytes); else printf("%llx:%llx", (u64)zv_log[i].ptr, (u64)zv_log[i].bytes); }
}

/* ---- counting allocator ---- */
typedef struct { size_t live, peak, total; size_t nAlloc; size_t lastSize; } zv_count;
static void* zv_cmalloc(void* op, size_t sz) { zv_count* c = (zv_count*)op; size_t* p = (size_t*)malloc(sz + 16); if (!p) return NULL;
    p[0] = sz; c->live += sz; c->total += sz; c->nAlloc++; c->lastSize = sz; if (c->live > c->peak) c->peak = c->live; return (char*)p + 16; }
static void zv_cfree(void* op, void* ptr) { zv_count* c = (zv_count*)op; size_t* p; if (!ptr) return; p = (size_t*)((char*)ptr - 16); c->live -= p[0]; free(p); }

/* ---- static CCtx session ---- */
/* SESS kind placement size pledgedMode srcLen seed | kind=2:(compress2) / S:(compressStream2 continue+end) / L:(compressCCtx with level)
 *   2,S: followed by the 19 pp tokens;  L: followed by lvl */
static void do_session(char** a, int n) {
    char kind = a[1][0]; unsigned placement = (unsigned)hx(a[2]); size_t size = (size_t)hx(a[3]);
    size_t srcLen = (size_t)hx(a[4]); unsigned seed = (unsigned)hx(a[5]);
    zv_region r; char* ws; ZSTD_CCtx* cctx; size_t res = 0; unsigned char* src; unsigned char* dst; size_t dstCap;
    ZSTD_CCtx_params* pp = NULL; int lvl = 0; int wantLog = (n > 0);
    if (!zv_region_make(&r, size)) { printf("SKIP mmap\n"); return; }
    ws = zv_place(&r, size, placement);
    src = (unsigned char*)malloc(srcLen + 1); dstCap = ZSTD_compressBound(srcLen) + 64; dst = (unsigned char*)malloc(dstCap);
    gen_data(src, srcLen, seed);
    if (kind == 'L') lvl = (int)hxs(a[6]);
    else { pp = ZSTD_createCCtxParams(); { size_t e = set_pp(pp, a + 6); if (ZSTD_isError(e)) { printf("BADPARAM %s\n", ZSTD_getErrorName(e)); goto done; } } }
    zv_nlog = 0; zv_logging = wantLog;
    zv_armed = 1;
    if (sigsetjmp(zv_jmp, 1)) { zv_armed = 0; zv_logging = 0; printf("SEGV start=%llx size=%llx\n", (u64)(size_t)ws, (u64)size); goto done; }
    cctx = ZSTD_initStaticCCtx(ws, size);
    if (cctx == NULL) { zv_armed = 0; zv_logging = 0; printf("NULL start=%llx\n", (u64)(size_t)ws); goto done; }
    if (kind == 'L') {
        res = ZSTD_compressCCtx(cctx, dst, dstCap, src, srcLen, lvl);
    } else {
        res = ZSTD_CCtx_setParametersUsingCCtxParams(cctx, pp);
        if (!ZSTD_isError(res)) {
            if (kind == '2') res = ZSTD_compress2(cctx, dst, dstCap, src, srcLen);
            else {
                ZSTD_inBuffer in = { src, srcLen, 0 }; ZSTD_outBuffer out = { dst, dstCap, 0 };
                res = ZSTD_compressStream2(cctx, &out, &in, ZSTD_e_continue);
                if (zv_nlog > 4) zv_logging = 0;   /* the log covers init + the first reset only (a stable-input stream defers its reset) */
                while (!ZSTD_isError(res)) { res = ZSTD_compressStream2(cctx, &out, &in, ZSTD_e_end); zv_logging = 0; if (res == 0) break; if (out.pos == out.size) { res = ERROR(dstSize_tooSmall); break; } }
                if (!ZSTD_isError(res)) res = out.pos;
            }
        }
    }
    zv_armed = 0; zv_logging = 0;
    if (ZSTD_isError(res)) {
        printf("%s start=%llx", ZSTD_getErrorCode(res) == ZSTD_error_memory_allocation ? "MEMERR" : ZSTD_getErrorName(res), (u64)(size_t)ws);
        print_log(); printf("\n");
    } else {
        /* round trip with a heap decoder */
        unsigned char* back = (unsigned char*)malloc(srcLen + 1);
        ZSTD_DCtx* d = ZSTD_createDCtx(); size_t dr;
        ZSTD_DCtx_setParameter(d, ZSTD_d_windowLogMax, 31);
        dr = ZSTD_decompressDCtx(d, back, srcLen, dst, res);
        ZSTD_freeDCtx(d);
        if (ZSTD_isError(dr) || dr != srcLen || memcmp(back, src, srcLen) != 0) printf("BADROUNDTRIP start=%llx\n", (u64)(size_t)ws);
        else { printf("OK start=%llx used=%llx sizeof=%llx", (u64)(size_t)ws, (u64)ZSTD_cwksp_used(&cctx->workspace), (u64)ZSTD_sizeof_CCtx(cctx)); print_log(); printf("\n"); }
        free(back);
    }
done:
    if (pp) ZSTD_freeCCtxParams(pp);
    free(src); free(dst); zv_region_free(&r);
}

/* ---- static CDict: CDICT placement size cp(7) dictSize byRef seed ---- */
static void do_cdict(char** a) {
    unsigned placement = (unsigned)hx(a[1]); size_t size = (size_t)hx(a[2]);
    ZSTD_compressionParameters cp = cp_of(a + 3); size_t dictSize = (size_t)hx(a[10]); int byRef = (int)hx(a[11]); unsigned seed = (unsigned)hx(a[12]);
    zv_region r; char* ws; const ZSTD_CDict* cd; unsigned char* dict = (unsigned char*)malloc(dictSize + 8);
    if (!zv_region_make(&r, size)) { printf("SKIP mmap\n"); free(dict); return; }
    ws = zv_place(&r, size, placement);
    gen_data(dict, dictSize, seed);
    zv_nlog = 0; zv_logging = 1; zv_armed = 1;
    if (sigsetjmp(zv_jmp, 1)) { zv_armed = 0; zv_logging = 0; printf("SEGV start=%llx\n", (u64)(size_t)ws); goto done; }
    cd = ZSTD_initStaticCDict(ws, size, dict, dictSize, byRef ? ZSTD_dlm_byRef : ZSTD_dlm_byCopy, ZSTD_dct_rawContent, cp);
    zv_logging = 0;
    if (cd == NULL) { zv_armed = 0; printf("NULL start=%llx\n", (u64)(size_t)ws); goto done; }
    {   /* use it: compress with a heap cctx, decompress with the raw dictionary */
        size_t const srcLen = 20000; unsigned char* src = (unsigned char*)malloc(srcLen); unsigned char* dst = (unsigned char*)malloc(ZSTD_compressBound(srcLen));
        unsigned char* back = (unsigned char*)malloc(srcLen); ZSTD_CCtx* c = ZSTD_createCCtx(); ZSTD_DCtx* d = ZSTD_createDCtx(); size_t cs, ds;
        gen_data(src, srcLen, seed + 7); if (dictSize >= 64) memcpy(src + 100, dict, dictSize < 3000 ? dictSize : 3000);
        cs = ZSTD_compress_usingCDict(c, dst, ZSTD_compressBound(srcLen), src, srcLen, cd);
        zv_armed = 0;
        if (ZSTD_isError(cs)) printf("USEERR %s start=%llx\n", ZSTD_getErrorName(cs), (u64)(size_t)ws);
        else { ds = ZSTD_decompress_usingDict(d, back, srcLen, dst, cs, dict, dictSize);
            if (ZSTD_isError(ds) || ds != srcLen || memcmp(back, src, srcLen)) printf("BADROUNDTRIP start=%llx\n", (u64)(size_t)ws);
            else { printf("OK start=%llx used=%llx sizeof=%llx", (u64)(size_t)ws, (u64)ZSTD_cwksp_used(&cd->workspace), (u64)ZSTD_sizeof_CDict(cd)); print_log(); printf("\n"); } }
        ZSTD_freeCCtx(c); ZSTD_freeDCtx(d); free(src); free(dst); free(back);
    }
done:
    zv_armed = 0; free(dict); zv_region_free(&r);
}

/* ---- hand-made frames ---- */
/* frame with a window descriptor (non single-segment), optional 2/4/8-byte content size, one raw block of [n] bytes */
static size_t make_frame(unsigned char* out, unsigned wlByte, int withFcs, size_t n, unsigned seed) {
    size_t p = 0; size_t i;
    out[p++] = 0x28; out[p++] = 0xB5; out[p++] = 0x2F; out[p++] = 0xFD;
    if (!withFcs) { out[p++] = 0x00; out[p++] = (unsigned char)wlByte; }
    else { out[p++] = 0x80; out[p++] = (unsigned char)wlByte; out[p++] = (unsigned char)n; out[p++] = (unsigned char)(n >> 8); out[p++] = (unsigned char)(n >> 16); out[p++] = (unsigned char)(n >> 24); }  /* fcs flag 2: 4 bytes */
    {   unsigned bh = (unsigned)((n << 3) | 1);   /* last block, raw */
        out[p++] = (unsigned char)bh; out[p++] = (unsigned char)(bh >> 8); out[p++] = (unsigned char)(bh >> 16); }
    for (i = 0; i < n; i++) out[p++] = (unsigned char)(seed + i * 7);
    return p;
}
/* single-segment frame: content size = n (1-byte or 2-byte form), window = content size */
static size_t make_frame_ss(unsigned char* out, size_t n, unsigned seed) {
    size_t p = 0; size_t i;
    out[p++] = 0x28; out[p++] = 0xB5; out[p++] = 0x2F; out[p++] = 0xFD;
    if (n < 256) { out[p++] = 0x20; out[p++] = (unsigned char)n; }
    else if (n < 65536 + 256) { out[p++] = 0x60; out[p++] = (unsigned char)(n - 256); out[p++] = (unsigned char)((n - 256) >> 8); }
    else { out[p++] = 0xA0; out[p++] = (unsigned char)n; out[p++] = (unsigned char)(n >> 8); out[p++] = (unsigned char)(n >> 16); out[p++] = (unsigned char)(n >> 24); }
    {   unsigned bh = (unsigned)((n << 3) | 1); out[p++] = (unsigned char)bh; out[p++] = (unsigned char)(bh >> 8); out[p++] = (unsigned char)(bh >> 16); }
    for (i = 0; i < n; i++) out[p++] = (unsigned char)(seed + i * 7);
    return p;
}

/* DSTREAM mode staticSize(0=heap) placement maxW maxB buffered  f1 f2 ...   frame token: kind:wl:n
 *   kind u = window descriptor, no content size; k = window descriptor + content size; s = single segment (wl ignored)
 *   mode: W = maxW set with ZSTD_DCtx_setMaxWindowSize, L = ZSTD_d_windowLogMax(log2 maxW), D = default (no call) */
static void do_dstream(char** a, int n) {
    char mode = a[1][0]; size_t staticSize = (size_t)hx(a[2]); unsigned placement = (unsigned)hx(a[3]);
    size_t maxW = (size_t)hx(a[4]); size_t maxB = (size_t)hx(a[5]); int buffered = (int)hx(a[6]);
    zv_count cnt; ZSTD_customMem cm; ZSTD_DCtx* d = NULL; zv_region r; int haveRegion = 0; int i; size_t e;
    unsigned char* frame = (unsigned char*)malloc((1 << 17) + 64); unsigned char* outb = (unsigned char*)malloc((1 << 17) + 64);
    memset(&cnt, 0, sizeof cnt); cm.customAlloc = zv_cmalloc; cm.customFree = zv_cfree; cm.opaque = &cnt;
    if (staticSize) {
        char* ws; if (!zv_region_make(&r, staticSize)) { printf("SKIP mmap\n"); goto done; } haveRegion = 1;
        ws = zv_place(&r, staticSize, placement);
        d = ZSTD_initStaticDCtx(ws, staticSize);
        if (!d) { printf("NULL\n"); goto done; }
    } else d = ZSTD_createDCtx_advanced(cm);
    if (mode == 'W') { e = ZSTD_DCtx_setMaxWindowSize(d, maxW); if (ZSTD_isError(e)) { printf("BADPARAM %s\n", ZSTD_getErrorName(e)); goto done; } }
    else if (mode == 'L') { unsigned lg = 0; while (((size_t)1 << (lg + 1)) <= maxW) lg++; e = ZSTD_DCtx_setParameter(d, ZSTD_d_windowLogMax, (int)lg); if (ZSTD_isError(e)) { printf("BADPARAM %s\n", ZSTD_getErrorName(e)); goto done; } }
    if (maxB) { e = ZSTD_DCtx_setParameter(d, ZSTD_d_maxBlockSize, (int)maxB); if (ZSTD_isError(e)) { printf("BADPARAM %s\n", ZSTD_getErrorName(e)); goto done; } }
    if (!buffered) ZSTD_DCtx_setParameter(d, ZSTD_d_stableOutBuffer, 1);
    for (i = 7; i < n; i++) {
        char k; unsigned wl; u64 len; size_t fl; size_t res = 0; size_t liveBefore = cnt.live, nBefore = cnt.nAlloc;
        ZSTD_inBuffer in; ZSTD_outBuffer out; int bad = 0; size_t produced = 0;
        if (sscanf(a[i], "%c:%x:%llx", &k, &wl, &len) != 3) { printf("BADTOKEN "); continue; }
        fl = (k == 's') ? make_frame_ss(frame, (size_t)len, (unsigned)i) : make_frame(frame, wl, k == 'k', (size_t)len, (unsigned)i);
        /* feed the header first with a tiny output window so that the single-pass shortcut cannot be taken */
        in.src = frame; in.size = fl; in.pos = 0;
        out.dst = outb; out.size = buffered ? ((len > 1) ? 1 : 0) : (size_t)len; out.pos = 0;
        zv_armed = 1;
        if (sigsetjmp(zv_jmp, 1)) { zv_armed = 0; printf("SEGV "); break; }
        res = ZSTD_decompressStream(d, &out, &in);
        if (ZSTD_isError(res)) {
            ZSTD_ErrorCode ec = ZSTD_getErrorCode(res);
            if (ec == ZSTD_error_frameParameter_windowTooLarge) printf("W"); else if (ec == ZSTD_error_memory_allocation) printf("M"); else printf("E%d", (int)ec);
            if (ec == ZSTD_error_frameParameter_windowTooLarge && cnt.nAlloc != nBefore) printf("!alloc-before-reject");
            printf(" ");
            ZSTD_DCtx_reset(d, ZSTD_reset_session_only);
            zv_armed = 0; continue;
        }
        {   size_t const inS = d->inBuffSize, outS = d->outBuffSize;
            size_t const alloc = (cnt.nAlloc != nBefore) ? cnt.lastSize : 0;
            /* finish the frame */
            if (buffered) { out.size = (size_t)len + 8; }
            while (res != 0 && !ZSTD_isError(res)) { size_t ip = in.pos, op = out.pos; res = ZSTD_decompressStream(d, &out, &in); if (in.pos == ip && out.pos == op && res != 0) { bad = 1; break; } }
            produced = out.pos;
            if (ZSTD_isError(res) || bad || produced != (size_t)len) bad = 1;
            else { size_t j; for (j = 0; j < (size_t)len; j++) if (outb[j] != (unsigned char)((unsigned)i + j * 7)) { bad = 1; break; } }
            if (bad) { printf("BADDECODE "); ZSTD_DCtx_reset(d, ZSTD_reset_session_only); zv_armed = 0; continue; }
            printf("K/%llx/%llx/", (u64)inS, (u64)outS);
            if (cnt.nAlloc != nBefore) printf("%llx", (u64)alloc); else printf("-");
            /* reported size never under-reports what is held (heap mode: the context itself + buffers) */
            if (!staticSize && ZSTD_sizeof_DCtx(d) < cnt.live) printf("!sizeof<live");
            (void)liveBefore;
            printf(" ");
        }
        zv_armed = 0;
    }
    printf("live=%llx peak=%llx\n", (u64)cnt.live, (u64)cnt.peak);
done:
    zv_armed = 0;
    if (d && !staticSize) ZSTD_freeDCtx(d);
    if (haveRegion) zv_region_free(&r);
    free(frame); free(outb);
}

/* DRT wlog srcLen seed ochunk ichunk maxWlog : real multi-block frame (level 3, given windowLog) through a heap
 * ZSTD_decompressStream with small chunks; checks the output and the allocation peak */
static void do_drt(char** a) {
    unsigned wlog = (unsigned)hx(a[1]); size_t srcLen = (size_t)hx(a[2]); unsigned seed = (unsigned)hx(a[3]);
    size_t ochunk = (size_t)hx(a[4]), ichunk = (size_t)hx(a[5]); unsigned maxWlog = (unsigned)hx(a[6]);
    unsigned char* src = (unsigned char*)malloc(srcLen + 1); size_t cap = ZSTD_compressBound(srcLen) + 64;
    unsigned char* comp = (unsigned char*)malloc(cap); unsigned char* back = (unsigned char*)malloc(srcLen + ochunk + 1);
    zv_count cnt; ZSTD_customMem cm; ZSTD_DCtx* d; ZSTD_CCtx* c = ZSTD_createCCtx(); size_t cs, ip = 0, op = 0, r = 1; int bad = 0;
    memset(&cnt, 0, sizeof cnt); cm.customAlloc = zv_cmalloc; cm.customFree = zv_cfree; cm.opaque = &cnt;
    gen_data(src, srcLen, seed);
    ZSTD_CCtx_setParameter(c, ZSTD_c_compressionLevel, 3); ZSTD_CCtx_setParameter(c, ZSTD_c_windowLog, (int)wlog);
    ZSTD_CCtx_setParameter(c, ZSTD_c_contentSizeFlag, (int)(seed & 1));
    {   ZSTD_inBuffer in = { src, srcLen, 0 }; ZSTD_outBuffer out = { comp, cap, 0 };   /* streaming: no single-segment frame */
        size_t e = ZSTD_compressStream2(c, &out, &in, ZSTD_e_continue);
        while (!ZSTD_isError(e)) { e = ZSTD_compressStream2(c, &out, &in, ZSTD_e_end); if (e == 0) break; }
        cs = ZSTD_isError(e) ? e : out.pos; }
    ZSTD_freeCCtx(c);
    if (ZSTD_isError(cs)) { printf("COMPRESS-ERR %s\n", ZSTD_getErrorName(cs)); free(src); free(comp); free(back); return; }
    d = ZSTD_createDCtx_advanced(cm);
    ZSTD_DCtx_setParameter(d, ZSTD_d_windowLogMax, (int)maxWlog);
    while (r != 0) {
        ZSTD_inBuffer in; ZSTD_outBuffer out; size_t il = cs - ip < ichunk ? cs - ip : ichunk;
        in.src = comp + ip; in.size = il; in.pos = 0; out.dst = back + op; out.size = ochunk; out.pos = 0;
        if (op + ochunk > srcLen + ochunk) { bad = 1; break; }
        r = ZSTD_decompressStream(d, &out, &in);
        if (ZSTD_isError(r)) break;
        if (in.pos == 0 && out.pos == 0 && il == 0) { bad = 1; break; }
        ip += in.pos; op += out.pos;
        if (op > srcLen) { bad = 1; break; }
    }
    if (ZSTD_isError(r)) printf("%s peak=%llx\n", ZSTD_getErrorCode(r) == ZSTD_error_frameParameter_windowTooLarge ? "W" : ZSTD_getErrorName(r), (u64)cnt.peak);
    else if (bad || op != srcLen || memcmp(back, src, srcLen)) printf("BADDECODE peak=%llx\n", (u64)cnt.peak);
    else printf("OK peak=%llx sizeof=%llx live=%llx\n", (u64)cnt.peak, (u64)ZSTD_sizeof_DCtx(d), (u64)cnt.live);
    ZSTD_freeDCtx(d); free(src); free(comp); free(back);
}

/* DDICT placement size dictSize byRef : static DDict inside guard pages, then used to decode a frame */
static void do_ddict(char** a) {
    unsigned placement = (unsigned)hx(a[1]); size_t size = (size_t)hx(a[2]); size_t dictSize = (size_t)hx(a[3]); int byRef = (int)hx(a[4]);
    zv_region r; char* ws; const ZSTD_DDict* dd; unsigned char* dict = (unsigned char*)malloc(dictSize + 8);
    if (!zv_region_make(&r, size)) { printf("SKIP mmap\n"); free(dict); return; }
    ws = zv_place(&r, size, placement); gen_data(dict, dictSize, 5);
    zv_armed = 1;
    if (sigsetjmp(zv_jmp, 1)) { zv_armed = 0; printf("SEGV\n"); goto done; }
    dd = ZSTD_initStaticDDict(ws, size, dict, dictSize, byRef ? ZSTD_dlm_byRef : ZSTD_dlm_byCopy, ZSTD_dct_rawContent);
    if (!dd) { zv_armed = 0; printf("NULL\n"); goto done; }
    {   size_t const srcLen = 5000; unsigned char* src = (unsigned char*)malloc(srcLen); unsigned char* dst = (unsigned char*)malloc(ZSTD_compressBound(srcLen));
        unsigned char* back = (unsigned char*)malloc(srcLen); ZSTD_CCtx* c = ZSTD_createCCtx(); ZSTD_DCtx* d = ZSTD_createDCtx(); size_t cs, ds;
        gen_data(src, srcLen, 9); if (dictSize >= 64) memcpy(src + 50, dict, dictSize < 2000 ? dictSize : 2000);
        cs = ZSTD_compress_usingDict(c, dst, ZSTD_compressBound(srcLen), src, srcLen, dict, dictSize, 3);
        ds = ZSTD_isError(cs) ? cs : ZSTD_decompress_usingDDict(d, back, srcLen, dst, cs, dd);
        zv_armed = 0;
        if (ZSTD_isError(ds) || ds != srcLen || memcmp(back, src, srcLen)) printf("BADROUNDTRIP\n");
        else printf("OK sizeof=%llx\n", (u64)ZSTD_sizeof_DDict(dd));
        ZSTD_freeCCtx(c); ZSTD_freeDCtx(d); free(src); free(dst); free(back);
    }
done:
    zv_armed = 0; free(dict); zv_region_free(&r);
}

/* HEAP kind srcLen seed pp...: heap context with a counting allocator: sizeof >= live bytes; workspace need fits */
static void do_heap(char** a) {
    size_t srcLen = (size_t)hx(a[2]); unsigned seed = (unsigned)hx(a[3]); char kind = a[1][0];
    zv_count cnt; ZSTD_customMem cm; ZSTD_CCtx* c; ZSTD_CCtx_params* pp = ZSTD_createCCtxParams(); size_t res;
    unsigned char* src = (unsigned char*)malloc(srcLen + 1); size_t dstCap = ZSTD_compressBound(srcLen) + 64; unsigned char* dst = (unsigned char*)malloc(dstCap);
    memset(&cnt, 0, sizeof cnt); cm.customAlloc = zv_cmalloc; cm.customFree = zv_cfree; cm.opaque = &cnt;
    gen_data(src, srcLen, seed);
    res = set_pp(pp, a + 4); if (ZSTD_isError(res)) { printf("BADPARAM %s\n", ZSTD_getErrorName(res)); goto done; }
    c = ZSTD_createCCtx_advanced(cm);
    ZSTD_CCtx_setParametersUsingCCtxParams(c, pp);
    zv_nlog = 0; zv_logging = 1;
    if (kind == '2') res = ZSTD_compress2(c, dst, dstCap, src, srcLen);
    else { ZSTD_inBuffer in = { src, srcLen, 0 }; ZSTD_outBuffer out = { dst, dstCap, 0 };
        res = ZSTD_compressStream2(c, &out, &in, ZSTD_e_continue); zv_logging = 0;
        while (!ZSTD_isError(res)) { res = ZSTD_compressStream2(c, &out, &in, ZSTD_e_end); if (res == 0) break; } }
    zv_logging = 0;
    if (ZSTD_isError(res)) printf("ERR %s\n", ZSTD_getErrorName(res));
    else { int i, nullp = 0; for (i = 0; i < zv_nlog; i++) if (zv_log[i].ptr == 0 && zv_log[i].bytes != 0) nullp++;
        printf("OK live=%llx sizeof=%llx wksp=%llx failed=%d null=%d%s\n", (u64)cnt.live, (u64)ZSTD_sizeof_CCtx(c), (u64)ZSTD_cwksp_sizeof(&c->workspace),
               (int)ZSTD_cwksp_reserve_failed(&c->workspace), nullp, ZSTD_sizeof_CCtx(c) < cnt.live ? " !sizeof<live" : ""); }
    ZSTD_freeCCtx(c);
done:
    ZSTD_freeCCtxParams(pp); free(src); free(dst);
}


/* ---- history on ONE static CCtx: HIST placement size seed  pp(19 tokens)  op op ...
 *   op = L:<lvl>:<srcLen>  ZSTD_compressCCtx at that level
 *        2:<srcLen>        ZSTD_compress2 with the parameter set pp       S:<srcLen>  ZSTD_compressStream2(continue,end) with pp
 *   an op may carry a repetition count  *<n>  (hex).  Output: one token per executed op
 *   K/<cwksp_used>  (compressed and round-tripped) | M (memory_allocation) | E<code> | BADROUNDTRIP ; then the final
 *   bump pointers relative to the block start, ws->workspaceOversizedDuration, and the reservation log of the last op */
static void do_hist(char** a, int n) {
    unsigned placement = (unsigned)hx(a[1]); size_t size = (size_t)hx(a[2]); unsigned seed = (unsigned)hx(a[3]);
    zv_region r; char* ws; ZSTD_CCtx* cctx; ZSTD_CCtx_params* pp = ZSTD_createCCtxParams();
    size_t const maxSrc = 1 << 20; unsigned char* src = (unsigned char*)malloc(maxSrc + 1);
    size_t const dstCap = ZSTD_compressBound(maxSrc) + 64; unsigned char* dst = (unsigned char*)malloc(dstCap);
    unsigned char* back = (unsigned char*)malloc(maxSrc + 1); ZSTD_DCtx* d = ZSTD_createDCtx(); int i; int ppOk;
    if (!zv_region_make(&r, size)) { printf("SKIP mmap\n"); goto done0; }
    ws = zv_place(&r, size, placement);
    ZSTD_DCtx_setParameter(d, ZSTD_d_windowLogMax, 31);
    ppOk = !ZSTD_isError(set_pp(pp, a + 4));
    zv_nlog = 0; zv_logging = 1; zv_armed = 1;
    if (sigsetjmp(zv_jmp, 1)) { zv_armed = 0; zv_logging = 0; printf("SEGV start=%llx\n", (u64)(size_t)ws); goto done; }
    cctx = ZSTD_initStaticCCtx(ws, size);
    if (cctx == NULL) { zv_armed = 0; zv_logging = 0; printf("NULL start=%llx\n", (u64)(size_t)ws); goto done; }
    printf("OK start=%llx ops=", (u64)(size_t)ws);
    for (i = 23; i < n; i++) {
        char k = a[i][0]; long long lvl = 0; u64 len = 0; u64 reps = 1; u64 q; char* t = a[i] + 2; char* star;
        star = strchr(t, '*'); if (star) { *star = 0; reps = hx(star + 1); }
        if (k == 'L') { char* c2 = strchr(t, ':'); if (!c2) { printf("BADTOKEN "); continue; } *c2 = 0; lvl = hxs(t); len = hx(c2 + 1); }
        else len = hx(t);
        if (len > maxSrc) len = maxSrc;
        for (q = 0; q < reps; q++) {
            size_t res;
            gen_data(src, (size_t)len, seed + (unsigned)i + (unsigned)q);
            zv_nlog = 0; zv_logging = 1;
            if (k == 'L') res = ZSTD_compressCCtx(cctx, dst, dstCap, src, (size_t)len, (int)lvl);
            else if (!ppOk) { printf("BADPARAM "); continue; }
            else {
                ZSTD_CCtx_reset(cctx, ZSTD_reset_session_and_parameters);
                res = ZSTD_CCtx_setParametersUsingCCtxParams(cctx, pp);
                if (!ZSTD_isError(res)) {
                    if (k == '2') res = ZSTD_compress2(cctx, dst, dstCap, src, (size_t)len);
                    else { ZSTD_inBuffer in = { src, (size_t)len, 0 }; ZSTD_outBuffer out = { dst, dstCap, 0 };
                        res = ZSTD_compressStream2(cctx, &out, &in, ZSTD_e_continue);
                        if (zv_nlog > 0) zv_logging = 0;
                        while (!ZSTD_isError(res)) { res = ZSTD_compressStream2(cctx, &out, &in, ZSTD_e_end); zv_logging = 0; if (res == 0) break; if (out.pos == out.size) { res = ERROR(dstSize_tooSmall); break; } }
                        if (!ZSTD_isError(res)) res = out.pos; }
                }
            }
            zv_logging = 0;
            if (ZSTD_isError(res)) { if (ZSTD_getErrorCode(res) == ZSTD_error_memory_allocation) printf("M "); else printf("E%d ", (int)ZSTD_getErrorCode(res)); continue; }
            {   size_t const dr = ZSTD_decompressDCtx(d, back, (size_t)len, dst, res);
                if (ZSTD_isError(dr) || dr != (size_t)len || memcmp(back, src, (size_t)len) != 0) printf("BADROUNDTRIP ");
                else printf("K/%llx ", (u64)ZSTD_cwksp_used(&cctx->workspace)); }
        }
    }
    zv_armed = 0;
    {   ZSTD_cwksp* w = &cctx->workspace;
        printf("end=%llx:%llx:%llx dur=%d failed=%d sizeof=%llx", (u64)((char*)w->objectEnd - ws), (u64)((char*)w->tableEnd - ws), (u64)((char*)w->allocStart - ws),
               w->workspaceOversizedDuration, (int)ZSTD_cwksp_reserve_failed(w), (u64)ZSTD_sizeof_CCtx(cctx)); }
    print_log(); printf("\n");
done:
    zv_armed = 0; zv_logging = 0; zv_region_free(&r);
done0:
    ZSTD_freeDCtx(d); ZSTD_freeCCtxParams(pp); free(src); free(dst); free(back);
}

int main(void) {
    static char line[1 << 16]; char* a[4096];
    struct sigaction sa; memset(&sa, 0, sizeof sa); sa.sa_sigaction = zv_segv; sa.sa_flags = SA_SIGINFO | SA_NODEFER; sigemptyset(&sa.sa_mask);
    sigaction(SIGSEGV, &sa, NULL); sigaction(SIGBUS, &sa, NULL);
    zv_page = (size_t)sysconf(_SC_PAGESIZE);
    while (fgets(line, sizeof line, stdin)) {
        int n = 0; char* t = strtok(line, " \t\r\n");
        while (t && n < 4095) { a[n++] = t; t = strtok(NULL, " \t\r\n"); }
        if (n == 0) continue;
        if (!strcmp(a[0], "ECCTX")) pr_est(ZSTD_estimateCCtxSize((int)hxs(a[1])));
        else if (!strcmp(a[0], "ECSTREAM")) pr_est(ZSTD_estimateCStreamSize((int)hxs(a[1])));
        else if (!strcmp(a[0], "ECCTXCP")) pr_est(ZSTD_estimateCCtxSize_usingCParams(cp_of(a + 1)));
        else if (!strcmp(a[0], "ECSTREAMCP")) pr_est(ZSTD_estimateCStreamSize_usingCParams(cp_of(a + 1)));
        else if (!strcmp(a[0], "EPP")) { ZSTD_CCtx_params* p = ZSTD_createCCtxParams(); size_t e = set_pp(p, a + 2);
            if (ZSTD_isError(e)) printf("BADPARAM %s\n", ZSTD_getErrorName(e));
            else pr_est(a[1][0] == 'C' ? ZSTD_estimateCCtxSize_usingCCtxParams(p) : ZSTD_estimateCStreamSize_usingCCtxParams(p));
            ZSTD_freeCCtxParams(p); }
        else if (!strcmp(a[0], "ECDICT")) pr_est(ZSTD_estimateCDictSize((size_t)hx(a[1]), (int)hxs(a[2])));
        else if (!strcmp(a[0], "ECDICTADV")) pr_est(ZSTD_estimateCDictSize_advanced((size_t)hx(a[1]), cp_of(a + 2), hx(a[9]) ? ZSTD_dlm_byRef : ZSTD_dlm_byCopy));
        else if (!strcmp(a[0], "GETCP")) { static const ZSTD_cParamMode_e modes[4] = { ZSTD_cpm_noAttachDict, ZSTD_cpm_attachDict, ZSTD_cpm_createCDict, ZSTD_cpm_unknown };
            ZSTD_compressionParameters c = ZSTD_getCParams_internal((int)hxs(a[1]), hx(a[2]), (size_t)hx(a[3]), modes[hx(a[4]) & 3]);
            printf("%x %x %x %x %x %x %x\n", c.windowLog, c.chainLog, c.hashLog, c.searchLog, c.minMatch, c.targetLength, (unsigned)c.strategy); }
        else if (!strcmp(a[0], "EDSTREAM")) pr_est(ZSTD_estimateDStreamSize((size_t)hx(a[1])));
        else if (!strcmp(a[0], "EDDICT")) pr_est(ZSTD_estimateDDictSize((size_t)hx(a[1]), hx(a[2]) ? ZSTD_dlm_byRef : ZSTD_dlm_byCopy));
        else if (!strcmp(a[0], "DBUF")) pr_est(ZSTD_decodingBufferSize_internal(hx(a[1]), hx(a[2]), (size_t)hx(a[3])));
        else if (!strcmp(a[0], "FWIN")) { /* FWIN ss wlByte fcs : window size of a hand-made header */
            unsigned char f[32]; size_t fl; ZSTD_frameHeader zfh; size_t r;
            f[0] = 0x28; f[1] = 0xB5; f[2] = 0x2F; f[3] = 0xFD;
            if (hx(a[1])) { u64 v = hx(a[3]); int k; f[4] = 0xE0; for (k = 0; k < 8; k++) f[5 + k] = (unsigned char)(v >> (8 * k)); fl = 13; }
            else { f[4] = 0x00; f[5] = (unsigned char)hx(a[2]); fl = 6; }
            r = ZSTD_getFrameHeader(&zfh, f, fl);
            if (ZSTD_isError(r)) printf("ERR\n"); else printf("%llx\n", (u64)zfh.windowSize); }
        else if (!strcmp(a[0], "SESS")) do_session(a, n);
        else if (!strcmp(a[0], "CDICT")) do_cdict(a);
        else if (!strcmp(a[0], "DSTREAM")) do_dstream(a, n);
        else if (!strcmp(a[0], "DDICT")) do_ddict(a);
        else if (!strcmp(a[0], "DRT")) do_drt(a);
        else if (!strcmp(a[0], "HEAP")) do_heap(a);
        else if (!strcmp(a[0], "HIST")) do_hist(a, n);
        else if (!strcmp(a[0], "SIZES")) printf("%llx %llx %llx %llx\n", (u64)sizeof(ZSTD_CCtx), (u64)sizeof(ZSTD_DCtx), (u64)sizeof(ZSTD_CDict), (u64)sizeof(ZSTD_DDict));
        else printf("UNKNOWN-CASE %s\n", a[0]);
        fflush(stdout);
    }
    return 0;
}
