/* C19 — the library's verdict on a file (independent of programs/).
 *
 *   c19_lib classify <file> <outprefix> [<dictionary file>]
 *       Walks the file frame by frame with ZSTD_decompressStream (window limit = the
 *       library default = the CLI default).  One line per item:
 *          K <consumed> <produced>      frame decodes; payload written to <outprefix>.<k>
 *          B <consumed> <produced>      frame fails (error or truncated); partial payload in <outprefix>.<k>
 *          J <remaining>                not a frame start (fewer than 4 bytes, or unknown magic)
 *       then  ONESHOT ok <n> | ONESHOT err <name>   (ZSTD_decompress on the whole file)
 *   c19_lib compress <in> <out> <level> <checksum 0|1>
 */
#define ZSTD_STATIC_LINKING_ONLY
#include <stdio.h>
#include <stdlib.h>
#include <string.h>
#include "zstd.h"
#include "zstd_errors.h"

static void* slurp(const char* fn, size_t* sz)
{
    FILE* f = fopen(fn, "rb");
    void* b;
    long n;
    if (!f) { perror(fn); exit(2); }
    fseek(f, 0, SEEK_END); n = ftell(f); fseek(f, 0, SEEK_SET);
    b = malloc((size_t)n + 1);
    if (fread(b, 1, (size_t)n, f) != (size_t)n) { perror("read"); exit(2); }
    fclose(f);
    *sz = (size_t)n;
    return b;
}

static void spill(const char* prefix, int k, const void* p, size_t n)
{
    char fn[1024];
    FILE* f;
    snprintf(fn, sizeof(fn), "%s.%d", prefix, k);
    f = fopen(fn, "wb");
    if (!f) { perror(fn); exit(2); }
    if (n && fwrite(p, 1, n, f) != n) { perror("write"); exit(2); }
    fclose(f);
}

static int classify(const char* fn, const char* prefix, const char* dictfn)
{
    size_t size;
    size_t dictSize = 0;
    const void* dict = dictfn ? slurp(dictfn, &dictSize) : NULL;
    const unsigned char* src = (const unsigned char*)slurp(fn, &size);
    size_t pos = 0;
    int k = 0;
    ZSTD_DCtx* dctx = ZSTD_createDCtx();
    size_t const obSize = ZSTD_DStreamOutSize();
    char* ob = (char*)malloc(obSize);
    size_t cap = 1 << 20, used;
    char* acc = (char*)malloc(cap);

    while (pos < size) {
        size_t const remaining = size - pos;
        if (remaining < 4 || !ZSTD_isFrame(src + pos, remaining)) {
            printf("J %zu\n", remaining);
            break;
        }
        {   ZSTD_inBuffer in = { src + pos, remaining, 0 };
            int bad = 0, done = 0;
            used = 0;
            ZSTD_DCtx_reset(dctx, ZSTD_reset_session_only);
            if (dict) ZSTD_DCtx_loadDictionary(dctx, dict, dictSize);
            while (!done) {
                ZSTD_outBuffer out = { ob, obSize, 0 };
                size_t const r = ZSTD_decompressStream(dctx, &out, &in);
                if (ZSTD_isError(r)) { bad = 1; break; }
                if (used + out.pos > cap) { while (used + out.pos > cap) cap *= 2; acc = (char*)realloc(acc, cap); }
                memcpy(acc + used, ob, out.pos);
                used += out.pos;
                if (r == 0) { done = 1; break; }
                if (in.pos == in.size && out.pos < out.size) { bad = 1; break; }   /* truncated */
            }
            spill(prefix, k, acc, used);
            printf("%c %zu %zu\n", bad ? 'B' : 'K', in.pos, used);
            k++;
            if (bad) break;
            pos += in.pos;
        }
    }
    {   unsigned long long const bound = ZSTD_decompressBound(src, size);
        if (bound == ZSTD_CONTENTSIZE_ERROR) {
            printf("ONESHOT err bound\n");
        } else if (bound > (1ULL << 31)) {
            printf("ONESHOT err too-large-for-harness\n");
        } else {
            void* dst = malloc((size_t)bound + 1);
            ZSTD_DCtx* const d1 = ZSTD_createDCtx();
            size_t const r = dict ? ZSTD_decompress_usingDict(d1, dst, (size_t)bound, src, size, dict, dictSize)
                                  : ZSTD_decompress(dst, (size_t)bound, src, size);
            ZSTD_freeDCtx(d1);
            if (ZSTD_isError(r)) printf("ONESHOT err %s\n", ZSTD_getErrorName(r));
            else { printf("ONESHOT ok %zu\n", r); spill(prefix, 9999, dst, r); }
            free(dst);
        }
    }
    return 0;
}

static int compress(const char* in, const char* outfn, int level, int checksum)
{
    size_t size;
    void* src = slurp(in, &size);
    size_t const cap = ZSTD_compressBound(size);
    void* dst = malloc(cap + 1);
    ZSTD_CCtx* c = ZSTD_createCCtx();
    size_t r;
    FILE* f;
    ZSTD_CCtx_setParameter(c, ZSTD_c_compressionLevel, level);
    ZSTD_CCtx_setParameter(c, ZSTD_c_checksumFlag, checksum);
    r = ZSTD_compress2(c, dst, cap, src, size);
    if (ZSTD_isError(r)) { fprintf(stderr, "compress: %s\n", ZSTD_getErrorName(r)); return 1; }
    f = fopen(outfn, "wb");
    if (!f) { perror(outfn); return 2; }
    fwrite(dst, 1, r, f);
    fclose(f);
    return 0;
}

int main(int argc, char** argv)
{
    if (argc == 4 && !strcmp(argv[1], "classify")) return classify(argv[2], argv[3], NULL);
    if (argc == 5 && !strcmp(argv[1], "classify")) return classify(argv[2], argv[3], argv[4]);
    if (argc == 6 && !strcmp(argv[1], "compress")) return compress(argv[2], argv[3], atoi(argv[4]), atoi(argv[5]));
    fprintf(stderr, "usage\n");
    return 2;
}
