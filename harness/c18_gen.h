/* C18: deterministic sample / content generators shared by the correspondence harness (c18_tie) and the
 * direct oracle (c18_oracle), and small parsing helpers.  No zstd code is used here. */
#ifndef C18_GEN_H
#define C18_GEN_H
#include <stddef.h>
#include <stdint.h>
#include <stdlib.h>
#include <string.h>
#include <stdio.h>

static uint64_t c18_rng(uint64_t* s) {          /* splitmix64 */
    uint64_t z = (*s += 0x9E3779B97F4A7C15ULL);
    z = (z ^ (z >> 30)) * 0xBF58476D1CE4E5B9ULL;
    z = (z ^ (z >> 27)) * 0x94D049BB133111EBULL;
    return z ^ (z >> 31);
}

static const char* const c18_words[] = {
    "the", "quick", "brown", "fox", "jumps", "over", "lazy", "dog", "zstd", "dictionary", "sample", "training",
    "\"user_id\":", "\"name\":", "\"timestamp\":", "{", "}", ",", "http://example.com/", "GET", "POST", "200", "404",
    "content-type: application/json", "\r\n", "error", "warning", "info", "value=", "key=", "0123456789", "abcdef" };
#define C18_NWORDS (sizeof(c18_words) / sizeof(c18_words[0]))

/* fill dst[0..size) : kind 0 random bytes, 1 two-symbol alphabet, 2 the same pseudo-text for every index (all-identical
 * samples), 3 pseudo-text from a small vocabulary, 4 zeros, 5 records with a counter, 6 one repeated byte per sample,
 * 7 the legacy trainer's own guard-band byte sequence (period 32), 8 zeros with every tenth sample random */
static void c18_fill(unsigned char* dst, size_t size, int kind, uint64_t seed, unsigned index) {
    uint64_t s = seed * 0x100000001B3ULL + (kind == 2 ? 0 : (uint64_t)index * 7919u) + 12345;
    size_t i = 0;
    switch (kind) {
    case 0: for (i = 0; i < size; i++) dst[i] = (unsigned char)c18_rng(&s); break;
    case 1: for (i = 0; i < size; i++) dst[i] = (c18_rng(&s) & 1) ? 'a' : 'b'; break;
    case 4: memset(dst, 0, size); break;
    case 6: memset(dst, (int)(c18_rng(&s) & 0xff), size); break;
    case 8:    /* zeros, except the samples whose index is 3 mod 10: pseudo-random bytes (content concentrated in one epoch) */
        if (index % 10 == 3) { for (i = 0; i < size; i++) dst[i] = (unsigned char)c18_rng(&s); } else memset(dst, 0, size);
        break;
    case 7: {  /* the fixed 32-byte guard-band sequence of the legacy trainer (ZDICT_fillNoise), repeated from phase 0 */
        unsigned acc = 2654435761U;
        for (i = 0; i < size; i++) { if ((i & 31) == 0) acc = 2654435761U; acc *= 2246822519U; dst[i] = (unsigned char)(acc >> 21); }
        break; }
    case 5:
        while (i < size) {
            char rec[96];
            int n = snprintf(rec, sizeof rec, "{\"id\":%u,\"seq\":%u,\"tag\":\"%s\"}\n", index, (unsigned)(i / 7),
                             c18_words[c18_rng(&s) % C18_NWORDS]);
            size_t m = (size_t)n < size - i ? (size_t)n : size - i;
            memcpy(dst + i, rec, m); i += m;
        }
        break;
    default:   /* 2, 3 */
        while (i < size) {
            const char* w = c18_words[c18_rng(&s) % C18_NWORDS];
            size_t n = strlen(w), m = n < size - i ? n : size - i;
            memcpy(dst + i, w, m); i += m;
            if (i < size) dst[i++] = ' ';
        }
        break;
    }
}

typedef struct {
    unsigned nb;
    size_t* sizes;
    unsigned char* buf;     /* concatenated samples (malloc'ed exactly total bytes, +0 slack so ASan sees the true end) */
    size_t total;
} c18_samples;

/* parse "<nb> <kind> <seed> s1 ... snb" from argv-like tokens; returns number of tokens consumed or -1 */
static int c18_parse_samples(char** tok, int ntok, c18_samples* out) {
    unsigned i; int kind; uint64_t seed; size_t pos = 0;
    if (ntok < 3) return -1;
    out->nb = (unsigned)strtoul(tok[0], NULL, 10);
    kind = atoi(tok[1]);
    seed = strtoull(tok[2], NULL, 10);
    if ((int)out->nb + 3 > ntok) return -1;
    out->sizes = (size_t*)malloc((out->nb + 1) * sizeof(size_t));
    out->total = 0;
    for (i = 0; i < out->nb; i++) { out->sizes[i] = (size_t)strtoull(tok[3 + i], NULL, 10); out->total += out->sizes[i]; }
    out->buf = (unsigned char*)malloc(out->total ? out->total : 1);
    for (i = 0; i < out->nb; i++) { c18_fill(out->buf + pos, out->sizes[i], kind, seed, i); pos += out->sizes[i]; }
    return 3 + (int)out->nb;
}

static void c18_free_samples(c18_samples* s) { free(s->sizes); free(s->buf); s->sizes = NULL; s->buf = NULL; }

static uint64_t c18_fnv(const void* p, size_t n) {
    const unsigned char* b = (const unsigned char*)p; uint64_t h = 0xcbf29ce484222325ULL; size_t i;
    for (i = 0; i < n; i++) { h ^= b[i]; h *= 0x100000001b3ULL; }
    return h;
}

static void c18_print_hex(const void* p, size_t n) {
    const unsigned char* b = (const unsigned char*)p; size_t i;
    if (n == 0) { printf("-"); return; }
    for (i = 0; i < n; i++) printf("%02x", b[i]);
}

/* split a line into tokens (in place) */
static int c18_split(char* line, char** tok, int max) {
    int n = 0; char* p = line;
    while (*p && n < max) {
        while (*p == ' ' || *p == '\t' || *p == '\n' || *p == '\r') p++;
        if (!*p) break;
        tok[n++] = p;
        while (*p && *p != ' ' && *p != '\t' && *p != '\n' && *p != '\r') p++;
        if (*p) *p++ = 0;
    }
    return n;
}
#endif
