/* libFuzzer target of the bounded fuzzing phase of ./check C03 --tier thorough (round 3; written for the round-2 campaign): modern frames: one-shot + streaming with parameter extremes, inspectors, skippable reader */
/* libFuzzer target: modern frames, streaming + one-shot with parameter extremes */
#define ZSTD_STATIC_LINKING_ONLY
#include "zstd.h"
#include "zstd_errors.h"
#include <stdlib.h>
#include <string.h>
#include <stdint.h>
#if defined(__has_feature)
#  if __has_feature(memory_sanitizer)
#    include <sanitizer/msan_interface.h>
#    define CHECK_INIT(p, n) __msan_check_mem_is_initialized((p), (n))
#  endif
#endif
#ifndef CHECK_INIT
#  define CHECK_INIT(p, n) ((void)0)
#endif

int LLVMFuzzerTestOneInput(const uint8_t* data, size_t size) {
    if (size < 4) return 0;
    unsigned sel = data[0], s1 = data[1], s2 = data[2], s3 = data[3]; data += 4; size -= 4;
    static const size_t caps[8] = { 0, 5, 100, 1000, 4096, 70000, 140000, 600000 };
    size_t cap = caps[sel % 8]; size_t fn = size;
    unsigned char* f = (unsigned char*)malloc(fn ? fn : 1); memcpy(f, data, fn);
    unsigned char* out = cap ? (unsigned char*)malloc(cap) : NULL;
    ZSTD_DCtx* dc = ZSTD_createDCtx();
    if (sel & 8) ZSTD_DCtx_setParameter(dc, ZSTD_d_format, ZSTD_f_zstd1_magicless);
    if (sel & 16) ZSTD_DCtx_setParameter(dc, ZSTD_d_disableHuffmanAssembly, 1);
    if (sel & 32) ZSTD_DCtx_setParameter(dc, ZSTD_d_maxBlockSize, (s1 & 1) ? 1024 : (1024 << (s1 % 8)));
    if (sel & 64) ZSTD_DCtx_setParameter(dc, ZSTD_d_stableOutBuffer, 1);
    if (sel & 128) ZSTD_DCtx_setParameter(dc, ZSTD_d_forceIgnoreChecksum, 1);
    ZSTD_DCtx_setParameter(dc, ZSTD_d_windowLogMax, 10 + (s2 % 16));
    { size_t r = ZSTD_decompressDCtx(dc, out, cap, f, fn); if (!ZSTD_isError(r) && r > cap) abort(); if (!ZSTD_isError(r)) CHECK_INIT(out, r); }
    { size_t ipos = 0, opos = 0; unsigned guard = 0; unsigned rs = s3 * 2654435761u + 12345; int stalls = 0; int stable = (sel & 64) != 0;
      while (guard++ < 200000) {
        rs = rs * 1103515245u + 12345u;
        size_t il = fn - ipos, ol = cap - opos;
        if (s3 & 1) { size_t a = 1 + (rs >> 8) % 37; if (il > a) il = a; if (!stable) { size_t b = 1 + (rs >> 16) % 300; if (ol > b) ol = b; } }
        unsigned char* isub = (unsigned char*)malloc(il ? il : 1); memcpy(isub, f + ipos, il);
        ZSTD_inBuffer ib = { isub, il, 0 }; ZSTD_outBuffer ob; size_t r;
        if (stable) { ob.dst = out; ob.size = cap; ob.pos = opos; r = ZSTD_decompressStream(dc, &ob, &ib); if (ob.pos > cap || ib.pos > il) abort(); free(isub); if (ZSTD_isError(r)) break;
            if (ib.pos == 0 && ob.pos == opos) { if (++stalls > 40) abort(); if (stalls > 20) break; } else stalls = 0; ipos += ib.pos; opos = ob.pos; }
        else { unsigned char* osub = ol ? (unsigned char*)malloc(ol) : NULL; ob.dst = osub; ob.size = ol; ob.pos = 0; r = ZSTD_decompressStream(dc, &ob, &ib); if (ob.pos > ol || ib.pos > il) abort(); if (!ZSTD_isError(r)) CHECK_INIT(osub, ob.pos); free(isub); free(osub); if (ZSTD_isError(r)) break;
            if (ib.pos == 0 && ob.pos == 0) { if (++stalls > 40) abort(); if (stalls > 20) break; } else stalls = 0; ipos += ib.pos; opos += ob.pos; }
        if (r == 0 && ipos == fn) break;
      }
      if (guard >= 200000) abort(); }
    /* inspectors incl. skippable reader with tiny capacities */
    { volatile unsigned long long a = ZSTD_getFrameContentSize(f, fn); (void)a;
      volatile unsigned long long b = ZSTD_decompressBound(f, fn); (void)b;
      size_t cs = ZSTD_findFrameCompressedSize(f, fn); if (!ZSTD_isError(cs) && cs > fn) abort();
      volatile unsigned long long ds = ZSTD_findDecompressedSize(f, fn); (void)ds;
      volatile size_t mg = ZSTD_decompressionMargin(f, fn); (void)mg;
      ZSTD_frameHeader h; volatile size_t hr = ZSTD_getFrameHeader_advanced(&h, f, fn, (sel & 8) ? ZSTD_f_zstd1_magicless : ZSTD_f_zstd1); (void)hr;
      if (ZSTD_isSkippableFrame(f, fn)) { unsigned mv; size_t c2 = s1 % 16; unsigned char* sk = (unsigned char*)malloc(c2 ? c2 : 1); size_t sr = ZSTD_readSkippableFrame(sk, c2, (s1 & 16) ? &mv : NULL, f, fn); if (!ZSTD_isError(sr) && sr > c2) abort(); free(sk); } }
    ZSTD_freeDCtx(dc); free(f); free(out);
    return 0;
}
