/* c08_unit: unit-level tie of the round-3 / round-2 mechanism models of C08 with the static functions they mirror
 * (the translation units are included, the archive is linked without them).  One command per line:
 *   N <id> <dictMaxSym> <maxSym> <c0,c1,...>          ZSTD_dictNCountRepeat                       -> <id> OK <mode>
 *   E <id> <dicthex> <contentSize|-1>                 ZSTD_loadCEntropy on the dictionary (content replaced by <contentSize> synthetic bytes,
 *                                                     repeat offsets then set to 1, when >= 0)
 *                                                     -> <id> OK <content> <ofMode> <mlMode> <llMode> <ofMax>:<counts> <mlMax>:<counts> <llMax>:<counts>
 *                                                     -> <id> ERR
 *   S <id> <strategy> <kind 0=OF 1=ML 2=LL> <mode 0..2> <tableLog> <t0,t1,...> <s:count,...>
 *                                                     ZSTD_selectEncodingType with a previous table built from the normalized counters
 *                                                     -> <id> OK <type> <newMode> <defaultAllowed> <nbSeq> <mostFrequent> <basic|E> <tbl|E> <comp>
 *   A <id> <strategy> <contentSize> <r1,r2,r3> <attachPref>
 *                                                     formatted dictionary of that content size: CDict (ZSTD_createCDict_advanced), then
 *                                                     ZSTD_shouldAttachDict, ZSTD_compressBegin_usingCDict, the index the attached-dictionary
 *                                                     compressors compute for the first repeat offset at the first position
 *                                                     -> <id> OK <tagged> <retained> <shouldAttach> <attached> <prefixStart> <rep1..3 in the context> <repIndex1>
 *   W <id> <mode 0=ZSTD_compressBlock 1=ZSTD_compressContinue> <strategy> <windowLog> <dictContentSize> <bytes compressed on the context before> <off:len,...>
 *                                                     raw-content CDict, ZSTD_compressBegin_usingCDict (attached), then one call per segment placed at arena+off :
 *                                                     -> <id> OK <blockSize> <maxDist> <state> <state>...   state = base:dictBase:dictLimit:lowLimit:nextSrc:loadedDictEnd:attached:ZSTD_getLowestMatchIndex(at the end index)
 *                                                     (addresses relative to the arena), first state = right after the begin call
 * modes: 0 = FSE_repeat_none, 1 = FSE_repeat_check, 2 = FSE_repeat_valid ; types: 0 basic 1 rle 2 compressed 3 repeat (symbolEncodingType_e) */
#define ZSTD_STATIC_LINKING_ONLY
#define ZDICT_STATIC_LINKING_ONLY
#include "compress/zstd_compress_sequences.c"
#include "compress/zstd_compress.c"
#include "zdict.h"
#include <stdio.h>
#include <stdlib.h>
#include <string.h>

static unsigned char* unhex(const char* s, size_t* n) {
    size_t l = strlen(s) / 2, i; unsigned char* b = (unsigned char*)malloc(l + 1);
    if (!strcmp(s, "-")) { *n = 0; return b; }
    for (i = 0; i < l; i++) { unsigned v; sscanf(s + 2 * i, "%2x", &v); b[i] = (unsigned char)v; }
    *n = l; return b;
}
static int ints(char* s, long* out, int cap) { int n = 0; char* p = strtok(s, ","); while (p && n < cap) { out[n++] = atol(p); p = strtok(NULL, ","); } return n; }

static void fill(unsigned char* p, size_t n) { size_t i; unsigned x = 12345; for (i = 0; i < n; i++) { x = x * 1103515245u + 12345u; p[i] = (unsigned char)("abcdefgh ijklmnop"[(x >> 16) % 17]); } }

static unsigned char HDR[4096]; static size_t HDRN;
static void make_hdr(void) {
    static unsigned char tmp[1 << 16], content[8192], samples[100000]; size_t sizes[20]; int i; ZDICT_params_t zp; size_t r;
    fill(content, sizeof content); fill(samples, sizeof samples);
    for (i = 0; i < 20; i++) sizes[i] = 5000;
    memset(&zp, 0, sizeof zp); zp.dictID = 4242;
    r = ZDICT_finalizeDictionary(tmp, sizeof tmp, content, sizeof content, samples, sizes, 20, zp);
    if (ZDICT_isError(r)) { fprintf(stderr, "finalize failed\n"); exit(2); }
    HDRN = r - sizeof content; memcpy(HDR, tmp, HDRN);
}

int main(void) {
    static char line[1 << 24]; static U64 wksp[HUF_WORKSPACE_SIZE_U64 * 4];
    make_hdr();
    while (fgets(line, sizeof line, stdin)) {
        char* cmd = strtok(line, " \n"); char* id = strtok(NULL, " \n");
        if (!cmd || !id) continue;
        if (cmd[0] == 'N') {
            unsigned dms = (unsigned)atoi(strtok(NULL, " \n")), ms = (unsigned)atoi(strtok(NULL, " \n")); long v[64]; short nc[64]; int n, i;
            memset(nc, 0, sizeof nc); n = ints(strtok(NULL, " \n"), v, 64); for (i = 0; i < n; i++) nc[i] = (short)v[i];
            printf("%s OK %d\n", id, (int)ZSTD_dictNCountRepeat(nc, dms, ms));
        } else if (cmd[0] == 'E') {
            size_t dn; unsigned char* d = unhex(strtok(NULL, " \n"), &dn); long cs = atol(strtok(NULL, " \n"));
            ZSTD_compressedBlockState_t* bs = (ZSTD_compressedBlockState_t*)calloc(1, sizeof *bs);
            short of[MaxOff + 1], ml[MaxML + 1], ll[MaxLL + 1]; unsigned ofm = MaxOff, mlm = MaxML, llm = MaxLL, lg, hm = 255, hz = 1; size_t e; int bad = 0; const BYTE* p = d + 8; const BYTE* end = d + dn; int i;
            HUF_CElt* ct = (HUF_CElt*)calloc(1, sizeof(bs->entropy.huf.CTable));
            memset(of, 0, sizeof of); memset(ml, 0, sizeof ml); memset(ll, 0, sizeof ll);
            if (dn < 8) bad = 1;
            if (!bad) { e = HUF_readCTable(ct, &hm, p, (size_t)(end - p), &hz); if (HUF_isError(e)) bad = 1; else p += e; }
            if (!bad) { e = FSE_readNCount(of, &ofm, &lg, p, (size_t)(end - p)); if (FSE_isError(e)) bad = 1; else p += e; }
            if (!bad) { e = FSE_readNCount(ml, &mlm, &lg, p, (size_t)(end - p)); if (FSE_isError(e)) bad = 1; else p += e; }
            if (!bad) { e = FSE_readNCount(ll, &llm, &lg, p, (size_t)(end - p)); if (FSE_isError(e)) bad = 1; else p += e; }
            if (!bad && p + 12 > end) bad = 1;
            if (bad) { printf("%s ERR\n", id); }
            else { size_t hl = (size_t)(p + 12 - d); unsigned char* d2 = d; size_t dn2 = dn;
                if (cs >= 0) { dn2 = hl + (size_t)cs; d2 = (unsigned char*)malloc(dn2 + 1); memcpy(d2, d, hl); fill(d2 + hl, (size_t)cs); for (i = 0; i < 3; i++) MEM_writeLE32(d2 + hl - 12 + 4 * i, 1); }
                e = ZSTD_loadCEntropy(bs, wksp, d2, dn2);
                if (ZSTD_isError(e)) printf("%s ERR\n", id);
                else { printf("%s OK %lu %d %d %d %u:", id, (unsigned long)(dn2 - e), (int)bs->entropy.fse.offcode_repeatMode, (int)bs->entropy.fse.matchlength_repeatMode, (int)bs->entropy.fse.litlength_repeatMode, ofm);
                    for (i = 0; i <= (int)ofm; i++) printf("%s%d", i ? "," : "", of[i]); printf(" %u:", mlm);
                    for (i = 0; i <= (int)mlm; i++) printf("%s%d", i ? "," : "", ml[i]); printf(" %u:", llm);
                    for (i = 0; i <= (int)llm; i++) printf("%s%d", i ? "," : "", ll[i]); printf("\n"); }
                if (d2 != d) free(d2); }
            free(d); free(bs); free(ct);
        } else if (cmd[0] == 'S') {
            int strat = atoi(strtok(NULL, " \n")), kind = atoi(strtok(NULL, " \n")), mode = atoi(strtok(NULL, " \n")); unsigned tl = (unsigned)atoi(strtok(NULL, " \n"));
            char* ts = strtok(NULL, " \n"); char* hs = strtok(NULL, " \n"); long v[64]; short nc[64]; unsigned count[64]; int n, i; unsigned max = 0; size_t nbSeq = 0, most = 0;
            static FSE_CTable ctable[FSE_CTABLE_SIZE_U32(9, 52) + 8]; FSE_repeat rm = (FSE_repeat)mode; size_t basic, tbl, comp; int t;
            const short* dn = kind == 0 ? OF_defaultNorm : kind == 1 ? ML_defaultNorm : LL_defaultNorm; U32 dnl = kind == 0 ? OF_defaultNormLog : kind == 1 ? ML_defaultNormLog : LL_defaultNormLog;
            unsigned FSELog = kind == 0 ? OffFSELog : kind == 1 ? MLFSELog : LLFSELog; unsigned kmax = kind == 0 ? MaxOff : kind == 1 ? MaxML : MaxLL; int da;
            memset(nc, 0, sizeof nc); memset(count, 0, sizeof count);
            n = ints(ts, v, 64); for (i = 0; i < n; i++) nc[i] = (short)v[i];
            if (FSE_isError(FSE_buildCTable_wksp(ctable, nc, (unsigned)n - 1, tl, wksp, sizeof wksp))) { printf("%s ERR buildCTable\n", id); continue; }
            {   char* q = strtok(hs, ","); while (q) { unsigned s, c; if (sscanf(q, "%u:%u", &s, &c) == 2 && s <= kmax) { count[s] = c; nbSeq += c; if (s > max) max = s; if (c > most) most = c; } q = strtok(NULL, ","); } }
            da = kind == 0 ? (max <= DefaultMaxOff) : 1;
            basic = da ? ZSTD_crossEntropyCost(dn, dnl, count, max) : ERROR(GENERIC);
            tbl = ZSTD_fseBitCost(ctable, count, max);
            comp = (ZSTD_NCountCost(count, max, nbSeq, FSELog) << 3) + ZSTD_entropyCost(count, max, nbSeq);
            t = (int)ZSTD_selectEncodingType(&rm, count, max, most, nbSeq, FSELog, ctable, dn, dnl, da ? ZSTD_defaultAllowed : ZSTD_defaultDisallowed, (ZSTD_strategy)strat);
            printf("%s OK %d %d %d %lu %lu ", id, t, (int)rm, da, (unsigned long)nbSeq, (unsigned long)most);
            if (ZSTD_isError(basic)) printf("E "); else printf("%lu ", (unsigned long)basic);
            if (ZSTD_isError(tbl)) printf("E "); else printf("%lu ", (unsigned long)tbl);
            printf("%lu\n", (unsigned long)comp);
        } else if (cmd[0] == 'A') {
            int strat = atoi(strtok(NULL, " \n")); size_t cs = (size_t)atol(strtok(NULL, " \n")); long rp[3]; int pref; size_t dn = HDRN + cs; unsigned char* d = (unsigned char*)malloc(dn + 1); int i;
            ZSTD_compressionParameters cp = ZSTD_getCParams(strat <= 1 ? 1 : strat == 2 ? 3 : 5, 0, dn); ZSTD_CDict* cd; ZSTD_CCtx* c = ZSTD_createCCtx();
            {   char* rs = strtok(NULL, " \n"); char* ps = strtok(NULL, " \n"); pref = ps ? atoi(ps) : 0; ints(rs, rp, 3); }
            memcpy(d, HDR, HDRN); fill(d + HDRN, cs); for (i = 0; i < 3; i++) MEM_writeLE32(d + HDRN - 12 + 4 * i, (U32)rp[i]);
            cp.strategy = (ZSTD_strategy)strat;
            cd = ZSTD_createCDict_advanced(d, dn, ZSTD_dlm_byRef, ZSTD_dct_fullDict, cp, ZSTD_defaultCMem);
            if (!cd) { printf("%s ERR createCDict\n", id); }
            else { ZSTD_CCtx_params prm; int sa; U32 retained = (U32)(cd->matchState.window.nextSrc - cd->matchState.window.base) - cd->matchState.window.dictLimit; size_t e;
                ZSTD_CCtxParams_init(&prm, 3); prm.attachDictPref = (ZSTD_dictAttachPref_e)pref;
                sa = ZSTD_shouldAttachDict(cd, &prm, ZSTD_CONTENTSIZE_UNKNOWN);
                ZSTD_CCtx_setParameter(c, ZSTD_c_forceAttachDict, pref);
                e = ZSTD_compressBegin_usingCDict(c, cd);
                if (ZSTD_isError(e)) printf("%s ERR begin\n", id);
                else { const ZSTD_matchState_t* ms = &c->blockState.matchState; U32 ps = ms->window.dictLimit; U32 r1 = c->blockState.prevCBlock->rep[0];
                    printf("%s OK %d %u %d %d %u %u,%u,%u %u\n", id, ZSTD_CDictIndicesAreTagged(&cd->matchState.cParams), retained, sa, ms->dictMatchState != NULL, ps,
                           r1, c->blockState.prevCBlock->rep[1], c->blockState.prevCBlock->rep[2], (U32)(ps + 1 - r1)); } }
            ZSTD_freeCDict(cd); ZSTD_freeCCtx(c); free(d);
        }
        else if (cmd[0] == 'W') {
            int mode = atoi(strtok(NULL, " \n")), strat = atoi(strtok(NULL, " \n")); unsigned wlog = (unsigned)atoi(strtok(NULL, " \n")); size_t dcs = (size_t)atol(strtok(NULL, " \n")), reuse = (size_t)atol(strtok(NULL, " \n"));
            char* sl = strtok(NULL, " \n"); static unsigned char* arena; static unsigned char* outb; size_t const AR = 4u << 20; unsigned char* d = (unsigned char*)malloc(dcs + 1);
            ZSTD_compressionParameters cp = ZSTD_getCParams(3, 0, dcs); ZSTD_CDict* cd; ZSTD_CCtx* c = ZSTD_createCCtx(); size_t e;
            if (!arena) { arena = (unsigned char*)malloc(AR); outb = (unsigned char*)malloc(AR); }
            fill(d, dcs); cp.strategy = (ZSTD_strategy)strat; cp.windowLog = wlog; cp = ZSTD_adjustCParams(cp, 0, dcs); cp.windowLog = wlog;
            cd = ZSTD_createCDict_advanced(d, dcs, ZSTD_dlm_byRef, ZSTD_dct_rawContent, cp, ZSTD_defaultCMem);
            if (reuse) { fill(arena, reuse); ZSTD_compressCCtx(c, outb, AR, arena, reuse, 1); }
            e = cd ? ZSTD_compressBegin_usingCDict(c, cd) : (size_t)-1;
            if (ZSTD_isError(e)) printf("%s ERR begin\n", id);
            else { const ZSTD_matchState_t* ms = &c->blockState.matchState; char* q = sl ? strtok(sl, ",") : NULL; int bad = 0;
                printf("%s OK %lu %u", id, (unsigned long)c->blockSize, 1u << c->appliedParams.cParams.windowLog);
#define PST() printf(" %lld:%lld:%u:%u:%lld:%u:%d:%u", (long long)(ms->window.base - arena), (long long)(ms->window.dictBase - arena), ms->window.dictLimit, ms->window.lowLimit, (long long)(ms->window.nextSrc - arena), ms->loadedDictEnd, ms->dictMatchState != NULL, \
                    ZSTD_getLowestMatchIndex(ms, (U32)(ms->window.nextSrc - ms->window.base), c->appliedParams.cParams.windowLog))
                PST();
                while (q && !bad) { unsigned long off, len; if (sscanf(q, "%lu:%lu", &off, &len) != 2 || off + len > AR) break;
                    fill(arena + off, len);
                    e = mode == 0 ? ZSTD_compressBlock(c, outb, AR, arena + off, len) : ZSTD_compressContinue(c, outb, AR, arena + off, len);
                    if (ZSTD_isError(e)) { printf(" ERR"); bad = 1; } else PST();
                    q = strtok(NULL, ","); }
                printf("\n"); }
            ZSTD_freeCDict(cd); ZSTD_freeCCtx(c); free(d);
        }
        fflush(stdout);
    }
    return 0;
}
